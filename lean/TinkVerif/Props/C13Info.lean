import TinkVerif.Model.KeysetInfo
import TinkVerif.Props.C12
import TinkVerif.Props.C01

/-!
# C13 — what `KeysetInfo()`, `String()` and the encrypted writers expose, for every keyset

`Model/KeysetInfo.lean` models keysets *with* key material (`FKey.value`, `FKey.material`) and the
functions of keyset/handle.go that turn them into `KeysetInfo` and `EncryptedKeyset` messages.

* **Non-interference** (`info_noninterference`, `info_ignores_key_material`): `info` is the same message
  for any two keysets that agree on the primary id and on (type URL, status, id, prefix type) of every
  key — whatever their key values and material types are. `info_entries`/`info_fields`/`keyInfo_fields`:
  one entry per key, in order, holding nothing but those four fields.
* **Encrypted form** (`encryptedKeyset_noninterference`, `encryptedKeyset_fields`, `binaryForm_fields`):
  the EncryptedKeyset message depends on the keyset only through the ciphertext and `info`; the binary
  writer's output is the ciphertext field alone.
* **Round trip** (`fromWire_toWire`, `parseKeyset_encode`, `readEncrypted_writeEncrypted`,
  `readBinary_writeBinary`): for every well-formed keyset and every key-encryption AEAD that decrypts
  what it encrypts (named hypothesis `Kek.CorrectAt`), reading what was written returns the keyset.
* **Binding** (`readEncrypted_wrong_ad`, `readEncrypted_wrong_key`, and the binary variants): under the
  named hypotheses `Kek.BindsAD` / `Kek.Separated` reading with other associated data or another key fails.
-/
namespace TinkVerif.KInfo
open TinkVerif TinkVerif.Wire

/-! ## non-interference -/

/-- two keysets with the same metadata: primary id and, key by key, type URL, status, id, prefix type -/
def Agree (a b : FKeyset) : Prop :=
  a.primary = b.primary ∧ a.keys.map FKey.meta = b.keys.map FKey.meta

theorem agree_iff (a b : FKeyset) :
    Agree a b ↔ a.primary = b.primary ∧ a.keys.length = b.keys.length ∧
      ∀ i (h1 : i < a.keys.length) (h2 : i < b.keys.length),
        a.keys[i].typeUrl = b.keys[i].typeUrl ∧ a.keys[i].status = b.keys[i].status ∧
        a.keys[i].keyId = b.keys[i].keyId ∧ a.keys[i].prefixType = b.keys[i].prefixType := by
  unfold Agree
  constructor
  · rintro ⟨hp, hk⟩
    have hl : a.keys.length = b.keys.length := by simpa using congrArg List.length hk
    refine ⟨hp, hl, fun i h1 h2 => ?_⟩
    have : (a.keys.map FKey.meta)[i]'(by simpa using h1) = (b.keys.map FKey.meta)[i]'(by simpa using h2) := by
      simp only [hk]
    simp only [List.getElem_map, FKey.meta, Meta.mk.injEq] at this
    exact this
  · rintro ⟨hp, hl, hk⟩
    refine ⟨hp, List.ext_getElem (by simpa using hl) fun i h1 h2 => ?_⟩
    simp only [List.getElem_map, FKey.meta, Meta.mk.injEq]
    exact hk i (by simpa using h1) (by simpa using h2)

/-- **Non-interference**: `KeysetInfo` is a function of the metadata only. -/
theorem info_noninterference (a b : FKeyset) (h : Agree a b) : info a = info b := by
  unfold info; rw [h.1, h.2]

/-- … in particular any change of the key values and material types leaves it unchanged
    (the replacement may depend on the position and on the old key). -/
theorem info_ignores_key_material (ks : FKeyset) (v : Nat → FKey → Bytes) (m : Nat → FKey → Nat) :
    info { ks with keys := ks.keys.mapIdx fun i k => { k with value := v i k, material := m i k } } = info ks := by
  apply info_noninterference
  refine ⟨rfl, ?_⟩
  apply List.ext_getElem (by simp)
  intro i h1 h2
  simp [FKey.meta]

/-! ## the content of KeysetInfo -/

theorem mem_optVar {f n : Nat} {x : Nat × Val} (h : x ∈ optVar f n) : x = (f, .varint n) := by
  unfold optVar at h; split at h <;> simp_all

theorem mem_optBytes {f : Nat} {b : Bytes} {x : Nat × Val} (h : x ∈ optBytes f b) : x = (f, .bytes b) := by
  unfold optBytes at h; split at h <;> simp_all

/-- a KeyInfo entry holds nothing but type URL, status, id and prefix type -/
theorem keyInfo_fields (m : Meta) (f : Nat × Val) (h : f ∈ keyInfoMsg m) :
    f = (1, .bytes m.typeUrl) ∨ f = (2, .varint m.status) ∨ f = (3, .varint m.keyId) ∨ f = (4, .varint m.prefixType) := by
  simp only [keyInfoMsg, List.mem_append] at h
  rcases h with ((h | h) | h) | h
  · exact .inl (mem_optBytes h)
  · exact .inr (.inl (mem_optVar h))
  · exact .inr (.inr (.inl (mem_optVar h)))
  · exact .inr (.inr (.inr (mem_optVar h)))

/-- KeysetInfo holds the primary id and one KeyInfo per key, nothing else -/
theorem info_fields (ks : FKeyset) (f : Nat × Val) (h : f ∈ info ks) :
    f = (1, .varint ks.primary) ∨ ∃ k ∈ ks.keys, f = (2, .bytes (encode (keyInfoMsg k.meta))) := by
  simp only [info, infoMsg, List.mem_append, List.mem_map] at h
  rcases h with h | ⟨m, ⟨k, hk, rfl⟩, rfl⟩
  · exact .inl (mem_optVar h)
  · exact .inr ⟨k, hk, rfl⟩

/-- **one entry per key, in key order** -/
theorem info_entries (ks : FKeyset) :
    (info ks).filter (fun f => f.1 == 2) = ks.keys.map fun k => (2, .bytes (encode (keyInfoMsg k.meta))) := by
  have h1 : (optVar 1 ks.primary).filter (fun f => f.1 == 2) = [] := by
    unfold optVar; split <;> simp
  simp only [info, infoMsg, List.filter_append, h1, List.nil_append, List.map_map]
  rw [List.filter_eq_self.mpr]
  · rfl
  · intro f hf
    simp only [List.mem_map, Function.comp_apply] at hf
    obtain ⟨k, _, rfl⟩ := hf
    rfl

theorem info_entries_length (ks : FKeyset) : ((info ks).filter (fun f => f.1 == 2)).length = ks.keys.length := by
  rw [info_entries]; simp

theorem info_entry (ks : FKeyset) (i : Nat) :
    ((info ks).filter (fun f => f.1 == 2))[i]? =
      ks.keys[i]?.map fun k => (2, .bytes (encode (keyInfoMsg ⟨k.typeUrl, k.status, k.keyId, k.prefixType⟩))) := by
  rw [info_entries, List.getElem?_map]; rfl

/-! ## the encrypted form -/

/-- the cleartext part of an EncryptedKeyset depends on the keyset only through its metadata -/
theorem encryptedKeyset_noninterference (ct : Bytes) (a b : FKeyset) (h : Agree a b) :
    encryptedKeyset ct a = encryptedKeyset ct b := by
  unfold encryptedKeyset; rw [info_noninterference a b h]

/-- it holds the ciphertext and the KeysetInfo, nothing else -/
theorem encryptedKeyset_fields (ct : Bytes) (ks : FKeyset) (f : Nat × Val) (h : f ∈ encryptedKeyset ct ks) :
    f = (2, .bytes ct) ∨ f = (3, .bytes (encode (info ks))) := by
  simp only [encryptedKeyset, List.mem_append, List.mem_singleton] at h
  rcases h with h | h
  · exact .inl (mem_optBytes h)
  · exact .inr h

/-- what the binary writer emits holds the ciphertext only -/
theorem binaryForm_fields (ct : Bytes) (f : Nat × Val) (h : f ∈ binaryForm ct) : f = (2, .bytes ct) :=
  mem_optBytes h

theorem writeEncrypted_noninterference (kek : Kek) (ad rnd : Bytes) (a b : FKeyset) (h : Agree a b)
    (hct : kek.enc rnd (encode (toWire a)) ad = kek.enc rnd (encode (toWire b)) ad) :
    writeEncrypted kek ad rnd a = writeEncrypted kek ad rnd b := by
  unfold writeEncrypted; rw [hct, encryptedKeyset_noninterference _ a b h]

theorem ciphertextOf_encryptedKeyset (ct : Bytes) (ks : FKeyset) : ciphertextOf (encryptedKeyset ct ks) = ct := by
  unfold encryptedKeyset optBytes ciphertextOf
  by_cases h : ct = []
  · simp [h, ctStep]
  · simp [h, ctStep]

theorem ciphertextOf_binaryForm (ct : Bytes) : ciphertextOf (binaryForm ct) = ct := by
  unfold binaryForm optBytes ciphertextOf
  by_cases h : ct = []
  · simp [h]
  · simp [h, ctStep]

/-! ## well-formedness: what Go's generated types can hold and `proto.Marshal` accepts -/

/-- an int32 enum number as a Marshal varint: non-negative, or the 64-bit sign extension of a negative one -/
def EnumOk (n : Nat) : Prop := n < 2147483648 ∨ (18446744071562067968 ≤ n ∧ n < 18446744073709551616)

structure FKey.WF (k : FKey) : Prop where
  utf8 : utf8Valid k.typeUrl = true                      -- `string` field: Marshal refuses invalid UTF-8
  material : EnumOk k.material
  status : EnumOk k.status
  prefixType : EnumOk k.prefixType
  keyId : k.keyId < 4294967296                            -- uint32
  urlLen : k.typeUrl.length < 2 ^ 64
  valueLen : k.value.length < 2 ^ 64
  kdLen : (encode (keyDataMsg k)).length < 2 ^ 64         -- lengths fit a varint (Go: < 2 GiB anyway)
  keyLen : (encode (keyMsg k)).length < 2 ^ 64

structure FKeyset.WF (ks : FKeyset) : Prop where
  primary : ks.primary < 4294967296
  keys : ∀ k ∈ ks.keys, k.WF

theorem enum32_of_ok (n : Nat) (h : EnumOk n) : enum32 n = n := by
  unfold enum32 EnumOk at *
  rcases h with h | ⟨h1, h2⟩
  · have : n % 4294967296 = n := Nat.mod_eq_of_lt (by omega)
    rw [this, if_pos h]
  · have hm : n % 4294967296 = n - 18446744069414584320 := by omega
    rw [hm, if_neg (by omega)]; omega

theorem enumOk_lt (n : Nat) (h : EnumOk n) : n < 2 ^ 64 := by
  unfold EnumOk at h; omega

theorem u32_of_lt (n : Nat) (h : n < 4294967296) : u32 n = n := Nat.mod_eq_of_lt h

theorem wf_append {a b : Msg} (ha : Msg.WF a) (hb : Msg.WF b) : Msg.WF (a ++ b) := by
  intro f hf
  rcases List.mem_append.mp hf with h | h
  · exact ha f h
  · exact hb f h

theorem wf_optVar (f n : Nat) (h1 : 1 ≤ f) (h2 : f < 2 ^ 29) (hn : n < 2 ^ 64) : Msg.WF (optVar f n) := by
  intro x hx
  rw [mem_optVar hx]
  exact ⟨h1, h2, hn⟩

theorem wf_optBytes (f : Nat) (b : Bytes) (h1 : 1 ≤ f) (h2 : f < 2 ^ 29) (hn : b.length < 2 ^ 64) :
    Msg.WF (optBytes f b) := by
  intro x hx
  rw [mem_optBytes hx]
  exact ⟨h1, h2, hn⟩

theorem wf_single (f : Nat) (b : Bytes) (h1 : 1 ≤ f) (h2 : f < 2 ^ 29) (hn : b.length < 2 ^ 64) :
    Msg.WF [(f, .bytes b)] := by
  intro x hx
  rw [List.mem_singleton.mp hx]
  exact ⟨h1, h2, hn⟩

theorem wf_keyDataMsg (k : FKey) (h : k.WF) : Msg.WF (keyDataMsg k) :=
  wf_append (wf_append (wf_optBytes 1 _ (by omega) (by omega) h.urlLen) (wf_optBytes 2 _ (by omega) (by omega) h.valueLen))
    (wf_optVar 3 _ (by omega) (by omega) (enumOk_lt _ h.material))

theorem wf_keyMsg (k : FKey) (h : k.WF) : Msg.WF (keyMsg k) :=
  wf_append (wf_append (wf_append (wf_single 1 _ (by omega) (by omega) h.kdLen)
    (wf_optVar 2 _ (by omega) (by omega) (enumOk_lt _ h.status)))
    (wf_optVar 3 _ (by omega) (by omega) (by have := h.keyId; omega)))
    (wf_optVar 4 _ (by omega) (by omega) (enumOk_lt _ h.prefixType))

theorem wf_toWire (ks : FKeyset) (h : ks.WF) : Msg.WF (toWire ks) := by
  refine wf_append (wf_optVar 1 _ (by omega) (by omega) (by have := h.primary; omega)) ?_
  intro x hx
  obtain ⟨k, hk, rfl⟩ := List.mem_map.mp hx
  exact ⟨by omega, by omega, (h.keys k hk).keyLen⟩

/-! ## `proto.Unmarshal ∘ proto.Marshal` on keysets -/

theorem parse_keyData (k acc : FKey) (h1 : acc.typeUrl = []) (h2 : acc.value = []) (h3 : acc.material = 0)
    (hu : utf8Valid k.typeUrl = true) (hm : enum32 k.material = k.material) :
    (keyDataMsg k).foldlM kdStep acc =
      some { acc with typeUrl := k.typeUrl, value := k.value, material := k.material } := by
  obtain ⟨a1, a2, a3, a4, a5, a6⟩ := acc
  simp only at h1 h2 h3
  subst h1 h2 h3
  unfold keyDataMsg optBytes optVar
  by_cases c1 : k.typeUrl = [] <;> by_cases c2 : k.value = [] <;> by_cases c3 : k.material = 0 <;>
    simp [c1, c2, c3, kdStep, hu, hm]

theorem parse_key_tail (acc : FKey) (s i p : Nat) (h1 : acc.status = 0) (h2 : acc.keyId = 0) (h3 : acc.prefixType = 0)
    (hs : enum32 s = s) (hi : u32 i = i) (hp : enum32 p = p) :
    (optVar 2 s ++ (optVar 3 i ++ optVar 4 p)).foldlM keyStep acc =
      some { acc with status := s, keyId := i, prefixType := p } := by
  obtain ⟨a1, a2, a3, a4, a5, a6⟩ := acc
  simp only at h1 h2 h3
  subst h1 h2 h3
  unfold optVar
  by_cases c1 : s = 0 <;> by_cases c2 : i = 0 <;> by_cases c3 : p = 0 <;>
    simp [c1, c2, c3, keyStep, hs, hi, hp]

/-- a Key message parses back to the key -/
theorem parse_key (k : FKey) (h : k.WF) : (keyMsg k).foldlM keyStep FKey.empty = some k := by
  unfold keyMsg
  simp only [List.append_assoc, List.cons_append, List.nil_append, List.foldlM_cons]
  have hd : keyStep FKey.empty (1, .bytes (encode (keyDataMsg k))) =
      some ⟨k.typeUrl, k.value, k.material, 0, 0, 0⟩ := by
    simp only [keyStep]
    rw [decode_encode _ (wf_keyDataMsg k h)]
    exact parse_keyData k FKey.empty rfl rfl rfl h.utf8 (enum32_of_ok _ h.material)
  rw [hd]
  simp only [Option.bind_eq_bind, Option.bind_some]
  rw [parse_key_tail _ _ _ _ rfl rfl rfl (enum32_of_ok _ h.status) (u32_of_lt _ h.keyId) (enum32_of_ok _ h.prefixType)]

theorem parse_keys (keys : List FKey) (h : ∀ k ∈ keys, k.WF) (acc : FKeyset) :
    (keys.map fun k => ((2, .bytes (encode (keyMsg k))) : Nat × Val)).foldlM ksStep acc =
      some { acc with keys := acc.keys ++ keys } := by
  induction keys generalizing acc with
  | nil => simp
  | cons k ks ih =>
    have hk := h k (List.mem_cons_self ..)
    simp only [List.map_cons, List.foldlM_cons]
    have hs : ksStep acc (2, .bytes (encode (keyMsg k))) = some { acc with keys := acc.keys ++ [k] } := by
      simp only [ksStep]
      rw [decode_encode _ (wf_keyMsg k hk)]
      simp only [parse_key k hk]
    rw [hs]
    simp only [Option.bind_eq_bind, Option.bind_some]
    rw [ih (fun k' hk' => h k' (List.mem_cons_of_mem _ hk'))]
    simp

/-- **Keyset message round trip**: `Unmarshal` of the fields `Marshal` writes gives the keyset back -/
theorem fromWire_toWire (ks : FKeyset) (h : ks.WF) : fromWire (toWire ks) = some ks := by
  unfold fromWire toWire optVar
  by_cases c : ks.primary = 0
  · simp only [c, ↓reduceIte, List.nil_append]
    rw [parse_keys _ h.keys]
    obtain ⟨p, keys⟩ := ks
    simp only at c
    simp [c]
  · simp only [c, ↓reduceIte, List.cons_append, List.nil_append, List.foldlM_cons, ksStep,
      Option.bind_eq_bind, Option.bind_some]
    rw [parse_keys _ h.keys, u32_of_lt _ h.primary]
    simp

/-- … at the byte level -/
theorem parseKeyset_encode (ks : FKeyset) (h : ks.WF) : parseKeyset (encode (toWire ks)) = some ks := by
  unfold parseKeyset
  rw [decode_encode _ (wf_toWire ks h)]
  exact fromWire_toWire ks h

/-! ## encrypted write / read -/

/-- the key-encryption AEAD decrypts what it encrypts (for the random bytes `rnd`) -/
def Kek.CorrectAt (k : Kek) (rnd : Bytes) : Prop := ∀ pt ad, k.dec (k.enc rnd pt ad) ad = some pt

/-- the associated data is bound: no ciphertext opens under other associated data -/
def Kek.BindsAD (k : Kek) : Prop := ∀ rnd pt ad ad', ad' ≠ ad → k.dec (k.enc rnd pt ad) ad' = none

/-- `k'` opens nothing `k` made -/
def Kek.Separated (k k' : Kek) : Prop := ∀ rnd pt ad ad', k'.dec (k.enc rnd pt ad) ad' = none

/-- **Round trip of the encrypted keyset** (MemReaderWriter / JSON form: ciphertext + KeysetInfo) -/
theorem readEncrypted_writeEncrypted (kek : Kek) (ad rnd : Bytes) (ks : FKeyset) (h : ks.WF)
    (hk : kek.CorrectAt rnd) : readEncrypted kek ad (writeEncrypted kek ad rnd ks) = some ks := by
  unfold readEncrypted writeEncrypted
  rw [ciphertextOf_encryptedKeyset, hk]
  exact parseKeyset_encode ks h

/-- the written bytes of the binary form are a function of the ciphertext alone -/
theorem writeBinary_eq (kek : Kek) (ad rnd : Bytes) (ks : FKeyset) :
    writeBinary kek ad rnd ks = encode (binaryForm (kek.enc rnd (encode (toWire ks)) ad)) := by
  unfold writeBinary writeEncrypted; rw [ciphertextOf_encryptedKeyset]

theorem readBinary_binaryForm (kek : Kek) (ad ct : Bytes) (hl : ct.length < 2 ^ 64) :
    readBinary kek ad (encode (binaryForm ct)) = (kek.dec ct ad).bind parseKeyset := by
  unfold readBinary
  rw [show binaryForm ct = optBytes 2 ct from rfl, decode_encode _ (wf_optBytes 2 _ (by omega) (by omega) hl)]
  simp only [readEncrypted]
  rw [show optBytes 2 ct = binaryForm ct from rfl, ciphertextOf_binaryForm]
  cases kek.dec ct ad <;> rfl

/-- **Round trip through the binary writer and reader** (bytes; the KeysetInfo is not even written) -/
theorem readBinary_writeBinary (kek : Kek) (ad rnd : Bytes) (ks : FKeyset) (h : ks.WF)
    (hk : kek.CorrectAt rnd) (hl : (kek.enc rnd (encode (toWire ks)) ad).length < 2 ^ 64) :
    readBinary kek ad (writeBinary kek ad rnd ks) = some ks := by
  rw [writeBinary_eq, readBinary_binaryForm _ _ _ hl, hk]
  exact parseKeyset_encode ks h

/-- other associated data: the read fails -/
theorem readEncrypted_wrong_ad (kek : Kek) (ad ad' rnd : Bytes) (ks : FKeyset) (hb : kek.BindsAD) (hne : ad' ≠ ad) :
    readEncrypted kek ad' (writeEncrypted kek ad rnd ks) = none := by
  unfold readEncrypted writeEncrypted
  rw [ciphertextOf_encryptedKeyset, hb _ _ _ _ hne]

/-- another key-encryption key: the read fails, whatever associated data is offered -/
theorem readEncrypted_wrong_key (kek kek' : Kek) (ad ad' rnd : Bytes) (ks : FKeyset) (hs : kek.Separated kek') :
    readEncrypted kek' ad' (writeEncrypted kek ad rnd ks) = none := by
  unfold readEncrypted writeEncrypted
  rw [ciphertextOf_encryptedKeyset, hs]

theorem readBinary_wrong_ad (kek : Kek) (ad ad' rnd : Bytes) (ks : FKeyset) (hb : kek.BindsAD) (hne : ad' ≠ ad)
    (hl : (kek.enc rnd (encode (toWire ks)) ad).length < 2 ^ 64) :
    readBinary kek ad' (writeBinary kek ad rnd ks) = none := by
  rw [writeBinary_eq, readBinary_binaryForm _ _ _ hl, hb _ _ _ _ hne]; rfl

theorem readBinary_wrong_key (kek kek' : Kek) (ad ad' rnd : Bytes) (ks : FKeyset) (hs : kek.Separated kek')
    (hl : (kek.enc rnd (encode (toWire ks)) ad).length < 2 ^ 64) :
    readBinary kek' ad' (writeBinary kek ad rnd ks) = none := by
  rw [writeBinary_eq, readBinary_binaryForm _ _ _ hl, hs]; rfl

/-! ### the hypotheses are met by Tink's own `prefix ‖ nonce ‖ Seal` AEADs (C01) -/

def Kek.ofFull (a : Aead.Full) : Kek := ⟨a.encryptWith, a.decrypt⟩

theorem Kek.ofFull_correct (a : Aead.Full) (h : Aead.RawLaw a.raw) (rnd : Bytes) (hr : rnd.length = a.raw.nonceLen) :
    (Kek.ofFull a).CorrectAt rnd := fun pt ad => Aead.Full.decrypt_encrypt a h rnd pt ad hr

theorem readEncrypted_writeEncrypted_full (a : Aead.Full) (h : Aead.RawLaw a.raw) (ad rnd : Bytes)
    (hr : rnd.length = a.raw.nonceLen) (ks : FKeyset) (hw : ks.WF) :
    readEncrypted (Kek.ofFull a) ad (writeEncrypted (Kek.ofFull a) ad rnd ks) = some ks :=
  readEncrypted_writeEncrypted _ ad rnd ks hw (Kek.ofFull_correct a h rnd hr)

/-! ### KeyInfo carries all four metadata fields (so non-interference is not vacuous) -/

def metaStep (m : Meta) (f : Nat × Val) : Meta :=
  match f with
  | (1, .bytes b) => { m with typeUrl := b }
  | (2, .varint v) => { m with status := v }
  | (3, .varint v) => { m with keyId := v }
  | (4, .varint v) => { m with prefixType := v }
  | _ => m

/-- reading the fields of a KeyInfo message back gives the key's metadata -/
theorem metaOf_keyInfoMsg (m : Meta) : (keyInfoMsg m).foldl metaStep ⟨[], 0, 0, 0⟩ = m := by
  obtain ⟨u, s, i, p⟩ := m
  unfold keyInfoMsg optBytes optVar
  by_cases c0 : u = [] <;> by_cases c1 : s = 0 <;> by_cases c2 : i = 0 <;> by_cases c3 : p = 0 <;>
    simp [c0, c1, c2, c3, metaStep]

theorem keyInfoMsg_injective (m m' : Meta) (h : keyInfoMsg m = keyInfoMsg m') : m = m' := by
  rw [← metaOf_keyInfoMsg m, ← metaOf_keyInfoMsg m', h]

/-! ### the hypotheses are satisfiable -/

/-- a toy key-encryption "AEAD" (no secrecy, but correct, binding its associated data, keys separated):
    key byte ‖ self-delimiting copy of the associated data ‖ plaintext -/
def toyWrap : Bytes → Bytes → Bytes
  | [], pt => 0 :: pt
  | a :: as, pt => 1 :: a :: toyWrap as pt

def toyStrip : Bytes → Bytes → Option Bytes
  | [], c :: rest => if c = 0 then some rest else none
  | a :: as, c :: b :: rest => if c = 1 ∧ a = b then toyStrip as rest else none
  | _, _ => none

def toyKek (key : UInt8) : Kek :=
  { enc := fun _ pt ad => key :: toyWrap ad pt,
    dec := fun ct ad => match ct with
      | c :: r => if c = key then toyStrip ad r else none
      | [] => none }

theorem toyStrip_wrap (ad pt : Bytes) : toyStrip ad (toyWrap ad pt) = some pt := by
  induction ad with
  | nil => simp [toyWrap, toyStrip]
  | cons a as ih => simp [toyWrap, toyStrip, ih]

theorem toyStrip_wrap_ne (ad' ad pt : Bytes) (h : ad' ≠ ad) : toyStrip ad' (toyWrap ad pt) = none := by
  induction ad' generalizing ad with
  | nil =>
    cases ad with
    | nil => exact absurd rfl h
    | cons a as => simp [toyWrap, toyStrip]
  | cons a' as' ih =>
    cases ad with
    | nil => cases pt <;> simp [toyWrap, toyStrip]
    | cons a as =>
      simp only [toyWrap, toyStrip]
      by_cases e : a' = a
      · subst e
        have : as' ≠ as := fun c => h (by rw [c])
        simp [ih as this]
      · simp [e]

example (key : UInt8) (rnd : Bytes) : (toyKek key).CorrectAt rnd := by
  intro pt ad; simp [toyKek, toyStrip_wrap]

example (key : UInt8) : (toyKek key).BindsAD := by
  intro rnd pt ad ad' h; simp [toyKek, toyStrip_wrap_ne ad' ad pt h]

example : (toyKek 1).Separated (toyKek 2) := by
  intro rnd pt ad ad'; simp [toyKek]

/-- a well-formed keyset: a TINK AES-GCM key (SYMMETRIC, ENABLED, id 7) and a RAW key with default fields -/
def exampleKeyset : FKeyset :=
  ⟨7, [⟨[0x61, 0x2f, 0x62], [0x1a, 0x10, 0x00, 0x01], 1, 1, 7, 1⟩, ⟨[], [], 0, 2, 0, 3⟩]⟩

theorem encVarint_small (n : Nat) (h : n < 128) : encVarint n = [UInt8.ofNat n] := by
  rw [encVarint]; simp [h]

example : exampleKeyset.WF := by
  refine ⟨by decide, ?_⟩
  intro k hk
  simp only [exampleKeyset, List.mem_cons, List.not_mem_nil, or_false] at hk
  rcases hk with rfl | rfl
  · refine ⟨by decide, .inl (by decide), .inl (by decide), .inl (by decide), by decide, by simp, by simp, ?_, ?_⟩ <;>
      simp [keyMsg, keyDataMsg, optBytes, optVar, encode, encField, Val.wireType, encVarint_small]
  · refine ⟨by decide, .inl (by decide), .inl (by decide), .inl (by decide), by decide, by simp, by simp, ?_, ?_⟩ <;>
      simp [keyMsg, keyDataMsg, optBytes, optVar, encode, encField, Val.wireType, encVarint_small]

example : readEncrypted (toyKek 1) [9] (writeEncrypted (toyKek 1) [9] [] exampleKeyset) = some exampleKeyset := by
  decide +kernel

end TinkVerif.KInfo

section AxiomAudit
open TinkVerif.KInfo
#print axioms agree_iff
#print axioms info_noninterference
#print axioms info_ignores_key_material
#print axioms keyInfo_fields
#print axioms info_fields
#print axioms info_entries
#print axioms info_entries_length
#print axioms info_entry
#print axioms keyInfoMsg_injective
#print axioms encryptedKeyset_noninterference
#print axioms encryptedKeyset_fields
#print axioms binaryForm_fields
#print axioms writeEncrypted_noninterference
#print axioms writeBinary_eq
#print axioms fromWire_toWire
#print axioms parseKeyset_encode
#print axioms readEncrypted_writeEncrypted
#print axioms readBinary_writeBinary
#print axioms readEncrypted_wrong_ad
#print axioms readEncrypted_wrong_key
#print axioms readBinary_wrong_ad
#print axioms readBinary_wrong_key
#print axioms readEncrypted_writeEncrypted_full
end AxiomAudit
