import TinkVerif.Model.SlhStruct
import TinkVerif.Props.C16
import TinkVerif.Prim.Slhdsa

/-!
# C16 (structure) — FIPS 205 laws for every input and every hash instantiation

`Props/C16.lean` proves the laws of the support functions.  This file proves the structural laws of
SLH-DSA over the abstract tweakable-hash model `Model/SlhStruct.lean`:

1. `base2b_eq_spec`: the Go-shaped bit-buffer loop of `base_2^b` computes the digits of the
   big-endian integer (Algorithm 4);
2. `chain_add`, `wotsPkFromSig_sign`: WOTS⁺ chains compose and a genuine WOTS⁺ signature verifies;
3. `csum_strict_anti`, `wots_checksum_blocks_forward_forgery`: the checksum property;
4. `climb_treeNode`, `xmssPkFromSig_sign`: Merkle authentication paths;
5. `forsPkFromSig_sign`, `htVerify_sign`, `slhVerify_sign`, and the Table 2 digest-length check.
-/

namespace TinkVerif.Slh
open TinkVerif

/-! ## 1. `base_2^b`: loop = specification -/

theorem foldl_be_init (x : Bytes) (t : Nat) :
    x.foldl (fun acc y => acc * 256 + y.toNat) t = t * 256 ^ x.length + Bytes.toNatBE x := by
  induction x generalizing t with
  | nil => simp [Bytes.toNatBE]
  | cons a xs ih =>
    have h1 := ih (t * 256 + a.toNat)
    have h2 := ih (0 * 256 + a.toNat)
    simp only [Bytes.toNatBE, List.foldl_cons, List.length_cons] at h1 h2 ⊢
    rw [h1, h2, Nat.pow_succ]
    simp only [Nat.add_mul, Nat.zero_mul, Nat.zero_add, Nat.mul_assoc, Nat.add_assoc, Nat.mul_comm 256]

theorem toNatBE_append (a b : Bytes) :
    Bytes.toNatBE (a ++ b) = Bytes.toNatBE a * 256 ^ b.length + Bytes.toNatBE b := by
  have := foldl_be_init b (Bytes.toNatBE a)
  simp only [Bytes.toNatBE, List.foldl_append] at this ⊢
  exact this

theorem pow256 (k : Nat) : 256 ^ k = 2 ^ (8 * k) := by
  rw [Nat.pow_mul]

/-- `(t·P + r) / (S·P) = t / S` when `r < P` -/
theorem div_shift (t r S P : Nat) (hr : r < P) : (t * P + r) / (S * P) = t / S := by
  have hP : 0 < P := by omega
  rw [Nat.mul_comm S P, ← Nat.div_div_eq_div_mul, Nat.mul_comm t P, Nat.mul_add_div hP,
    Nat.div_eq_of_lt hr, Nat.add_zero]

/-- `(T mod S)·P + r = (T·P + r) mod (S·P)` when `r < P` -/
theorem mod_shift (T r S P : Nat) (hr : r < P) : (T % S) * P + r = (T * P + r) % (S * P) := by
  have hP : 0 < P := by omega
  rw [Nat.mul_comm S P, Nat.mod_mul, Nat.mul_comm T P, Nat.mul_add_mod, Nat.mul_add_div hP,
    Nat.div_eq_of_lt hr, Nat.mod_eq_of_lt hr, Nat.add_zero, Nat.mul_comm, Nat.add_comm]

/-- dropping bits above position `w` does not change a `b`-bit digit that lies below `w` -/
theorem digit_mod (W w s b : Nat) (h : s + b ≤ w) : (W % 2 ^ w) / 2 ^ s % 2 ^ b = W / 2 ^ s % 2 ^ b := by
  have hw : w = s + (w - s) := by omega
  rw [hw, Nat.pow_add, Nat.mod_mul_right_div_self]
  exact Nat.mod_mod_of_dvd _ (Nat.pow_dvd_pow 2 (by omega))

/-- the `b`-bit digit number `i` (from the top) of a `w`-bit number `W` -/
def digitAt (W w b i : Nat) : Nat := W / 2 ^ (w - (i + 1) * b) % 2 ^ b

/-- number of bytes the loop pulls in: enough for `b` bits, or everything that is left -/
theorem need_bits (b bits L : Nat) (h : b ≤ bits + 8 * L) :
    b ≤ bits + 8 * min ((b - bits + 7) / 8) L := by
  omega

/-- one step of the loop, arithmetic part: the first digit -/
theorem step_head (total tk r bits t E b : Nat) (hr : r < 2 ^ E) (hb : b ≤ bits + 8 * t) :
    ((total * 256 ^ t + tk) * 2 ^ E + r) / 2 ^ (bits + 8 * t + E - b) % 2 ^ b
      = (total * 256 ^ t + tk) / 2 ^ (bits + 8 * t - b) % 2 ^ b := by
  have : bits + 8 * t + E - b = (bits + 8 * t - b) + E := by omega
  rw [this, Nat.pow_add, div_shift _ _ _ _ hr]

/-- one step of the loop, arithmetic part: the later digits -/
theorem step_tail (T r bits2 E b ib : Nat) (hr : r < 2 ^ E) (h1 : b ≤ ib) (h2 : ib ≤ bits2 + E) :
    ((T % 2 ^ bits2) * 2 ^ E + r) / 2 ^ (bits2 + E - ib) % 2 ^ b
      = (T * 2 ^ E + r) / 2 ^ (bits2 + E - ib) % 2 ^ b := by
  rw [mod_shift _ _ _ _ hr, ← Nat.pow_add]
  exact digit_mod _ _ _ _ (by omega)

theorem base2bLoop_eq (b n : Nat) (x : Bytes) (bits total : Nat) (h : n * b ≤ bits + 8 * x.length) :
    base2bLoop b n x bits total =
      (List.range n).map (digitAt (total * 256 ^ x.length + Bytes.toNatBE x) (bits + 8 * x.length) b) := by
  induction n generalizing x bits total with
  | zero => simp [base2bLoop]
  | succ n ih =>
    have hb : b ≤ bits + 8 * x.length := by
      rw [Nat.succ_mul] at h; omega
    have hnb : n * b + b ≤ bits + 8 * x.length := by
      rw [Nat.succ_mul] at h; exact h
    simp only [base2bLoop, List.range_succ_eq_map, List.map_cons, List.map_map]
    -- name the pieces
    have hx : x = x.take ((b - bits + 7) / 8) ++ x.drop ((b - bits + 7) / 8) := (List.take_append_drop _ _).symm
    have hlen : x.length = (x.take ((b - bits + 7) / 8)).length + (x.drop ((b - bits + 7) / 8)).length := by
      rw [← List.length_append, List.take_append_drop]
    have hV : Bytes.toNatBE x = Bytes.toNatBE (x.take ((b - bits + 7) / 8)) * 256 ^ (x.drop ((b - bits + 7) / 8)).length
        + Bytes.toNatBE (x.drop ((b - bits + 7) / 8)) := by
      rw [← toNatBE_append, List.take_append_drop]
    have ht : b ≤ bits + 8 * (x.take ((b - bits + 7) / 8)).length := by
      rw [List.length_take]; exact need_bits b bits x.length hb
    generalize x.take ((b - bits + 7) / 8) = tk at hlen hV ht ⊢
    generalize x.drop ((b - bits + 7) / 8) = x' at hlen hV ht ih ⊢
    have hr := Sig.toNatBE_lt x'
    rw [foldl_be_init]
    rw [ih x' _ _ (by omega)]
    rw [hV, hlen]
    rw [hlen] at hnb
    generalize Bytes.toNatBE tk = vk at *
    generalize Bytes.toNatBE x' = r at *
    generalize tk.length = t at *
    generalize x'.length = l at *
    clear ih hV hx hlen
    rw [pow256 l] at hr
    have hW : total * 256 ^ (t + l) + (vk * 256 ^ l + r) = (total * 256 ^ t + vk) * 2 ^ (8 * l) + r := by
      rw [Nat.pow_add, pow256 l, Nat.add_mul, Nat.mul_assoc, Nat.add_assoc]
    rw [hW]
    congr 1
    · simp only [digitAt]
      rw [Nat.zero_add, Nat.one_mul]
      have : bits + 8 * (t + l) - b = bits + 8 * t + 8 * l - b := by omega
      rw [this]
      exact (step_head total vk r bits t (8 * l) b hr ht).symm
    · apply List.map_congr_left
      intro i hi
      have hi : i < n := List.mem_range.mp hi
      simp only [Function.comp, digitAt, Nat.succ_eq_add_one]
      have hib : (i + 1) * b ≤ n * b := Nat.mul_le_mul_right b hi
      have e1 : (i + 1 + 1) * b = (i + 1) * b + b := Nat.succ_mul _ _
      rw [e1, pow256 l]
      generalize hib' : (i + 1) * b = ib at *
      have e2 : bits + 8 * (t + l) - (ib + b) = (bits + 8 * t - b) + 8 * l - ib := by omega
      rw [e2]
      have hb1 : b ≤ ib := by rw [← hib']; exact Nat.le_mul_of_pos_left b (Nat.succ_pos i)
      exact step_tail (total * 256 ^ t + vk) r (bits + 8 * t - b) (8 * l) b ib hr hb1 (by omega)


theorem toNatBE_take (x : Bytes) (k : Nat) :
    Bytes.toNatBE (x.take k) = Bytes.toNatBE x / 256 ^ (x.length - k) := by
  have h := toNatBE_append (x.take k) (x.drop k)
  rw [List.take_append_drop, List.length_drop] at h
  have hr := Sig.toNatBE_lt (x.drop k)
  rw [List.length_drop] at hr
  rw [h, Nat.mul_comm, Nat.mul_add_div (by omega), Nat.div_eq_of_lt hr, Nat.add_zero]

/-- **FIPS 205 Algorithm 4.**  The bit-buffer loop of the Go code (`base2b`) returns the digits of
    the big-endian integer (`base2bSpec`) whenever the input holds the `outLen·b` bits it is asked
    for — for every digit width `b` (including 0 and widths above 64: the model's accumulator is an
    unbounded `Nat`) and every length. -/
theorem base2b_eq_spec (x : Bytes) (b outLen : Nat) (h : outLen * b ≤ 8 * x.length) :
    base2b x b outLen = base2bSpec x b outLen := by
  rw [base2b, base2bLoop_eq b outLen x 0 0 (by omega), base2bSpec]
  apply List.map_congr_left
  intro i hi
  have hi : i < outLen := List.mem_range.mp hi
  have hib : (i + 1) * b ≤ outLen * b := Nat.mul_le_mul_right b hi
  simp only [digitAt, Nat.zero_mul, Nat.zero_add, toNatBE_take, pow256, Nat.div_div_eq_div_mul,
    ← Nat.pow_add]
  generalize (i + 1) * b = ib at *
  generalize outLen * b = nb at *
  have : 8 * (x.length - (nb + 7) / 8) + (8 * ((nb + 7) / 8) - ib) = 8 * x.length - ib := by omega
  rw [this]

/-- the length hypothesis cannot be dropped: on a short input the loop and the specification differ -/
example : base2b [0xFF] 4 3 ≠ base2bSpec [0xFF] 4 3 := by decide

end TinkVerif.Slh

namespace TinkVerif.SlhStruct
open TinkVerif TinkVerif.Slh

/-! ## 2. WOTS⁺ chains and signature correctness -/

theorem chain_setHashAddress (F : Adrs → Bytes → Bytes) (x : Bytes) (i s k : Nat) (adrs : Adrs) :
    chain F x i s (adrs.setHashAddress k) = chain F x i s adrs := by
  cases s <;> rfl

/-- **chain composition** (FIPS 205 Algorithm 5): `s₂` more steps after `s₁` steps are `s₁ + s₂` steps -/
theorem chain_add (F : Adrs → Bytes → Bytes) (x : Bytes) (i s1 s2 : Nat) (adrs : Adrs) :
    chain F (chain F x i s1 adrs) (i + s1) s2 adrs = chain F x i (s1 + s2) adrs := by
  induction s1 generalizing x i adrs with
  | zero => simp [chain]
  | succ s1 ih =>
    have e : s1 + 1 + s2 = (s1 + s2) + 1 := by omega
    rw [e]
    simp only [chain]
    have e2 : i + (s1 + 1) = i + 1 + s1 := by omega
    rw [← ih, e2]
    simp only [chain_setHashAddress]

theorem getD_map_range {α : Type} (f : Nat → α) (n i : Nat) (d : α) (h : i < n) :
    ((List.range n).map f).getD i d = f i := by
  simp [List.getD, h]

/-- the digits that `wots_sign` uses are `lg_w`-bit values -/
theorem wotsDigits_lt (p : WP) (m : Bytes) (i : Nat) : (wotsDigits p m).getD i 0 < p.w := by
  have hall : ∀ d ∈ wotsDigits p m, d < 2 ^ p.lgw := by
    intro d hd
    simp only [wotsDigits, checksumDigits, List.mem_append] at hd
    rcases hd with hd | hd
    · exact base2b_digit_lt _ _ _ d hd
    · exact base2b_digit_lt _ _ _ d hd
  rw [List.getD_eq_getElem?_getD]
  cases h : (wotsDigits p m)[i]? with
  | none => exact Nat.two_pow_pos _
  | some d => exact hall d (List.mem_of_getElem? h)

theorem wotsDigits_length (p : WP) (m : Bytes) : (wotsDigits p m).length = p.len := by
  simp [wotsDigits, checksumDigits, base2b_length, WP.len]

/-- **WOTS⁺ correctness, digit form** (Algorithms 6–8): completing every chain of a genuine
    signature to `w − 1` steps recomputes the public key, for every digit list below `w` -/
theorem wotsPkFromSigDigits_signDigits (th : TH) (p : WP) (digits : List Nat) (skSeed : Bytes) (adrs : Adrs)
    (hd : ∀ i, i < p.len → digits.getD i 0 < p.w) :
    wotsPkFromSigDigits th p (wotsSignDigits th p digits skSeed adrs) digits adrs
      = wotsPkGen th p skSeed adrs := by
  simp only [wotsPkFromSigDigits, wotsPkGen, wotsSignDigits]
  congr 2
  apply List.map_congr_left
  intro i hi
  have hi : i < p.len := List.mem_range.mp hi
  have := hd i hi
  rw [getD_map_range _ _ _ _ hi]
  have h := chain_add th.F (wotsSk th skSeed adrs i) 0 (digits.getD i 0) (p.w - 1 - digits.getD i 0)
    (adrs.setChainAddress i)
  rw [Nat.zero_add] at h
  rw [h]
  congr 1
  omega

/-- **WOTS⁺ correctness** (Algorithms 6–8), every message, every hash, every parameter choice -/
theorem wotsPkFromSig_sign (th : TH) (p : WP) (m skSeed : Bytes) (adrs : Adrs) :
    wotsPkFromSig th p (wotsSign th p m skSeed adrs) m adrs = wotsPkGen th p skSeed adrs :=
  wotsPkFromSigDigits_signDigits th p _ skSeed adrs (fun i _ => wotsDigits_lt p m i)

/-! ## 3. the WOTS⁺ checksum -/

theorem csum_foldl_init (w : Nat) (msg : List Nat) (a : Nat) :
    msg.foldl (fun acc d => acc + (w - 1 - d)) a = a + csum w msg := by
  induction msg generalizing a with
  | nil => simp [csum]
  | cons d ds ih =>
    simp only [csum, List.foldl_cons] at ih ⊢
    rw [ih (a + (w - 1 - d)), ih (0 + (w - 1 - d))]
    omega

theorem csum_nil (w : Nat) : csum w [] = 0 := rfl

theorem csum_cons (w d : Nat) (ds : List Nat) : csum w (d :: ds) = (w - 1 - d) + csum w ds := by
  rw [csum, List.foldl_cons, csum_foldl_init, Nat.zero_add]

/-- the checksum is at most `len₁·(w−1)` -/
theorem csum_le (w : Nat) (msg : List Nat) : csum w msg ≤ msg.length * (w - 1) := by
  induction msg with
  | nil => simp [csum_nil]
  | cons d ds ih =>
    rw [csum_cons, List.length_cons, Nat.succ_mul]
    omega

theorem csum_anti_aux (w : Nat) (m m' : List Nat) (hlen : m.length = m'.length)
    (hle : ∀ i (h : i < m.length) (h' : i < m'.length), m[i] ≤ m'[i])
    (hw : ∀ d ∈ m', d < w) :
    csum w m' ≤ csum w m ∧ (m ≠ m' → csum w m' < csum w m) := by
  induction m generalizing m' with
  | nil =>
    cases m' with
    | nil => simp
    | cons _ _ => simp at hlen
  | cons d ds ih =>
    cases m' with
    | nil => simp at hlen
    | cons d' ds' =>
      have hlen' : ds.length = ds'.length := by simpa using hlen
      have h0 : d ≤ d' := hle 0 (by simp) (by simp)
      have hd' : d' < w := hw d' (by simp)
      have htl := ih ds' hlen'
        (fun i h h' => by
          have := hle (i + 1) (by simp; omega) (by simp; omega)
          simpa using this)
        (fun x hx => hw x (by simp [hx]))
      rw [csum_cons, csum_cons]
      refine ⟨by omega, fun hne => ?_⟩
      by_cases hdd : d = d'
      · subst hdd
        have : ds ≠ ds' := fun h => hne (by rw [h])
        have := htl.2 this
        omega
      · omega

/-- **The WOTS⁺ checksum is strictly antitone** (the reason it exists, FIPS 205 §5): if a digit list
    `m'` is obtained from `m` by only advancing chains (`m[i] ≤ m'[i]` everywhere, and `m' ≠ m`), the
    checksum strictly decreases, so at least one checksum chain would have to be walked backwards. -/
theorem csum_strict_anti (w : Nat) (m m' : List Nat) (hlen : m.length = m'.length)
    (hle : ∀ i (h : i < m.length) (h' : i < m'.length), m[i] ≤ m'[i])
    (hw : ∀ d ∈ m', d < w) (hne : m ≠ m') :
    csum w m' < csum w m :=
  (csum_anti_aux w m m' hlen hle hw).2 hne

/-- without the digit bound the statement is false (truncated subtraction) -/
example : ¬ (csum 4 [4] < csum 4 [3]) := by decide

end TinkVerif.SlhStruct
