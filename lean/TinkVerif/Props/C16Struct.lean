import TinkVerif.Model.SlhStruct
import TinkVerif.Props.C16
import TinkVerif.Prim.Slhdsa

/-!
# C16 (structure) — FIPS 205 laws for every input and every hash instantiation

`Props/C16.lean` proves the laws of the support functions.  This file proves the structural laws of
SLH-DSA over the abstract tweakable-hash model `Model/SlhStruct.lean`:

1. `base2b_eq_spec`: the Go-shaped bit-buffer loop of `base_2^b` computes the digits of the
   big-endian integer (Algorithm 4);
2. `chain_add`, `wotsPkFromSig_sign`: WOTS⁺ chains compose and a genuine WOTS⁺ signature verifies;
3. `csum_strict_anti`, `wots_checksum_blocks_forward_forgery`: the checksum property;
4. `climb_treeNode`, `rootFromPath_authPath`: Merkle authentication paths;
5. `xmssPkFromSig_sign`, `htVerify_sign`, `forsPkFromSig_sign`, `slhVerify_sign`: XMSS, hypertree, FORS and
   the whole scheme verify their own signatures;
6. `table2_*`: the twelve parameter sets of Table 2 satisfy the side conditions (digest split length `m`,
   `h = d·h'`, `len₁·lg_w = 8n`, `len₁(w−1) < w^len₂`);
7. a toy instantiation showing that no hypothesis is vacuous and that the conclusions are not trivial.

None of the theorems assumes anything about the hash functions.
-/

namespace TinkVerif.Slh
open TinkVerif

/-! ## 1. `base_2^b`: loop = specification -/

theorem foldl_be_init (x : Bytes) (t : Nat) :
    x.foldl (fun acc y => acc * 256 + y.toNat) t = t * 256 ^ x.length + Bytes.toNatBE x := by
  induction x generalizing t with
  | nil => simp [Bytes.toNatBE]
  | cons a xs ih =>
    have h1 := ih (t * 256 + a.toNat)
    have h2 := ih (0 * 256 + a.toNat)
    simp only [Bytes.toNatBE, List.foldl_cons, List.length_cons] at h1 h2 ⊢
    rw [h1, h2, Nat.pow_succ]
    simp only [Nat.add_mul, Nat.zero_mul, Nat.zero_add, Nat.mul_assoc, Nat.add_assoc, Nat.mul_comm 256]

theorem toNatBE_append (a b : Bytes) :
    Bytes.toNatBE (a ++ b) = Bytes.toNatBE a * 256 ^ b.length + Bytes.toNatBE b := by
  have := foldl_be_init b (Bytes.toNatBE a)
  simp only [Bytes.toNatBE, List.foldl_append] at this ⊢
  exact this

theorem pow256 (k : Nat) : 256 ^ k = 2 ^ (8 * k) := by
  rw [Nat.pow_mul]

/-- `(t·P + r) / (S·P) = t / S` when `r < P` -/
theorem div_shift (t r S P : Nat) (hr : r < P) : (t * P + r) / (S * P) = t / S := by
  have hP : 0 < P := by omega
  rw [Nat.mul_comm S P, ← Nat.div_div_eq_div_mul, Nat.mul_comm t P, Nat.mul_add_div hP,
    Nat.div_eq_of_lt hr, Nat.add_zero]

/-- `(T mod S)·P + r = (T·P + r) mod (S·P)` when `r < P` -/
theorem mod_shift (T r S P : Nat) (hr : r < P) : (T % S) * P + r = (T * P + r) % (S * P) := by
  have hP : 0 < P := by omega
  rw [Nat.mul_comm S P, Nat.mod_mul, Nat.mul_comm T P, Nat.mul_add_mod, Nat.mul_add_div hP,
    Nat.div_eq_of_lt hr, Nat.mod_eq_of_lt hr, Nat.add_zero, Nat.mul_comm, Nat.add_comm]

/-- dropping bits above position `w` does not change a `b`-bit digit that lies below `w` -/
theorem digit_mod (W w s b : Nat) (h : s + b ≤ w) : (W % 2 ^ w) / 2 ^ s % 2 ^ b = W / 2 ^ s % 2 ^ b := by
  have hw : w = s + (w - s) := by omega
  rw [hw, Nat.pow_add, Nat.mod_mul_right_div_self]
  exact Nat.mod_mod_of_dvd _ (Nat.pow_dvd_pow 2 (by omega))

/-- the `b`-bit digit number `i` (from the top) of a `w`-bit number `W` -/
def digitAt (W w b i : Nat) : Nat := W / 2 ^ (w - (i + 1) * b) % 2 ^ b

/-- number of bytes the loop pulls in: enough for `b` bits, or everything that is left -/
theorem need_bits (b bits L : Nat) (h : b ≤ bits + 8 * L) :
    b ≤ bits + 8 * min ((b - bits + 7) / 8) L := by
  omega

/-- one step of the loop, arithmetic part: the first digit -/
theorem step_head (total tk r bits t E b : Nat) (hr : r < 2 ^ E) (hb : b ≤ bits + 8 * t) :
    ((total * 256 ^ t + tk) * 2 ^ E + r) / 2 ^ (bits + 8 * t + E - b) % 2 ^ b
      = (total * 256 ^ t + tk) / 2 ^ (bits + 8 * t - b) % 2 ^ b := by
  have : bits + 8 * t + E - b = (bits + 8 * t - b) + E := by omega
  rw [this, Nat.pow_add, div_shift _ _ _ _ hr]

/-- one step of the loop, arithmetic part: the later digits -/
theorem step_tail (T r bits2 E b ib : Nat) (hr : r < 2 ^ E) (h1 : b ≤ ib) (h2 : ib ≤ bits2 + E) :
    ((T % 2 ^ bits2) * 2 ^ E + r) / 2 ^ (bits2 + E - ib) % 2 ^ b
      = (T * 2 ^ E + r) / 2 ^ (bits2 + E - ib) % 2 ^ b := by
  rw [mod_shift _ _ _ _ hr, ← Nat.pow_add]
  exact digit_mod _ _ _ _ (by omega)

theorem base2bLoop_eq (b n : Nat) (x : Bytes) (bits total : Nat) (h : n * b ≤ bits + 8 * x.length) :
    base2bLoop b n x bits total =
      (List.range n).map (digitAt (total * 256 ^ x.length + Bytes.toNatBE x) (bits + 8 * x.length) b) := by
  induction n generalizing x bits total with
  | zero => simp [base2bLoop]
  | succ n ih =>
    have hb : b ≤ bits + 8 * x.length := by
      rw [Nat.succ_mul] at h; omega
    have hnb : n * b + b ≤ bits + 8 * x.length := by
      rw [Nat.succ_mul] at h; exact h
    simp only [base2bLoop, List.range_succ_eq_map, List.map_cons, List.map_map]
    -- name the pieces
    have hx : x = x.take ((b - bits + 7) / 8) ++ x.drop ((b - bits + 7) / 8) := (List.take_append_drop _ _).symm
    have hlen : x.length = (x.take ((b - bits + 7) / 8)).length + (x.drop ((b - bits + 7) / 8)).length := by
      rw [← List.length_append, List.take_append_drop]
    have hV : Bytes.toNatBE x = Bytes.toNatBE (x.take ((b - bits + 7) / 8)) * 256 ^ (x.drop ((b - bits + 7) / 8)).length
        + Bytes.toNatBE (x.drop ((b - bits + 7) / 8)) := by
      rw [← toNatBE_append, List.take_append_drop]
    have ht : b ≤ bits + 8 * (x.take ((b - bits + 7) / 8)).length := by
      rw [List.length_take]; exact need_bits b bits x.length hb
    generalize x.take ((b - bits + 7) / 8) = tk at hlen hV ht ⊢
    generalize x.drop ((b - bits + 7) / 8) = x' at hlen hV ht ih ⊢
    have hr := Sig.toNatBE_lt x'
    rw [foldl_be_init]
    rw [ih x' _ _ (by omega)]
    rw [hV, hlen]
    rw [hlen] at hnb
    generalize Bytes.toNatBE tk = vk at *
    generalize Bytes.toNatBE x' = r at *
    generalize tk.length = t at *
    generalize x'.length = l at *
    clear ih hV hx hlen
    rw [pow256 l] at hr
    have hW : total * 256 ^ (t + l) + (vk * 256 ^ l + r) = (total * 256 ^ t + vk) * 2 ^ (8 * l) + r := by
      rw [Nat.pow_add, pow256 l, Nat.add_mul, Nat.mul_assoc, Nat.add_assoc]
    rw [hW]
    congr 1
    · simp only [digitAt]
      rw [Nat.zero_add, Nat.one_mul]
      have : bits + 8 * (t + l) - b = bits + 8 * t + 8 * l - b := by omega
      rw [this]
      exact (step_head total vk r bits t (8 * l) b hr ht).symm
    · apply List.map_congr_left
      intro i hi
      have hi : i < n := List.mem_range.mp hi
      simp only [Function.comp, digitAt, Nat.succ_eq_add_one]
      have hib : (i + 1) * b ≤ n * b := Nat.mul_le_mul_right b hi
      have e1 : (i + 1 + 1) * b = (i + 1) * b + b := Nat.succ_mul _ _
      rw [e1, pow256 l]
      generalize hib' : (i + 1) * b = ib at *
      have e2 : bits + 8 * (t + l) - (ib + b) = (bits + 8 * t - b) + 8 * l - ib := by omega
      rw [e2]
      have hb1 : b ≤ ib := by rw [← hib']; exact Nat.le_mul_of_pos_left b (Nat.succ_pos i)
      exact step_tail (total * 256 ^ t + vk) r (bits + 8 * t - b) (8 * l) b ib hr hb1 (by omega)


theorem toNatBE_take (x : Bytes) (k : Nat) :
    Bytes.toNatBE (x.take k) = Bytes.toNatBE x / 256 ^ (x.length - k) := by
  have h := toNatBE_append (x.take k) (x.drop k)
  rw [List.take_append_drop, List.length_drop] at h
  have hr := Sig.toNatBE_lt (x.drop k)
  rw [List.length_drop] at hr
  rw [h, Nat.mul_comm, Nat.mul_add_div (by omega), Nat.div_eq_of_lt hr, Nat.add_zero]

/-- **FIPS 205 Algorithm 4.**  The bit-buffer loop of the Go code (`base2b`) returns the digits of
    the big-endian integer (`base2bSpec`) whenever the input holds the `outLen·b` bits it is asked
    for — for every digit width `b` (including 0 and widths above 64: the model's accumulator is an
    unbounded `Nat`) and every length. -/
theorem base2b_eq_spec (x : Bytes) (b outLen : Nat) (h : outLen * b ≤ 8 * x.length) :
    base2b x b outLen = base2bSpec x b outLen := by
  rw [base2b, base2bLoop_eq b outLen x 0 0 (by omega), base2bSpec]
  apply List.map_congr_left
  intro i hi
  have hi : i < outLen := List.mem_range.mp hi
  have hib : (i + 1) * b ≤ outLen * b := Nat.mul_le_mul_right b hi
  simp only [digitAt, Nat.zero_mul, Nat.zero_add, toNatBE_take, pow256, Nat.div_div_eq_div_mul,
    ← Nat.pow_add]
  generalize (i + 1) * b = ib at *
  generalize outLen * b = nb at *
  have : 8 * (x.length - (nb + 7) / 8) + (8 * ((nb + 7) / 8) - ib) = 8 * x.length - ib := by omega
  rw [this]

/-- the length hypothesis cannot be dropped: on a short input the loop and the specification differ -/
example : base2b [0xFF] 4 3 ≠ base2bSpec [0xFF] 4 3 := by decide

end TinkVerif.Slh

namespace TinkVerif.SlhStruct
open TinkVerif TinkVerif.Slh

/-! ## 2. WOTS⁺ chains and signature correctness -/

theorem chain_setHashAddress (F : Adrs → Bytes → Bytes) (x : Bytes) (i s k : Nat) (adrs : Adrs) :
    chain F x i s (adrs.setHashAddress k) = chain F x i s adrs := by
  cases s <;> rfl

/-- **chain composition** (FIPS 205 Algorithm 5): `s₂` more steps after `s₁` steps are `s₁ + s₂` steps -/
theorem chain_add (F : Adrs → Bytes → Bytes) (x : Bytes) (i s1 s2 : Nat) (adrs : Adrs) :
    chain F (chain F x i s1 adrs) (i + s1) s2 adrs = chain F x i (s1 + s2) adrs := by
  induction s1 generalizing x i adrs with
  | zero => simp [chain]
  | succ s1 ih =>
    have e : s1 + 1 + s2 = (s1 + s2) + 1 := by omega
    rw [e]
    simp only [chain]
    have e2 : i + (s1 + 1) = i + 1 + s1 := by omega
    rw [← ih, e2]
    simp only [chain_setHashAddress]

theorem getD_map_range {α : Type} (f : Nat → α) (n i : Nat) (d : α) (h : i < n) :
    ((List.range n).map f).getD i d = f i := by
  simp [List.getD, h]

/-- the digits that `wots_sign` uses are `lg_w`-bit values -/
theorem wotsDigits_lt (p : WP) (m : Bytes) (i : Nat) : (wotsDigits p m).getD i 0 < p.w := by
  have hall : ∀ d ∈ wotsDigits p m, d < 2 ^ p.lgw := by
    intro d hd
    simp only [wotsDigits, checksumDigits, List.mem_append] at hd
    rcases hd with hd | hd
    · exact base2b_digit_lt _ _ _ d hd
    · exact base2b_digit_lt _ _ _ d hd
  rw [List.getD_eq_getElem?_getD]
  cases h : (wotsDigits p m)[i]? with
  | none => exact Nat.two_pow_pos _
  | some d => exact hall d (List.mem_of_getElem? h)

theorem wotsDigits_length (p : WP) (m : Bytes) : (wotsDigits p m).length = p.len := by
  simp [wotsDigits, checksumDigits, base2b_length, WP.len]

/-- **WOTS⁺ correctness, digit form** (Algorithms 6–8): completing every chain of a genuine
    signature to `w − 1` steps recomputes the public key, for every digit list below `w` -/
theorem wotsPkFromSigDigits_signDigits (th : TH) (p : WP) (digits : List Nat) (skSeed : Bytes) (adrs : Adrs)
    (hd : ∀ i, i < p.len → digits.getD i 0 < p.w) :
    wotsPkFromSigDigits th p (wotsSignDigits th p digits skSeed adrs) digits adrs
      = wotsPkGen th p skSeed adrs := by
  simp only [wotsPkFromSigDigits, wotsPkGen, wotsSignDigits]
  congr 2
  apply List.map_congr_left
  intro i hi
  have hi : i < p.len := List.mem_range.mp hi
  have := hd i hi
  rw [getD_map_range _ _ _ _ hi]
  have h := chain_add th.F (wotsSk th skSeed adrs i) 0 (digits.getD i 0) (p.w - 1 - digits.getD i 0)
    (adrs.setChainAddress i)
  rw [Nat.zero_add] at h
  rw [h]
  congr 1
  omega

/-- **WOTS⁺ correctness** (Algorithms 6–8), every message, every hash, every parameter choice -/
theorem wotsPkFromSig_sign (th : TH) (p : WP) (m skSeed : Bytes) (adrs : Adrs) :
    wotsPkFromSig th p (wotsSign th p m skSeed adrs) m adrs = wotsPkGen th p skSeed adrs :=
  wotsPkFromSigDigits_signDigits th p _ skSeed adrs (fun i _ => wotsDigits_lt p m i)

/-! ## 3. the WOTS⁺ checksum -/

theorem csum_foldl_init (w : Nat) (msg : List Nat) (a : Nat) :
    msg.foldl (fun acc d => acc + (w - 1 - d)) a = a + csum w msg := by
  induction msg generalizing a with
  | nil => simp [csum]
  | cons d ds ih =>
    simp only [csum, List.foldl_cons] at ih ⊢
    rw [ih (a + (w - 1 - d)), ih (0 + (w - 1 - d))]
    omega

theorem csum_nil (w : Nat) : csum w [] = 0 := rfl

theorem csum_cons (w d : Nat) (ds : List Nat) : csum w (d :: ds) = (w - 1 - d) + csum w ds := by
  rw [csum, List.foldl_cons, csum_foldl_init, Nat.zero_add]

/-- the checksum is at most `len₁·(w−1)` -/
theorem csum_le (w : Nat) (msg : List Nat) : csum w msg ≤ msg.length * (w - 1) := by
  induction msg with
  | nil => simp [csum_nil]
  | cons d ds ih =>
    rw [csum_cons, List.length_cons, Nat.succ_mul]
    omega

theorem csum_anti_aux (w : Nat) (m m' : List Nat) (hlen : m.length = m'.length)
    (hle : ∀ i (h : i < m.length) (h' : i < m'.length), m[i] ≤ m'[i])
    (hw : ∀ d ∈ m', d < w) :
    csum w m' ≤ csum w m ∧ (m ≠ m' → csum w m' < csum w m) := by
  induction m generalizing m' with
  | nil =>
    cases m' with
    | nil => simp
    | cons _ _ => simp at hlen
  | cons d ds ih =>
    cases m' with
    | nil => simp at hlen
    | cons d' ds' =>
      have hlen' : ds.length = ds'.length := by simpa using hlen
      have h0 : d ≤ d' := hle 0 (by simp) (by simp)
      have hd' : d' < w := hw d' (by simp)
      have htl := ih ds' hlen'
        (fun i h h' => by
          have := hle (i + 1) (by simp; omega) (by simp; omega)
          simpa using this)
        (fun x hx => hw x (by simp [hx]))
      rw [csum_cons, csum_cons]
      refine ⟨by omega, fun hne => ?_⟩
      by_cases hdd : d = d'
      · subst hdd
        have : ds ≠ ds' := fun h => hne (by rw [h])
        have := htl.2 this
        omega
      · omega

/-- **The WOTS⁺ checksum is strictly antitone** (the reason it exists, FIPS 205 §5): if a digit list
    `m'` is obtained from `m` by only advancing chains (`m[i] ≤ m'[i]` everywhere, and `m' ≠ m`), the
    checksum strictly decreases, so at least one checksum chain would have to be walked backwards. -/
theorem csum_strict_anti (w : Nat) (m m' : List Nat) (hlen : m.length = m'.length)
    (hle : ∀ i (h : i < m.length) (h' : i < m'.length), m[i] ≤ m'[i])
    (hw : ∀ d ∈ m', d < w) (hne : m ≠ m') :
    csum w m' < csum w m :=
  (csum_anti_aux w m m' hlen hle hw).2 hne

/-- without the digit bound the statement is false (truncated subtraction) -/
example : ¬ (csum 4 [4] < csum 4 [3]) := by decide

theorem shift_pad (T : Nat) : (8 - T % 8) % 8 + T = 8 * ((T + 7) / 8) := by omega

/-- `(c·2^sh) / 2^(sh + e) = c / 2^e` -/
theorem shl_div (c sh e : Nat) : c * 2 ^ sh / 2 ^ (sh + e) = c / 2 ^ e := by
  rw [Nat.pow_add, ← Nat.div_div_eq_div_mul, Nat.mul_div_cancel _ (Nat.two_pow_pos sh)]

/-- **Algorithm 7 lines 5–7**: the `len₂` checksum digits are the base-`w` digits (most significant
    first) of `csum`, provided `csum < w^len₂` (which `len₂` is chosen to guarantee) -/
theorem checksumDigits_eq (p : WP) (msg : List Nat) (hc : csum p.w msg < 2 ^ (p.len2 * p.lgw)) :
    checksumDigits p msg =
      (List.range p.len2).map fun j => csum p.w msg / 2 ^ ((p.len2 - 1 - j) * p.lgw) % 2 ^ p.lgw := by
  unfold checksumDigits
  simp only []
  generalize csum p.w msg = c at *
  have hpad := shift_pad (p.len2 * p.lgw)
  rw [base2b_eq_spec _ _ _ (by rw [toByte_length]; omega)]
  unfold base2bSpec
  simp only []
  rw [List.take_of_length_le (by rw [toByte_length]; omega)]
  have hv : Bytes.toNatBE (toByte (c <<< ((8 - p.len2 * p.lgw % 8) % 8)) ((p.len2 * p.lgw + 7) / 8))
      = c * 2 ^ ((8 - p.len2 * p.lgw % 8) % 8) := by
    have := toInt_toByte (c <<< ((8 - p.len2 * p.lgw % 8) % 8)) ((p.len2 * p.lgw + 7) / 8)
    rw [toInt] at this
    rw [this, Nat.shiftLeft_eq, pow256, ← hpad, Nat.pow_add]
    apply Nat.mod_eq_of_lt
    rw [Nat.mul_comm (2 ^ _)]
    exact Nat.mul_lt_mul_of_pos_right hc (Nat.two_pow_pos _)
  rw [hv]
  apply List.map_congr_left
  intro j hj
  have hj : j < p.len2 := List.mem_range.mp hj
  have e1 : (p.len2 - 1 - j) * p.lgw = p.len2 * p.lgw - (j + 1) * p.lgw := by
    rw [Nat.sub_sub, Nat.add_comm 1 j, Nat.sub_mul]
  have e2 : (j + 1) * p.lgw ≤ p.len2 * p.lgw := Nat.mul_le_mul_right _ hj
  rw [e1]
  generalize (j + 1) * p.lgw = jb at *
  generalize p.len2 * p.lgw = T at *
  have e3 : 8 * ((T + 7) / 8) - jb = (8 - T % 8) % 8 + (T - jb) := by omega
  rw [e3, shl_div]



/-- digit-wise `≤` in base `B` implies `≤` of the numbers (below `B^n`) -/
theorem mod_pow_le_of_digits_le (B x y n : Nat)
    (h : ∀ j, j < n → x / B ^ j % B ≤ y / B ^ j % B) : x % B ^ n ≤ y % B ^ n := by
  induction n with
  | zero => simp [Nat.mod_one]
  | succ n ih =>
    rw [Nat.mod_pow_succ, Nat.mod_pow_succ]
    have h1 := ih (fun j hj => h j (by omega))
    have h2 := Nat.mul_le_mul_left (B ^ n) (h n (by omega))
    omega

/-- **No forgery by advancing chains only** (FIPS 205 §5; WOTS⁺ one-wayness argument).
    Let `msg`, `msg'` be two different `len₁`-digit messages with `msg[i] ≤ msg'[i]` for all `i`
    (so every message chain of `msg'` could be obtained from the signature of `msg` by hashing
    forward).  Then some checksum digit of `msg'` is strictly smaller than that of `msg`: that chain
    would have to be inverted.  `hcap` is the defining property of `len₂` (`len₁(w−1) < w^len₂`). -/
theorem wots_checksum_blocks_forward_forgery (p : WP) (msg msg' : List Nat)
    (hlen : msg.length = msg'.length)
    (hle : ∀ i (h : i < msg.length) (h' : i < msg'.length), msg[i] ≤ msg'[i])
    (hw : ∀ d ∈ msg', d < p.w) (hne : msg ≠ msg')
    (hcap : msg.length * (p.w - 1) < 2 ^ (p.len2 * p.lgw)) :
    ∃ j, j < p.len2 ∧ (checksumDigits p msg').getD j 0 < (checksumDigits p msg).getD j 0 := by
  have hlt := csum_strict_anti p.w msg msg' hlen hle hw hne
  have hc : csum p.w msg < 2 ^ (p.len2 * p.lgw) := Nat.lt_of_le_of_lt (csum_le _ _) hcap
  have hc' : csum p.w msg' < 2 ^ (p.len2 * p.lgw) := Nat.lt_trans hlt hc
  apply Classical.byContradiction
  intro hcon
  have hall : ∀ j, j < p.len2 → (checksumDigits p msg).getD j 0 ≤ (checksumDigits p msg').getD j 0 := by
    intro j hj
    apply Nat.le_of_not_lt
    intro h
    exact hcon ⟨j, hj, h⟩
  rw [checksumDigits_eq p msg hc, checksumDigits_eq p msg' hc'] at hall
  have hmod := mod_pow_le_of_digits_le (2 ^ p.lgw) (csum p.w msg) (csum p.w msg') p.len2 (by
    intro j hj
    have := hall (p.len2 - 1 - j) (by omega)
    rw [getD_map_range _ _ _ _ (by omega), getD_map_range _ _ _ _ (by omega)] at this
    have e : p.len2 - 1 - (p.len2 - 1 - j) = j := by omega
    rw [e, Nat.mul_comm j, Nat.pow_mul] at this
    exact this)
  rw [← Nat.pow_mul, Nat.mul_comm p.lgw, Nat.mod_eq_of_lt hc, Nat.mod_eq_of_lt hc'] at hmod
  omega

/-! ## 4. Merkle authentication paths -/

theorem xor_one_eq (x : Nat) : x ^^^ 1 = 2 * (x / 2) + (1 - x % 2) := by
  have hd : (x ^^^ 1) / 2 = x / 2 := by rw [Nat.xor_div_two]; simp
  have hm : ((x ^^^ 1) % 2 = 1) ↔ ¬ ((x % 2 = 1) ↔ (1 % 2 = 1)) := Nat.xor_mod_two_eq_one
  have := Nat.div_add_mod (x ^^^ 1) 2
  rw [hd] at this
  have h2 := Nat.mod_lt (x ^^^ 1) (by decide : 0 < 2)
  generalize (x ^^^ 1) % 2 = r at *
  generalize x ^^^ 1 = y at *
  omega

/-- the sibling of an even node is the next one, of an odd node the previous one -/
theorem xor_one_even (i : Nat) : (2 * i) ^^^ 1 = 2 * i + 1 := by rw [xor_one_eq]; omega
theorem xor_one_odd (i : Nat) : (2 * i + 1) ^^^ 1 = 2 * i := by rw [xor_one_eq]; omega

theorem div_pow_succ (g k : Nat) : g / 2 ^ (k + 1) = g / 2 ^ k / 2 := by
  rw [Nat.pow_succ, Nat.div_div_eq_div_mul]

/-- the tree below `treeNode` never reads the height/index words of its base address -/
theorem treeNode_base (H : Adrs → Bytes → Bytes) (leaf : Nat → Bytes) (a : Adrs) (x y i z : Nat) :
    treeNode H leaf ((a.setTreeHeight x).setTreeIndex y) i z = treeNode H leaf a i z := by
  induction z generalizing i with
  | zero => rfl
  | succ z ih => simp only [treeNode, ih]; rfl

theorem adrs_step (base : Adrs) (hh x k y : Nat) :
    (((base.setTreeHeight hh).setTreeIndex x).setTreeHeight (k + 1)).setTreeIndex y
      = (base.setTreeHeight (k + 1)).setTreeIndex y := rfl

theorem adrs_step_idx (base : Adrs) (hh x k : Nat) :
    (((base.setTreeHeight hh).setTreeIndex x).setTreeHeight (k + 1)).getTreeIndex = x := rfl

/-- **Merkle authentication path, general form** (the loop of Algorithms 11 and 17).
    Start at level `k` with the node above global leaf `g` (node `g / 2^k`), the address holding that
    tree index; let the next `cnt` path entries be the siblings `(g / 2^j) ⊕ 1` and let `idx` have the
    parities of `g` on these levels.  Then the loop arrives at node `g / 2^(k+cnt)` of level `k + cnt`. -/
theorem climb_treeNode (H : Adrs → Bytes → Bytes) (leaf : Nat → Bytes) (base : Adrs) (idx g : Nat)
    (auth : List Bytes) (cnt k hh : Nat)
    (hpar : ∀ j, k ≤ j → j < k + cnt → (idx / 2 ^ j) % 2 = (g / 2 ^ j) % 2)
    (hauth : ∀ j, k ≤ j → j < k + cnt → auth.getD j [] = treeNode H leaf base ((g / 2 ^ j) ^^^ 1) j) :
    climb H idx auth cnt k ((base.setTreeHeight hh).setTreeIndex (g / 2 ^ k)) (treeNode H leaf base (g / 2 ^ k) k)
      = treeNode H leaf base (g / 2 ^ (k + cnt)) (k + cnt) := by
  induction cnt generalizing k hh with
  | zero => rfl
  | succ cnt ih =>
    have hp := hpar k (Nat.le_refl k) (by omega)
    have ha := hauth k (Nat.le_refl k) (by omega)
    have ih' := ih (k + 1) (k + 1)
      (fun j h1 h2 => hpar j (by omega) (by omega)) (fun j h1 h2 => hauth j (by omega) (by omega))
    have e : k + (cnt + 1) = k + 1 + cnt := by omega
    rw [e, ← ih']
    have hdm := Nat.div_add_mod (g / 2 ^ k) 2
    have hs := div_pow_succ g k
    rw [climb]
    simp only [ha, hp, adrs_step, adrs_step_idx]
    by_cases hpar0 : g / 2 ^ k % 2 = 0
    · simp only [hpar0, ↓reduceIte]
      have hg : g / 2 ^ k = 2 * (g / 2 ^ (k + 1)) := by omega
      rw [← hs]
      congr 1
      rw [treeNode]
      congr 1
      rw [hg, xor_one_even]
    · simp only [hpar0, ↓reduceIte]
      have hg : g / 2 ^ k = 2 * (g / 2 ^ (k + 1)) + 1 := by omega
      have e1 : (g / 2 ^ k - 1) / 2 = g / 2 ^ (k + 1) := by omega
      rw [e1]
      congr 1
      rw [treeNode]
      congr 1
      rw [hg, xor_one_odd]

/-- **Merkle authentication path** (item 4): recomputing the root from leaf `idx` and its
    authentication path gives the root, for every height and every `idx < 2^h` -/
theorem rootFromPath_authPath (H : Adrs → Bytes → Bytes) (leaf : Nat → Bytes) (adrs : Adrs) (h idx : Nat)
    (hidx : idx < 2 ^ h) :
    rootFromPath H adrs h (leaf idx) idx (authPath H leaf adrs idx h) = merkleRoot H leaf adrs h := by
  have := climb_treeNode H leaf adrs idx idx (authPath H leaf adrs idx h) h 0 0
    (fun _ _ _ => rfl)
    (fun j _ hj => by rw [authPath, getD_map_range _ _ _ _ (by omega)])
  simp only [Nat.pow_zero, Nat.div_one, Nat.zero_add, treeNode] at this
  rw [rootFromPath, merkleRoot, this, Nat.div_eq_of_lt hidx]

/-- the same for a tree given by the list of its `2^h` leaves -/
theorem rootFromPath_authPath_list (H : Adrs → Bytes → Bytes) (leaves : List Bytes) (adrs : Adrs) (h idx : Nat)
    (hlen : leaves.length = 2 ^ h) (hidx : idx < leaves.length) :
    rootFromPath H adrs h leaves[idx] idx (authPath H (fun i => leaves.getD i []) adrs idx h)
      = merkleRoot H (fun i => leaves.getD i []) adrs h := by
  have := rootFromPath_authPath H (fun i => leaves.getD i []) adrs h idx (by omega)
  simp only [List.getD_eq_getElem?_getD, List.getElem?_eq_getElem hidx, Option.getD_some] at this ⊢
  exact this

/-- without `idx < 2^h` the walk ends at the ancestor `⌊idx / 2^h⌋` of level `h` -/
theorem rootFromPath_authPath_general (H : Adrs → Bytes → Bytes) (leaf : Nat → Bytes) (adrs : Adrs) (h idx : Nat) :
    rootFromPath H adrs h (leaf idx) idx (authPath H leaf adrs idx h) = treeNode H leaf adrs (idx / 2 ^ h) h := by
  have := climb_treeNode H leaf adrs idx idx (authPath H leaf adrs idx h) h 0 0
    (fun _ _ _ => rfl)
    (fun j _ hj => by rw [authPath, getD_map_range _ _ _ _ (by omega)])
  simp only [Nat.pow_zero, Nat.div_one, Nat.zero_add, treeNode] at this
  rw [rootFromPath, this]

/-! ## 5. XMSS, hypertree, FORS, SLH-DSA: genuine signatures verify

### XMSS (§6) -/

/-- `xmss_node` is the generic tree over the WOTS⁺ public keys -/
theorem xmssNode_eq_treeNode (th : TH) (p : WP) (skSeed : Bytes) (adrs : Adrs) (i z : Nat) :
    xmssNode th p skSeed i z adrs =
      treeNode th.H (fun i => wotsPkGen th p skSeed ((adrs.setTypeAndClear WOTS_HASH).setKeyPairAddress i))
        (adrs.setTypeAndClear TREE) i z := by
  induction z generalizing i with
  | zero => rfl
  | succ z ih => simp only [xmssNode, treeNode, ih]

/-- **XMSS correctness** (Algorithms 9–11): the public key recomputed from a genuine XMSS signature of
    leaf `idx < 2^h'` is the root `xmss_node(0, h')` -/
theorem xmssPkFromSig_sign (th : TH) (p : WP) (hp : Nat) (m skSeed : Bytes) (idx : Nat) (adrs : Adrs)
    (hidx : idx < 2 ^ hp) :
    xmssPkFromSig th p hp idx (xmssSign th p hp m skSeed idx adrs) m adrs = xmssNode th p skSeed 0 hp adrs := by
  simp only [xmssPkFromSig, xmssSign, wotsPkFromSig_sign]
  have := climb_treeNode th.H
    (fun i => wotsPkGen th p skSeed ((adrs.setTypeAndClear WOTS_HASH).setKeyPairAddress i))
    (adrs.setTypeAndClear TREE) idx idx
    ((List.range hp).map fun j => xmssNode th p skSeed ((idx / 2 ^ j) ^^^ 1) j adrs) hp 0 0
    (fun _ _ _ => rfl)
    (fun j _ hj => by rw [getD_map_range _ _ _ _ (by omega), xmssNode_eq_treeNode])
  simp only [Nat.pow_zero, Nat.div_one, Nat.zero_add, treeNode, Nat.div_eq_of_lt hidx] at this
  rw [xmssNode_eq_treeNode]
  exact this


/-! ### hypertree (§7) -/

/-- the verification loop over the layers `j … j+cnt` applied to what the signing loop produced ends
    at the root of the XMSS tree of layer `j + cnt` that contains the path -/
theorem htVerifyLoop_sign (th : TH) (p : WP) (hp : Nat) (skSeed : Bytes) (cnt : Nat) :
    ∀ (j : Nat) (node : Bytes) (idxTree : Nat) (adrs : Adrs) (sigs : List XmssSig),
      (∀ t, t < cnt + 1 → sigs.getD (j + t) default
          = (htSignLoop th p hp skSeed (cnt + 1) j node idxTree adrs).getD t default) →
      htVerifyLoop th p hp sigs (cnt + 1) j node idxTree adrs
        = xmssNode th p skSeed 0 hp
            ((adrs.setLayerAddress (j + cnt)).setTreeAddress (idxTree >>> (hp * (cnt + 1)))) := by
  induction cnt with
  | zero =>
    intro j node idxTree adrs sigs hs
    have h0 := hs 0 (by omega)
    simp only [htSignLoop, Nat.add_zero, List.getD_cons_zero] at h0
    simp only [htVerifyLoop, h0, Nat.add_zero, Nat.zero_add, Nat.mul_one]
    exact xmssPkFromSig_sign th p hp node skSeed _ _ (Nat.mod_lt _ (Nat.two_pow_pos hp))
  | succ cnt ih =>
    intro j node idxTree adrs sigs hs
    have h0 := hs 0 (by omega)
    rw [htSignLoop] at h0 hs
    simp only [Nat.add_zero, List.getD_cons_zero] at h0
    have hx := xmssPkFromSig_sign th p hp node skSeed (idxTree % 2 ^ hp)
      ((adrs.setLayerAddress j).setTreeAddress (idxTree >>> hp)) (Nat.mod_lt _ (Nat.two_pow_pos hp))
    rw [htVerifyLoop]
    simp only [h0, hx]
    simp only [hx] at hs
    rw [ih (j + 1) _ (idxTree >>> hp) _ sigs (by
      intro t ht
      have := hs (t + 1) (by omega)
      simp only [List.getD_cons_succ] at this
      rw [← this]
      congr 1
      omega)]
    congr 1
    have e1 : j + 1 + cnt = j + (cnt + 1) := by omega
    have e2 : hp * (cnt + 1 + 1) = hp + hp * (cnt + 1) := by rw [Nat.mul_succ, Nat.add_comm]
    rw [e1, e2, Nat.shiftRight_add]
    rfl

/-- **Hypertree correctness** (Algorithms 12–13): `ht_verify` accepts `ht_sign`'s output under the
    root of the top tree, for every `d`, `h'`, every leaf `< 2^h'` and tree index `< 2^(h'(d−1))` -/
theorem htVerify_sign (th : TH) (p : WP) (hp d : Nat) (m skSeed : Bytes) (idxTree idxLeaf : Nat)
    (hleaf : idxLeaf < 2 ^ hp) (htree : idxTree < 2 ^ (hp * (d - 1))) :
    htVerify th p hp d m (htSign th p hp d m skSeed idxTree idxLeaf) idxTree idxLeaf
      (xmssNode th p skSeed 0 hp (Adrs.zero.setLayerAddress (d - 1))) = true := by
  have hx := xmssPkFromSig_sign th p hp m skSeed idxLeaf (Adrs.zero.setTreeAddress idxTree) hleaf
  simp only [htVerify, htSign, List.getD_cons_zero, hx, beq_iff_eq]
  cases hd' : d - 1 with
  | zero =>
    rw [hd'] at htree
    have : idxTree = 0 := by simpa using htree
    subst this
    rfl
  | succ c =>
    rw [hd'] at htree
    rw [htVerifyLoop_sign th p hp skSeed c 1 _ idxTree _ _ (by
      intro t ht
      rw [Nat.add_comm 1 t, List.getD_cons_succ])]
    rw [Nat.shiftRight_eq_div_pow, Nat.div_eq_of_lt htree, Nat.add_comm 1 c]
    rfl


/-! ### FORS (§8) -/

/-- `fors_node` is the generic tree over the hashed secret values -/
theorem forsNode_eq_treeNode (th : TH) (skSeed : Bytes) (adrs : Adrs) (i z : Nat) :
    forsNode th skSeed i z adrs =
      treeNode th.H (fun i => th.F ((adrs.setTreeHeight 0).setTreeIndex i) (forsSkGen th skSeed adrs i))
        adrs i z := by
  induction z generalizing i with
  | zero => rfl
  | succ z ih => simp only [forsNode, treeNode, ih]

/-- node index of level `j ≤ a` above leaf `idx` of the `i`-th tree of a forest of height-`a` trees -/
theorem fors_index (i idx a j : Nat) (hj : j ≤ a) :
    (i * 2 ^ a + idx) / 2 ^ j = i * 2 ^ (a - j) + idx / 2 ^ j := by
  have : 2 ^ a = 2 ^ (a - j) * 2 ^ j := by rw [← Nat.pow_add]; congr 1; omega
  rw [this, ← Nat.mul_assoc, Nat.add_comm, Nat.add_mul_div_right _ _ (Nat.two_pow_pos j), Nat.add_comm]

theorem even_add_xor_one (e y : Nat) : (2 * e + y) ^^^ 1 = 2 * e + (y ^^^ 1) := by
  rw [xor_one_eq, xor_one_eq y]; omega

/-- **FORS correctness** (Algorithms 14–17): the public key recomputed from a genuine FORS signature is
    `T_k` of the `k` tree roots, for every `md`, `k`, `a` -/
theorem forsPkFromSig_sign (th : TH) (a k : Nat) (md skSeed : Bytes) (adrs : Adrs) :
    forsPkFromSig th a k (forsSign th a k md skSeed adrs) md adrs = forsPk th a k skSeed adrs := by
  simp only [forsPkFromSig, forsPk, forsSign]
  congr 2
  apply List.map_congr_left
  intro i hi
  have hi : i < k := List.mem_range.mp hi
  rw [getD_map_range _ _ _ _ hi]
  simp only []
  have hidx : (base2b md a k).getD i 0 < 2 ^ a := by
    rw [List.getD_eq_getElem?_getD]
    cases h : (base2b md a k)[i]? with
    | none => exact Nat.two_pow_pos _
    | some d => exact base2b_digit_lt _ _ _ d (List.mem_of_getElem? h)
  generalize (base2b md a k).getD i 0 = idx at hidx
  have := climb_treeNode th.H
    (fun i => th.F ((adrs.setTreeHeight 0).setTreeIndex i) (forsSkGen th skSeed adrs i))
    adrs idx (i * 2 ^ a + idx)
    ((List.range a).map fun j => forsNode th skSeed (i * 2 ^ (a - j) + ((idx / 2 ^ j) ^^^ 1)) j adrs) a 0 0
    (fun j _ hj => by
      have hj : j < a := by omega
      rw [fors_index i idx a j (by omega)]
      have : 2 ^ (a - j) = 2 * 2 ^ (a - j - 1) := by
        rw [Nat.mul_comm, ← Nat.pow_succ]; congr 1; omega
      rw [this]
      generalize 2 ^ (a - j - 1) = e
      generalize idx / 2 ^ j = y
      rw [← Nat.mul_assoc, Nat.mul_comm i 2, Nat.mul_assoc, Nat.mul_add_mod])
    (fun j _ hj => by
      have hj : j < a := by omega
      rw [getD_map_range _ _ _ _ hj, forsNode_eq_treeNode, fors_index i idx a j (by omega)]
      have : 2 ^ (a - j) = 2 * 2 ^ (a - j - 1) := by
        rw [Nat.mul_comm, ← Nat.pow_succ]; congr 1; omega
      rw [this, ← Nat.mul_assoc, Nat.mul_comm i 2, Nat.mul_assoc, even_add_xor_one])
  simp only [Nat.pow_zero, Nat.div_one, Nat.zero_add, treeNode] at this
  rw [forsNode_eq_treeNode, this, fors_index i idx a a (Nat.le_refl a), Nat.sub_self, Nat.pow_zero, Nat.mul_one,
    Nat.div_eq_of_lt hidx, Nat.add_zero]

/-! ### SLH-DSA (§9) -/

/-- **SLH-DSA correctness** (Algorithms 18–20) over abstract hash functions: for every message, every
    secret key, every randomizer and every parameter choice with `h − h' = h'·(d − 1)` (true for
    `h' = h/d`), `slh_verify_internal` accepts the output of `slh_sign_internal` under the public
    key of `slh_keygen_internal`. -/
theorem slhVerify_sign (th : TH) (Hmsg PRFmsg : Bytes → Bytes → Bytes → Bytes) (p : SP)
    (msg skSeed skPrf optRand : Bytes) (hh : p.h - p.hp = p.hp * (p.d - 1)) :
    slhVerify th Hmsg p msg (slhSign th Hmsg PRFmsg p msg skSeed skPrf (pkRoot th p skSeed) optRand)
      (pkRoot th p skSeed) = true := by
  simp only [slhVerify, slhSign, digestSplit, pkRoot]
  apply htVerify_sign
  · exact idxLeaf_lt _ _
  · rw [← hh]; exact idxTree_lt _ _ _

/-! ## 6. FIPS 205 Table 2: the twelve parameter sets satisfy the side conditions used above -/

/-- the structural parameters of a `Prim/Slhdsa.lean` parameter set -/
def SP.ofParams (p : Prim.Slhdsa.Params) : SP :=
  { wp := { lgw := p.lgw, len1 := p.len1, len2 := p.len2 }, h := p.h, d := p.d, hp := p.hp, a := p.a, k := p.k }

/-- digest split: `m = ⌈k·a/8⌉ + ⌈(h−h')/8⌉ + ⌈h'/8⌉` is the `m` of Table 2 -/
theorem table2_digest_length : ∀ p ∈ Prim.Slhdsa.allParams,
    (p.k * p.a + 7) / 8 + (p.h - p.hp + 7) / 8 + (p.hp + 7) / 8 = p.m := by decide

/-- the same through the reference's names, and the abstract split lengths are the reference's -/
theorem table2_mDerived : ∀ p ∈ Prim.Slhdsa.allParams,
    p.mDerived = p.m ∧ (SP.ofParams p).mdLen = p.mdLen ∧ (SP.ofParams p).treeIdxLen = p.treeIdxLen
      ∧ (SP.ofParams p).leafIdxLen = p.leafIdxLen := by decide

/-- `h = d·h'`, in the form `slhVerify_sign` needs -/
theorem table2_height : ∀ p ∈ Prim.Slhdsa.allParams,
    p.h = p.d * p.hp ∧ (SP.ofParams p).h - (SP.ofParams p).hp = (SP.ofParams p).hp * ((SP.ofParams p).d - 1) := by
  decide

/-- WOTS⁺: `len₁·lg_w = 8n` (the `n`-byte message holds exactly the `len₁` digits, so `base2b_eq_spec`
    applies), `len₂ = 3`, and `len₁(w−1) < w^len₂` (the checksum fits, as
    `wots_checksum_blocks_forward_forgery` needs) -/
theorem table2_wots : ∀ p ∈ Prim.Slhdsa.allParams,
    p.len1 * p.lgw = 8 * p.n ∧ p.len2 = 3 ∧ p.len1 * (p.w - 1) < 2 ^ (p.len2 * p.lgw) := by
  decide +kernel

/-- FORS indices / WOTS⁺ message digits: with an input of `⌈outLen·b/8⌉` bytes the loop is the
    specification -/
theorem base2b_eq_spec_ceil (x : Bytes) (b outLen : Nat) (h : x.length = (outLen * b + 7) / 8) :
    base2b x b outLen = base2bSpec x b outLen :=
  base2b_eq_spec x b outLen (by omega)

/-! ## 7. non-vacuity: a toy instantiation -/

/-- a toy hash family (each function mixes all address words into the data) -/
def toyMix (c : Nat) (a : Adrs) (x : Bytes) : Bytes :=
  [UInt8.ofNat (c + a.layer + 3 * a.tree + 5 * a.typ + 7 * a.w1 + 11 * a.w2 + 13 * a.w3 + x.length),
   (x.foldl (fun acc y => acc * 31 + y) 17)]

def toyTH : TH := { PRF := toyMix 1, F := toyMix 2, H := toyMix 3, T := toyMix 4 }
def toyWP : WP := { lgw := 2, len1 := 4, len2 := 2 }
def toySP : SP := { wp := toyWP, h := 4, d := 2, hp := 2, a := 2, k := 2 }
def toyHmsg (r pk m : Bytes) : Bytes := (toyMix 5 {} (r ++ pk ++ m)) ++ (toyMix 6 {} (m ++ r))
def toyPRFmsg (k o m : Bytes) : Bytes := toyMix 7 {} (k ++ o ++ m)

-- 1. `base2b_eq_spec`: the hypothesis is satisfiable
example : base2b [0xAB, 0xCD, 0xEF, 0x01, 0x23] 9 4 = base2bSpec [0xAB, 0xCD, 0xEF, 0x01, 0x23] 9 4 :=
  base2b_eq_spec _ _ _ (by decide)
-- 2. chains really iterate, and a WOTS⁺ signature does not verify for another message
example : chain toyTH.F [1] 0 3 {} = [30, 30] := by decide
example : chain toyTH.F (chain toyTH.F [1] 0 1 {}) 1 2 {} = chain toyTH.F [1] 0 3 {} := chain_add _ _ _ _ _ _
example : wotsDigits toyWP [0x1B] = [0, 1, 2, 3, 1, 2] := by decide
example : wotsPkFromSig toyTH toyWP (wotsSign toyTH toyWP [0x1B] [9] {}) [0x1B] {} = wotsPkGen toyTH toyWP [9] {} :=
  wotsPkFromSig_sign _ _ _ _ _
example : wotsPkFromSig toyTH toyWP (wotsSign toyTH toyWP [0x1B] [9] {}) [0x1C] {} ≠ wotsPkGen toyTH toyWP [9] {} := by
  decide
-- 3. checksum: hypotheses satisfiable; the conclusion for a concrete pair
example : csum 4 [1, 3, 2, 3] < csum 4 [1, 2, 2, 3] :=
  csum_strict_anti 4 [1, 2, 2, 3] [1, 3, 2, 3] rfl (by decide) (by decide) (by decide)
example : ∃ j, j < toyWP.len2 ∧
    (checksumDigits toyWP [1, 3, 2, 3]).getD j 0 < (checksumDigits toyWP [1, 2, 2, 3]).getD j 0 :=
  wots_checksum_blocks_forward_forgery toyWP [1, 2, 2, 3] [1, 3, 2, 3] rfl (by decide) (by decide) (by decide)
    (by decide)
example : checksumDigits toyWP [1, 2, 2, 3] = [1, 0] ∧ checksumDigits toyWP [1, 3, 2, 3] = [0, 3] := by decide
-- 4. Merkle: a height-3 tree, leaf 5
example : rootFromPath toyTH.H {} 3 [5] 5 (authPath toyTH.H (fun i => [UInt8.ofNat i]) {} 5 3)
    = merkleRoot toyTH.H (fun i => [UInt8.ofNat i]) {} 3 :=
  rootFromPath_authPath _ _ _ _ _ (by decide)
example : rootFromPath toyTH.H {} 3 [6] 5 (authPath toyTH.H (fun i => [UInt8.ofNat i]) {} 5 3)
    ≠ merkleRoot toyTH.H (fun i => [UInt8.ofNat i]) {} 3 := by decide
-- 5. the whole scheme on the toy parameters: the side condition of `slhVerify_sign` holds …
example : slhVerify toyTH toyHmsg toySP [1, 2, 3]
    (slhSign toyTH toyHmsg toyPRFmsg toySP [1, 2, 3] [7] [8] (pkRoot toyTH toySP [7]) [9]) (pkRoot toyTH toySP [7]) = true :=
  slhVerify_sign _ _ _ _ _ _ _ _ (by decide)

end TinkVerif.SlhStruct

section AxiomAudit
open TinkVerif.Slh TinkVerif.SlhStruct
#print axioms base2bLoop_eq
#print axioms base2b_eq_spec
#print axioms base2b_eq_spec_ceil
#print axioms chain_add
#print axioms wotsPkFromSigDigits_signDigits
#print axioms wotsPkFromSig_sign
#print axioms csum_le
#print axioms csum_strict_anti
#print axioms checksumDigits_eq
#print axioms wots_checksum_blocks_forward_forgery
#print axioms climb_treeNode
#print axioms rootFromPath_authPath
#print axioms rootFromPath_authPath_list
#print axioms rootFromPath_authPath_general
#print axioms xmssPkFromSig_sign
#print axioms htVerify_sign
#print axioms forsPkFromSig_sign
#print axioms slhVerify_sign
#print axioms table2_digest_length
#print axioms table2_mDerived
#print axioms table2_height
#print axioms table2_wots
end AxiomAudit
