import TinkVerif.Lemmas.Stream

/-!
# C07 — streaming AEAD: chunking independence, manipulation detection, I/O faults

Model: `TinkVerif/Model/Stream.lean` (mirrors noncebased.go's Writer and Reader).
The theorems hold for every segment cipher (`Cipher`), every segment size / first-segment
offset with `off < ptSeg`, every plaintext, every partition into `Write` calls and every sequence
of `Read` capacities — no bound on lengths or on the number of calls
(except the 2³²−1 segment limit of the format itself).
-/
namespace TinkVerif.Stream
open TinkVerif

/-! ## T1 — writer: any partition of the plaintext into Write calls yields the documented format -/

/-- a sequence of `Write` calls; collects each call's `(n, err)` -/
def writeMany (P : Params) (C : Cipher) (f : Fault) (s : WState) : List Bytes → WState × List (Nat × Option WErr)
  | [] => (s, [])
  | p :: ps =>
    let r := write P C f s p
    let rs := writeMany P C f r.1 ps
    (rs.1, (r.2.1, r.2.2) :: rs.2)

theorem winv_init (P : Params) (hoff : P.off < P.ptSeg) : WInv P WState.init :=
  ⟨by simp [WState.init], by simp [WState.init, lim]; omega, by omega⟩

theorem writeMany_ok (P : Params) (C : Cipher) (s : WState) (ps : List Bytes)
    (inv : WInv P s) (hc : s.closed = false) (hb : s.cnt + ps.flatten.length ≤ 4294967294) :
    ∃ s', (writeMany P C none s ps).1 = s' ∧
      (writeMany P C none s ps).2 = ps.map (fun p => (p.length, none)) ∧
      WInv P s' ∧ s'.closed = false ∧ s'.cnt ≤ s.cnt + ps.flatten.length ∧
      ∀ q, final P C s' q = final P C s (ps.flatten ++ q) := by
  induction ps generalizing s with
  | nil => exact ⟨s, rfl, rfl, inv, hc, by omega, fun q => by simp⟩
  | cons p ps ih =>
    simp only [List.flatten_cons, List.length_append] at hb
    obtain ⟨s1, h1, inv1, hc1, hcnt1, hf1⟩ := feed_ok P C s p 0 inv (by omega)
    have hw : write P C none s p = (s1, p.length, none) := by
      simp only [write, hc, Bool.false_eq_true, ↓reduceIte, h1]; simp
    obtain ⟨s', e1, e2, inv', hc', hcnt', hf'⟩ := ih s1 inv1 (hc1.trans hc) (by omega)
    refine ⟨s', ?_, ?_, inv', hc', ?_, ?_⟩
    · simp only [writeMany, hw]; exact e1
    · simp only [writeMany, hw, List.map_cons, e2]
    · simp only [List.flatten_cons, List.length_append]; omega
    · intro q
      rw [hf' q, hf1, List.flatten_cons, List.append_assoc]

/-- **T1 (writer chunking independence).** For every way of cutting the plaintext into `Write`
    calls (zero-length writes included), every call consumes all its bytes without error, `Close`
    succeeds and the bytes delivered to the sink are exactly the documented stream
    `encodeStream` of the concatenated plaintext. -/
theorem writer_chunking_independent (P : Params) (C : Cipher) (ps : List Bytes)
    (hoff : P.off < P.ptSeg) (hlen : ps.flatten.length ≤ 4294967294) :
    let r := writeMany P C none WState.init ps
    r.2 = ps.map (fun p => (p.length, none)) ∧
    (close C none r.1).2 = none ∧
    (close C none r.1).1.output = encodeStream P C ps.flatten := by
  obtain ⟨s', e1, e2, inv', hc', hcnt', hf'⟩ :=
    writeMany_ok P C WState.init ps (winv_init P hoff) rfl (by simpa [WState.init] using hlen)
  have hcnt0 : s'.cnt ≤ 0 + ps.flatten.length := hcnt'
  obtain ⟨k1, k2, _⟩ := close_ok P C s' inv' hc' (by omega)
  refine ⟨e2, by rw [e1]; exact k1, ?_⟩
  rw [e1]
  simp only [WState.output, k2, hf' [], encodeStream]
  simp [final, WState.init, lim]

/-- Two different partitions of the same plaintext produce the same ciphertext stream. -/
theorem writer_partition_irrelevant (P : Params) (C : Cipher) (ps qs : List Bytes)
    (hoff : P.off < P.ptSeg) (hlen : ps.flatten.length ≤ 4294967294) (h : ps.flatten = qs.flatten) :
    (close C none (writeMany P C none WState.init ps).1).1.output =
    (close C none (writeMany P C none WState.init qs).1).1.output := by
  rw [(writer_chunking_independent P C ps hoff hlen).2.2,
      (writer_chunking_independent P C qs hoff (h ▸ hlen)).2.2, h]

/-- The segmentation loses nothing: the plaintext segments concatenate to the plaintext. -/
theorem segments_cover_plaintext (P : Params) (pt : Bytes) :
    (split (P.ptSeg - P.off) P.ptSeg pt).flatten = pt := flatten_split _ _ _

/-! ## Segment nonces -/

/-- `generateSegmentNonce` is injective in `(counter, last flag)` and refuses counter 2³²−1. -/
theorem segmentNonce_injective (size : Nat) (pre : Bytes) (i j : Nat) (l m : Bool) (n : Bytes)
    (hi : segmentNonce size pre i l = some n) (hj : segmentNonce size pre j m = some n) :
    i = j ∧ l = m := by
  unfold segmentNonce at hi hj
  split at hi
  · cases hi
  · split at hj
    · cases hj
    · rename_i h1 h2
      simp only [Option.some.injEq] at hi hj
      have h := hi.trans hj.symm
      -- compare the first |pre|+5 bytes
      have h' := congrArg (List.take (pre.length + 5)) h
      simp only [Bytes.be32] at h'
      have e1 : ∀ (k : Nat) (b : Bool) (z : Bytes),
          List.take (pre.length + 5) (pre ++ Bytes.ofNatBE 4 k ++ [if b then (1 : UInt8) else 0] ++ z)
            = pre ++ Bytes.ofNatBE 4 k ++ [if b then (1 : UInt8) else 0] := by
        intro k b z
        rw [List.take_append_of_le_length (by simp)]
        rw [List.take_of_length_le (by simp)]
      rw [e1, e1] at h'
      have h2' := List.append_cancel_left (by simpa [List.append_assoc] using h' :
        pre ++ (Bytes.ofNatBE 4 i ++ [if l then (1 : UInt8) else 0]) = pre ++ (Bytes.ofNatBE 4 j ++ [if m then (1 : UInt8) else 0]))
      have hlen : (Bytes.ofNatBE 4 i).length = (Bytes.ofNatBE 4 j).length := by simp
      obtain ⟨ha, hb⟩ := List.append_inj h2' hlen
      refine ⟨Bytes.ofNatBE_inj 4 i j (by omega) (by omega) ha, ?_⟩
      cases l <;> cases m <;> simp_all

theorem segmentNonce_limit (size : Nat) (pre : Bytes) (l : Bool) :
    segmentNonce size pre 4294967295 l = none ∧
    ∀ i, i < 4294967295 → (segmentNonce size pre i l).isSome = true := by
  constructor
  · simp [segmentNonce]
  · intro i hi; simp [segmentNonce]; omega

/-! ## T4 — a persistently failing sink always surfaces as an error -/

theorem flush_ok_calls (C : Cipher) (j : Nat) (s s' : WState) (last : Bool)
    (h : flush C (some j) s last = .ok s') : s.sinkCalls < j ∧ s'.sinkCalls = s.sinkCalls + 1 := by
  unfold flush at h
  split at h
  · cases h
  · split at h
    · cases h
    · rename_i hf
      simp only [sinkFails, decide_eq_true_eq, Nat.not_le] at hf
      cases h; exact ⟨hf, rfl⟩

theorem feed_noerr_calls (P : Params) (C : Cipher) (j : Nat) (s : WState) (p : Bytes) (k : Nat)
    (hs : s.sinkCalls ≤ j) (h : (feed P C (some j) s p k).2.2 = none) :
    (feed P C (some j) s p k).1.sinkCalls ≤ j := by
  induction p generalizing s k with
  | nil => simpa [feed] using hs
  | cons b rest ih =>
    simp only [feed] at h ⊢
    split
    · rename_i hlt
      simp only [hlt, ↓reduceIte] at h
      exact ih _ _ hs h
    · rename_i hlt
      simp only [hlt, ↓reduceIte] at h
      cases hf : flush C (some j) s false with
      | error e => simp [hf] at h
      | ok s' =>
        simp only [hf] at h ⊢
        obtain ⟨h1, h2⟩ := flush_ok_calls C j s s' false hf
        exact ih _ _ (by simp only; omega) h

/-- **T4 (sink faults).** If the underlying writer fails persistently from its `j`-th call on and
    nevertheless every `Write` and `Close` reported success, then the sink was called at most `j`
    times — i.e. no failed call was swallowed. Contrapositive: a failed sink call always surfaces
    as an error of `Write` or `Close`. -/
theorem sink_fault_surfaces (P : Params) (C : Cipher) (j : Nat) (ps : List Bytes) (s : WState)
    (hs : s.sinkCalls ≤ j)
    (hw : ∀ o ∈ (writeMany P C (some j) s ps).2, o.2 = none)
    (hc : (close C (some j) (writeMany P C (some j) s ps).1).2 = none) :
    (close C (some j) (writeMany P C (some j) s ps).1).1.sinkCalls ≤ j := by
  induction ps generalizing s with
  | nil =>
    simp only [writeMany] at hc ⊢
    by_cases hcl : s.closed = true
    · simpa [close, hcl] using hs
    · cases hf : flush C (some j) s true with
      | error e => simp [close, hcl, hf] at hc
      | ok s' =>
        obtain ⟨h1, h2⟩ := flush_ok_calls C j s s' true hf
        simp only [close, hcl, Bool.false_eq_true, ↓reduceIte, hf]; omega
  | cons p ps ih =>
    simp only [writeMany] at hw hc ⊢
    have h0 : (write P C (some j) s p).2.2 = none := hw _ (List.mem_cons_self ..)
    have hs1 : (write P C (some j) s p).1.sinkCalls ≤ j := by
      unfold write at h0 ⊢
      split
      · exact hs
      · rename_i hcl
        simp only [hcl, Bool.false_eq_true, ↓reduceIte] at h0
        exact feed_noerr_calls P C j s p 0 hs h0
    exact ih _ hs1 (fun o ho => hw o (List.mem_cons_of_mem _ ho)) hc

/-- … and a sink call that is attempted at or after the fault index does fail. -/
theorem flush_fails_after_fault (C : Cipher) (j : Nat) (s : WState) (last : Bool)
    (h : j ≤ s.sinkCalls) : ∃ e, flush C (some j) s last = .error e := by
  unfold flush
  split
  · exact ⟨_, rfl⟩
  · simp [sinkFails, h]

/-- A failed segment is retried under the same counter (hence the same nonce): the state after a
    failed flush differs from the one before only in the sink call count. -/
theorem failed_flush_keeps_segment (f : Fault) (s : WState) :
    (flushFailState f s).buf = s.buf ∧ (flushFailState f s).cnt = s.cnt ∧
    (flushFailState f s).sink = s.sink := by
  unfold flushFailState
  split
  · exact ⟨rfl, rfl, rfl⟩
  · split <;> exact ⟨rfl, rfl, rfl⟩

/-! ## T2 — reader: any sequence of Read capacities returns exactly the plaintext, then EOF -/

/-- the honest cipher laws the reader theorem needs (ciphertext expansion and round trip) -/
structure Honest (P : Params) (C : Cipher) : Prop where
  len : ∀ i l s, (C.enc i l s).length = s.length + P.overhead
  rt : ∀ i l s, C.dec i l (C.enc i l s) = some s

/-- segment shape produced by `split`: all but the final segment fill their limit -/
def Shape (P : Params) : Nat → List Bytes → Prop
  | _, [] => True
  | k, [s] => s.length ≤ lim P k
  | k, s :: t => s.length = lim P k ∧ Shape P (k + 1) t

theorem shape_split (P : Params) (k : Nat) (pt : Bytes) (hpos : 0 < lim P k) (hseg : 0 < P.ptSeg) :
    Shape P k (split (lim P k) P.ptSeg pt) := by
  induction h : pt.length using Nat.strongRecOn generalizing k pt with
  | _ n ih =>
    by_cases hs : pt.length ≤ lim P k
    · rw [split_short _ _ _ hs]; exact hs
    · have h1 : lim P k < pt.length := by omega
      rw [split_long _ _ _ h1 (by omega)]
      have hne := split_ne_nil P.ptSeg P.ptSeg (pt.drop (lim P k))
      cases hsp : split P.ptSeg P.ptSeg (pt.drop (lim P k)) with
      | nil => exact absurd hsp hne
      | cons a as =>
        refine ⟨by simp only [List.length_take]; omega, ?_⟩
        rw [← hsp]
        have hl : lim P (k + 1) = P.ptSeg := lim_succ P k
        rw [← hl]
        exact ih _ (by simp only [List.length_drop]; omega) (k + 1) _ (by rw [hl]; exact hseg) rfl

/-- Reader invariant on an honest stream: `acc` is what has been handed out so far. -/
structure RInv (P : Params) (C : Cipher) (segs : List Bytes) (s : RState) (acc : Bytes) : Prop where
  decomp : ∃ done todo, segs = done ++ todo ∧ s.cnt = done.length ∧ acc ++ s.pt = done.flatten ∧
    Shape P done.length todo ∧
    (todo = [] → s.lastDone = true) ∧
    (todo ≠ [] → s.lastDone = false ∧ CarryOk s ∧ tail s = (encSegs C done.length todo).flatten)

theorem rinv_init (P : Params) (C : Cipher) (pt : Bytes) (hoff : P.off < P.ptSeg) :
    RInv P C (split (P.ptSeg - P.off) P.ptSeg pt) (RState.init (encodeStream P C pt)) [] := by
  refine ⟨⟨[], split (P.ptSeg - P.off) P.ptSeg pt, by simp, rfl, by simp [RState.init], ?_, ?_, ?_⟩⟩
  · have := shape_split P 0 pt (by simp [lim]; omega) (by omega)
    simpa [lim] using this
  · intro h; exact absurd h (split_ne_nil _ _ _)
  · intro _; simp [RState.init, tail, carryBytes, encodeStream, CarryOk]

/-! computation rules of `read`, one per branch -/

theorem read_buffered (P : Params) (C : Cipher) (e : Bool) (s : RState) (cap : Nat) (h : s.pt ≠ []) :
    read P C e s cap = ({ s with pt := s.pt.drop cap }, .data (s.pt.take cap)) := by
  simp [read, h]

theorem read_done (P : Params) (C : Cipher) (e : Bool) (s : RState) (cap : Nat) (h : s.pt = [])
    (hl : s.lastDone = true) : read P C e s cap = (s, .eof) := by
  simp [read, h, hl]

theorem read_mid (P : Params) (C : Cipher) (e : Bool) (s : RState) (cap : Nat) (h : s.pt = [])
    (hl : s.lastDone = false) (hc : CarryOk s) (hoff : P.off ≤ P.ptSeg)
    (hfull : need P s.cnt ≤ (tail s).length) (hcnt : s.cnt < 4294967295) (seg : Bytes)
    (hdec : C.dec s.cnt false ((tail s).take (need P s.cnt)).dropLast = some seg) :
    read P C e s cap =
      ({ pt := seg.drop cap, cnt := s.cnt + 1, carry := ((tail s).take (need P s.cnt)).getLast?,
         lastDone := false, src := (tail s).drop (need P s.cnt) }, .data (seg.take cap)) := by
  have hcnt' : ¬ (s.cnt ≥ 4294967295) := by omega
  unfold read
  simp only [h, ne_eq, not_true_eq_false, ↓reduceIte, hl, Bool.false_eq_true]
  rw [if_pos ((chunk_full_iff P s hc hoff).mpr hfull)]
  simp only [hcnt', ↓reduceIte]
  rw [all_eq_take P s hc hoff, tail_drop P s hc hoff, hdec]

theorem read_last (P : Params) (C : Cipher) (s : RState) (cap : Nat) (h : s.pt = [])
    (hl : s.lastDone = false) (hc : CarryOk s) (hoff : P.off ≤ P.ptSeg)
    (hshort : (tail s).length < need P s.cnt) (hcnt : s.cnt < 4294967295) (seg : Bytes)
    (hdec : C.dec s.cnt true (tail s) = some seg) :
    read P C false s cap =
      ({ pt := seg.drop cap, cnt := s.cnt + 1, carry := s.carry,
         lastDone := true, src := [] }, .data (seg.take cap)) := by
  have hcnt' : ¬ (s.cnt ≥ 4294967295) := by omega
  have hnf : ¬ (need P s.cnt ≤ (tail s).length) := by omega
  unfold read
  simp only [h, ne_eq, not_true_eq_false, ↓reduceIte, hl, Bool.false_eq_true]
  rw [if_neg (fun hh => hnf ((chunk_full_iff P s hc hoff).mp hh))]
  simp only [hcnt', ↓reduceIte]
  rw [all_eq_take P s hc hoff, tail_drop P s hc hoff, List.take_of_length_le (by omega),
    List.drop_of_length_le (by omega), hdec]

/-- One `Read` on an honest stream, from a state satisfying the invariant: never an error; data is
    the next bytes of the plaintext; EOF only when everything has been handed out. -/
theorem read_honest (P : Params) (C : Cipher) (hC : Honest P C) (hoff : P.off < P.ptSeg)
    (hov : 0 < P.overhead) (segs : List Bytes) (hsegs : segs.length ≤ 4294967295)
    (s : RState) (acc : Bytes) (inv : RInv P C segs s acc) (cap : Nat) :
    (∃ d, (read P C false s cap).2 = .data d ∧ RInv P C segs (read P C false s cap).1 (acc ++ d) ∧
          (0 < cap → d ≠ [] ∨ ((read P C false s cap).1.pt = [] ∧ (read P C false s cap).1.lastDone = true))) ∨
    ((read P C false s cap).2 = .eof ∧ acc = segs.flatten ∧ (read P C false s cap).1 = s) := by
  obtain ⟨done, todo, hseg, hcnt, hacc, hshape, hnil, hcons⟩ := inv.decomp
  have hoff' : P.off ≤ P.ptSeg := by omega
  by_cases hpt : s.pt ≠ []
  · -- buffered plaintext is handed out first
    left
    rw [read_buffered P C false s cap hpt]
    refine ⟨s.pt.take cap, rfl, ⟨⟨done, todo, hseg, hcnt, ?_, hshape, hnil, hcons⟩⟩, ?_⟩
    · simp only [List.append_assoc, List.take_append_drop]; exact hacc
    · intro hcap
      left
      cases hp : s.pt with
      | nil => exact absurd hp hpt
      | cons a as => cases cap with
        | zero => omega
        | succ c => simp
  · simp only [ne_eq, Decidable.not_not] at hpt
    by_cases hld : s.lastDone = true
    · -- everything decrypted and handed out: EOF
      right
      rw [read_done P C false s cap hpt hld]
      have htodo : todo = [] := by
        by_cases ht : todo = []
        · exact ht
        · have := (hcons ht).1; simp [hld] at this
      refine ⟨rfl, ?_, rfl⟩
      rw [hseg, htodo, List.append_nil, ← hacc, hpt, List.append_nil]
    · -- a new segment has to be decrypted
      left
      have hld' : s.lastDone = false := by cases h : s.lastDone <;> simp_all
      have htodo : todo ≠ [] := fun ht => hld (hnil ht)
      obtain ⟨_, hcarry, htail⟩ := hcons htodo
      have hcntlt : s.cnt < 4294967295 := by
        have : segs.length = done.length + todo.length := by rw [hseg, List.length_append]
        have : 0 < todo.length := List.length_pos_iff.mpr htodo
        omega
      cases todo with
      | nil => exact absurd rfl htodo
      | cons sg t =>
        cases t with
        | nil =>
          -- final segment: the source ends before the buffer is full
          have hsh : sg.length ≤ lim P done.length := hshape
          have htl : tail s = C.enc done.length true sg := by simpa [encSegs] using htail
          have hshort : (tail s).length < need P s.cnt := by
            rw [htl, hC.len, hcnt]; unfold need; omega
          rw [read_last P C s cap hpt hld' hcarry hoff' hshort hcntlt sg (by rw [htl, hcnt, hC.rt])]
          refine ⟨sg.take cap, rfl, ⟨⟨done ++ [sg], [], by simp [hseg], by simp [hcnt], ?_, trivial,
                  fun _ => rfl, fun h => absurd rfl h⟩⟩, ?_⟩
          · simp only [List.append_assoc, List.take_append_drop, List.flatten_append, List.flatten_cons,
              List.flatten_nil, List.append_nil]
            rw [← hacc, hpt, List.append_nil]
          · intro hcap
            cases sg with
            | nil => right; exact ⟨by simp, rfl⟩
            | cons a as => cases cap with
              | zero => omega
              | succ c => left; simp
        | cons sg2 t2 =>
          -- a middle segment: the buffer fills, its last byte is the look-ahead
          obtain ⟨hsh, hshape'⟩ := hshape
          have htl : tail s = C.enc done.length false sg ++ (encSegs C (done.length + 1) (sg2 :: t2)).flatten := by
            rw [htail, encSegs_cons_of_ne_nil _ _ _ _ (by simp)]; simp
          have hrest_pos : 0 < ((encSegs C (done.length + 1) (sg2 :: t2)).flatten).length := by
            cases t2 with
            | nil => simp [encSegs, hC.len]; omega
            | cons a as => simp [encSegs, hC.len]; omega
          have hneed : need P s.cnt = (C.enc done.length false sg).length + 1 := by
            rw [hC.len, hcnt, hsh]; rfl
          have hL : (C.enc done.length false sg).length < (tail s).length := by
            rw [htl, List.length_append]; omega
          have hfull : need P s.cnt ≤ (tail s).length := by omega
          have hdl : ((tail s).take (need P s.cnt)).dropLast = C.enc done.length false sg := by
            rw [hneed, take_succ_dropLast _ _ hL, htl, List.take_left']
            rfl
          rw [read_mid P C false s cap hpt hld' hcarry hoff' hfull hcntlt sg (by rw [hdl, hcnt, hC.rt])]
          refine ⟨sg.take cap, rfl, ⟨⟨done ++ [sg], sg2 :: t2, by simp [hseg], by simp [hcnt], ?_, ?_,
                  fun h => absurd h (List.cons_ne_nil _ _), fun _ => ⟨rfl, ?_, ?_⟩⟩⟩, ?_⟩
          · simp only [List.append_assoc, List.take_append_drop, List.flatten_append, List.flatten_cons,
              List.flatten_nil, List.append_nil]
            rw [← hacc, hpt, List.append_nil]
          · simpa using hshape'
          · simp only [CarryOk]
            constructor
            · intro h; omega
            · intro h
              have := take_succ_getLast_isSome (tail s) _ hL
              rw [← hneed, h] at this; simp at this
          · -- new tail = look-ahead byte ++ rest of source = encoding of the remaining segments
            show carryBytes ((tail s).take (need P s.cnt)).getLast? ++ (tail s).drop (need P s.cnt) = _
            rw [hneed, carry_drop _ _ hL, htl, List.drop_left']
            · simp
            · rfl
          · intro hcap
            left
            have hlimpos : 0 < lim P done.length := by
              unfold lim; split <;> omega
            cases sg with
            | nil => simp at hsh; omega
            | cons a as => cases cap with
              | zero => omega
              | succ c => simp

/-- all data items of an output list, concatenated -/
def allData : List ROut → Bytes
  | [] => []
  | .data d :: os => d ++ allData os
  | _ :: os => allData os

theorem rinv_prefix (P : Params) (C : Cipher) (segs : List Bytes) (s : RState) (acc : Bytes)
    (inv : RInv P C segs s acc) : ∃ rest, acc ++ rest = segs.flatten := by
  obtain ⟨done, todo, hseg, _, hacc, _⟩ := inv.decomp
  exact ⟨s.pt ++ todo.flatten, by rw [hseg, List.flatten_append, ← hacc, List.append_assoc]⟩

/-- Any sequence of reads on an honest stream: only data and EOF come out, the data is a prefix of
    the plaintext, and once EOF has been seen the data is the whole plaintext. -/
theorem readMany_honest (P : Params) (C : Cipher) (hC : Honest P C) (hoff : P.off < P.ptSeg)
    (hov : 0 < P.overhead) (segs : List Bytes) (hsegs : segs.length ≤ 4294967295)
    (caps : List Nat) (s : RState) (acc : Bytes) (inv : RInv P C segs s acc) :
    let outs := (readMany P C false s caps).2
    (∀ o ∈ outs, (∃ d, o = .data d) ∨ o = .eof) ∧
    (∃ rest, acc ++ allData outs ++ rest = segs.flatten) ∧
    (.eof ∈ outs → acc ++ allData outs = segs.flatten) ∧
    ((∀ c ∈ caps, 0 < c) → segs.flatten.length - acc.length + 1 < caps.length → .eof ∈ outs) := by
  induction caps generalizing s acc with
  | nil =>
    obtain ⟨rest, hr⟩ := rinv_prefix P C segs s acc inv
    refine ⟨by simp [readMany], ⟨rest, by simpa [readMany, allData] using hr⟩, by simp [readMany], ?_⟩
    intro _ h; simp at h
  | cons cap caps ih =>
    simp only [readMany]
    rcases read_honest P C hC hoff hov segs hsegs s acc inv cap with ⟨d, hd, inv', hprog⟩ | ⟨he, hacc, hs⟩
    · obtain ⟨h1, ⟨rest, h2⟩, h3, h4⟩ := ih _ _ inv'
      rw [hd]
      refine ⟨?_, ⟨rest, by simpa [allData, List.append_assoc] using h2⟩, ?_, ?_⟩
      · intro o ho
        rcases List.mem_cons.mp ho with rfl | ho
        · exact Or.inl ⟨d, rfl⟩
        · exact h1 o ho
      · intro ho
        rcases List.mem_cons.mp ho with h | ho
        · cases h
        · simpa [allData, List.append_assoc] using h3 ho
      · intro hpos hlen
        apply List.mem_cons_of_mem
        simp only [List.length_cons] at hlen
        rcases hprog (hpos cap (List.mem_cons_self ..)) with hdne | ⟨hp0, hl0⟩
        · apply h4 (fun c hc => hpos c (List.mem_cons_of_mem _ hc))
          have hdpos : 0 < d.length := List.length_pos_iff.mpr hdne
          obtain ⟨r0, hr0⟩ := rinv_prefix P C segs _ _ inv'
          have : (acc ++ d).length ≤ segs.flatten.length := by rw [← hr0]; simp
          simp only [List.length_append] at this ⊢
          omega
        · -- the (empty) final segment was just decrypted: the next read returns EOF
          cases caps with
          | nil => simp at hlen
          | cons c2 caps2 =>
            simp only [readMany, read_done P C false _ c2 hp0 hl0]
            exact List.mem_cons_self ..
    · rw [he, hs]
      obtain ⟨h1, ⟨rest, h2⟩, h3, h4⟩ := ih s acc inv
      refine ⟨?_, ⟨rest, by simpa [allData] using h2⟩, ?_, fun _ _ => List.mem_cons_self ..⟩
      · intro o ho
        rcases List.mem_cons.mp ho with rfl | ho
        · exact Or.inr rfl
        · exact h1 o ho
      · intro _
        -- after EOF the state is unchanged, so later reads return EOF again and no data
        simp only [allData]
        obtain ⟨r, hr⟩ : ∃ r, acc ++ allData (readMany P C false s caps).2 ++ r = segs.flatten := ⟨rest, h2⟩
        have hlen := congrArg List.length hr
        rw [hacc] at hlen ⊢
        simp only [List.length_append] at hlen
        have : (allData (readMany P C false s caps).2).length = 0 := by omega
        rw [List.length_eq_zero_iff.mp this, List.append_nil]

/-- **T2 (reader chunking independence).** Reading the stream written for `pt` through any
    sequence of `Read` capacities (zeros allowed): no error ever occurs, the bytes returned are a
    prefix of `pt`, EOF is returned only after all of `pt` has been returned, and if all
    capacities are positive and there are at least |pt|+2 reads, EOF is reached. -/
theorem reader_chunking_independent (P : Params) (C : Cipher) (hC : Honest P C)
    (hoff : P.off < P.ptSeg) (hov : 0 < P.overhead) (pt : Bytes)
    (hsegs : (split (P.ptSeg - P.off) P.ptSeg pt).length ≤ 4294967295) (caps : List Nat) :
    let outs := (readMany P C false (RState.init (encodeStream P C pt)) caps).2
    (∀ o ∈ outs, (∃ d, o = .data d) ∨ o = .eof) ∧
    (∃ rest, allData outs ++ rest = pt) ∧
    (.eof ∈ outs → allData outs = pt) ∧
    ((∀ c ∈ caps, 0 < c) → pt.length + 1 < caps.length → .eof ∈ outs) := by
  have h := readMany_honest P C hC hoff hov _ hsegs caps _ [] (rinv_init P C pt hoff)
  simp only [List.nil_append, flatten_split, List.length_nil, Nat.sub_zero] at h
  exact h

/-- **Round trip through both state machines**: what the writer emits for any write partition is
    read back, for any read capacities, as a prefix of the plaintext ending in EOF exactly when
    complete. -/
theorem stream_roundtrip (P : Params) (C : Cipher) (hC : Honest P C) (hoff : P.off < P.ptSeg)
    (hov : 0 < P.overhead) (ps : List Bytes) (hlen : ps.flatten.length ≤ 4294967294)
    (hsegs : (split (P.ptSeg - P.off) P.ptSeg ps.flatten).length ≤ 4294967295) (caps : List Nat) :
    let ct := (close C none (writeMany P C none WState.init ps).1).1.output
    let outs := (readMany P C false (RState.init ct) caps).2
    (∃ rest, allData outs ++ rest = ps.flatten) ∧ (.eof ∈ outs → allData outs = ps.flatten) ∧
    (∀ o ∈ outs, (∃ d, o = .data d) ∨ o = .eof) := by
  simp only [(writer_chunking_independent P C ps hoff hlen).2.2]
  obtain ⟨h1, h2, h3, _⟩ := reader_chunking_independent P C hC hoff hov ps.flatten hsegs caps
  exact ⟨h2, h3, h1⟩

/-! ## T3 — manipulation detection under the ideal-segment-cipher hypothesis `H_seg` -/

/-- `H_seg` relative to one honest stream with plaintext segments `segs`: the segment cipher opens
    a ciphertext under counter `i` / last-flag `l` only if it is *the* honest segment `i`, produced
    with that very flag (the flag is `true` exactly for the final segment). This is what an ideal
    nonce-based AEAD gives; it is a hypothesis of the theorem, not an axiom. -/
structure Sound (C : Cipher) (segs : List Bytes) : Prop where
  only : ∀ (i : Nat) (l : Bool) (x r : Bytes), C.dec i l x = some r →
    ∃ done sg todo, segs = done ++ sg :: todo ∧ i = done.length ∧ r = sg ∧ x = C.enc i l sg ∧
      (l = true ↔ todo = [])

/-- encodings of segments none of which is final -/
def encNL (C : Cipher) : Nat → List Bytes → List Bytes
  | _, [] => []
  | i, s :: t => C.enc i false s :: encNL C (i + 1) t

theorem encNL_append (C : Cipher) (i : Nat) (a b : List Bytes) :
    encNL C i (a ++ b) = encNL C i a ++ encNL C (i + a.length) b := by
  induction a generalizing i with
  | nil => simp [encNL]
  | cons x xs ih => simp [encNL, ih, Nat.add_assoc, Nat.add_comm 1]

theorem encSegs_append_last (C : Cipher) (i : Nat) (done : List Bytes) (sg : Bytes) :
    encSegs C i (done ++ [sg]) = encNL C i done ++ [C.enc (i + done.length) true sg] := by
  induction done generalizing i with
  | nil => simp [encSegs, encNL]
  | cons x xs ih =>
    rw [List.cons_append, encSegs_cons_of_ne_nil _ _ _ _ (by simp), ih]
    simp [encNL, Nat.add_assoc, Nat.add_comm 1]

/-- invariant while reading an arbitrary source `c'`, as long as no error has been returned -/
structure GInv (P : Params) (C : Cipher) (segs : List Bytes) (c' : Bytes) (s : RState) (acc : Bytes) : Prop where
  decomp : ∃ done todo, segs = done ++ todo ∧ s.cnt = done.length ∧ acc ++ s.pt = done.flatten ∧
    (s.lastDone = false → CarryOk s ∧ (encNL C 0 done).flatten ++ tail s = c') ∧
    (s.lastDone = true → todo = [] ∧ c' = (encSegs C 0 segs).flatten)

theorem ginv_init (P : Params) (C : Cipher) (segs : List Bytes) (c' : Bytes) :
    GInv P C segs c' (RState.init c') [] :=
  ⟨⟨[], segs, by simp, rfl, by simp [RState.init],
    fun _ => ⟨by simp [CarryOk, RState.init], by simp [encNL, tail, carryBytes, RState.init]⟩,
    fun h => by simp [RState.init] at h⟩⟩

theorem prefix_unique {α} (a b c d : List α) (h : a ++ b = c ++ d) (hl : a.length = c.length) :
    a = c ∧ b = d := List.append_inj h hl

/-- One `Read` on an arbitrary source. -/
theorem read_sound (P : Params) (C : Cipher) (e : Bool) (segs : List Bytes) (hS : Sound C segs)
    (hoff : P.off ≤ P.ptSeg) (c' : Bytes) (s : RState) (acc : Bytes)
    (inv : GInv P C segs c' s acc) (cap : Nat) :
    (∃ d, (read P C e s cap).2 = .data d ∧ GInv P C segs c' (read P C e s cap).1 (acc ++ d)) ∨
    ((read P C e s cap).2 = .eof ∧ (read P C e s cap).1 = s ∧
      c' = (encSegs C 0 segs).flatten ∧ acc = segs.flatten) ∨
    (∃ er, (read P C e s cap).2 = .err er) := by
  obtain ⟨done, todo, hseg, hcnt, hacc, hnl, hl⟩ := inv.decomp
  by_cases hpt : s.pt ≠ []
  · left
    rw [read_buffered P C e s cap hpt]
    exact ⟨s.pt.take cap, rfl, ⟨⟨done, todo, hseg, hcnt,
      by simp only [List.append_assoc, List.take_append_drop]; exact hacc, hnl, hl⟩⟩⟩
  · simp only [ne_eq, Decidable.not_not] at hpt
    by_cases hld : s.lastDone = true
    · right; left
      rw [read_done P C e s cap hpt hld]
      obtain ⟨ht, hc⟩ := hl hld
      exact ⟨rfl, rfl, hc, by rw [hseg, ht, List.append_nil, ← hacc, hpt, List.append_nil]⟩
    · have hld' : s.lastDone = false := by cases h : s.lastDone <;> simp_all
      obtain ⟨hcarry, hcons⟩ := hnl hld'
      -- unfold the remaining branches of `read` by hand
      unfold read
      simp only [hpt, ne_eq, not_true_eq_false, ↓reduceIte, hld', Bool.false_eq_true]
      rw [all_eq_take P s hcarry hoff, tail_drop P s hcarry hoff]
      by_cases hfull : need P s.cnt ≤ (tail s).length
      · rw [if_pos ((chunk_full_iff P s hcarry hoff).mpr hfull)]
        by_cases hc : s.cnt ≥ 4294967295
        · right; right; simp [hc]
        · simp only [hc, ↓reduceIte]
          obtain ⟨m, hmeq⟩ : ∃ m, need P s.cnt = m + 1 := ⟨need P s.cnt - 1, by unfold need; omega⟩
          have hm : m < (tail s).length := by omega
          simp only [hmeq]
          rw [take_succ_dropLast _ _ hm]
          cases hdec : C.dec s.cnt false ((tail s).take m) with
          | none => right; right; exact ⟨_, rfl⟩
          | some r =>
            left
            obtain ⟨done', sg, todo', hseg', hi, hr, hx, hlast⟩ := hS.only _ _ _ _ hdec
            have hdd : done = done' ∧ todo = sg :: todo' :=
              prefix_unique _ _ _ _ (hseg.symm.trans hseg') (by omega)
            obtain ⟨rfl, rfl⟩ := hdd
            subst hr
            refine ⟨r.take cap, rfl, ⟨⟨done ++ [r], todo', by simp [hseg], by simp [hcnt], ?_, ?_, ?_⟩⟩⟩
            · simp only [List.append_assoc, List.take_append_drop, List.flatten_append,
                List.flatten_cons, List.flatten_nil, List.append_nil]
              rw [← hacc, hpt, List.append_nil]
            · intro _
              constructor
              · simp only [CarryOk]
                constructor
                · intro h; omega
                · intro h
                  have := take_succ_getLast_isSome (tail s) _ hm
                  rw [h] at this; simp at this
              · show _ ++ (carryBytes ((tail s).take (m + 1)).getLast? ++ (tail s).drop (m + 1)) = c'
                rw [carry_drop _ _ hm, encNL_append, List.flatten_append]
                simp only [encNL, List.flatten_cons, List.flatten_nil, List.append_nil, Nat.zero_add]
                rw [← hcnt, ← hx, List.append_assoc, List.take_append_drop]
                exact hcons
            · intro h; simp at h
      · rw [if_neg (fun hh => hfull ((chunk_full_iff P s hcarry hoff).mp hh))]
        cases e with
        | true => right; right; exact ⟨_, rfl⟩
        | false =>
          simp only [Bool.false_eq_true, ↓reduceIte]
          by_cases hc : s.cnt ≥ 4294967295
          · right; right; simp [hc]
          · simp only [hc, ↓reduceIte]
            rw [List.take_of_length_le (by omega)]
            cases hdec : C.dec s.cnt true (tail s) with
            | none => right; right; exact ⟨_, rfl⟩
            | some r =>
              left
              obtain ⟨done', sg, todo', hseg', hi, hr, hx, hlast⟩ := hS.only _ _ _ _ hdec
              have hdd : done = done' ∧ todo = sg :: todo' :=
                prefix_unique _ _ _ _ (hseg.symm.trans hseg') (by omega)
              obtain ⟨rfl, rfl⟩ := hdd
              subst hr
              have ht : todo' = [] := hlast.mp rfl
              subst ht
              refine ⟨r.take cap, rfl, ⟨⟨done ++ [r], [], by simp [hseg], by simp [hcnt], ?_, ?_, ?_⟩⟩⟩
              · simp only [List.append_assoc, List.take_append_drop, List.flatten_append,
                  List.flatten_cons, List.flatten_nil, List.append_nil]
                rw [← hacc, hpt, List.append_nil]
              · intro h; simp at h
              · intro _
                refine ⟨rfl, ?_⟩
                rw [hseg, encSegs_append_last, List.flatten_append, ← hcons, hx, hcnt]
                simp

/-- data returned before the first error -/
def dataBeforeErr : List ROut → Bytes
  | [] => []
  | .data d :: os => d ++ dataBeforeErr os
  | .eof :: os => dataBeforeErr os
  | .err _ :: _ => []

/-- an EOF is returned before any error -/
def cleanEof : List ROut → Bool
  | [] => false
  | .data _ :: os => cleanEof os
  | .eof :: _ => true
  | .err _ :: _ => false

theorem ginv_prefix (P : Params) (C : Cipher) (segs : List Bytes) (c' : Bytes) (s : RState) (acc : Bytes)
    (inv : GInv P C segs c' s acc) : ∃ rest, acc ++ rest = segs.flatten := by
  obtain ⟨done, todo, hseg, _, hacc, _⟩ := inv.decomp
  exact ⟨s.pt ++ todo.flatten, by rw [hseg, List.flatten_append, ← hacc, List.append_assoc]⟩

theorem readMany_sound (P : Params) (C : Cipher) (e : Bool) (segs : List Bytes) (hS : Sound C segs)
    (hoff : P.off ≤ P.ptSeg) (c' : Bytes) (caps : List Nat) (s : RState) (acc : Bytes)
    (inv : GInv P C segs c' s acc) :
    let outs := (readMany P C e s caps).2
    (∃ rest, acc ++ dataBeforeErr outs ++ rest = segs.flatten) ∧
    (cleanEof outs = true → c' = (encSegs C 0 segs).flatten ∧ acc ++ dataBeforeErr outs = segs.flatten) := by
  induction caps generalizing s acc with
  | nil =>
    obtain ⟨rest, hr⟩ := ginv_prefix P C segs c' s acc inv
    exact ⟨⟨rest, by simpa [readMany, dataBeforeErr] using hr⟩, by simp [readMany, cleanEof]⟩
  | cons cap caps ih =>
    simp only [readMany]
    rcases read_sound P C e segs hS hoff c' s acc inv cap with ⟨d, hd, inv'⟩ | ⟨he, hs, hc, hacc⟩ | ⟨er, her⟩
    · obtain ⟨⟨rest, h1⟩, h2⟩ := ih _ _ inv'
      rw [hd]
      refine ⟨⟨rest, by simpa [dataBeforeErr, List.append_assoc] using h1⟩, ?_⟩
      intro hce
      simpa [dataBeforeErr, List.append_assoc] using h2 (by simpa [cleanEof] using hce)
    · rw [he, hs]
      obtain ⟨⟨rest, h1⟩, _⟩ := ih s acc inv
      refine ⟨⟨rest, by simpa [dataBeforeErr] using h1⟩, fun _ => ⟨hc, ?_⟩⟩
      simp only [dataBeforeErr]
      have hlen := congrArg List.length h1
      rw [hacc] at hlen ⊢
      simp only [List.length_append] at hlen
      have : (dataBeforeErr (readMany P C e s caps).2).length = 0 := by omega
      rw [List.length_eq_zero_iff.mp this, List.append_nil]
    · rw [her]
      obtain ⟨rest, hr⟩ := ginv_prefix P C segs c' s acc inv
      exact ⟨⟨rest, by simpa [dataBeforeErr] using hr⟩, by simp [cleanEof]⟩

/-- **T3 (manipulation detection).** Let `segs` be the plaintext segments of an honest stream and
    let the segment cipher satisfy `H_seg` for it. For **every** byte string `c'` presented as the
    ciphertext (truncated, extended, segments dropped / duplicated / reordered / altered, or anything
    else) and every sequence of `Read` capacities: the bytes returned before the first error are a
    prefix of the plaintext, and if an EOF is returned without an earlier error then `c'` is exactly
    the honest stream and the whole plaintext was returned. -/
theorem manipulation_detected (P : Params) (C : Cipher) (e : Bool) (segs : List Bytes)
    (hS : Sound C segs) (hoff : P.off ≤ P.ptSeg) (c' : Bytes) (caps : List Nat) :
    let outs := (readMany P C e (RState.init c') caps).2
    (∃ rest, dataBeforeErr outs ++ rest = segs.flatten) ∧
    (cleanEof outs = true → c' = (encSegs C 0 segs).flatten ∧ dataBeforeErr outs = segs.flatten) := by
  have h := readMany_sound P C e segs hS hoff c' caps _ [] (ginv_init P C segs c')
  simpa using h

/-- A source that fails persistently (non-EOF error once its bytes are exhausted) never yields EOF. -/
theorem source_fault_never_eof (P : Params) (C : Cipher) (caps : List Nat) (s : RState)
    (hl : s.lastDone = false) : .eof ∉ (readMany P C true s caps).2 := by
  induction caps generalizing s with
  | nil => simp [readMany]
  | cons cap caps ih =>
    simp only [readMany, List.mem_cons, not_or]
    have key : (read P C true s cap).2 ≠ .eof ∧ (read P C true s cap).1.lastDone = false := by
      unfold read
      simp only [hl, Bool.false_eq_true, ↓reduceIte]
      repeat' split
      all_goals simp [hl]
    exact ⟨fun h => key.1 h.symm, ih _ key.2⟩

/-! ## Non-vacuity -/

/-- a concrete cipher satisfying `Honest` (identity with a 1-byte tag) -/
def tagCipher : Cipher :=
  { enc := fun i l s => s ++ [UInt8.ofNat (i + (if l then 1 else 0))]
    dec := fun i l x => if x.getLast? = some (UInt8.ofNat (i + (if l then 1 else 0))) then some x.dropLast else none }

example : Honest { ptSeg := 4, off := 1, overhead := 1 } tagCipher :=
  ⟨by intro i l s; simp [tagCipher], by intro i l s; simp [tagCipher]⟩

/-- an ideal cipher for a given honest stream: opens exactly the honest segments -/
def idealCipher (segs : List Bytes) : Cipher :=
  { enc := fun i l s => s ++ [UInt8.ofNat i, if l then 1 else 0]
    dec := fun i l x =>
      match segs[i]? with
      | none => none
      | some sg => if x = sg ++ [UInt8.ofNat i, if l then 1 else 0] ∧ l = decide (i + 1 = segs.length)
                   then some sg else none }

theorem idealCipher_sound (segs : List Bytes) : Sound (idealCipher segs) segs := by
  constructor
  intro i l x r h
  simp only [idealCipher] at h
  cases hsg : segs[i]? with
  | none => simp [hsg] at h
  | some sg =>
    simp only [hsg] at h
    by_cases hc : x = sg ++ [UInt8.ofNat i, if l then 1 else 0] ∧ l = decide (i + 1 = segs.length)
    · rw [if_pos hc] at h
      cases h
      have hi : i < segs.length := (List.getElem?_eq_some_iff.mp hsg).1
      have hg : segs[i] = r := (List.getElem?_eq_some_iff.mp hsg).2
      refine ⟨segs.take i, r, segs.drop (i + 1), ?_, by simp; omega, rfl, hc.1, ?_⟩
      · rw [← hg]; simp
      · rw [hc.2]; simp only [decide_eq_true_eq, List.drop_eq_nil_iff]; omega
    · rw [if_neg hc] at h; cases h

example : (readMany { ptSeg := 3, off := 1, overhead := 2 } (idealCipher [[1, 2], [3, 4, 5], [6]]) false
    (RState.init (encSegs (idealCipher [[1, 2], [3, 4, 5], [6]]) 0 [[1, 2], [3, 4, 5], [6]]).flatten) [1, 5, 0, 2, 9, 9]).2
    = [.data [1], .data [2], .data [], .data [3, 4], .data [5], .data [6]] := by decide

end TinkVerif.Stream

section AxiomAudit
open TinkVerif.Stream
#print axioms writer_chunking_independent
#print axioms writer_partition_irrelevant
#print axioms segments_cover_plaintext
#print axioms segmentNonce_injective
#print axioms segmentNonce_limit
#print axioms sink_fault_surfaces
#print axioms flush_fails_after_fault
#print axioms failed_flush_keeps_segment
#print axioms read_honest
#print axioms reader_chunking_independent
#print axioms stream_roundtrip
#print axioms read_sound
#print axioms manipulation_detected
#print axioms source_fault_never_eof
#print axioms idealCipher_sound
end AxiomAudit
