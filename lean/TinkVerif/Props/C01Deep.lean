import TinkVerif.Props.C01
import TinkVerif.Lemmas.AeadFraming

/-!
# C01 / C02, deeper: what the AEAD framings accept, and why the length block is there

`Props/C01.lean` proves the round trips and the acceptance characterisations (`*_iff`).  This file adds

1. unambiguity of the encrypt-then-MAC input `ad ‖ payload ‖ be64(8·|ad|)` (exact guard `2^61`),
2. AES-CTR-HMAC: every accepted ciphertext *is* an encryption; rejection of wrong prefix / short input /
   modified ad, ciphertext, tag (the two "modified" lemmas that need it take the absence of a truncated
   MAC collision on the two specific inputs as an explicit hypothesis),
3. AES-GCM-SIV: the same, the counter block's top bit, domain separation of tag block and counter
   blocks, POLYVAL input length and unambiguity,
4. XAES-256-GCM: round trip from the minimal hypotheses, what the key derivation depends on, rejections,
5. KMS envelope framing: serialize/parse are mutually inverse partial functions, exact guards,
6. output prefixes: exact criterion for two prefixes to coincide; foreign-prefix rejection.

All statements are for all inputs; every theorem with hypotheses is followed by an `example` that the
hypotheses are satisfiable.
-/
namespace TinkVerif.Aead
open TinkVerif

/-! ## 1. The MAC input of encrypt-then-MAC is unambiguous (below 2^61 bytes of associated data) -/

theorem EtM.macInput_length (ad p : Bytes) : (EtM.macInput ad p).length = ad.length + p.length + 8 := by
  simp only [EtM.macInput, Bytes.be64, List.length_append, Bytes.length_ofNatBE]

/-- **Exact criterion.** Two MAC inputs coincide iff the concatenations coincide and the two
    associated-data lengths agree modulo `2^61` (that is all the 64-bit *bit*-length block can see). -/
theorem EtM.macInput_eq_iff (ad p ad' p' : Bytes) :
    EtM.macInput ad p = EtM.macInput ad' p' ↔
      ad ++ p = ad' ++ p' ∧ ad.length % 2305843009213693952 = ad'.length % 2305843009213693952 := by
  unfold EtM.macInput
  rw [← Bytes.be64_eight_mul_eq_iff]
  constructor
  · intro h
    exact List.append_inj' h (by simp [Bytes.be64])
  · rintro ⟨h1, h2⟩
    rw [h1, h2]

/-- **Unambiguity**, under the weakest guard on the two lengths alone: they differ by less than `2^61`. -/
theorem EtM.macInput_inj_of_close (ad p ad' p' : Bytes)
    (h1 : ad.length < ad'.length + 2305843009213693952) (h2 : ad'.length < ad.length + 2305843009213693952)
    (h : EtM.macInput ad p = EtM.macInput ad' p') : ad = ad' ∧ p = p' := by
  obtain ⟨hc, hm⟩ := (EtM.macInput_eq_iff ad p ad' p').1 h
  have hl : ad.length = ad'.length := by
    clear hc h
    generalize ad.length = x at *
    generalize ad'.length = y at *
    omega
  exact List.append_inj hc hl

/-- **Unambiguity** in the form used: both associated-data strings shorter than `2^61` bytes
    (so that `8·|ad|` fits the 64-bit length block). -/
theorem EtM.macInput_inj (ad p ad' p' : Bytes)
    (h1 : ad.length < 2305843009213693952) (h2 : ad'.length < 2305843009213693952)
    (h : EtM.macInput ad p = EtM.macInput ad' p') : ad = ad' ∧ p = p' :=
  EtM.macInput_inj_of_close ad p ad' p' (by omega) (by omega) h

example : ∃ ad p ad' p' : Bytes, ad.length < 2305843009213693952 ∧ ad'.length < 2305843009213693952 ∧
    EtM.macInput ad p = EtM.macInput ad' p' := ⟨[1], [2], [1], [2], by decide, by decide, rfl⟩

/-- The guard is sharp: moving exactly `2^61` bytes from the payload into the associated data does not
    change the MAC input. -/
theorem EtM.macInput_collision_at_2_61 (ad x p : Bytes) (hx : x.length = 2305843009213693952) :
    EtM.macInput ad (x ++ p) = EtM.macInput (ad ++ x) p ∧ ad ≠ ad ++ x := by
  constructor
  · rw [EtM.macInput_eq_iff]
    refine ⟨by simp, ?_⟩
    rw [List.length_append, hx]; omega
  · intro h
    have := congrArg List.length h
    rw [List.length_append, hx] at this; omega

/-- strings of every length exist (kept generic in `n`: a literal `2^61` must not be unfolded) -/
theorem exists_bytes_of_length (n : Nat) : ∃ x : Bytes, x.length = n :=
  ⟨List.replicate n 0, List.length_replicate ..⟩

example : ∃ x : Bytes, x.length = 2305843009213693952 := exists_bytes_of_length _

/-- Why the length block exists: without it, `ad ‖ payload` alone is ambiguous. -/
example : ([1] : Bytes) ++ [2] = [1, 2] ++ [] ∧ (([1] : Bytes), ([2] : Bytes)) ≠ ([1, 2], []) := by decide

/-- … whereas with it the same two pairs are told apart. -/
example : EtM.macInput [1] [2] ≠ EtM.macInput [1, 2] [] := by decide

/-- `n ↦ be64 (8·n)` is injective below `2^61` … -/
theorem be64_bitlen_inj (n m : Nat) (hn : n < 2305843009213693952) (hm : m < 2305843009213693952)
    (h : Bytes.be64 (8 * n) = Bytes.be64 (8 * m)) : n = m := by
  rw [Bytes.be64_eight_mul_eq_iff] at h; omega

example : (5 : Nat) < 2305843009213693952 ∧ Bytes.be64 (8 * 5) = Bytes.be64 (8 * 5) := ⟨by decide, rfl⟩

/-- … and not beyond: `0` and `2^61` get the same length block. -/
theorem be64_bitlen_wrap : Bytes.be64 (8 * 2305843009213693952) = Bytes.be64 (8 * 0) := by
  rw [Bytes.be64_eight_mul_eq_iff]

theorem be64_bitlen_not_inj : ¬ ∀ n m : Nat, Bytes.be64 (8 * n) = Bytes.be64 (8 * m) → n = m := by
  intro h
  have := h _ _ be64_bitlen_wrap
  omega

/-- What a 32-bit truncation of the length block would break: already `2^29` bytes (512 MiB) of
    associated data would wrap. -/
theorem be32_bitlen_wrap : Bytes.be32 (8 * 536870912) = Bytes.be32 (8 * 0) := by
  unfold Bytes.be32
  rw [Bytes.ofNatBE_eq_iff, Bytes.pow_256_4]

/-! ## 2. AES-CTR-HMAC -/

/-- the truncated tag over `(ad, payload)` -/
def EtM.tagOf (a : EtM) (ad payload : Bytes) : Bytes := (a.mac (EtM.macInput ad payload)).take a.tagLen

theorem EtM.encryptWith_eq_frame (a : EtM) (iv pt ad : Bytes) :
    a.encryptWith iv pt ad =
      a.pre ++ (iv ++ Ctr.xorBE a.E (padIV iv) pt) ++ a.tagOf ad (iv ++ Ctr.xorBE a.E (padIV iv) pt) := rfl

theorem EtM.tagOf_length (a : EtM) (hm : ∀ x, a.tagLen ≤ (a.mac x).length) (ad payload : Bytes) :
    (a.tagOf ad payload).length = a.tagLen := by
  unfold EtM.tagOf; rw [List.length_take]; exact Nat.min_eq_left (hm _)

theorem EtM.decrypt_short (a : EtM) (ct ad : Bytes) (h : ct.length < a.pre.length + a.ivLen + a.tagLen) :
    a.decrypt ct ad = none := by
  simp [EtM.decrypt, h]

example : ∃ (a : EtM) (ct : Bytes), ct.length < a.pre.length + a.ivLen + a.tagLen :=
  ⟨⟨[], id, id, 12, 16⟩, [], by decide⟩

theorem EtM.decrypt_wrong_prefix (a : EtM) (ct ad : Bytes) (h : ct.take a.pre.length ≠ a.pre) :
    a.decrypt ct ad = none := by
  rw [Option.eq_none_iff_forall_ne_some]
  intro p hp
  exact h ((EtM.decrypt_iff a ct ad p).1 hp).2.1

example : ∃ (a : EtM) (ct : Bytes), ct.take a.pre.length ≠ a.pre :=
  ⟨⟨[1], id, id, 12, 16⟩, [2], by decide⟩

/-- the tag check: a ciphertext whose last `tagLen` bytes are not the truncated MAC is rejected -/
theorem EtM.decrypt_bad_tag (a : EtM) (ct ad : Bytes)
    (h : a.tagOf ad ((ct.drop a.pre.length).take (ct.length - a.pre.length - a.tagLen))
          ≠ ct.drop (ct.length - a.tagLen)) :
    a.decrypt ct ad = none := by
  rw [Option.eq_none_iff_forall_ne_some]
  intro p hp
  exact h ((EtM.decrypt_iff a ct ad p).1 hp).2.2.1

/-- decryption of a well-formed frame `prefix ‖ payload ‖ tag` -/
theorem EtM.decrypt_frame_iff (a : EtM) (payload tag ad p : Bytes) (ht : tag.length = a.tagLen) :
    a.decrypt (a.pre ++ payload ++ tag) ad = some p ↔
      a.ivLen ≤ payload.length ∧ a.tagOf ad payload = tag ∧
      p = Ctr.xorBE a.E (padIV (payload.take a.ivLen)) (payload.drop a.ivLen) := by
  obtain ⟨c1, c2, c3⟩ := cut3 a.pre payload tag
  have hl : (a.pre ++ payload ++ tag).length = a.pre.length + payload.length + a.tagLen := by
    simp only [List.length_append, ht]
  rw [ht] at c2 c3
  rw [EtM.decrypt_iff, c1, c2, c3, hl]
  unfold EtM.tagOf
  constructor
  · rintro ⟨h1, -, h3, h4⟩
    exact ⟨by omega, h3, h4⟩
  · rintro ⟨h1, h3, h4⟩
    exact ⟨by omega, rfl, h3, h4⟩

/-- every accepted ciphertext is a frame carrying the right tag over its own payload -/
theorem EtM.accepted_is_frame (a : EtM) (ct ad p : Bytes) (h : a.decrypt ct ad = some p) :
    ∃ payload, a.ivLen ≤ payload.length ∧ ct = a.pre ++ payload ++ a.tagOf ad payload ∧
      p = Ctr.xorBE a.E (padIV (payload.take a.ivLen)) (payload.drop a.ivLen) := by
  obtain ⟨h1, h2, h3, h4⟩ := (EtM.decrypt_iff a ct ad p).1 h
  refine ⟨(ct.drop a.pre.length).take (ct.length - a.pre.length - a.tagLen), ?_, ?_, h4⟩
  · rw [List.length_take, List.length_drop]; omega
  · have hs := split3 ct a.pre.length a.tagLen (by omega)
    unfold EtM.tagOf
    rw [h3, h2] at *
    exact hs

/-- **Acceptance = being an encryption.**  `decrypt ct ad = some pt` iff `ct` is the encryption of
    `pt` with `ad` under some IV of the configured length. -/
theorem EtM.decrypt_some_iff_encrypt (a : EtM) (hE : ∀ b, (a.E b).length = 16)
    (hm : ∀ x, a.tagLen ≤ (a.mac x).length) (ct ad pt : Bytes) :
    a.decrypt ct ad = some pt ↔ ∃ iv, iv.length = a.ivLen ∧ ct = a.encryptWith iv pt ad := by
  constructor
  · intro h
    obtain ⟨payload, hl, hct, hp⟩ := EtM.accepted_is_frame a ct ad pt h
    refine ⟨payload.take a.ivLen, by rw [List.length_take]; omega, ?_⟩
    rw [EtM.encryptWith_eq_frame, hp, xorBE_involutive a.E hE, List.take_append_drop]
    exact hct
  · rintro ⟨iv, hiv, rfl⟩
    exact EtM.decrypt_encrypt a hE hm iv pt ad hiv

/-- **Modified associated data is rejected**, unless the truncated MAC collides on the two inputs. -/
theorem EtM.reject_modified_ad (a : EtM) (hm : ∀ x, a.tagLen ≤ (a.mac x).length) (iv pt ad ad' : Bytes)
    (hcol : (a.mac (EtM.macInput ad' (iv ++ Ctr.xorBE a.E (padIV iv) pt))).take a.tagLen ≠
            (a.mac (EtM.macInput ad (iv ++ Ctr.xorBE a.E (padIV iv) pt))).take a.tagLen) :
    a.decrypt (a.encryptWith iv pt ad) ad' = none := by
  rw [Option.eq_none_iff_forall_ne_some]
  intro p hp
  rw [EtM.encryptWith_eq_frame, EtM.decrypt_frame_iff a _ _ _ _ (EtM.tagOf_length a hm _ _)] at hp
  exact hcol hp.2.1

/-- **Modified IV / ciphertext body is rejected** (any replacement `payload'` of any length, the tag
    kept), unless the truncated MAC collides on the two inputs. -/
theorem EtM.reject_modified_payload (a : EtM) (hm : ∀ x, a.tagLen ≤ (a.mac x).length)
    (iv pt ad payload' : Bytes)
    (hcol : (a.mac (EtM.macInput ad payload')).take a.tagLen ≠
            (a.mac (EtM.macInput ad (iv ++ Ctr.xorBE a.E (padIV iv) pt))).take a.tagLen) :
    a.decrypt (a.pre ++ payload' ++ a.tagOf ad (iv ++ Ctr.xorBE a.E (padIV iv) pt)) ad = none := by
  rw [Option.eq_none_iff_forall_ne_some]
  intro p hp
  rw [EtM.decrypt_frame_iff a _ _ _ _ (EtM.tagOf_length a hm _ _)] at hp
  exact hcol hp.2.1

/-- **A modified tag is rejected** — no hypothesis on the MAC is needed, it is a function. -/
theorem EtM.reject_modified_tag (a : EtM) (iv pt ad tag' : Bytes) (hl : tag'.length = a.tagLen)
    (hne : tag' ≠ a.tagOf ad (iv ++ Ctr.xorBE a.E (padIV iv) pt)) :
    a.decrypt (a.pre ++ (iv ++ Ctr.xorBE a.E (padIV iv) pt) ++ tag') ad = none := by
  rw [Option.eq_none_iff_forall_ne_some]
  intro p hp
  rw [EtM.decrypt_frame_iff a _ _ _ _ hl] at hp
  exact hne hp.2.1.symm

/-- **Link between 1 and 2** (what a reduction to MAC unforgeability needs): whatever is accepted and is
    not the honest `(ciphertext, ad)` pair carries a valid truncated tag on a MAC input *different* from
    the honest one. -/
theorem EtM.accepted_other_is_fresh (a : EtM) (iv pt ad ct' ad' p' : Bytes)
    (hl : ad.length < 2305843009213693952) (hl' : ad'.length < 2305843009213693952)
    (hacc : a.decrypt ct' ad' = some p')
    (hne : ct' ≠ a.encryptWith iv pt ad ∨ ad' ≠ ad) :
    ∃ payload', ct' = a.pre ++ payload' ++ (a.mac (EtM.macInput ad' payload')).take a.tagLen ∧
      EtM.macInput ad' payload' ≠ EtM.macInput ad (iv ++ Ctr.xorBE a.E (padIV iv) pt) := by
  obtain ⟨payload', -, hct, -⟩ := EtM.accepted_is_frame a ct' ad' p' hacc
  refine ⟨payload', hct, ?_⟩
  intro heq
  obtain ⟨e1, e2⟩ := EtM.macInput_inj ad' payload' ad _ hl' hl heq
  subst e1 e2
  rcases hne with h | h
  · exact h (by rw [hct, EtM.encryptWith_eq_frame])
  · exact h rfl

/-! non-vacuity for section 2 -/
def toyEtM : EtM :=
  { pre := [1, 0, 0, 0, 7], E := fun b => (b ++ Bytes.zeros 16).take 16,
    mac := fun x => (x ++ Bytes.zeros 16).take 16, ivLen := 12, tagLen := 16 }

theorem toyEtM_E (b : Bytes) : (toyEtM.E b).length = 16 := by
  show ((b ++ Bytes.zeros 16).take 16).length = 16
  rw [List.length_take, List.length_append, Bytes.length_zeros]; omega
theorem toyEtM_mac (x : Bytes) : toyEtM.tagLen ≤ (toyEtM.mac x).length := by
  show 16 ≤ ((x ++ Bytes.zeros 16).take 16).length
  rw [List.length_take, List.length_append, Bytes.length_zeros]; omega

example : toyEtM.decrypt (toyEtM.encryptWith (Bytes.zeros 12) [1, 2, 3] [9]) [9] = some [1, 2, 3] :=
  (EtM.decrypt_some_iff_encrypt toyEtM toyEtM_E toyEtM_mac _ _ _).2 ⟨_, rfl, rfl⟩

example : (toyEtM.mac (EtM.macInput [1] (Bytes.zeros 12 ++ Ctr.xorBE toyEtM.E (padIV (Bytes.zeros 12)) []))).take toyEtM.tagLen ≠
    (toyEtM.mac (EtM.macInput [] (Bytes.zeros 12 ++ Ctr.xorBE toyEtM.E (padIV (Bytes.zeros 12)) []))).take toyEtM.tagLen := by
  decide

example : (toyEtM.mac (EtM.macInput [] (Bytes.zeros 11 ++ [1]))).take toyEtM.tagLen ≠
    (toyEtM.mac (EtM.macInput [] (Bytes.zeros 12 ++ Ctr.xorBE toyEtM.E (padIV (Bytes.zeros 12)) []))).take toyEtM.tagLen := by
  decide

example : (Bytes.zeros 15 ++ [1]).length = toyEtM.tagLen ∧
    Bytes.zeros 15 ++ [1] ≠ toyEtM.tagOf [] (Bytes.zeros 12 ++ Ctr.xorBE toyEtM.E (padIV (Bytes.zeros 12)) []) := by
  decide

example : ∃ ct' ad' p', toyEtM.decrypt ct' ad' = some p' ∧
    (ct' ≠ toyEtM.encryptWith (Bytes.zeros 12) [] [] ∨ ad' ≠ []) :=
  ⟨toyEtM.encryptWith (Bytes.zeros 12) [] [1], [1], [],
    EtM.decrypt_encrypt toyEtM toyEtM_E toyEtM_mac _ _ _ rfl, Or.inr (by decide)⟩

/-! ## 3. AES-GCM-SIV -/

/-- the block that is encrypted to give the tag (the `x'` of `GcmSiv.tag`) -/
def GcmSiv.tagBlock (g : GcmSiv) (authKey nonce pt ad : Bytes) : Bytes :=
  let pv := g.polyval authKey (GcmSiv.polyvalInput pt ad)
  let x := Bytes.xor (pv.take 12) nonce ++ pv.drop 12
  x.take 15 ++ [(x.getD 15 0) &&& 0x7f]

theorem GcmSiv.tag_eq (g : GcmSiv) (encKey authKey nonce pt ad : Bytes) :
    g.tag encKey authKey nonce pt ad = g.aes encKey (g.tagBlock authKey nonce pt ad) := rfl

theorem GcmSiv.encryptWith_eq (g : GcmSiv) (key nonce pt ad : Bytes) :
    g.encryptWith key nonce pt ad =
      nonce ++ Ctr.xorLE32 (g.aes (g.deriveKeys key nonce).2)
        (GcmSiv.ctrIV (g.tag (g.deriveKeys key nonce).2 (g.deriveKeys key nonce).1 nonce pt ad)) pt ++
      g.tag (g.deriveKeys key nonce).2 (g.deriveKeys key nonce).1 nonce pt ad := rfl

/-- `deriveKeys`: the authentication key is 16 bytes of KDF output, the encryption key 16 or 32 -/
theorem GcmSiv.deriveKeys_eq (g : GcmSiv) (key nonce : Bytes) :
    g.deriveKeys key nonce =
      ((g.aes key (Bytes.ofNatLE 4 0 ++ nonce)).take 8 ++ (g.aes key (Bytes.ofNatLE 4 1 ++ nonce)).take 8,
       (g.aes key (Bytes.ofNatLE 4 2 ++ nonce)).take 8 ++ (g.aes key (Bytes.ofNatLE 4 3 ++ nonce)).take 8 ++
         (if g.keyLen = 32 then (g.aes key (Bytes.ofNatLE 4 4 ++ nonce)).take 8 ++
            (g.aes key (Bytes.ofNatLE 4 5 ++ nonce)).take 8 else [])) := rfl

theorem GcmSiv.deriveKeys_length (g : GcmSiv) (hA : ∀ k b, (g.aes k b).length = 16) (key nonce : Bytes) :
    (g.deriveKeys key nonce).1.length = 16 ∧
    (g.deriveKeys key nonce).2.length = if g.keyLen = 32 then 32 else 16 := by
  rw [GcmSiv.deriveKeys_eq]
  constructor
  · simp only [List.length_append, List.length_take, hA]; rfl
  · by_cases h : g.keyLen = 32
    · simp only [h, ↓reduceIte, List.length_append, List.length_take, hA]; rfl
    · simp only [h, ↓reduceIte, List.length_append, List.length_take, hA, List.length_nil]; rfl

/-! ### the counter block -/

theorem GcmSiv.ctrIV_length (tag : Bytes) (h : 15 ≤ tag.length) : (GcmSiv.ctrIV tag).length = 16 := by
  unfold GcmSiv.ctrIV
  rw [List.length_append, List.length_take, List.length_singleton]; omega

/-- bytes 0..14 of the counter block are the tag's -/
theorem GcmSiv.ctrIV_take15 (tag : Bytes) (h : 15 ≤ tag.length) : (GcmSiv.ctrIV tag).take 15 = tag.take 15 := by
  unfold GcmSiv.ctrIV
  exact List.take_left' (by rw [List.length_take]; omega)

theorem GcmSiv.ctrIV_byte15 (tag : Bytes) (h : 15 ≤ tag.length) :
    (GcmSiv.ctrIV tag).getD 15 0 = (tag.getD 15 0) ||| 0x80 := by
  unfold GcmSiv.ctrIV
  have hl : (tag.take 15).length = 15 := by rw [List.length_take]; omega
  rw [List.getD_eq_getElem?_getD, List.getElem?_append_right (by omega), hl]
  rfl

/-- **`ctrIV_msb`**: the top bit of the last byte of the counter block is set … -/
theorem GcmSiv.ctrIV_msb (tag : Bytes) (h : 15 ≤ tag.length) :
    128 ≤ ((GcmSiv.ctrIV tag).getD 15 0).toNat ∧ (GcmSiv.ctrIV tag).getD 15 0 &&& 0x80 = 0x80 := by
  rw [GcmSiv.ctrIV_byte15 tag h]
  exact ⟨u8_or80_ge _, u8_or80_and80 _⟩

/-- … and the other seven bits of that byte are the tag's -/
theorem GcmSiv.ctrIV_low7 (tag : Bytes) (h : 15 ≤ tag.length) :
    (GcmSiv.ctrIV tag).getD 15 0 &&& 0x7f = tag.getD 15 0 &&& 0x7f := by
  rw [GcmSiv.ctrIV_byte15 tag h]; exact u8_or80_low _

example : ∃ tag : Bytes, 15 ≤ tag.length := ⟨Bytes.zeros 16, by decide⟩

/-- without any hypothesis: the last byte of `ctrIV tag` has its top bit set -/
theorem GcmSiv.ctrIV_last (tag : Bytes) :
    ∃ b, (GcmSiv.ctrIV tag).getLast? = some b ∧ 128 ≤ b.toNat :=
  ⟨_, List.getLast?_concat, u8_or80_ge _⟩

/-- … while the last byte of the block encrypted for the tag has it cleared -/
theorem GcmSiv.tagBlock_last (g : GcmSiv) (authKey nonce pt ad : Bytes) :
    ∃ b, (g.tagBlock authKey nonce pt ad).getLast? = some b ∧ b.toNat < 128 :=
  ⟨_, List.getLast?_concat, u8_and7f_lt _⟩

/-- every CTR counter block (`blockLE32 (ctrIV tag) i`, the counter only touches bytes 0..3) keeps that
    last byte … -/
theorem GcmSiv.ctr_block_last (tag : Bytes) (h : 15 ≤ tag.length) (i : Nat) :
    ∃ b, (Ctr.blockLE32 (GcmSiv.ctrIV tag) i).getLast? = some b ∧ 128 ≤ b.toNat := by
  obtain ⟨b, hb, hb'⟩ := GcmSiv.ctrIV_last tag
  refine ⟨b, ?_, hb'⟩
  unfold Ctr.blockLE32
  rw [List.getLast?_append, List.getLast?_drop, if_neg (by rw [GcmSiv.ctrIV_length tag h]; omega), hb]
  rfl

/-- … hence **domain separation**: the AES input used for the tag is never one of the AES inputs used
    for the key stream, whatever tag the key stream was started from. -/
theorem GcmSiv.tagBlock_ne_ctr_block (g : GcmSiv) (authKey nonce pt ad tag : Bytes) (h : 15 ≤ tag.length)
    (i : Nat) : g.tagBlock authKey nonce pt ad ≠ Ctr.blockLE32 (GcmSiv.ctrIV tag) i := by
  intro heq
  obtain ⟨b, hb, hb'⟩ := GcmSiv.tagBlock_last g authKey nonce pt ad
  obtain ⟨c, hc, hc'⟩ := GcmSiv.ctr_block_last tag h i
  rw [heq, hc] at hb
  cases hb
  omega

/-! ### the POLYVAL input -/

theorem pad16_length (b : Bytes) : (pad16 b).length = 16 * ((b.length + 15) / 16) := by
  unfold pad16
  rw [List.length_append, Bytes.length_zeros]; omega

theorem pad16_of_aligned (b : Bytes) (h : b.length % 16 = 0) : pad16 b = b := by
  unfold pad16
  rw [h]; exact List.append_nil b

/-- padding only appends: the data is recovered by its length -/
theorem pad16_take (b : Bytes) : (pad16 b).take b.length = b := by
  unfold pad16; exact List.take_left

/-- the POLYVAL input consists of whole blocks -/
theorem GcmSiv.polyvalInput_length (pt ad : Bytes) :
    (GcmSiv.polyvalInput pt ad).length = 16 * ((ad.length + 15) / 16) + 16 * ((pt.length + 15) / 16) + 16 := by
  unfold GcmSiv.polyvalInput
  simp only [List.length_append, pad16_length, Bytes.length_ofNatLE]

theorem GcmSiv.polyvalInput_length_mod (pt ad : Bytes) : (GcmSiv.polyvalInput pt ad).length % 16 = 0 := by
  rw [GcmSiv.polyvalInput_length]; omega

/-- **The POLYVAL input is unambiguous** (the analogue of `EtM.macInput_inj`): below `2^61` bytes the pair
    (plaintext, associated data) is determined by it — this is what the two little-endian bit-length
    words and the per-part zero padding are for. -/
theorem GcmSiv.polyvalInput_inj (pt ad pt' ad' : Bytes)
    (h1 : ad.length < 2305843009213693952) (h2 : ad'.length < 2305843009213693952)
    (h3 : pt.length < 2305843009213693952) (h4 : pt'.length < 2305843009213693952)
    (h : GcmSiv.polyvalInput pt ad = GcmSiv.polyvalInput pt' ad') : pt = pt' ∧ ad = ad' := by
  unfold GcmSiv.polyvalInput at h
  obtain ⟨h, hpt⟩ := List.append_inj' h (by simp only [Bytes.length_ofNatLE])
  obtain ⟨h, had⟩ := List.append_inj' h (by simp only [Bytes.length_ofNatLE])
  have ea : ad.length = ad'.length := by
    have := Bytes.le64_eight_mul_eq _ _ had
    omega
  have ep : pt.length = pt'.length := by
    have := Bytes.le64_eight_mul_eq _ _ hpt
    omega
  obtain ⟨ha, hp⟩ := List.append_inj h (by rw [pad16_length, pad16_length, ea])
  constructor
  · rw [← pad16_take pt, ← pad16_take pt', hp, ep]
  · rw [← pad16_take ad, ← pad16_take ad', ha, ea]

example : ∃ pt ad pt' ad' : Bytes, ad.length < 2305843009213693952 ∧ ad'.length < 2305843009213693952 ∧
    pt.length < 2305843009213693952 ∧ pt'.length < 2305843009213693952 ∧
    GcmSiv.polyvalInput pt ad = GcmSiv.polyvalInput pt' ad' :=
  ⟨[1], [2], [1], [2], by decide, by decide, by decide, by decide, rfl⟩

/-- without the length words the padded concatenation alone is ambiguous -/
example : pad16 ([1] : Bytes) ++ pad16 [] = pad16 [1, 0] ++ pad16 [] := by decide

/-! ### rejection and acceptance -/

theorem GcmSiv.decrypt_short (g : GcmSiv) (key ct ad : Bytes) (h : ct.length < 28) :
    g.decrypt key ct ad = none := by
  rw [Option.eq_none_iff_forall_ne_some]
  intro p hp
  have := ((GcmSiv.decrypt_iff g key ct ad p).1 hp).1
  omega

/-- everything accepted has a full 12-byte nonce and a full 16-byte tag -/
theorem GcmSiv.accepted_nonce_tag_length (g : GcmSiv) (key ct ad p : Bytes) (h : g.decrypt key ct ad = some p) :
    (ct.take 12).length = 12 ∧ (ct.drop (ct.length - 16)).length = 16 ∧ p.length ≤ ct.length - 28 := by
  obtain ⟨h1, h2, -⟩ := (GcmSiv.decrypt_iff g key ct ad p).1 h
  refine ⟨by rw [List.length_take]; omega, by rw [List.length_drop]; omega, ?_⟩
  rw [h2]; unfold Ctr.xorLE32
  rw [Bytes.length_xor, List.length_take, List.length_drop]; omega

/-- decryption of a well-formed frame `nonce ‖ body ‖ tag` -/
theorem GcmSiv.decrypt_frame_iff (g : GcmSiv) (key nonce body tag ad p : Bytes)
    (hn : nonce.length = 12) (ht : tag.length = 16) :
    g.decrypt key (nonce ++ body ++ tag) ad = some p ↔
      p = Ctr.xorLE32 (g.aes (g.deriveKeys key nonce).2) (GcmSiv.ctrIV tag) body ∧
      g.tag (g.deriveKeys key nonce).2 (g.deriveKeys key nonce).1 nonce p ad = tag := by
  obtain ⟨c1, c2, c3⟩ := cut3 nonce body tag
  have hl : (nonce ++ body ++ tag).length = 12 + body.length + 16 := by
    simp only [List.length_append, hn, ht]
  rw [hn, ht] at c2
  rw [hn] at c1
  rw [ht] at c3
  have e : (nonce ++ body ++ tag).length - 28 = (nonce ++ body ++ tag).length - 12 - 16 := by omega
  rw [GcmSiv.decrypt_iff, e, c1, c2, c3, hl]
  constructor
  · rintro ⟨-, h2, h3⟩; exact ⟨h2, h3⟩
  · rintro ⟨h2, h3⟩; exact ⟨by omega, h2, h3⟩

/-- **Acceptance = being an encryption.** -/
theorem GcmSiv.decrypt_some_iff_encrypt (g : GcmSiv) (hA : ∀ k b, (g.aes k b).length = 16)
    (key ct ad pt : Bytes) :
    g.decrypt key ct ad = some pt ↔ ∃ nonce, nonce.length = 12 ∧ ct = g.encryptWith key nonce pt ad := by
  constructor
  · intro h
    obtain ⟨h1, h2, h3⟩ := (GcmSiv.decrypt_iff g key ct ad pt).1 h
    refine ⟨ct.take 12, by rw [List.length_take]; omega, ?_⟩
    have hs := split3 ct 12 16 (by omega)
    have e : ct.length - 12 - 16 = ct.length - 28 := by omega
    rw [e] at hs
    rw [GcmSiv.encryptWith_eq, h3]
    have hx : Ctr.xorLE32 (g.aes (g.deriveKeys key (ct.take 12)).2) (GcmSiv.ctrIV (ct.drop (ct.length - 16))) pt
        = (ct.drop 12).take (ct.length - 28) := by
      rw [h2, xorLE32_involutive _ (hA _)]
    rw [hx]
    exact hs
  · rintro ⟨nonce, hn, rfl⟩
    exact GcmSiv.decrypt_encrypt g hA key nonce pt ad hn

/-- **Modified associated data is rejected**, unless the tag function collides on the two inputs. -/
theorem GcmSiv.reject_modified_ad (g : GcmSiv) (hA : ∀ k b, (g.aes k b).length = 16)
    (key nonce pt ad ad' : Bytes) (hn : nonce.length = 12)
    (hcol : g.tag (g.deriveKeys key nonce).2 (g.deriveKeys key nonce).1 nonce pt ad' ≠
            g.tag (g.deriveKeys key nonce).2 (g.deriveKeys key nonce).1 nonce pt ad) :
    g.decrypt key (g.encryptWith key nonce pt ad) ad' = none := by
  rw [Option.eq_none_iff_forall_ne_some]
  intro p hp
  rw [GcmSiv.encryptWith_eq, GcmSiv.decrypt_frame_iff g key nonce _ _ ad' p hn
    (by rw [GcmSiv.tag_eq]; exact hA _ _)] at hp
  obtain ⟨h2, h3⟩ := hp
  rw [xorLE32_involutive _ (hA _)] at h2
  subst h2
  exact hcol h3

/-- **A modified body is rejected** (the tag kept, so the key stream is the same), unless the tag
    function collides on the two plaintexts. -/
theorem GcmSiv.reject_modified_body (g : GcmSiv) (key nonce body tag ad : Bytes)
    (hn : nonce.length = 12) (ht : tag.length = 16)
    (hcol : g.tag (g.deriveKeys key nonce).2 (g.deriveKeys key nonce).1 nonce
              (Ctr.xorLE32 (g.aes (g.deriveKeys key nonce).2) (GcmSiv.ctrIV tag) body) ad ≠ tag) :
    g.decrypt key (nonce ++ body ++ tag) ad = none := by
  rw [Option.eq_none_iff_forall_ne_some]
  intro p hp
  rw [GcmSiv.decrypt_frame_iff g key nonce body tag ad p hn ht] at hp
  obtain ⟨h2, h3⟩ := hp
  subst h2
  exact hcol h3

theorem GcmSiv.fullDecrypt_short (g : GcmSiv) (pre key ct ad : Bytes) (h : ct.length < pre.length + 12 + 16) :
    g.fullDecrypt pre key ct ad = none := by
  unfold GcmSiv.fullDecrypt; rw [if_pos h]

theorem GcmSiv.fullDecrypt_wrong_prefix (g : GcmSiv) (pre key ct ad : Bytes) (h : ct.take pre.length ≠ pre) :
    g.fullDecrypt pre key ct ad = none := by
  unfold GcmSiv.fullDecrypt
  by_cases h0 : ct.length < pre.length + 12 + 16
  · rw [if_pos h0]
  · rw [if_neg h0, if_pos h]

theorem GcmSiv.fullDecrypt_iff (g : GcmSiv) (pre key ct ad p : Bytes) :
    g.fullDecrypt pre key ct ad = some p ↔
      pre.length + 12 + 16 ≤ ct.length ∧ ct.take pre.length = pre ∧
      g.decrypt key (ct.drop pre.length) ad = some p := by
  unfold GcmSiv.fullDecrypt
  by_cases h0 : ct.length < pre.length + 12 + 16
  · rw [if_pos h0]
    constructor
    · intro h; cases h
    · rintro ⟨h1, -⟩; omega
  · rw [if_neg h0]
    by_cases h1 : ct.take pre.length = pre
    · rw [if_neg (by simpa using h1)]
      exact ⟨fun h => ⟨by omega, h1, h⟩, fun h => h.2.2⟩
    · rw [if_pos h1]
      constructor
      · intro h; cases h
      · rintro ⟨-, h2, -⟩; exact absurd h2 h1

/-- acceptance of the full primitive = prefix ‖ an encryption -/
theorem GcmSiv.fullDecrypt_some_iff_encrypt (g : GcmSiv) (hA : ∀ k b, (g.aes k b).length = 16)
    (pre key ct ad pt : Bytes) :
    g.fullDecrypt pre key ct ad = some pt ↔
      ∃ nonce, nonce.length = 12 ∧ ct = g.fullEncryptWith pre key nonce pt ad := by
  constructor
  · intro h
    obtain ⟨-, h2, h3⟩ := (GcmSiv.fullDecrypt_iff g pre key ct ad pt).1 h
    obtain ⟨nonce, hn, hc⟩ := (GcmSiv.decrypt_some_iff_encrypt g hA key _ ad pt).1 h3
    refine ⟨nonce, hn, ?_⟩
    unfold GcmSiv.fullEncryptWith
    rw [← hc]
    conv => rhs; lhs; rw [← h2]
    exact (List.take_append_drop _ _).symm
  · rintro ⟨nonce, hn, rfl⟩
    exact GcmSiv.full_decrypt_encrypt g hA pre key nonce pt ad hn

/-! non-vacuity for section 3 -/
def toyGcmSiv : GcmSiv :=
  { aes := fun k b => (Bytes.xor (b ++ Bytes.zeros 16) (k ++ Bytes.zeros 16)).take 16,
    polyval := fun _ d => (d ++ Bytes.zeros 16).take 16, keyLen := 16 }

theorem toyGcmSiv_aes (k b : Bytes) : (toyGcmSiv.aes k b).length = 16 := by
  show ((Bytes.xor (b ++ Bytes.zeros 16) (k ++ Bytes.zeros 16)).take 16).length = 16
  rw [List.length_take, Bytes.length_xor, List.length_append, List.length_append, Bytes.length_zeros]; omega

example : toyGcmSiv.decrypt [] (toyGcmSiv.encryptWith [] (Bytes.zeros 12) [1, 2] [3]) [3] = some [1, 2] :=
  (GcmSiv.decrypt_some_iff_encrypt toyGcmSiv toyGcmSiv_aes _ _ _ _).2 ⟨_, rfl, rfl⟩

example : toyGcmSiv.tag (toyGcmSiv.deriveKeys [] (Bytes.zeros 12)).2 (toyGcmSiv.deriveKeys [] (Bytes.zeros 12)).1
      (Bytes.zeros 12) [] [1] ≠
    toyGcmSiv.tag (toyGcmSiv.deriveKeys [] (Bytes.zeros 12)).2 (toyGcmSiv.deriveKeys [] (Bytes.zeros 12)).1
      (Bytes.zeros 12) [] [] := by decide

example : toyGcmSiv.tag (toyGcmSiv.deriveKeys [] (Bytes.zeros 12)).2 (toyGcmSiv.deriveKeys [] (Bytes.zeros 12)).1
      (Bytes.zeros 12)
      (Ctr.xorLE32 (toyGcmSiv.aes (toyGcmSiv.deriveKeys [] (Bytes.zeros 12)).2) (GcmSiv.ctrIV (Bytes.zeros 16)) [5]) []
    ≠ Bytes.zeros 16 := by decide

/-- The model has **no** nonce-length guard (in Go `deriveKeys` has one, but its only callers pass the
    freshly drawn 12 bytes or `ciphertext[:12]`, so it is unreachable).  With a nonce of another length the
    decryptor cuts the ciphertext elsewhere and the round trip is lost: -/
example : toyGcmSiv.decrypt [] (toyGcmSiv.encryptWith [] (Bytes.zeros 11) [1, 2] [3]) [3] = none := by decide

/-! ## 4. XAES-256-GCM -/

/-! ### what `xaesDeriveKey` does -/

/-- the 12-byte block the two CMAC inputs end with: the salt, zero-padded / cut to 12 bytes -/
def xaesSalt12 (salt : Bytes) : Bytes := (salt ++ Bytes.zeros (12 - salt.length)).take 12

theorem xaesDeriveKey_eq (E : Bytes → Bytes) (salt : Bytes) :
    xaesDeriveKey E salt =
      Cmac.compute E ([0x00, 0x01, 0x58, 0x00] ++ xaesSalt12 salt) ++
      Cmac.compute E ([0x00, 0x02, 0x58, 0x00] ++ xaesSalt12 salt) := rfl

theorem xaesSalt12_length (salt : Bytes) : (xaesSalt12 salt).length = 12 := by
  unfold xaesSalt12
  rw [List.length_take, List.length_append, Bytes.length_zeros]; omega

/-- both CMAC inputs are exactly one AES block long -/
theorem xaes_cmac_input_length (c : UInt8) (salt : Bytes) :
    ([0x00, c, 0x58, 0x00] ++ xaesSalt12 salt).length = 16 := by
  rw [List.length_append, xaesSalt12_length]; rfl

/-- the key depends on the salt only through `xaesSalt12` -/
theorem xaesDeriveKey_congr (E : Bytes → Bytes) (salt salt' : Bytes) (h : xaesSalt12 salt = xaesSalt12 salt') :
    xaesDeriveKey E salt = xaesDeriveKey E salt' := by
  rw [xaesDeriveKey_eq, xaesDeriveKey_eq, h]

theorem xaesSalt12_of_le (salt : Bytes) (h : salt.length ≤ 12) :
    xaesSalt12 salt = salt ++ Bytes.zeros (12 - salt.length) := by
  unfold xaesSalt12
  exact List.take_of_length_le (by rw [List.length_append, Bytes.length_zeros]; omega)

theorem xaesSalt12_of_ge (salt : Bytes) (h : 12 ≤ salt.length) : xaesSalt12 salt = salt.take 12 := by
  unfold xaesSalt12
  have : 12 - salt.length = 0 := by omega
  rw [this]
  show (salt ++ []).take 12 = salt.take 12
  rw [List.append_nil]

/-- bytes of the salt beyond the 12th are ignored -/
theorem xaesDeriveKey_take12 (E : Bytes → Bytes) (salt : Bytes) :
    xaesDeriveKey E salt = xaesDeriveKey E (salt.take 12) := by
  apply xaesDeriveKey_congr
  by_cases h : salt.length ≤ 12
  · rw [List.take_of_length_le h]
  · rw [xaesSalt12_of_ge salt (by omega),
      xaesSalt12_of_ge (salt.take 12) (by rw [List.length_take]; omega), List.take_take]
    simp

/-- a short salt is used zero-padded to 12 bytes: padding it explicitly changes nothing … -/
theorem xaesDeriveKey_pad (E : Bytes → Bytes) (salt : Bytes) (h : salt.length ≤ 12) :
    xaesDeriveKey E salt = xaesDeriveKey E (salt ++ Bytes.zeros (12 - salt.length)) := by
  apply xaesDeriveKey_congr
  rw [xaesSalt12_of_le salt h, xaesSalt12_of_le _ (by rw [List.length_append, Bytes.length_zeros]; omega)]
  have : 12 - (salt ++ Bytes.zeros (12 - salt.length)).length = 0 := by
    rw [List.length_append, Bytes.length_zeros]; omega
  rw [this]
  show _ = _ ++ []
  rw [List.append_nil]

/-- … so an `n`-byte salt and the `n+1`-byte salt `salt ‖ 00` (keys with different `saltLen`) derive the
    same per-message key. -/
theorem xaesDeriveKey_append_zero (E : Bytes → Bytes) (salt : Bytes) (h : salt.length < 12) :
    xaesDeriveKey E (salt ++ [0]) = xaesDeriveKey E salt := by
  apply xaesDeriveKey_congr
  rw [xaesSalt12_of_le salt (by omega),
    xaesSalt12_of_le _ (by rw [List.length_append, List.length_singleton]; omega)]
  rw [List.length_append, List.length_singleton, List.append_assoc]
  congr 1
  have : 12 - salt.length = (12 - (salt.length + 1)) + 1 := by omega
  rw [this]
  simp [Bytes.zeros, List.replicate_succ]

example : ∃ salt : Bytes, salt.length < 12 := ⟨Bytes.zeros 8, by decide⟩

/-- injectivity of the padding on salts of one fixed length ≤ 12: distinct salts give distinct CMAC inputs -/
theorem xaesSalt12_inj (salt salt' : Bytes) (hl : salt.length = salt'.length) (h : salt.length ≤ 12)
    (heq : xaesSalt12 salt = xaesSalt12 salt') : salt = salt' := by
  rw [xaesSalt12_of_le salt h, xaesSalt12_of_le salt' (by omega)] at heq
  exact (List.append_inj heq hl).1

example : ∃ salt salt' : Bytes, salt.length = salt'.length ∧ salt.length ≤ 12 ∧ xaesSalt12 salt = xaesSalt12 salt' :=
  ⟨[1], [1], rfl, by decide, rfl⟩

/-- in `Encrypt` the key depends on the random bytes only through their first `saltLen` bytes -/
theorem Xaes.encryptWith_eq (x : Xaes) (rnd pt ad : Bytes) :
    x.encryptWith rnd pt ad =
      x.pre ++ rnd ++ (x.gcm (xaesDeriveKey x.E (rnd.take x.saltLen))).sealF (rnd.drop x.saltLen) pt ad := rfl

/-! ### acceptance, rejection, round trip -/

theorem Xaes.decrypt_iff (x : Xaes) (ct ad p : Bytes) :
    x.decrypt ct ad = some p ↔
      x.pre.length + x.saltLen + 12 + 16 ≤ ct.length ∧ ct.take x.pre.length = x.pre ∧
      (x.gcm (xaesDeriveKey x.E ((ct.drop x.pre.length).take x.saltLen))).openF
        (((ct.drop x.pre.length).drop x.saltLen).take 12) ((ct.drop x.pre.length).drop (x.saltLen + 12)) ad
        = some p := by
  unfold Xaes.decrypt
  by_cases h0 : ct.length < x.pre.length + x.saltLen + 12 + 16
  · rw [if_pos h0]
    constructor
    · intro h; cases h
    · rintro ⟨h1, -⟩; omega
  · rw [if_neg h0]
    by_cases h1 : ct.take x.pre.length = x.pre
    · rw [if_neg (by simpa using h1)]
      exact ⟨fun h => ⟨by omega, h1, h⟩, fun h => h.2.2⟩
    · rw [if_pos h1]
      constructor
      · intro h; cases h
      · rintro ⟨-, h2, -⟩; exact absurd h2 h1

theorem Xaes.decrypt_short (x : Xaes) (ct ad : Bytes) (h : ct.length < x.pre.length + x.saltLen + 12 + 16) :
    x.decrypt ct ad = none := by
  unfold Xaes.decrypt; rw [if_pos h]

theorem Xaes.decrypt_wrong_prefix (x : Xaes) (ct ad : Bytes) (h : ct.take x.pre.length ≠ x.pre) :
    x.decrypt ct ad = none := by
  rw [Option.eq_none_iff_forall_ne_some]
  intro p hp
  exact h ((Xaes.decrypt_iff x ct ad p).1 hp).2.1

/-- **Round trip from the minimal hypotheses**, for every `saltLen`: the inner GCM opens what it sealed
    (12-byte nonces) and its output is at least a tag long — the latter is needed because the model
    (like the Go code) rejects inputs shorter than `prefix + salt + 12 + 16` before calling GCM. -/
theorem Xaes.decrypt_encrypt_min (x : Xaes)
    (hrt : ∀ k iv pt ad, iv.length = 12 → (x.gcm k).openF iv ((x.gcm k).sealF iv pt ad) ad = some pt)
    (hlen : ∀ k iv pt ad, 16 ≤ ((x.gcm k).sealF iv pt ad).length)
    (rnd pt ad : Bytes) (hr : rnd.length = x.saltLen + 12) :
    x.decrypt (x.encryptWith rnd pt ad) ad = some pt := by
  rw [Xaes.decrypt_iff, Xaes.encryptWith_eq]
  generalize hk : xaesDeriveKey x.E (rnd.take x.saltLen) = k
  generalize hs : (x.gcm k).sealF (rnd.drop x.saltLen) pt ad = sealed
  have hsl : 16 ≤ sealed.length := by rw [← hs]; exact hlen _ _ _ _
  have hd : (x.pre ++ rnd ++ sealed).drop x.pre.length = rnd ++ sealed := by
    rw [List.append_assoc, List.drop_left]
  refine ⟨?_, ?_, ?_⟩
  · simp only [List.length_append, hr]; omega
  · rw [List.append_assoc, List.take_left]
  · rw [hd]
    have h1 : (rnd ++ sealed).take x.saltLen = rnd.take x.saltLen := by
      rw [List.take_append_of_le_length (by omega)]
    have h2 : ((rnd ++ sealed).drop x.saltLen).take 12 = rnd.drop x.saltLen := by
      rw [List.drop_append_of_le_length (by omega)]
      exact List.take_left' (by rw [List.length_drop]; omega)
    have h3 : (rnd ++ sealed).drop (x.saltLen + 12) = sealed := by rw [← hr, List.drop_left]
    rw [h1, h2, h3, hk, ← hs]
    exact hrt k _ pt ad (by rw [List.length_drop]; omega)

/-- the length hypothesis cannot be dropped: with an inner "AEAD" whose output is shorter than a tag the
    model rejects its own ciphertext -/
example : (⟨[], id, fun _ => ⟨12, 0, fun _ p _ => p, fun _ c _ => some c⟩, 8⟩ : Xaes).decrypt
    ((⟨[], id, fun _ => ⟨12, 0, fun _ p _ => p, fun _ c _ => some c⟩, 8⟩ : Xaes).encryptWith (Bytes.zeros 20) [1] []) []
    = none := by decide

/-! non-vacuity for section 4: an inner AEAD satisfying both hypotheses -/
def toyGcm : Raw :=
  { nonceLen := 12, overhead := 16, sealF := fun _ p _ => p ++ Bytes.zeros 16,
    openF := fun _ c _ => some (c.take (c.length - 16)) }

example : (∀ (k : Bytes) iv pt ad, iv.length = 12 → ((fun _ => toyGcm) k).openF iv (((fun _ => toyGcm) k).sealF iv pt ad) ad = some pt) ∧
    (∀ (k : Bytes) iv pt ad, 16 ≤ (((fun _ => toyGcm) k).sealF iv pt ad).length) := by
  constructor
  · intro k iv pt ad _
    simp [toyGcm]
  · intro k iv pt ad
    simp [toyGcm]

/-! ## 5. KMS envelope framing -/

theorem be32_length (n : Nat) : (Bytes.be32 n).length = 4 := by simp [Bytes.be32]

theorem toNatBE_be32 (n : Nat) (h : n < 4294967296) : Bytes.toNatBE (Bytes.be32 n) = n := by
  unfold Bytes.be32
  rw [Bytes.toNatBE_ofNatBE, Bytes.pow_256_4]; exact Nat.mod_eq_of_lt h

/-- a 4-byte string is the `be32` of its value -/
theorem be32_toNatBE (b : Bytes) (h : b.length = 4) : Bytes.be32 (Bytes.toNatBE b) = b := by
  have := Bytes.ofNatBE_toNatBE b
  rwa [h] at this

/-- **`Serialize` succeeds exactly under the guard `0 < |encDEK| ≤ 4096`**, and then yields
    `be32(|encDEK|) ‖ encDEK ‖ payload`. -/
theorem envelopeSerialize_eq_some_iff (d p s : Bytes) :
    envelopeSerialize d p = some s ↔
      0 < d.length ∧ d.length ≤ 4096 ∧ s = Bytes.be32 d.length ++ d ++ p := by
  unfold envelopeSerialize
  by_cases h0 : d.length = 0
  · rw [if_pos h0]
    constructor
    · intro h; cases h
    · rintro ⟨h1, -⟩; omega
  · rw [if_neg h0]
    by_cases h1 : d.length > 4096
    · rw [if_pos h1]
      constructor
      · intro h; cases h
      · rintro ⟨-, h2, -⟩; omega
    · rw [if_neg h1]
      constructor
      · intro h; cases h; exact ⟨by omega, by omega, rfl⟩
      · rintro ⟨-, -, rfl⟩; rfl

theorem envelopeSerialize_isSome_iff (d p : Bytes) :
    (envelopeSerialize d p).isSome ↔ 0 < d.length ∧ d.length ≤ 4096 := by
  rw [Option.isSome_iff_exists]
  constructor
  · rintro ⟨s, hs⟩
    obtain ⟨h1, h2, -⟩ := (envelopeSerialize_eq_some_iff d p s).1 hs
    exact ⟨h1, h2⟩
  · rintro ⟨h1, h2⟩
    exact ⟨_, (envelopeSerialize_eq_some_iff d p _).2 ⟨h1, h2, rfl⟩⟩

theorem envelopeSerialize_eq_none_iff (d p : Bytes) :
    envelopeSerialize d p = none ↔ d.length = 0 ∨ 4096 < d.length := by
  unfold envelopeSerialize
  by_cases h0 : d.length = 0
  · rw [if_pos h0]; exact ⟨fun _ => Or.inl h0, fun _ => rfl⟩
  · rw [if_neg h0]
    by_cases h1 : d.length > 4096
    · rw [if_pos h1]; exact ⟨fun _ => Or.inr h1, fun _ => rfl⟩
    · rw [if_neg h1]
      constructor
      · intro h; cases h
      · rintro (h | h)
        · exact absurd h h0
        · exact absurd h h1

/-- **exact acceptance condition of `parseEnvelope`** -/
theorem envelopeParse_eq_some_iff (s d p : Bytes) :
    envelopeParse s = some (d, p) ↔
      4 < s.length ∧ 0 < Bytes.toNatBE (s.take 4) ∧ Bytes.toNatBE (s.take 4) ≤ 4096 ∧
      Bytes.toNatBE (s.take 4) ≤ s.length - 4 ∧
      d = (s.drop 4).take (Bytes.toNatBE (s.take 4)) ∧ p = (s.drop 4).drop (Bytes.toNatBE (s.take 4)) := by
  unfold envelopeParse
  by_cases h0 : s.length ≤ 4
  · rw [if_pos h0]
    constructor
    · intro h; cases h
    · rintro ⟨h1, -⟩; omega
  · rw [if_neg h0]
    dsimp only
    generalize Bytes.toNatBE (s.take 4) = n
    by_cases h1 : n = 0 ∨ n > 4096 ∨ n > s.length - 4
    · rw [if_pos h1]
      constructor
      · intro h; cases h
      · rintro ⟨-, h2, h3, h4, -⟩; omega
    · rw [if_neg h1]
      constructor
      · intro h
        cases h
        exact ⟨by omega, by omega, by omega, by omega, rfl, rfl⟩
      · rintro ⟨-, -, -, -, rfl, rfl⟩; rfl

/-- **exact rejection condition of `parseEnvelope`** (strengthens `envelope_reject` to an iff) -/
theorem envelopeParse_eq_none_iff (s : Bytes) :
    envelopeParse s = none ↔
      s.length ≤ 4 ∨ Bytes.toNatBE (s.take 4) = 0 ∨ Bytes.toNatBE (s.take 4) > 4096 ∨
      Bytes.toNatBE (s.take 4) > s.length - 4 := by
  constructor
  · intro h
    unfold envelopeParse at h
    by_cases h0 : s.length ≤ 4
    · exact Or.inl h0
    · rw [if_neg h0] at h
      dsimp only at h
      by_cases h1 : Bytes.toNatBE (s.take 4) = 0 ∨ Bytes.toNatBE (s.take 4) > 4096 ∨
          Bytes.toNatBE (s.take 4) > s.length - 4
      · exact Or.inr h1
      · rw [if_neg h1] at h; cases h
  · exact envelope_reject s

/-- **parse ∘ serialize = id** -/
theorem envelopeParse_serialize (d p s : Bytes) (h : envelopeSerialize d p = some s) :
    envelopeParse s = some (d, p) := by
  obtain ⟨h1, h2, -⟩ := (envelopeSerialize_eq_some_iff d p s).1 h
  obtain ⟨ct, hc1, hc2⟩ := envelope_roundtrip d p h1 h2
  rw [h] at hc1
  cases hc1
  exact hc2

/-- **canonicity: serialize ∘ parse = id** — everything `parseEnvelope` accepts is the unique
    serialisation of what it returns. -/
theorem envelopeSerialize_parse (s d p : Bytes) (h : envelopeParse s = some (d, p)) :
    envelopeSerialize d p = some s := by
  obtain ⟨h1, h2, h3, h4, hd, hp⟩ := (envelopeParse_eq_some_iff s d p).1 h
  have hdl : d.length = Bytes.toNatBE (s.take 4) := by
    rw [hd, List.length_take, List.length_drop]; omega
  rw [envelopeSerialize_eq_some_iff]
  refine ⟨by omega, by omega, ?_⟩
  rw [hdl, be32_toNatBE _ (by rw [List.length_take]; omega), hd, hp, List.append_assoc,
    List.take_append_drop, List.take_append_drop]

theorem envelopeParse_iff_serialize (s d p : Bytes) :
    envelopeParse s = some (d, p) ↔ envelopeSerialize d p = some s :=
  ⟨envelopeSerialize_parse s d p, envelopeParse_serialize d p s⟩

/-- `parseEnvelope` is injective on what it accepts -/
theorem envelopeParse_inj (s s' : Bytes) (x : Bytes × Bytes) (h : envelopeParse s = some x)
    (h' : envelopeParse s' = some x) : s = s' := by
  obtain ⟨d, p⟩ := x
  have a := envelopeSerialize_parse s d p h
  have b := envelopeSerialize_parse s' d p h'
  rw [a] at b
  exact Option.some.inj b

/-- the serialisation is injective: the framing is unambiguous -/
theorem envelopeSerialize_inj (d p d' p' s : Bytes) (h : envelopeSerialize d p = some s)
    (h' : envelopeSerialize d' p' = some s) : d = d' ∧ p = p' := by
  have a := envelopeParse_serialize d p s h
  have b := envelopeParse_serialize d' p' s h'
  rw [a] at b
  exact Prod.mk.inj (Option.some.inj b)

/-- sizes of what `parseEnvelope` returns -/
theorem envelopeParse_bounds (s d p : Bytes) (h : envelopeParse s = some (d, p)) :
    0 < d.length ∧ d.length ≤ 4096 ∧ s.length = 4 + d.length + p.length := by
  obtain ⟨h1, h2, hs⟩ := (envelopeSerialize_eq_some_iff d p s).1 (envelopeSerialize_parse s d p h)
  refine ⟨h1, h2, ?_⟩
  rw [hs]; simp only [List.length_append, be32_length]

/-- the individual rejections, on concrete framings: a length field pointing past the end, … -/
theorem envelopeParse_reject_overlong (n : Nat) (rest : Bytes) (hn : n < 4294967296) (h : rest.length < n) :
    envelopeParse (Bytes.be32 n ++ rest) = none := by
  rw [envelopeParse_eq_none_iff]
  have ht : (Bytes.be32 n ++ rest).take 4 = Bytes.be32 n := by
    rw [← be32_length n, List.take_left]
  rw [ht, toNatBE_be32 n hn, List.length_append, be32_length]
  omega

/-- … a zero length field, … -/
theorem envelopeParse_reject_zero (rest : Bytes) : envelopeParse (Bytes.be32 0 ++ rest) = none := by
  rw [envelopeParse_eq_none_iff]
  have ht : (Bytes.be32 0 ++ rest).take 4 = Bytes.be32 0 := by
    rw [← be32_length 0, List.take_left]
  rw [ht, toNatBE_be32 0 (by decide)]
  omega

/-- … a length field above the 4096 limit (even if that many bytes follow). -/
theorem envelopeParse_reject_above_limit (n : Nat) (rest : Bytes) (hn : n < 4294967296) (h : 4096 < n) :
    envelopeParse (Bytes.be32 n ++ rest) = none := by
  rw [envelopeParse_eq_none_iff]
  have ht : (Bytes.be32 n ++ rest).take 4 = Bytes.be32 n := by
    rw [← be32_length n, List.take_left]
  rw [ht, toNatBE_be32 n hn]
  omega

example : ∃ d p s : Bytes, envelopeSerialize d p = some s := ⟨[1], [2], _, rfl⟩
example : ∃ s d p : Bytes, envelopeParse s = some (d, p) := ⟨[0, 0, 0, 1, 7, 8], [7], [8], by decide⟩
example : ∃ (n : Nat) (rest : Bytes), n < 4294967296 ∧ rest.length < n := ⟨1, [], by decide, by decide⟩
example : ∃ (n : Nat), n < 4294967296 ∧ 4096 < n := ⟨4097, by decide, by decide⟩

/-! ## 6. Output prefixes -/

theorem be32_eq_iff (id id' : Nat) (h1 : id < 4294967296) (h2 : id' < 4294967296) :
    Bytes.be32 id = Bytes.be32 id' ↔ id = id' := by
  unfold Bytes.be32
  rw [Bytes.ofNatBE_eq_iff, Bytes.pow_256_4, Nat.mod_eq_of_lt h1, Nat.mod_eq_of_lt h2]

/-- **Exact criterion for two output prefixes to coincide** (ids are 32-bit): both RAW, or same id and
    same leading byte — TINK (01) on both sides or CRUNCHY/LEGACY (00) on both sides.  In particular
    CRUNCHY and LEGACY share their prefix; everything else is injective (`outputPrefix_inj`,
    `outputPrefix_tink_ne_crunchy` in `Model/Framing.lean` are the two special cases). -/
theorem outputPrefix_eq_iff (v v' : Variant) (id id' : Nat) (h1 : id < 4294967296) (h2 : id' < 4294967296) :
    outputPrefix v id = outputPrefix v' id' ↔
      (v = .raw ∧ v' = .raw) ∨ (v ≠ .raw ∧ v' ≠ .raw ∧ (v = .tink ↔ v' = .tink) ∧ id = id') := by
  have hb := be32_eq_iff id id' h1 h2
  cases v <;> cases v' <;>
    simp [outputPrefix, hb]

example : ∃ id id' : Nat, id < 4294967296 ∧ id' < 4294967296 := ⟨1, 2, by decide, by decide⟩

/-- different 32-bit ids, or TINK vs CRUNCHY/LEGACY: different 5-byte prefixes -/
theorem outputPrefix_ne (v v' : Variant) (id id' : Nat) (h1 : id < 4294967296) (h2 : id' < 4294967296)
    (hv : v ≠ .raw) (h : id ≠ id' ∨ ¬ (v = .tink ↔ v' = .tink)) :
    outputPrefix v id ≠ outputPrefix v' id' := by
  intro heq
  rcases (outputPrefix_eq_iff v v' id id' h1 h2).1 heq with ⟨a, -⟩ | ⟨-, -, b, c⟩
  · exact hv a
  · rcases h with h | h
    · exact h c
    · exact h b

example : ∃ (v v' : Variant) (id id' : Nat), id < 4294967296 ∧ id' < 4294967296 ∧ v ≠ .raw ∧
    (id ≠ id' ∨ ¬ (v = .tink ↔ v' = .tink)) := ⟨.tink, .tink, 1, 2, by decide, by decide, by decide, Or.inl (by decide)⟩

/-- **Foreign-prefix rejection**: a ciphertext framed with another prefix of the same length is rejected
    by the prefix comparison (all four framings). -/
theorem Full.decrypt_foreign_prefix (b : Full) (pre' rest ad : Bytes) (hl : pre'.length = b.pre.length)
    (hne : pre' ≠ b.pre) : b.decrypt (pre' ++ rest) ad = none :=
  Full.decrypt_wrong_prefix b _ ad (take_ne_of_prefix_ne pre' b.pre rest hl hne)

theorem EtM.decrypt_foreign_prefix (b : EtM) (pre' rest ad : Bytes) (hl : pre'.length = b.pre.length)
    (hne : pre' ≠ b.pre) : b.decrypt (pre' ++ rest) ad = none :=
  EtM.decrypt_wrong_prefix b _ ad (take_ne_of_prefix_ne pre' b.pre rest hl hne)

theorem GcmSiv.fullDecrypt_foreign_prefix (g : GcmSiv) (pre pre' key rest ad : Bytes)
    (hl : pre'.length = pre.length) (hne : pre' ≠ pre) : g.fullDecrypt pre key (pre' ++ rest) ad = none :=
  GcmSiv.fullDecrypt_wrong_prefix g pre key _ ad (take_ne_of_prefix_ne pre' pre rest hl hne)

theorem Xaes.decrypt_foreign_prefix (x : Xaes) (pre' rest ad : Bytes) (hl : pre'.length = x.pre.length)
    (hne : pre' ≠ x.pre) : x.decrypt (pre' ++ rest) ad = none :=
  Xaes.decrypt_wrong_prefix x _ ad (take_ne_of_prefix_ne pre' x.pre rest hl hne)

/-- instantiated: AES-CTR-HMAC keys with different ids / TINK vs CRUNCHY reject each other's ciphertexts -/
theorem EtM.decrypt_other_key (a b : EtM) (v v' : Variant) (id id' : Nat)
    (h1 : id < 4294967296) (h2 : id' < 4294967296) (hv : v ≠ .raw) (hv' : v' ≠ .raw)
    (ha : a.pre = outputPrefix v id) (hb : b.pre = outputPrefix v' id')
    (h : id ≠ id' ∨ ¬ (v = .tink ↔ v' = .tink)) (iv pt ad ad' : Bytes) :
    b.decrypt (a.encryptWith iv pt ad) ad' = none := by
  rw [EtM.encryptWith_eq_frame, List.append_assoc]
  apply EtM.decrypt_foreign_prefix
  · rw [ha, hb, outputPrefix_length, outputPrefix_length, if_neg hv, if_neg hv']
  · rw [ha, hb]; exact outputPrefix_ne v v' id id' h1 h2 hv h

example : ∃ (a b : EtM), a.pre = outputPrefix .tink 1 ∧ b.pre = outputPrefix .crunchy 1 :=
  ⟨⟨outputPrefix .tink 1, id, id, 12, 16⟩, ⟨outputPrefix .crunchy 1, id, id, 12, 16⟩, rfl, rfl⟩

/-! ## remaining non-vacuity witnesses (hypotheses of the lemmas above that have no `example` next to them) -/

-- `EtM.macInput_inj_of_close`
example : ∃ ad ad' : Bytes, ad.length < ad'.length + 2305843009213693952 ∧
    ad'.length < ad.length + 2305843009213693952 := ⟨[], [1], by decide, by decide⟩
-- `EtM.decrypt_bad_tag`
example : toyEtM.tagOf [] (((Bytes.zeros 39 ++ [1]).drop toyEtM.pre.length).take
      ((Bytes.zeros 39 ++ [1]).length - toyEtM.pre.length - toyEtM.tagLen))
    ≠ (Bytes.zeros 39 ++ [1]).drop ((Bytes.zeros 39 ++ [1]).length - toyEtM.tagLen) := by decide
-- `EtM.decrypt_frame_iff`, `GcmSiv.decrypt_frame_iff`, `GcmSiv.reject_modified_body`
example : (Bytes.zeros 16).length = toyEtM.tagLen ∧ (Bytes.zeros 12).length = 12 ∧ (Bytes.zeros 16).length = 16 := by decide
-- `GcmSiv.decrypt_short`, `GcmSiv.fullDecrypt_short`, `Xaes.decrypt_short`
example : ∃ (ct pre : Bytes) (saltLen : Nat), ct.length < 28 ∧ ct.length < pre.length + 12 + 16 ∧
    ct.length < pre.length + saltLen + 12 + 16 := ⟨[], [], 8, by decide, by decide, by decide⟩
-- `GcmSiv.fullDecrypt_wrong_prefix`, `Xaes.decrypt_wrong_prefix`, the `*_foreign_prefix` lemmas
example : ∃ ct pre pre' : Bytes, ct.take pre.length ≠ pre ∧ pre'.length = pre.length ∧ pre' ≠ pre :=
  ⟨[0, 0, 0, 0, 1], [1, 0, 0, 0, 1], [0, 0, 0, 0, 1], by decide, by decide, by decide⟩
-- `xaesDeriveKey_congr`, `xaesDeriveKey_pad`
example : xaesSalt12 [1, 2] = xaesSalt12 [1, 2, 0] ∧ ([1, 2] : Bytes).length ≤ 12 := by decide
-- `Xaes.decrypt_encrypt_min`: random input of the right length
example : (Bytes.zeros 20).length = 8 + 12 := by decide

end TinkVerif.Aead

section AxiomAudit
open TinkVerif.Aead
#print axioms EtM.macInput_eq_iff
#print axioms EtM.macInput_inj_of_close
#print axioms EtM.macInput_inj
#print axioms EtM.macInput_collision_at_2_61
#print axioms be64_bitlen_inj
#print axioms be64_bitlen_wrap
#print axioms be64_bitlen_not_inj
#print axioms be32_bitlen_wrap
#print axioms EtM.decrypt_short
#print axioms EtM.decrypt_wrong_prefix
#print axioms EtM.decrypt_bad_tag
#print axioms EtM.decrypt_frame_iff
#print axioms EtM.accepted_is_frame
#print axioms EtM.decrypt_some_iff_encrypt
#print axioms EtM.reject_modified_ad
#print axioms EtM.reject_modified_payload
#print axioms EtM.reject_modified_tag
#print axioms EtM.accepted_other_is_fresh
#print axioms GcmSiv.deriveKeys_length
#print axioms GcmSiv.ctrIV_length
#print axioms GcmSiv.ctrIV_take15
#print axioms GcmSiv.ctrIV_msb
#print axioms GcmSiv.ctrIV_low7
#print axioms GcmSiv.ctrIV_last
#print axioms GcmSiv.tagBlock_last
#print axioms GcmSiv.ctr_block_last
#print axioms GcmSiv.tagBlock_ne_ctr_block
#print axioms pad16_length
#print axioms GcmSiv.polyvalInput_length
#print axioms GcmSiv.polyvalInput_length_mod
#print axioms GcmSiv.polyvalInput_inj
#print axioms GcmSiv.decrypt_short
#print axioms GcmSiv.accepted_nonce_tag_length
#print axioms GcmSiv.decrypt_frame_iff
#print axioms GcmSiv.decrypt_some_iff_encrypt
#print axioms GcmSiv.reject_modified_ad
#print axioms GcmSiv.reject_modified_body
#print axioms GcmSiv.fullDecrypt_short
#print axioms GcmSiv.fullDecrypt_wrong_prefix
#print axioms GcmSiv.fullDecrypt_iff
#print axioms GcmSiv.fullDecrypt_some_iff_encrypt
#print axioms xaesDeriveKey_congr
#print axioms xaesDeriveKey_take12
#print axioms xaesDeriveKey_pad
#print axioms xaesDeriveKey_append_zero
#print axioms xaesSalt12_inj
#print axioms xaes_cmac_input_length
#print axioms Xaes.decrypt_iff
#print axioms Xaes.decrypt_short
#print axioms Xaes.decrypt_wrong_prefix
#print axioms Xaes.decrypt_encrypt_min
#print axioms envelopeSerialize_eq_some_iff
#print axioms envelopeSerialize_isSome_iff
#print axioms envelopeSerialize_eq_none_iff
#print axioms envelopeParse_eq_some_iff
#print axioms envelopeParse_eq_none_iff
#print axioms envelopeParse_serialize
#print axioms envelopeSerialize_parse
#print axioms envelopeParse_iff_serialize
#print axioms envelopeParse_inj
#print axioms envelopeSerialize_inj
#print axioms envelopeParse_bounds
#print axioms envelopeParse_reject_overlong
#print axioms envelopeParse_reject_zero
#print axioms envelopeParse_reject_above_limit
#print axioms outputPrefix_eq_iff
#print axioms outputPrefix_ne
#print axioms Full.decrypt_foreign_prefix
#print axioms EtM.decrypt_foreign_prefix
#print axioms GcmSiv.fullDecrypt_foreign_prefix
#print axioms Xaes.decrypt_foreign_prefix
#print axioms EtM.decrypt_other_key
end AxiomAudit
