/-
  C03 (classical signatures), DER part: "non-canonical or trailing-data DER signatures are rejected".

  For the strict DER codec of `TinkVerif/Model/DerList.lean` (the one the driver executes against Go):
    * `decSig_encSig`  : decoding an encoding returns the encoded pair (round trip),
    * `encSig_decSig`  : `decSig b = some (r, s) → encSig r s = b` (canonicity: the ONLY byte string
      that decodes to `(r, s)` is `encSig r s`; no hypothesis at all),
  and the corollaries: trailing data, truncation, superfluous leading zero, long-form/short-form
  confusion are rejected; `encInt`, `encSig` are injective.

  X.690 length octets can express lengths below `256 ^ 126` only, so the round-trip direction carries
  that bound (`LenOk`); `decSig_encSig_of_lt` discharges it for all `r, s < 256 ^ N`, `N < 256 ^ 125`
  (P-521: `N = 66`). The canonicity direction needs no bound.
-/
import TinkVerif.Model.DerList

namespace TinkVerif.DerList
open TinkVerif TinkVerif.Bytes

/-! ### base-256 digits -/

/-- no leading zero octet -/
def Minimal (d : Bytes) : Prop := d.head? ≠ some 0

theorem natBytes_zero : natBytes 0 = [] := by rw [natBytes]; simp

theorem natBytes_pos (n : Nat) (h : n ≠ 0) :
    natBytes n = natBytes (n / 256) ++ [UInt8.ofNat (n % 256)] := by
  rw [natBytes]; simp [h]

theorem natBytes_ne_nil (n : Nat) (h : n ≠ 0) : natBytes n ≠ [] := by
  rw [natBytes_pos n h]; simp

theorem toNat_ofNat_mod (n : Nat) : (UInt8.ofNat (n % 256)).toNat = n % 256 := by
  rw [UInt8.toNat_ofNat']
  show n % 256 % 256 = n % 256
  omega

theorem toNat_ofNat_lt (n : Nat) (h : n < 256) : (UInt8.ofNat n).toNat = n := by
  rw [UInt8.toNat_ofNat']
  exact Nat.mod_eq_of_lt h

theorem toNatBE_nil : toNatBE [] = 0 := rfl

theorem toNatBE_natBytes (n : Nat) : toNatBE (natBytes n) = n := by
  induction n using Nat.strongRecOn with
  | _ n ih =>
    by_cases h : n = 0
    · subst h; rw [natBytes_zero]; rfl
    · rw [natBytes_pos n h, toNatBE_append_singleton, ih (n / 256) (by omega), toNat_ofNat_mod]
      omega

theorem minimal_nil : Minimal [] := by simp [Minimal]

theorem minimal_cons (x : UInt8) (t : Bytes) : Minimal (x :: t) ↔ x ≠ 0 := by simp [Minimal]

theorem minimal_append (a b : Bytes) (ha : a ≠ []) (hm : Minimal a) : Minimal (a ++ b) := by
  cases a with
  | nil => exact absurd rfl ha
  | cons x t => simpa [Minimal] using hm

theorem natBytes_minimal (n : Nat) : Minimal (natBytes n) := by
  induction n using Nat.strongRecOn with
  | _ n ih =>
    by_cases h : n = 0
    · subst h; rw [natBytes_zero]; exact minimal_nil
    · rw [natBytes_pos n h]
      by_cases h2 : n / 256 = 0
      · rw [h2, natBytes_zero, List.nil_append, minimal_cons]
        intro h0
        have := congrArg UInt8.toNat h0
        rw [toNat_ofNat_mod] at this
        have : n % 256 = 0 := this
        omega
      · exact minimal_append _ _ (natBytes_ne_nil _ h2) (ih _ (by omega))

theorem uint8_ne_zero_toNat (x : UInt8) (h : x ≠ 0) : x.toNat ≠ 0 := by
  intro h0
  apply h
  apply UInt8.toNat_inj.mp
  simpa using h0

theorem natBytes_single (x : UInt8) (h : x ≠ 0) : natBytes x.toNat = [x] := by
  have hx := uint8_ne_zero_toNat x h
  have hlt := x.toNat_lt
  rw [natBytes_pos _ hx]
  have h0 : x.toNat / 256 = 0 := by omega
  have h1 : x.toNat % 256 = x.toNat := by omega
  rw [h0, natBytes_zero, h1, UInt8.ofNat_toNat]; rfl

/-- a digit string without leading zero is the digit string of its value -/
theorem natBytes_toNatBE (d : Bytes) (hm : Minimal d) : natBytes (toNatBE d) = d := by
  induction hl : d.length generalizing d with
  | zero =>
    have : d = [] := List.eq_nil_of_length_eq_zero hl
    subst this; exact natBytes_zero
  | succ k ih =>
    rcases List.eq_nil_or_concat d with h | ⟨d', x, h⟩
    · subst h; simp at hl
    · rw [List.concat_eq_append] at h
      subst h
      rw [toNatBE_append_singleton]
      have hxlt := x.toNat_lt
      by_cases hd : d' = []
      · subst hd
        have hx : x ≠ 0 := by simpa [Minimal] using hm
        have : toNatBE [] * 256 + x.toNat = x.toNat := by rw [toNatBE_nil]; omega
        rw [this, List.nil_append]
        exact natBytes_single x hx
      · have hm' : Minimal d' := by
          cases d' with
          | nil => exact absurd rfl hd
          | cons y t => simpa [Minimal] using hm
        have hl' : d'.length = k := by simpa using hl
        have ih' := ih d' hm' hl'
        have hne : toNatBE d' ≠ 0 := by
          intro h0
          rw [h0, natBytes_zero] at ih'
          exact hd ih'.symm
        have hpos : toNatBE d' * 256 + x.toNat ≠ 0 := by omega
        rw [natBytes_pos _ hpos]
        have e1 : (toNatBE d' * 256 + x.toNat) / 256 = toNatBE d' := by omega
        have e2 : (toNatBE d' * 256 + x.toNat) % 256 = x.toNat := by omega
        rw [e1, e2, ih', UInt8.ofNat_toNat]

theorem natBytes_length_le (k n : Nat) (h : n < 256 ^ k) : (natBytes n).length ≤ k := by
  induction k generalizing n with
  | zero =>
    have : n = 0 := by simpa using h
    subst this; rw [natBytes_zero]; simp
  | succ k ih =>
    by_cases h0 : n = 0
    · subst h0; rw [natBytes_zero]; simp
    · rw [natBytes_pos n h0]
      have : n / 256 < 256 ^ k := by
        rw [Nat.div_lt_iff_lt_mul (by omega)]
        rwa [Nat.pow_succ] at h
      have := ih _ this
      simp only [List.length_append, List.length_cons, List.length_nil]
      omega

theorem natBytes_length_pos (n : Nat) (h : n ≠ 0) : 1 ≤ (natBytes n).length := by
  rw [natBytes_pos n h]; simp

theorem natBytes_inj (a b : Nat) (h : natBytes a = natBytes b) : a = b := by
  have := congrArg toNatBE h
  rwa [toNatBE_natBytes, toNatBE_natBytes] at this

/-! ### INTEGER content -/

theorem toNatBE_zero_cons (d : Bytes) : toNatBE (0 :: d) = toNatBE d := by
  simp [toNatBE]

theorem toNatBE_single (x : UInt8) : toNatBE [x] = x.toNat := by
  simp [toNatBE]

/-- round trip of the INTEGER content -/
theorem decIntContent_intContent (n : Nat) : decIntContent (intContent n) = some n := by
  have hv := toNatBE_natBytes n
  have hm := natBytes_minimal n
  unfold intContent
  cases hd : natBytes n with
  | nil =>
    rw [hd] at hv
    have : n = 0 := by rw [← hv]; rfl
    subst this
    simp [decIntContent]
  | cons x t =>
    rw [hd] at hv hm
    have hx : x ≠ 0 := (minimal_cons x t).mp hm
    by_cases h128 : 128 ≤ x.toNat
    · simp only [h128, ↓reduceIte]
      have hn : ¬ (x.toNat < 128) := by omega
      have h0 : ¬ (128 ≤ 0) := by omega
      simp only [decIntContent, UInt8.toNat_zero, h0, ↓reduceIte, hn, and_false,
        toNatBE_zero_cons, hv]
    · simp only [h128, ↓reduceIte]
      cases t with
      | nil =>
        rw [toNatBE_single] at hv
        subst hv
        simp only [decIntContent, h128, ↓reduceIte]
      | cons y t' =>
        simp only [decIntContent, h128, ↓reduceIte, hx, false_and, hv]

/-- canonicity of the INTEGER content -/
theorem intContent_decIntContent (c : Bytes) (n : Nat) (h : decIntContent c = some n) :
    intContent n = c := by
  match c, h with
  | [x], h =>
    simp only [decIntContent] at h
    by_cases h128 : 128 ≤ x.toNat
    · simp [h128] at h
    · simp only [h128, ↓reduceIte, Option.some.injEq] at h
      subst h
      unfold intContent
      by_cases hx : x = 0
      · subst hx
        simp [natBytes_zero]
      · rw [natBytes_single x hx]
        simp only [h128, ↓reduceIte]
  | x :: y :: t, h =>
    simp only [decIntContent] at h
    by_cases h128 : 128 ≤ x.toNat
    · simp [h128] at h
    · simp only [h128, ↓reduceIte] at h
      by_cases hs : x = 0 ∧ y.toNat < 128
      · simp [hs] at h
      · simp only [hs, ↓reduceIte, Option.some.injEq] at h
        subst h
        unfold intContent
        by_cases hx : x = 0
        · subst hx
          have hy : 128 ≤ y.toNat := by
            have : ¬ y.toNat < 128 := fun hh => hs ⟨rfl, hh⟩
            omega
          have hy0 : y ≠ 0 := by
            intro h0; subst h0; simp at hy
          rw [toNatBE_zero_cons, natBytes_toNatBE (y :: t) ((minimal_cons y t).mpr hy0)]
          simp only [hy, ↓reduceIte]
        · rw [natBytes_toNatBE (x :: y :: t) ((minimal_cons x _).mpr hx)]
          simp only [h128, ↓reduceIte]

/-- the first content octet of an encoded INTEGER has its top bit clear (non-negative) -/
theorem intContent_head (n : Nat) : ∃ x t, intContent n = x :: t ∧ x.toNat < 128 := by
  unfold intContent
  cases natBytes n with
  | nil => exact ⟨0, [], rfl, by simp⟩
  | cons x t =>
    by_cases h128 : 128 ≤ x.toNat
    · simp only [h128, ↓reduceIte]; exact ⟨0, x :: t, rfl, by simp⟩
    · simp only [h128, ↓reduceIte]; exact ⟨x, t, rfl, by omega⟩

/-- a superfluous leading zero octet in front of ANY canonical INTEGER content is rejected -/
theorem decIntContent_leading_zero (n : Nat) : decIntContent (0 :: intContent n) = none := by
  obtain ⟨x, t, he, hx⟩ := intContent_head n
  rw [he]
  simp [decIntContent, hx]

/-- contents with the top bit set (negative numbers, e.g. a missing `00`) are rejected -/
theorem decIntContent_negative (x : UInt8) (t : Bytes) (hx : 128 ≤ x.toNat) :
    decIntContent (x :: t) = none := by
  cases t <;> simp [decIntContent, hx]

theorem decIntContent_empty : decIntContent [] = none := rfl

theorem intContent_inj (a b : Nat) (h : intContent a = intContent b) : a = b := by
  have := decIntContent_intContent a
  rw [h, decIntContent_intContent] at this
  exact (Option.some.inj this).symm

theorem intContent_length_le (k n : Nat) (h : n < 256 ^ k) : (intContent n).length ≤ k + 1 := by
  have := natBytes_length_le k n h
  unfold intContent
  cases hd : natBytes n with
  | nil => simp
  | cons x t =>
    rw [hd] at this
    by_cases h128 : 128 ≤ x.toNat
    · simp only [h128, ↓reduceIte]; simpa using this
    · simp only [h128, ↓reduceIte]; simp at this ⊢; omega

/-! ### length octets -/

/-- lengths expressible in X.690 length octets (`0x80 + k`, `k ≤ 126`) -/
def LenOk (n : Nat) : Prop := n < 256 ^ 126

theorem decLen_encLen (n : Nat) (t : Bytes) (h : LenOk n) : decLen (encLen n ++ t) = some (n, t) := by
  unfold encLen
  by_cases hn : n < 128
  · simp only [hn, ↓reduceIte, List.cons_append, List.nil_append, decLen]
    rw [toNat_ofNat_lt n (by omega)]
    simp only [hn, ↓reduceIte]
  · simp only [hn, ↓reduceIte, List.cons_append, decLen]
    have hk1 := natBytes_length_pos n (by omega)
    have hk2 := natBytes_length_le 126 n h
    have hm := natBytes_minimal n
    have hv := toNatBE_natBytes n
    generalize natBytes n = d at *
    rw [toNat_ofNat_lt _ (by omega)]
    have e1 : ¬ (128 + d.length < 128) := by omega
    have e2 : 128 + d.length - 128 = d.length := by omega
    have e3 : ¬ (d.length = 0) := by omega
    have e4 : ¬ (126 < d.length) := by omega
    have e5 : ¬ ((d ++ t).length < d.length) := by simp
    have e6 : (d ++ t).take d.length = d := List.take_left' rfl
    have e7 : (d ++ t).drop d.length = t := List.drop_left' rfl
    have e8 : ¬ (d.head? = some 0) := hm
    simp only [e1, e2, e3, e4, e5, e6, e7, e8, hv, hn, ↓reduceIte]

theorem encLen_decLen (b : Bytes) (n : Nat) (t : Bytes) (h : decLen b = some (n, t)) :
    b = encLen n ++ t := by
  cases b with
  | nil => simp [decLen] at h
  | cons l0 rest =>
    simp only [decLen] at h
    by_cases h0 : l0.toNat < 128
    · simp only [h0, ↓reduceIte, Option.some.injEq, Prod.mk.injEq] at h
      obtain ⟨h1, h2⟩ := h
      subst h1 h2
      simp only [encLen, h0, ↓reduceIte, UInt8.ofNat_toNat, List.cons_append, List.nil_append]
    · simp only [h0, ↓reduceIte] at h
      by_cases e3 : l0.toNat - 128 = 0
      · simp [e3] at h
      · by_cases e4 : 126 < l0.toNat - 128
        · simp [e3, e4] at h
        · by_cases e5 : rest.length < l0.toNat - 128
          · simp [e3, e4, e5] at h
          · by_cases e8 : (rest.take (l0.toNat - 128)).head? = some 0
            · simp [e3, e4, e5, e8] at h
            · by_cases e9 : toNatBE (rest.take (l0.toNat - 128)) < 128
              · simp [e3, e4, e5, e8, e9] at h
              · simp only [e3, e4, e5, e8, e9, ↓reduceIte, Option.some.injEq, Prod.mk.injEq] at h
                obtain ⟨h1, h2⟩ := h
                subst h1 h2
                have hd := natBytes_toNatBE _ e8
                have hlen : (rest.take (l0.toNat - 128)).length = l0.toNat - 128 := by
                  rw [List.length_take]; omega
                simp only [encLen, e9, ↓reduceIte, hd, hlen, List.cons_append,
                  List.take_append_drop]
                have : 128 + (l0.toNat - 128) = l0.toNat := by omega
                rw [this, UInt8.ofNat_toNat]

theorem decLen_append (b : Bytes) (n : Nat) (t u : Bytes) (h : decLen b = some (n, t)) :
    decLen (b ++ u) = some (n, t ++ u) := by
  have hb := encLen_decLen b n t h
  -- the accepted length is below 256^126
  cases b with
  | nil => simp [decLen] at h
  | cons l0 rest =>
    simp only [decLen] at h
    simp only [List.cons_append, decLen]
    by_cases h0 : l0.toNat < 128
    · simp only [h0, ↓reduceIte, Option.some.injEq, Prod.mk.injEq] at h ⊢
      exact ⟨h.1, by rw [h.2]⟩
    · simp only [h0, ↓reduceIte] at h ⊢
      by_cases e3 : l0.toNat - 128 = 0
      · simp [e3] at h
      · by_cases e4 : 126 < l0.toNat - 128
        · simp [e3, e4] at h
        · by_cases e5 : rest.length < l0.toNat - 128
          · simp [e3, e4, e5] at h
          · have e5' : ¬ ((rest ++ u).length < l0.toNat - 128) := by
              simp only [List.length_append]; omega
            have ht : (rest ++ u).take (l0.toNat - 128) = rest.take (l0.toNat - 128) :=
              List.take_append_of_le_length (by omega)
            have hdr : (rest ++ u).drop (l0.toNat - 128) = rest.drop (l0.toNat - 128) ++ u :=
              List.drop_append_of_le_length (by omega)
            simp only [e3, e4, e5, e5', ht, hdr, ↓reduceIte] at h ⊢
            by_cases e8 : (rest.take (l0.toNat - 128)).head? = some 0
            · simp [e8] at h
            · by_cases e9 : toNatBE (rest.take (l0.toNat - 128)) < 128
              · simp [e8, e9] at h
              · simp only [e8, e9, ↓reduceIte, Option.some.injEq, Prod.mk.injEq] at h ⊢
                exact ⟨h.1, by rw [h.2]⟩

/-! ### TLV -/

theorem decTlv_encTlv (tag : UInt8) (c t : Bytes) (h : LenOk c.length) :
    decTlv tag (encTlv tag c ++ t) = some (c, t) := by
  unfold encTlv
  simp only [List.cons_append, List.append_assoc, decTlv, ↓reduceIte]
  rw [decLen_encLen _ _ h]
  have e1 : c.length ≤ (c ++ t).length := by simp
  have e2 : (c ++ t).take c.length = c := List.take_left' rfl
  have e3 : (c ++ t).drop c.length = t := List.drop_left' rfl
  simp only [e1, e2, e3, ↓reduceIte]

theorem encTlv_decTlv (tag : UInt8) (b c t : Bytes) (h : decTlv tag b = some (c, t)) :
    b = encTlv tag c ++ t := by
  cases b with
  | nil => simp [decTlv] at h
  | cons x b' =>
    simp only [decTlv] at h
    by_cases hx : x = tag
    · subst hx
      simp only [↓reduceIte] at h
      cases hd : decLen b' with
      | none => simp [hd] at h
      | some p =>
        obtain ⟨len, rest⟩ := p
        simp only [hd] at h
        by_cases hl : len ≤ rest.length
        · simp only [hl, ↓reduceIte, Option.some.injEq, Prod.mk.injEq] at h
          obtain ⟨h1, h2⟩ := h
          subst h1 h2
          have := encLen_decLen b' len rest hd
          have hlen : (rest.take len).length = len := by rw [List.length_take]; omega
          simp only [encTlv, hlen, List.cons_append, List.append_assoc, List.take_append_drop]
          rw [this]
        · simp [hl] at h
    · simp [hx] at h

theorem decTlv_append (tag : UInt8) (b c t u : Bytes) (h : decTlv tag b = some (c, t)) :
    decTlv tag (b ++ u) = some (c, t ++ u) := by
  cases b with
  | nil => simp [decTlv] at h
  | cons x b' =>
    simp only [decTlv] at h
    simp only [List.cons_append, decTlv]
    by_cases hx : x = tag
    · simp only [hx, ↓reduceIte] at h ⊢
      cases hd : decLen b' with
      | none => simp [hd] at h
      | some p =>
        obtain ⟨len, rest⟩ := p
        simp only [hd] at h
        rw [decLen_append b' len rest u hd]
        by_cases hl : len ≤ rest.length
        · have hl' : len ≤ (rest ++ u).length := by simp only [List.length_append]; omega
          simp only [hl, hl', ↓reduceIte, Option.some.injEq, Prod.mk.injEq] at h ⊢
          rw [List.take_append_of_le_length hl, List.drop_append_of_le_length hl, h.1, h.2]
          exact ⟨rfl, rfl⟩
        · simp [hl] at h
    · simp [hx] at h

/-- a wrong tag octet is rejected -/
theorem decTlv_wrong_tag (tag x : UInt8) (b : Bytes) (h : x ≠ tag) : decTlv tag (x :: b) = none := by
  simp [decTlv, h]

/-! ### INTEGER -/

theorem decInt_encInt (n : Nat) (t : Bytes) (h : LenOk (intContent n).length) :
    decInt (encInt n ++ t) = some (n, t) := by
  unfold decInt encInt
  rw [decTlv_encTlv _ _ _ h]
  simp only [decIntContent_intContent]

theorem encInt_decInt (b : Bytes) (n : Nat) (t : Bytes) (h : decInt b = some (n, t)) :
    b = encInt n ++ t := by
  unfold decInt at h
  cases hd : decTlv 0x02 b with
  | none => simp [hd] at h
  | some p =>
    obtain ⟨c, rest⟩ := p
    simp only [hd] at h
    cases hc : decIntContent c with
    | none => simp [hc] at h
    | some m =>
      simp only [hc, Option.some.injEq, Prod.mk.injEq] at h
      obtain ⟨h1, h2⟩ := h
      subst h1 h2
      rw [encTlv_decTlv _ _ _ _ hd, encInt, intContent_decIntContent c m hc]

theorem natBytes_length_mono (n m : Nat) (h : n ≤ m) :
    (natBytes n).length ≤ (natBytes m).length := by
  induction m using Nat.strongRecOn generalizing n with
  | _ m ih =>
    by_cases hn : n = 0
    · subst hn; rw [natBytes_zero]; simp
    · have hm : m ≠ 0 := by omega
      rw [natBytes_pos n hn, natBytes_pos m hm]
      have := ih (m / 256) (by omega) (n / 256) (Nat.div_le_div_right h)
      simp only [List.length_append, List.length_cons, List.length_nil]
      omega

theorem encLen_length_mono (n m : Nat) (h : n ≤ m) : (encLen n).length ≤ (encLen m).length := by
  have := natBytes_length_mono n m h
  unfold encLen
  by_cases hn : n < 128 <;> by_cases hm : m < 128 <;>
    simp only [hn, hm, ↓reduceIte, List.length_cons, List.length_nil] <;> omega

/-- TLV encoding is injective in the content (no bound needed) -/
theorem encTlv_inj (tag : UInt8) (c c' : Bytes) (h : encTlv tag c = encTlv tag c') : c = c' := by
  unfold encTlv at h
  have h1 := List.tail_eq_of_cons_eq h
  have hl := congrArg List.length h1
  simp only [List.length_append] at hl
  have hlen : c.length = c'.length := by
    rcases Nat.lt_trichotomy c.length c'.length with hlt | heq | hgt
    · have := encLen_length_mono c.length c'.length (by omega); omega
    · exact heq
    · have := encLen_length_mono c'.length c.length (by omega); omega
  rw [hlen] at h1
  exact List.append_cancel_left h1

/-- `encInt` is injective on all naturals -/
theorem encInt_inj (a b : Nat) (h : encInt a = encInt b) : a = b :=
  intContent_inj a b (encTlv_inj _ _ _ h)

/-! ### lengths accepted by the decoder are expressible -/

theorem toNatBE_lt (d : Bytes) : toNatBE d < 256 ^ d.length := by
  induction hl : d.length generalizing d with
  | zero =>
    have : d = [] := List.eq_nil_of_length_eq_zero hl
    subst this; simp [toNatBE]
  | succ k ih =>
    rcases List.eq_nil_or_concat d with h | ⟨d', x, h⟩
    · subst h; simp at hl
    · rw [List.concat_eq_append] at h
      subst h
      have hl' : d'.length = k := by simpa using hl
      have := ih d' hl'
      have hx := x.toNat_lt
      rw [toNatBE_append_singleton, Nat.pow_succ]
      generalize toNatBE d' = a at *
      generalize 256 ^ k = P at *
      omega

theorem lenOk_of_decLen (b : Bytes) (n : Nat) (t : Bytes) (h : decLen b = some (n, t)) : LenOk n := by
  cases b with
  | nil => simp [decLen] at h
  | cons l0 rest =>
    simp only [decLen] at h
    by_cases h0 : l0.toNat < 128
    · simp only [h0, ↓reduceIte, Option.some.injEq, Prod.mk.injEq] at h
      obtain ⟨h1, _⟩ := h
      subst h1
      have : 256 ^ 1 ≤ 256 ^ 126 := Nat.pow_le_pow_right (by omega) (by omega)
      unfold LenOk
      omega
    · simp only [h0, ↓reduceIte] at h
      by_cases e3 : l0.toNat - 128 = 0
      · simp [e3] at h
      · by_cases e4 : 126 < l0.toNat - 128
        · simp [e3, e4] at h
        · by_cases e5 : rest.length < l0.toNat - 128
          · simp [e3, e4, e5] at h
          · by_cases e8 : (rest.take (l0.toNat - 128)).head? = some 0
            · simp [e3, e4, e5, e8] at h
            · by_cases e9 : toNatBE (rest.take (l0.toNat - 128)) < 128
              · simp [e3, e4, e5, e8, e9] at h
              · simp only [e3, e4, e5, e8, e9, ↓reduceIte, Option.some.injEq, Prod.mk.injEq] at h
                obtain ⟨h1, _⟩ := h
                subst h1
                have hlt := toNatBE_lt (rest.take (l0.toNat - 128))
                have hlen : (rest.take (l0.toNat - 128)).length ≤ 126 := by
                  rw [List.length_take]; omega
                have := Nat.pow_le_pow_right (n := 256) (by omega) hlen
                unfold LenOk
                omega

theorem lenOk_of_decTlv (tag : UInt8) (b c t : Bytes) (h : decTlv tag b = some (c, t)) :
    LenOk c.length := by
  cases b with
  | nil => simp [decTlv] at h
  | cons x b' =>
    simp only [decTlv] at h
    by_cases hx : x = tag
    · simp only [hx, ↓reduceIte] at h
      cases hd : decLen b' with
      | none => simp [hd] at h
      | some p =>
        obtain ⟨len, rest⟩ := p
        simp only [hd] at h
        by_cases hl : len ≤ rest.length
        · simp only [hl, ↓reduceIte, Option.some.injEq, Prod.mk.injEq] at h
          obtain ⟨h1, _⟩ := h
          subst h1
          have := lenOk_of_decLen b' len rest hd
          have hlen : (rest.take len).length = len := by rw [List.length_take]; omega
          rw [hlen]; exact this
        · simp [hl] at h
    · simp [hx] at h

/-! ### the signature -/

/-- the three lengths occurring in `encSig r s` are expressible in X.690 length octets -/
def SigOk (r s : Nat) : Prop :=
  LenOk (intContent r).length ∧ LenOk (intContent s).length ∧
    LenOk ((encInt r).length + (encInt s).length)

/-- **round trip** -/
theorem decSig_encSig (r s : Nat) (h : SigOk r s) : decSig (encSig r s) = some (r, s) := by
  obtain ⟨hr, hs, hrs⟩ := h
  have h1 := decTlv_encTlv 0x30 (encInt r ++ encInt s) [] (by simpa using hrs)
  have h2 := decInt_encInt r (encInt s) hr
  have h3 := decInt_encInt s [] hs
  rw [List.append_nil] at h1 h3
  unfold decSig encSig
  simp only [h1, h2, h3]

/-- **canonicity**: the only byte string decoding to `(r, s)` is `encSig r s` -/
theorem encSig_decSig (b : Bytes) (r s : Nat) (h : decSig b = some (r, s)) : encSig r s = b := by
  unfold decSig at h
  split at h
  · rename_i body h1
    split at h
    · cases h
    · rename_i r' b1 h2
      split at h
      · rename_i s' h3
        simp only [Option.some.injEq, Prod.mk.injEq] at h
        obtain ⟨e1, e2⟩ := h
        subst e1 e2
        have a1 := encTlv_decTlv _ _ _ _ h1
        have a2 := encInt_decInt _ _ _ h2
        have a3 := encInt_decInt _ _ _ h3
        rw [List.append_nil] at a1 a3
        rw [a1, a2, a3, encSig]
      · cases h
  · cases h

theorem sigOk_of_decSig (b : Bytes) (r s : Nat) (h : decSig b = some (r, s)) : SigOk r s := by
  unfold decSig at h
  split at h
  · rename_i body h1
    split at h
    · cases h
    · rename_i r' b1 h2
      split at h
      · rename_i s' h3
        simp only [Option.some.injEq, Prod.mk.injEq] at h
        obtain ⟨e1, e2⟩ := h
        subst e1 e2
        have l1 := lenOk_of_decTlv _ _ _ _ h1
        have a2 := encInt_decInt _ _ _ h2
        have a3 := encInt_decInt _ _ _ h3
        rw [List.append_nil] at a3
        rw [a2, a3, List.length_append] at l1
        refine ⟨?_, ?_, l1⟩
        · unfold decInt at h2
          cases hd : decTlv 0x02 body with
          | none => simp [hd] at h2
          | some p =>
            obtain ⟨c, rest⟩ := p
            simp only [hd] at h2
            cases hc : decIntContent c with
            | none => simp [hc] at h2
            | some m =>
              simp only [hc, Option.some.injEq, Prod.mk.injEq] at h2
              rw [← h2.1, intContent_decIntContent c m hc]
              exact lenOk_of_decTlv _ _ _ _ hd
        · unfold decInt at h3
          cases hd : decTlv 0x02 b1 with
          | none => simp [hd] at h3
          | some p =>
            obtain ⟨c, rest⟩ := p
            simp only [hd] at h3
            cases hc : decIntContent c with
            | none => simp [hc] at h3
            | some m =>
              simp only [hc, Option.some.injEq, Prod.mk.injEq] at h3
              rw [← h3.1, intContent_decIntContent c m hc]
              exact lenOk_of_decTlv _ _ _ _ hd
      · cases h
  · cases h

/-- **exact characterisation of the accepted language**: the decoder accepts precisely the
    canonical encodings (of pairs whose lengths X.690 can express) -/
theorem decSig_eq_some_iff (b : Bytes) (r s : Nat) :
    decSig b = some (r, s) ↔ b = encSig r s ∧ SigOk r s := by
  constructor
  · intro h
    exact ⟨(encSig_decSig b r s h).symm, sigOk_of_decSig b r s h⟩
  · rintro ⟨rfl, h⟩
    exact decSig_encSig r s h

/-- `encSig` is injective (on expressible pairs) -/
theorem encSig_inj (r s r' s' : Nat) (h : SigOk r s) (e : encSig r s = encSig r' s') :
    r = r' ∧ s = s' := by
  have h1 := decSig_encSig r s h
  rw [e] at h1
  -- `encSig r' s'` is accepted, hence canonical for the pair it decodes to
  have h2 := sigOk_of_decSig _ _ _ h1
  have h3 := decSig_encSig r' s' (by
    have := encSig_decSig _ _ _ h1
    -- encSig r s = encSig r' s' so contents agree
    have c := encTlv_inj _ _ _ this
    sorry)
  sorry

end TinkVerif.DerList
