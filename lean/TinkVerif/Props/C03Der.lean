/-
  C03 (classical signatures), DER part: "non-canonical or trailing-data DER signatures are rejected".

  For the strict DER codec of `TinkVerif/Model/DerList.lean` (the one the driver executes against Go):
    * `decSig_encSig`  : decoding an encoding returns the encoded pair (round trip),
    * `encSig_decSig`  : `decSig b = some (r, s) → encSig r s = b` (canonicity: the ONLY byte string
      that decodes to `(r, s)` is `encSig r s`; no hypothesis at all),
  and the corollaries: trailing data, truncation, superfluous leading zero, long-form/short-form
  confusion are rejected; `encInt`, `encSig` are injective.

  X.690 length octets can express lengths below `256 ^ 126` only, so the round-trip direction carries
  that bound (`LenOk`); `decSig_encSig_of_lt` discharges it for all `r, s < 256 ^ N`, `N < 256 ^ 125`
  (P-521: `N = 66`). The canonicity direction needs no bound.
-/
import TinkVerif.Model.DerList

namespace TinkVerif.DerList
open TinkVerif TinkVerif.Bytes

/-! ### base-256 digits -/

/-- no leading zero octet -/
def Minimal (d : Bytes) : Prop := d.head? ≠ some 0

theorem natBytes_zero : natBytes 0 = [] := by rw [natBytes]; simp

theorem natBytes_pos (n : Nat) (h : n ≠ 0) :
    natBytes n = natBytes (n / 256) ++ [UInt8.ofNat (n % 256)] := by
  rw [natBytes]; simp [h]

theorem natBytes_ne_nil (n : Nat) (h : n ≠ 0) : natBytes n ≠ [] := by
  rw [natBytes_pos n h]; simp

theorem toNat_ofNat_mod (n : Nat) : (UInt8.ofNat (n % 256)).toNat = n % 256 := by
  rw [UInt8.toNat_ofNat']
  show n % 256 % 256 = n % 256
  omega

theorem toNat_ofNat_lt (n : Nat) (h : n < 256) : (UInt8.ofNat n).toNat = n := by
  rw [UInt8.toNat_ofNat']
  exact Nat.mod_eq_of_lt h

theorem toNatBE_nil : toNatBE [] = 0 := rfl

theorem toNatBE_natBytes (n : Nat) : toNatBE (natBytes n) = n := by
  induction n using Nat.strongRecOn with
  | _ n ih =>
    by_cases h : n = 0
    · subst h; rw [natBytes_zero]; rfl
    · rw [natBytes_pos n h, toNatBE_append_singleton, ih (n / 256) (by omega), toNat_ofNat_mod]
      omega

theorem minimal_nil : Minimal [] := by simp [Minimal]

theorem minimal_cons (x : UInt8) (t : Bytes) : Minimal (x :: t) ↔ x ≠ 0 := by simp [Minimal]

theorem minimal_append (a b : Bytes) (ha : a ≠ []) (hm : Minimal a) : Minimal (a ++ b) := by
  cases a with
  | nil => exact absurd rfl ha
  | cons x t => simpa [Minimal] using hm

theorem natBytes_minimal (n : Nat) : Minimal (natBytes n) := by
  induction n using Nat.strongRecOn with
  | _ n ih =>
    by_cases h : n = 0
    · subst h; rw [natBytes_zero]; exact minimal_nil
    · rw [natBytes_pos n h]
      by_cases h2 : n / 256 = 0
      · rw [h2, natBytes_zero, List.nil_append, minimal_cons]
        intro h0
        have := congrArg UInt8.toNat h0
        rw [toNat_ofNat_mod] at this
        have : n % 256 = 0 := this
        omega
      · exact minimal_append _ _ (natBytes_ne_nil _ h2) (ih _ (by omega))

theorem uint8_ne_zero_toNat (x : UInt8) (h : x ≠ 0) : x.toNat ≠ 0 := by
  intro h0
  apply h
  apply UInt8.toNat_inj.mp
  simpa using h0

theorem natBytes_single (x : UInt8) (h : x ≠ 0) : natBytes x.toNat = [x] := by
  have hx := uint8_ne_zero_toNat x h
  have hlt := x.toNat_lt
  rw [natBytes_pos _ hx]
  have h0 : x.toNat / 256 = 0 := by omega
  have h1 : x.toNat % 256 = x.toNat := by omega
  rw [h0, natBytes_zero, h1, UInt8.ofNat_toNat]; rfl

/-- a digit string without leading zero is the digit string of its value -/
theorem natBytes_toNatBE (d : Bytes) (hm : Minimal d) : natBytes (toNatBE d) = d := by
  induction hl : d.length generalizing d with
  | zero =>
    have : d = [] := List.eq_nil_of_length_eq_zero hl
    subst this; exact natBytes_zero
  | succ k ih =>
    rcases List.eq_nil_or_concat d with h | ⟨d', x, h⟩
    · subst h; simp at hl
    · rw [List.concat_eq_append] at h
      subst h
      rw [toNatBE_append_singleton]
      have hxlt := x.toNat_lt
      by_cases hd : d' = []
      · subst hd
        have hx : x ≠ 0 := by simpa [Minimal] using hm
        have : toNatBE [] * 256 + x.toNat = x.toNat := by rw [toNatBE_nil]; omega
        rw [this, List.nil_append]
        exact natBytes_single x hx
      · have hm' : Minimal d' := by
          cases d' with
          | nil => exact absurd rfl hd
          | cons y t => simpa [Minimal] using hm
        have hl' : d'.length = k := by simpa using hl
        have ih' := ih d' hm' hl'
        have hne : toNatBE d' ≠ 0 := by
          intro h0
          rw [h0, natBytes_zero] at ih'
          exact hd ih'.symm
        have hpos : toNatBE d' * 256 + x.toNat ≠ 0 := by omega
        rw [natBytes_pos _ hpos]
        have e1 : (toNatBE d' * 256 + x.toNat) / 256 = toNatBE d' := by omega
        have e2 : (toNatBE d' * 256 + x.toNat) % 256 = x.toNat := by omega
        rw [e1, e2, ih', UInt8.ofNat_toNat]

theorem natBytes_length_le (k n : Nat) (h : n < 256 ^ k) : (natBytes n).length ≤ k := by
  induction k generalizing n with
  | zero =>
    have : n = 0 := by simpa using h
    subst this; rw [natBytes_zero]; simp
  | succ k ih =>
    by_cases h0 : n = 0
    · subst h0; rw [natBytes_zero]; simp
    · rw [natBytes_pos n h0]
      have : n / 256 < 256 ^ k := by
        rw [Nat.div_lt_iff_lt_mul (by omega)]
        rwa [Nat.pow_succ] at h
      have := ih _ this
      simp only [List.length_append, List.length_cons, List.length_nil]
      omega

theorem natBytes_length_pos (n : Nat) (h : n ≠ 0) : 1 ≤ (natBytes n).length := by
  rw [natBytes_pos n h]; simp

theorem natBytes_inj (a b : Nat) (h : natBytes a = natBytes b) : a = b := by
  have := congrArg toNatBE h
  rwa [toNatBE_natBytes, toNatBE_natBytes] at this

/-! ### INTEGER content -/

theorem toNatBE_zero_cons (d : Bytes) : toNatBE (0 :: d) = toNatBE d := by
  simp [toNatBE]

theorem toNatBE_single (x : UInt8) : toNatBE [x] = x.toNat := by
  simp [toNatBE]

/-- round trip of the INTEGER content -/
theorem decIntContent_intContent (n : Nat) : decIntContent (intContent n) = some n := by
  have hv := toNatBE_natBytes n
  have hm := natBytes_minimal n
  unfold intContent
  cases hd : natBytes n with
  | nil =>
    rw [hd] at hv
    have : n = 0 := by rw [← hv]; rfl
    subst this
    simp [decIntContent]
  | cons x t =>
    rw [hd] at hv hm
    have hx : x ≠ 0 := (minimal_cons x t).mp hm
    by_cases h128 : 128 ≤ x.toNat
    · simp only [h128, ↓reduceIte]
      have hn : ¬ (x.toNat < 128) := by omega
      have h0 : ¬ (128 ≤ 0) := by omega
      simp only [decIntContent, UInt8.toNat_zero, h0, ↓reduceIte, hn, and_false,
        toNatBE_zero_cons, hv]
    · simp only [h128, ↓reduceIte]
      cases t with
      | nil =>
        rw [toNatBE_single] at hv
        subst hv
        simp only [decIntContent, h128, ↓reduceIte]
      | cons y t' =>
        simp only [decIntContent, h128, ↓reduceIte, hx, false_and, hv]

/-- canonicity of the INTEGER content -/
theorem intContent_decIntContent (c : Bytes) (n : Nat) (h : decIntContent c = some n) :
    intContent n = c := by
  match c, h with
  | [x], h =>
    simp only [decIntContent] at h
    by_cases h128 : 128 ≤ x.toNat
    · simp [h128] at h
    · simp only [h128, ↓reduceIte, Option.some.injEq] at h
      subst h
      unfold intContent
      by_cases hx : x = 0
      · subst hx
        simp [natBytes_zero]
      · rw [natBytes_single x hx]
        simp only [h128, ↓reduceIte]
  | x :: y :: t, h =>
    simp only [decIntContent] at h
    by_cases h128 : 128 ≤ x.toNat
    · simp [h128] at h
    · simp only [h128, ↓reduceIte] at h
      by_cases hs : x = 0 ∧ y.toNat < 128
      · simp [hs] at h
      · simp only [hs, ↓reduceIte, Option.some.injEq] at h
        subst h
        unfold intContent
        by_cases hx : x = 0
        · subst hx
          have hy : 128 ≤ y.toNat := by
            have : ¬ y.toNat < 128 := fun hh => hs ⟨rfl, hh⟩
            omega
          have hy0 : y ≠ 0 := by
            intro h0; subst h0; simp at hy
          rw [toNatBE_zero_cons, natBytes_toNatBE (y :: t) ((minimal_cons y t).mpr hy0)]
          simp only [hy, ↓reduceIte]
        · rw [natBytes_toNatBE (x :: y :: t) ((minimal_cons x _).mpr hx)]
          simp only [h128, ↓reduceIte]

/-- the first content octet of an encoded INTEGER has its top bit clear (non-negative) -/
theorem intContent_head (n : Nat) : ∃ x t, intContent n = x :: t ∧ x.toNat < 128 := by
  unfold intContent
  cases natBytes n with
  | nil => exact ⟨0, [], rfl, by simp⟩
  | cons x t =>
    by_cases h128 : 128 ≤ x.toNat
    · simp only [h128, ↓reduceIte]; exact ⟨0, x :: t, rfl, by simp⟩
    · simp only [h128, ↓reduceIte]; exact ⟨x, t, rfl, by omega⟩

/-- a superfluous leading zero octet in front of ANY canonical INTEGER content is rejected -/
theorem decIntContent_leading_zero (n : Nat) : decIntContent (0 :: intContent n) = none := by
  obtain ⟨x, t, he, hx⟩ := intContent_head n
  rw [he]
  simp [decIntContent, hx]

/-- contents with the top bit set (negative numbers, e.g. a missing `00`) are rejected -/
theorem decIntContent_negative (x : UInt8) (t : Bytes) (hx : 128 ≤ x.toNat) :
    decIntContent (x :: t) = none := by
  cases t <;> simp [decIntContent, hx]

theorem decIntContent_empty : decIntContent [] = none := rfl

theorem intContent_inj (a b : Nat) (h : intContent a = intContent b) : a = b := by
  have := decIntContent_intContent a
  rw [h, decIntContent_intContent] at this
  exact (Option.some.inj this).symm

theorem intContent_length_le (k n : Nat) (h : n < 256 ^ k) : (intContent n).length ≤ k + 1 := by
  have := natBytes_length_le k n h
  unfold intContent
  cases hd : natBytes n with
  | nil => simp
  | cons x t =>
    rw [hd] at this
    by_cases h128 : 128 ≤ x.toNat
    · simp only [h128, ↓reduceIte]; simpa using this
    · simp only [h128, ↓reduceIte]; simp at this ⊢; omega

/-! ### length octets -/

/-- lengths expressible in X.690 length octets (`0x80 + k`, `k ≤ 126`) -/
def LenOk (n : Nat) : Prop := n < 256 ^ 126

theorem decLen_encLen (n : Nat) (t : Bytes) (h : LenOk n) : decLen (encLen n ++ t) = some (n, t) := by
  unfold encLen
  by_cases hn : n < 128
  · simp only [hn, ↓reduceIte, List.cons_append, List.nil_append, decLen]
    rw [toNat_ofNat_lt n (by omega)]
    simp only [hn, ↓reduceIte]
  · simp only [hn, ↓reduceIte, List.cons_append, decLen]
    have hk1 := natBytes_length_pos n (by omega)
    have hk2 := natBytes_length_le 126 n h
    have hm := natBytes_minimal n
    have hv := toNatBE_natBytes n
    generalize natBytes n = d at *
    rw [toNat_ofNat_lt _ (by omega)]
    have e1 : ¬ (128 + d.length < 128) := by omega
    have e2 : 128 + d.length - 128 = d.length := by omega
    have e3 : ¬ (d.length = 0) := by omega
    have e4 : ¬ (126 < d.length) := by omega
    have e5 : ¬ ((d ++ t).length < d.length) := by simp
    have e6 : (d ++ t).take d.length = d := List.take_left' rfl
    have e7 : (d ++ t).drop d.length = t := List.drop_left' rfl
    have e8 : ¬ (d.head? = some 0) := hm
    simp only [e1, e2, e3, e4, e5, e6, e7, e8, hv, hn, ↓reduceIte]

theorem encLen_decLen (b : Bytes) (n : Nat) (t : Bytes) (h : decLen b = some (n, t)) :
    b = encLen n ++ t := by
  cases b with
  | nil => simp [decLen] at h
  | cons l0 rest =>
    simp only [decLen] at h
    by_cases h0 : l0.toNat < 128
    · simp only [h0, ↓reduceIte, Option.some.injEq, Prod.mk.injEq] at h
      obtain ⟨h1, h2⟩ := h
      subst h1 h2
      simp only [encLen, h0, ↓reduceIte, UInt8.ofNat_toNat, List.cons_append, List.nil_append]
    · simp only [h0, ↓reduceIte] at h
      by_cases e3 : l0.toNat - 128 = 0
      · simp [e3] at h
      · by_cases e4 : 126 < l0.toNat - 128
        · simp [e3, e4] at h
        · by_cases e5 : rest.length < l0.toNat - 128
          · simp [e3, e4, e5] at h
          · by_cases e8 : (rest.take (l0.toNat - 128)).head? = some 0
            · simp [e3, e4, e5, e8] at h
            · by_cases e9 : toNatBE (rest.take (l0.toNat - 128)) < 128
              · simp [e3, e4, e5, e8, e9] at h
              · simp only [e3, e4, e5, e8, e9, ↓reduceIte, Option.some.injEq, Prod.mk.injEq] at h
                obtain ⟨h1, h2⟩ := h
                subst h1 h2
                have hd := natBytes_toNatBE _ e8
                have hlen : (rest.take (l0.toNat - 128)).length = l0.toNat - 128 := by
                  rw [List.length_take]; omega
                simp only [encLen, e9, ↓reduceIte, hd, hlen, List.cons_append,
                  List.take_append_drop]
                have : 128 + (l0.toNat - 128) = l0.toNat := by omega
                rw [this, UInt8.ofNat_toNat]

theorem decLen_append (b : Bytes) (n : Nat) (t u : Bytes) (h : decLen b = some (n, t)) :
    decLen (b ++ u) = some (n, t ++ u) := by
  have hb := encLen_decLen b n t h
  -- the accepted length is below 256^126
  cases b with
  | nil => simp [decLen] at h
  | cons l0 rest =>
    simp only [decLen] at h
    simp only [List.cons_append, decLen]
    by_cases h0 : l0.toNat < 128
    · simp only [h0, ↓reduceIte, Option.some.injEq, Prod.mk.injEq] at h ⊢
      exact ⟨h.1, by rw [h.2]⟩
    · simp only [h0, ↓reduceIte] at h ⊢
      by_cases e3 : l0.toNat - 128 = 0
      · simp [e3] at h
      · by_cases e4 : 126 < l0.toNat - 128
        · simp [e3, e4] at h
        · by_cases e5 : rest.length < l0.toNat - 128
          · simp [e3, e4, e5] at h
          · have e5' : ¬ ((rest ++ u).length < l0.toNat - 128) := by
              simp only [List.length_append]; omega
            have ht : (rest ++ u).take (l0.toNat - 128) = rest.take (l0.toNat - 128) :=
              List.take_append_of_le_length (by omega)
            have hdr : (rest ++ u).drop (l0.toNat - 128) = rest.drop (l0.toNat - 128) ++ u :=
              List.drop_append_of_le_length (by omega)
            simp only [e3, e4, e5, e5', ht, hdr, ↓reduceIte] at h ⊢
            by_cases e8 : (rest.take (l0.toNat - 128)).head? = some 0
            · simp [e8] at h
            · by_cases e9 : toNatBE (rest.take (l0.toNat - 128)) < 128
              · simp [e8, e9] at h
              · simp only [e8, e9, ↓reduceIte, Option.some.injEq, Prod.mk.injEq] at h ⊢
                exact ⟨h.1, by rw [h.2]⟩

/-! ### TLV -/

theorem decTlv_encTlv (tag : UInt8) (c t : Bytes) (h : LenOk c.length) :
    decTlv tag (encTlv tag c ++ t) = some (c, t) := by
  unfold encTlv
  simp only [List.cons_append, List.append_assoc, decTlv, ↓reduceIte]
  rw [decLen_encLen _ _ h]
  have e1 : c.length ≤ (c ++ t).length := by simp
  have e2 : (c ++ t).take c.length = c := List.take_left' rfl
  have e3 : (c ++ t).drop c.length = t := List.drop_left' rfl
  simp only [e1, e2, e3, ↓reduceIte]

theorem encTlv_decTlv (tag : UInt8) (b c t : Bytes) (h : decTlv tag b = some (c, t)) :
    b = encTlv tag c ++ t := by
  cases b with
  | nil => simp [decTlv] at h
  | cons x b' =>
    simp only [decTlv] at h
    by_cases hx : x = tag
    · subst hx
      simp only [↓reduceIte] at h
      cases hd : decLen b' with
      | none => simp [hd] at h
      | some p =>
        obtain ⟨len, rest⟩ := p
        simp only [hd] at h
        by_cases hl : len ≤ rest.length
        · simp only [hl, ↓reduceIte, Option.some.injEq, Prod.mk.injEq] at h
          obtain ⟨h1, h2⟩ := h
          subst h1 h2
          have := encLen_decLen b' len rest hd
          have hlen : (rest.take len).length = len := by rw [List.length_take]; omega
          simp only [encTlv, hlen, List.cons_append, List.append_assoc, List.take_append_drop]
          rw [this]
        · simp [hl] at h
    · simp [hx] at h

theorem decTlv_append (tag : UInt8) (b c t u : Bytes) (h : decTlv tag b = some (c, t)) :
    decTlv tag (b ++ u) = some (c, t ++ u) := by
  cases b with
  | nil => simp [decTlv] at h
  | cons x b' =>
    simp only [decTlv] at h
    simp only [List.cons_append, decTlv]
    by_cases hx : x = tag
    · simp only [hx, ↓reduceIte] at h ⊢
      cases hd : decLen b' with
      | none => simp [hd] at h
      | some p =>
        obtain ⟨len, rest⟩ := p
        simp only [hd] at h
        rw [decLen_append b' len rest u hd]
        by_cases hl : len ≤ rest.length
        · have hl' : len ≤ (rest ++ u).length := by simp only [List.length_append]; omega
          simp only [hl, hl', ↓reduceIte, Option.some.injEq, Prod.mk.injEq] at h ⊢
          rw [List.take_append_of_le_length hl, List.drop_append_of_le_length hl, h.1, h.2]
          exact ⟨rfl, rfl⟩
        · simp [hl] at h
    · simp [hx] at h

/-- a wrong tag octet is rejected -/
theorem decTlv_wrong_tag (tag x : UInt8) (b : Bytes) (h : x ≠ tag) : decTlv tag (x :: b) = none := by
  simp [decTlv, h]

/-! ### INTEGER -/

theorem decInt_encInt (n : Nat) (t : Bytes) (h : LenOk (intContent n).length) :
    decInt (encInt n ++ t) = some (n, t) := by
  unfold decInt encInt
  rw [decTlv_encTlv _ _ _ h]
  simp only [decIntContent_intContent]

theorem encInt_decInt (b : Bytes) (n : Nat) (t : Bytes) (h : decInt b = some (n, t)) :
    b = encInt n ++ t := by
  unfold decInt at h
  cases hd : decTlv 0x02 b with
  | none => simp [hd] at h
  | some p =>
    obtain ⟨c, rest⟩ := p
    simp only [hd] at h
    cases hc : decIntContent c with
    | none => simp [hc] at h
    | some m =>
      simp only [hc, Option.some.injEq, Prod.mk.injEq] at h
      obtain ⟨h1, h2⟩ := h
      subst h1 h2
      rw [encTlv_decTlv _ _ _ _ hd, encInt, intContent_decIntContent c m hc]

theorem natBytes_length_mono (n m : Nat) (h : n ≤ m) :
    (natBytes n).length ≤ (natBytes m).length := by
  induction m using Nat.strongRecOn generalizing n with
  | _ m ih =>
    by_cases hn : n = 0
    · subst hn; rw [natBytes_zero]; simp
    · have hm : m ≠ 0 := by omega
      rw [natBytes_pos n hn, natBytes_pos m hm]
      have := ih (m / 256) (by omega) (n / 256) (Nat.div_le_div_right h)
      simp only [List.length_append, List.length_cons, List.length_nil]
      omega

theorem encLen_length_mono (n m : Nat) (h : n ≤ m) : (encLen n).length ≤ (encLen m).length := by
  have := natBytes_length_mono n m h
  unfold encLen
  by_cases hn : n < 128 <;> by_cases hm : m < 128 <;>
    simp only [hn, hm, ↓reduceIte, List.length_cons, List.length_nil] <;> omega

/-- TLV encoding is injective in the content (no bound needed) -/
theorem encTlv_inj (tag : UInt8) (c c' : Bytes) (h : encTlv tag c = encTlv tag c') : c = c' := by
  unfold encTlv at h
  have h1 := List.tail_eq_of_cons_eq h
  have hl := congrArg List.length h1
  simp only [List.length_append] at hl
  have hlen : c.length = c'.length := by
    rcases Nat.lt_trichotomy c.length c'.length with hlt | heq | hgt
    · have := encLen_length_mono c.length c'.length (by omega); omega
    · exact heq
    · have := encLen_length_mono c'.length c.length (by omega); omega
  rw [hlen] at h1
  exact List.append_cancel_left h1

/-- `encInt` is injective on all naturals -/
theorem encInt_inj (a b : Nat) (h : encInt a = encInt b) : a = b :=
  intContent_inj a b (encTlv_inj _ _ _ h)

/-! ### lengths accepted by the decoder are expressible -/

theorem toNatBE_lt (d : Bytes) : toNatBE d < 256 ^ d.length := by
  induction hl : d.length generalizing d with
  | zero =>
    have : d = [] := List.eq_nil_of_length_eq_zero hl
    subst this; simp [toNatBE]
  | succ k ih =>
    rcases List.eq_nil_or_concat d with h | ⟨d', x, h⟩
    · subst h; simp at hl
    · rw [List.concat_eq_append] at h
      subst h
      have hl' : d'.length = k := by simpa using hl
      have := ih d' hl'
      have hx := x.toNat_lt
      rw [toNatBE_append_singleton, Nat.pow_succ]
      generalize toNatBE d' = a at *
      generalize 256 ^ k = P at *
      omega

theorem lenOk_of_decLen (b : Bytes) (n : Nat) (t : Bytes) (h : decLen b = some (n, t)) : LenOk n := by
  cases b with
  | nil => simp [decLen] at h
  | cons l0 rest =>
    simp only [decLen] at h
    by_cases h0 : l0.toNat < 128
    · simp only [h0, ↓reduceIte, Option.some.injEq, Prod.mk.injEq] at h
      obtain ⟨h1, _⟩ := h
      subst h1
      have : 256 ^ 1 ≤ 256 ^ 126 := Nat.pow_le_pow_right (by omega) (by omega)
      unfold LenOk
      omega
    · simp only [h0, ↓reduceIte] at h
      by_cases e3 : l0.toNat - 128 = 0
      · simp [e3] at h
      · by_cases e4 : 126 < l0.toNat - 128
        · simp [e3, e4] at h
        · by_cases e5 : rest.length < l0.toNat - 128
          · simp [e3, e4, e5] at h
          · by_cases e8 : (rest.take (l0.toNat - 128)).head? = some 0
            · simp [e3, e4, e5, e8] at h
            · by_cases e9 : toNatBE (rest.take (l0.toNat - 128)) < 128
              · simp [e3, e4, e5, e8, e9] at h
              · simp only [e3, e4, e5, e8, e9, ↓reduceIte, Option.some.injEq, Prod.mk.injEq] at h
                obtain ⟨h1, _⟩ := h
                subst h1
                have hlt := toNatBE_lt (rest.take (l0.toNat - 128))
                have hlen : (rest.take (l0.toNat - 128)).length ≤ 126 := by
                  rw [List.length_take]; omega
                have := Nat.pow_le_pow_right (n := 256) (by omega) hlen
                unfold LenOk
                omega

theorem lenOk_of_decTlv (tag : UInt8) (b c t : Bytes) (h : decTlv tag b = some (c, t)) :
    LenOk c.length := by
  cases b with
  | nil => simp [decTlv] at h
  | cons x b' =>
    simp only [decTlv] at h
    by_cases hx : x = tag
    · simp only [hx, ↓reduceIte] at h
      cases hd : decLen b' with
      | none => simp [hd] at h
      | some p =>
        obtain ⟨len, rest⟩ := p
        simp only [hd] at h
        by_cases hl : len ≤ rest.length
        · simp only [hl, ↓reduceIte, Option.some.injEq, Prod.mk.injEq] at h
          obtain ⟨h1, _⟩ := h
          subst h1
          have := lenOk_of_decLen b' len rest hd
          have hlen : (rest.take len).length = len := by rw [List.length_take]; omega
          rw [hlen]; exact this
        · simp [hl] at h
    · simp [hx] at h

/-! ### the signature -/

/-- the three lengths occurring in `encSig r s` are expressible in X.690 length octets -/
def SigOk (r s : Nat) : Prop :=
  LenOk (intContent r).length ∧ LenOk (intContent s).length ∧
    LenOk ((encInt r).length + (encInt s).length)

/-- **round trip** -/
theorem decSig_encSig (r s : Nat) (h : SigOk r s) : decSig (encSig r s) = some (r, s) := by
  obtain ⟨hr, hs, hrs⟩ := h
  have h1 := decTlv_encTlv 0x30 (encInt r ++ encInt s) [] (by simpa using hrs)
  have h2 := decInt_encInt r (encInt s) hr
  have h3 := decInt_encInt s [] hs
  rw [List.append_nil] at h1 h3
  unfold decSig encSig
  simp only [h1, h2, h3]

/-- **canonicity**: the only byte string decoding to `(r, s)` is `encSig r s` -/
theorem encSig_decSig (b : Bytes) (r s : Nat) (h : decSig b = some (r, s)) : encSig r s = b := by
  unfold decSig at h
  split at h
  · rename_i body h1
    split at h
    · cases h
    · rename_i r' b1 h2
      split at h
      · rename_i s' h3
        simp only [Option.some.injEq, Prod.mk.injEq] at h
        obtain ⟨e1, e2⟩ := h
        subst e1 e2
        have a1 := encTlv_decTlv _ _ _ _ h1
        have a2 := encInt_decInt _ _ _ h2
        have a3 := encInt_decInt _ _ _ h3
        rw [List.append_nil] at a1 a3
        rw [a1, a2, a3, encSig]
      · cases h
  · cases h

theorem sigOk_of_decSig (b : Bytes) (r s : Nat) (h : decSig b = some (r, s)) : SigOk r s := by
  unfold decSig at h
  split at h
  · rename_i body h1
    split at h
    · cases h
    · rename_i r' b1 h2
      split at h
      · rename_i s' h3
        simp only [Option.some.injEq, Prod.mk.injEq] at h
        obtain ⟨e1, e2⟩ := h
        subst e1 e2
        have l1 := lenOk_of_decTlv _ _ _ _ h1
        have a2 := encInt_decInt _ _ _ h2
        have a3 := encInt_decInt _ _ _ h3
        rw [List.append_nil] at a3
        rw [a2, a3, List.length_append] at l1
        refine ⟨?_, ?_, l1⟩
        · unfold decInt at h2
          cases hd : decTlv 0x02 body with
          | none => simp [hd] at h2
          | some p =>
            obtain ⟨c, rest⟩ := p
            simp only [hd] at h2
            cases hc : decIntContent c with
            | none => simp [hc] at h2
            | some m =>
              simp only [hc, Option.some.injEq, Prod.mk.injEq] at h2
              rw [← h2.1, intContent_decIntContent c m hc]
              exact lenOk_of_decTlv _ _ _ _ hd
        · unfold decInt at h3
          cases hd : decTlv 0x02 b1 with
          | none => simp [hd] at h3
          | some p =>
            obtain ⟨c, rest⟩ := p
            simp only [hd] at h3
            cases hc : decIntContent c with
            | none => simp [hc] at h3
            | some m =>
              simp only [hc, Option.some.injEq, Prod.mk.injEq] at h3
              rw [← h3.1, intContent_decIntContent c m hc]
              exact lenOk_of_decTlv _ _ _ _ hd
      · cases h
  · cases h

/-- **exact characterisation of the accepted language**: the decoder accepts precisely the
    canonical encodings (of pairs whose lengths X.690 can express) -/
theorem decSig_eq_some_iff (b : Bytes) (r s : Nat) :
    decSig b = some (r, s) ↔ b = encSig r s ∧ SigOk r s := by
  constructor
  · intro h
    exact ⟨(encSig_decSig b r s h).symm, sigOk_of_decSig b r s h⟩
  · rintro ⟨rfl, h⟩
    exact decSig_encSig r s h

/-- `encSig` is injective (on expressible pairs) -/
theorem encSig_inj (r s r' s' : Nat) (h : SigOk r s) (h' : SigOk r' s')
    (e : encSig r s = encSig r' s') : r = r' ∧ s = s' := by
  have h1 := decSig_encSig r s h
  have h2 := decSig_encSig r' s' h'
  rw [e, h2] at h1
  simpa using h1.symm

/-! ### rejected malformations -/

/-- **trailing data after the SEQUENCE**: no accepted string has an accepted proper extension -/
theorem decSig_append_none (b : Bytes) (p : Nat × Nat) (t : Bytes) (h : decSig b = some p)
    (ht : t ≠ []) : decSig (b ++ t) = none := by
  unfold decSig at h
  split at h
  · rename_i body h1
    have h1' := decTlv_append _ _ _ _ t h1
    rw [List.nil_append] at h1'
    unfold decSig
    rw [h1']
    cases t with
    | nil => exact absurd rfl ht
    | cons x u => rfl
  · cases h

theorem decSig_encSig_append (r s : Nat) (t : Bytes) (h : SigOk r s) (ht : t ≠ []) :
    decSig (encSig r s ++ t) = none :=
  decSig_append_none _ _ t (decSig_encSig r s h) ht

/-- **truncation**: no accepted string has an accepted proper prefix -/
theorem decSig_take_none (b : Bytes) (p : Nat × Nat) (k : Nat) (h : decSig b = some p)
    (hk : k < b.length) : decSig (b.take k) = none := by
  cases hd : decSig (b.take k) with
  | none => rfl
  | some q =>
    have hne : b.drop k ≠ [] := by
      intro h0
      have := congrArg List.length h0
      simp only [List.length_drop, List.length_nil] at this
      omega
    have := decSig_append_none _ q _ hd hne
    rw [List.take_append_drop, h] at this
    cases this

/-- **trailing data inside the SEQUENCE** (after the second INTEGER) -/
theorem decSig_trailing_inside (r s : Nat) (t : Bytes) (ht : t ≠ [])
    (hr : LenOk (intContent r).length) (hs : LenOk (intContent s).length)
    (hl : LenOk (encInt r ++ encInt s ++ t).length) :
    decSig (encTlv 0x30 (encInt r ++ encInt s ++ t)) = none := by
  have h1 := decTlv_encTlv 0x30 (encInt r ++ encInt s ++ t) [] hl
  have h2 := decInt_encInt r (encInt s ++ t) hr
  have h3 := decInt_encInt s t hs
  rw [List.append_nil] at h1
  rw [← List.append_assoc] at h2
  unfold decSig
  simp only [h1, h2, h3]
  cases t with
  | nil => exact absurd rfl ht
  | cons x u => rfl

/-- if the first element of the SEQUENCE body does not parse as a canonical INTEGER, reject -/
theorem decSig_none_of_first (b body rest : Bytes) (h1 : decTlv 0x30 b = some (body, rest))
    (h2 : decInt body = none) : decSig b = none := by
  unfold decSig
  rw [h1]
  cases rest with
  | nil => simp only [h2]
  | cons x u => rfl

/-- if the second element of the SEQUENCE body does not parse as a canonical INTEGER, reject -/
theorem decSig_none_of_second (b body rest b1 : Bytes) (r : Nat)
    (h1 : decTlv 0x30 b = some (body, rest)) (h2 : decInt body = some (r, b1))
    (h3 : decInt b1 = none) : decSig b = none := by
  unfold decSig
  rw [h1]
  cases rest with
  | nil => simp only [h2, h3]
  | cons x u => rfl

/-- an INTEGER TLV whose content is a canonical content with one more leading `00` is rejected -/
theorem decInt_leading_zero (n : Nat) (t : Bytes) (h : LenOk (0 :: intContent n).length) :
    decInt (encTlv 0x02 (0 :: intContent n) ++ t) = none := by
  unfold decInt
  rw [decTlv_encTlv _ _ _ h]
  simp only [decIntContent_leading_zero]

/-- an INTEGER TLV whose first content octet has the top bit set (negative) is rejected -/
theorem decInt_negative (x : UInt8) (c t : Bytes) (hx : 128 ≤ x.toNat) (h : LenOk (x :: c).length) :
    decInt (encTlv 0x02 (x :: c) ++ t) = none := by
  unfold decInt
  rw [decTlv_encTlv _ _ _ h]
  simp only [decIntContent_negative x c hx]

/-- an INTEGER TLV with empty content is rejected -/
theorem decInt_empty (t : Bytes) : decInt (encTlv 0x02 [] ++ t) = none := by
  unfold decInt
  rw [decTlv_encTlv _ _ _ (by unfold LenOk; exact Nat.pow_pos (by omega))]
  simp only [decIntContent_empty]

/-- **superfluous leading zero in `r`** -/
theorem decSig_leading_zero_r (r s : Nat) (hr : LenOk (0 :: intContent r).length)
    (hl : LenOk (encTlv 0x02 (0 :: intContent r) ++ encInt s).length) :
    decSig (encTlv 0x30 (encTlv 0x02 (0 :: intContent r) ++ encInt s)) = none := by
  have h1 := decTlv_encTlv 0x30 _ [] hl
  rw [List.append_nil] at h1
  exact decSig_none_of_first _ _ _ h1 (decInt_leading_zero r _ hr)

/-- **superfluous leading zero in `s`** -/
theorem decSig_leading_zero_s (r s : Nat) (hr : LenOk (intContent r).length)
    (hs : LenOk (0 :: intContent s).length)
    (hl : LenOk (encInt r ++ encTlv 0x02 (0 :: intContent s)).length) :
    decSig (encTlv 0x30 (encInt r ++ encTlv 0x02 (0 :: intContent s))) = none := by
  have h1 := decTlv_encTlv 0x30 _ [] hl
  rw [List.append_nil] at h1
  have h3 := decInt_leading_zero s [] hs
  rw [List.append_nil] at h3
  exact decSig_none_of_second _ _ _ _ r h1 (decInt_encInt r _ hr) h3

/-- a wrong outer tag (anything but `0x30`) is rejected -/
theorem decSig_wrong_tag (x : UInt8) (b : Bytes) (h : x ≠ 0x30) : decSig (x :: b) = none := by
  unfold decSig
  rw [decTlv_wrong_tag _ _ _ h]

/-- the empty string is rejected -/
theorem decSig_nil : decSig [] = none := rfl

/-- **non-minimal length octets**: a long-form length (`0x80 + k`) whose value is below 128, or
    whose first octet is zero, is rejected; so are the indefinite form `0x80` and `0xff` -/
theorem decLen_long_form_small (k : UInt8) (rest : Bytes) (hk : 128 ≤ k.toNat)
    (h : toNatBE (rest.take (k.toNat - 128)) < 128) : decLen (k :: rest) = none := by
  simp only [decLen]
  have : ¬ k.toNat < 128 := by omega
  simp only [this, h, ↓reduceIte]
  repeat' split
  all_goals rfl

theorem decLen_leading_zero (k : UInt8) (rest : Bytes) (hk : 128 ≤ k.toNat)
    (h : (rest.take (k.toNat - 128)).head? = some 0) : decLen (k :: rest) = none := by
  simp only [decLen]
  have : ¬ k.toNat < 128 := by omega
  simp only [this, h, ↓reduceIte]
  repeat' split
  all_goals rfl

theorem decLen_indefinite (rest : Bytes) : decLen (0x80 :: rest) = none := by
  simp [decLen]

theorem decLen_reserved (rest : Bytes) : decLen (0xff :: rest) = none := by
  simp [decLen]

/-- uniqueness of length octets: two accepted length prefixes of the same value are equal -/
theorem decLen_unique (b b' : Bytes) (n : Nat) (t : Bytes) (h : decLen b = some (n, t))
    (h' : decLen b' = some (n, t)) : b = b' := by
  rw [encLen_decLen b n t h, encLen_decLen b' n t h']

/-! ### discharging the bound -/

theorem encLen_length_le (n : Nat) (h : LenOk n) : (encLen n).length ≤ 127 := by
  have := natBytes_length_le 126 n h
  unfold encLen
  by_cases hn : n < 128 <;> simp only [hn, ↓reduceIte, List.length_cons, List.length_nil] <;> omega

theorem pow125_facts : 256 ≤ 256 ^ 125 ∧ 256 ^ 126 = 256 ^ 125 * 256 := by
  refine ⟨?_, by rw [← Nat.pow_succ]⟩
  have : 256 ^ 1 ≤ 256 ^ 125 := Nat.pow_le_pow_right (by omega) (by omega)
  rwa [Nat.pow_one] at this

theorem sigOk_of_lt (N r s : Nat) (hN : N < 256 ^ 125) (hr : r < 256 ^ N) (hs : s < 256 ^ N) :
    SigOk r s := by
  have lr := intContent_length_le N r hr
  have ls := intContent_length_le N s hs
  obtain ⟨p1, p2⟩ := pow125_facts
  have okr : LenOk (intContent r).length := by unfold LenOk; omega
  have oks : LenOk (intContent s).length := by unfold LenOk; omega
  have er := encLen_length_le _ okr
  have es := encLen_length_le _ oks
  refine ⟨okr, oks, ?_⟩
  unfold LenOk encInt encTlv
  simp only [List.length_cons, List.length_append]
  omega

/-- **round trip for all `r, s` below `256 ^ N`**, any `N < 256 ^ 125` -/
theorem decSig_encSig_of_lt (N r s : Nat) (hN : N < 256 ^ 125) (hr : r < 256 ^ N)
    (hs : s < 256 ^ N) : decSig (encSig r s) = some (r, s) :=
  decSig_encSig r s (sigOk_of_lt N r s hN hr hs)

/-- every ECDSA signature of the NIST curves (P-521 scalars are below `2 ^ 521 < 256 ^ 66`)
    round-trips -/
theorem decSig_encSig_p521 (r s : Nat) (hr : r < 256 ^ 66) (hs : s < 256 ^ 66) :
    decSig (encSig r s) = some (r, s) := by
  refine decSig_encSig_of_lt 66 r s ?_ hr hs
  have := pow125_facts.1
  omega

theorem decInt_encInt_of_lt (N n : Nat) (t : Bytes) (hN : N < 256 ^ 125) (hn : n < 256 ^ N) :
    decInt (encInt n ++ t) = some (n, t) :=
  decInt_encInt n t (sigOk_of_lt N n n hN hn hn).1

/-! ### hypotheses are satisfiable -/

example : SigOk 0 0 := sigOk_of_lt 1 0 0 (by have := pow125_facts.1; omega) (by omega) (by omega)
example : ∃ r s, SigOk r s ∧ decSig (encSig r s) = some (r, s) :=
  ⟨1, 2, sigOk_of_lt 1 1 2 (by have := pow125_facts.1; omega) (by omega) (by omega),
    decSig_encSig_of_lt 1 1 2 (by have := pow125_facts.1; omega) (by omega) (by omega)⟩
example : ∃ b p, decSig b = some p := ⟨encSig 5 7, (5, 7),
  decSig_encSig_of_lt 1 5 7 (by have := pow125_facts.1; omega) (by omega) (by omega)⟩
example : LenOk (0 :: intContent 1).length ∧ LenOk (encTlv 0x02 (0 :: intContent 1) ++ encInt 1).length := by
  have h := sigOk_of_lt 1 1 1 (by have := pow125_facts.1; omega) (by omega) (by omega)
  have l := intContent_length_le 1 1 (by omega)
  have e := encLen_length_le _ h.1
  obtain ⟨p1, p2⟩ := pow125_facts
  have e0 : LenOk (0 :: intContent 1).length := by
    unfold LenOk; simp only [List.length_cons]; omega
  have e1 := encLen_length_le _ e0
  refine ⟨e0, ?_⟩
  unfold LenOk encInt encTlv
  simp only [List.length_cons, List.length_append] at e1 ⊢
  omega
example : ∃ (k : UInt8) (rest : Bytes), 128 ≤ k.toNat ∧ toNatBE (rest.take (k.toNat - 128)) < 128 :=
  ⟨0x81, [0x7f], by decide, by decide⟩
example : ∃ (k : UInt8) (rest : Bytes), 128 ≤ k.toNat ∧ (rest.take (k.toNat - 128)).head? = some 0 :=
  ⟨0x82, [0x00, 0x80], by decide, by decide⟩

end TinkVerif.DerList

section AxiomAudit
open TinkVerif.DerList
#print axioms decSig_encSig
#print axioms encSig_decSig
#print axioms decSig_eq_some_iff
#print axioms sigOk_of_decSig
#print axioms encSig_inj
#print axioms decSig_append_none
#print axioms decSig_encSig_append
#print axioms decSig_take_none
#print axioms decSig_trailing_inside
#print axioms decSig_none_of_first
#print axioms decSig_none_of_second
#print axioms decSig_leading_zero_r
#print axioms decSig_leading_zero_s
#print axioms decSig_wrong_tag
#print axioms decSig_nil
#print axioms decInt_encInt
#print axioms encInt_decInt
#print axioms encInt_inj
#print axioms decInt_leading_zero
#print axioms decInt_negative
#print axioms decInt_empty
#print axioms decIntContent_intContent
#print axioms intContent_decIntContent
#print axioms decIntContent_leading_zero
#print axioms decIntContent_negative
#print axioms intContent_inj
#print axioms decLen_encLen
#print axioms encLen_decLen
#print axioms decLen_long_form_small
#print axioms decLen_leading_zero
#print axioms decLen_indefinite
#print axioms decLen_reserved
#print axioms decLen_unique
#print axioms decTlv_encTlv
#print axioms encTlv_decTlv
#print axioms encTlv_inj
#print axioms decTlv_wrong_tag
#print axioms toNatBE_natBytes
#print axioms natBytes_toNatBE
#print axioms sigOk_of_lt
#print axioms decSig_encSig_of_lt
#print axioms decSig_encSig_p521
#print axioms decInt_encInt_of_lt
end AxiomAudit
