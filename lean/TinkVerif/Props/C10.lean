import TinkVerif.Lemmas.MldsaScalar

/-!
# C10 — ML-DSA scalar arithmetic conforms to FIPS 204 for **every** field element

The definitions these theorems talk about are **regenerated** from
`/repo/internal/signature/mldsa/algebra.go` on every check run (translator
`go/harness/translator`, output `TinkVerif/Gen/MldsaAlgebra.lean`): Go's wrap-around arithmetic is
explicit (`% 2^32`, `% 2^64` after every operation) and `crypto/subtle` helpers carry their
preconditions as poison values, so a changed constant, operator, shift or mask in the Go code makes a
proof below fail. All statements quantify over all of Z_q (and both γ₂), not over samples.

The generated text is alpha-normalised (parameters `a0 a1 …` by position, auxiliary definitions
`fn.v<k>` in canonical data-flow order), so renaming Go locals/parameters, reordering independent
assignments, comments and panic texts do not affect these proofs. The comment in front of each
function in the generated file maps `v<k>` to the Go local; at the time of writing:
`power2Round.v1 v2` = m, r1; `decompose.v1 … v7` = s, r0, t, c, r0 (final), r1r, r1;
`highBits/lowBits.v1 v2` = the pair from `decompose`, its component; `makeHint.v1 v2` = v1, r1;
`useHint.v1 … v5` = m, t, the pair, r1, r0; `centeredAbs.v1` = c; `centeredMax.v1 v2 v3` = aa, ba, c.
-/
namespace TinkVerif.Gen.Mldsa
open TinkVerif

theorem add_spec (a b : Nat) (ha : a < 8380417) (hb : b < 8380417) : add a b = (a + b) % 8380417 := by
  unfold add
  have e := reduceOnce_spec ((a + b) % 4294967296) (by omega)
  simp only [e]
  by_cases h : (a + b) % 4294967296 ≥ 8380417
  · simp only [h, ↓reduceIte]; omega
  · simp only [h, ↓reduceIte]; omega

theorem sub_spec (a b : Nat) (ha : a < 8380417) (hb : b < 8380417) : sub a b = (a + 8380417 - b) % 8380417 := by
  unfold sub
  have e := reduceOnce_spec ((((a + 8380417) % 4294967296) + 4294967296 - b) % 4294967296) (by omega)
  simp only [e]
  by_cases h : (((a + 8380417) % 4294967296) + 4294967296 - b) % 4294967296 ≥ 8380417
  · simp only [h, ↓reduceIte]; omega
  · simp only [h, ↓reduceIte]; omega

theorem neg_spec (a : Nat) (ha : a < 8380417) : neg a = (8380417 - a) % 8380417 := by
  unfold neg
  have := sub_spec 0 a (by omega) ha
  simp only [this]

theorem add_lt (a b : Nat) (ha : a < 8380417) (hb : b < 8380417) : add a b < 8380417 := by
  rw [add_spec a b ha hb]; exact Nat.mod_lt _ (by omega)
theorem sub_lt (a b : Nat) (ha : a < 8380417) (hb : b < 8380417) : sub a b < 8380417 := by
  rw [sub_spec a b ha hb]; exact Nat.mod_lt _ (by omega)
theorem mul_lt (a b : Nat) (ha : a < 8380417) (hb : b < 8380417) : mul a b < 8380417 := by
  rw [mul_spec a b ha hb]; exact Nat.mod_lt _ (by omega)

/-! ### Power2Round (FIPS 204 Algorithm 35) -/

theorem shr13 (x : Nat) : x >>> 13 = x / 8192 := Nat.shiftRight_eq_div_pow x 13
theorem shl13 (x : Nat) : x <<< 13 = x * 8192 := Nat.shiftLeft_eq x 13
theorem shl1 (x : Nat) : x <<< 1 = x * 2 := Nat.shiftLeft_eq x 1

theorem p2r_arith (a : Nat) (ha : a < 8380417) :
    (((a + 4096) % 4294967296) + 4294967296 - 1) % 4294967296 / 8192 = (a + 4095) / 8192 ∧
    (a + 4095) / 8192 * 8192 % 4294967296 = (a + 4095) / 8192 * 8192 ∧ (a + 4095) / 8192 * 8192 < 8380417 := by
  omega

theorem power2Round_spec (a : Nat) (ha : a < 8380417) :
    power2Round a = ((a + 4095) / 8192, (a + 8380417 - (a + 4095) / 8192 * 8192) % 8380417) := by
  obtain ⟨e1, e2, e3⟩ := p2r_arith a ha
  unfold power2Round power2Round.v2 power2Round.v1
  simp only [shr13, shl13, e1, e2, sub_spec a _ ha e3]

/-- FIPS 204 Alg. 35 as a characterisation: `a ≡ r1·2^13 + r0 (mod q)` with `r0` in the encoding of
    the centered range (−2^12, 2^12]. -/
theorem power2Round_fips (a : Nat) (ha : a < 8380417) :
    let r := power2Round a
    (r.1 * 8192 + r.2) % 8380417 = a ∧ r.1 ≤ 1023 ∧ (r.2 ≤ 4096 ∨ 8380417 - 4095 ≤ r.2) ∧ r.2 < 8380417 := by
  rw [power2Round_spec a ha]
  simp only
  omega

/-! ### Decompose (FIPS 204 Algorithm 36), γ₂ ∈ {(q−1)/88, (q−1)/32} -/

theorem divBy2Gamma2_88 (x : Nat) (h : x < 8476000) : divBy2Gamma2 x 95232 = x / 190464 := by
  unfold divBy2Gamma2
  simp only [↓reduceIte, shr49]
  exact div88 x h

theorem divBy2Gamma2_32 (x : Nat) (h : x < 8650000) : divBy2Gamma2 x 261888 = x / 523776 := by
  unfold divBy2Gamma2
  simp only [show ((261888 : Nat) = 95232) = False by decide, ↓reduceIte, shr9, shr33]
  exact div32 x h


theorem toSigned_small (t : Nat) (h : t < 2147483648) : GoSem.toSigned 32 t = Int.ofNat t := by
  unfold GoSem.toSigned
  have h1 : t % 2 ^ 32 = t := Nat.mod_eq_of_lt (by omega)
  simp only [h1]
  rw [if_pos (by simpa using h)]

theorem ctEq_q1 (t : Nat) : GoSem.ctEq (Int.ofNat t) 8380416 = if t = 8380416 then 1 else 0 := by
  unfold GoSem.ctEq
  by_cases h : t = 8380416
  · simp [h]
  · have : ¬ (Int.ofNat t = 8380416) := by
      intro hh; apply h; have : (t : Int) = 8380416 := hh; omega
    simp only [h, this, ↓reduceIte]

theorem select1 (x y : Int) : GoSem.ctSelect 1 x y = x := by simp [GoSem.ctSelect]
theorem select0 (x y : Int) : GoSem.ctSelect 0 x y = y := by simp [GoSem.ctSelect]

theorem dec_arith88 (a : Nat) (ha : a < 8380417) :
    ((a + 95232) % 4294967296 + 4294967296 - 1) % 4294967296 = a + 95231 ∧
    (a + 95231) / 190464 * (95232 * 2 % 4294967296) % 4294967296 = (a + 95231) / 190464 * 190464 ∧
    (a + 95231) / 190464 * 190464 < 8380417 ∧
    (a + 8380417 - (a + 8380417 - (a + 95231) / 190464 * 190464) % 8380417) % 8380417 = (a + 95231) / 190464 * 190464 ∧
    (a + 95231) / 190464 * 190464 / 190464 = (a + 95231) / 190464 ∧
    ((a + 95231) / 190464 * 190464 = 8380416 ↔ (a + 95231) / 190464 = 44) ∧
    ((a + 95231) / 190464 = 44 → ((a + 8380417 - 44 * 190464) % 8380417 + 8380417 - 1) % 8380417 = a) ∧
    (a + 8380417 - (a + 95231) / 190464 * 190464) % 8380417 < 8380417 ∧
    (a + 95231) / 190464 < 4294967296 ∧ (a + 8380417 - (a + 95231) / 190464 * 190464) % 8380417 < 4294967296 ∧
    (a + 8380417 - 44 * 190464) % 8380417 < 8380417 ∧ a < 4294967296 := by
  omega

/-- **Decompose = FIPS 204 Alg. 36** for γ₂ = (q−1)/88, every field element. -/
theorem decompose_spec88 (a : Nat) (ha : a < 8380417) :
    decompose a 95232 =
      if (a + 95231) / 190464 = 44 then (0, a)
      else ((a + 95231) / 190464, (a + 8380417 - (a + 95231) / 190464 * 190464) % 8380417) := by
  obtain ⟨e1, e2, e3, e4, e5, e6, e7, e8, e9, e10, e11, e12⟩ := dec_arith88 a ha
  have hs : decompose.v1 a 95232 = (a + 95231) / 190464 := by
    unfold decompose.v1; simp only [e1]; exact divBy2Gamma2_88 _ (by omega)
  have hr0 : decompose.v2 a 95232 = (a + 8380417 - (a + 95231) / 190464 * 190464) % 8380417 := by
    unfold decompose.v2; simp only [hs, shl1, e2, sub_spec a _ ha e3]
  have ht : decompose.v3 a 95232 = (a + 95231) / 190464 * 190464 := by
    unfold decompose.v3; simp only [hr0, sub_spec a _ ha e8, e4]
  have hr1r : decompose.v6 a 95232 = (a + 95231) / 190464 := by
    unfold decompose.v6; simp only [ht]
    rw [divBy2Gamma2_88 _ (Nat.lt_trans e3 (by decide))]; exact e5
  have hc : decompose.v4 a 95232 = if (a + 95231) / 190464 = 44 then 1 else 0 := by
    unfold decompose.v4; simp only [ht]
    rw [toSigned_small _ (Nat.lt_trans e3 (by decide)), ctEq_q1]
    by_cases h : (a + 95231) / 190464 = 44
    · simp only [h, ↓reduceIte]
    · have : ¬ ((a + 95231) / 190464 * 190464 = 8380416) := fun hh => h (e6.mp hh)
      simp only [h, this, ↓reduceIte]
  unfold decompose decompose.v7 decompose.v5
  simp only [hc, hr1r, hr0]
  by_cases h : (a + 95231) / 190464 = 44
  · simp only [h, ↓reduceIte, select1]
    have hsub := sub_spec ((a + 8380417 - 44 * 190464) % 8380417) 1 e11 (by decide)
    have e7' := e7 h
    simp only [hsub, e7']
    rw [toUnsigned_ofNat _ e12]
    rfl
  · simp only [h, ↓reduceIte, select0]
    rw [toUnsigned_ofNat _ e9, toUnsigned_ofNat _ e10]

theorem dec_arith32 (a : Nat) (ha : a < 8380417) :
    ((a + 261888) % 4294967296 + 4294967296 - 1) % 4294967296 = a + 261887 ∧
    (a + 261887) / 523776 * (261888 * 2 % 4294967296) % 4294967296 = (a + 261887) / 523776 * 523776 ∧
    (a + 261887) / 523776 * 523776 < 8380417 ∧
    (a + 8380417 - (a + 8380417 - (a + 261887) / 523776 * 523776) % 8380417) % 8380417 = (a + 261887) / 523776 * 523776 ∧
    (a + 261887) / 523776 * 523776 / 523776 = (a + 261887) / 523776 ∧
    ((a + 261887) / 523776 * 523776 = 8380416 ↔ (a + 261887) / 523776 = 16) ∧
    ((a + 261887) / 523776 = 16 → ((a + 8380417 - 16 * 523776) % 8380417 + 8380417 - 1) % 8380417 = a) ∧
    (a + 8380417 - (a + 261887) / 523776 * 523776) % 8380417 < 8380417 ∧
    (a + 261887) / 523776 < 4294967296 ∧ (a + 8380417 - (a + 261887) / 523776 * 523776) % 8380417 < 4294967296 ∧
    (a + 8380417 - 16 * 523776) % 8380417 < 8380417 ∧ a < 4294967296 := by
  omega

/-- **Decompose = FIPS 204 Alg. 36** for γ₂ = (q−1)/32, every field element. -/
theorem decompose_spec32 (a : Nat) (ha : a < 8380417) :
    decompose a 261888 =
      if (a + 261887) / 523776 = 16 then (0, a)
      else ((a + 261887) / 523776, (a + 8380417 - (a + 261887) / 523776 * 523776) % 8380417) := by
  obtain ⟨e1, e2, e3, e4, e5, e6, e7, e8, e9, e10, e11, e12⟩ := dec_arith32 a ha
  have hs : decompose.v1 a 261888 = (a + 261887) / 523776 := by
    unfold decompose.v1; simp only [e1]; exact divBy2Gamma2_32 _ (by omega)
  have hr0 : decompose.v2 a 261888 = (a + 8380417 - (a + 261887) / 523776 * 523776) % 8380417 := by
    unfold decompose.v2; simp only [hs, shl1, e2, sub_spec a _ ha e3]
  have ht : decompose.v3 a 261888 = (a + 261887) / 523776 * 523776 := by
    unfold decompose.v3; simp only [hr0, sub_spec a _ ha e8, e4]
  have hr1r : decompose.v6 a 261888 = (a + 261887) / 523776 := by
    unfold decompose.v6; simp only [ht]
    rw [divBy2Gamma2_32 _ (Nat.lt_trans e3 (by decide))]; exact e5
  have hc : decompose.v4 a 261888 = if (a + 261887) / 523776 = 16 then 1 else 0 := by
    unfold decompose.v4; simp only [ht]
    rw [toSigned_small _ (Nat.lt_trans e3 (by decide)), ctEq_q1]
    by_cases h : (a + 261887) / 523776 = 16
    · simp only [h, ↓reduceIte]
    · have : ¬ ((a + 261887) / 523776 * 523776 = 8380416) := fun hh => h (e6.mp hh)
      simp only [h, this, ↓reduceIte]
  unfold decompose decompose.v7 decompose.v5
  simp only [hc, hr1r, hr0]
  by_cases h : (a + 261887) / 523776 = 16
  · simp only [h, ↓reduceIte, select1]
    have hsub := sub_spec ((a + 8380417 - 16 * 523776) % 8380417) 1 e11 (by decide)
    have e7' := e7 h
    simp only [hsub, e7']
    rw [toUnsigned_ofNat _ e12]
    rfl
  · simp only [h, ↓reduceIte, select0]
    rw [toUnsigned_ofNat _ e9, toUnsigned_ofNat _ e10]


/-- FIPS 204 Alg. 36 as a characterisation (both γ₂): `a ≡ r1·2γ₂ + r0 (mod q)`, `r0` encodes a value
    in (−γ₂, γ₂] except in the corner `a − r0 = q − 1` where `r1 = 0` and `r0` is lowered by one;
    `r1 < (q−1)/(2γ₂)`. -/
theorem decompose_fips88 (a : Nat) (ha : a < 8380417) :
    let r := decompose a 95232
    r.1 < 44 ∧ r.2 < 8380417 ∧ (r.1 * 190464 + r.2) % 8380417 = a ∧ (r.2 ≤ 95232 ∨ 8380417 - 95232 ≤ r.2) := by
  rw [decompose_spec88 a ha]
  by_cases h : (a + 95231) / 190464 = 44
  · simp only [h, ↓reduceIte]; omega
  · simp only [h, ↓reduceIte]; omega

theorem decompose_fips32 (a : Nat) (ha : a < 8380417) :
    let r := decompose a 261888
    r.1 < 16 ∧ r.2 < 8380417 ∧ (r.1 * 523776 + r.2) % 8380417 = a ∧ (r.2 ≤ 261888 ∨ 8380417 - 261888 ≤ r.2) := by
  rw [decompose_spec32 a ha]
  by_cases h : (a + 261887) / 523776 = 16
  · simp only [h, ↓reduceIte]; omega
  · simp only [h, ↓reduceIte]; omega

/-! ### HighBits / LowBits / UseHint (Alg. 37, 38, 40) -/

theorem highBits_eq (a g : Nat) : highBits a g = (decompose a g).1 := by
  unfold highBits highBits.v2 highBits.v1; rfl
theorem lowBits_eq (a g : Nat) : lowBits a g = (decompose a g).2 := by
  unfold lowBits lowBits.v2 lowBits.v1; rfl

theorem neg_gamma88 : neg 95232 = 8285185 := by rw [neg_spec _ (by decide)]
theorem neg_gamma32 : neg 261888 = 8118529 := by rw [neg_spec _ (by decide)]

/-- **UseHint = FIPS 204 Alg. 40**: with `m = (q−1)/(2γ₂)`, hint 1 moves `r1` by ±1 modulo `m`
    according to the sign of `r0` (positive: encoding in (0, q−γ₂)); hint ≠ 1 returns `r1`. -/
theorem useHint_spec88 (a h : Nat) (ha : a < 8380417) :
    useHint a 95232 h =
      if h = 1 then
        (if 0 < (decompose a 95232).2 ∧ (decompose a 95232).2 < 8285185 then ((decompose a 95232).1 + 1) % 44
         else ((decompose a 95232).1 + 43) % 44)
      else (decompose a 95232).1 := by
  obtain ⟨f1, f2, f3, f4⟩ := decompose_fips88 a ha
  clear f3 f4
  unfold useHint useHint.v4 useHint.v5 useHint.v1 useHint.v2 useHint.v3
  have hm : (8380416 / (95232 * 2 % 4294967296) + 4294967296 - 1) % 4294967296 = 43 := by decide
  simp only [neg_gamma88, shl1, hm]
  generalize (decompose a 95232).1 = r1 at f1 ⊢
  generalize (decompose a 95232).2 = r0 at f2 ⊢
  have hadd := add_spec r1 1 (by omega) (by decide)
  have hsub := sub_spec r1 1 (by omega) (by decide)
  by_cases hh : h = 1
  · simp only [hh, ↓reduceIte, hadd, hsub, gt_iff_lt]
    by_cases hp : 0 < r0 ∧ r0 < 8285185
    · simp only [hp, and_self, ↓reduceIte]
      by_cases h1 : r1 = 43
      · simp only [h1, ↓reduceIte]
      · simp only [h1, ↓reduceIte]; omega
    · simp only [hp, ↓reduceIte]
      by_cases h0 : r1 = 0
      · simp only [h0, ↓reduceIte]
      · simp only [h0, ↓reduceIte]; omega
  · simp only [hh, ↓reduceIte]

/-- **UseHint = FIPS 204 Alg. 40**: with `m = (q−1)/(2γ₂)`, hint 1 moves `r1` by ±1 modulo `m`
    according to the sign of `r0` (positive: encoding in (0, q−γ₂)); hint ≠ 1 returns `r1`. -/
theorem useHint_spec32 (a h : Nat) (ha : a < 8380417) :
    useHint a 261888 h =
      if h = 1 then
        (if 0 < (decompose a 261888).2 ∧ (decompose a 261888).2 < 8118529 then ((decompose a 261888).1 + 1) % 16
         else ((decompose a 261888).1 + 15) % 16)
      else (decompose a 261888).1 := by
  obtain ⟨f1, f2, f3, f4⟩ := decompose_fips32 a ha
  clear f3 f4
  unfold useHint useHint.v4 useHint.v5 useHint.v1 useHint.v2 useHint.v3
  have hm : (8380416 / (261888 * 2 % 4294967296) + 4294967296 - 1) % 4294967296 = 15 := by decide
  simp only [neg_gamma32, shl1, hm]
  generalize (decompose a 261888).1 = r1 at f1 ⊢
  generalize (decompose a 261888).2 = r0 at f2 ⊢
  have hadd := add_spec r1 1 (by omega) (by decide)
  have hsub := sub_spec r1 1 (by omega) (by decide)
  by_cases hh : h = 1
  · simp only [hh, ↓reduceIte, hadd, hsub, gt_iff_lt]
    by_cases hp : 0 < r0 ∧ r0 < 8118529
    · simp only [hp, and_self, ↓reduceIte]
      by_cases h1 : r1 = 15
      · simp only [h1, ↓reduceIte]
      · simp only [h1, ↓reduceIte]; omega
    · simp only [hp, ↓reduceIte]
      by_cases h0 : r1 = 0
      · simp only [h0, ↓reduceIte]
      · simp only [h0, ↓reduceIte]; omega
  · simp only [hh, ↓reduceIte]


/-- MakeHint (Alg. 39): 1 iff adding `z` changes the high bits of `r` -/
theorem makeHint_spec (z g r : Nat) :
    makeHint z g r = if highBits r g ≠ highBits (add r z) g then 1 else 0 := by
  unfold makeHint makeHint.v2 makeHint.v1; rfl

/-! ### centered representatives and the infinity norm -/

theorem centeredAbs_spec (a : Nat) (ha : a < 8380417) :
    centeredAbs a = if a ≥ 4190209 then 8380417 - a else a := by
  unfold centeredAbs centeredAbs.v1
  by_cases hq : a ≥ 4190209
  · have hc : GoSem.ctLessOrEq (4190209 : Int) (Int.ofNat a) = 1 := by
      unfold GoSem.ctLessOrEq
      rw [if_pos (by simp; omega), if_pos (by simp; omega)]
    simp only [hc, select1, hq, ↓reduceIte]
    have e : (8380417 + 4294967296 - a) % 4294967296 = 8380417 - a := by omega
    simp only [e]
    exact toUnsigned_ofNat _ (by omega)
  · have hc : GoSem.ctLessOrEq (4190209 : Int) (Int.ofNat a) = 0 := by
      unfold GoSem.ctLessOrEq
      rw [if_pos (by simp; omega), if_neg (by simp; omega)]
    simp only [hc, select0, hq, ↓reduceIte]
    exact toUnsigned_ofNat _ (by omega)

theorem centeredAbs_le (a : Nat) (ha : a < 8380417) : centeredAbs a ≤ 4190208 := by
  rw [centeredAbs_spec a ha]
  by_cases h : a ≥ 4190209
  · simp only [h, ↓reduceIte]; omega
  · simp only [h, ↓reduceIte]; omega

/-- `centeredMax` keeps the operand of larger absolute centered value (ties: the first) -/
theorem centeredMax_spec (a b : Nat) (ha : a < 8380417) (hb : b < 8380417) :
    centeredMax a b = if centeredAbs b ≤ centeredAbs a then a else b := by
  have la := centeredAbs_le a ha
  have lb := centeredAbs_le b hb
  unfold centeredMax centeredMax.v3 centeredMax.v1 centeredMax.v2
  generalize centeredAbs a = x at la ⊢
  generalize centeredAbs b = y at lb ⊢
  by_cases h : y ≤ x
  · have hc : GoSem.ctLessOrEq (Int.ofNat y) (Int.ofNat x) = 1 := by
      unfold GoSem.ctLessOrEq
      rw [if_pos (by simp; omega), if_pos (by simp; omega)]
    simp only [hc, select1, h, ↓reduceIte]
    exact toUnsigned_ofNat _ (by omega)
  · have hc : GoSem.ctLessOrEq (Int.ofNat y) (Int.ofNat x) = 0 := by
      unfold GoSem.ctLessOrEq
      rw [if_pos (by simp; omega), if_neg (by simp; omega)]
    simp only [hc, select0, h, ↓reduceIte]
    exact toUnsigned_ofNat _ (by omega)

/-! ### tables and constants -/

def bitrev8 (n : Nat) : Nat :=
  (List.range 8).foldl (fun acc i => acc + ((n >>> i) % 2) <<< (7 - i)) 0

/-- the regenerated `zetas` table is ζ^bitrev₈(k) mod q with ζ = 1753 (entry 0 is unused and 0) -/
theorem zetas_spec : zetas = 0 :: (List.range 255).map (fun k => 1753 ^ bitrev8 (k + 1) % 8380417) := by
  decide +kernel

theorem consts_spec : q = 8380417 ∧ d = 13 ∧ qBits = 23 ∧ degree = 256 ∧ zeta = 1753 ∧ (inv256 * 256) % q = 1 ∧
    2 ^ qBits > q ∧ zeta ^ 256 % q = q - 1 := by
  decide +kernel

end TinkVerif.Gen.Mldsa

section AxiomAudit
open TinkVerif.Gen.Mldsa
#print axioms reduceOnce_spec
#print axioms add_spec
#print axioms sub_spec
#print axioms neg_spec
#print axioms mul_spec
#print axioms power2Round_spec
#print axioms power2Round_fips
#print axioms divBy2Gamma2_88
#print axioms divBy2Gamma2_32
#print axioms decompose_spec88
#print axioms decompose_spec32
#print axioms decompose_fips88
#print axioms decompose_fips32
#print axioms highBits_eq
#print axioms lowBits_eq
#print axioms useHint_spec88
#print axioms useHint_spec32
#print axioms makeHint_spec
#print axioms centeredAbs_spec
#print axioms centeredMax_spec
#print axioms zetas_spec
#print axioms consts_spec
end AxiomAudit
