import TinkVerif.Model.Rand
import TinkVerif.Props.C11

/-!
# C20 — randomized operations draw fresh, full-length randomness (tape model)

Distribution cannot be proved of an implementation, but *where the bytes come from* can.  The theorems
say: in the model, the random fields of a history of calls are exactly consecutive, pairwise disjoint
windows of the random source, byte for byte (`fields_flatten`: their concatenation *is* the tape
window), so under the hypothesis `H_rand` (the source is i.i.d. uniform) every byte position of every
field is uniform and two fields collide only when two disjoint tape windows do.  The harness checks
that the real code has exactly this consumption discipline (fields read back from ciphertexts equal
the bytes `crypto/rand.Reader` handed out during the call, and their number is the field length).
-/
namespace TinkVerif.Rand
open TinkVerif

theorem seg_length (t : Tape) (off n : Nat) : (seg t off n).length = n := by simp [seg]

theorem seg_getElem (t : Tape) (off n j : Nat) (h : j < (seg t off n).length) :
    (seg t off n)[j] = t (off + j) := by simp [seg]

theorem seg_succ (t : Tape) (off n : Nat) : seg t off (n + 1) = t off :: seg t (off + 1) n := by
  simp only [seg, List.range_succ_eq_map, List.map_cons, List.map_map, Nat.add_zero]
  congr 1
  apply List.map_congr_left
  intro i _
  simp only [Function.comp]
  congr 1
  omega

theorem seg_add (t : Tape) (off n m : Nat) : seg t off (n + m) = seg t off n ++ seg t (off + n) m := by
  induction n generalizing off with
  | zero => simp [seg]
  | succ n ih =>
    have : n + 1 + m = (n + m) + 1 := by omega
    rw [this, seg_succ, seg_succ, ih]
    simp only [List.cons_append, List.cons.injEq, true_and]
    congr 2
    omega

theorem fields_length (t : Tape) (pos : Nat) (ns : List Nat) : (fields t pos ns).length = ns.length := by
  induction ns generalizing pos with
  | nil => rfl
  | cons n ns ih => simp [fields, ih]

/-- **The random fields of a whole history are the tape window, verbatim.** -/
theorem fields_flatten (t : Tape) (pos : Nat) (ns : List Nat) :
    (fields t pos ns).flatten = seg t pos ns.sum := by
  induction ns generalizing pos with
  | nil => simp [fields, seg]
  | cons n ns ih => simp [fields, ih, seg_add]

/-- draw `i` is the window at its own offset, of its own full length -/
theorem fields_getElem (t : Tape) (pos : Nat) (ns : List Nat) (i : Nat) (h : i < ns.length) :
    (fields t pos ns)[i]'(by rw [fields_length]; exact h) = seg t (offsetOf pos ns i) ns[i] := by
  induction ns generalizing pos i with
  | nil => simp at h
  | cons n ns ih =>
    cases i with
    | zero => simp [fields, offsetOf]
    | succ i =>
      simp only [fields, List.getElem_cons_succ]
      rw [ih (pos + n) i (by simpa using h)]
      simp [offsetOf, Nat.add_assoc]

theorem take_sum_succ (ns : List Nat) (i : Nat) (h : i < ns.length) :
    (ns.take (i + 1)).sum = (ns.take i).sum + ns[i] := by
  induction ns generalizing i with
  | nil => simp at h
  | cons n ns ih =>
    cases i with
    | zero => simp
    | succ i =>
      have := ih i (by simpa using h)
      simp only [List.take_succ_cons, List.sum_cons, List.getElem_cons_succ]
      omega

theorem take_sum_mono (ns : List Nat) (i j : Nat) (hij : i ≤ j) : (ns.take i).sum ≤ (ns.take j).sum := by
  induction ns generalizing i j with
  | nil => simp
  | cons n ns ih =>
    cases i with
    | zero => simp
    | succ i =>
      cases j with
      | zero => omega
      | succ j =>
        have := ih i j (by omega)
        simp only [List.take_succ_cons, List.sum_cons]
        omega

/-- windows of different draws are disjoint: the earlier one ends before the later one starts -/
theorem windows_disjoint (pos : Nat) (ns : List Nat) (i j : Nat) (hij : i < j) (hj : j < ns.length) :
    offsetOf pos ns i + ns[i]'(by omega) ≤ offsetOf pos ns j := by
  unfold offsetOf
  have h1 := take_sum_succ ns i (by omega)
  have h2 := take_sum_mono ns (i + 1) j (by omega)
  omega

/-- **no byte of the source is used twice**: (draw, byte position) ↦ tape position is injective -/
theorem positions_injective (pos : Nat) (ns : List Nat) (i j a b : Nat)
    (hi : i < ns.length) (hj : j < ns.length) (ha : a < ns[i]) (hb : b < ns[j])
    (h : offsetOf pos ns i + a = offsetOf pos ns j + b) : i = j ∧ a = b := by
  rcases Nat.lt_trichotomy i j with hlt | heq | hgt
  · have := windows_disjoint pos ns i j hlt hj; omega
  · subst heq; exact ⟨rfl, by omega⟩
  · have := windows_disjoint pos ns j i hgt hi; omega

/-- every byte of every field is one byte of the source (nothing constant, truncated or derived) -/
theorem field_byte (t : Tape) (pos : Nat) (ns : List Nat) (i : Nat) (h : i < ns.length) (a : Nat) (ha : a < ns[i]) :
    ((fields t pos ns)[i]'(by rw [fields_length]; exact h))[a]'(by rw [fields_getElem t pos ns i h, seg_length]; exact ha)
      = t (offsetOf pos ns i + a) := by
  simp [fields_getElem t pos ns i h, seg_getElem]

/-- replay: the fields depend on nothing but the window consumed -/
theorem fields_congr (t t' : Tape) (pos : Nat) (ns : List Nat)
    (h : ∀ k, pos ≤ k → k < pos + ns.sum → t k = t' k) : fields t pos ns = fields t' pos ns := by
  induction ns generalizing pos with
  | nil => rfl
  | cons n ns ih =>
    simp only [fields, List.sum_cons] at *
    congr 1
    · simp only [seg]; apply List.map_congr_left; intro i hi
      have := List.mem_range.mp hi
      exact h _ (by omega) (by omega)
    · exact ih (pos + n) (fun k h1 h2 => h k (by omega) (by omega))

/-- two draws of one history are equal only if the two disjoint tape windows are -/
theorem fields_eq_iff_windows_eq (t : Tape) (pos : Nat) (ns : List Nat) (i j : Nat) (hi : i < ns.length) (hj : j < ns.length) :
    (fields t pos ns)[i]'(by rw [fields_length]; exact hi) = (fields t pos ns)[j]'(by rw [fields_length]; exact hj) ↔
      seg t (offsetOf pos ns i) ns[i] = seg t (offsetOf pos ns j) ns[j] := by
  rw [fields_getElem t pos ns i hi, fields_getElem t pos ns j hj]

/-! ### counting form of uniformity

For fixed draw lengths `ns`, the map (tape window) ↦ (tuple of random fields) is a bijection between
byte strings of length `ns.sum` and tuples of byte strings of lengths `ns`: every tuple of field values
arises from exactly one window.  Hence a uniformly distributed window gives uniformly distributed,
independent fields — the distributional clause of C20 under `H_rand`, stated without probability theory. -/

/-- a finite window read as a tape (bytes beyond it are irrelevant by `fields_congr`) -/
def tapeOfWindow (w : Bytes) : Tape := fun i => w.getD i 0

theorem seg_tapeOfWindow (w : Bytes) : seg (tapeOfWindow w) 0 w.length = w := by
  apply List.ext_getElem
  · simp [seg_length]
  · intro i h1 h2
    simp [seg, tapeOfWindow, List.getD, List.getElem?_eq_getElem h2]

/-- injective: the fields determine the window -/
theorem fields_window_injective (ns : List Nat) (w w' : Bytes) (hw : w.length = ns.sum) (hw' : w'.length = ns.sum)
    (h : fields (tapeOfWindow w) 0 ns = fields (tapeOfWindow w') 0 ns) : w = w' := by
  have h1 := fields_flatten (tapeOfWindow w) 0 ns
  have h2 := fields_flatten (tapeOfWindow w') 0 ns
  rw [h] at h1
  rw [h1] at h2
  rw [← hw, seg_tapeOfWindow] at h2
  rw [hw, ← hw', seg_tapeOfWindow] at h2
  exact h2

theorem fields_lengths (t : Tape) (pos : Nat) (ns : List Nat) : (fields t pos ns).map List.length = ns := by
  induction ns generalizing pos with
  | nil => rfl
  | cons n ns ih => simp [fields, seg_length, ih]

theorem seg_shift (w a : Bytes) (n : Nat) : seg (tapeOfWindow (a ++ w)) a.length n = seg (tapeOfWindow w) 0 n := by
  simp only [seg, tapeOfWindow]
  apply List.map_congr_left
  intro i _
  simp [List.getD, List.getElem?_append_right]

theorem fields_shift (w a : Bytes) (ns : List Nat) (pos : Nat) :
    fields (tapeOfWindow (a ++ w)) (a.length + pos) ns = fields (tapeOfWindow w) pos ns := by
  induction ns generalizing pos with
  | nil => rfl
  | cons n ns ih =>
    simp only [fields]
    rw [Nat.add_assoc, ih]
    congr 1
    simp only [seg, tapeOfWindow]
    apply List.map_congr_left
    intro i _
    simp [List.getD, List.getElem?_append_right, Nat.add_assoc]

/-- surjective: every tuple of field values of the right lengths is produced by some window
    (namely their concatenation) -/
theorem fields_window_surjective (fs : List Bytes) :
    fields (tapeOfWindow fs.flatten) 0 (fs.map List.length) = fs := by
  induction fs with
  | nil => rfl
  | cons f fs ih =>
    simp only [List.map_cons, fields, List.flatten_cons]
    congr 1
    · have := seg_tapeOfWindow (f ++ fs.flatten)
      have h2 : seg (tapeOfWindow (f ++ fs.flatten)) 0 (f.length + fs.flatten.length) =
          seg (tapeOfWindow (f ++ fs.flatten)) 0 f.length ++ seg (tapeOfWindow (f ++ fs.flatten)) (0 + f.length) fs.flatten.length :=
        seg_add _ 0 _ _
      rw [List.length_append] at this
      rw [h2] at this
      have hl : (seg (tapeOfWindow (f ++ fs.flatten)) 0 f.length).length = f.length := seg_length _ _ _
      exact (List.append_inj this hl).1
    · have := fields_shift fs.flatten f (fs.map List.length) 0
      simp only [Nat.add_zero, Nat.zero_add] at this ⊢
      rw [this, ih]

/-! ### layouts -/

theorem fieldAt_layout (pre fld rest : Bytes) : fieldAt (pre ++ fld ++ rest) pre.length fld.length = fld := by
  simp [fieldAt, List.append_assoc]

/-- AEAD framing (`Full.encryptWith` of C01's model): the field after the prefix is the drawn nonce -/
theorem aeadField_encryptWith (a : Aead.Full) (rnd pt ad : Bytes) :
    aeadField a.pre.length rnd.length (a.encryptWith rnd pt ad) = rnd := by
  simp [aeadField, Aead.Full.encryptWith, fieldAt, List.append_assoc]

theorem aeadField_etm (a : Aead.EtM) (iv pt ad : Bytes) :
    aeadField a.pre.length iv.length (a.encryptWith iv pt ad) = iv := by
  simp [aeadField, Aead.EtM.encryptWith, fieldAt, List.append_assoc]

theorem aeadField_xaes (x : Aead.Xaes) (rnd pt ad : Bytes) :
    aeadField x.pre.length rnd.length (x.encryptWith rnd pt ad) = rnd := by
  simp [aeadField, Aead.Xaes.encryptWith, fieldAt, List.append_assoc]

theorem streamHeader_layout (salt np : Bytes) (hnp : np.length = 7) (lenByte : UInt8) :
    streamHeaderFields salt.length ([lenByte] ++ salt ++ np) = (salt, np) := by
  have h1 : List.drop (1 + salt.length) (lenByte :: (salt ++ np)) = np := by
    rw [Nat.add_comm, List.drop_succ_cons, List.drop_left]
  simp [streamHeaderFields, fieldAt, h1, ← hnp]

/-! ### key ids -/

open Manager in
/-- `newRandomKeyID` returns the first drawn word that is available — never a used id -/
theorem drawId_fresh (unavail ds : List Nat) (d : Nat) (h : drawId unavail ds = some d) :
    d ∉ unavail ∧ ∃ k, k < ds.length ∧ ds[k]? = some d ∧ ∀ m, m < k → ∀ x, ds[m]? = some x → x ∈ unavail := by
  induction ds with
  | nil => simp [drawId] at h
  | cons x xs ih =>
    unfold drawId at h
    by_cases hx : x ∈ unavail
    · rw [if_pos hx] at h
      obtain ⟨h1, k, hk, hk2, hk3⟩ := ih h
      refine ⟨h1, k + 1, by simpa using hk, by simpa using hk2, ?_⟩
      intro m hm y hy
      cases m with
      | zero => simp at hy; subst hy; exact hx
      | succ m => exact hk3 m (by omega) y (by simpa using hy)
    · rw [if_neg hx] at h
      cases h
      exact ⟨hx, 0, by simp, by simp, by intro m hm; omega⟩

/-- with a word that is available the id *is* that tape word: uniform words give uniform ids -/
theorem drawId_first (unavail : List Nat) (d : Nat) (ds : List Nat) (h : d ∉ unavail) :
    Manager.drawId unavail (d :: ds) = some d := by simp [Manager.drawId, h]

/-- ids handed out by one manager are pairwise distinct, after any history of operations and draws -/
theorem ids_pairwise_distinct (ops : List Manager.Op) :
    ((Manager.run Manager.init ops).entries.map (·.id)).Nodup :=
  (Manager.inv_run Manager.init Manager.inv_init ops).nodup

end TinkVerif.Rand

/-! non-vacuity: a concrete tape and history -/
section Examples
open TinkVerif TinkVerif.Rand
example : fields (fun i => UInt8.ofNat (7 * i + 1)) 2 [3, 0, 2] = [[15, 22, 29], [], [36, 43]] := by decide
example : Manager.drawId [5, 9] [9, 5, 7, 8] = some 7 := by decide
end Examples

section AxiomAudit
open TinkVerif.Rand
#print axioms fields_flatten
#print axioms fields_getElem
#print axioms windows_disjoint
#print axioms positions_injective
#print axioms field_byte
#print axioms fields_congr
#print axioms fields_eq_iff_windows_eq
#print axioms fields_window_injective
#print axioms fields_window_surjective
#print axioms fields_lengths
#print axioms fieldAt_layout
#print axioms aeadField_encryptWith
#print axioms aeadField_etm
#print axioms aeadField_xaes
#print axioms streamHeader_layout
#print axioms drawId_fresh
#print axioms drawId_first
#print axioms ids_pairwise_distinct
end AxiomAudit
