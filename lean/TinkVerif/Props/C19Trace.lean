import TinkVerif.Props.C19

/-!
# C19 — trace-level non-interference

A history is a list of events: API calls (the caller allocates fresh argument buffers — with spare
capacity — holding the given data) and caller mutations of *anything the caller can reach*: every
argument buffer it ever allocated and every slice it was ever handed back.

* `known_disjoint_owned`: when every operation is `Clean`, nothing the caller can reach is ever
  library-owned (no retention of arguments, no internal array handed out).
* `noninterference`: when every operation is `Clean` and a function of (library state, argument
  contents) (`Det`), the results of all calls in a history with arbitrary interleaved caller mutations
  equal the results of the same history with the mutations deleted.
-/
namespace TinkVerif.Heap
open TinkVerif

/-- two worlds agree on everything the library owns -/
structure Rel (w w' : World) : Prop where
  owned : w.owned = w'.owned
  len : w.heap.length = w'.heap.length
  same : ∀ a ∈ w.owned, w.heap.array a = w'.heap.array a

/-- the operation is a function of library state and argument contents -/
structure Det (f : Api) : Prop where
  rel : ∀ w w' args, Rel w w' → (∀ s ∈ args, w.heap.read s = w'.heap.read s) →
    Rel (f w args).world (f w' args).world ∧ (f w args).outs = (f w' args).outs ∧
    ∀ o ∈ (f w args).outs, (f w args).world.heap.read o = (f w' args).world.heap.read o

inductive Event
  | call (f : Api) (args : List (Bytes × Nat))   -- argument data and spare capacity of its buffer
  | mutate (m : Mutation)

def Event.isCall : Event → Bool
  | .call .. => true
  | .mutate .. => false

/-- the caller allocates its argument buffers -/
def allocArgs (h : Heap) : List (Bytes × Nat) → Heap × List Slice
  | [] => (h, [])
  | (b, spare) :: rest =>
    let (h1, s) := alloc h b spare
    let (h2, ss) := allocArgs h1 rest
    (h2, s :: ss)

structure St where
  world : World
  known : List Nat            -- arrays the caller holds a reference to
  results : List (List Bytes) -- what each call returned (contents at return time)

def step (st : St) : Event → St
  | .call f args =>
    let (h1, ss) := allocArgs st.world.heap args
    let r := f { st.world with heap := h1 } ss
    { world := r.world, known := st.known ++ ss.map (·.arr) ++ r.outs.map (·.arr),
      results := st.results ++ [r.outs.map r.world.heap.read] }
  | .mutate m =>
    -- the caller can only write what it can reach
    if m.arr ∈ st.known then { st with world := st.world.mutate m } else st

def exec (st : St) (es : List Event) : St := es.foldl step st

def AllClean (es : List Event) : Prop := ∀ f args, Event.call f args ∈ es → Clean f
def AllDet (es : List Event) : Prop := ∀ f args, Event.call f args ∈ es → Det f

/-! #### helper facts -/

theorem writeAt_length (h : Heap) (a pos : Nat) (bs : Bytes) : (writeAt h a pos bs).length = h.length := by
  simp [writeAt]

theorem mutate_len (w : World) (m : Mutation) : (w.mutate m).heap.length = w.heap.length := by
  unfold World.mutate; split
  · rfl
  · exact writeAt_length _ _ _ _

theorem rel_mutate_left (w w' : World) (m : Mutation) (h : Rel w w') : Rel (w.mutate m) w' where
  owned := by rw [mutate_owned_set]; exact h.owned
  len := by rw [mutate_len]; exact h.len
  same := by
    intro a ha
    rw [mutate_owned_set] at ha
    rw [mutate_owned w m a ha]; exact h.same a ha

theorem allocArgs_length_le (h : Heap) (args : List (Bytes × Nat)) : h.length ≤ (allocArgs h args).1.length := by
  induction args generalizing h with
  | nil => exact Nat.le_refl _
  | cons x rest ih =>
    obtain ⟨b, sp⟩ := x
    simp only [allocArgs]
    have := ih (alloc h b sp).1
    simp only [alloc, List.length_append, List.length_singleton] at this ⊢
    omega

theorem allocArgs_frame (h : Heap) (args : List (Bytes × Nat)) (a : Nat) (ha : a < h.length) :
    (allocArgs h args).1.array a = h.array a := by
  induction args generalizing h with
  | nil => rfl
  | cons x rest ih =>
    obtain ⟨b, sp⟩ := x
    simp only [allocArgs]
    rw [ih (alloc h b sp).1 (by simp [alloc]; omega)]
    exact alloc_frame h b sp a ha

theorem allocArgs_fresh (h : Heap) (args : List (Bytes × Nat)) : ∀ s ∈ (allocArgs h args).2, h.length ≤ s.arr ∧ s.arr < (allocArgs h args).1.length := by
  induction args generalizing h with
  | nil => intro s hs; simp [allocArgs] at hs
  | cons x rest ih =>
    obtain ⟨b, sp⟩ := x
    intro s hs
    simp only [allocArgs, List.mem_cons] at hs
    have hle := allocArgs_length_le (alloc h b sp).1 rest
    rcases hs with h1 | h1
    · subst h1
      simp only [allocArgs, alloc] at hle ⊢
      simp only [List.length_append, List.length_singleton] at hle
      omega
    · have := ih (alloc h b sp).1 s h1
      simp only [alloc, List.length_append, List.length_singleton, allocArgs] at this ⊢
      omega

/-- argument headers and contents do not depend on the old heap beyond its length -/
theorem allocArgs_same (h h' : Heap) (args : List (Bytes × Nat)) (hl : h.length = h'.length) :
    (allocArgs h args).2 = (allocArgs h' args).2 ∧ (allocArgs h args).1.length = (allocArgs h' args).1.length ∧
    ∀ s ∈ (allocArgs h args).2, (allocArgs h args).1.read s = (allocArgs h' args).1.read s := by
  induction args generalizing h h' with
  | nil => simp [allocArgs, hl]
  | cons x rest ih =>
    obtain ⟨b, sp⟩ := x
    have hl1 : (alloc h b sp).1.length = (alloc h' b sp).1.length := by simp [alloc, hl]
    obtain ⟨e1, e2, e3⟩ := ih (alloc h b sp).1 (alloc h' b sp).1 hl1
    refine ⟨?_, ?_, ?_⟩
    · simp only [allocArgs, e1]; simp [alloc, hl]
    · simp only [allocArgs]; exact e2
    · intro s hs
      simp only [allocArgs, List.mem_cons] at hs
      rcases hs with h1 | h1
      · subst h1
        have f1 := allocArgs_frame (alloc h b sp).1 rest h.length (by simp [alloc])
        have f2 := allocArgs_frame (alloc h' b sp).1 rest h'.length (by simp [alloc])
        simp only [allocArgs, Heap.read, alloc] at f1 f2 ⊢
        rw [← hl] at f2
        rw [f1, f2]
        simp [Heap.array, List.getD, hl]
      · simp only [allocArgs]; exact e3 s h1

/-! #### the caller never holds a reference into library state -/

/-- invariant: everything known is a valid, non-owned array -/
def KnownOk (st : St) : Prop := ∀ a ∈ st.known, a < st.world.heap.length ∧ a ∉ st.world.owned

theorem call_knownOk (w1 : World) (oldLen : Nat) (known : List Nat) (ss : List Slice) (f : Api) (hf : Clean f)
    (hlen : oldLen ≤ w1.heap.length) (hknown : ∀ a ∈ known, a < oldLen ∧ a ∉ w1.owned)
    (hss : ∀ s ∈ ss, oldLen ≤ s.arr ∧ s.arr < w1.heap.length) (hown : ∀ a ∈ w1.owned, a < oldLen) :
    (∀ a ∈ known ++ ss.map (·.arr) ++ (f w1 ss).outs.map (·.arr), a < (f w1 ss).world.heap.length ∧ a ∉ (f w1 ss).world.owned) ∧
    ∀ a ∈ (f w1 ss).world.owned, a < (f w1 ss).world.heap.length := by
  have hgrow := hf.grows w1 ss
  refine ⟨?_, ?_⟩
  · intro a ha
    simp only [List.mem_append, List.mem_map] at ha
    rcases ha with (h1 | ⟨s, hs, rfl⟩) | ⟨o, ho, rfl⟩
    · obtain ⟨k1, k2⟩ := hknown a h1
      refine ⟨by omega, ?_⟩
      intro hin
      rcases hf.ownedFresh w1 ss a hin with h2 | h2
      · exact k2 h2
      · omega
    · obtain ⟨k1, k2⟩ := hss s hs
      refine ⟨by omega, ?_⟩
      intro hin
      rcases hf.ownedFresh w1 ss s.arr hin with h2 | h2
      · have := hown _ h2; omega
      · omega
    · exact ⟨hf.outsValid w1 ss o ho, (hf.outsFresh w1 ss o ho).2⟩
  · exact hf.ownedValid w1 ss (by intro a ha; have := hown a ha; omega)

theorem step_knownOk (st : St) (e : Event) (hk : KnownOk st) (hown : ∀ a ∈ st.world.owned, a < st.world.heap.length)
    (hc : ∀ f args, e = .call f args → Clean f) :
    KnownOk (step st e) ∧ ∀ a ∈ (step st e).world.owned, a < (step st e).world.heap.length := by
  cases e with
  | mutate m =>
    simp only [step]
    split
    · refine ⟨?_, ?_⟩
      · intro a ha; rw [mutate_len, mutate_owned_set]; exact hk a ha
      · intro a ha; rw [mutate_owned_set] at ha; rw [mutate_len]; exact hown a ha
    · exact ⟨hk, hown⟩
  | call f args =>
    have hf := hc f args rfl
    exact call_knownOk { heap := (allocArgs st.world.heap args).1, owned := st.world.owned } st.world.heap.length st.known
      (allocArgs st.world.heap args).2 f hf (allocArgs_length_le _ _) hk (allocArgs_fresh _ _) hown

/-- **the caller never holds a reference into library state**: after any history of clean calls and
    mutations, every array the caller can reach exists and is not library-owned -/
theorem known_disjoint_owned (st : St) (es : List Event) (hk : KnownOk st)
    (hown : ∀ a ∈ st.world.owned, a < st.world.heap.length) (hc : AllClean es) :
    KnownOk (exec st es) ∧ ∀ a ∈ (exec st es).world.owned, a < (exec st es).world.heap.length := by
  induction es generalizing st with
  | nil => exact ⟨hk, hown⟩
  | cons e es ih =>
    have h1 := step_knownOk st e hk hown (by intro f args he; exact hc f args (by simp [he]))
    simp only [exec, List.foldl_cons]
    exact ih (step st e) h1.1 h1.2 (by intro f args hm; exact hc f args (by simp [hm]))

/-! #### non-interference -/

structure Sim (st st' : St) : Prop where
  rel : Rel st.world st'.world
  results : st.results = st'.results

theorem step_sim_mutate (st st' : St) (m : Mutation) (hs : Sim st st') : Sim (step st (.mutate m)) st' := by
  simp only [step]
  split
  · exact ⟨rel_mutate_left _ _ _ hs.rel, hs.results⟩
  · exact hs

theorem step_sim_call (st st' : St) (f : Api) (args : List (Bytes × Nat)) (hs : Sim st st') (hd : Det f)
    (hown : ∀ a ∈ st.world.owned, a < st.world.heap.length) :
    Sim (step st (.call f args)) (step st' (.call f args)) := by
  obtain ⟨e1, e2, e3⟩ := allocArgs_same st.world.heap st'.world.heap args hs.rel.len
  have hrel1 : Rel { heap := (allocArgs st.world.heap args).1, owned := st.world.owned }
      { heap := (allocArgs st'.world.heap args).1, owned := st'.world.owned } := by
    refine ⟨hs.rel.owned, e2, ?_⟩
    intro a ha
    have hlt := hown a ha
    show (allocArgs st.world.heap args).1.array a = (allocArgs st'.world.heap args).1.array a
    rw [allocArgs_frame _ _ _ hlt, allocArgs_frame _ _ _ (by rw [← hs.rel.len]; exact hlt)]
    exact hs.rel.same a ha
  have hd1 := hd.rel _ _ (allocArgs st.world.heap args).2 hrel1 e3
  have key : (f { heap := (allocArgs st.world.heap args).1, owned := st.world.owned } (allocArgs st.world.heap args).2).outs.map
        (f { heap := (allocArgs st.world.heap args).1, owned := st.world.owned } (allocArgs st.world.heap args).2).world.heap.read =
      (f { heap := (allocArgs st'.world.heap args).1, owned := st'.world.owned } (allocArgs st.world.heap args).2).outs.map
        (f { heap := (allocArgs st'.world.heap args).1, owned := st'.world.owned } (allocArgs st.world.heap args).2).world.heap.read := by
    rw [← hd1.2.1]
    exact List.map_congr_left hd1.2.2
  refine ⟨?_, ?_⟩
  · show Rel (f _ _).world (f _ _).world
    rw [← e1]; exact hd1.1
  · show st.results ++ [_] = st'.results ++ [_]
    rw [← e1, hs.results, key]

/-- **Non-interference.**  For every history of calls of clean, deterministic operations with
    arbitrary caller mutations interleaved — of inputs after the call, of spare capacity, of returned
    slices — every call returns what it returns in the history without the mutations. -/
theorem noninterference (st st' : St) (es : List Event) (hs : Sim st st') (hk : KnownOk st)
    (hown : ∀ a ∈ st.world.owned, a < st.world.heap.length) (hc : AllClean es) (hd : AllDet es) :
    (exec st es).results = (exec st' (es.filter Event.isCall)).results := by
  induction es generalizing st st' with
  | nil => exact hs.results
  | cons e es ih =>
    have hinv := step_knownOk st e hk hown (by intro f args he; exact hc f args (by simp [he]))
    have hc' : AllClean es := by intro f args hm; exact hc f args (by simp [hm])
    have hd' : AllDet es := by intro f args hm; exact hd f args (by simp [hm])
    cases e with
    | mutate m =>
      simp only [exec, List.foldl_cons, List.filter_cons, Event.isCall, Bool.false_eq_true, ↓reduceIte]
      exact ih _ _ (step_sim_mutate st st' m hs) hinv.1 hinv.2 hc' hd'
    | call f args =>
      simp only [exec, List.foldl_cons, List.filter_cons, Event.isCall, ↓reduceIte]
      exact ih _ _ (step_sim_call st st' f args hs (hd f args (by simp)) hown) hinv.1 hinv.2 hc' hd'

/-- from the same initial state: results with mutations = results without -/
theorem noninterference_init (w : World) (hown : ∀ a ∈ w.owned, a < w.heap.length) (es : List Event)
    (hc : AllClean es) (hd : AllDet es) :
    (exec ⟨w, [], []⟩ es).results = (exec ⟨w, [], []⟩ (es.filter Event.isCall)).results :=
  noninterference _ _ es ⟨⟨rfl, rfl, fun _ _ => rfl⟩, rfl⟩ (by intro a ha; simp at ha) hown hc hd

end TinkVerif.Heap

section AxiomAudit
open TinkVerif.Heap
#print axioms known_disjoint_owned
#print axioms noninterference
#print axioms noninterference_init
end AxiomAudit
