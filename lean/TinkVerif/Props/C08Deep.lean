import TinkVerif.Props.C04
import TinkVerif.Props.C08
import TinkVerif.Lemmas.XorBytes

/-!
# C08 (deep) — implementation = RFC specification, for all inputs
-/
namespace TinkVerif.Cmac
open TinkVerif

/-! ## 1. `XOREndAndCompute` = CMAC of `xorend` -/

theorem xorend_length (data last : Bytes) (hd : 16 ≤ data.length) (hl : last.length = 16) :
    (xorend data last).length = data.length := by
  unfold xorend
  simp only [List.length_append, List.length_take, Bytes.length_xor, List.length_drop, hl]
  omega

theorem xorend_take16 (data last : Bytes) (hd : 32 ≤ data.length) :
    (xorend data last).take 16 = data.take 16 := by
  unfold xorend
  rw [List.take_append_of_le_length (by rw [List.length_take]; omega), List.take_take]
  congr 1; omega

theorem xorend_drop16 (data last : Bytes) (hd : 32 ≤ data.length) :
    (xorend data last).drop 16 = xorend (data.drop 16) last := by
  unfold xorend
  rw [List.drop_append_of_le_length (by rw [List.length_take]; omega), List.drop_take,
    List.length_drop, List.drop_drop]
  have h1 : data.length - 16 - 16 = data.length - 32 := by omega
  have h2 : 16 + (data.length - 32) = data.length - 16 := by omega
  rw [h1, h2]

/-- the tail of `xorend` (the last `m ≤ 16` bytes) -/
theorem xorend_drop_tail (data last : Bytes) (m : Nat) (hm : m ≤ 16) (hd : 16 ≤ data.length) :
    (xorend data last).drop (data.length - m) =
      Bytes.xor (data.drop (data.length - m)) (last.drop (16 - m)) := by
  unfold xorend
  have hA : (data.take (data.length - 16)).length = data.length - 16 := by
    rw [List.length_take]; omega
  rw [List.drop_append, List.drop_of_length_le (by omega), List.nil_append, hA, Bytes.drop_xor,
    List.drop_drop]
  have h1 : data.length - m - (data.length - 16) = 16 - m := by omega
  have h2 : data.length - 16 + (16 - m) = data.length - m := by omega
  rw [h1, h2]

/-- the only loop iteration that overlaps `last` (block straddling `startPos`) -/
theorem overlap_block (data last out : Bytes) (h1 : 16 < data.length) (h2 : data.length < 32) :
    (Bytes.xor (data.take 16) out).take (16 - (32 - data.length)) ++
        Bytes.xor ((Bytes.xor (data.take 16) out).drop (16 - (32 - data.length)))
          (last.take (32 - data.length)) =
      Bytes.xor ((xorend data last).take 16) out := by
  have hk : 16 - (32 - data.length) = data.length - 16 := by omega
  rw [hk]
  generalize hkk : data.length - 16 = k
  generalize hp : 32 - data.length = p
  have hkp : k + p = 16 := by omega
  have hk16 : k ≤ 16 := by omega
  have hA : (data.take k).length = k := by rw [List.length_take]; omega
  have hsplit : data.take 16 = data.take k ++ (data.take 16).drop k := by
    have := (List.take_append_drop k (data.take 16)).symm
    rwa [List.take_take, Nat.min_eq_left hk16] at this
  have hX : (xorend data last).take 16 =
      data.take k ++ Bytes.xor ((data.take 16).drop k) (last.take p) := by
    unfold xorend
    rw [hkk, List.take_append, hA, List.take_take, Nat.min_eq_right hk16, Bytes.take_xor,
      List.drop_take]
    have : 16 - k = p := by omega
    rw [this]
  rw [hX, Bytes.xor_append_left, hA, Bytes.take_xor, Bytes.drop_xor]
  rw [Bytes.xor_right_comm ((data.take 16).drop k)]
  congr 2
  rw [List.take_take, Nat.min_eq_left hk16]

/-- the Go loop of `XOREndAndCompute` is the plain CBC loop run over `xorend data last`;
    it leaves the unprocessed tail of `data` and the unconsumed tail of `last`. -/
theorem xeLoop_eq (E : Block → Block) (sp n i : Nat) (out data last : Bytes)
    (hsp : sp + 16 = 16 * i + data.length) (hd : 16 ≤ data.length) (hn : 16 * n < data.length) :
    xeLoop E sp n i out data last =
      ((cbcLoop E n out (xorend data last)).1, data.drop (16 * n),
        last.drop (16 - (data.length - 16 * n))) := by
  induction n generalizing i out data with
  | zero =>
    simp only [xeLoop, cbcLoop, Nat.mul_zero, List.drop_zero, Nat.sub_zero]
    rw [show 16 - data.length = 0 by omega, List.drop_zero]
  | succ n ih =>
    by_cases hlt : data.length < 32
    · have hn0 : n = 0 := by omega
      subst hn0
      have hc : (i + 1) * 16 > sp := by omega
      have hpor : (i + 1) * 16 - sp = 32 - data.length := by omega
      simp only [xeLoop, cbcLoop, if_pos hc, hpor]
      rw [overlap_block data last out (by omega) hlt]
      have : 16 - (data.length - 16 * (0 + 1)) = 32 - data.length := by omega
      rw [this]
    · have hc : ¬ ((i + 1) * 16 > sp) := by omega
      simp only [xeLoop, cbcLoop, if_neg hc]
      have hL : 32 ≤ data.length := by omega
      rw [ih (i + 1) _ (data.drop 16) (by rw [List.length_drop]; omega)
        (by rw [List.length_drop]; omega) (by rw [List.length_drop]; omega)]
      rw [xorend_take16 data last hL, xorend_drop16 data last hL, List.drop_drop, List.length_drop]
      have e1 : 16 + 16 * n = 16 * (n + 1) := by omega
      have e2 : data.length - 16 - 16 * n = data.length - 16 * (n + 1) := by omega
      rw [e1, e2]

theorem cbcLoop_snd (E : Block → Block) (n : Nat) (out data : Bytes) :
    (cbcLoop E n out data).2 = data.drop (16 * n) := by
  induction n generalizing out data with
  | zero => simp [cbcLoop]
  | succ n ih =>
    simp only [cbcLoop, ih, List.drop_drop]
    congr 1; omega

/-- the final-block assembly of `XOREndAndCompute` (zeroed 16-byte array, pad byte written at
    index `len(data)`) is the RFC's `pad16` -/
theorem lastBlock_eq (K1 K2 t lb0 : Bytes) (m : Nat) (hm1 : m ≤ 16) (ht : t.length = m)
    (hb : lb0.length = m) :
    (if t.length = 16 then Bytes.xor (lb0 ++ Bytes.zeros (16 - lb0.length)) K1
      else Bytes.xor (((lb0 ++ Bytes.zeros (16 - lb0.length)).take t.length) ++ [0x80] ++
        ((lb0 ++ Bytes.zeros (16 - lb0.length)).drop (t.length + 1))) K2) =
    (if lb0.length = 16 then Bytes.xor lb0 K1 else Bytes.xor (pad16 lb0) K2) := by
  rw [ht, hb]
  by_cases h16 : m = 16
  · rw [if_pos h16, if_pos h16, h16]
    simp [Bytes.zeros]
  · rw [if_neg h16, if_neg h16]
    rw [List.take_left' hb, List.drop_append, List.drop_of_length_le (by omega), List.nil_append, hb]
    unfold pad16
    rw [hb]
    have : (Bytes.zeros (16 - m)).drop (m + 1 - m) = Bytes.zeros (15 - m) := by
      unfold Bytes.zeros
      rw [List.drop_replicate]
      congr 1; omega
    rw [this]

/-- **`XOREndAndCompute(data, last)` = `Compute(data xorend last)`** — for every block function
    (no hypothesis on `E` at all), every `data` of at least 16 bytes and every 16-byte `last`. -/
theorem xorEndAndCompute_eq (E : Block → Block) (data last : Bytes) (hl : last.length = 16)
    (hd : 16 ≤ data.length) :
    xorEndAndCompute E data last = some (compute E (xorend data last)) := by
  unfold xorEndAndCompute compute
  rw [if_neg (by omega), if_neg (by omega), xorend_length data last hd hl]
  dsimp only
  have hnb : numBlocksButLast data.length =
      data.length / 16 - (if data.length % 16 = 0 then 1 else 0) := by
    unfold numBlocksButLast
    by_cases h : data.length % 16 = 0
    · rw [if_pos ⟨by omega, h⟩, if_pos h]
    · rw [if_neg (fun hh => h hh.2), if_neg h]
  rw [hnb]
  generalize hnbv : data.length / 16 - (if data.length % 16 = 0 then 1 else 0) = nb
  have hlt : 16 * nb < data.length := by rw [← hnbv]; split <;> omega
  have hge : data.length ≤ 16 * nb + 16 := by rw [← hnbv]; split <;> omega
  rw [xeLoop_eq E (data.length - 16) nb 0 zero16 data last (by omega) hd hlt]
  simp only [cbcLoop_snd]
  have htail : (xorend data last).drop (16 * nb) =
      Bytes.xor (data.drop (16 * nb)) (last.drop (16 - (data.length - 16 * nb))) := by
    have := xorend_drop_tail data last (data.length - 16 * nb) (by omega) hd
    rwa [show data.length - (data.length - 16 * nb) = 16 * nb by omega] at this
  rw [htail]
  have ht : (data.drop (16 * nb)).length = data.length - 16 * nb := List.length_drop
  have hb : (Bytes.xor (data.drop (16 * nb)) (last.drop (16 - (data.length - 16 * nb)))).length
      = data.length - 16 * nb := by
    rw [Bytes.length_xor, List.length_drop, List.length_drop, hl]; omega
  rw [lastBlock_eq _ _ _ _ (data.length - 16 * nb) (by omega) ht hb]

theorem xorEndAndCompute_bad_last (E : Block → Block) (data last : Bytes) (hl : last.length ≠ 16) :
    xorEndAndCompute E data last = none := by
  unfold xorEndAndCompute
  rw [if_pos hl]

theorem xorEndAndCompute_short_data (E : Block → Block) (data last : Bytes)
    (hd : data.length < 16) : xorEndAndCompute E data last = none := by
  unfold xorEndAndCompute
  by_cases hl : last.length ≠ 16
  · rw [if_pos hl]
  · rw [if_neg hl, if_pos hd]

/-- exact characterisation of the error branches -/
theorem xorEndAndCompute_eq_none_iff (E : Block → Block) (data last : Bytes) :
    xorEndAndCompute E data last = none ↔ (last.length ≠ 16 ∨ data.length < 16) := by
  constructor
  · intro h
    by_cases hl : last.length = 16
    · by_cases hd : 16 ≤ data.length
      · rw [xorEndAndCompute_eq E data last hl hd] at h; cases h
      · exact Or.inr (by omega)
    · exact Or.inl hl
  · rintro (h | h)
    · exact xorEndAndCompute_bad_last E data last h
    · exact xorEndAndCompute_short_data E data last h

/-- corollary: `XOREndAndCompute` is RFC 4493 CMAC (`spec`) of RFC 5297 `xorend` -/
theorem xorEndAndCompute_eq_spec (E : Block → Block) (data last : Bytes) (hl : last.length = 16)
    (hd : 16 ≤ data.length) :
    xorEndAndCompute E data last = some (spec E (xorend data last)) := by
  rw [xorEndAndCompute_eq E data last hl hd, compute_eq_spec]

/-- non-vacuity: a 20-byte message (the loop iteration straddling `startPos` is exercised) -/
example : xorEndAndCompute (fun b => b.reverse) (List.replicate 20 7) (List.replicate 16 9) =
    some (compute (fun b => b.reverse) (xorend (List.replicate 20 7) (List.replicate 16 9))) :=
  xorEndAndCompute_eq _ _ _ (by decide) (by decide)

end TinkVerif.Cmac
