import TinkVerif.Props.C04
import TinkVerif.Props.C08
import TinkVerif.Lemmas.XorBytes
import TinkVerif.Lemmas.CmacDbl

/-!
# C08 (deep) — implementation = RFC specification, for all inputs
-/
namespace TinkVerif.Cmac
open TinkVerif

/-! ## 1. `XOREndAndCompute` = CMAC of `xorend` -/

theorem xorend_length (data last : Bytes) (hd : 16 ≤ data.length) (hl : last.length = 16) :
    (xorend data last).length = data.length := by
  unfold xorend
  simp only [List.length_append, List.length_take, Bytes.length_xor, List.length_drop, hl]
  omega

theorem xorend_take16 (data last : Bytes) (hd : 32 ≤ data.length) :
    (xorend data last).take 16 = data.take 16 := by
  unfold xorend
  rw [List.take_append_of_le_length (by rw [List.length_take]; omega), List.take_take]
  congr 1; omega

theorem xorend_drop16 (data last : Bytes) (hd : 32 ≤ data.length) :
    (xorend data last).drop 16 = xorend (data.drop 16) last := by
  unfold xorend
  rw [List.drop_append_of_le_length (by rw [List.length_take]; omega), List.drop_take,
    List.length_drop, List.drop_drop]
  have h1 : data.length - 16 - 16 = data.length - 32 := by omega
  have h2 : 16 + (data.length - 32) = data.length - 16 := by omega
  rw [h1, h2]

/-- the tail of `xorend` (the last `m ≤ 16` bytes) -/
theorem xorend_drop_tail (data last : Bytes) (m : Nat) (hm : m ≤ 16) (hd : 16 ≤ data.length) :
    (xorend data last).drop (data.length - m) =
      Bytes.xor (data.drop (data.length - m)) (last.drop (16 - m)) := by
  unfold xorend
  have hA : (data.take (data.length - 16)).length = data.length - 16 := by
    rw [List.length_take]; omega
  rw [List.drop_append, List.drop_of_length_le (by omega), List.nil_append, hA, Bytes.drop_xor,
    List.drop_drop]
  have h1 : data.length - m - (data.length - 16) = 16 - m := by omega
  have h2 : data.length - 16 + (16 - m) = data.length - m := by omega
  rw [h1, h2]

/-- the only loop iteration that overlaps `last` (block straddling `startPos`) -/
theorem overlap_block (data last out : Bytes) (h1 : 16 < data.length) (h2 : data.length < 32) :
    (Bytes.xor (data.take 16) out).take (16 - (32 - data.length)) ++
        Bytes.xor ((Bytes.xor (data.take 16) out).drop (16 - (32 - data.length)))
          (last.take (32 - data.length)) =
      Bytes.xor ((xorend data last).take 16) out := by
  have hk : 16 - (32 - data.length) = data.length - 16 := by omega
  rw [hk]
  generalize hkk : data.length - 16 = k
  generalize hp : 32 - data.length = p
  have hkp : k + p = 16 := by omega
  have hk16 : k ≤ 16 := by omega
  have hA : (data.take k).length = k := by rw [List.length_take]; omega
  have hsplit : data.take 16 = data.take k ++ (data.take 16).drop k := by
    have := (List.take_append_drop k (data.take 16)).symm
    rwa [List.take_take, Nat.min_eq_left hk16] at this
  have hX : (xorend data last).take 16 =
      data.take k ++ Bytes.xor ((data.take 16).drop k) (last.take p) := by
    unfold xorend
    rw [hkk, List.take_append, hA, List.take_take, Nat.min_eq_right hk16, Bytes.take_xor,
      List.drop_take]
    have : 16 - k = p := by omega
    rw [this]
  rw [hX, Bytes.xor_append_left, hA, Bytes.take_xor, Bytes.drop_xor]
  rw [Bytes.xor_right_comm ((data.take 16).drop k)]
  congr 2
  rw [List.take_take, Nat.min_eq_left hk16]

/-- the Go loop of `XOREndAndCompute` is the plain CBC loop run over `xorend data last`;
    it leaves the unprocessed tail of `data` and the unconsumed tail of `last`. -/
theorem xeLoop_eq (E : Block → Block) (sp n i : Nat) (out data last : Bytes)
    (hsp : sp + 16 = 16 * i + data.length) (hd : 16 ≤ data.length) (hn : 16 * n < data.length) :
    xeLoop E sp n i out data last =
      ((cbcLoop E n out (xorend data last)).1, data.drop (16 * n),
        last.drop (16 - (data.length - 16 * n))) := by
  induction n generalizing i out data with
  | zero =>
    simp only [xeLoop, cbcLoop, Nat.mul_zero, List.drop_zero, Nat.sub_zero]
    rw [show 16 - data.length = 0 by omega, List.drop_zero]
  | succ n ih =>
    by_cases hlt : data.length < 32
    · have hn0 : n = 0 := by omega
      subst hn0
      have hc : (i + 1) * 16 > sp := by omega
      have hpor : (i + 1) * 16 - sp = 32 - data.length := by omega
      simp only [xeLoop, cbcLoop, if_pos hc, hpor]
      rw [overlap_block data last out (by omega) hlt]
      have : 16 - (data.length - 16 * (0 + 1)) = 32 - data.length := by omega
      rw [this]
    · have hc : ¬ ((i + 1) * 16 > sp) := by omega
      simp only [xeLoop, cbcLoop, if_neg hc]
      have hL : 32 ≤ data.length := by omega
      rw [ih (i + 1) _ (data.drop 16) (by rw [List.length_drop]; omega)
        (by rw [List.length_drop]; omega) (by rw [List.length_drop]; omega)]
      rw [xorend_take16 data last hL, xorend_drop16 data last hL, List.drop_drop, List.length_drop]
      have e1 : 16 + 16 * n = 16 * (n + 1) := by omega
      have e2 : data.length - 16 - 16 * n = data.length - 16 * (n + 1) := by omega
      rw [e1, e2]

theorem cbcLoop_snd (E : Block → Block) (n : Nat) (out data : Bytes) :
    (cbcLoop E n out data).2 = data.drop (16 * n) := by
  induction n generalizing out data with
  | zero => simp [cbcLoop]
  | succ n ih =>
    simp only [cbcLoop, ih, List.drop_drop]
    congr 1; omega

/-- the final-block assembly of `XOREndAndCompute` (zeroed 16-byte array, pad byte written at
    index `len(data)`) is the RFC's `pad16` -/
theorem lastBlock_eq (K1 K2 t lb0 : Bytes) (m : Nat) (hm1 : m ≤ 16) (ht : t.length = m)
    (hb : lb0.length = m) :
    (if t.length = 16 then Bytes.xor (lb0 ++ Bytes.zeros (16 - lb0.length)) K1
      else Bytes.xor (((lb0 ++ Bytes.zeros (16 - lb0.length)).take t.length) ++ [0x80] ++
        ((lb0 ++ Bytes.zeros (16 - lb0.length)).drop (t.length + 1))) K2) =
    (if lb0.length = 16 then Bytes.xor lb0 K1 else Bytes.xor (pad16 lb0) K2) := by
  rw [ht, hb]
  by_cases h16 : m = 16
  · rw [if_pos h16, if_pos h16, h16]
    simp [Bytes.zeros]
  · rw [if_neg h16, if_neg h16]
    rw [List.take_left' hb, List.drop_append, List.drop_of_length_le (by omega), List.nil_append, hb]
    unfold pad16
    rw [hb]
    have : (Bytes.zeros (16 - m)).drop (m + 1 - m) = Bytes.zeros (15 - m) := by
      unfold Bytes.zeros
      rw [List.drop_replicate]
      congr 1; omega
    rw [this]

/-- **`XOREndAndCompute(data, last)` = `Compute(data xorend last)`** — for every block function
    (no hypothesis on `E` at all), every `data` of at least 16 bytes and every 16-byte `last`. -/
theorem xorEndAndCompute_eq (E : Block → Block) (data last : Bytes) (hl : last.length = 16)
    (hd : 16 ≤ data.length) :
    xorEndAndCompute E data last = some (compute E (xorend data last)) := by
  unfold xorEndAndCompute compute
  rw [if_neg (by omega), if_neg (by omega), xorend_length data last hd hl]
  dsimp only
  have hnb : numBlocksButLast data.length =
      data.length / 16 - (if data.length % 16 = 0 then 1 else 0) := by
    unfold numBlocksButLast
    by_cases h : data.length % 16 = 0
    · rw [if_pos ⟨by omega, h⟩, if_pos h]
    · rw [if_neg (fun hh => h hh.2), if_neg h]
  rw [hnb]
  generalize hnbv : data.length / 16 - (if data.length % 16 = 0 then 1 else 0) = nb
  have hlt : 16 * nb < data.length := by rw [← hnbv]; split <;> omega
  have hge : data.length ≤ 16 * nb + 16 := by rw [← hnbv]; split <;> omega
  rw [xeLoop_eq E (data.length - 16) nb 0 zero16 data last (by omega) hd hlt]
  simp only [cbcLoop_snd]
  have htail : (xorend data last).drop (16 * nb) =
      Bytes.xor (data.drop (16 * nb)) (last.drop (16 - (data.length - 16 * nb))) := by
    have := xorend_drop_tail data last (data.length - 16 * nb) (by omega) hd
    rwa [show data.length - (data.length - 16 * nb) = 16 * nb by omega] at this
  rw [htail]
  have ht : (data.drop (16 * nb)).length = data.length - 16 * nb := List.length_drop
  have hb : (Bytes.xor (data.drop (16 * nb)) (last.drop (16 - (data.length - 16 * nb)))).length
      = data.length - 16 * nb := by
    rw [Bytes.length_xor, List.length_drop, List.length_drop, hl]; omega
  rw [lastBlock_eq _ _ _ _ (data.length - 16 * nb) (by omega) ht hb]

theorem xorEndAndCompute_bad_last (E : Block → Block) (data last : Bytes) (hl : last.length ≠ 16) :
    xorEndAndCompute E data last = none := by
  unfold xorEndAndCompute
  rw [if_pos hl]

theorem xorEndAndCompute_short_data (E : Block → Block) (data last : Bytes)
    (hd : data.length < 16) : xorEndAndCompute E data last = none := by
  unfold xorEndAndCompute
  by_cases hl : last.length ≠ 16
  · rw [if_pos hl]
  · rw [if_neg hl, if_pos hd]

/-- exact characterisation of the error branches -/
theorem xorEndAndCompute_eq_none_iff (E : Block → Block) (data last : Bytes) :
    xorEndAndCompute E data last = none ↔ (last.length ≠ 16 ∨ data.length < 16) := by
  constructor
  · intro h
    by_cases hl : last.length = 16
    · by_cases hd : 16 ≤ data.length
      · rw [xorEndAndCompute_eq E data last hl hd] at h; cases h
      · exact Or.inr (by omega)
    · exact Or.inl hl
  · rintro (h | h)
    · exact xorEndAndCompute_bad_last E data last h
    · exact xorEndAndCompute_short_data E data last h

/-- corollary: `XOREndAndCompute` is RFC 4493 CMAC (`spec`) of RFC 5297 `xorend` -/
theorem xorEndAndCompute_eq_spec (E : Block → Block) (data last : Bytes) (hl : last.length = 16)
    (hd : 16 ≤ data.length) :
    xorEndAndCompute E data last = some (spec E (xorend data last)) := by
  rw [xorEndAndCompute_eq E data last hl hd, compute_eq_spec]

/-- non-vacuity: a 20-byte message (the loop iteration straddling `startPos` is exercised) -/
example : xorEndAndCompute (fun b => b.reverse) (List.replicate 20 7) (List.replicate 16 9) =
    some (compute (fun b => b.reverse) (xorend (List.replicate 20 7) (List.replicate 16 9))) :=
  xorEndAndCompute_eq _ _ _ (by decide) (by decide)

/-! ## 3. `mulByX` = RFC 4493 doubling -/

theorem mulByX_length (b : Block) : (mulByX b).length = 16 := by
  simp [mulByX]

theorem len16_cases (b : Bytes) (h : b.length = 16) :
    ∃ b0 b1 b2 b3 b4 b5 b6 b7 b8 b9 b10 b11 b12 b13 b14 b15 : UInt8,
      b = [b0, b1, b2, b3, b4, b5, b6, b7, b8, b9, b10, b11, b12, b13, b14, b15] := by
  match b, h with
  | [b0, b1, b2, b3, b4, b5, b6, b7, b8, b9, b10, b11, b12, b13, b14, b15], _ =>
    exact ⟨b0, b1, b2, b3, b4, b5, b6, b7, b8, b9, b10, b11, b12, b13, b14, b15, rfl⟩

/-- the Go byte loop is the recursive shift, with the reduction constant xor'ed into the last byte -/
theorem mulByX_shiftList (b : Block) (h : b.length = 16) :
    mulByX b = (shiftList b).take 15 ++
      [((b.getD 15 0) <<< 1) ^^^ (if (b.getD 0 0) >>> 7 = 1 then 0x87 else 0)] ∧
    shiftList b = (shiftList b).take 15 ++ [(b.getD 15 0) <<< 1] := by
  obtain ⟨b0, b1, b2, b3, b4, b5, b6, b7, b8, b9, b10, b11, b12, b13, b14, b15, rfl⟩ :=
    len16_cases b h
  exact ⟨rfl, rfl⟩

theorem u8_ofNat_xor (a c : UInt8) : UInt8.ofNat (a.toNat ^^^ c.toNat) = a ^^^ c := by
  rw [← UInt8.toNat_xor]; simp

/-- **`mulByX` is the RFC 4493 §2.3 doubling** `(L << 1) mod 2^128`, xor `0x87` iff `msb(L) = 1`,
    for every 16-byte block. -/
theorem mulByX_eq_dblSpec (b : Block) (h : b.length = 16) : mulByX b = dblSpec b := by
  obtain ⟨h1, h2⟩ := mulByX_shiftList b h
  obtain ⟨x0, l, rfl⟩ : ∃ x l, b = x :: l := by
    cases b with
    | nil => simp at h
    | cons x l => exact ⟨x, l, rfl⟩
  have hl : l.length = 15 := by simpa using h
  have hx0 : (x0 :: l).getD 0 0 = x0 := rfl
  rw [hx0] at h1
  generalize hI : (shiftList (x0 :: l)).take 15 = I at h1 h2
  generalize (x0 :: l).getD 15 0 = x15 at h1 h2
  have hIlen : I.length = 15 := by
    rw [← hI, List.length_take, shiftList_length, h]; rfl
  -- the number
  have hsum := two_mul_toNatBE x0 l
  have hN := Bytes.toNatBE_cons x0 l
  have hlt := Bytes.toNatBE_lt l
  rw [h2, Bytes.toNatBE_append_singleton] at hsum
  have hT := Bytes.toNatBE_lt I
  rw [hl] at hsum hN hlt
  rw [hIlen] at hT
  have e16 : (256 : Nat) ^ (15 + 1) = 340282366920938463463374607431768211456 := by decide
  have e15 : (256 : Nat) ^ 15 = 1329227995784915872903807060280344576 := by decide
  have e128 : (2 : Nat) ^ 128 = 340282366920938463463374607431768211456 := by decide
  have e127 : (2 : Nat) ^ 127 = 170141183460469231731687303715884105728 := by decide
  rw [e16] at hsum
  rw [e15] at hN hlt hT
  have hr := (x15 <<< 1).toNat_lt
  have hx := x0.toNat_lt
  have hofI : Bytes.ofNatBE 15 (Bytes.toNatBE I) = I := by
    have := Bytes.ofNatBE_toNatBE I
    rwa [hIlen] at this
  unfold dblSpec
  dsimp only
  rw [e128, e127, h1]
  generalize Bytes.toNatBE (x0 :: l) = N at hsum hN
  generalize Bytes.toNatBE l = N' at hN hlt
  generalize hTT : Bytes.toNatBE I = T at hsum hT hofI
  have hs : N * 2 % 340282366920938463463374607431768211456 = T * 256 + (x15 <<< 1).toNat := by
    omega
  rw [hs]
  by_cases hmsb : 128 ≤ x0.toNat
  · rw [if_pos ((u8_shr7_eq_one_iff x0).mpr hmsb), if_pos (by omega)]
    have h87 : (0x87 : Nat) = (0x87 : UInt8).toNat := by decide
    rw [Bytes.nat_xor_low _ _ _ hr (by decide),
      Bytes.ofNatBE_succ_mul_add 15 _ _ (Bytes.nat_xor_lt_256 _ _ hr (by decide)), hofI, h87,
      u8_ofNat_xor]
  · rw [if_neg (fun hh => hmsb ((u8_shr7_eq_one_iff x0).mp hh)), if_neg (by omega)]
    rw [Bytes.ofNatBE_succ_mul_add 15 _ _ hr, hofI, UInt8.ofNat_toNat, UInt8.xor_zero]

/-- the numeric form: `toNatBE (mulByX b) = (2·toNatBE b mod 2^128) xor (0x87 if msb)` -/
theorem toNatBE_mulByX (b : Block) (h : b.length = 16) :
    Bytes.toNatBE (mulByX b) =
      (if Bytes.toNatBE b ≥ 2 ^ 127 then (Bytes.toNatBE b * 2) % 2 ^ 128 ^^^ 0x87
       else (Bytes.toNatBE b * 2) % 2 ^ 128) := by
  rw [mulByX_eq_dblSpec b h]
  unfold dblSpec
  dsimp only
  rw [Bytes.toNatBE_ofNatBE]
  have e : (256 : Nat) ^ 16 = 2 ^ 128 := by decide
  rw [e]
  apply Nat.mod_eq_of_lt
  have hm : (Bytes.toNatBE b * 2) % 2 ^ 128 < 2 ^ 128 := Nat.mod_lt _ (Nat.two_pow_pos 128)
  split
  · exact Nat.xor_lt_two_pow hm (by decide)
  · exact hm

example : mulByX (Bytes.ofNatBE 16 (2 ^ 127 + 5)) = dblSpec (Bytes.ofNatBE 16 (2 ^ 127 + 5)) :=
  mulByX_eq_dblSpec _ (by simp)

end TinkVerif.Cmac

namespace TinkVerif.Siv
open TinkVerif TinkVerif.Cmac

/-! ## 2. `s2v` (Go, two branches) = RFC 5297 S2V -/

theorem compute_length (E : Block → Block) (hE : ∀ b, (E b).length = 16) (data : Bytes) :
    (compute E data).length = 16 := by
  unfold compute
  exact hE _

/-- `XORBytes(block, block, msg); block[len(msg)] ^= 0x80` is `block xor pad(msg)` -/
theorem xor_pad16 (b2 msg : Bytes) (hb : b2.length = 16) (hm : msg.length < 16) :
    Bytes.xor (b2.take msg.length) msg ++ [(b2.getD msg.length 0) ^^^ 0x80] ++
        b2.drop (msg.length + 1) = Bytes.xor b2 (pad16 msg) := by
  unfold pad16
  rw [Bytes.xor_append_right, Bytes.xor_append_right]
  simp only [List.length_append, List.length_singleton]
  rw [Bytes.xor_zeros_right _ _ (by rw [List.length_drop]; omega)]
  rw [List.take_take, Nat.min_eq_left (Nat.le_succ _), List.drop_take]
  have hdrop : b2.drop msg.length = b2[msg.length]'(by omega) :: b2.drop (msg.length + 1) :=
    List.drop_eq_getElem_cons (by omega)
  have hget : b2.getD msg.length 0 = b2[msg.length]'(by omega) := by
    rw [List.getD_eq_getElem?_getD, List.getElem?_eq_getElem (by omega)]; rfl
  rw [hdrop, hget, show msg.length + 1 - msg.length = 1 by omega]
  rw [show ∀ (a : UInt8) (l : Bytes), List.take 1 (a :: l) = [a] from fun _ _ => rfl,
    Bytes.xor_singleton]

/-- **`s2v` = RFC 5297 §2.4 S2V** (one associated-data string), for every block function with
    16-byte outputs and all `msg`, `ad`. -/
theorem s2v_eq_spec (E1 : Block → Block) (hE : ∀ b, (E1 b).length = 16) (msg ad : Bytes) :
    s2v E1 msg ad = s2vSpec E1 msg ad := by
  unfold s2v s2vSpec
  dsimp only
  have hD : (Bytes.xor (mulByX (compute E1 zero16)) (compute E1 ad)).length = 16 := by
    rw [Bytes.length_xor, mulByX_length, compute_length E1 hE]; rfl
  by_cases hlen : msg.length ≥ 16
  · rw [if_pos hlen, if_pos hlen, xorEndAndCompute_eq E1 msg _ hD hlen]
    rfl
  · rw [if_neg hlen, if_neg hlen, xor_pad16 _ msg (mulByX_length _) (by omega)]

/-- the short branch alone needs no hypothesis on `E1` -/
theorem s2v_eq_spec_short (E1 : Block → Block) (msg ad : Bytes) (h : msg.length < 16) :
    s2v E1 msg ad = s2vSpec E1 msg ad := by
  unfold s2v s2vSpec
  dsimp only
  rw [if_neg (by omega), if_neg (by omega), xor_pad16 _ msg (mulByX_length _) h]

/-- S2V written entirely in RFC terms: RFC 4493 `spec` for CMAC and RFC doubling `dblSpec` -/
theorem s2v_eq_rfc (E1 : Block → Block) (hE : ∀ b, (E1 b).length = 16) (msg ad : Bytes) :
    s2v E1 msg ad =
      (let D := Bytes.xor (dblSpec (spec E1 zero16)) (spec E1 ad)
       let T := if msg.length ≥ 16 then xorend msg D else Bytes.xor (dblSpec D) (pad16 msg)
       spec E1 T) := by
  rw [s2v_eq_spec E1 hE]
  unfold s2vSpec
  dsimp only
  have h0 : (compute E1 zero16).length = 16 := compute_length E1 hE _
  have hD : (Bytes.xor (mulByX (compute E1 zero16)) (compute E1 ad)).length = 16 := by
    rw [Bytes.length_xor, mulByX_length, compute_length E1 hE]; rfl
  rw [compute_eq_spec E1 _, mulByX_eq_dblSpec _ hD, mulByX_eq_dblSpec _ h0,
    compute_eq_spec E1 zero16, compute_eq_spec E1 ad]

theorem s2v_length (E1 : Block → Block) (hE : ∀ b, (E1 b).length = 16) (msg ad : Bytes) :
    (s2v E1 msg ad).length = 16 := by
  rw [s2v_eq_spec E1 hE]
  unfold s2vSpec
  exact compute_length E1 hE _

/-- the `hs` hypothesis of `decryptRaw_encryptRaw` (C08) is now discharged -/
theorem decryptRaw_encryptRaw' (E1 E2 : Block → Block) (hE1 : ∀ b, (E1 b).length = 16)
    (hE2 : ∀ b, (E2 b).length = 16) (pt ad : Bytes) :
    decryptRaw E1 E2 (encryptRaw E1 E2 pt ad) ad = some pt :=
  decryptRaw_encryptRaw E1 E2 hE2 pt ad (s2v_length E1 hE1 pt ad)

/-- non-vacuity: a 16-byte-output block function, both branches -/
example : s2v (fun b => (b ++ Bytes.zeros 16).take 16) (List.replicate 20 3) [1, 2] =
    s2vSpec (fun b => (b ++ Bytes.zeros 16).take 16) (List.replicate 20 3) [1, 2] :=
  s2v_eq_spec _ (by intro b; simp) _ _
example : s2v (fun b => (b ++ Bytes.zeros 16).take 16) [5, 6, 7] [1, 2] =
    s2vSpec (fun b => (b ++ Bytes.zeros 16).take 16) [5, 6, 7] [1, 2] :=
  s2v_eq_spec _ (by intro b; simp) _ _

/-- the length hypothesis on `E1` is necessary for the long branch: with a 1-byte block function
    the Go code would hit its `panic` (model: `getD []`), the RFC expression is still defined -/
example : s2v (fun _ => [1]) (List.replicate 16 0) [] ≠ s2vSpec (fun _ => [1]) (List.replicate 16 0) [] := by
  decide

end TinkVerif.Siv

namespace TinkVerif.Kwp
open TinkVerif

/-! ## 4. KWP: `Unwrap ∘ Wrap = id`, output length, size rejections -/

theorem semiblocks_length (b : Bytes) : (semiblocks b).length = b.length / 8 := by
  simp [semiblocks]

theorem semiblocks_mem_len (b : Bytes) (h : b.length % 8 = 0) :
    ∀ r ∈ semiblocks b, r.length = 8 := by
  intro r hr
  simp only [semiblocks, List.mem_map, List.mem_range] at hr
  obtain ⟨i, hi, rfl⟩ := hr
  rw [List.length_take, List.length_drop]
  omega

theorem flatten_blocks_aux (b : Bytes) (k : Nat) (hk : 8 * k ≤ b.length) :
    ((List.range k).map fun i => (b.drop (8 * i)).take 8).flatten = b.take (8 * k) := by
  induction k with
  | zero => simp
  | succ k ih =>
    rw [List.range_succ, List.map_append, List.flatten_append, ih (by omega)]
    simp only [List.map_cons, List.map_nil, List.flatten_cons, List.flatten_nil, List.append_nil]
    rw [show 8 * (k + 1) = 8 * k + 8 by omega, List.take_add]

/-- cutting a multiple-of-8 string into semiblocks and concatenating gives it back -/
theorem flatten_semiblocks (b : Bytes) (h : b.length % 8 = 0) : (semiblocks b).flatten = b := by
  unfold semiblocks
  rw [flatten_blocks_aux b _ (by omega), List.take_of_length_le (by omega)]

theorem flatten_length8 (R : List Bytes) (h : ∀ r ∈ R, r.length = 8) :
    R.flatten.length = 8 * R.length := by
  induction R with
  | nil => rfl
  | cons r R ih =>
    rw [List.flatten_cons, List.length_append, h r (List.mem_cons_self),
      ih (fun x hx => h x (List.mem_cons_of_mem _ hx)), List.length_cons]
    omega

/-- cutting a concatenation of 8-byte blocks recovers the blocks -/
theorem semiblocks_flatten (R : List Bytes) (h : ∀ r ∈ R, r.length = 8) :
    semiblocks R.flatten = R := by
  induction R with
  | nil => rfl
  | cons r R ih =>
    have hr : r.length = 8 := h r (List.mem_cons_self)
    have hR : ∀ x ∈ R, x.length = 8 := fun x hx => h x (List.mem_cons_of_mem _ hx)
    have ih' := ih hR
    unfold semiblocks at ih' ⊢
    rw [flatten_length8 _ h, List.length_cons, show 8 * (R.length + 1) / 8 = R.length + 1 by omega,
      List.range_succ_eq_map, List.map_cons, List.map_map]
    rw [flatten_length8 _ hR, show 8 * R.length / 8 = R.length by omega] at ih'
    congr 1
    · rw [List.flatten_cons, Nat.mul_zero, List.drop_zero, List.take_left' hr]
    · refine Eq.trans ?_ ih'
      apply List.map_congr_left
      intro i _
      simp only [Function.comp_apply, List.flatten_cons]
      rw [show 8 * i.succ = 8 + 8 * i by omega, ← List.drop_drop, List.drop_left' hr]

theorem aiv_length (n : Nat) : (aiv n).length = 8 := by simp [aiv, Bytes.be32]

theorem stepF_good' (E : Bytes → Bytes) (hE : ∀ b, b.length = 16 → (E b).length = 16) (n : Nat)
    (hn : 0 < n) (s : WState) (g : Good n s) (t : Nat) : Good n (stepF E n s t) := by
  have hj : (t - 1) % n < s.R.length := by rw [g.rn]; exact Nat.mod_lt _ hn
  have hin : (s.A ++ s.R.getD ((t - 1) % n) []).length = 16 := by
    rw [List.length_append, g.a8, getD_mem_len _ _ hj g.r8]
  have hB := hE _ hin
  refine ⟨?_, ?_, ?_⟩
  · simp only [stepF]
    exact xorCtr_length _ _ (by rw [List.length_take, hB]; rfl)
  · simp only [stepF, List.length_set]; exact g.rn
  · intro r hr
    simp only [stepF] at hr
    rcases List.mem_or_eq_of_mem_set hr with h | h
    · exact g.r8 r h
    · rw [h, List.length_drop, hB]

theorem W_good (E : Bytes → Bytes) (hE : ∀ b, b.length = 16 → (E b).length = 16) (s : WState)
    (hn : 0 < s.R.length) (g : Good s.R.length s) : Good s.R.length (W E s) := by
  unfold W
  generalize counters s.R.length = ts
  generalize hnn : s.R.length = n at g hn ⊢
  clear hnn
  induction ts generalizing s with
  | nil => exact g
  | cons t ts ih => exact ih _ (stepF_good' E hE n hn s g t)

/-- the state `Wrap` starts from -/
def wrapState (data : Bytes) : WState :=
  { A := aiv data.length,
    R := semiblocks (data ++ Bytes.zeros (wrappingSize data.length - 8 - data.length)) }

theorem padded_length (data : Bytes) :
    (data ++ Bytes.zeros (wrappingSize data.length - 8 - data.length)).length =
      wrappingSize data.length - 8 := by
  have := wrappingSize_mult8 data.length
  rw [List.length_append, Bytes.length_zeros]; omega

theorem wrapState_R_length (data : Bytes) :
    (wrapState data).R.length = (wrappingSize data.length - 8) / 8 := by
  unfold wrapState
  rw [semiblocks_length, padded_length]

theorem wrapState_good (data : Bytes) : Good (wrapState data).R.length (wrapState data) := by
  refine ⟨aiv_length _, rfl, ?_⟩
  apply semiblocks_mem_len
  have := wrappingSize_mult8 data.length
  rw [padded_length]; omega

theorem wrap_eq (E : Bytes → Bytes) (data : Bytes) (h1 : 16 ≤ data.length)
    (h2 : data.length ≤ 8192) :
    wrap E data = some ((W E (wrapState data)).A ++ (W E (wrapState data)).R.flatten) := by
  unfold wrap
  rw [if_neg (by omega), if_neg (by omega)]
  rfl

/-- the part of `Unwrap` after the inverse permutation: check the AIV, the encoded length and the
    zero padding, strip them -/
def decode (u : Bytes) : Option Bytes :=
  if u.take 4 ≠ [0xA6, 0x59, 0x59, 0xA6] then none
  else
    let encodedSize := Bytes.toNatBE ((u.drop 4).take 4)
    if wrappingSize encodedSize ≠ u.length then none
    else if (u.drop (8 + encodedSize)).any (· ≠ 0) then none
    else some ((u.drop 8).take encodedSize)

theorem unwrap_eq_decode (D : Bytes → Bytes) (w : Bytes) (h1 : wrappingSize 16 ≤ w.length)
    (h2 : w.length ≤ wrappingSize 8192) (h3 : w.length % 8 = 0) :
    unwrap D w =
      decode ((Winv D { A := w.take 8, R := semiblocks (w.drop 8) }).A ++
        (Winv D { A := w.take 8, R := semiblocks (w.drop 8) }).R.flatten) := by
  unfold unwrap
  rw [if_neg (by omega), if_neg (by omega), if_neg (by omega)]
  rfl

theorem decode_aiv (data : Bytes) (k : Nat) (h2 : data.length ≤ 8192)
    (hk : 8 + (data.length + k) = wrappingSize data.length) :
    decode (aiv data.length ++ (data ++ Bytes.zeros k)) = some data := by
  unfold decode aiv
  have e1 : (([0xA6, 0x59, 0x59, 0xA6] : Bytes) ++ Bytes.be32 data.length ++
      (data ++ Bytes.zeros k)).take 4 = [0xA6, 0x59, 0x59, 0xA6] := rfl
  have hbe : (Bytes.be32 data.length).length = 4 := by simp [Bytes.be32]
  have e2 : ((([0xA6, 0x59, 0x59, 0xA6] : Bytes) ++ Bytes.be32 data.length ++
      (data ++ Bytes.zeros k)).drop 4).take 4 = Bytes.be32 data.length := by
    rw [List.append_assoc, List.drop_left' (by rfl), List.take_left' hbe]
  have e3 : Bytes.toNatBE (Bytes.be32 data.length) = data.length := by
    unfold Bytes.be32
    rw [Bytes.toNatBE_ofNatBE]
    have : (256 : Nat) ^ 4 = 4294967296 := by decide
    rw [this]; omega
  have hpre : (([0xA6, 0x59, 0x59, 0xA6] : Bytes) ++ Bytes.be32 data.length).length = 8 := by
    rw [List.length_append, hbe]; rfl
  have e4 : (([0xA6, 0x59, 0x59, 0xA6] : Bytes) ++ Bytes.be32 data.length ++
      (data ++ Bytes.zeros k)).drop 8 = data ++ Bytes.zeros k := List.drop_left' hpre
  have e5 : (([0xA6, 0x59, 0x59, 0xA6] : Bytes) ++ Bytes.be32 data.length ++
      (data ++ Bytes.zeros k)).drop (8 + data.length) = Bytes.zeros k := by
    rw [← List.drop_drop, e4, List.drop_left]
  rw [e1, if_neg (by simp)]
  dsimp only
  rw [e2, e3, e4, e5, List.take_left]
  rw [if_neg (by
    rw [List.length_append, hpre, List.length_append, Bytes.length_zeros]; omega)]
  rw [if_neg (by simp [Bytes.zeros])]

/-- **`Unwrap(Wrap(data)) = data`** for every invertible 16-byte block function, under exactly the
    guards under which `Wrap` succeeds (16 ≤ |data| ≤ 8192). -/
theorem unwrap_wrap (E D : Bytes → Bytes) (hE : BlockPair E D) (data : Bytes)
    (h1 : 16 ≤ data.length) (h2 : data.length ≤ 8192) :
    (wrap E data).bind (unwrap D) = some data := by
  rw [wrap_eq E data h1 h2, Option.bind_some]
  have hws := wrappingSize_mult8 data.length
  have g0 := wrapState_good data
  have hRl := wrapState_R_length data
  have hn : 0 < (wrapState data).R.length := by rw [hRl]; omega
  have g := W_good E hE.len (wrapState data) hn g0
  have hinv := Winv_W E D hE (wrapState data) g0
  generalize W E (wrapState data) = s at g hinv
  have hfl : s.R.flatten.length = wrappingSize data.length - 8 := by
    rw [flatten_length8 _ g.r8, g.rn, hRl]; omega
  have e16 : wrappingSize 16 = 24 := by decide
  have e8192 : wrappingSize 8192 = 8200 := by decide
  have hlen : (s.A ++ s.R.flatten).length = wrappingSize data.length := by
    rw [List.length_append, g.a8, hfl]; omega
  rw [unwrap_eq_decode D _ (by omega) (by omega) (by omega)]
  rw [List.take_left' g.a8, List.drop_left' g.a8, semiblocks_flatten _ g.r8]
  have hs : ({ A := s.A, R := s.R } : WState) = s := rfl
  rw [hs, hinv]
  show decode (aiv data.length ++ (semiblocks _).flatten) = some data
  rw [flatten_semiblocks _ (by rw [padded_length]; omega)]
  exact decode_aiv data _ h2 (by omega)

/-- `Wrap` fails exactly on the two size errors -/
theorem wrap_eq_none_iff (E : Bytes → Bytes) (data : Bytes) :
    wrap E data = none ↔ (data.length < 16 ∨ 8192 < data.length) := by
  constructor
  · intro h
    by_cases h1 : 16 ≤ data.length
    · by_cases h2 : data.length ≤ 8192
      · rw [wrap_eq E data h1 h2] at h; cases h
      · exact Or.inr (by omega)
    · exact Or.inl (by omega)
  · unfold wrap
    rintro (h | h)
    · rw [if_pos h]
    · by_cases h1 : data.length < 16
      · rw [if_pos h1]
      · rw [if_neg h1, if_pos h]

/-- **|Wrap(data)| = wrappingSize |data|** = 8·⌈|data|/8⌉ + 8, for every block function with
    16-byte outputs on 16-byte inputs -/
theorem wrap_length (E : Bytes → Bytes) (hE : ∀ b, b.length = 16 → (E b).length = 16)
    (data w : Bytes) (h : wrap E data = some w) : w.length = wrappingSize data.length := by
  have hguard : ¬ (data.length < 16 ∨ 8192 < data.length) := by
    intro hg
    rw [(wrap_eq_none_iff E data).mpr hg] at h; cases h
  have h1 : 16 ≤ data.length := by omega
  have h2 : data.length ≤ 8192 := by omega
  rw [wrap_eq E data h1 h2] at h
  injection h with h
  subst h
  have hws := wrappingSize_mult8 data.length
  have hRl := wrapState_R_length data
  have hn : 0 < (wrapState data).R.length := by rw [hRl]; omega
  have g := W_good E hE (wrapState data) hn (wrapState_good data)
  rw [List.length_append, g.a8, flatten_length8 _ g.r8, g.rn, hRl]
  omega

/-- `Unwrap` rejects every input whose length is not a multiple of 8 … -/
theorem unwrap_bad_multiple (D : Bytes → Bytes) (w : Bytes) (h : w.length % 8 ≠ 0) :
    unwrap D w = none := by
  unfold unwrap
  by_cases h1 : w.length < wrappingSize 16
  · rw [if_pos h1]
  · rw [if_neg h1]
    by_cases h2 : w.length > wrappingSize 8192
    · rw [if_pos h2]
    · rw [if_neg h2, if_pos h]

/-- … or is shorter than 24 bytes … -/
theorem unwrap_too_short (D : Bytes → Bytes) (w : Bytes) (h : w.length < 24) :
    unwrap D w = none := by
  unfold unwrap
  rw [if_pos (by rw [show wrappingSize 16 = 24 by decide]; exact h)]

/-- … or longer than 8200 bytes. -/
theorem unwrap_too_long (D : Bytes → Bytes) (w : Bytes) (h : 8200 < w.length) :
    unwrap D w = none := by
  unfold unwrap
  have e16 : wrappingSize 16 = 24 := by decide
  have e8192 : wrappingSize 8192 = 8200 := by decide
  rw [if_neg (by omega), if_pos (by omega)]

/-- anything `Unwrap` accepts has a length in range and divisible by 8 -/
theorem unwrap_some_length (D : Bytes → Bytes) (w d : Bytes) (h : unwrap D w = some d) :
    24 ≤ w.length ∧ w.length ≤ 8200 ∧ w.length % 8 = 0 := by
  refine ⟨?_, ?_, ?_⟩
  · apply Decidable.byContradiction; intro hc
    rw [unwrap_too_short D w (by omega)] at h; cases h
  · apply Decidable.byContradiction; intro hc
    rw [unwrap_too_long D w (by omega)] at h; cases h
  · apply Decidable.byContradiction; intro hc
    rw [unwrap_bad_multiple D w hc] at h; cases h

/-- non-vacuity: an invertible 16-byte block function (byte reversal) -/
theorem blockPair_reverse : BlockPair List.reverse List.reverse :=
  ⟨fun b h => by simpa using h, fun b _ => List.reverse_reverse b⟩

example : (wrap List.reverse (List.replicate 17 5)).bind (unwrap List.reverse) =
    some (List.replicate 17 5) :=
  unwrap_wrap _ _ blockPair_reverse _ (by decide) (by decide)

example (w : Bytes) (h : wrap List.reverse (List.replicate 17 5) = some w) : w.length = 32 :=
  wrap_length _ blockPair_reverse.len _ w h

end TinkVerif.Kwp

section AxiomAudit
#print axioms TinkVerif.Cmac.xeLoop_eq
#print axioms TinkVerif.Cmac.xorEndAndCompute_eq
#print axioms TinkVerif.Cmac.xorEndAndCompute_bad_last
#print axioms TinkVerif.Cmac.xorEndAndCompute_short_data
#print axioms TinkVerif.Cmac.xorEndAndCompute_eq_none_iff
#print axioms TinkVerif.Cmac.xorEndAndCompute_eq_spec
#print axioms TinkVerif.Cmac.mulByX_length
#print axioms TinkVerif.Cmac.two_mul_toNatBE
#print axioms TinkVerif.Cmac.mulByX_eq_dblSpec
#print axioms TinkVerif.Cmac.toNatBE_mulByX
#print axioms TinkVerif.Bytes.ofNatBE_toNatBE
#print axioms TinkVerif.Siv.compute_length
#print axioms TinkVerif.Siv.xor_pad16
#print axioms TinkVerif.Siv.s2v_eq_spec
#print axioms TinkVerif.Siv.s2v_eq_spec_short
#print axioms TinkVerif.Siv.s2v_eq_rfc
#print axioms TinkVerif.Siv.s2v_length
#print axioms TinkVerif.Siv.decryptRaw_encryptRaw'
#print axioms TinkVerif.Kwp.flatten_semiblocks
#print axioms TinkVerif.Kwp.semiblocks_flatten
#print axioms TinkVerif.Kwp.unwrap_wrap
#print axioms TinkVerif.Kwp.wrap_eq_none_iff
#print axioms TinkVerif.Kwp.wrap_length
#print axioms TinkVerif.Kwp.unwrap_bad_multiple
#print axioms TinkVerif.Kwp.unwrap_too_short
#print axioms TinkVerif.Kwp.unwrap_too_long
#print axioms TinkVerif.Kwp.unwrap_some_length
end AxiomAudit
