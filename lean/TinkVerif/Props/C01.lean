import TinkVerif.Model.Aead

/-!
# C01 / C02 — AEAD: decrypts what it encrypts, in the documented wire format; accepts nothing else

Theorems are generic over the underlying block cipher / MAC / raw AEAD. What is *assumed* of a raw
AEAD is its own round-trip law and ciphertext expansion (`RawLaw`); everything tink-go adds — the
prefix framing, the CTR+HMAC composition, all of AES-GCM-SIV, the XAES key derivation, the envelope
framing — is proved.
-/
namespace TinkVerif.Aead
open TinkVerif

/-- keystream length for any 16-byte block generator -/
theorem stream_length (f : Nat → Bytes) (hf : ∀ i, (f i).length = 16) (n : Nat) :
    (((List.range ((n + 15) / 16)).flatMap f).take n).length = n := by
  rw [List.length_take]
  have : ((List.range ((n + 15) / 16)).flatMap f).length = 16 * ((n + 15) / 16) := by
    generalize (n + 15) / 16 = k
    induction k with
    | zero => simp
    | succ k ih =>
      rw [List.range_succ, List.flatMap_append, List.length_append, ih]
      simp [hf]; omega
  rw [this]; omega

theorem xorBE_length (E : Bytes → Bytes) (hE : ∀ b, (E b).length = 16) (iv data : Bytes) :
    (Ctr.xorBE E iv data).length = data.length := by
  unfold Ctr.xorBE Ctr.streamBE
  rw [Bytes.length_xor, stream_length _ (fun i => hE _)]; omega

theorem xorBE_involutive (E : Bytes → Bytes) (hE : ∀ b, (E b).length = 16) (iv data : Bytes) :
    Ctr.xorBE E iv (Ctr.xorBE E iv data) = data := by
  have hl := xorBE_length E hE iv data
  unfold Ctr.xorBE at hl ⊢
  rw [hl]
  unfold Ctr.streamBE
  exact Bytes.xor_xor_cancel _ _ (by rw [stream_length _ (fun i => hE _)]; exact Nat.le_refl _)

theorem xorLE32_length (E : Bytes → Bytes) (hE : ∀ b, (E b).length = 16) (iv data : Bytes) :
    (Ctr.xorLE32 E iv data).length = data.length := by
  unfold Ctr.xorLE32 Ctr.streamLE32
  rw [Bytes.length_xor, stream_length _ (fun i => hE _)]; omega

theorem xorLE32_involutive (E : Bytes → Bytes) (hE : ∀ b, (E b).length = 16) (iv data : Bytes) :
    Ctr.xorLE32 E iv (Ctr.xorLE32 E iv data) = data := by
  have hl := xorLE32_length E hE iv data
  unfold Ctr.xorLE32 at hl ⊢
  rw [hl]
  unfold Ctr.streamLE32
  exact Bytes.xor_xor_cancel _ _ (by rw [stream_length _ (fun i => hE _)]; exact Nat.le_refl _)

/-- CTR facts the round trip must not hide: counter block `i` is the IV plus `i` as a 128-bit
    big-endian integer (AES-CTR-HMAC, AES-SIV) … -/
theorem blockBE_spec (iv : Bytes) (i : Nat) :
    Bytes.toNatBE (Ctr.blockBE iv i) = (Bytes.toNatBE iv + i) % 2 ^ 128 := by
  unfold Ctr.blockBE
  rw [Bytes.toNatBE_ofNatBE]
  have : (256 : Nat) ^ 16 = 2 ^ 128 := by decide
  rw [this, Nat.mod_mod]

/-- … and for AES-GCM-SIV the first four bytes are a little-endian 32-bit counter that wraps while
    bytes 4..15 stay fixed. -/
theorem blockLE32_tail (iv : Bytes) (i : Nat) : (Ctr.blockLE32 iv i).drop 4 = iv.drop 4 := by
  unfold Ctr.blockLE32
  rw [List.drop_append_of_le_length (by simp), List.drop_of_length_le (by simp)]; rfl

/-! ## prefix ‖ nonce ‖ Seal (AES-GCM, ChaCha20-Poly1305, XChaCha20-Poly1305) -/

/-- what is assumed of a standard-library AEAD -/
structure RawLaw (r : Raw) : Prop where
  rt : ∀ n p a, n.length = r.nonceLen → r.openF n (r.sealF n p a) a = some p
  len : ∀ n p a, (r.sealF n p a).length = p.length + r.overhead

theorem Full.decrypt_encrypt (a : Full) (h : RawLaw a.raw) (rnd pt ad : Bytes)
    (hr : rnd.length = a.raw.nonceLen) : a.decrypt (a.encryptWith rnd pt ad) ad = some pt := by
  unfold Full.decrypt Full.encryptWith
  rw [if_neg (by simp [h.len, hr]; omega), if_neg (by simp)]
  simp only [List.append_assoc, List.drop_left]
  rw [← hr, List.take_left, List.drop_left]
  exact h.rt rnd pt ad hr

/-- the wire format: an independent decoder knows where to cut -/
theorem Full.layout (a : Full) (h : RawLaw a.raw) (rnd pt ad : Bytes) (hr : rnd.length = a.raw.nonceLen) :
    a.encryptWith rnd pt ad = a.pre ++ rnd ++ a.raw.sealF rnd pt ad ∧
    (a.encryptWith rnd pt ad).length = a.pre.length + a.raw.nonceLen + pt.length + a.raw.overhead := by
  refine ⟨rfl, ?_⟩
  simp [Full.encryptWith, h.len, hr]; omega

/-- **Characterisation of acceptance (C02).** -/
theorem Full.decrypt_iff (a : Full) (ct ad p : Bytes) :
    a.decrypt ct ad = some p ↔
      a.pre.length + a.raw.nonceLen + a.raw.overhead ≤ ct.length ∧ ct.take a.pre.length = a.pre ∧
      a.raw.openF ((ct.drop a.pre.length).take a.raw.nonceLen) ((ct.drop a.pre.length).drop a.raw.nonceLen) ad = some p := by
  unfold Full.decrypt
  constructor
  · intro h
    split at h
    · cases h
    · split at h
      · cases h
      · rename_i h1 h2
        exact ⟨by omega, by simpa using h2, h⟩
  · rintro ⟨h1, h2, h3⟩
    rw [if_neg (by omega), if_neg (by simp [h2])]
    exact h3

theorem Full.decrypt_short (a : Full) (ct ad : Bytes)
    (h : ct.length < a.pre.length + a.raw.nonceLen + a.raw.overhead) : a.decrypt ct ad = none := by
  simp [Full.decrypt, h]

theorem Full.decrypt_wrong_prefix (a : Full) (ct ad : Bytes) (h : ct.take a.pre.length ≠ a.pre) :
    a.decrypt ct ad = none := by
  unfold Full.decrypt; split <;> simp [h]

/-! ## AES-CTR-HMAC encrypt-then-MAC -/

theorem EtM.decrypt_encrypt (a : EtM) (hE : ∀ b, (a.E b).length = 16) (hm : ∀ x, a.tagLen ≤ (a.mac x).length)
    (iv pt ad : Bytes) (hiv : iv.length = a.ivLen) :
    a.decrypt (a.encryptWith iv pt ad) ad = some pt := by
  have hx := xorBE_length a.E hE (padIV iv) pt
  have htag : ((a.mac (EtM.macInput ad (iv ++ Ctr.xorBE a.E (padIV iv) pt))).take a.tagLen).length = a.tagLen := by
    rw [List.length_take]; exact Nat.min_eq_left (hm _)
  unfold EtM.decrypt EtM.encryptWith
  simp only
  have hlen : (a.pre ++ (iv ++ Ctr.xorBE a.E (padIV iv) pt) ++
      (a.mac (EtM.macInput ad (iv ++ Ctr.xorBE a.E (padIV iv) pt))).take a.tagLen).length
      = a.pre.length + (a.ivLen + pt.length) + a.tagLen := by
    simp only [List.length_append, hx, htag, hiv]
  rw [if_neg (by rw [hlen]; omega), if_neg (by simp [List.append_assoc])]
  rw [hlen]
  have e1 : a.pre.length + (a.ivLen + pt.length) + a.tagLen - a.pre.length - a.tagLen = a.ivLen + pt.length := by omega
  have e2 : a.pre.length + (a.ivLen + pt.length) + a.tagLen - a.tagLen = a.pre.length + (a.ivLen + pt.length) := by omega
  rw [e1, e2]
  have hpay : ((a.pre ++ (iv ++ Ctr.xorBE a.E (padIV iv) pt) ++
      (a.mac (EtM.macInput ad (iv ++ Ctr.xorBE a.E (padIV iv) pt))).take a.tagLen).drop a.pre.length).take (a.ivLen + pt.length)
      = iv ++ Ctr.xorBE a.E (padIV iv) pt := by
    rw [List.append_assoc, List.drop_left]
    exact List.take_left' (by simp only [List.length_append, hx, hiv])
  have htg : (a.pre ++ (iv ++ Ctr.xorBE a.E (padIV iv) pt) ++
      (a.mac (EtM.macInput ad (iv ++ Ctr.xorBE a.E (padIV iv) pt))).take a.tagLen).drop (a.pre.length + (a.ivLen + pt.length))
      = (a.mac (EtM.macInput ad (iv ++ Ctr.xorBE a.E (padIV iv) pt))).take a.tagLen := by
    exact List.drop_left' (by simp only [List.length_append, hx, hiv])
  rw [hpay, htg]
  simp only [ne_eq, not_true_eq_false, ↓reduceIte]
  rw [← hiv, List.take_left, List.drop_left, xorBE_involutive a.E hE]

/-- the MAC covers `ad ‖ iv ‖ ciphertext ‖ be64(8·|ad|)` and the tag is its leading `tagLen` bytes -/
theorem EtM.layout (a : EtM) (iv pt ad : Bytes) :
    a.encryptWith iv pt ad = a.pre ++ (iv ++ Ctr.xorBE a.E (padIV iv) pt) ++
      (a.mac (ad ++ (iv ++ Ctr.xorBE a.E (padIV iv) pt) ++ Bytes.be64 (8 * ad.length))).take a.tagLen := rfl

/-- **Characterisation (C02)**: plaintext is released only after the tag over (ad, payload, |ad|)
    has been verified. -/
theorem EtM.decrypt_iff (a : EtM) (ct ad p : Bytes) :
    a.decrypt ct ad = some p ↔
      a.pre.length + a.ivLen + a.tagLen ≤ ct.length ∧ ct.take a.pre.length = a.pre ∧
      (a.mac (EtM.macInput ad ((ct.drop a.pre.length).take (ct.length - a.pre.length - a.tagLen)))).take a.tagLen
        = ct.drop (ct.length - a.tagLen) ∧
      p = Ctr.xorBE a.E (padIV (((ct.drop a.pre.length).take (ct.length - a.pre.length - a.tagLen)).take a.ivLen))
            (((ct.drop a.pre.length).take (ct.length - a.pre.length - a.tagLen)).drop a.ivLen) := by
  unfold EtM.decrypt
  constructor
  · intro h
    split at h
    · cases h
    · split at h
      · cases h
      · rename_i h1 h2
        dsimp only at h
        split at h
        · cases h
        · rename_i h3
          cases h
          exact ⟨by omega, by simpa using h2, by simpa using h3, rfl⟩
  · rintro ⟨h1, h2, h3, h4⟩
    rw [if_neg (by omega), if_neg (by simp [h2])]
    dsimp only
    rw [if_neg (by simp [h3]), h4]

/-! ## AES-GCM-SIV -/

theorem GcmSiv.decrypt_encrypt (g : GcmSiv) (hA : ∀ k b, (g.aes k b).length = 16)
    (key nonce pt ad : Bytes) (hn : nonce.length = 12) :
    g.decrypt key (g.encryptWith key nonce pt ad) ad = some pt := by
  unfold GcmSiv.decrypt GcmSiv.encryptWith
  generalize hd : g.deriveKeys key nonce = d
  obtain ⟨auth, enc⟩ := d
  simp only
  have htl : (g.tag enc auth nonce pt ad).length = 16 := by unfold GcmSiv.tag; exact hA _ _
  have hbl := xorLE32_length (g.aes enc) (hA enc) (GcmSiv.ctrIV (g.tag enc auth nonce pt ad)) pt
  have hlen : (nonce ++ Ctr.xorLE32 (g.aes enc) (GcmSiv.ctrIV (g.tag enc auth nonce pt ad)) pt
      ++ g.tag enc auth nonce pt ad).length = 12 + pt.length + 16 := by
    simp only [List.length_append, hn, hbl, htl]
  rw [if_neg (by rw [hlen]; omega), hlen]
  have hnonce : (nonce ++ Ctr.xorLE32 (g.aes enc) (GcmSiv.ctrIV (g.tag enc auth nonce pt ad)) pt
      ++ g.tag enc auth nonce pt ad).take 12 = nonce := by
    rw [List.append_assoc, ← hn, List.take_left]
  have htag : (nonce ++ Ctr.xorLE32 (g.aes enc) (GcmSiv.ctrIV (g.tag enc auth nonce pt ad)) pt
      ++ g.tag enc auth nonce pt ad).drop (12 + pt.length + 16 - 16) = g.tag enc auth nonce pt ad := by
    exact List.drop_left' (by simp only [List.length_append, hn, hbl]; omega)
  have hbody : ((nonce ++ Ctr.xorLE32 (g.aes enc) (GcmSiv.ctrIV (g.tag enc auth nonce pt ad)) pt
      ++ g.tag enc auth nonce pt ad).drop 12).take (12 + pt.length + 16 - 28)
      = Ctr.xorLE32 (g.aes enc) (GcmSiv.ctrIV (g.tag enc auth nonce pt ad)) pt := by
    rw [List.append_assoc, List.drop_left' hn]
    exact List.take_left' (by rw [hbl]; omega)
  rw [hnonce, htag, hbody, hd]
  simp only
  rw [xorLE32_involutive (g.aes enc) (hA enc)]
  simp

theorem GcmSiv.layout (g : GcmSiv) (hA : ∀ k b, (g.aes k b).length = 16) (pre key nonce pt ad : Bytes)
    (hn : nonce.length = 12) :
    (g.fullEncryptWith pre key nonce pt ad).length = pre.length + 12 + pt.length + 16 ∧
    (g.fullEncryptWith pre key nonce pt ad).take pre.length = pre ∧
    ((g.fullEncryptWith pre key nonce pt ad).drop pre.length).take 12 = nonce := by
  unfold GcmSiv.fullEncryptWith GcmSiv.encryptWith
  generalize g.deriveKeys key nonce = d
  obtain ⟨auth, enc⟩ := d
  simp only
  have htl : (g.tag enc auth nonce pt ad).length = 16 := by unfold GcmSiv.tag; exact hA _ _
  have hbl := xorLE32_length (g.aes enc) (hA enc) (GcmSiv.ctrIV (g.tag enc auth nonce pt ad)) pt
  refine ⟨by simp only [List.length_append, hn, hbl, htl]; omega, List.take_left, ?_⟩
  rw [List.drop_left, List.append_assoc, ← hn, List.take_left]

theorem GcmSiv.full_decrypt_encrypt (g : GcmSiv) (hA : ∀ k b, (g.aes k b).length = 16)
    (pre key nonce pt ad : Bytes) (hn : nonce.length = 12) :
    g.fullDecrypt pre key (g.fullEncryptWith pre key nonce pt ad) ad = some pt := by
  have hl := (GcmSiv.layout g hA pre key nonce pt ad hn).1
  unfold GcmSiv.fullDecrypt
  rw [if_neg (by rw [hl]; omega), if_neg (by simp [GcmSiv.fullEncryptWith])]
  simp only [GcmSiv.fullEncryptWith, List.drop_left]
  exact GcmSiv.decrypt_encrypt g hA key nonce pt ad hn

/-- **Characterisation (C02)** for AES-GCM-SIV: the tag is recomputed over the decrypted plaintext. -/
theorem GcmSiv.decrypt_iff (g : GcmSiv) (key ct ad p : Bytes) :
    g.decrypt key ct ad = some p ↔
      28 ≤ ct.length ∧
      p = Ctr.xorLE32 (g.aes (g.deriveKeys key (ct.take 12)).2) (GcmSiv.ctrIV (ct.drop (ct.length - 16)))
            ((ct.drop 12).take (ct.length - 28)) ∧
      g.tag (g.deriveKeys key (ct.take 12)).2 (g.deriveKeys key (ct.take 12)).1 (ct.take 12) p ad
        = ct.drop (ct.length - 16) := by
  unfold GcmSiv.decrypt
  constructor
  · intro h
    split at h
    · cases h
    · dsimp only at h
      split at h
      · rename_i h1 h2
        cases h
        exact ⟨by omega, rfl, h2⟩
      · cases h
  · rintro ⟨h1, h2, h3⟩
    rw [if_neg (by omega)]
    dsimp only
    rw [← h2, if_pos h3]

/-! ## XAES-256-GCM -/

theorem Xaes.decrypt_encrypt (x : Xaes) (hg : ∀ k, RawLaw (x.gcm k)) (hnl : ∀ k, (x.gcm k).nonceLen = 12)
    (hov : ∀ k, (x.gcm k).overhead = 16) (rnd pt ad : Bytes) (hr : rnd.length = x.saltLen + 12) :
    x.decrypt (x.encryptWith rnd pt ad) ad = some pt := by
  unfold Xaes.decrypt Xaes.encryptWith
  have hl := (hg (xaesDeriveKey x.E (rnd.take x.saltLen))).len (rnd.drop x.saltLen) pt ad
  rw [if_neg (by simp only [List.length_append, hl, hov, hr]; omega), if_neg (by simp [List.append_assoc])]
  simp only [List.append_assoc, List.drop_left]
  have h1 : (rnd ++ (x.gcm (xaesDeriveKey x.E (rnd.take x.saltLen))).sealF (rnd.drop x.saltLen) pt ad).take x.saltLen
      = rnd.take x.saltLen := by
    rw [List.take_append_of_le_length (by omega)]
  have h2 : ((rnd ++ (x.gcm (xaesDeriveKey x.E (rnd.take x.saltLen))).sealF (rnd.drop x.saltLen) pt ad).drop x.saltLen).take 12
      = rnd.drop x.saltLen := by
    rw [List.drop_append_of_le_length (by omega), List.take_append_of_le_length (by simp; omega),
      List.take_of_length_le (by simp; omega)]
  have h3 : (rnd ++ (x.gcm (xaesDeriveKey x.E (rnd.take x.saltLen))).sealF (rnd.drop x.saltLen) pt ad).drop (x.saltLen + 12)
      = (x.gcm (xaesDeriveKey x.E (rnd.take x.saltLen))).sealF (rnd.drop x.saltLen) pt ad := by
    rw [← hr, List.drop_left]
  rw [h1, h2, h3]
  exact (hg _).rt _ pt ad (by rw [hnl]; simp; omega)

/-- the per-message key is CMAC(k, 00 01 'X' 00 ‖ salt₁₂) ‖ CMAC(k, 00 02 'X' 00 ‖ salt₁₂) -/
theorem xaes_key_derivation (E : Bytes → Bytes) (salt : Bytes) (h : salt.length ≤ 12) :
    xaesDeriveKey E salt =
      Cmac.compute E ([0x00, 0x01, 0x58, 0x00] ++ salt ++ Bytes.zeros (12 - salt.length)) ++
      Cmac.compute E ([0x00, 0x02, 0x58, 0x00] ++ salt ++ Bytes.zeros (12 - salt.length)) := by
  unfold xaesDeriveKey
  have : (salt ++ Bytes.zeros (12 - salt.length)).take 12 = salt ++ Bytes.zeros (12 - salt.length) :=
    List.take_of_length_le (by simp; omega)
  simp only [this, List.append_assoc]

/-! ## KMS envelope framing -/

theorem envelope_roundtrip (encDEK payload : Bytes) (h1 : 0 < encDEK.length) (h2 : encDEK.length ≤ 4096) :
    ∃ ct, envelopeSerialize encDEK payload = some ct ∧ envelopeParse ct = some (encDEK, payload) := by
  unfold envelopeSerialize
  rw [if_neg (by omega), if_neg (by omega)]
  refine ⟨_, rfl, ?_⟩
  unfold envelopeParse
  have hl4 : (Bytes.be32 encDEK.length).length = 4 := by simp [Bytes.be32]
  rw [if_neg (by simp only [List.length_append, hl4]; omega)]
  have ht : (Bytes.be32 encDEK.length ++ encDEK ++ payload).take 4 = Bytes.be32 encDEK.length := by
    rw [List.append_assoc, ← hl4, List.take_left]
  have hn : Bytes.toNatBE (Bytes.be32 encDEK.length) = encDEK.length := by
    unfold Bytes.be32; rw [Bytes.toNatBE_ofNatBE]
    exact Nat.mod_eq_of_lt (by have : (256 : Nat) ^ 4 = 4294967296 := by decide
                               omega)
  simp only [ht, hn]
  rw [if_neg (by simp only [List.length_append, hl4]; omega)]
  have hd : (Bytes.be32 encDEK.length ++ encDEK ++ payload).drop 4 = encDEK ++ payload := by
    rw [List.append_assoc, ← hl4, List.drop_left]
  rw [hd, List.take_left, List.drop_left]

/-- `parseEnvelope` rejects: ≤ 4 bytes, a zero or > 4096 or overlong DEK length field -/
theorem envelope_reject (ct : Bytes) :
    ct.length ≤ 4 ∨ Bytes.toNatBE (ct.take 4) = 0 ∨ Bytes.toNatBE (ct.take 4) > 4096 ∨
      Bytes.toNatBE (ct.take 4) > ct.length - 4 → envelopeParse ct = none := by
  intro h
  unfold envelopeParse
  by_cases h0 : ct.length ≤ 4
  · simp [h0]
  · rw [if_neg h0]
    rcases h with h | h | h | h
    · exact absurd h h0
    all_goals simp [h]

/-! non-vacuity: a raw AEAD satisfying `RawLaw` -/
def toyRaw : Raw :=
  { nonceLen := 2, overhead := 1, sealF := fun n p a => p ++ [UInt8.ofNat (n.length + a.length)],
    openF := fun n c a => if c.getLast? = some (UInt8.ofNat (n.length + a.length)) then some c.dropLast else none }

example : RawLaw toyRaw := ⟨by intro n p a _; simp [toyRaw], by intro n p a; simp [toyRaw]⟩

end TinkVerif.Aead

section AxiomAudit
open TinkVerif.Aead
#print axioms xorBE_involutive
#print axioms xorLE32_involutive
#print axioms blockBE_spec
#print axioms blockLE32_tail
#print axioms Full.decrypt_encrypt
#print axioms Full.layout
#print axioms Full.decrypt_iff
#print axioms Full.decrypt_short
#print axioms Full.decrypt_wrong_prefix
#print axioms EtM.decrypt_encrypt
#print axioms EtM.layout
#print axioms EtM.decrypt_iff
#print axioms GcmSiv.decrypt_encrypt
#print axioms GcmSiv.layout
#print axioms GcmSiv.full_decrypt_encrypt
#print axioms GcmSiv.decrypt_iff
#print axioms Xaes.decrypt_encrypt
#print axioms xaes_key_derivation
#print axioms envelope_roundtrip
#print axioms envelope_reject
end AxiomAudit
