import TinkVerif.Props.C10

/-!
# C10 (continued) — the FIPS 204 hint lemmas hold for the regenerated ML-DSA scalar functions

`Props/C10.lean` shows that each regenerated scalar function (`decompose`, `highBits`, `lowBits`,
`makeHint`, `useHint`, `power2Round`, `centeredAbs`, …; translated from
`/repo/internal/signature/mldsa/algebra.go` on every run) equals its FIPS 204 specification.  This
file proves the lemmas that *connect* them — the facts that make ML-DSA verification accept genuine
signatures (FIPS 204 §7.4; Dilithium specification Lemma 1 and Lemma 2) — for **every** field element
and both γ₂ ∈ {(q−1)/88, (q−1)/32}:

1. `useHint_makeHint`   : `UseHint(MakeHint(z, r), r) = HighBits(r + z)` whenever `‖z‖∞ ≤ γ₂`;
2. `useHint_close`      : `‖r − UseHint(h, r)·2γ₂‖∞ ≤ 2γ₂ + 1` for any hint, and `useHint_zero`;
3. `decompose_recompose`: `r ≡ r₁·2γ₂ + r₀`, `r₁ < (q−1)/(2γ₂)`, `‖r₀‖∞ ≤ γ₂`;
4. `lowBits_small_highBits_stable` : `‖s‖∞ ≤ β`, `‖LowBits(r)‖∞ < γ₂ − β` ⇒ `HighBits(r+s) = HighBits(r)`;
5. `power2Round_bound`  : `r = r₁·2¹³ + r₀` over ℤ with `−2¹² < r₀ ≤ 2¹²`.

Encoding conventions of the Go code, followed exactly: argument order is `makeHint z γ₂ r`,
`useHint r γ₂ h`, `highBits r γ₂`; "signed" quantities (`z`, `r₀`, `s`) are stored as field elements
(`x ≥ 0 ↦ x`, `x < 0 ↦ q + x`); the infinity norm is the regenerated `centeredAbs`; `decompose` folds
the top bucket `r − r₀ = q − 1` to `r₁ = 0`, `r₀ ↦ r₀ − 1`.

Proof method: `decompose_kt*` rewrites `decompose` in quotient/remainder form
(`a + γ₂ − 1 = k·2γ₂ + t`), after which every statement is a linear-arithmetic fact over plain
variables that `omega` decides once all `if`s are split.
-/
namespace TinkVerif.Gen.Mldsa
open TinkVerif

/-- centered representative of a field element, as an integer in [−(q−1)/2, (q−1)/2] -/
def centered (x : Nat) : Int := if 4190209 ≤ x then (x : Int) - 8380417 else (x : Int)

/-- the regenerated `centeredAbs` is the absolute value of the centered representative -/
theorem centeredAbs_centered (x : Nat) (hx : x < 8380417) : (centeredAbs x : Int) = (centered x).natAbs := by
  rw [centeredAbs_spec x hx]; unfold centered
  by_cases h : 4190209 ≤ x
  · simp only [ge_iff_le, h, ↓reduceIte]; omega
  · simp only [ge_iff_le, h, ↓reduceIte]; omega

/-- `centeredAbs z ≤ g` says exactly that `z` encodes an integer in `[−g, g]` -/
theorem centeredAbs_le_iff (z g : Nat) (hz : z < 8380417) (hg : g ≤ 4190208) :
    centeredAbs z ≤ g ↔ (z ≤ g ∨ 8380417 - g ≤ z) := by
  rw [centeredAbs_spec z hz]
  split <;> omega

/-! ### γ₂ = (q−1)/88 = 95232, 2γ₂ = 190464, (q−1)/(2γ₂) = 44 -/

theorem exists_kt88 (a : Nat) : ∃ k t, a + 95231 = k * 190464 + t ∧ t < 190464 :=
  ⟨(a + 95231) / 190464, (a + 95231) % 190464, by omega, by omega⟩

/-- `decompose` in quotient/remainder form: with `a + (γ₂−1) = k·2γ₂ + t`, `t < 2γ₂`, the high part is
    `k` (folded to 0 in the top bucket `k = 44`) and the low part is the field encoding of
    `t − (γ₂−1)` (of `a − q` in the top bucket). -/
theorem decompose_kt88 (a k t : Nat) (ha : a < 8380417) (h : a + 95231 = k * 190464 + t) (ht : t < 190464) :
    (decompose a 95232).1 = (if k = 44 then 0 else k) ∧
    (decompose a 95232).2 = (if k = 44 then a else (if 95231 ≤ t then t - 95231 else t + 8285186)) := by
  have hk : (a + 95231) / 190464 = k := by omega
  rw [decompose_spec88 a ha, hk]
  by_cases h44 : k = 44
  · simp only [h44, ↓reduceIte, and_self]
  · simp only [h44, ↓reduceIte, true_and]
    by_cases h5 : 95231 ≤ t
    · simp only [h5, ↓reduceIte]; omega
    · simp only [h5, ↓reduceIte]; omega

theorem succ_mod44 (x : Nat) (hx : x ≤ 43) : (x + 1) % 44 = if x = 43 then 0 else x + 1 := by
  split <;> omega
theorem pred_mod44 (x : Nat) (hx : x ≤ 43) : (x + 43) % 44 = if x = 0 then 43 else x - 1 := by
  split <;> omega

/-! #### 1. UseHint ∘ MakeHint -/

theorem uh_core88 (r z w k t k' t' : Nat) (hr : r < 8380417) (hwlt : w < 8380417)
    (hz : z ≤ 95232 ∨ (8380417 - 95232 ≤ z ∧ z < 8380417))
    (hw : w = (r + z) % 8380417)
    (h1 : r + 95231 = k * 190464 + t) (ht : t < 190464)
    (h2 : w + 95231 = k' * 190464 + t') (ht' : t' < 190464) :
    (if (if (if k = 44 then 0 else k) ≠ (if k' = 44 then 0 else k') then 1 else 0) = 1 then
      (if 0 < (if k = 44 then r else (if 95231 ≤ t then t - 95231 else t + 8285186)) ∧
          (if k = 44 then r else (if 95231 ≤ t then t - 95231 else t + 8285186)) < 8285185
       then ((if k = 44 then 0 else k) + 1) % 44 else ((if k = 44 then 0 else k) + 43) % 44)
     else (if k = 44 then 0 else k))
      = (if k' = 44 then 0 else k') := by
  have hw' : w = r + z ∨ w + 8380417 = r + z := by omega
  clear hw
  have hR : (if k = 44 then 0 else k) ≤ 43 := by split <;> omega
  rw [succ_mod44 _ hR, pred_mod44 _ hR]
  by_cases a : k = 44 <;> by_cases b : k' = 44 <;> by_cases c : 95231 ≤ t <;>
    simp only [a, b, c, ↓reduceIte] <;> (repeat' split) <;> omega

/-- **FIPS 204 §7.4 / Dilithium Lemma 1.1**, γ₂ = (q−1)/88: for every `r ∈ Z_q` and every `z` with
    `‖z‖∞ ≤ γ₂` (field encoding), the hint produced by `makeHint` lets `useHint` recover
    `HighBits(r + z)` from `r` alone. -/
theorem useHint_makeHint88 (r z : Nat) (hr : r < 8380417)
    (hz : z ≤ 95232 ∨ (8380417 - 95232 ≤ z ∧ z < 8380417)) :
    useHint r 95232 (makeHint z 95232 r) = highBits (add r z) 95232 := by
  have hzq : z < 8380417 := by omega
  have hw := add_spec r z hr hzq
  have hwlt := add_lt r z hr hzq
  rw [useHint_spec88 _ _ hr, makeHint_spec, highBits_eq, highBits_eq]
  generalize add r z = w at hw hwlt ⊢
  obtain ⟨k, t, h1, ht⟩ := exists_kt88 r
  obtain ⟨k', t', h2, ht'⟩ := exists_kt88 w
  obtain ⟨e1, e2⟩ := decompose_kt88 r k t hr h1 ht
  obtain ⟨e3, -⟩ := decompose_kt88 w k' t' hwlt h2 ht'
  rw [e1, e2, e3]
  exact uh_core88 r z w k t k' t' hr hwlt hz hw h1 ht h2 ht'

/-! #### 2. UseHint stays close -/

theorem close_core88 (r h k t : Nat) (hr : r < 8380417)
    (h1 : r + 95231 = k * 190464 + t) (ht : t < 190464) (v : Nat)
    (hv : v = (if h = 1 then
      (if 0 < (if k = 44 then r else (if 95231 ≤ t then t - 95231 else t + 8285186)) ∧
          (if k = 44 then r else (if 95231 ≤ t then t - 95231 else t + 8285186)) < 8285185
       then ((if k = 44 then 0 else k) + 1) % 44 else ((if k = 44 then 0 else k) + 43) % 44)
     else (if k = 44 then 0 else k))) :
    v < 44 ∧ ((r + 8380417 - v * 190464) % 8380417 ≤ 190465 ∨
      8380417 - 190465 ≤ (r + 8380417 - v * 190464) % 8380417) := by
  have hR : (if k = 44 then 0 else k) ≤ 43 := by split <;> omega
  rw [succ_mod44 _ hR, pred_mod44 _ hR] at hv
  by_cases a : k = 44 <;> by_cases c : 95231 ≤ t <;> by_cases d : h = 1 <;>
    simp only [a, c, d, ↓reduceIte] at hv <;> (repeat' split at hv) <;> omega

/-- **Dilithium Lemma 1.2**, γ₂ = (q−1)/88: for any hint value `h` (0, 1 or anything else) the result
    `v₁ = useHint r h` is a valid high part (`< 44`) and `r − v₁·2γ₂ (mod q)` is the field encoding of
    an integer of absolute value `≤ 2γ₂ + 1`. -/
theorem useHint_close88 (r h : Nat) (hr : r < 8380417) :
    useHint r 95232 h < 44 ∧
    ((r + 8380417 - useHint r 95232 h * 190464) % 8380417 ≤ 190465 ∨
      8380417 - 190465 ≤ (r + 8380417 - useHint r 95232 h * 190464) % 8380417) := by
  obtain ⟨k, t, h1, ht⟩ := exists_kt88 r
  obtain ⟨e1, e2⟩ := decompose_kt88 r k t hr h1 ht
  have hv := useHint_spec88 r h hr
  rw [e1, e2] at hv
  exact close_core88 r h k t hr h1 ht _ hv

/-- the same, phrased entirely with the regenerated field operations and the regenerated norm -/
theorem useHint_close_norm88 (r h : Nat) (hr : r < 8380417) :
    centeredAbs (sub r (mul (useHint r 95232 h) 190464)) ≤ 190465 := by
  obtain ⟨hv, hc⟩ := useHint_close88 r h hr
  generalize useHint r 95232 h = v at hv hc
  have hvq : v < 8380417 := by omega
  have hm := mul_spec v 190464 hvq (by decide)
  have hml := mul_lt v 190464 hvq (by decide)
  have hsl := sub_lt r _ hr hml
  have hmm : v * 190464 % 8380417 = v * 190464 := by omega
  have hs : sub r (mul v 190464) = (r + 8380417 - v * 190464) % 8380417 := by
    rw [sub_spec r _ hr hml, hm, hmm]
  rw [centeredAbs_spec _ hsl, hs]
  split <;> omega

theorem useHint_zero88 (r : Nat) (hr : r < 8380417) : useHint r 95232 0 = highBits r 95232 := by
  rw [useHint_spec88 r 0 hr, highBits_eq, if_neg (by decide)]

/-! #### 3. Decompose recomposes -/

theorem decompose_recompose88 (a : Nat) (ha : a < 8380417) :
    (highBits a 95232 * 190464 + lowBits a 95232) % 8380417 = a ∧ highBits a 95232 < 44 ∧
    lowBits a 95232 < 8380417 ∧ centeredAbs (lowBits a 95232) ≤ 95232 := by
  obtain ⟨f1, f2, f3, f4⟩ := decompose_fips88 a ha
  rw [highBits_eq, lowBits_eq, centeredAbs_spec _ f2]
  refine ⟨f3, f1, f2, ?_⟩
  split <;> omega

theorem recompose_int_core88 (a k t : Nat) (ha : a < 8380417) (h1 : a + 95231 = k * 190464 + t) (ht : t < 190464)
    (r1 r0 : Nat) (e1 : r1 = (if k = 44 then 0 else k))
    (e2 : r0 = (if k = 44 then a else (if 95231 ≤ t then t - 95231 else t + 8285186))) :
    ((r1 : Int) * 190464 + centered r0 = a ∨
      (r1 = 0 ∧ centered r0 = (a : Int) - 8380417 ∧ 8380417 - 95232 ≤ a)) ∧
    -95232 ≤ centered r0 ∧ centered r0 ≤ 95232 := by
  unfold centered
  by_cases a44 : k = 44 <;> by_cases c : 95231 ≤ t <;> simp only [a44, c, ↓reduceIte] at e1 e2 <;>
    rw [e1, e2] <;> (repeat' split) <;> omega

/-- integer form: over ℤ, `a = r₁·2γ₂ + r₀` with `−γ₂ ≤ r₀ ≤ γ₂`, except in the folded top bucket
    (`a ≥ q − γ₂`) where `r₁ = 0` and `r₀ = a − q` -/
theorem decompose_recompose_int88 (a : Nat) (ha : a < 8380417) :
    ((highBits a 95232 : Int) * 190464 + centered (lowBits a 95232) = a ∨
      (highBits a 95232 = 0 ∧ centered (lowBits a 95232) = (a : Int) - 8380417 ∧ 8380417 - 95232 ≤ a)) ∧
    -95232 ≤ centered (lowBits a 95232) ∧ centered (lowBits a 95232) ≤ 95232 := by
  obtain ⟨k, t, h1, ht⟩ := exists_kt88 a
  obtain ⟨e1, e2⟩ := decompose_kt88 a k t ha h1 ht
  rw [highBits_eq, lowBits_eq]
  exact recompose_int_core88 a k t ha h1 ht _ _ e1 e2

/-! #### 4. small low bits ⇒ high bits stable -/

theorem stable_core88 (r s w β k t k' t' : Nat) (hr : r < 8380417) (hs : s < 8380417) (hwlt : w < 8380417)
    (hw : w = (r + s) % 8380417)
    (h1 : r + 95231 = k * 190464 + t) (ht : t < 190464)
    (h2 : w + 95231 = k' * 190464 + t') (ht' : t' < 190464)
    (hsβ : (if s ≥ 4190209 then 8380417 - s else s) ≤ β) (x : Nat)
    (hx : x = (if k = 44 then r else (if 95231 ≤ t then t - 95231 else t + 8285186)))
    (hlow : (if x ≥ 4190209 then 8380417 - x else x) + β < 95232) :
    (if k' = 44 then 0 else k') = (if k = 44 then 0 else k) := by
  have hw' : w = r + s ∨ w + 8380417 = r + s := by omega
  clear hw
  by_cases a : k = 44 <;> by_cases b : k' = 44 <;> by_cases c : 95231 ≤ t <;>
    by_cases d : s ≥ 4190209 <;> by_cases e : x ≥ 4190209 <;>
    simp only [a, b, c, d, e, ↓reduceIte] at hx hsβ hlow ⊢ <;> omega

/-- **Dilithium Lemma 1.3**, γ₂ = (q−1)/88: if `‖s‖∞ ≤ β` and `‖LowBits(r)‖∞ < γ₂ − β` then
    `HighBits(r + s) = HighBits(r)` (any `β`; the hypothesis is unsatisfiable for `β ≥ γ₂`). -/
theorem lowBits_small_highBits_stable88 (r s β : Nat) (hr : r < 8380417) (hs : s < 8380417)
    (hsβ : centeredAbs s ≤ β) (hlow : centeredAbs (lowBits r 95232) + β < 95232) :
    highBits (add r s) 95232 = highBits r 95232 := by
  have hw := add_spec r s hr hs
  have hwlt := add_lt r s hr hs
  generalize add r s = w at hw hwlt ⊢
  obtain ⟨k, t, h1, ht⟩ := exists_kt88 r
  obtain ⟨k', t', h2, ht'⟩ := exists_kt88 w
  obtain ⟨e1, e2⟩ := decompose_kt88 r k t hr h1 ht
  obtain ⟨e3, -⟩ := decompose_kt88 w k' t' hwlt h2 ht'
  have hl := (decompose_fips88 r hr).2.1
  rw [lowBits_eq] at hlow
  rw [centeredAbs_spec _ hl] at hlow
  rw [centeredAbs_spec s hs] at hsβ
  rw [highBits_eq, highBits_eq, e1, e3]
  exact stable_core88 r s w β k t k' t' hr hs hwlt hw h1 ht h2 ht' hsβ _ e2 hlow

/-! ### γ₂ = (q−1)/32 = 261888, 2γ₂ = 523776, (q−1)/(2γ₂) = 16 -/

theorem exists_kt32 (a : Nat) : ∃ k t, a + 261887 = k * 523776 + t ∧ t < 523776 :=
  ⟨(a + 261887) / 523776, (a + 261887) % 523776, by omega, by omega⟩

/-- `decompose` in quotient/remainder form: with `a + (γ₂−1) = k·2γ₂ + t`, `t < 2γ₂`, the high part is
    `k` (folded to 0 in the top bucket `k = 16`) and the low part is the field encoding of
    `t − (γ₂−1)` (of `a − q` in the top bucket). -/
theorem decompose_kt32 (a k t : Nat) (ha : a < 8380417) (h : a + 261887 = k * 523776 + t) (ht : t < 523776) :
    (decompose a 261888).1 = (if k = 16 then 0 else k) ∧
    (decompose a 261888).2 = (if k = 16 then a else (if 261887 ≤ t then t - 261887 else t + 8118530)) := by
  have hk : (a + 261887) / 523776 = k := by omega
  rw [decompose_spec32 a ha, hk]
  by_cases h44 : k = 16
  · simp only [h44, ↓reduceIte, and_self]
  · simp only [h44, ↓reduceIte, true_and]
    by_cases h5 : 261887 ≤ t
    · simp only [h5, ↓reduceIte]; omega
    · simp only [h5, ↓reduceIte]; omega

theorem succ_mod16 (x : Nat) (hx : x ≤ 15) : (x + 1) % 16 = if x = 15 then 0 else x + 1 := by
  split <;> omega
theorem pred_mod16 (x : Nat) (hx : x ≤ 15) : (x + 15) % 16 = if x = 0 then 15 else x - 1 := by
  split <;> omega

/-! #### 1. UseHint ∘ MakeHint -/

theorem uh_core32 (r z w k t k' t' : Nat) (hr : r < 8380417) (hwlt : w < 8380417)
    (hz : z ≤ 261888 ∨ (8380417 - 261888 ≤ z ∧ z < 8380417))
    (hw : w = (r + z) % 8380417)
    (h1 : r + 261887 = k * 523776 + t) (ht : t < 523776)
    (h2 : w + 261887 = k' * 523776 + t') (ht' : t' < 523776) :
    (if (if (if k = 16 then 0 else k) ≠ (if k' = 16 then 0 else k') then 1 else 0) = 1 then
      (if 0 < (if k = 16 then r else (if 261887 ≤ t then t - 261887 else t + 8118530)) ∧
          (if k = 16 then r else (if 261887 ≤ t then t - 261887 else t + 8118530)) < 8118529
       then ((if k = 16 then 0 else k) + 1) % 16 else ((if k = 16 then 0 else k) + 15) % 16)
     else (if k = 16 then 0 else k))
      = (if k' = 16 then 0 else k') := by
  have hw' : w = r + z ∨ w + 8380417 = r + z := by omega
  clear hw
  have hR : (if k = 16 then 0 else k) ≤ 15 := by split <;> omega
  rw [succ_mod16 _ hR, pred_mod16 _ hR]
  by_cases a : k = 16 <;> by_cases b : k' = 16 <;> by_cases c : 261887 ≤ t <;>
    simp only [a, b, c, ↓reduceIte] <;> (repeat' split) <;> omega

/-- **FIPS 204 §7.4 / Dilithium Lemma 1.1**, γ₂ = (q−1)/32: for every `r ∈ Z_q` and every `z` with
    `‖z‖∞ ≤ γ₂` (field encoding), the hint produced by `makeHint` lets `useHint` recover
    `HighBits(r + z)` from `r` alone. -/
theorem useHint_makeHint32 (r z : Nat) (hr : r < 8380417)
    (hz : z ≤ 261888 ∨ (8380417 - 261888 ≤ z ∧ z < 8380417)) :
    useHint r 261888 (makeHint z 261888 r) = highBits (add r z) 261888 := by
  have hzq : z < 8380417 := by omega
  have hw := add_spec r z hr hzq
  have hwlt := add_lt r z hr hzq
  rw [useHint_spec32 _ _ hr, makeHint_spec, highBits_eq, highBits_eq]
  generalize add r z = w at hw hwlt ⊢
  obtain ⟨k, t, h1, ht⟩ := exists_kt32 r
  obtain ⟨k', t', h2, ht'⟩ := exists_kt32 w
  obtain ⟨e1, e2⟩ := decompose_kt32 r k t hr h1 ht
  obtain ⟨e3, -⟩ := decompose_kt32 w k' t' hwlt h2 ht'
  rw [e1, e2, e3]
  exact uh_core32 r z w k t k' t' hr hwlt hz hw h1 ht h2 ht'

/-! #### 2. UseHint stays close -/

theorem close_core32 (r h k t : Nat) (hr : r < 8380417)
    (h1 : r + 261887 = k * 523776 + t) (ht : t < 523776) (v : Nat)
    (hv : v = (if h = 1 then
      (if 0 < (if k = 16 then r else (if 261887 ≤ t then t - 261887 else t + 8118530)) ∧
          (if k = 16 then r else (if 261887 ≤ t then t - 261887 else t + 8118530)) < 8118529
       then ((if k = 16 then 0 else k) + 1) % 16 else ((if k = 16 then 0 else k) + 15) % 16)
     else (if k = 16 then 0 else k))) :
    v < 16 ∧ ((r + 8380417 - v * 523776) % 8380417 ≤ 523777 ∨
      8380417 - 523777 ≤ (r + 8380417 - v * 523776) % 8380417) := by
  have hR : (if k = 16 then 0 else k) ≤ 15 := by split <;> omega
  rw [succ_mod16 _ hR, pred_mod16 _ hR] at hv
  by_cases a : k = 16 <;> by_cases c : 261887 ≤ t <;> by_cases d : h = 1 <;>
    simp only [a, c, d, ↓reduceIte] at hv <;> (repeat' split at hv) <;> omega

/-- **Dilithium Lemma 1.2**, γ₂ = (q−1)/32: for any hint value `h` (0, 1 or anything else) the result
    `v₁ = useHint r h` is a valid high part (`< 16`) and `r − v₁·2γ₂ (mod q)` is the field encoding of
    an integer of absolute value `≤ 2γ₂ + 1`. -/
theorem useHint_close32 (r h : Nat) (hr : r < 8380417) :
    useHint r 261888 h < 16 ∧
    ((r + 8380417 - useHint r 261888 h * 523776) % 8380417 ≤ 523777 ∨
      8380417 - 523777 ≤ (r + 8380417 - useHint r 261888 h * 523776) % 8380417) := by
  obtain ⟨k, t, h1, ht⟩ := exists_kt32 r
  obtain ⟨e1, e2⟩ := decompose_kt32 r k t hr h1 ht
  have hv := useHint_spec32 r h hr
  rw [e1, e2] at hv
  exact close_core32 r h k t hr h1 ht _ hv

/-- the same, phrased entirely with the regenerated field operations and the regenerated norm -/
theorem useHint_close_norm32 (r h : Nat) (hr : r < 8380417) :
    centeredAbs (sub r (mul (useHint r 261888 h) 523776)) ≤ 523777 := by
  obtain ⟨hv, hc⟩ := useHint_close32 r h hr
  generalize useHint r 261888 h = v at hv hc
  have hvq : v < 8380417 := by omega
  have hm := mul_spec v 523776 hvq (by decide)
  have hml := mul_lt v 523776 hvq (by decide)
  have hsl := sub_lt r _ hr hml
  have hmm : v * 523776 % 8380417 = v * 523776 := by omega
  have hs : sub r (mul v 523776) = (r + 8380417 - v * 523776) % 8380417 := by
    rw [sub_spec r _ hr hml, hm, hmm]
  rw [centeredAbs_spec _ hsl, hs]
  split <;> omega

theorem useHint_zero32 (r : Nat) (hr : r < 8380417) : useHint r 261888 0 = highBits r 261888 := by
  rw [useHint_spec32 r 0 hr, highBits_eq, if_neg (by decide)]

/-! #### 3. Decompose recomposes -/

theorem decompose_recompose32 (a : Nat) (ha : a < 8380417) :
    (highBits a 261888 * 523776 + lowBits a 261888) % 8380417 = a ∧ highBits a 261888 < 16 ∧
    lowBits a 261888 < 8380417 ∧ centeredAbs (lowBits a 261888) ≤ 261888 := by
  obtain ⟨f1, f2, f3, f4⟩ := decompose_fips32 a ha
  rw [highBits_eq, lowBits_eq, centeredAbs_spec _ f2]
  refine ⟨f3, f1, f2, ?_⟩
  split <;> omega

theorem recompose_int_core32 (a k t : Nat) (ha : a < 8380417) (h1 : a + 261887 = k * 523776 + t) (ht : t < 523776)
    (r1 r0 : Nat) (e1 : r1 = (if k = 16 then 0 else k))
    (e2 : r0 = (if k = 16 then a else (if 261887 ≤ t then t - 261887 else t + 8118530))) :
    ((r1 : Int) * 523776 + centered r0 = a ∨
      (r1 = 0 ∧ centered r0 = (a : Int) - 8380417 ∧ 8380417 - 261888 ≤ a)) ∧
    -261888 ≤ centered r0 ∧ centered r0 ≤ 261888 := by
  unfold centered
  by_cases a16 : k = 16 <;> by_cases c : 261887 ≤ t <;> simp only [a16, c, ↓reduceIte] at e1 e2 <;>
    rw [e1, e2] <;> (repeat' split) <;> omega

/-- integer form: over ℤ, `a = r₁·2γ₂ + r₀` with `−γ₂ ≤ r₀ ≤ γ₂`, except in the folded top bucket
    (`a ≥ q − γ₂`) where `r₁ = 0` and `r₀ = a − q` -/
theorem decompose_recompose_int32 (a : Nat) (ha : a < 8380417) :
    ((highBits a 261888 : Int) * 523776 + centered (lowBits a 261888) = a ∨
      (highBits a 261888 = 0 ∧ centered (lowBits a 261888) = (a : Int) - 8380417 ∧ 8380417 - 261888 ≤ a)) ∧
    -261888 ≤ centered (lowBits a 261888) ∧ centered (lowBits a 261888) ≤ 261888 := by
  obtain ⟨k, t, h1, ht⟩ := exists_kt32 a
  obtain ⟨e1, e2⟩ := decompose_kt32 a k t ha h1 ht
  rw [highBits_eq, lowBits_eq]
  exact recompose_int_core32 a k t ha h1 ht _ _ e1 e2

/-! #### 4. small low bits ⇒ high bits stable -/

theorem stable_core32 (r s w β k t k' t' : Nat) (hr : r < 8380417) (hs : s < 8380417) (hwlt : w < 8380417)
    (hw : w = (r + s) % 8380417)
    (h1 : r + 261887 = k * 523776 + t) (ht : t < 523776)
    (h2 : w + 261887 = k' * 523776 + t') (ht' : t' < 523776)
    (hsβ : (if s ≥ 4190209 then 8380417 - s else s) ≤ β) (x : Nat)
    (hx : x = (if k = 16 then r else (if 261887 ≤ t then t - 261887 else t + 8118530)))
    (hlow : (if x ≥ 4190209 then 8380417 - x else x) + β < 261888) :
    (if k' = 16 then 0 else k') = (if k = 16 then 0 else k) := by
  have hw' : w = r + s ∨ w + 8380417 = r + s := by omega
  clear hw
  by_cases a : k = 16 <;> by_cases b : k' = 16 <;> by_cases c : 261887 ≤ t <;>
    by_cases d : s ≥ 4190209 <;> by_cases e : x ≥ 4190209 <;>
    simp only [a, b, c, d, e, ↓reduceIte] at hx hsβ hlow ⊢ <;> omega

/-- **Dilithium Lemma 1.3**, γ₂ = (q−1)/32: if `‖s‖∞ ≤ β` and `‖LowBits(r)‖∞ < γ₂ − β` then
    `HighBits(r + s) = HighBits(r)` (any `β`; the hypothesis is unsatisfiable for `β ≥ γ₂`). -/
theorem lowBits_small_highBits_stable32 (r s β : Nat) (hr : r < 8380417) (hs : s < 8380417)
    (hsβ : centeredAbs s ≤ β) (hlow : centeredAbs (lowBits r 261888) + β < 261888) :
    highBits (add r s) 261888 = highBits r 261888 := by
  have hw := add_spec r s hr hs
  have hwlt := add_lt r s hr hs
  generalize add r s = w at hw hwlt ⊢
  obtain ⟨k, t, h1, ht⟩ := exists_kt32 r
  obtain ⟨k', t', h2, ht'⟩ := exists_kt32 w
  obtain ⟨e1, e2⟩ := decompose_kt32 r k t hr h1 ht
  obtain ⟨e3, -⟩ := decompose_kt32 w k' t' hwlt h2 ht'
  have hl := (decompose_fips32 r hr).2.1
  rw [lowBits_eq] at hlow
  rw [centeredAbs_spec _ hl] at hlow
  rw [centeredAbs_spec s hs] at hsβ
  rw [highBits_eq, highBits_eq, e1, e3]
  exact stable_core32 r s w β k t k' t' hr hs hwlt hw h1 ht h2 ht' hsβ _ e2 hlow

/-! ### Both parameter sets at once (user-facing statements) -/

/-- **1. FIPS 204 §7.4 / Dilithium Lemma 1.1.**  `g` is γ₂ of ML-DSA-44 (95232) or of ML-DSA-65/87
    (261888); `z` is the field encoding of an integer in `[−γ₂, γ₂]`. -/
theorem useHint_makeHint (g r z : Nat) (hg : g = 95232 ∨ g = 261888) (hr : r < 8380417)
    (hz : z ≤ g ∨ (8380417 - g ≤ z ∧ z < 8380417)) :
    useHint r g (makeHint z g r) = highBits (add r z) g ∧ add r z = (r + z) % 8380417 := by
  rcases hg with rfl | rfl
  · exact ⟨useHint_makeHint88 r z hr hz, add_spec r z hr (by omega)⟩
  · exact ⟨useHint_makeHint32 r z hr hz, add_spec r z hr (by omega)⟩

/-- the same with the hypothesis on `z` phrased with the regenerated norm: `‖z‖∞ ≤ γ₂` -/
theorem useHint_makeHint_norm (g r z : Nat) (hg : g = 95232 ∨ g = 261888) (hr : r < 8380417)
    (hz : z < 8380417) (hn : centeredAbs z ≤ g) :
    useHint r g (makeHint z g r) = highBits (add r z) g := by
  have hg' : g ≤ 4190208 := by omega
  have := (centeredAbs_le_iff z g hz hg').mp hn
  exact (useHint_makeHint g r z hg hr (by omega)).1

/-- **2. Dilithium Lemma 1.2** for any hint value: `v₁ = useHint r h` is a valid high part and
    `‖r − v₁·2γ₂‖∞ ≤ 2γ₂ + 1` (subtraction, multiplication and norm are the regenerated ones). -/
theorem useHint_close (g r h : Nat) (hg : g = 95232 ∨ g = 261888) (hr : r < 8380417) :
    useHint r g h < 8380416 / (2 * g) ∧
    centeredAbs (sub r (mul (useHint r g h) (2 * g))) ≤ 2 * g + 1 := by
  rcases hg with rfl | rfl
  · exact ⟨(useHint_close88 r h hr).1, useHint_close_norm88 r h hr⟩
  · exact ⟨(useHint_close32 r h hr).1, useHint_close_norm32 r h hr⟩

/-- hint 0 leaves the high bits unchanged -/
theorem useHint_zero (g r : Nat) (hg : g = 95232 ∨ g = 261888) (hr : r < 8380417) :
    useHint r g 0 = highBits r g := by
  rcases hg with rfl | rfl
  · exact useHint_zero88 r hr
  · exact useHint_zero32 r hr

/-- **3. Decompose recomposes**: `a ≡ HighBits(a)·2γ₂ + LowBits(a) (mod q)`, the high part is below
    `(q−1)/(2γ₂)` and `‖LowBits(a)‖∞ ≤ γ₂`. -/
theorem decompose_recompose (g a : Nat) (hg : g = 95232 ∨ g = 261888) (ha : a < 8380417) :
    (highBits a g * (2 * g) + lowBits a g) % 8380417 = a ∧ highBits a g < 8380416 / (2 * g) ∧
    lowBits a g < 8380417 ∧ centeredAbs (lowBits a g) ≤ g ∧
    decompose a g = (highBits a g, lowBits a g) := by
  rcases hg with rfl | rfl
  · obtain ⟨h1, h2, h3, h4⟩ := decompose_recompose88 a ha
    exact ⟨h1, h2, h3, h4, by rw [highBits_eq, lowBits_eq]⟩
  · obtain ⟨h1, h2, h3, h4⟩ := decompose_recompose32 a ha
    exact ⟨h1, h2, h3, h4, by rw [highBits_eq, lowBits_eq]⟩

/-- **4. Dilithium Lemma 1.3** (`β` arbitrary; for `β ≥ γ₂` the hypothesis cannot hold). -/
theorem lowBits_small_highBits_stable (g r s β : Nat) (hg : g = 95232 ∨ g = 261888)
    (hr : r < 8380417) (hs : s < 8380417)
    (hsβ : centeredAbs s ≤ β) (hlow : centeredAbs (lowBits r g) + β < g) :
    highBits (add r s) g = highBits r g := by
  rcases hg with rfl | rfl
  · exact lowBits_small_highBits_stable88 r s β hr hs hsβ hlow
  · exact lowBits_small_highBits_stable32 r s β hr hs hsβ hlow

/-- **5. Power2Round bound**, integer form of `power2Round_fips`: over ℤ (no wrap-around)
    `a = r₁·2¹³ + r₀` with `−2¹² < r₀ ≤ 2¹²`, `r₁ < 2¹⁰`. -/
theorem power2Round_bound (a : Nat) (ha : a < 8380417) :
    ((power2Round a).1 : Int) * 8192 + centered (power2Round a).2 = a ∧
    -4096 < centered (power2Round a).2 ∧ centered (power2Round a).2 ≤ 4096 ∧
    (power2Round a).1 < 1024 ∧ centeredAbs (power2Round a).2 ≤ 4096 := by
  have hlt : (power2Round a).2 < 8380417 := (power2Round_fips a ha).2.2.2
  rw [centeredAbs_spec _ hlt, power2Round_spec a ha]
  unfold centered
  simp only
  generalize hk : (a + 4095) / 8192 = k
  have h1 : k * 8192 ≤ a + 4095 := by omega
  have h2 : a + 4095 < k * 8192 + 8192 := by omega
  clear hk hlt
  refine ⟨?_, ?_, ?_, ?_, ?_⟩ <;> (repeat' split) <;> omega

/-! ### Non-vacuity: concrete instances evaluated on the regenerated functions -/

-- 1: a hint that is really needed (r at the top of bucket 43, z = 1 pushes r + z into the folded top bucket)
example : makeHint 1 95232 8285184 = 1 ∧ highBits 8285184 95232 = 43 ∧
    useHint 8285184 95232 (makeHint 1 95232 8285184) = 0 ∧ highBits (add 8285184 1) 95232 = 0 := by decide
-- 1: negative z (= −1, encoded q − 1) moving r = 95233 (bucket 1, r₀ = −95231) down to bucket 0
example : makeHint 8380416 95232 95233 = 1 ∧ useHint 95233 95232 (makeHint 8380416 95232 95233) = 0 ∧
    highBits (add 95233 8380416) 95232 = 0 := by decide
example : makeHint 261888 261888 1 = 1 ∧ useHint 1 261888 (makeHint 261888 261888 1) = 1 ∧
    highBits (add 1 261888) 261888 = 1 := by decide
-- 2: the bound 2γ₂ + 1 is attained (r = 0, h = 1)
example : useHint 0 95232 1 = 43 ∧ centeredAbs (sub 0 (mul (useHint 0 95232 1) (2 * 95232))) = 2 * 95232 + 1 := by decide
example : useHint 0 261888 1 = 15 ∧ centeredAbs (sub 0 (mul (useHint 0 261888 1) (2 * 261888))) = 2 * 261888 + 1 := by decide
-- 3: the folded top bucket
example : decompose 8285185 95232 = (0, 8285185) ∧ centeredAbs 8285185 = 95232 := by decide
example : decompose 8285184 95232 = (43, 95232) := by decide
-- 4: hypotheses satisfiable (β = 417, s = −417, LowBits(200000) = 9536)
example : centeredAbs 8380000 ≤ 417 ∧ centeredAbs (lowBits 200000 95232) + 417 < 95232 ∧
    highBits (add 200000 8380000) 95232 = highBits 200000 95232 := by decide
example : centeredAbs 8380000 ≤ 417 ∧ centeredAbs (lowBits 200000 261888) + 417 < 261888 ∧
    highBits (add 200000 8380000) 261888 = highBits 200000 261888 := by decide
-- 5
example : power2Round 4096 = (0, 4096) ∧ power2Round 4097 = (1, 8376322) ∧ centered 8376322 = -4095 := by decide

end TinkVerif.Gen.Mldsa

section AxiomAudit
open TinkVerif.Gen.Mldsa
#print axioms centeredAbs_centered
#print axioms centeredAbs_le_iff
#print axioms decompose_kt88
#print axioms decompose_kt32
#print axioms useHint_makeHint88
#print axioms useHint_makeHint32
#print axioms useHint_close88
#print axioms useHint_close32
#print axioms useHint_close_norm88
#print axioms useHint_close_norm32
#print axioms useHint_zero88
#print axioms useHint_zero32
#print axioms decompose_recompose88
#print axioms decompose_recompose32
#print axioms decompose_recompose_int88
#print axioms decompose_recompose_int32
#print axioms lowBits_small_highBits_stable88
#print axioms lowBits_small_highBits_stable32
#print axioms useHint_makeHint
#print axioms useHint_makeHint_norm
#print axioms useHint_close
#print axioms useHint_zero
#print axioms decompose_recompose
#print axioms lowBits_small_highBits_stable
#print axioms power2Round_bound
end AxiomAudit
