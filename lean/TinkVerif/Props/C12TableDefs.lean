import TinkVerif.Gen.EnumTables
/-!
# C12 (definitions) — enum / variant conversion tables of every key type's proto serialization

`Gen/EnumTables.lean` is regenerated on every run from the `switch` conversion functions of all
`*/*/protoserialization.go` files (key-side enum ↔ proto enum, Variant ↔ OutputPrefixType, …).
The theorems below are about *that regenerated data*: if a cell of any table is changed in /repo the
file changes and the `decide` proofs below are re-checked against it.
-/
namespace TinkVerif.Gen.EnumTables


def lookup (t : Table) (v : Nat) : Option Nat :=
  (t.cells.find? fun c => c.caseVal == v).map (·.retVal)

/-- serializer-side table `f` (key enum → proto enum) and parser-side table `g` (proto → key enum) -/
def isPair (f g : Table) : Bool :=
  f.pkgId == g.pkgId && f.paramTyId == g.resTyId && f.resTyId == g.paramTyId && !f.protoParam

/-- every (serializer, parser) pair of tables of one package -/
def pairs : List (Table × Table) :=
  tables.flatMap fun f => (tables.filter fun g => isPair f g).map fun g => (f, g)

/-- The one place where the code deliberately does not invert its table: ECIES over X25519 has no point
    format; `UnspecifiedPointFormat` (0) is written as COMPRESSED and `parseParameters` restores
    `UnspecifiedPointFormat` from the curve type instead of the table (hybrid/ecies/protoserialization.go).
    That path is covered by the correspondence harness (X25519 ECIES parameters and keys round trip). -/
def isException (f : Table) (c : Cell) : Bool :=
  f.pkg == "hybrid/ecies" && f.fn == "protoEcPointFormatFromPointFormat" && c.caseName == "UnspecifiedPointFormat" && c.caseVal == 0

/-- parse ∘ serialize = id on every value the serializer table maps -/
def roundTrips (f g : Table) : Bool :=
  f.cells.all fun c => isException f c || lookup g c.retVal == some c.caseVal

/-- the serializer never maps two different key-side values to one proto value (else Equal could not survive) -/
def injective (f : Table) : Bool :=
  f.cells.all fun c => f.cells.all fun c' => isException f c || isException f c' || c.retVal != c'.retVal || c.caseVal == c'.caseVal

/-- what the parser accepts re-serialises: serialize ∘ parse is defined on the parser's range -/
def parserRangeCovered (f g : Table) : Bool :=
  g.cells.all fun c => (lookup f c.retVal).isSome

/-- every serializer-side table has a parser-side partner (so nothing escapes the theorems above) -/
def serializerTables : List Table :=
  tables.filter fun f => !f.protoParam && f.protoRes

/-- OutputPrefixType naming convention, for all key types at once: TINK = 1, LEGACY = 2, RAW = 3,
    CRUNCHY = 4, WITH_ID_REQUIREMENT = 5, and the key-side variant names are mapped to the like-named prefix type. -/
def prefixName (n : String) : Option Nat :=
  if n == "VariantTink" then some 1
  else if n == "VariantLegacy" then some 2
  else if n == "VariantNoPrefix" then some 3
  else if n == "VariantCrunchy" then some 4
  else if n == "VariantNoPrefixWithPrehashID" then some 5   -- ML-DSA only: WITH_ID_REQUIREMENT
  else none

def isPrefixTable (t : Table) : Bool := t.prefixRes

def prefixConvention (t : Table) : Bool :=
  t.cells.all fun c => prefixName c.caseName == some c.retVal


/-- Parser-side convention for prefix types: whatever variant a parser assigns to an OutputPrefixType
    re-serialises to a prefix type with the *same output prefix bytes*: the same type, or — LEGACY and
    CRUNCHY both being `0x00 ‖ id` — one of that pair.  (Key types without a LEGACY variant read LEGACY
    keys as CRUNCHY; reading them as TINK would change the prefix of every ciphertext.) -/
def samePrefixBytes (a b : Nat) : Bool := a == b || (a == 2 && b == 4) || (a == 4 && b == 2)

def parserPrefixConsistent (f g : Table) : Bool :=
  !f.prefixRes || g.cells.all fun c => match lookup f c.retVal with
    | some back => samePrefixBytes c.caseVal back
    | none => false
end TinkVerif.Gen.EnumTables
