import TinkVerif.Model.Conc

/-!
# C18 — concurrent use of a shared primitive (interleaving model)

For programs whose steps never write the shared object, *every* schedule of any number of threads
gives each thread exactly the result it computes when run alone, and leaves the shared object as it
was.  A primitive with shared scratch state does not have this property (counterexample below), which
is the defect class the regenerated mutation facts and the race harness look for.
-/
namespace TinkVerif.Conc

theorem stepThread_shared {S L : Type} (p : Nat → Prog S L) (hro : ∀ i, ReadOnly (p i)) (c : Config S L) (i : Nat) :
    (c.stepThread p i).shared = c.shared := hro i _ _

theorem run_shared {S L : Type} (p : Nat → Prog S L) (hro : ∀ i, ReadOnly (p i)) (c : Config S L) (sch : List Nat) :
    (run p c sch).shared = c.shared := by
  induction sch generalizing c with
  | nil => rfl
  | cons i sch ih =>
    simp only [run, List.foldl_cons] at *
    rw [ih, stepThread_shared p hro]

theorem alone_succ' {S L : Type} (p : Prog S L) (s : S) (l : L) (k : Nat) :
    alone p s l (k + 1) = (p.step s (alone p s l k)).2 := by
  induction k generalizing l with
  | zero => rfl
  | succ k ih => simp only [alone] at *; rw [ih]

/-- **Every interleaving equals the sequential execution, thread by thread**: after any schedule,
    thread `i`'s local memory is what it computes alone in as many steps as it was scheduled. -/
theorem interleave_eq_sequential {S L : Type} (p : Nat → Prog S L) (hro : ∀ i, ReadOnly (p i))
    (c : Config S L) (sch : List Nat) (i : Nat) :
    (run p c sch).locals i = alone (p i) c.shared (c.locals i) (sch.count i) := by
  induction sch generalizing c with
  | nil => rfl
  | cons j sch ih =>
    have hsh : (c.stepThread p j).shared = c.shared := stepThread_shared p hro c j
    simp only [run, List.foldl_cons] at *
    rw [ih (c.stepThread p j), hsh]
    by_cases hj : j = i
    · subst hj
      simp only [Config.stepThread, ↓reduceIte, List.count_cons_self, alone]
    · have hne : (j == i) = false := by simpa using hj
      have hij : ¬ i = j := fun e => hj e.symm
      simp only [Config.stepThread, List.count_cons, hne, hij, ↓reduceIte, Bool.false_eq_true, Nat.add_zero]

/-- two schedules that give a thread the same number of steps give it the same result -/
theorem schedule_independent {S L : Type} (p : Nat → Prog S L) (hro : ∀ i, ReadOnly (p i))
    (c : Config S L) (sch sch' : List Nat) (i : Nat) (h : sch.count i = sch'.count i) :
    (run p c sch).locals i = (run p c sch').locals i := by
  rw [interleave_eq_sequential p hro, interleave_eq_sequential p hro, h]

/-- race freedom of the model: a read-only step leaves every other thread's memory and the shared
    object untouched, so no two steps of different threads conflict on a location -/
theorem steps_commute {S L : Type} (p : Nat → Prog S L) (hro : ∀ i, ReadOnly (p i)) (c : Config S L) (i j : Nat) (hij : i ≠ j) :
    ((c.stepThread p i).stepThread p j).shared = ((c.stepThread p j).stepThread p i).shared ∧
    ∀ k, ((c.stepThread p i).stepThread p j).locals k = ((c.stepThread p j).stepThread p i).locals k := by
  refine ⟨by rw [stepThread_shared p hro, stepThread_shared p hro, stepThread_shared p hro, stepThread_shared p hro], ?_⟩
  intro k
  simp only [Config.stepThread, hro i _ _, hro j _ _]
  by_cases hki : k = i
  · subst hki; simp [hij]
  · by_cases hkj : k = j
    · subst hkj; simp [Ne.symm hij]
    · simp [hki, hkj]

/-! ### the defect class: a primitive with a shared scratch buffer -/

/-- "MAC" with a shared scratch cell: step 0 writes the message into the shared cell, step 1 reads the
    tag back from it.  Local: (message, phase, result). -/
def scratchMac : Prog Nat (Nat × Nat × Nat) where
  step := fun s (m, ph, r) => if ph = 0 then (m, (m, 1, r)) else (s, (m, 2, s))

theorem scratchMac_not_readOnly : ¬ ReadOnly scratchMac := by
  intro h; have := h 0 (5, 0, 0); simp [scratchMac] at this

/-- alone, thread 0 computes its own message's tag; under the schedule 0,1,0,1 it returns the other
    thread's — the corrupted result the property forbids -/
theorem scratchMac_schedule_matters :
    let p : Nat → Prog Nat (Nat × Nat × Nat) := fun _ => scratchMac
    let c : Config Nat (Nat × Nat × Nat) := { shared := 0, locals := fun i => (10 + i, 0, 0) }
    ((run p c [0, 0]).locals 0).2.2 = 10 ∧ ((run p c [0, 1, 0, 1]).locals 0).2.2 = 11 := by
  decide

end TinkVerif.Conc

section AxiomAudit
open TinkVerif.Conc
#print axioms run_shared
#print axioms interleave_eq_sequential
#print axioms schedule_independent
#print axioms steps_commute
#print axioms scratchMac_not_readOnly
#print axioms scratchMac_schedule_matters
end AxiomAudit
