import TinkVerif.Props.C12TableDefs
/-! C12 — theorems about the regenerated conversion tables (definitions in `C12TableDefs.lean`). -/
namespace TinkVerif.Gen.EnumTables

/-- the exception list is exact: it names one cell, and that cell exists -/
theorem exception_is_one_cell :
    (tables.flatMap fun f => f.cells.filter (isException f)).length = 1 := by decide +kernel

/-- **Round trip of every conversion table**: for every key type, every enum/variant value that the
    serializer writes is read back by the parser as the same value. -/
theorem enum_tables_round_trip : pairs.all (fun p => roundTrips p.1 p.2) = true := by decide +kernel

theorem enum_tables_injective : pairs.all (fun p => injective p.1) = true := by decide +kernel

theorem enum_tables_parser_range : pairs.all (fun p => parserRangeCovered p.1 p.2) = true := by decide +kernel

theorem every_serializer_table_paired :
    serializerTables.all (fun f => tables.any fun g => isPair f g) = true := by decide +kernel

theorem prefix_tables_follow_convention :
    (tables.filter isPrefixTable).all prefixConvention = true := by decide +kernel

/-- the extractor found the tables of every key type (a drop in this number means a conversion
    function no longer has the table shape and escapes the theorems) -/
theorem coverage : 18 ≤ (tables.filter isPrefixTable).length ∧ 40 ≤ pairs.length := by decide +kernel


/-- **prefix types survive parsing**: for every key type, every OutputPrefixType its parser accepts is
    mapped to a variant whose serialisation has the same output-prefix bytes -/
theorem parser_prefix_consistent : pairs.all (fun p => parserPrefixConsistent p.1 p.2) = true := by decide +kernel

end TinkVerif.Gen.EnumTables

section AxiomAudit
open TinkVerif.Gen.EnumTables
#print axioms enum_tables_round_trip
#print axioms enum_tables_injective
#print axioms exception_is_one_cell
#print axioms enum_tables_parser_range
#print axioms every_serializer_table_paired
#print axioms prefix_tables_follow_convention
#print axioms coverage
#print axioms parser_prefix_consistent
end AxiomAudit
