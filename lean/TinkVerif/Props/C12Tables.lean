import TinkVerif.Gen.EnumTables
/-!
# C12 — enum / variant conversion tables of every key type's proto serialization

`Gen/EnumTables.lean` is regenerated on every run from the `switch` conversion functions of all
`*/*/protoserialization.go` files (key-side enum ↔ proto enum, Variant ↔ OutputPrefixType, …).
The theorems below are about *that regenerated data*: if a cell of any table is changed in /repo the
file changes and the `decide` proofs below are re-checked against it.
-/
namespace TinkVerif.Gen.EnumTables

def lookup (t : Table) (v : Nat) : Option Nat :=
  (t.cells.find? fun c => c.caseVal == v).map (·.retVal)

/-- serializer-side table `f` (key enum → proto enum) and parser-side table `g` (proto → key enum) -/
def isPair (f g : Table) : Bool :=
  f.pkgId == g.pkgId && f.paramTyId == g.resTyId && f.resTyId == g.paramTyId && !f.protoParam

/-- every (serializer, parser) pair of tables of one package -/
def pairs : List (Table × Table) :=
  tables.flatMap fun f => (tables.filter fun g => isPair f g).map fun g => (f, g)

/-- The one place where the code deliberately does not invert its table: ECIES over X25519 has no point
    format; `UnspecifiedPointFormat` (0) is written as COMPRESSED and `parseParameters` restores
    `UnspecifiedPointFormat` from the curve type instead of the table (hybrid/ecies/protoserialization.go).
    That path is covered by the correspondence harness (X25519 ECIES parameters and keys round trip). -/
def isException (f : Table) (c : Cell) : Bool :=
  f.pkg == "hybrid/ecies" && f.fn == "protoEcPointFormatFromPointFormat" && c.caseName == "UnspecifiedPointFormat" && c.caseVal == 0

/-- parse ∘ serialize = id on every value the serializer table maps -/
def roundTrips (f g : Table) : Bool :=
  f.cells.all fun c => isException f c || lookup g c.retVal == some c.caseVal

/-- the serializer never maps two different key-side values to one proto value (else Equal could not survive) -/
def injective (f : Table) : Bool :=
  f.cells.all fun c => f.cells.all fun c' => isException f c || isException f c' || c.retVal != c'.retVal || c.caseVal == c'.caseVal

/-- the exception list is exact: it names one cell, and that cell exists -/
theorem exception_is_one_cell :
    (tables.flatMap fun f => f.cells.filter (isException f)).length = 1 := by decide +kernel

/-- what the parser accepts re-serialises: serialize ∘ parse is defined on the parser's range -/
def parserRangeCovered (f g : Table) : Bool :=
  g.cells.all fun c => (lookup f c.retVal).isSome

/-- **Round trip of every conversion table**: for every key type, every enum/variant value that the
    serializer writes is read back by the parser as the same value. -/
theorem enum_tables_round_trip : pairs.all (fun p => roundTrips p.1 p.2) = true := by decide +kernel

theorem enum_tables_injective : pairs.all (fun p => injective p.1) = true := by decide +kernel

theorem enum_tables_parser_range : pairs.all (fun p => parserRangeCovered p.1 p.2) = true := by decide +kernel

/-- every serializer-side table has a parser-side partner (so nothing escapes the theorems above) -/
def serializerTables : List Table :=
  tables.filter fun f => !f.protoParam && f.protoRes

theorem every_serializer_table_paired :
    serializerTables.all (fun f => tables.any fun g => isPair f g) = true := by decide +kernel

/-- OutputPrefixType naming convention, for all key types at once: TINK = 1, LEGACY = 2, RAW = 3,
    CRUNCHY = 4, WITH_ID_REQUIREMENT = 5, and the key-side variant names are mapped to the like-named prefix type. -/
def prefixName (n : String) : Option Nat :=
  if n == "VariantTink" then some 1
  else if n == "VariantLegacy" then some 2
  else if n == "VariantNoPrefix" then some 3
  else if n == "VariantCrunchy" then some 4
  else if n == "VariantNoPrefixWithPrehashID" then some 5   -- ML-DSA only: WITH_ID_REQUIREMENT
  else none

def isPrefixTable (t : Table) : Bool := t.prefixRes

def prefixConvention (t : Table) : Bool :=
  t.cells.all fun c => prefixName c.caseName == some c.retVal

theorem prefix_tables_follow_convention :
    (tables.filter isPrefixTable).all prefixConvention = true := by decide +kernel

/-- the extractor found the tables of every key type (a drop in this number means a conversion
    function no longer has the table shape and escapes the theorems) -/
theorem coverage : 18 ≤ (tables.filter isPrefixTable).length ∧ 40 ≤ pairs.length := by decide +kernel

end TinkVerif.Gen.EnumTables

section AxiomAudit
open TinkVerif.Gen.EnumTables
#print axioms enum_tables_round_trip
#print axioms enum_tables_injective
#print axioms exception_is_one_cell
#print axioms enum_tables_parser_range
#print axioms every_serializer_table_paired
#print axioms prefix_tables_follow_convention
#print axioms coverage
end AxiomAudit
