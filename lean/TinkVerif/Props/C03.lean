import TinkVerif.Model.Sig

/-!
# C03 — classical signatures: wrapper and encoding laws

The raw schemes (ECDSA, Ed25519, RSA) are reference implementations (Prim/*, validated against Go and
Wycheproof); what tink-go adds around them — prefix handling, the LEGACY suffix, the fixed-width
IEEE-P1363 codec — is proved here for every prefix, variant, message and raw scheme.
-/
namespace TinkVerif.Sig
open TinkVerif

/-- a genuinely produced signature verifies, for any raw scheme that verifies its own signatures -/
theorem fullVerify_fullSign (pre : Bytes) (v : Variant) (rawSign : Bytes → Bytes)
    (rawVerify : Bytes → Bytes → Bool) (hraw : ∀ m, rawVerify (rawSign m) m = true) (msg : Bytes) :
    fullVerify pre v rawVerify (fullSign pre v rawSign msg) msg = true := by
  unfold fullVerify fullSign
  rw [if_pos (by simp)]
  simp [hraw]

/-- **Verify accepts exactly**: the signature carries the key's prefix and the rest verifies under
    the raw scheme over the message (‖ 0x00 for LEGACY). Wrong or missing prefixes are rejected. -/
theorem fullVerify_iff (pre : Bytes) (v : Variant) (rawVerify : Bytes → Bytes → Bool) (sig msg : Bytes) :
    fullVerify pre v rawVerify sig msg = true ↔
      pre.isPrefixOf sig = true ∧ rawVerify (sig.drop pre.length) (legacyMsg v msg) = true := by
  unfold fullVerify
  by_cases h : pre.isPrefixOf sig = true
  · simp [h]
  · simp [h]

theorem legacy_signs_suffixed (msg : Bytes) : legacyMsg .legacy msg = msg ++ [0] ∧ legacyMsg .tink msg = msg ∧
    legacyMsg .crunchy msg = msg ∧ legacyMsg .raw msg = msg := by simp [legacyMsg]

theorem toNatBE_lt (b : Bytes) : Bytes.toNatBE b < 256 ^ b.length := by
  induction hn : b.length generalizing b with
  | zero => have : b = [] := List.length_eq_zero_iff.mp hn; subst this; simp [Bytes.toNatBE]
  | succ n ih =>
    rcases List.eq_nil_or_concat b with h | ⟨xs, x, h⟩
    · subst h; simp at hn
    · subst h
      have hn' : xs.length = n := by simpa using hn
      rw [List.concat_eq_append, Bytes.toNatBE_append_singleton, Nat.pow_succ]
      have := ih xs hn'
      have := x.toNat_lt
      omega

theorem ofNatBE_toNatBE (b : Bytes) : Bytes.ofNatBE b.length (Bytes.toNatBE b) = b := by
  induction hn : b.length generalizing b with
  | zero => have : b = [] := List.length_eq_zero_iff.mp hn; subst this; simp [Bytes.ofNatBE]
  | succ n ih =>
    rcases List.eq_nil_or_concat b with h | ⟨xs, x, h⟩
    · subst h; simp at hn
    · subst h
      have hn' : xs.length = n := by simpa using hn
      rw [List.concat_eq_append, Bytes.toNatBE_append_singleton, Bytes.ofNatBE]
      have hx := x.toNat_lt
      have h1 : (Bytes.toNatBE xs * 256 + x.toNat) / 256 = Bytes.toNatBE xs := by omega
      have h2 : (Bytes.toNatBE xs * 256 + x.toNat) % 256 = x.toNat := by omega
      rw [h1, h2, ih xs hn']
      simp

/-- IEEE-P1363: decode ∘ encode = id for scalars that fit, and only strings of length 2n decode -/
theorem p1363_roundtrip (n r s : Nat) (hr : r < 256 ^ n) (hs : s < 256 ^ n) :
    p1363Decode n (p1363Encode n r s) = some (r, s) := by
  unfold p1363Decode p1363Encode
  rw [if_neg (by simp; omega)]
  rw [List.take_left' (by simp), List.drop_left' (by simp), Bytes.toNatBE_ofNatBE, Bytes.toNatBE_ofNatBE,
    Nat.mod_eq_of_lt hr, Nat.mod_eq_of_lt hs]

theorem p1363_wrong_length (n : Nat) (b : Bytes) (h : b.length ≠ 2 * n) : p1363Decode n b = none := by
  simp [p1363Decode, h]

/-- the decoding is injective: a P1363 string is determined by (r, s) -/
theorem p1363_encode_decode (n : Nat) (b : Bytes) (r s : Nat) (h : p1363Decode n b = some (r, s)) :
    p1363Encode n r s = b := by
  unfold p1363Decode at h
  split at h
  · cases h
  · rename_i hl
    simp only [ne_eq, Decidable.not_not] at hl
    cases h
    unfold p1363Encode
    have h1 : (b.take n).length = n := by simp; omega
    have h2 : (b.drop n).length = n := by simp; omega
    have e1 := ofNatBE_toNatBE (b.take n)
    have e2 := ofNatBE_toNatBE (b.drop n)
    rw [h1] at e1; rw [h2] at e2
    rw [e1, e2, List.take_append_drop]

theorem rsa_guard (bits e : Nat) (hok : Bool) :
    rsaParamsOk bits e hok = true ↔ 2048 ≤ bits ∧ e = 65537 ∧ hok = true := by
  simp [rsaParamsOk, and_assoc]

end TinkVerif.Sig

section AxiomAudit
open TinkVerif.Sig
#print axioms fullVerify_fullSign
#print axioms fullVerify_iff
#print axioms legacy_signs_suffixed
#print axioms p1363_roundtrip
#print axioms p1363_wrong_length
#print axioms p1363_encode_decode
#print axioms rsa_guard
end AxiomAudit
