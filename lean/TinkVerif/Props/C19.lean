import TinkVerif.Model.Heap

/-!
# C19 — no writes into caller buffers; no memory shared with callers (heap model)

Theorems about the slice model: which Go operations can write an argument's array (the precise
trigger of the `append(arg, x)` defect: spare capacity), and non-interference: caller mutations never
change the library's state when every operation respects the contract `Clean`.
The real evidence for the code is the guard-region differential harness and the regenerated
slice facts (`Props/C19Facts.lean`); the model gives the contract they test and the witness shape.
-/
namespace TinkVerif.Heap
open TinkVerif

theorem array_append_left (h : Heap) (x : Bytes) (a : Nat) (ha : a < h.length) : Heap.array (h ++ [x]) a = h.array a := by
  simp [Heap.array, List.getD, List.getElem?_append_left ha]

theorem array_set_ne (h : Heap) (a b : Nat) (x : Bytes) (hab : a ≠ b) : Heap.array (h.set a x) b = h.array b := by
  simp [Heap.array, List.getD, List.getElem?_set_ne hab]

/-- `bytes.Clone` / `slices.Concat` / fresh allocation never touch an existing array -/
theorem alloc_frame (h : Heap) (bs : Bytes) (e a : Nat) (ha : a < h.length) : (alloc h bs e).1.array a = h.array a :=
  array_append_left h _ a ha

theorem clone_frame (h : Heap) (s : Slice) (a : Nat) (ha : a < h.length) : (clone h s).1.array a = h.array a :=
  alloc_frame h _ 0 a ha

theorem concat_frame (h : Heap) (ss : List Slice) (a : Nat) (ha : a < h.length) : (concat h ss).1.array a = h.array a :=
  alloc_frame h _ 0 a ha

theorem alloc_fresh (h : Heap) (bs : Bytes) (e : Nat) : (alloc h bs e).2.arr = h.length := rfl

theorem alloc_read (h : Heap) (bs : Bytes) (e : Nat) : (alloc h bs e).1.read (alloc h bs e).2 = bs := by
  simp [alloc, Heap.read, Heap.array, List.getD]

/-- `slices.Concat(msg, [0])` denotes `msg ‖ 0` in a fresh array -/
theorem concat_read (h : Heap) (ss : List Slice) : (concat h ss).1.read (concat h ss).2 = ss.flatMap h.read :=
  alloc_read h _ 0

/-- **`append` writes the argument's array exactly when the result fits the capacity** -/
theorem append_in_place_iff (h : Heap) (s : Slice) (bs : Bytes) (g : Nat) :
    (append h s bs g).2.arr = s.arr ∧ s.arr < h.length ↔ s.len + bs.length ≤ s.cap ∧ s.arr < h.length := by
  unfold append
  by_cases hc : s.len + bs.length ≤ s.cap
  · simp [hc]
  · simp only [hc, ↓reduceIte, alloc, false_and, iff_false, not_and, Nat.not_lt]
    intro h1; omega

/-- when it does not fit, nothing the caller can see changes -/
theorem append_realloc_frame (h : Heap) (s : Slice) (bs : Bytes) (g a : Nat) (ha : a < h.length)
    (hc : s.cap < s.len + bs.length) : (append h s bs g).1.array a = h.array a := by
  unfold append
  rw [if_neg (by omega)]
  exact alloc_frame h _ g a ha

/-- **the defect shape**: with spare capacity the bytes right after the slice's length are
    overwritten in the caller's array (`append(data, 0)` with `cap(data) > len(data)`) -/
theorem append_spare_capacity_written (h : Heap) (s : Slice) (bs : Bytes) (g : Nat) (hv : h.valid s)
    (hc : s.len + bs.length ≤ s.cap) :
    (((append h s bs g).1.array s.arr).drop (s.off + s.len)).take bs.length = bs := by
  obtain ⟨h1, h2, h3⟩ := hv
  unfold append
  rw [if_pos hc]
  simp only [writeAt, Heap.array, List.getD] at *
  rw [List.getElem?_set_self h1]
  simp only [Option.getD_some]
  have hl : ((h[s.arr]?.getD []).take (s.off + s.len)).length = s.off + s.len := by
    simp only [List.length_take]; omega
  rw [List.append_assoc, List.drop_left' hl, List.take_left' rfl]

/-- in both cases the *value* of the result is the concatenation — which is why tests that only look
    at results cannot see the difference -/
theorem append_read (h : Heap) (s : Slice) (bs : Bytes) (g : Nat) (hv : h.valid s) :
    (append h s bs g).1.read (append h s bs g).2 = h.read s ++ bs := by
  obtain ⟨h1, h2, h3⟩ := hv
  unfold append
  by_cases hc : s.len + bs.length ≤ s.cap
  · rw [if_pos hc]
    simp only [writeAt, Heap.read, Heap.array, List.getD]
    rw [List.getElem?_set_self h1]
    simp only [Option.getD_some]
    have hlen : s.off + s.len ≤ (h.getD s.arr []).length := by simp only [Heap.array] at h3; omega
    have hl : ((h.getD s.arr []).take (s.off + s.len)).length = s.off + s.len := by
      simp only [List.length_take]; omega
    have e1 : (h.getD s.arr []).take (s.off + s.len) = (h.getD s.arr []).take s.off ++ ((h.getD s.arr []).drop s.off).take s.len := by
      rw [List.take_add]
    have hl0 : ((h.getD s.arr []).take s.off).length = s.off := by simp only [List.length_take]; omega
    simp only [List.getD] at *
    rw [e1, List.append_assoc, List.append_assoc, List.drop_left' hl0]
    have hl1 : (((h[s.arr]?.getD []).drop s.off).take s.len ++ bs).length = s.len + bs.length := by
      simp only [List.length_append, List.length_take, List.length_drop]; omega
    rw [← List.append_assoc, List.take_left' hl1]
  · rw [if_neg hc]; exact alloc_read h _ g

/-! ### non-interference -/

theorem writeAt_frame (h : Heap) (a pos : Nat) (bs : Bytes) (b : Nat) (hab : a ≠ b) : (writeAt h a pos bs).array b = h.array b :=
  array_set_ne h a b _ hab

/-- a caller mutation never changes an owned array -/
theorem mutate_owned (w : World) (m : Mutation) (a : Nat) (ha : a ∈ w.owned) : (w.mutate m).heap.array a = w.heap.array a := by
  unfold World.mutate
  by_cases hm : m.arr ∈ w.owned
  · simp [hm]
  · simp only [hm, ↓reduceIte]
    exact writeAt_frame _ _ _ _ _ (by intro e; subst e; exact hm ha)

theorem mutate_owned_set (w : World) (m : Mutation) : (w.mutate m).owned = w.owned := by
  unfold World.mutate; split <;> rfl

/-- **library state is immune to caller mutations** -/
theorem mutate_ownedContents (w : World) (m : Mutation) : (w.mutate m).ownedContents = w.ownedContents := by
  unfold World.ownedContents
  rw [mutate_owned_set]
  apply List.map_congr_left
  intro a ha
  rw [mutate_owned w m a ha]

theorem mutations_ownedContents (w : World) (ms : List Mutation) : (ms.foldl World.mutate w).ownedContents = w.ownedContents := by
  induction ms generalizing w with
  | nil => rfl
  | cons m ms ih => simp only [List.foldl_cons]; rw [ih, mutate_ownedContents]

/-- a clean operation's results and newly owned arrays cannot be reached through anything the caller
    held before the call, and a clean operation leaves everything the caller holds as it was -/
theorem clean_caller_view (f : Api) (hf : Clean f) (w : World) (args : List Slice) (a : Nat) (ha : w.callerArr a) :
    (f w args).world.heap.array a = w.heap.array a ∧ a ∉ (f w args).world.owned := by
  refine ⟨hf.frame w args a ha, ?_⟩
  intro hin
  rcases hf.ownedFresh w args a hin with h1 | h1
  · exact ha.2 h1
  · have := ha.1; omega

/-- the guard-region statement: every byte of every argument array — before `off`, within `len`,
    through `cap` and beyond — is unchanged by a clean call -/
theorem clean_guard_regions (f : Api) (hf : Clean f) (w : World) (args : List Slice) (s : Slice) (_hs : s ∈ args)
    (hc : w.callerArr s.arr) : (f w args).world.heap.array s.arr = w.heap.array s.arr :=
  hf.frame w args s.arr hc

/-- results of a clean call are not owned: mutating a returned slice is a caller mutation and so
    (by `mutate_ownedContents`) cannot change a key object or handle -/
theorem clean_result_mutation_harmless (f : Api) (hf : Clean f) (w : World) (args : List Slice) (o : Slice)
    (ho : o ∈ (f w args).outs) (pos : Nat) (bs : Bytes) :
    ((f w args).world.mutate ⟨o.arr, pos, bs⟩).ownedContents = (f w args).world.ownedContents :=
  mutate_ownedContents _ _

/-- and the mutation really happens on the caller's side (the result array is not protected) -/
theorem clean_result_not_owned (f : Api) (hf : Clean f) (w : World) (args : List Slice) (o : Slice)
    (ho : o ∈ (f w args).outs) : o.arr ∉ (f w args).world.owned := (hf.outsFresh w args o ho).2

/-- a constructor that clones its input is clean -/
def cloningCtor : Api := fun w args =>
  match args with
  | [s] => let (h', c) := clone w.heap s; { world := { heap := h', owned := c.arr :: w.owned }, outs := [] }
  | _ => { world := w, outs := [] }

theorem cloningCtor_clean : Clean cloningCtor where
  frame := by
    intro w args a ha
    unfold cloningCtor
    split
    · exact clone_frame _ _ _ ha.1
    · rfl
  grows := by
    intro w args; unfold cloningCtor; split
    · simp [clone, alloc]
    · exact Nat.le_refl _
  outsFresh := by intro w args o ho; unfold cloningCtor at ho; split at ho <;> simp at ho
  ownedFresh := by
    intro w args a ha; unfold cloningCtor at ha; split at ha
    · simp only [clone, alloc, List.mem_cons] at ha
      rcases ha with h | h
      · right; omega
      · left; exact h
    · left; exact ha
  ownedKept := by
    intro w args a ha; unfold cloningCtor; split
    · simp [ha]
    · exact ha
  outsValid := by intro w args o ho; unfold cloningCtor at ho; split at ho <;> simp at ho
  ownedValid := by
    intro w args hv a ha
    match args, ha with
    | [s], ha =>
      simp only [cloningCtor, clone, alloc, List.mem_cons, List.length_append, List.length_singleton] at ha ⊢
      rcases ha with h | h
      · omega
      · have := hv a h; omega
    | [], ha => exact hv a ha
    | _ :: _ :: _, ha => exact hv a ha

/-- a constructor that keeps the caller's slice is *not* clean (whenever the argument is the caller's) -/
def retainingCtor : Api := fun w args =>
  match args with
  | [s] => { world := { w with owned := s.arr :: w.owned }, outs := [] }
  | _ => { world := w, outs := [] }

theorem retainingCtor_not_clean : ¬ Clean retainingCtor := by
  intro hf
  have := hf.ownedFresh { heap := [[1, 2, 3]], owned := [] } [⟨0, 0, 3, 3⟩] 0 (by simp [retainingCtor])
  simp at this

/-- an operation that appends to its argument is not clean: the witness is a slice with spare capacity -/
def appendingOp : Api := fun w args =>
  match args with
  | [s] => let (h', r) := append w.heap s [0]; { world := { w with heap := h' }, outs := [r] }
  | _ => { world := w, outs := [] }

theorem appendingOp_not_clean : ¬ Clean appendingOp := by
  intro hf
  have := hf.frame { heap := [[7, 7, 7, 7]], owned := [] } [⟨0, 0, 2, 4⟩] 0 (by simp [World.callerArr])
  revert this
  decide

end TinkVerif.Heap

section AxiomAudit
open TinkVerif.Heap
#print axioms clone_frame
#print axioms concat_frame
#print axioms concat_read
#print axioms append_in_place_iff
#print axioms append_realloc_frame
#print axioms append_spare_capacity_written
#print axioms append_read
#print axioms mutate_ownedContents
#print axioms mutations_ownedContents
#print axioms clean_caller_view
#print axioms clean_guard_regions
#print axioms clean_result_mutation_harmless
#print axioms clean_result_not_owned
#print axioms cloningCtor_clean
#print axioms retainingCtor_not_clean
#print axioms appendingOp_not_clean
end AxiomAudit
