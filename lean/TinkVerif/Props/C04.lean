import TinkVerif.Model.Cmac
import TinkVerif.Model.Mac

/-!
# C04 — MAC tags are the standard HMAC / AES-CMAC values and only those verify

* `Cmac.compute` (the Go loop of internal/mac/aescmac) equals `Cmac.spec` (RFC 4493 §2.4) for every
  message length and **every** block function `E`.
* The full-MAC wrapper: `verify tag m ↔ tag = compute m`; tag layout; parameter guards.
The hash / AES themselves are reference primitives (validated by KATs and by agreement with Go).
-/
namespace TinkVerif.Cmac
open TinkVerif

theorem numBlocks_eq (len : Nat) :
    numBlocksButLast len = (if (len + 15) / 16 = 0 then 1 else (len + 15) / 16) - 1 := by
  unfold numBlocksButLast
  split <;> split <;> omega

/-- the Go CBC loop is the RFC's fold over `M_1 … M_k` -/
theorem cbcLoop_eq (E : Block → Block) (data : Bytes) (k j : Nat) (out : Block) :
    cbcLoop E k out (data.drop (16 * j)) =
      ((List.range' j k).foldl (fun X i => E (Bytes.xor X ((data.drop (16 * (i + 1 - 1))).take 16))) out,
       data.drop (16 * (j + k))) := by
  induction k generalizing j out with
  | zero => simp [cbcLoop]
  | succ k ih =>
    simp only [cbcLoop, List.drop_drop, List.range'_succ, List.foldl_cons]
    have h1 : 16 * j + 16 = 16 * (j + 1) := by omega
    rw [h1, ih (j + 1)]
    simp only [Nat.add_sub_cancel]
    rw [Bytes.xor_comm]
    congr 2
    omega

/-- **`Compute` is RFC 4493 AES-CMAC**, for every message and every block function. -/
theorem compute_eq_spec (E : Block → Block) (data : Bytes) : compute E data = spec E data := by
  unfold compute spec
  have hnb := numBlocks_eq data.length
  have hloop := cbcLoop_eq E data (numBlocksButLast data.length) 0 zero16
  simp only [Nat.mul_zero, List.drop_zero, Nat.zero_add] at hloop
  rw [hloop]
  simp only
  rw [← List.range_eq_range', hnb]
  -- name the RFC's quantities
  generalize hn : (if (data.length + 15) / 16 = 0 then 1 else (data.length + 15) / 16) = n
  have hrest : (data.drop (16 * (n - 1))).take 16 = data.drop (16 * (n - 1)) := by
    apply List.take_of_length_le
    simp only [List.length_drop]
    rw [← hn]; split <;> omega
  rw [hrest]
  have hcond : ((data.drop (16 * (n - 1))).length = 16) ↔ ((data.length + 15) / 16 ≠ 0 ∧ data.length % 16 = 0) := by
    simp only [List.length_drop]
    rw [← hn]; split <;> omega
  by_cases hc : (data.drop (16 * (n - 1))).length = 16
  · rw [if_pos hc, if_pos (hcond.mp hc), Bytes.xor_comm]
  · rw [if_neg hc, if_neg (fun h => hc (hcond.mpr h)), Bytes.xor_comm]

end TinkVerif.Cmac

namespace TinkVerif.Mac
open TinkVerif

/-- **VerifyMAC accepts (tag, message) iff tag = ComputeMAC(message)** — for every raw tag function,
    prefix and variant. Truncated, extended or altered tags are therefore rejected. -/
theorem verify_iff (m : FullMac) (tag data : Bytes) :
    m.verify tag data = true ↔ tag = m.compute data := by
  unfold FullMac.verify FullMac.compute
  constructor
  · intro h
    split at h
    · cases h
    · split at h
      · cases h
      · rename_i h1 h2
        simp only [ne_eq, Decidable.not_not] at h2
        simp only [decide_eq_true_eq] at h
        rw [← h2, ← h, List.take_append_drop] 
  · intro h
    subst h
    simp

/-- layout: prefix, then the (truncated) raw tag over the message (‖ 0x00 for LEGACY) -/
theorem compute_layout (m : FullMac) (data : Bytes) :
    m.compute data = m.pre ++ m.raw (legacyMsg m.variant data) := rfl

theorem legacy_suffix (data : Bytes) :
    legacyMsg .legacy data = data ++ [0] ∧ legacyMsg .tink data = data ∧
    legacyMsg .crunchy data = data ∧ legacyMsg .raw data = data := by
  simp [legacyMsg]

/-- a tag of the wrong length is never accepted (when the raw tag has fixed length `n`) -/
theorem verify_wrong_length (m : FullMac) (n : Nat) (hn : ∀ x, (m.raw x).length = n)
    (tag data : Bytes) (h : tag.length ≠ m.pre.length + n) : m.verify tag data = false := by
  cases hv : m.verify tag data with
  | false => rfl
  | true =>
    have := (verify_iff m tag data).mp hv
    rw [this] at h
    simp [FullMac.compute, hn] at h

/-- deterministic: a function of (key material, message) -/
theorem compute_deterministic (m : FullMac) (a b : Bytes) (h : a = b) : m.compute a = m.compute b := by
  rw [h]

theorem hmac_param_guard (d k t : Nat) :
    validHmacParams d k t = true ↔ (10 ≤ t ∧ t ≤ d ∧ 16 ≤ k) := by
  simp [validHmacParams]; omega

theorem cmac_param_guard (k t : Nat) :
    validCmacParams k t = true ↔ (k = 32 ∧ 10 ≤ t ∧ t ≤ 16) := by
  simp [validCmacParams]; omega

/-! non-vacuity -/
example : (FullMac.mk [1, 0, 0, 0, 7] .legacy (fun x => x.take 2)).verify [1, 0, 0, 0, 7, 9, 0] [9] = true := by decide
example : (FullMac.mk [1, 0, 0, 0, 7] .tink (fun x => x.take 2)).verify [1, 0, 0, 0, 7, 9, 0] [9] = false := by decide

end TinkVerif.Mac

section AxiomAudit
#print axioms TinkVerif.Cmac.compute_eq_spec
#print axioms TinkVerif.Cmac.cbcLoop_eq
#print axioms TinkVerif.Mac.verify_iff
#print axioms TinkVerif.Mac.compute_layout
#print axioms TinkVerif.Mac.legacy_suffix
#print axioms TinkVerif.Mac.verify_wrong_length
#print axioms TinkVerif.Mac.hmac_param_guard
#print axioms TinkVerif.Mac.cmac_param_guard
#print axioms TinkVerif.outputPrefix_inj
#print axioms TinkVerif.outputPrefix_tink_ne_crunchy
end AxiomAudit
