import TinkVerif.Model.Wrap
import TinkVerif.Props.C11

/-!
# C05 — keyset primitives: the primary produces, any enabled key with a matching prefix accepts

All statements hold for every keyset (any number of keys, any statuses, prefixes, order) and every
single-key acceptance relation.
-/
namespace TinkVerif.Wrap
open TinkVerif TinkVerif.Manager

variable {κ : Type}

theorem mem_enabled {es : List (WEntry κ)} {e : WEntry κ} : e ∈ enabled es ↔ e ∈ es ∧ e.status = .enabled := by
  simp [enabled]

theorem mem_bucket {es : List (WEntry κ)} {e : WEntry κ} {p : Bytes} :
    e ∈ bucket es p ↔ e ∈ es ∧ e.status = .enabled ∧ e.pre = p := by
  simp only [bucket, enabled, List.mem_filter, decide_eq_true_eq, and_assoc]

theorem mem_candidates {es : List (WEntry κ)} {e : WEntry κ} {y : Bytes} :
    e ∈ candidates es y ↔ e ∈ es ∧ e.status = .enabled ∧ ((5 ≤ y.length ∧ e.pre = y.take 5) ∨ e.pre = []) := by
  unfold candidates
  rw [List.mem_append, mem_bucket]
  split
  · rename_i h; rw [mem_bucket]; constructor
    · rintro (⟨a, b, c⟩ | ⟨a, b, c⟩)
      · exact ⟨a, b, Or.inl ⟨h, c⟩⟩
      · exact ⟨a, b, Or.inr c⟩
    · rintro ⟨a, b, (⟨_, c⟩ | c)⟩
      · exact Or.inl ⟨a, b, c⟩
      · exact Or.inr ⟨a, b, c⟩
  · rename_i h; constructor
    · rintro (h0 | ⟨a, b, c⟩)
      · cases h0
      · exact ⟨a, b, Or.inr c⟩
    · rintro ⟨a, b, (⟨c, _⟩ | c)⟩
      · exact absurd c h
      · exact Or.inr ⟨a, b, c⟩

/-- **Acceptance rule** (AEAD, DAEAD, verifier, hybrid decrypt): an input is accepted iff some
    ENABLED key whose prefix it carries — or which has no prefix — accepts it. -/
theorem accept_iff (accepts : κ → Bytes → Bytes → Bool) (es : List (WEntry κ)) (y x : Bytes) :
    (accept accepts es y x).isSome = true ↔
      ∃ e ∈ es, e.status = .enabled ∧ ((5 ≤ y.length ∧ e.pre = y.take 5) ∨ e.pre = []) ∧ accepts e.key y x = true := by
  unfold accept
  rw [Option.isSome_map, List.find?_isSome]
  constructor
  · rintro ⟨e, he, ha⟩
    obtain ⟨a, b, c⟩ := mem_candidates.mp he
    exact ⟨e, a, b, c, ha⟩
  · rintro ⟨e, a, b, c, ha⟩
    exact ⟨e, mem_candidates.mpr ⟨a, b, c⟩, ha⟩

/-- outputs valid only under DISABLED / DESTROYED / removed / foreign keys are rejected: if no
    ENABLED key of the keyset accepts, the wrapped primitive rejects -/
theorem accept_none_of_no_enabled (accepts : κ → Bytes → Bytes → Bool) (es : List (WEntry κ)) (y x : Bytes)
    (h : ∀ e ∈ es, e.status = .enabled → accepts e.key y x = false) : accept accepts es y x = none := by
  cases hh : accept accepts es y x with
  | none => rfl
  | some id =>
    have : (accept accepts es y x).isSome = true := by simp [hh]
    obtain ⟨e, he, hen, _, ha⟩ := (accept_iff accepts es y x).mp this
    rw [h e he hen] at ha; cases ha

/-- the logged key id on success names a key that did the work: it is an ENABLED key of the keyset
    with a matching (or no) prefix that accepts the input -/
theorem accept_logs_worker (accepts : κ → Bytes → Bytes → Bool) (es : List (WEntry κ)) (y x : Bytes) (id : Nat)
    (h : accept accepts es y x = some id) :
    ∃ e ∈ es, e.id = id ∧ e.status = .enabled ∧ ((5 ≤ y.length ∧ e.pre = y.take 5) ∨ e.pre = []) ∧
      accepts e.key y x = true := by
  unfold accept at h
  cases hf : (candidates es y).find? (fun e => accepts e.key y x) with
  | none => simp [hf] at h
  | some e =>
    simp only [hf, Option.map_some, Option.some.injEq] at h
    obtain ⟨a, b, c⟩ := mem_candidates.mp (List.mem_of_find?_eq_some hf)
    exact ⟨e, a, h, b, c, by simpa using List.find?_some hf⟩

/-- MAC: additionally tags of at most five bytes are never accepted -/
theorem macAccept_iff (accepts : κ → Bytes → Bytes → Bool) (es : List (WEntry κ)) (y x : Bytes) :
    (macAccept accepts es y x).isSome = true ↔
      5 < y.length ∧
      ∃ e ∈ es, e.status = .enabled ∧ (e.pre = y.take 5 ∨ e.pre = []) ∧ accepts e.key y x = true := by
  unfold macAccept
  split
  · rename_i h; simp; omega
  · rename_i h
    rw [Option.isSome_map, List.find?_isSome]
    constructor
    · rintro ⟨e, he, ha⟩
      refine ⟨by omega, e, ?_⟩
      rcases List.mem_append.mp he with h1 | h1
      · obtain ⟨a, b, c⟩ := mem_candidates.mp h1
        exact ⟨a, b, c.imp (·.2) id, ha⟩
      · obtain ⟨a, b, c⟩ := mem_bucket.mp h1
        exact ⟨a, b, Or.inr c, ha⟩
    · rintro ⟨hl, e, a, b, c, ha⟩
      refine ⟨e, List.mem_append.mpr (Or.inl (mem_candidates.mpr ⟨a, b, ?_⟩)), ha⟩
      rcases c with c | c
      · exact Or.inl ⟨by omega, c⟩
      · exact Or.inr c

/-- JWT / streaming AEAD: every ENABLED key is a candidate -/
theorem tryAll_iff (accepts : κ → Bytes → Bytes → Bool) (es : List (WEntry κ)) (y x : Bytes) :
    (tryAll accepts es y x).isSome = true ↔ ∃ e ∈ es, e.status = .enabled ∧ accepts e.key y x = true := by
  unfold tryAll
  rw [Option.isSome_map, List.find?_isSome]
  constructor
  · rintro ⟨e, he, ha⟩; obtain ⟨a, b⟩ := mem_enabled.mp he; exact ⟨e, a, b, ha⟩
  · rintro ⟨e, a, b, ha⟩; exact ⟨e, mem_enabled.mpr ⟨a, b⟩, ha⟩

/-- well-formedness of the entry list as keyset handles guarantee it (C11 / C14) -/
structure WFEntries (es : List (WEntry κ)) : Prop where
  onePrimary : (es.filter (·.isPrimary)).length = 1
  primEnabled : ∀ e ∈ es, e.isPrimary = true → e.status = .enabled

/-- **Production rule**: the producing key is the (unique) primary of the keyset, and it is ENABLED;
    no other key is consulted. -/
theorem producer_is_primary (es : List (WEntry κ)) (wf : WFEntries es) :
    ∃ p, producer es = some p ∧ p ∈ es ∧ p.isPrimary = true ∧ p.status = .enabled ∧
      ∀ q ∈ es, q.isPrimary = true → q = p := by
  obtain ⟨p, hp⟩ := List.length_eq_one_iff.mp wf.onePrimary
  have hpm : p ∈ es.filter (·.isPrimary) := by rw [hp]; simp
  obtain ⟨hpe, hpp⟩ := List.mem_filter.mp hpm
  have hpen := wf.primEnabled p hpe hpp
  have huniq : ∀ q ∈ es, q.isPrimary = true → q = p := by
    intro q hq hqp
    have : q ∈ es.filter (·.isPrimary) := List.mem_filter.mpr ⟨hq, hqp⟩
    rw [hp] at this; simpa using this
  unfold producer
  cases hf : (enabled es).reverse.find? (·.isPrimary) with
  | none =>
    have := List.find?_eq_none.mp hf p (List.mem_reverse.mpr (mem_enabled.mpr ⟨hpe, hpen⟩))
    simp [hpp] at this
  | some q =>
    have hq := mem_enabled.mp (List.mem_reverse.mp (List.mem_of_find?_eq_some hf))
    have hqp : q.isPrimary = true := by simpa using List.find?_some hf
    have := huniq q hq.1 hqp
    subst this
    exact ⟨q, rfl, hpe, hpp, hpen, huniq⟩

/-- PRF sets: the key ids are exactly the ids of the ENABLED keys -/
theorem prfIds_spec (es : List (WEntry κ)) (id : Nat) :
    id ∈ prfIds es ↔ ∃ e ∈ es, e.status = .enabled ∧ e.id = id := by
  simp [prfIds, enabled, and_assoc]

/-- composition with the manager (C11): after **any** operation history, a handle that `Handle()`
    returns satisfies the well-formedness the production rule needs -/
theorem wf_after_any_history (ops : List Op) (h : Manager.Handle)
    (hh : Manager.handle (run init ops) = some h) (keyOf : MEntry → κ) (preOf : MEntry → Bytes) :
    WFEntries (h.map fun e => ({ id := e.id, status := e.status, isPrimary := e.isPrimary, pre := preOf e, key := keyOf e } : WEntry κ)) := by
  have hs := inv_run init inv_init ops
  have wf := handle_wf _ hs h hh
  refine ⟨?_, ?_⟩
  · have := wf.onePrimary
    unfold numPrimary at this
    rw [← this, List.filter_map, List.length_map]
    rfl
  · intro e he hp
    obtain ⟨m, hm, rfl⟩ := List.mem_map.mp he
    exact wf.primEnabled m hm hp

/-! non-vacuity: a CRUNCHY and a LEGACY key sharing an id (same prefix bytes), a RAW key, a disabled key -/
def exEs : List (WEntry Nat) :=
  [ { id := 7, status := .enabled, isPrimary := false, pre := [0, 0, 0, 0, 7], key := 1 },
    { id := 7, status := .disabled, isPrimary := false, pre := [0, 0, 0, 0, 7], key := 2 },
    { id := 9, status := .enabled, isPrimary := true, pre := [], key := 3 },
    { id := 5, status := .enabled, isPrimary := false, pre := [1, 0, 0, 0, 5], key := 4 } ]
example : accept (fun k _ _ => k == 2) exEs [0, 0, 0, 0, 7, 1] [] = none := by decide
example : accept (fun k _ _ => k == 3) exEs [0, 0, 0, 0, 7, 1] [] = some 9 := by decide
example : (producer exEs).map (·.id) = some 9 := by decide

end TinkVerif.Wrap

section AxiomAudit
open TinkVerif.Wrap
#print axioms accept_iff
#print axioms accept_none_of_no_enabled
#print axioms accept_logs_worker
#print axioms macAccept_iff
#print axioms tryAll_iff
#print axioms producer_is_primary
#print axioms prfIds_spec
#print axioms wf_after_any_history
end AxiomAudit
