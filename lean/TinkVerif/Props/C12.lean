import TinkVerif.Model.ProtoWire
import TinkVerif.Props.C14

/-!
# C12 — serialization: the protobuf wire codec round-trips, and keysets ↔ entries

* `decode (encode m) = some m` for every well-formed wire message (any number of fields, any values);
* the strict decoder accepts only canonical encodings: `decode b = some m → encode m = b`, so parsing
  followed by re-serialisation is byte-identical on accepted input;
* `keysetToEntries ∘ entriesToKeyset = id` on well-formed entry lists (ids, statuses, primary, order).
Per-key-type field mappings are exercised by the correspondence harness over every registered key type.
-/
namespace TinkVerif.Wire
open TinkVerif

theorem u8_toNat_ofNat (n : Nat) (h : n < 256) : (UInt8.ofNat n).toNat = n := by
  simp [UInt8.toNat_ofNat', Nat.mod_eq_of_lt h]

theorem decVarintAux_enc (fuel n : Nat) (rest : Bytes) (hf : 1 ≤ fuel) (hn : n < 128 ^ fuel) :
    decVarintAux fuel (encVarint n ++ rest) = some (n, rest) := by
  induction fuel generalizing n with
  | zero => omega
  | succ fuel ih =>
    rw [encVarint]
    by_cases h : n < 128
    · simp only [h, ↓reduceDIte, List.cons_append, List.nil_append, decVarintAux]
      rw [u8_toNat_ofNat n (by omega)]
      simp [h]
    · simp only [h, ↓reduceDIte, List.cons_append, decVarintAux]
      rw [u8_toNat_ofNat _ (by omega)]
      have h1 : ¬ (n % 128 + 128 < 128) := by omega
      simp only [h1, ↓reduceIte]
      have hfuel : 1 ≤ fuel := by
        rcases fuel with _ | f
        · simp at hn; omega
        · omega
      have hq : n / 128 < 128 ^ fuel := by
        rw [Nat.pow_succ] at hn
        exact Nat.div_lt_of_lt_mul (by rw [Nat.mul_comm]; exact hn)
      rw [ih (n / 128) hfuel hq]
      have hne : ¬ (n / 128 = 0) := by omega
      simp only [hne, ↓reduceIte, Option.some.injEq, Prod.mk.injEq, and_true]
      omega

/-- varint round trip for every 64-bit value -/
theorem decVarint_enc (n : Nat) (rest : Bytes) (h : n < 2 ^ 64) : decVarint (encVarint n ++ rest) = some (n, rest) := by
  unfold decVarint
  rw [decVarintAux_enc 10 n rest (by omega) (by have : (2:Nat) ^ 64 < 128 ^ 10 := by decide
                                                omega)]
  simp [h]

theorem encVarint_ne_nil (n : Nat) : encVarint n ≠ [] := by
  rw [encVarint]; split <;> simp

/-- strictness: whatever the varint decoder accepts is the canonical encoding of its value -/
theorem decVarintAux_canon (fuel : Nat) (b : Bytes) (v : Nat) (rest : Bytes)
    (h : decVarintAux fuel b = some (v, rest)) : b = encVarint v ++ rest := by
  induction fuel generalizing b v rest with
  | zero => simp [decVarintAux] at h
  | succ fuel ih =>
    cases b with
    | nil => simp [decVarintAux] at h
    | cons x xs =>
      simp only [decVarintAux] at h
      by_cases hx : x.toNat < 128
      · simp only [hx, ↓reduceIte, Option.some.injEq, Prod.mk.injEq] at h
        obtain ⟨rfl, rfl⟩ := h
        rw [encVarint]
        simp only [hx, ↓reduceDIte, List.cons_append, List.nil_append, List.cons.injEq, and_true]
        exact (UInt8.ofNat_toNat).symm
      · simp only [hx, ↓reduceIte] at h
        cases hr : decVarintAux fuel xs with
        | none => simp [hr] at h
        | some p =>
          obtain ⟨hi, r'⟩ := p
          simp only [hr] at h
          by_cases h0 : hi = 0
          · simp [h0] at h
          · simp only [h0, ↓reduceIte, Option.some.injEq, Prod.mk.injEq] at h
            obtain ⟨rfl, rfl⟩ := h
            have := ih xs hi r' hr
            have hx2 := x.toNat_lt
            rw [encVarint]
            have hge : ¬ (x.toNat - 128 + 128 * hi < 128) := by omega
            simp only [hge, ↓reduceDIte, List.cons_append]
            have e1 : (x.toNat - 128 + 128 * hi) % 128 + 128 = x.toNat := by omega
            have e2 : (x.toNat - 128 + 128 * hi) / 128 = hi := by omega
            rw [e1, e2, ← this]
            simp

theorem decVarint_canon (b : Bytes) (v : Nat) (rest : Bytes) (h : decVarint b = some (v, rest)) :
    b = encVarint v ++ rest ∧ v < 2 ^ 64 := by
  unfold decVarint at h
  cases hr : decVarintAux 10 b with
  | none => simp [hr] at h
  | some p =>
    obtain ⟨v', r'⟩ := p
    simp only [hr] at h
    split at h
    · rename_i hv
      simp only [Option.some.injEq, Prod.mk.injEq] at h
      obtain ⟨rfl, rfl⟩ := h
      exact ⟨decVarintAux_canon 10 b v' r' hr, hv⟩
    · cases h

theorem decField_enc (f : Nat × Val) (rest : Bytes) (h1 : 1 ≤ f.1) (h2 : f.1 < 2 ^ 29) (hv : f.2.WF) :
    decField (encField f ++ rest) = some (f, rest) := by
  obtain ⟨fno, v⟩ := f
  simp only at h1 h2 hv
  have hwt : v.wireType < 8 := by cases v <;> simp [Val.wireType]
  have htag : fno * 8 + v.wireType < 2 ^ 64 := by omega
  unfold decField encField
  simp only [List.append_assoc]
  rw [decVarint_enc _ _ htag]
  have hdiv : (fno * 8 + v.wireType) / 8 = fno := by omega
  have hmod : (fno * 8 + v.wireType) % 8 = v.wireType := by omega
  simp only [hdiv, hmod]
  rw [if_neg (by omega)]
  cases v with
  | varint n =>
    simp only [Val.wireType, Val.WF] at hv ⊢
    rw [decVarint_enc n rest hv]; rfl
  | fixed64 b =>
    simp only [Val.wireType, Val.WF] at hv ⊢
    rw [if_neg (by simp [hv])]
    rw [List.take_left' hv, List.drop_left' hv]
  | bytes b =>
    simp only [Val.wireType, Val.WF, List.append_assoc] at hv ⊢
    rw [decVarint_enc b.length _ hv]
    simp only
    rw [if_neg (by simp)]
    rw [List.take_left, List.drop_left]
  | fixed32 b =>
    simp only [Val.wireType, Val.WF] at hv ⊢
    rw [if_neg (by simp [hv])]
    rw [List.take_left' hv, List.drop_left' hv]

theorem encField_ne_nil (f : Nat × Val) : encField f ≠ [] := by
  unfold encField
  intro h
  have := List.append_eq_nil_iff.mp h
  exact encVarint_ne_nil _ this.1

theorem decodeAux_enc (fuel : Nat) (m : Msg) (hm : m.WF) (hf : m.length ≤ fuel) :
    decodeAux fuel (encode m) = some m := by
  induction m generalizing fuel with
  | nil => cases fuel <;> simp [decodeAux, encode]
  | cons f fs ih =>
    cases fuel with
    | zero => simp at hf
    | succ fuel =>
      have hf1 := hm f (List.mem_cons_self ..)
      simp only [encode, List.map_cons, List.flatten_cons, decodeAux]
      have hne : (encField f ++ (List.map encField fs).flatten).isEmpty = false := by
        cases h : encField f with
        | nil => exact absurd h (encField_ne_nil f)
        | cons a as => simp
      simp only [hne, Bool.false_eq_true, ↓reduceIte]
      rw [decField_enc f _ hf1.1 hf1.2.1 hf1.2.2]
      simp only
      have := ih fuel (fun g hg => hm g (List.mem_cons_of_mem _ hg)) (by simpa using hf)
      simp only [encode] at this
      rw [this]; rfl

theorem encode_length_ge (m : Msg) : m.length ≤ (encode m).length := by
  induction m with
  | nil => simp [encode]
  | cons f fs ih =>
    simp only [encode, List.map_cons, List.flatten_cons, List.length_cons, List.length_append] at ih ⊢
    have : 1 ≤ (encField f).length := List.length_pos_iff.mpr (encField_ne_nil f)
    omega

/-- **Round trip**: every well-formed message decodes to itself. -/
theorem decode_encode (m : Msg) (hm : m.WF) : decode (encode m) = some m :=
  decodeAux_enc _ m hm (encode_length_ge m)

theorem decField_canon (b : Bytes) (f : Nat × Val) (rest : Bytes) (h : decField b = some (f, rest)) :
    b = encField f ++ rest := by
  unfold decField at h
  cases ht : decVarint b with
  | none => simp [ht] at h
  | some p =>
    obtain ⟨tag, r⟩ := p
    obtain ⟨hb, htag⟩ := decVarint_canon b tag r ht
    simp only [ht] at h
    split at h
    · cases h
    · rename_i hf0
      have hdm := Nat.div_add_mod tag 8
      split at h
      · rename_i hm
        cases hv : decVarint r with
        | none => simp [hv] at h
        | some q =>
          obtain ⟨v, r2⟩ := q
          simp only [hv, Option.map_some, Option.some.injEq, Prod.mk.injEq] at h
          obtain ⟨rfl, rfl⟩ := h
          obtain ⟨hr, _⟩ := decVarint_canon r v r2 hv
          simp only [encField, Val.wireType]
          rw [hb, hr, show tag / 8 * 8 + 0 = tag by omega, List.append_assoc]
      · rename_i hm
        split at h
        · cases h
        · rename_i hl
          simp only [Option.some.injEq, Prod.mk.injEq] at h
          obtain ⟨rfl, rfl⟩ := h
          simp only [encField, Val.wireType]
          rw [hb, show tag / 8 * 8 + 1 = tag by omega, List.append_assoc, List.take_append_drop]
      · rename_i hm
        cases hv : decVarint r with
        | none => simp [hv] at h
        | some q =>
          obtain ⟨len, r2⟩ := q
          simp only [hv] at h
          split at h
          · cases h
          · simp only [Option.some.injEq, Prod.mk.injEq] at h
            obtain ⟨rfl, rfl⟩ := h
            obtain ⟨hr, _⟩ := decVarint_canon r len r2 hv
            simp only [encField, Val.wireType]
            have hlen : (r2.take len).length = len := by simp; omega
            rw [hb, hr, show tag / 8 * 8 + 2 = tag by omega, hlen]
            simp [List.append_assoc]
      · rename_i hm
        split at h
        · cases h
        · simp only [Option.some.injEq, Prod.mk.injEq] at h
          obtain ⟨rfl, rfl⟩ := h
          simp only [encField, Val.wireType]
          rw [hb, show tag / 8 * 8 + 5 = tag by omega, List.append_assoc, List.take_append_drop]
      · cases h

theorem decodeAux_canon (fuel : Nat) (b : Bytes) (m : Msg) (h : decodeAux fuel b = some m) : encode m = b := by
  induction fuel generalizing b m with
  | zero =>
    simp only [decodeAux] at h
    split at h
    · rename_i he; cases h; simp [encode, List.isEmpty_iff.mp he]
    · cases h
  | succ fuel ih =>
    simp only [decodeAux] at h
    split at h
    · rename_i he; cases h; simp [encode, List.isEmpty_iff.mp he]
    · cases hd : decField b with
      | none => simp [hd] at h
      | some p =>
        obtain ⟨f, rest⟩ := p
        simp only [hd] at h
        cases hr : decodeAux fuel rest with
        | none => simp [hr] at h
        | some fs =>
          simp only [hr, Option.map_some, Option.some.injEq] at h
          subst h
          have := ih rest fs hr
          simp only [encode, List.map_cons, List.flatten_cons] at this ⊢
          rw [this, ← decField_canon b f rest hd]

/-- **Canonicity**: parse-then-serialise is the identity on every accepted byte string. -/
theorem encode_decode (b : Bytes) (m : Msg) (h : decode b = some m) : encode m = b :=
  decodeAux_canon _ b m h

end TinkVerif.Wire

namespace TinkVerif.Keyset
open TinkVerif TinkVerif.Manager

/-- `entriesToProtoKeyset` at the metadata level -/
def statusNum : Status → Nat
  | .enabled => 1 | .disabled => 2 | .destroyed => 3 | .unknown => 0

def toKeyset (es : List MEntry) (prefixOf : MEntry → Nat) : PKeyset :=
  { primaryKeyId := match es.reverse.find? (·.isPrimary) with | some e => e.id | none => 0,
    keys := es.map fun e => { hasKeyData := true, material := 1, status := statusNum e.status, keyId := e.id,
                              prefixType := prefixOf e, parseOk := true } }

/-- **Keyset round trip**: writing a well-formed handle's entries to a keyset message and reading it
    back yields the same ids, statuses, primary flags and order. -/
theorem handleOf_toKeyset (es : List MEntry) (wf : WFHandle es) (prefixOf : MEntry → Nat)
    (hp : ∀ e, prefixOf e = 1 ∨ prefixOf e = 2 ∨ prefixOf e = 3 ∨ prefixOf e = 4 ∨ prefixOf e = 5) :
    (handleOf (toKeyset es prefixOf)).map (·.map fun e => (e.id, e.status, e.isPrimary)) =
      some (es.map fun e => (e.id, e.status, e.isPrimary)) := by
  obtain ⟨p, hpf, hpm, hpp, hpen⟩ := wf_primary es wf
  have hpid : (toKeyset es prefixOf).primaryKeyId = p.id := by
    unfold Handle.primary at hpf
    simp [toKeyset, hpf]
  have hst : ∀ e ∈ es, statusNum e.status = 1 ∨ statusNum e.status = 2 ∨ statusNum e.status = 3 := by
    intro e he
    have := wf.noUnknown e he
    cases hs : e.status <;> simp_all [statusNum]
  have huniq : ∀ e ∈ es, (e.id = p.id ↔ e.isPrimary = true) := by
    intro e he
    constructor
    · intro h; rw [eq_of_id_eq wf.nodup he hpm h]; exact hpp
    · intro h
      -- exactly one primary
      have h1 : e ∈ es.filter (·.isPrimary) := List.mem_filter.mpr ⟨he, h⟩
      have h2 : p ∈ es.filter (·.isPrimary) := List.mem_filter.mpr ⟨hpm, hpp⟩
      obtain ⟨q, hq⟩ := List.length_eq_one_iff.mp wf.onePrimary
      rw [hq] at h1 h2
      simp at h1 h2; rw [h1, h2]
  have hwf : WF (toKeyset es prefixOf) := by
    refine ⟨?_, ?_, ?_, ?_, ?_⟩
    · simpa [toKeyset] using wf.nonempty
    · intro k hk
      simp only [toKeyset, List.mem_map] at hk
      obtain ⟨e, he, rfl⟩ := hk
      rw [validKey_iff]
      exact ⟨rfl, hp e, hst e he⟩
    · simpa [toKeyset, List.map_map, Function.comp_def] using wf.nodup
    · intro k hk hid
      simp only [toKeyset, List.mem_map] at hk
      obtain ⟨e, he, rfl⟩ := hk
      rw [hpid] at hid
      simp only at hid ⊢
      have := (huniq e he).mp hid
      rw [wf.primEnabled e he this]; rfl
    · refine ⟨{ hasKeyData := true, material := 1, status := statusNum p.status, keyId := p.id,
                prefixType := prefixOf p, parseOk := true }, ?_, by rw [hpid]⟩
      simp only [toKeyset, List.mem_map]
      exact ⟨p, hpm, rfl⟩
  unfold handleOf
  rw [if_neg (by simp [(validate_iff_WF _).mpr hwf])]
  rw [if_neg (by simp [toKeyset])]
  dsimp only
  have hmap : (toKeyset es prefixOf).keys.map
        (fun k => (⟨0, k.keyId, statusOf k.status, k.keyId == (toKeyset es prefixOf).primaryKeyId⟩ : MEntry))
      = es.map fun e => (⟨0, e.id, e.status, e.isPrimary⟩ : MEntry) := by
    rw [hpid]
    simp only [toKeyset, List.map_map]
    apply List.map_congr_left
    intro e he
    simp only [Function.comp_apply, MEntry.mk.injEq, true_and]
    refine ⟨?_, ?_⟩
    · have := wf.noUnknown e he
      cases hs : e.status <;> simp_all [statusNum, statusOf]
    · by_cases hpe : e.isPrimary = true
      · simp [hpe, (huniq e he).mpr hpe]
      · have : ¬ e.id = p.id := fun h => hpe ((huniq e he).mp h)
        simp [this, Bool.not_eq_true _ |>.mp hpe]
  rw [hmap]
  rw [if_neg (by
    simp only [List.any_map, List.any_eq_true, Function.comp_apply, decide_eq_true_eq, not_exists, not_and]
    exact fun e he => wf.noUnknown e he)]
  rw [if_pos (by
    simp only [List.any_map, List.any_eq_true, Function.comp_apply]
    exact ⟨p, hpm, hpp⟩)]
  simp [List.map_map, Function.comp_def]

end TinkVerif.Keyset

section AxiomAudit
#print axioms TinkVerif.Wire.decVarint_enc
#print axioms TinkVerif.Wire.decVarint_canon
#print axioms TinkVerif.Wire.decField_enc
#print axioms TinkVerif.Wire.decode_encode
#print axioms TinkVerif.Wire.encode_decode
#print axioms TinkVerif.Keyset.handleOf_toKeyset
end AxiomAudit
