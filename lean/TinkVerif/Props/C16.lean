import TinkVerif.Model.Slh
import TinkVerif.Props.C03

/-!
# C16 — SLH-DSA: support-function laws (FIPS 205 §4.4) for all inputs

The scheme itself (WOTS⁺, XMSS, hypertree, FORS over twelve parameter sets) is tied to the code by
correspondence with the independent FIPS 205 implementation `Prim/Slhdsa.lean`; the laws below are the
part proved for every input.
-/
namespace TinkVerif.Slh
open TinkVerif

theorem toInt_toByte (x n : Nat) : toInt (toByte x n) = x % 256 ^ n := Bytes.toNatBE_ofNatBE n x

theorem toByte_length (x n : Nat) : (toByte x n).length = n := Bytes.length_ofNatBE n x

theorem toByte_toInt (b : Bytes) : toByte (toInt b) b.length = b := Sig.ofNatBE_toNatBE b

theorem toInt_lt (b : Bytes) : toInt b < 256 ^ b.length := Sig.toNatBE_lt b

theorem base2bLoop_length (b n : Nat) (x : Bytes) (bits total : Nat) :
    (base2bLoop b n x bits total).length = n := by
  induction n generalizing x bits total with
  | zero => simp [base2bLoop]
  | succ n ih => simp [base2bLoop, ih]

/-- `base_2^b` returns exactly `outLen` digits … -/
theorem base2b_length (x : Bytes) (b outLen : Nat) : (base2b x b outLen).length = outLen :=
  base2bLoop_length b outLen x 0 0

theorem base2bLoop_lt (b n : Nat) (x : Bytes) (bits total : Nat) :
    ∀ d ∈ base2bLoop b n x bits total, d < 2 ^ b := by
  induction n generalizing x bits total with
  | zero => simp [base2bLoop]
  | succ n ih =>
    intro d hd
    simp only [base2bLoop, List.mem_cons] at hd
    rcases hd with rfl | hd
    · exact Nat.mod_lt _ (Nat.two_pow_pos b)
    · exact ih _ _ _ d hd

/-- … each of which is a `b`-bit value -/
theorem base2b_digit_lt (x : Bytes) (b outLen : Nat) : ∀ d ∈ base2b x b outLen, d < 2 ^ b :=
  base2bLoop_lt b outLen x 0 0

/-- tree and leaf indices are in range for every digest, every (h, h') -/
theorem idxTree_lt (h hp : Nat) (tmp : Bytes) : idxTree h hp tmp < 2 ^ (h - hp) :=
  Nat.mod_lt _ (Nat.two_pow_pos _)

theorem idxLeaf_lt (hp : Nat) (tmp : Bytes) : idxLeaf hp tmp < 2 ^ hp :=
  Nat.mod_lt _ (Nat.two_pow_pos _)

/-! tests of the digit extraction against the specification form (FIPS 205 example shapes) -/
example : base2b [0x12, 0x34, 0x56] 4 6 = [1, 2, 3, 4, 5, 6] := by decide
example : base2b [0x12, 0x34, 0x56] 4 6 = base2bSpec [0x12, 0x34, 0x56] 4 6 := by decide
example : base2b [0xAB, 0xCD, 0xEF, 0x01] 6 5 = base2bSpec [0xAB, 0xCD, 0xEF, 0x01] 6 5 := by decide
example : base2b [0xAB, 0xCD, 0xEF, 0x01, 0x23] 9 4 = base2bSpec [0xAB, 0xCD, 0xEF, 0x01, 0x23] 9 4 := by decide
example : base2b [0xFF, 0x00, 0xFF, 0x00] 12 2 = base2bSpec [0xFF, 0x00, 0xFF, 0x00] 12 2 := by decide
example : base2b [0xAB, 0xCD, 0xEF, 0x01] 14 2 = base2bSpec [0xAB, 0xCD, 0xEF, 0x01] 14 2 := by decide

end TinkVerif.Slh

section AxiomAudit
open TinkVerif.Slh
#print axioms toInt_toByte
#print axioms toByte_length
#print axioms toByte_toInt
#print axioms toInt_lt
#print axioms base2b_length
#print axioms base2b_digit_lt
#print axioms idxTree_lt
#print axioms idxLeaf_lt
end AxiomAudit
