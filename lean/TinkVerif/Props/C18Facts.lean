import TinkVerif.Props.C18Class
/-! C18 — the regenerated mutation facts are all on allow-listed per-stream / per-call / builder objects. -/
namespace TinkVerif.Gen.MutFacts

/-- **no primitive, key, handle or registry type is written after construction** (syntactically) -/
theorem facts_classified : unexpected = [] := by decide +kernel

theorem scan_coverage : 100 ≤ packagesScanned := by decide

/-- the allow-list is not stale: every allowed owner still has a fact -/
theorem allowances_used : allowedOwners.all (fun (pkg, owner, _) => facts.any fun f => f.pkg == pkg && f.owner == owner) = true := by
  decide +kernel

/-- every allow-listed package-level variable still exists as a fact -/
theorem global_allowances_used :
    allowedGlobals.all (fun (pkg, v, _) => facts.any fun f => isGlobalKind f.kind && f.pkg == pkg && f.owner == v) = true := by
  decide +kernel

/-- every allow-listed in-place write / hand-out of a container field still exists as a fact -/
theorem field_allowances_used :
    allowedFieldFacts.all (fun (pkg, fn, kind, what, _) =>
      facts.any fun f => f.pkg == pkg && f.fn == fn && f.kind == kind && f.what == what) = true := by
  decide +kernel

end TinkVerif.Gen.MutFacts

section AxiomAudit
open TinkVerif.Gen.MutFacts
#print axioms facts_classified
#print axioms scan_coverage
#print axioms allowances_used
#print axioms global_allowances_used
#print axioms field_allowances_used
end AxiomAudit
