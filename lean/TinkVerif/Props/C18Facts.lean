import TinkVerif.Props.C18Class
/-! C18 — the regenerated mutation facts are all on allow-listed per-stream / per-call / builder objects. -/
namespace TinkVerif.Gen.MutFacts

/-- **no primitive, key, handle or registry type is written after construction** (entry-point summaries) -/
theorem facts_classified : unexpected = [] := by decide +kernel

/-- the scan covered the code base; the extractor itself refuses when a package does not type-check or when no call
    site resolves to a function of the module (lost type information) -/
theorem scan_coverage : 100 ≤ packagesScanned ∧ 1000 ≤ functionsScanned ∧ 1000 ≤ resolvedCallSites := by decide

end TinkVerif.Gen.MutFacts

section AxiomAudit
open TinkVerif.Gen.MutFacts
#print axioms facts_classified
#print axioms scan_coverage
end AxiomAudit
