import TinkVerif.Model.Manager

/-! Helper lemmas for the keyset-manager invariant (C11). Core Lean only. -/
namespace TinkVerif.Manager

theorem drawId_not_mem {u ds : List Nat} {d : Nat} (h : drawId u ds = some d) : d ∉ u := by
  induction ds with
  | nil => simp [drawId] at h
  | cons x xs ih =>
    unfold drawId at h
    split at h
    · exact ih h
    · cases h; assumption

theorem drawId_mem {u ds : List Nat} {d : Nat} (h : drawId u ds = some d) : d ∈ ds := by
  induction ds with
  | nil => simp [drawId] at h
  | cons x xs ih =>
    unfold drawId at h
    split at h
    · exact List.mem_cons_of_mem _ (ih h)
    · cases h; simp

/-- entries with pairwise distinct ids are determined by their id -/
theorem eq_of_id_eq {es : List MEntry} (nd : (es.map (·.id)).Nodup)
    {x y : MEntry} (hx : x ∈ es) (hy : y ∈ es) (h : x.id = y.id) : x = y := by
  induction es with
  | nil => cases hx
  | cons a as ih =>
    simp only [List.map_cons, List.nodup_cons, List.mem_map, not_exists, not_and] at nd
    rcases List.mem_cons.mp hx with rfl | hx' <;> rcases List.mem_cons.mp hy with rfl | hy'
    · rfl
    · exact absurd h.symm (nd.1 y hy')
    · exact absurd h (nd.1 x hx')
    · exact ih nd.2 hx' hy'

theorem findEntry_some {es : List MEntry} {id : Nat} {e : MEntry}
    (h : findEntry es id = some e) : e ∈ es ∧ e.id = id := by
  unfold findEntry at h
  have h1 := List.mem_of_find?_eq_some h
  have h2 := List.find?_some h
  exact ⟨h1, by simpa using h2⟩

theorem findEntry_none {es : List MEntry} {id : Nat}
    (h : findEntry es id = none) : ∀ e ∈ es, e.id ≠ id := by
  unfold findEntry at h
  intro e he
  have := List.find?_eq_none.mp h e he
  simpa using this

/-- number of entries flagged primary -/
def numPrimary (es : List MEntry) : Nat := (es.filter (·.isPrimary)).length

theorem numPrimary_append (a b : List MEntry) : numPrimary (a ++ b) = numPrimary a + numPrimary b := by
  simp [numPrimary]

@[simp] theorem numPrimary_clear (es : List MEntry) : numPrimary (clearPrimary es) = 0 := by
  induction es with
  | nil => rfl
  | cons a as ih => simpa [numPrimary, clearPrimary, List.filter_cons] using ih

@[simp] theorem map_id_clear (es : List MEntry) : (clearPrimary es).map (·.id) = es.map (·.id) := by
  simp [clearPrimary, Function.comp_def]

theorem mem_clear {es : List MEntry} {e : MEntry} (h : e ∈ clearPrimary es) :
    ∃ e0 ∈ es, e = { e0 with isPrimary := false } := by
  simp only [clearPrimary, List.mem_map] at h
  obtain ⟨e0, h0, rfl⟩ := h
  exact ⟨e0, h0, rfl⟩

/-- setting `isPrimary := (x.id == id)` in a list with distinct ids leaves at most one primary -/
theorem numPrimary_setPrimary_le (es : List MEntry) (id : Nat) (nd : (es.map (·.id)).Nodup) :
    numPrimary (es.map fun x => { x with isPrimary := x.id == id }) ≤ 1 := by
  induction es with
  | nil => simp [numPrimary]
  | cons a as ih =>
    simp only [List.map_cons, List.nodup_cons, List.mem_map, not_exists, not_and] at nd
    have ih' := ih nd.2
    by_cases ha : a.id = id
    · -- no later entry has this id
      have : numPrimary (as.map fun x => { x with isPrimary := x.id == id }) = 0 := by
        simp only [numPrimary, List.length_eq_zero_iff, List.filter_eq_nil_iff, List.mem_map]
        rintro x ⟨y, hy, rfl⟩
        have := nd.1 y hy
        simp only [beq_iff_eq, Bool.not_eq_true, beq_eq_false_iff_ne, ne_eq]
        intro h; exact this (h.trans ha.symm)
      simp only [numPrimary] at this ⊢
      simp [List.filter_cons, ha, this]
    · simp only [numPrimary] at ih' ⊢
      simp [List.filter_cons, ha, ih']

theorem numPrimary_map_of (es : List MEntry) (f : MEntry → MEntry)
    (hf : ∀ x, (f x).isPrimary = x.isPrimary) : numPrimary (es.map f) = numPrimary es := by
  induction es with
  | nil => rfl
  | cons a as ih =>
    simp only [numPrimary] at ih
    simp only [numPrimary, List.map_cons, List.filter_cons, hf]
    split <;> simp [ih]

theorem map_id_map_of (es : List MEntry) (f : MEntry → MEntry)
    (hf : ∀ x, (f x).id = x.id) : (es.map f).map (·.id) = es.map (·.id) := by
  induction es with
  | nil => rfl
  | cons a as ih => simp only [List.map_cons, hf, ih]

theorem numPrimary_setStatus (es : List MEntry) (id : Nat) (st : Status) :
    numPrimary (setStatus es id st) = numPrimary es :=
  numPrimary_map_of es _ (fun x => by split <;> rfl)

@[simp] theorem map_id_setStatus (es : List MEntry) (id : Nat) (st : Status) :
    (setStatus es id st).map (·.id) = es.map (·.id) :=
  map_id_map_of es _ (fun x => by split <;> rfl)

theorem mem_setStatus {es : List MEntry} {id : Nat} {st : Status} {e : MEntry}
    (h : e ∈ setStatus es id st) :
    (e ∈ es ∧ e.id ≠ id) ∨ (∃ e0 ∈ es, e0.id = id ∧ e = { e0 with status := st }) := by
  simp only [setStatus, List.mem_map] at h
  obtain ⟨e0, h0, rfl⟩ := h
  by_cases hid : e0.id == id
  · right; exact ⟨e0, h0, by simpa using hid, by simp [hid]⟩
  · left; simp only [hid]; exact ⟨h0, by simpa using hid⟩

theorem numPrimary_sublist {a b : List MEntry} (h : a.Sublist b) : numPrimary a ≤ numPrimary b :=
  (h.filter _).length_le

end TinkVerif.Manager
