import TinkVerif.Base.GoSemBytes
/-
  Lemmas about the byte-slice semantics of `GoSemBytes` used by the tie theorems in Props/GlueTie/*.
-/
namespace TinkVerif.GoSem
open TinkVerif

theorem i64_eq {x : Int} (h1 : -9223372036854775808 ≤ x) (h2 : x < 9223372036854775808) : i64 x = x := by
  unfold i64; omega

@[simp] theorem len_eq (b : Bytes) : len b = (b.length : Int) := rfl

theorem makeBytes_natCast (n : Nat) : makeBytes (n : Int) = Bytes.zeros n := by
  simp [makeBytes, Bytes.zeros]


@[simp] theorem drop_zeros (n k : Nat) : (Bytes.zeros n).drop k = Bytes.zeros (n - k) := by
  simp [Bytes.zeros]

@[simp] theorem take_zeros (n k : Nat) : (Bytes.zeros n).take k = Bytes.zeros (min k n) := by
  simp [Bytes.zeros]

@[simp] theorem zeros_zero : Bytes.zeros 0 = [] := rfl

theorem zeros_succ (n : Nat) : Bytes.zeros (n + 1) = 0 :: Bytes.zeros n := by
  simp [Bytes.zeros, List.replicate_succ]

/-! ### stores at the end of an already written part `A` of a buffer `A ++ Z` -/

theorem copyInto_append (A Z src : Bytes) (lo hi : Int) (hlo : lo = (A.length : Int))
    (hhi : hi = ((A.length + Z.length : Nat) : Int)) :
    copyInto (A ++ Z) lo hi src = A ++ src.take Z.length ++ Z.drop src.length := by
  subst hlo hhi
  have e : (((A.length + Z.length : Nat) : Int) - (A.length : Int)).toNat = Z.length := by omega
  simp only [copyInto, len_eq, List.length_append, e]
  rw [if_pos (by omega)]
  simp only [Int.toNat_natCast, List.take_left', List.append_assoc, List.append_cancel_left_eq]
  by_cases h : src.length ≤ Z.length
  · rw [Nat.min_eq_right h, List.take_of_length_le h, List.take_of_length_le (Nat.le_refl _)]
    congr 1
    rw [List.drop_append]
    simp
  · have h' : Z.length ≤ src.length := by omega
    rw [Nat.min_eq_left h']
    congr 1
    rw [List.drop_append]
    simp [List.drop_of_length_le h']

theorem putBE_append (w : Nat) (A Z : Bytes) (lo hi : Int) (v : Nat) (hlo : lo = (A.length : Int))
    (h1 : ((A.length + w : Nat) : Int) ≤ hi) (h2 : hi ≤ ((A.length + Z.length : Nat) : Int)) :
    putBE w (A ++ Z) lo hi v = A ++ Bytes.ofNatBE w v ++ Z.drop w := by
  subst hlo
  simp only [putBE, len_eq, List.length_append]
  rw [if_pos (by simp only [Int.ofNat_eq_natCast]; omega)]
  simp only [Int.toNat_natCast, List.take_left', List.append_assoc, List.append_cancel_left_eq]
  rw [List.drop_append]; simp

theorem putLE_append (w : Nat) (A Z : Bytes) (lo hi : Int) (v : Nat) (hlo : lo = (A.length : Int))
    (h1 : ((A.length + w : Nat) : Int) ≤ hi) (h2 : hi ≤ ((A.length + Z.length : Nat) : Int)) :
    putLE w (A ++ Z) lo hi v = A ++ Bytes.ofNatLE w v ++ Z.drop w := by
  subst hlo
  simp only [putLE, len_eq, List.length_append]
  rw [if_pos (by simp only [Int.ofNat_eq_natCast]; omega)]
  simp only [Int.toNat_natCast, List.take_left', List.append_assoc, List.append_cancel_left_eq]
  rw [List.drop_append]; simp

theorem setAt_append (A Z : Bytes) (i : Int) (v : UInt8) (hi : i = (A.length : Int)) (hz : 0 < Z.length) :
    setAt (A ++ Z) i v = A ++ v :: Z.drop 1 := by
  subst hi
  simp only [setAt, len_eq, List.length_append]
  rw [if_pos (by omega)]
  simp only [Int.toNat_natCast]
  cases Z with
  | nil => simp at hz
  | cons z zs => simp

/-! ### plain index forms -/

theorem getAt_nat (b : Bytes) (i : Nat) : getAt b (i : Int) = b.getD i 0 := by
  simp [getAt]

theorem setAt_nat (b : Bytes) (i : Nat) (v : UInt8) (h : i < b.length) :
    setAt b (i : Int) v = b.take i ++ v :: b.drop (i + 1) := by
  have hc : 0 ≤ (i : Int) ∧ (i : Int) < len b := by simp only [len_eq]; omega
  rw [setAt, if_pos hc]
  simp [List.set_eq_take_append_cons_drop, h]

theorem setAt_last (b : Bytes) (n : Nat) (v : UInt8) (h : b.length = n + 1) :
    setAt b (n : Int) v = b.take n ++ [v] := by
  rw [setAt_nat b n v (by omega), List.drop_of_length_le (by omega)]

theorem slice_nat (b : Bytes) (lo hi : Nat) (h1 : lo ≤ hi) (h2 : hi ≤ b.length) :
    slice b (lo : Int) (hi : Int) = (b.take hi).drop lo := by
  have hc : 0 ≤ (lo : Int) ∧ (lo : Int) ≤ hi ∧ (hi : Int) ≤ len b := by simp only [len_eq]; omega
  rw [slice, if_pos hc]
  simp

theorem copyInto_all (b src : Bytes) (h : src.length = b.length) : copyInto b 0 (len b) src = src := by
  have := copyInto_append [] b src 0 (len b) (by simp) (by simp)
  simp only [List.nil_append] at this
  rw [this, ← h, List.take_of_length_le (Nat.le_refl _), List.drop_of_length_le (by omega)]; simp

/-! ### integer conversions -/

theorem toUnsigned_natCast (w n : Nat) : toUnsigned w (n : Int) = n % 2 ^ w := by
  unfold toUnsigned
  rw [Int.ofNat_eq_natCast, ← Int.natCast_emod, Int.toNat_natCast]

theorem toUnsigned_64 (n : Nat) : toUnsigned 64 (n : Int) = n % 18446744073709551616 := toUnsigned_natCast 64 n
theorem toUnsigned_32 (n : Nat) : toUnsigned 32 (n : Int) = n % 4294967296 := toUnsigned_natCast 32 n
theorem toUnsigned_16 (n : Nat) : toUnsigned 16 (n : Int) = n % 65536 := toUnsigned_natCast 16 n

end TinkVerif.GoSem

namespace TinkVerif.Bytes

theorem ofNatLE_mod (k n : Nat) : ofNatLE k (n % 256 ^ k) = ofNatLE k n := by
  induction k generalizing n with
  | zero => simp [ofNatLE]
  | succ k ih =>
    have e1 : n % 256 ^ (k + 1) % 256 = n % 256 :=
      Nat.mod_mod_of_dvd n (by rw [Nat.pow_succ]; exact Nat.dvd_mul_left _ _)
    have e2 : n % 256 ^ (k + 1) / 256 = n / 256 % 256 ^ k := by
      rw [Nat.pow_succ, Nat.mul_comm]; exact Nat.mod_mul_right_div_self n 256 (256 ^ k)
    simp only [ofNatLE, e1, e2, ih]

theorem ofNatBE_mod' (k n : Nat) : ofNatBE k (n % 256 ^ k) = ofNatBE k n := by
  induction k generalizing n with
  | zero => simp [ofNatBE]
  | succ k ih =>
    have e1 : n % 256 ^ (k + 1) % 256 = n % 256 :=
      Nat.mod_mod_of_dvd n (by rw [Nat.pow_succ]; exact Nat.dvd_mul_left _ _)
    have e2 : n % 256 ^ (k + 1) / 256 = n / 256 % 256 ^ k := by
      rw [Nat.pow_succ, Nat.mul_comm]; exact Nat.mod_mul_right_div_self n 256 (256 ^ k)
    simp only [ofNatBE, e1, e2, ih]

theorem ofNatLE_toNatLE (b : Bytes) : ofNatLE b.length (toNatLE b) = b := by
  induction b with
  | nil => simp [ofNatLE]
  | cons x xs ih =>
    have hx := x.toNat_lt
    have e1 : (x.toNat + 256 * toNatLE xs) % 256 = x.toNat := by omega
    have e2 : (x.toNat + 256 * toNatLE xs) / 256 = toNatLE xs := by omega
    simp only [List.length_cons, ofNatLE, toNatLE, e1, e2, ih]
    simp

theorem toNatLE_lt (b : Bytes) : toNatLE b < 256 ^ b.length := by
  induction b with
  | nil => simp [toNatLE]
  | cons x xs ih =>
    have hx := x.toNat_lt
    simp only [toNatLE, List.length_cons, Nat.pow_succ]
    omega

/-- `xor` (a `zipWith`) only sees the common prefix -/
theorem xor_take_left (a b : Bytes) : xor (a.take b.length) b = xor a b := by
  induction a generalizing b with
  | nil => simp [xor]
  | cons x xs ih =>
    cases b with
    | nil => simp [xor]
    | cons y ys =>
      have := ih ys
      simp only [xor] at this ⊢
      simp [this]

end TinkVerif.Bytes
