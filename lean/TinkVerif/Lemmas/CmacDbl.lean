import TinkVerif.Model.Cmac
/-!
  Arithmetic behind `mulByX = dblSpec`: big-endian numbers, the bytewise left shift with carry,
  and xor on the low byte.  Used by `Props/C08Deep.lean`.
-/
namespace TinkVerif.Bytes

theorem foldl_acc (l : Bytes) (acc : Nat) :
    l.foldl (fun a x => a * 256 + x.toNat) acc =
      acc * 256 ^ l.length + l.foldl (fun a x => a * 256 + x.toNat) 0 := by
  induction l generalizing acc with
  | nil => simp
  | cons x xs ih =>
    simp only [List.foldl_cons, List.length_cons]
    rw [ih (acc * 256 + x.toNat), ih (0 * 256 + x.toNat), Nat.pow_succ]
    generalize 256 ^ xs.length = P
    rw [Nat.add_mul, Nat.add_mul, Nat.mul_assoc, Nat.mul_comm 256 P]
    omega

theorem toNatBE_cons (x : UInt8) (l : Bytes) :
    toNatBE (x :: l) = x.toNat * 256 ^ l.length + toNatBE l := by
  unfold toNatBE
  rw [List.foldl_cons, foldl_acc]
  simp

theorem toNatBE_nil : toNatBE [] = 0 := rfl

theorem toNatBE_lt (l : Bytes) : toNatBE l < 256 ^ l.length := by
  induction l with
  | nil => simp [toNatBE]
  | cons x xs ih =>
    rw [toNatBE_cons, List.length_cons, Nat.pow_succ]
    have hx := x.toNat_lt
    generalize 256 ^ xs.length = P at ih ⊢
    have : x.toNat * P + P ≤ 256 * P := by
      have : (x.toNat + 1) * P ≤ 256 * P := Nat.mul_le_mul_right P (by omega)
      rw [Nat.add_mul] at this; omega
    omega

theorem ofNatBE_succ_mul_add (k q r : Nat) (hr : r < 256) :
    ofNatBE (k + 1) (q * 256 + r) = ofNatBE k q ++ [UInt8.ofNat r] := by
  rw [ofNatBE]
  have h1 : (q * 256 + r) / 256 = q := by omega
  have h2 : (q * 256 + r) % 256 = r := by omega
  rw [h1, h2]

/-- `ofNatBE` inverts `toNatBE` on lists of the right length -/
theorem ofNatBE_toNatBE (l : Bytes) : ofNatBE l.length (toNatBE l) = l := by
  generalize hk : l.length = k
  induction k generalizing l with
  | zero =>
    have : l = [] := List.eq_nil_of_length_eq_zero hk
    subst this; rfl
  | succ k ih =>
    rcases List.eq_nil_or_concat l with h | ⟨init, x, h⟩
    · subst h; simp at hk
    · rw [List.concat_eq_append] at h
      subst h
      rw [List.length_append, List.length_singleton, Nat.add_right_cancel_iff] at hk
      rw [toNatBE_append_singleton, ofNatBE_succ_mul_add _ _ _ x.toNat_lt, ih init hk]
      simp

/-- xor with a one-byte constant only touches the low byte -/
theorem nat_xor_low (q r c : Nat) (hr : r < 256) (hc : c < 256) :
    (q * 256 + r) ^^^ c = q * 256 + (r ^^^ c) := by
  have hd := @Nat.xor_div_two_pow (q * 256 + r) c 8
  have hm := @Nat.xor_mod_two_pow (q * 256 + r) c 8
  have e : (2 : Nat) ^ 8 = 256 := by decide
  rw [e] at hd hm
  have h1 : (q * 256 + r) / 256 = q := by omega
  have h2 : (q * 256 + r) % 256 = r := by omega
  have h3 : c / 256 = 0 := by omega
  have h4 : c % 256 = c := by omega
  rw [h1, h3, Nat.xor_zero] at hd
  rw [h2, h4] at hm
  have := Nat.div_add_mod ((q * 256 + r) ^^^ c) 256
  rw [hd, hm] at this
  omega

theorem nat_xor_lt_256 (r c : Nat) (hr : r < 256) (hc : c < 256) : r ^^^ c < 256 :=
  Nat.xor_lt_two_pow (n := 8) hr hc

end TinkVerif.Bytes

namespace TinkVerif.Cmac
open TinkVerif

theorem u8_shl1_toNat (x : UInt8) : (x <<< 1).toNat = (2 * x.toNat) % 256 := by
  rw [UInt8.toNat_shiftLeft]
  have : (1 : UInt8).toNat % 8 = 1 := by decide
  rw [this, Nat.shiftLeft_eq]
  have e : (2 : Nat) ^ 8 = 256 := by decide
  rw [e, Nat.pow_one, Nat.mul_comm]

theorem u8_shr7_toNat (y : UInt8) : (y >>> 7).toNat = y.toNat / 128 := by
  rw [UInt8.toNat_shiftRight]
  have : (7 : UInt8).toNat % 8 = 7 := by decide
  rw [this, Nat.shiftRight_eq_div_pow]

theorem u8_shl_or_shr_toNat (x y : UInt8) :
    ((x <<< 1) ||| (y >>> 7)).toNat = (2 * x.toNat) % 256 + y.toNat / 128 := by
  rw [UInt8.toNat_or, u8_shl1_toNat, u8_shr7_toNat]
  have hy := y.toNat_lt
  have h1 : (2 * x.toNat) % 256 = (x.toNat % 128) <<< 1 := by
    rw [Nat.shiftLeft_eq]; omega
  rw [h1]
  exact (Nat.shiftLeft_add_eq_or_of_lt (i := 1) (by omega) _).symm

theorem u8_shr7_eq_one_iff (x : UInt8) : x >>> 7 = 1 ↔ 128 ≤ x.toNat := by
  rw [← UInt8.toNat_inj, u8_shr7_toNat]
  have := x.toNat_lt
  have : (1 : UInt8).toNat = 1 := by decide
  rw [this]; omega

/-- bytewise left shift by one bit with carry from the next byte (recursive form of the Go loop) -/
def shiftList : Bytes → Bytes
  | [] => []
  | [x] => [x <<< 1]
  | x :: y :: r => ((x <<< 1) ||| (y >>> 7)) :: shiftList (y :: r)

theorem shiftList_length (l : Bytes) : (shiftList l).length = l.length := by
  fun_induction shiftList l <;> simp_all

/-- doubling the big-endian number = carry-out of the top byte · 256^k + the shifted byte string -/
theorem two_mul_toNatBE (x : UInt8) (l : Bytes) :
    2 * Bytes.toNatBE (x :: l) =
      (x.toNat / 128) * 256 ^ (l.length + 1) + Bytes.toNatBE (shiftList (x :: l)) := by
  induction l generalizing x with
  | nil =>
    simp only [shiftList, Bytes.toNatBE_cons, Bytes.toNatBE_nil, List.length_nil, Nat.pow_zero,
      Nat.zero_add, Nat.pow_one, Nat.mul_one, Nat.add_zero, u8_shl1_toNat]
    omega
  | cons y r ih =>
    have ih' := ih y
    rw [shiftList, Bytes.toNatBE_cons x, Bytes.toNatBE_cons (_ ||| _), shiftList_length,
      u8_shl_or_shr_toNat]
    simp only [List.length_cons] at ih' ⊢
    rw [Nat.pow_succ 256 (r.length + 1)]
    generalize 256 ^ (r.length + 1) = P at ih' ⊢
    generalize Bytes.toNatBE (y :: r) = N at ih' ⊢
    generalize Bytes.toNatBE (shiftList (y :: r)) = S at ih' ⊢
    have h2x : 2 * x.toNat = 256 * (x.toNat / 128) + (2 * x.toNat) % 256 := by omega
    have hx : 2 * (x.toNat * P) = 256 * (x.toNat / 128 * P) + (2 * x.toNat) % 256 * P := by
      rw [← Nat.mul_assoc, h2x, Nat.add_mul, Nat.mul_assoc]
      congr 2
      omega
    rw [Nat.add_mul, ← Nat.mul_assoc (x.toNat / 128) P 256, Nat.mul_comm (x.toNat / 128 * P) 256]
    omega

end TinkVerif.Cmac
