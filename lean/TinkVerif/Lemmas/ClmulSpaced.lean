/-
  Multiplication "with holes": for numbers whose set bits all lie in one residue class of the bit
  index modulo 4 ("spaced" numbers), the ordinary integer product computes the carry-less product
  at the bit positions of the class `i + j`: every 4-bit group of the integer product holds a count
  of at most 8 partial products (< 16), so no carry leaves its group, and the low bit of the group
  is the parity (xor) of the partial products.  Core Lean only.
-/
import TinkVerif.Lemmas.Clmul

namespace TinkVerif.Clmul
open TinkVerif.Prim.PolyvalSpec

/-- all set bits of `x` are at positions `≡ r (mod 4)` -/
def Spaced (r x : Nat) : Prop := ∀ p, x.testBit p = true → p % 4 = r

theorem Spaced.zero (r : Nat) : Spaced r 0 := by
  intro p h; rw [Nat.zero_testBit] at h; cases h

theorem Spaced.xor {r x y : Nat} (hx : Spaced r x) (hy : Spaced r y) : Spaced r (x ^^^ y) := by
  intro p h
  rw [Nat.testBit_xor] at h
  cases hxp : x.testBit p
  · cases hyp : y.testBit p
    · rw [hxp, hyp] at h; cases h
    · exact hy p hyp
  · exact hx p hxp

theorem Spaced.and_left {r x : Nat} (hx : Spaced r x) (y : Nat) : Spaced r (x &&& y) := by
  intro p h
  rw [Nat.testBit_and] at h
  cases hxp : x.testBit p
  · rw [hxp] at h; cases h
  · exact hx p hxp

theorem Spaced.shiftLeft {r x : Nat} (hx : Spaced r x) (n : Nat) : Spaced ((r + n) % 4) (x <<< n) := by
  intro p h
  rw [Nat.testBit_shiftLeft] at h
  by_cases hp : p ≥ n
  · simp only [hp, decide_true, Bool.true_and] at h
    have := hx _ h
    omega
  · simp [hp] at h

theorem Spaced.testBit_false {r x : Nat} (hx : Spaced r x) {p : Nat} (hp : p % 4 ≠ r) :
    x.testBit p = false := by
  cases h : x.testBit p
  · rfl
  · exact absurd (hx p h) hp

theorem Spaced.and_eq_zero {r s x y : Nat} (hx : Spaced r x) (hy : Spaced s y) (hrs : r ≠ s) :
    x &&& y = 0 := by
  apply Nat.eq_of_testBit_eq
  intro p
  rw [Nat.testBit_and, Nat.zero_testBit]
  cases hxp : x.testBit p
  · rfl
  · have h1 := hx p hxp
    have : p % 4 ≠ s := by omega
    rw [hy.testBit_false this]; rfl

theorem spaced_clmul {i j x y : Nat} (hx : Spaced i x) (hy : Spaced j y) (n : Nat) :
    Spaced ((i + j) % 4) (clmul x y n) := by
  induction n with
  | zero => exact Spaced.zero _
  | succ n ih =>
    rw [clmul_succ]
    apply Spaced.xor _ ih
    by_cases h : y.testBit n
    · simp only [h, if_true]
      have hn := hy n h
      have := hx.shiftLeft n
      have e : (i + n) % 4 = (i + j) % 4 := by omega
      rw [e] at this; exact this
    · simp only [h, Bool.false_eq_true, if_false]; exact Spaced.zero _

/-! ### hexadecimal digits and absence of carries -/

theorem two_pow_four_mul (k : Nat) : 2 ^ (4 * k) = 16 ^ k := by
  rw [Nat.pow_mul]

theorem testBit_four_mul (z k : Nat) : z.testBit (4 * k) = decide (z / 16 ^ k % 2 = 1) := by
  rw [Nat.testBit_eq_decide_div_mod_eq, two_pow_four_mul]

theorem div_pow_succ (z k : Nat) : z / 16 ^ (k + 1) = z / 16 / 16 ^ k := by
  rw [Nat.div_div_eq_div_mul, Nat.pow_succ, Nat.mul_comm]

/-- digit-wise addition when the digit sums stay below 16 -/
theorem digits_add {m : Nat} (hm : m ≤ 14) : ∀ (k z w : Nat),
    (∀ k, z / 16 ^ k % 16 ≤ m) → (∀ k, w / 16 ^ k % 16 ≤ 1) →
    (z + w) / 16 ^ k % 16 = z / 16 ^ k % 16 + w / 16 ^ k % 16 := by
  intro k
  induction k with
  | zero =>
    intro z w hz hw
    have h1 := hz 0
    have h2 := hw 0
    simp only [Nat.pow_zero, Nat.div_one] at h1 h2 ⊢
    omega
  | succ k ih =>
    intro z w hz hw
    have h1 := hz 0
    have h2 := hw 0
    simp only [Nat.pow_zero, Nat.div_one] at h1 h2
    have h0 : (z + w) / 16 = z / 16 + w / 16 := by omega
    rw [div_pow_succ, div_pow_succ, div_pow_succ, h0]
    apply ih
    · intro k'; rw [← div_pow_succ]; exact hz (k' + 1)
    · intro k'; rw [← div_pow_succ]; exact hw (k' + 1)

theorem spaced0_digits {w : Nat} (hw : Spaced 0 w) (k : Nat) : w / 16 ^ k % 16 ≤ 1 := by
  have b1 : w.testBit (4 * k + 1) = false := hw.testBit_false (by omega)
  have b2 : w.testBit (4 * k + 2) = false := hw.testBit_false (by omega)
  have b3 : w.testBit (4 * k + 3) = false := hw.testBit_false (by omega)
  rw [Nat.testBit_eq_decide_div_mod_eq, Nat.pow_add, two_pow_four_mul, ← Nat.div_div_eq_div_mul] at b1 b2 b3
  simp only [decide_eq_false_iff_not] at b1 b2 b3
  generalize w / 16 ^ k = v at b1 b2 b3 ⊢
  have e1 : (2 : Nat) ^ 1 = 2 := rfl
  have e2 : (2 : Nat) ^ 2 = 4 := rfl
  have e3 : (2 : Nat) ^ 3 = 8 := rfl
  rw [e1] at b1; rw [e2] at b2; rw [e3] at b3
  omega

theorem testBit_add_of_digits {z w k : Nat}
    (h : (z + w) / 16 ^ k % 16 = z / 16 ^ k % 16 + w / 16 ^ k % 16) :
    (z + w).testBit (4 * k) = (z.testBit (4 * k) ^^ w.testBit (4 * k)) := by
  simp only [testBit_four_mul]
  generalize (z + w) / 16 ^ k = c at h ⊢
  generalize z / 16 ^ k = a at h ⊢
  generalize w / 16 ^ k = b at h ⊢
  by_cases ha : a % 2 = 1 <;> by_cases hb : b % 2 = 1 <;> simp only [ha, hb, decide_true, decide_false,
    Bool.true_bne, Bool.false_bne, Bool.not_true, Bool.not_false, decide_eq_true_eq, decide_eq_false_iff_not] <;> omega

theorem mod_two_pow_succ_testBit (y n : Nat) :
    y % 2 ^ (n + 1) = y % 2 ^ n + (if y.testBit n then 2 ^ n else 0) := by
  rw [Nat.mod_pow_succ, Nat.testBit_eq_decide_div_mod_eq]
  by_cases h : y / 2 ^ n % 2 = 1
  · simp [h]
  · have : y / 2 ^ n % 2 = 0 := by omega
    simp [this]

/-- invariant of adding the partial products `X·2^n` (`n ≡ 0 mod 4`, bit `n` of `Y` set) one by one:
    every hex digit of the running integer product is at most the number of partial products so far
    and its low bit is the corresponding bit of the carry-less product. -/
theorem nocarry_aux {X Y : Nat} (hX : Spaced 0 X) (hY : Spaced 0 Y) : ∀ n, n ≤ 57 →
    (∀ k, (X * (Y % 2 ^ n)) / 16 ^ k % 16 ≤ (n + 3) / 4) ∧
    (∀ k, (X * (Y % 2 ^ n)).testBit (4 * k) = (clmul X Y n).testBit (4 * k)) := by
  intro n
  induction n with
  | zero =>
    intro _
    constructor <;> intro k <;>
      simp only [Nat.pow_zero, Nat.mod_one, Nat.mul_zero, Nat.zero_div, Nat.zero_mod, clmul_zero_count,
        Nat.zero_testBit, Nat.zero_le]
  | succ n ih =>
    intro hn
    obtain ⟨ihd, ihb⟩ := ih (by omega)
    rw [mod_two_pow_succ_testBit, clmul_succ]
    by_cases hb : Y.testBit n
    · have hn4 : n % 4 = 0 := hY n hb
      simp only [hb, if_true]
      rw [Nat.mul_add, ← Nat.shiftLeft_eq]
      have hw : Spaced 0 (X <<< n) := by
        have := hX.shiftLeft n
        have e : (0 + n) % 4 = 0 := by omega
        rw [e] at this; exact this
      have hwd := spaced0_digits hw
      have hm : (n + 3) / 4 ≤ 14 := by omega
      have hadd := fun k => digits_add hm k _ _ ihd hwd
      refine ⟨fun k => ?_, fun k => ?_⟩
      · rw [hadd k]
        have := ihd k
        have := hwd k
        omega
      · rw [testBit_add_of_digits (hadd k), Nat.testBit_xor, ihb k, Bool.xor_comm]
    · simp only [hb, Bool.false_eq_true, if_false, Nat.add_zero, Nat.zero_xor]
      refine ⟨fun k => ?_, ihb⟩
      have := ihd k
      omega

/-- both operands in residue class 0 -/
theorem mul_testBit_spaced0 {X Y : Nat} (hX : Spaced 0 X) (hY : Spaced 0 Y) (hY32 : Y < 2 ^ 32)
    (k : Nat) : (X * Y).testBit (4 * k) = (clmul X Y 32).testBit (4 * k) := by
  have := (nocarry_aux hX hY 32 (by decide)).2 k
  rw [Nat.mod_eq_of_lt hY32] at this
  exact this

theorem Spaced.shiftRight {i x : Nat} (hx : Spaced i x) (_hi : i < 4) : Spaced 0 (x >>> i) := by
  intro p h
  rw [Nat.testBit_shiftRight] at h
  have := hx _ h
  omega

theorem Spaced.shift_back {i x : Nat} (hx : Spaced i x) (hi : i < 4) : (x >>> i) <<< i = x := by
  apply Nat.eq_of_testBit_eq
  intro p
  rw [Nat.testBit_shiftLeft, Nat.testBit_shiftRight]
  by_cases hp : p ≥ i
  · have : i + (p - i) = p := by omega
    simp [hp, this]
  · have : x.testBit p = false := hx.testBit_false (by omega)
    simp [hp, this]

/-- the integer product of an `i`-spaced and a `j`-spaced number agrees with the carry-less
    product at every bit position `≡ i + j (mod 4)` -/
theorem mul_testBit_spaced {i j x y : Nat} (hi : i < 4) (hj : j < 4) (hx : Spaced i x)
    (hy : Spaced j y) (hy32 : y < 2 ^ 32) (p : Nat) (hp : p % 4 = (i + j) % 4) :
    (x * y).testBit p = (clmul x y 32).testBit p := by
  have hX := hx.shiftRight hi
  have hY := hy.shiftRight hj
  have ex := hx.shift_back hi
  have ey := hy.shift_back hj
  have hYle : y >>> j ≤ y := by rw [Nat.shiftRight_eq_div_pow]; exact Nat.div_le_self _ _
  have hY32 : y >>> j < 2 ^ 32 := Nat.lt_of_le_of_lt hYle hy32
  generalize x >>> i = X at hX ex
  generalize y >>> j = Y at hY ey hY32
  subst ex
  have hc : clmul (X <<< i) y 32 = (clmul X Y 32 <<< j) <<< i := by
    rw [clmul_shiftLeft_left, ← clmul_stable X hy32 j, ← ey, clmul_shiftLeft_right]
  rw [hc]
  have hm : X <<< i * y = (X * Y) * 2 ^ (i + j) := by
    rw [← ey, Nat.shiftLeft_eq, Nat.shiftLeft_eq, Nat.pow_add]
    simp only [Nat.mul_assoc, Nat.mul_left_comm]
  rw [hm, Nat.testBit_mul_two_pow, Nat.testBit_shiftLeft, Nat.testBit_shiftLeft]
  by_cases hpij : i + j ≤ p
  · have h1 : p ≥ i := by omega
    have h2 : p - i ≥ j := by omega
    obtain ⟨q, hq⟩ : ∃ q, p - (i + j) = 4 * q := ⟨(p - (i + j)) / 4, by omega⟩
    have h3 : p - i - j = 4 * q := by omega
    simp only [hpij, h1, h2, decide_true, Bool.true_and]
    rw [h3, hq]
    exact mul_testBit_spaced0 hX hY hY32 _
  · by_cases h1 : p ≥ i
    · have h2 : ¬ p - i ≥ j := by omega
      simp [hpij, h2]
    · simp [hpij, h1]

/-- masking the 64-bit integer product of spaced 32-bit numbers with the selector of the class
    `i + j` yields their carry-less product -/
theorem mul_and_sel {i j r x y M : Nat} (hi : i < 4) (hj : j < 4) (hx : Spaced i x)
    (hy : Spaced j y) (hx32 : x < 2 ^ 32) (hy32 : y < 2 ^ 32) (hr : r = (i + j) % 4)
    (hM : ∀ p, M.testBit p = decide (p < 64 ∧ p % 4 = r)) :
    (x * y) % 2 ^ 64 &&& M = clmul x y 32 := by
  apply Nat.eq_of_testBit_eq
  intro p
  rw [Nat.testBit_and, Nat.testBit_mod_two_pow, hM]
  have hsp := spaced_clmul hx hy 32
  rw [← hr] at hsp
  by_cases hpr : p % 4 = r
  · by_cases hp64 : p < 64
    · simp only [hp64, hpr, and_self, decide_true, Bool.true_and, Bool.and_true]
      exact mul_testBit_spaced hi hj hx hy hy32 p (by omega)
    · have hlt : clmul x y 32 < 2 ^ 64 := clmul_lt hx32 y 32
      have : (clmul x y 32).testBit p = false :=
        Nat.testBit_lt_two_pow (Nat.lt_of_lt_of_le hlt (Nat.pow_le_pow_right (by decide) (by omega)))
      simp [hp64, this]
  · rw [hsp.testBit_false hpr]
    simp [hpr]

end TinkVerif.Clmul
