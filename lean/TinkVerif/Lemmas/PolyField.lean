/-
  GF(2)[x] modulo the POLYVAL field polynomial, as far as needed to relate an implementation of
  `dot` to `PolyvalSpec.dot`: congruence modulo `fieldPoly` (on `Nat`-encoded polynomials),
  `polyMod` computes a congruent representative of degree < 128, representatives of degree < 128 are
  unique, `x^128 · xInv128 ≡ 1`, and the characterisation
  `R < 2^128 → R · x^128 ≡ a·b  →  R = dot a b`.   Core Lean only.
-/
import TinkVerif.Lemmas.Clmul

namespace TinkVerif.Clmul
open TinkVerif.Prim.PolyvalSpec

/-- `a ≡ b` modulo the field polynomial: they differ by a multiple of `fieldPoly` -/
def Cong (a b : Nat) : Prop := ∃ q, a = b ^^^ pmul fieldPoly q

theorem Cong.refl (a : Nat) : Cong a a := ⟨0, by rw [pmul_zero_right, Nat.xor_zero]⟩

theorem Cong.symm {a b : Nat} (h : Cong a b) : Cong b a := by
  obtain ⟨q, rfl⟩ := h
  exact ⟨q, by rw [Nat.xor_assoc, Nat.xor_self, Nat.xor_zero]⟩

theorem Cong.trans {a b c : Nat} (h1 : Cong a b) (h2 : Cong b c) : Cong a c := by
  obtain ⟨q1, rfl⟩ := h1
  obtain ⟨q2, rfl⟩ := h2
  exact ⟨q2 ^^^ q1, by rw [pmul_xor_right, Nat.xor_assoc]⟩

theorem Cong.pmul_right {a b : Nat} (h : Cong a b) (c : Nat) : Cong (pmul a c) (pmul b c) := by
  obtain ⟨q, rfl⟩ := h
  exact ⟨pmul q c, by rw [pmul_xor_left, pmul_assoc]⟩

theorem Cong.pmul_left {a b : Nat} (h : Cong a b) (c : Nat) : Cong (pmul c a) (pmul c b) := by
  rw [pmul_comm c a, pmul_comm c b]; exact h.pmul_right c

theorem cong_xor_mul (c q : Nat) : Cong (c ^^^ pmul fieldPoly q) c := ⟨q, rfl⟩

/-! ### `polyMod` -/

theorem polyMod_succ (c n : Nat) :
    polyMod c (n+1) = polyMod (if c.testBit (128 + n) then c ^^^ (fieldPoly <<< n) else c) n := rfl

theorem polyMod_cong (n : Nat) : ∀ c, Cong (polyMod c n) c := by
  induction n with
  | zero => intro c; exact Cong.refl c
  | succ n ih =>
    intro c
    rw [polyMod_succ]
    by_cases h : c.testBit (128 + n)
    · simp only [h, if_true]
      refine (ih _).trans ?_
      rw [← pmul_two_pow]
      exact cong_xor_mul c _
    · simp only [h, Bool.false_eq_true, if_false]
      exact ih c

theorem lt_of_testBit_false {c k : Nat} (hc : c < 2 ^ (k + 1)) (h : c.testBit k = false) : c < 2 ^ k := by
  apply Nat.lt_pow_two_of_testBit
  intro i hi
  by_cases hik : i = k
  · rw [hik]; exact h
  · exact Nat.testBit_lt_two_pow (Nat.lt_of_lt_of_le hc (Nat.pow_le_pow_right (by decide) (by omega)))

theorem xor_lt_of_testBit {c d k : Nat} (hc : c < 2 ^ (k + 1)) (hd : d < 2 ^ (k + 1))
    (h1 : c.testBit k = true) (h2 : d.testBit k = true) : c ^^^ d < 2 ^ k := by
  apply lt_of_testBit_false (Nat.xor_lt_two_pow hc hd)
  rw [Nat.testBit_xor, h1, h2]; rfl

theorem fieldPoly_lt : fieldPoly < 2 ^ 129 := by decide
theorem fieldPoly_testBit : fieldPoly.testBit 128 = true := by decide

theorem polyMod_lt (n : Nat) : ∀ c, c < 2 ^ (128 + n) → polyMod c n < 2 ^ 128 := by
  induction n with
  | zero => intro c hc; exact hc
  | succ n ih =>
    intro c hc
    rw [polyMod_succ]
    apply ih
    by_cases h : c.testBit (128 + n)
    · simp only [h, if_true]
      have hd : fieldPoly <<< n < 2 ^ (128 + n + 1) := by
        rw [Nat.shiftLeft_eq]
        have : 2 ^ (128 + n + 1) = 2 ^ 129 * 2 ^ n := by
          rw [← Nat.pow_add]; congr 1; omega
        rw [this]
        exact Nat.mul_lt_mul_of_pos_right fieldPoly_lt (Nat.pow_pos (by decide))
      have hb : (fieldPoly <<< n).testBit (128 + n) = true := by
        rw [Nat.testBit_shiftLeft]
        have h1 : 128 + n ≥ n := by omega
        have h2 : 128 + n - n = 128 := by omega
        simp only [h1, h2, decide_true, Bool.true_and]
        exact fieldPoly_testBit
      exact xor_lt_of_testBit hc hd h hb
    · simp only [h, Bool.false_eq_true, if_false]
      exact lt_of_testBit_false hc (by simpa using h)

/-! ### multiples of the field polynomial -/

theorem fieldPoly_eq_xor : fieldPoly = 1 ^^^ 2 ^ 121 ^^^ 2 ^ 126 ^^^ 2 ^ 127 ^^^ 2 ^ 128 := by decide

theorem pmul_fieldPoly (q : Nat) :
    pmul fieldPoly q = q ^^^ q <<< 121 ^^^ q <<< 126 ^^^ q <<< 127 ^^^ q <<< 128 := by
  rw [pmul_comm, fieldPoly_eq_xor]
  simp only [pmul_xor_right, pmul_two_pow, pmul_one_right]

theorem shiftLeft_lt {q d : Nat} (h : q < 2 ^ d) (k : Nat) : q <<< k < 2 ^ (d + k) := by
  rw [Nat.shiftLeft_eq, Nat.pow_add]
  exact Nat.mul_lt_mul_of_pos_right h (Nat.pow_pos (by decide))

/-- a nonzero multiple of the field polynomial has degree ≥ 128 -/
theorem pmul_fieldPoly_ge {q : Nat} (hq : q ≠ 0) : 2 ^ 128 ≤ pmul fieldPoly q := by
  have htop := Nat.testBit_log2 hq
  have hlt : q < 2 ^ (q.log2 + 1) := Nat.lt_log2_self
  generalize q.log2 = d at htop hlt
  have hb : (pmul fieldPoly q).testBit (128 + d) = true := by
    have up : ∀ k, k < 128 → (q <<< k).testBit (128 + d) = false := by
      intro k hk
      exact Nat.testBit_lt_two_pow (Nat.lt_of_lt_of_le (shiftLeft_lt hlt k)
        (Nat.pow_le_pow_right (by decide) (by omega)))
    have h0 : q.testBit (128 + d) = false :=
      Nat.testBit_lt_two_pow (Nat.lt_of_lt_of_le hlt (Nat.pow_le_pow_right (by decide) (by omega)))
    have h128 : (q <<< 128).testBit (128 + d) = true := by
      rw [Nat.testBit_shiftLeft]
      have h1 : 128 + d ≥ 128 := by omega
      have h2 : 128 + d - 128 = d := by omega
      simp only [h1, h2, decide_true, Bool.true_and]
      exact htop
    rw [pmul_fieldPoly]
    simp only [Nat.testBit_xor, h0, up 121 (by decide), up 126 (by decide), up 127 (by decide), h128]
    rfl
  exact Nat.le_trans (Nat.pow_le_pow_right (by decide) (by omega)) (Nat.ge_two_pow_of_testBit hb)

/-- representatives of degree < 128 are unique -/
theorem Cong.eq_of_lt {a b : Nat} (h : Cong a b) (ha : a < 2 ^ 128) (hb : b < 2 ^ 128) : a = b := by
  obtain ⟨q, rfl⟩ := h
  by_cases hq : q = 0
  · subst hq; rw [pmul_zero_right, Nat.xor_zero]
  · exfalso
    have hge := pmul_fieldPoly_ge hq
    have hx : b ^^^ (b ^^^ pmul fieldPoly q) < 2 ^ 128 := Nat.xor_lt_two_pow hb ha
    rw [xor_xor_self_left] at hx
    omega

/-! ### the specification `dot` -/

theorem xInv128_lt : xInv128 < 2 ^ 128 := by decide

/-- `x^128 · x^-128 ≡ 1` -/
theorem x128_mul_xInv128 : Cong (pmul (2 ^ 128) xInv128) 1 := by
  refine ⟨257870231182273679343338569694386847745, ?_⟩
  have hq : (257870231182273679343338569694386847745 : Nat) < 2 ^ 128 := by decide
  rw [← clmul_eq_pmul _ xInv128_lt, ← clmul_eq_pmul _ hq]
  decide +kernel

theorem mulMod_cong {a b : Nat} (hb : b < 2 ^ 128) : Cong (mulMod a b) (pmul a b) := by
  unfold mulMod
  rw [clmul_eq_pmul a hb]
  exact polyMod_cong 128 _

theorem mulMod_lt {a : Nat} (ha : a < 2 ^ 128) (b : Nat) : mulMod a b < 2 ^ 128 := by
  unfold mulMod
  exact polyMod_lt 128 _ (clmul_lt ha b 128)

theorem dot_lt {a : Nat} (ha : a < 2 ^ 128) (b : Nat) : dot a b < 2 ^ 128 :=
  mulMod_lt (mulMod_lt ha b) _

theorem dot_cong (a : Nat) {b : Nat} (hb : b < 2 ^ 128) :
    Cong (dot a b) (pmul (pmul a b) xInv128) := by
  unfold dot
  exact (mulMod_cong xInv128_lt).trans ((mulMod_cong hb).pmul_right _)

/-- characterisation of `dot`: the unique `R` of degree < 128 with `R · x^128 ≡ a · b`. -/
theorem eq_dot_of_cong {a b R : Nat} (ha : a < 2 ^ 128) (hb : b < 2 ^ 128) (hR : R < 2 ^ 128)
    (h : Cong (R <<< 128) (pmul a b)) : R = dot a b := by
  apply Cong.eq_of_lt _ hR (dot_lt ha b)
  refine Cong.trans ?_ (dot_cong a hb).symm
  -- R = R·1 ≡ R·(x^128·x^-128) = (R·x^128)·x^-128 ≡ (a·b)·x^-128
  have h1 : Cong (pmul R 1) (pmul R (pmul (2 ^ 128) xInv128)) := (x128_mul_xInv128.pmul_left R).symm
  rw [pmul_one_right, ← pmul_assoc, pmul_two_pow] at h1
  exact h1.trans (h.pmul_right _)

end TinkVerif.Clmul
