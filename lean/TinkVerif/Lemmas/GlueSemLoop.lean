import TinkVerif.Lemmas.GlueSem
/-
  General-purpose lemmas about the `GoSemBytes` operations used by whole-function tie proofs
  (Props/GlueTie/CmacFull.lean): whole-buffer forms of `xorInto` / `blockInto` / `slice`, Go `/` and `%`
  on lengths, and `forRange` as a fold (incl. loops whose body ignores the counter).
-/
namespace TinkVerif.GoSem
open TinkVerif

/-! ### Go `/` and `%` (truncating) on non-negative values -/

theorem tdiv_natCast (a b : Nat) : Int.tdiv (a : Int) (b : Int) = ((a / b : Nat) : Int) := by
  rw [Int.tdiv_eq_ediv_of_nonneg (Int.natCast_nonneg a)]; rfl

theorem tmod_natCast (a b : Nat) : Int.tmod (a : Int) (b : Int) = ((a % b : Nat) : Int) := by
  rw [Int.tmod_eq_emod_of_nonneg (Int.natCast_nonneg a)]; rfl

/-! ### `forRange` as a fold -/

theorem forRange_natCast {σ : Type} (k : Nat) (init : σ) (f : σ → Int → σ) :
    forRange (k : Int) init f = (List.range k).foldl (fun s (j : Nat) => f s (j : Int)) init := by
  simp [forRange]

/-- `List.range k` shifted: the form used to peel the FIRST iteration of a loop -/
theorem forRange_natCast_range' {σ : Type} (k : Nat) (init : σ) (f : σ → Int → σ) :
    forRange (k : Int) init f = (List.range' 0 k).foldl (fun s (j : Nat) => f s (j : Int)) init := by
  rw [forRange_natCast, List.range_eq_range']

/-- a fold whose step ignores the list element commutes with one more step -/
theorem foldl_ignore_comm {σ α : Type} (g : σ → σ) (l : List α) (a : σ) :
    l.foldl (fun s _ => g s) (g a) = g (l.foldl (fun s _ => g s) a) := by
  induction l generalizing a with
  | nil => rfl
  | cons x xs ih => simp only [List.foldl_cons]; exact ih (g a)

/-- a fold whose step ignores the list element only depends on the length -/
theorem foldl_ignore_length {σ α β : Type} (g : σ → σ) (l : List α) (l' : List β) (a : σ)
    (h : l.length = l'.length) : l.foldl (fun s _ => g s) a = l'.foldl (fun s _ => g s) a := by
  induction l generalizing l' a with
  | nil => cases l' with
    | nil => rfl
    | cons y ys => simp at h
  | cons x xs ih => cases l' with
    | nil => simp at h
    | cons y ys =>
      simp only [List.foldl_cons]
      exact ih ys (g a) (by simpa using h)

/-- peel the FIRST iteration of a loop whose body ignores the counter -/
theorem foldl_range_succ_ignore {σ : Type} (g : σ → σ) (k : Nat) (a : σ) :
    (List.range (k + 1)).foldl (fun s _ => g s) a = (List.range k).foldl (fun s _ => g s) (g a) := by
  rw [foldl_ignore_comm, List.range_succ, List.foldl_append]; rfl

/-! ### whole-buffer slices -/

theorem slice_prefix (b : Bytes) (hi : Nat) (h : hi ≤ b.length) : slice b 0 (hi : Int) = b.take hi := by
  have := slice_nat b 0 hi (Nat.zero_le _) h
  simpa using this

theorem slice_suffix (b : Bytes) (lo : Nat) (h : lo ≤ b.length) : slice b (lo : Int) (len b) = b.drop lo := by
  have := slice_nat b lo b.length h (Nat.le_refl _)
  rw [len_eq, this, List.take_of_length_le (Nat.le_refl _)]

/-! ### `subtle.XORBytes(b, x, y)` on a whole buffer -/

theorem xorInto_prefix (b x y : Bytes) (h : min x.length y.length ≤ b.length) :
    xorInto b 0 (len b) x y = Bytes.xor x y ++ b.drop (min x.length y.length) := by
  have hc : (0 : Int) ≤ 0 ∧ (0 : Int) + Int.ofNat (min x.length y.length) ≤ len b ∧ len b ≤ len b := by
    simp only [len_eq, Int.ofNat_eq_natCast]; omega
  rw [xorInto, if_pos hc]
  simp

theorem xorInto_all (b x y : Bytes) (h : min x.length y.length = b.length) :
    xorInto b 0 (len b) x y = Bytes.xor x y := by
  rw [xorInto_prefix b x y (by omega), h, List.drop_of_length_le (Nat.le_refl _), List.append_nil]

/-- `XORBytes(b[lo:], x, y)` where the operands fill the window exactly -/
theorem xorInto_suffix (b x y : Bytes) (lo : Nat) (hlo : lo ≤ b.length)
    (h : min x.length y.length = b.length - lo) :
    xorInto b (lo : Int) (len b) x y = b.take lo ++ Bytes.xor x y := by
  have hc : (0 : Int) ≤ (lo : Int) ∧ (lo : Int) + Int.ofNat (min x.length y.length) ≤ len b ∧ len b ≤ len b := by
    simp only [len_eq, Int.ofNat_eq_natCast]; omega
  rw [xorInto, if_pos hc, Int.toNat_natCast, List.drop_of_length_le (by omega), List.append_nil]

/-! ### `cipher.Block.Encrypt(b, src)` on a whole buffer -/

theorem blockInto_prefix (bs : Nat) (E : Bytes → Bytes) (b src : Bytes) (hb : bs ≤ b.length) (hs : bs ≤ src.length) :
    blockInto bs E b 0 (len b) src = E (src.take bs) ++ b.drop bs := by
  have hc : (0 : Int) ≤ 0 ∧ (0 : Int) + Int.ofNat bs ≤ len b ∧ len b ≤ len b ∧ bs ≤ src.length := by
    simp only [len_eq, Int.ofNat_eq_natCast]; omega
  rw [blockInto, if_pos hc]
  simp

theorem blockInto_all (bs : Nat) (E : Bytes → Bytes) (b src : Bytes) (hb : b.length = bs) (hs : src.length = bs) :
    blockInto bs E b 0 (len b) src = E src := by
  rw [blockInto_prefix bs E b src (by omega) (by omega), List.take_of_length_le (by omega),
    List.drop_of_length_le (by omega), List.append_nil]

end TinkVerif.GoSem
