import TinkVerif.Lemmas.GlueSemSteps
/-
  Lemmas about `GoSem.forEachSteps` (`for i, x := range l { … }` over a list of values, bodies that may `return`),
  used by the whole-function ties of keyset/validation.go (Props/GlueTie/Keyset.lean).

  * `forEachSteps_nil/next/brk/ret`   one unfolding step
  * `forEachSteps_next_foldl`         a body that always says `next` is a `foldl` (the index is `start + position`)
  * `foldOpt`                         fold with an `Option` state: `none` as soon as one step says `none`
  * `forEachSteps_foldOpt`            simulation: a Go body of the shape "`return r` on rejection / go on with `s'`
                                      otherwise" over the Go list `l` against an abstract step function `g` over an
                                      abstract list `l'` related elementwise (`ListRel C l l'`), under an indexed
                                      state relation `R j s t` (`j` = number of elements processed, which may be
                                      bounded by `N`, e.g. to exclude wrap-around of a Go `int` counter):
                                      abstract rejection = early `return r`; abstract success = loop completed with
                                      related final states.
-/
namespace TinkVerif.GoSem
open TinkVerif

theorem forEachSteps_nil {α ρ σ : Type} (start : Int) (s : σ) (f : σ → Int → α → Step ρ σ) :
    forEachSteps ([] : List α) start s f = (none, s) := rfl

theorem forEachSteps_next {α ρ σ : Type} (x : α) (rest : List α) (start : Int) (s s' : σ) (f : σ → Int → α → Step ρ σ)
    (h : f s start x = Step.next s') :
    forEachSteps (x :: rest) start s f = forEachSteps rest (start + 1) s' f := by
  rw [forEachSteps, h]

theorem forEachSteps_brk {α ρ σ : Type} (x : α) (rest : List α) (start : Int) (s s' : σ) (f : σ → Int → α → Step ρ σ)
    (h : f s start x = Step.brk s') :
    forEachSteps (x :: rest) start s f = (none, s') := by
  rw [forEachSteps, h]

theorem forEachSteps_ret {α ρ σ : Type} (x : α) (rest : List α) (start : Int) (s : σ) (r : ρ) (f : σ → Int → α → Step ρ σ)
    (h : f s start x = Step.ret r) :
    forEachSteps (x :: rest) start s f = (some r, s) := by
  rw [forEachSteps, h]

/-- a body that never breaks or returns (on the elements visited): the loop is a fold -/
theorem forEachSteps_next_foldl {α ρ σ : Type} (l : List α) (start : Int) (init : σ) (f : σ → Int → α → Step ρ σ)
    (g : σ → α → σ) (h : ∀ s i x, x ∈ l → f s i x = Step.next (g s x)) :
    forEachSteps l start init f = (none, l.foldl g init) := by
  induction l generalizing start init with
  | nil => rfl
  | cons x rest ih =>
    rw [forEachSteps_next x rest start init _ f (h _ _ _ List.mem_cons_self), List.foldl_cons]
    exact ih _ _ (fun s i y hy => h s i y (List.mem_cons_of_mem _ hy))

/-- fold with a step that can fail -/
def foldOpt {β τ : Type} (g : τ → β → Option τ) : τ → List β → Option τ
  | t, [] => some t
  | t, y :: ys => match g t y with
    | none => none
    | some t' => foldOpt g t' ys

theorem foldOpt_nil {β τ : Type} (g : τ → β → Option τ) (t : τ) : foldOpt g t [] = some t := rfl

theorem foldOpt_cons_none {β τ : Type} (g : τ → β → Option τ) (t : τ) (y : β) (ys : List β) (h : g t y = none) :
    foldOpt g t (y :: ys) = none := by
  rw [foldOpt, h]

theorem foldOpt_cons_some {β τ : Type} (g : τ → β → Option τ) (t t' : τ) (y : β) (ys : List β) (h : g t y = some t') :
    foldOpt g t (y :: ys) = foldOpt g t' ys := by
  rw [foldOpt, h]

/-- elementwise relation of two lists (core has no `List.Forall₂`) -/
inductive ListRel {α β : Type} (C : α → β → Prop) : List α → List β → Prop
  | nil : ListRel C [] []
  | cons {x : α} {y : β} {xs : List α} {ys : List β} : C x y → ListRel C xs ys → ListRel C (x :: xs) (y :: ys)

theorem ListRel.length_eq {α β : Type} {C : α → β → Prop} {l : List α} {l' : List β} (h : ListRel C l l') :
    l.length = l'.length := by
  induction h with
  | nil => rfl
  | cons _ _ ih => rw [List.length_cons, List.length_cons, ih]

/-- `l.map ab` is related to `l` by any relation that holds between `x` and `ab x` on the elements of `l` -/
theorem ListRel.map {α β : Type} {C : α → β → Prop} (ab : α → β) (l : List α) (h : ∀ x ∈ l, C x (ab x)) :
    ListRel C l (l.map ab) := by
  induction l with
  | nil => exact ListRel.nil
  | cons x xs ih =>
    exact ListRel.cons (h x List.mem_cons_self) (ih (fun y hy => h y (List.mem_cons_of_mem _ hy)))

/-- Simulation of a validating `for _, x := range l` loop.  `R j s t`: Go state `s` and abstract state `t` are related
    after `j` elements.  One iteration (with `j < N`): if the abstract step rejects, the Go body returns `r`; if it
    yields `t'`, the Go body continues with a related state.  Then for every list with `j + |l| ≤ N`: abstract
    rejection ⇒ the loop returns `r` early; abstract success `t'` ⇒ the loop runs to completion into a state related
    to `t'`. -/
theorem forEachSteps_foldOpt {α β ρ σ τ : Type} (f : σ → Int → α → Step ρ σ) (g : τ → β → Option τ) (r : ρ)
    (R : Nat → σ → τ → Prop) (C : α → β → Prop) (N : Nat)
    (hstep : ∀ (j : Nat) (s : σ) (t : τ) (i : Int) (x : α) (y : β), j < N → R j s t → C x y →
      (g t y = none → f s i x = Step.ret r) ∧
      (∀ t', g t y = some t' → ∃ s', f s i x = Step.next s' ∧ R (j + 1) s' t'))
    (l : List α) (l' : List β) (hl : ListRel C l l') :
    ∀ (start : Int) (j : Nat) (s : σ) (t : τ), R j s t → j + l.length ≤ N →
      (foldOpt g t l' = none → (forEachSteps l start s f).1 = some r) ∧
      (∀ t', foldOpt g t l' = some t' → ∃ s', forEachSteps l start s f = (none, s') ∧ R (j + l.length) s' t') := by
  induction hl with
  | nil =>
    intro start j s t hR _
    refine ⟨fun h => ?_, fun t' h => ?_⟩
    · rw [foldOpt_nil] at h; cases h
    · rw [foldOpt_nil] at h
      cases h
      exact ⟨s, rfl, hR⟩
  | @cons x y xs ys hxy _ ih =>
    intro start j s t hR hN
    rw [List.length_cons] at hN
    obtain ⟨h1, h2⟩ := hstep j s t start x y (by omega) hR hxy
    cases hg : g t y with
    | none =>
      refine ⟨fun _ => ?_, fun t' h => ?_⟩
      · rw [forEachSteps_ret x xs start s r f (h1 hg)]
      · rw [foldOpt_cons_none g t y ys hg] at h; cases h
    | some t1 =>
      obtain ⟨s1, hs1, hR1⟩ := h2 t1 hg
      rw [forEachSteps_next x xs start s s1 f hs1, foldOpt_cons_some g t t1 y ys hg]
      have := ih (start + 1) (j + 1) s1 t1 hR1 (by omega)
      rw [List.length_cons]
      have e : j + (xs.length + 1) = j + 1 + xs.length := by omega
      rw [e]
      exact this

end TinkVerif.GoSem
