/-
  Helper lemmas connecting the generated POLYVAL code (`TinkVerif.Gen.Polyval`, regenerated from
  tink-go's internal/aead/polyval.go) to the carry-less product: selector masks, the 4-way split of
  a 32-bit word by bit-index residue, word splitting, and the abstract forms of `mul32` (holes) and
  `mul64` (Karatsuba).  Core Lean only.
-/
import TinkVerif.Lemmas.ClmulSpaced

namespace TinkVerif.Clmul
open TinkVerif.Prim.PolyvalSpec

/-! ### selector masks -/

theorem sel_testBit {M w r : Nat} (hlt : M < 2 ^ w)
    (h : ∀ p, p < w → M.testBit p = decide (p % 4 = r)) (p : Nat) :
    M.testBit p = decide (p < w ∧ p % 4 = r) := by
  by_cases hp : p < w
  · rw [h p hp]; simp [hp]
  · rw [Nat.testBit_lt_two_pow (Nat.lt_of_lt_of_le hlt (Nat.pow_le_pow_right (by decide) (by omega)))]
    simp [hp]

theorem sel32_0 : ∀ p, Nat.testBit 286331153 p = decide (p < 32 ∧ p % 4 = 0) :=
  sel_testBit (by decide) (by decide)
theorem sel32_1 : ∀ p, Nat.testBit 572662306 p = decide (p < 32 ∧ p % 4 = 1) :=
  sel_testBit (by decide) (by decide)
theorem sel32_2 : ∀ p, Nat.testBit 1145324612 p = decide (p < 32 ∧ p % 4 = 2) :=
  sel_testBit (by decide) (by decide)
theorem sel32_3 : ∀ p, Nat.testBit 2290649224 p = decide (p < 32 ∧ p % 4 = 3) :=
  sel_testBit (by decide) (by decide)
theorem sel64_0 : ∀ p, Nat.testBit 1229782938247303441 p = decide (p < 64 ∧ p % 4 = 0) :=
  sel_testBit (by decide) (by decide)
theorem sel64_1 : ∀ p, Nat.testBit 2459565876494606882 p = decide (p < 64 ∧ p % 4 = 1) :=
  sel_testBit (by decide) (by decide)
theorem sel64_2 : ∀ p, Nat.testBit 4919131752989213764 p = decide (p < 64 ∧ p % 4 = 2) :=
  sel_testBit (by decide) (by decide)
theorem sel64_3 : ∀ p, Nat.testBit 9838263505978427528 p = decide (p < 64 ∧ p % 4 = 3) :=
  sel_testBit (by decide) (by decide)

theorem spaced_and_sel {M w r : Nat} (hM : ∀ p, M.testBit p = decide (p < w ∧ p % 4 = r)) (a : Nat) :
    Spaced r (a &&& M) := by
  intro p h
  rw [Nat.testBit_and, hM] at h
  simp only [Bool.and_eq_true, decide_eq_true_eq] at h
  exact h.2.2

theorem and_sel_lt {M w r : Nat} (hM : ∀ p, M.testBit p = decide (p < w ∧ p % 4 = r)) (a : Nat) :
    a &&& M < 2 ^ w := by
  apply Nat.lt_pow_two_of_testBit
  intro p hp
  rw [Nat.testBit_and, hM]
  have : ¬ p < w := by omega
  simp [this]

/-- a 32-bit word is the xor of its four residue-class parts -/
theorem split4 {a S0 S1 S2 S3 : Nat} (ha : a < 2 ^ 32)
    (h0 : ∀ p, S0.testBit p = decide (p < 32 ∧ p % 4 = 0))
    (h1 : ∀ p, S1.testBit p = decide (p < 32 ∧ p % 4 = 1))
    (h2 : ∀ p, S2.testBit p = decide (p < 32 ∧ p % 4 = 2))
    (h3 : ∀ p, S3.testBit p = decide (p < 32 ∧ p % 4 = 3)) :
    a = (a &&& S0) ^^^ (a &&& S1) ^^^ (a &&& S2) ^^^ (a &&& S3) := by
  apply Nat.eq_of_testBit_eq
  intro p
  simp only [Nat.testBit_xor, Nat.testBit_and, h0, h1, h2, h3]
  by_cases hp : p < 32
  · have : p % 4 = 0 ∨ p % 4 = 1 ∨ p % 4 = 2 ∨ p % 4 = 3 := by omega
    rcases this with h | h | h | h <;> simp [hp, h]
  · have : a.testBit p = false :=
      Nat.testBit_lt_two_pow (Nat.lt_of_lt_of_le ha (Nat.pow_le_pow_right (by decide) (by omega)))
    simp [this]

theorem or4_eq_xor4 {T0 T1 T2 T3 : Nat} (s0 : Spaced 0 T0) (s1 : Spaced 1 T1) (s2 : Spaced 2 T2)
    (s3 : Spaced 3 T3) : T0 ||| T1 ||| T2 ||| T3 = T0 ^^^ T1 ^^^ T2 ^^^ T3 := by
  have e01 : T0 &&& T1 = 0 := s0.and_eq_zero s1 (by decide)
  have e02 : T0 &&& T2 = 0 := s0.and_eq_zero s2 (by decide)
  have e03 : T0 &&& T3 = 0 := s0.and_eq_zero s3 (by decide)
  have e12 : T1 &&& T2 = 0 := s1.and_eq_zero s2 (by decide)
  have e13 : T1 &&& T3 = 0 := s1.and_eq_zero s3 (by decide)
  have e23 : T2 &&& T3 = 0 := s2.and_eq_zero s3 (by decide)
  rw [or_eq_xor_of_and_eq_zero e01]
  have f2 : (T0 ^^^ T1) &&& T2 = 0 := by rw [Nat.and_xor_distrib_right, e02, e12]; rfl
  rw [or_eq_xor_of_and_eq_zero f2]
  have f3 : (T0 ^^^ T1 ^^^ T2) &&& T3 = 0 := by
    rw [Nat.and_xor_distrib_right, Nat.and_xor_distrib_right, e03, e13, e23]; rfl
  rw [or_eq_xor_of_and_eq_zero f3]

/-! ### `mul32`: multiplication with holes -/

/-- abstract form of the body of `mul32` -/
theorem mul32_core {a0 a1 a2 a3 b0 b1 b2 b3 S0 S1 S2 S3 : Nat}
    (ha0 : Spaced 0 a0) (ha1 : Spaced 1 a1) (ha2 : Spaced 2 a2) (ha3 : Spaced 3 a3)
    (hb0 : Spaced 0 b0) (hb1 : Spaced 1 b1) (hb2 : Spaced 2 b2) (hb3 : Spaced 3 b3)
    (la0 : a0 < 2 ^ 32) (la1 : a1 < 2 ^ 32) (la2 : a2 < 2 ^ 32) (la3 : a3 < 2 ^ 32)
    (lb0 : b0 < 2 ^ 32) (lb1 : b1 < 2 ^ 32) (lb2 : b2 < 2 ^ 32) (lb3 : b3 < 2 ^ 32)
    (h0 : ∀ p, S0.testBit p = decide (p < 64 ∧ p % 4 = 0))
    (h1 : ∀ p, S1.testBit p = decide (p < 64 ∧ p % 4 = 1))
    (h2 : ∀ p, S2.testBit p = decide (p < 64 ∧ p % 4 = 2))
    (h3 : ∀ p, S3.testBit p = decide (p < 64 ∧ p % 4 = 3)) :
    ((((a0 * b0 % 2 ^ 64 ^^^ a1 * b3 % 2 ^ 64 ^^^ a2 * b2 % 2 ^ 64 ^^^ a3 * b1 % 2 ^ 64) &&& S0) |||
      ((a0 * b1 % 2 ^ 64 ^^^ a1 * b0 % 2 ^ 64 ^^^ a2 * b3 % 2 ^ 64 ^^^ a3 * b2 % 2 ^ 64) &&& S1)) |||
      ((a0 * b2 % 2 ^ 64 ^^^ a1 * b1 % 2 ^ 64 ^^^ a2 * b0 % 2 ^ 64 ^^^ a3 * b3 % 2 ^ 64) &&& S2)) |||
      ((a0 * b3 % 2 ^ 64 ^^^ a1 * b2 % 2 ^ 64 ^^^ a2 * b1 % 2 ^ 64 ^^^ a3 * b0 % 2 ^ 64) &&& S3)
    = clmul (a0 ^^^ a1 ^^^ a2 ^^^ a3) (b0 ^^^ b1 ^^^ b2 ^^^ b3) 32 := by
  simp only [Nat.and_xor_distrib_right]
  rw [mul_and_sel (by decide) (by decide) ha0 hb0 la0 lb0 rfl h0,
      mul_and_sel (by decide) (by decide) ha1 hb3 la1 lb3 rfl h0,
      mul_and_sel (by decide) (by decide) ha2 hb2 la2 lb2 rfl h0,
      mul_and_sel (by decide) (by decide) ha3 hb1 la3 lb1 rfl h0,
      mul_and_sel (by decide) (by decide) ha0 hb1 la0 lb1 rfl h1,
      mul_and_sel (by decide) (by decide) ha1 hb0 la1 lb0 rfl h1,
      mul_and_sel (by decide) (by decide) ha2 hb3 la2 lb3 rfl h1,
      mul_and_sel (by decide) (by decide) ha3 hb2 la3 lb2 rfl h1,
      mul_and_sel (by decide) (by decide) ha0 hb2 la0 lb2 rfl h2,
      mul_and_sel (by decide) (by decide) ha1 hb1 la1 lb1 rfl h2,
      mul_and_sel (by decide) (by decide) ha2 hb0 la2 lb0 rfl h2,
      mul_and_sel (by decide) (by decide) ha3 hb3 la3 lb3 rfl h2,
      mul_and_sel (by decide) (by decide) ha0 hb3 la0 lb3 rfl h3,
      mul_and_sel (by decide) (by decide) ha1 hb2 la1 lb2 rfl h3,
      mul_and_sel (by decide) (by decide) ha2 hb1 la2 lb1 rfl h3,
      mul_and_sel (by decide) (by decide) ha3 hb0 la3 lb0 rfl h3]
  have s0 : Spaced 0 (clmul a0 b0 32 ^^^ clmul a1 b3 32 ^^^ clmul a2 b2 32 ^^^ clmul a3 b1 32) :=
    (((spaced_clmul ha0 hb0 32).xor (spaced_clmul ha1 hb3 32)).xor (spaced_clmul ha2 hb2 32)).xor
      (spaced_clmul ha3 hb1 32)
  have s1 : Spaced 1 (clmul a0 b1 32 ^^^ clmul a1 b0 32 ^^^ clmul a2 b3 32 ^^^ clmul a3 b2 32) :=
    (((spaced_clmul ha0 hb1 32).xor (spaced_clmul ha1 hb0 32)).xor (spaced_clmul ha2 hb3 32)).xor
      (spaced_clmul ha3 hb2 32)
  have s2 : Spaced 2 (clmul a0 b2 32 ^^^ clmul a1 b1 32 ^^^ clmul a2 b0 32 ^^^ clmul a3 b3 32) :=
    (((spaced_clmul ha0 hb2 32).xor (spaced_clmul ha1 hb1 32)).xor (spaced_clmul ha2 hb0 32)).xor
      (spaced_clmul ha3 hb3 32)
  have s3 : Spaced 3 (clmul a0 b3 32 ^^^ clmul a1 b2 32 ^^^ clmul a2 b1 32 ^^^ clmul a3 b0 32) :=
    (((spaced_clmul ha0 hb3 32).xor (spaced_clmul ha1 hb2 32)).xor (spaced_clmul ha2 hb1 32)).xor
      (spaced_clmul ha3 hb0 32)
  rw [or4_eq_xor4 s0 s1 s2 s3]
  simp only [clmul_xor_left, clmul_xor_right]
  ac_rfl

/-! ### word splitting and `mul64`: Karatsuba over GF(2)[x] -/

theorem split_lo_hi (a k : Nat) : a = a % 2 ^ k ^^^ ((a >>> k) <<< k) := by
  apply Nat.eq_of_testBit_eq
  intro p
  rw [Nat.testBit_xor, Nat.testBit_mod_two_pow, Nat.testBit_shiftLeft, Nat.testBit_shiftRight]
  by_cases hp : p < k
  · have : ¬ p ≥ k := by omega
    simp [hp, this]
  · have h1 : p ≥ k := by omega
    have h2 : k + (p - k) = p := by omega
    simp [hp, h1, h2]

theorem shiftLeft_shiftRight_add (m i j : Nat) : (m <<< i) >>> (i + j) = m >>> j := by
  rw [Nat.shiftRight_add, Nat.shiftLeft_shiftRight]

theorem shiftRight_lt {m k : Nat} (h : m < 2 ^ k) (i : Nat) : m >>> i < 2 ^ k := by
  rw [Nat.shiftRight_eq_div_pow]
  exact Nat.lt_of_le_of_lt (Nat.div_le_self _ _) h

theorem xor_shiftLeft_lt {lo hi k j : Nat} (hlo : lo < 2 ^ k) (hhi : hi < 2 ^ j) :
    lo ^^^ hi <<< k < 2 ^ (k + j) := by
  apply Nat.xor_lt_two_pow
  · exact Nat.lt_of_lt_of_le hlo (Nat.pow_le_pow_right (by decide) (by omega))
  · rw [Nat.shiftLeft_eq, Nat.pow_add, Nat.mul_comm]
    exact Nat.mul_lt_mul_of_pos_left hhi (Nat.pow_pos (by decide))

/-- the Karatsuba middle term -/
theorem karatsuba_mid (a0 a1 b0 b1 : Nat) :
    pmul (a0 ^^^ a1) (b0 ^^^ b1) ^^^ pmul a0 b0 ^^^ pmul a1 b1 = pmul a0 b1 ^^^ pmul a1 b0 := by
  simp only [pmul_xor_left, pmul_xor_right]
  generalize pmul a0 b0 = p00
  generalize pmul a0 b1 = p01
  generalize pmul a1 b0 = p10
  generalize pmul a1 b1 = p11
  apply Nat.eq_of_testBit_eq
  intro i
  simp only [Nat.testBit_xor]
  cases p00.testBit i <;> cases p01.testBit i <;> cases p10.testBit i <;> cases p11.testBit i <;> rfl

/-- recombination of the three Karatsuba products (word size `w`) -/
theorem karatsuba_combine (w a0 a1 b0 b1 : Nat) :
    pmul (a0 ^^^ a1 <<< w) (b0 ^^^ b1 <<< w) =
      pmul a0 b0 ^^^ (pmul a0 b1 ^^^ pmul a1 b0) <<< w ^^^ pmul a1 b1 <<< (w + w) := by
  simp only [pmul_xor_left, pmul_xor_right, pmul_shiftLeft_left, pmul_shiftLeft_right,
    Nat.shiftLeft_xor_distrib, Nat.shiftLeft_add]
  ac_rfl

/-- abstract form of the body of `mul64` (with `mul32` already replaced by `clmul _ _ 32`) -/
theorem mul64_core {a0 a1 b0 b1 : Nat} (ha0 : a0 < 2 ^ 32) (ha1 : a1 < 2 ^ 32) (hb0 : b0 < 2 ^ 32)
    (hb1 : b1 < 2 ^ 32) (M : Nat)
    (hM : M = clmul (a0 ^^^ a1) (b0 ^^^ b1) 32 ^^^ clmul a0 b0 32 ^^^ clmul a1 b1 32) :
    (clmul a0 b0 32 ^^^ (M <<< 32) % 2 ^ 64) + (clmul a1 b1 32 ^^^ M >>> 32) * 2 ^ 64
        = clmul (a0 ^^^ a1 <<< 32) (b0 ^^^ b1 <<< 32) 64
      ∧ clmul a0 b0 32 ^^^ (M <<< 32) % 2 ^ 64 < 2 ^ 64
      ∧ clmul a1 b1 32 ^^^ M >>> 32 < 2 ^ 64 := by
  have hb01 : b0 ^^^ b1 < 2 ^ 32 := Nat.xor_lt_two_pow hb0 hb1
  have ha01 : a0 ^^^ a1 < 2 ^ 32 := Nat.xor_lt_two_pow ha0 ha1
  have hb : b0 ^^^ b1 <<< 32 < 2 ^ 64 := xor_shiftLeft_lt hb0 hb1
  simp only [clmul_eq_pmul _ hb01, clmul_eq_pmul _ hb0, clmul_eq_pmul _ hb1, karatsuba_mid] at hM
  simp only [clmul_eq_pmul _ hb0, clmul_eq_pmul _ hb1, clmul_eq_pmul _ hb, karatsuba_combine]
  rw [← hM]
  have hL : pmul a0 b0 < 2 ^ 64 := pmul_lt ha0 hb0
  have hH : pmul a1 b1 < 2 ^ 64 := pmul_lt ha1 hb1
  have hMlt : M < 2 ^ 64 := by
    rw [hM]; exact Nat.xor_lt_two_pow (pmul_lt ha0 hb1) (pmul_lt ha1 hb0)
  clear hM
  generalize pmul a0 b0 = L at hL ⊢
  generalize pmul a1 b1 = H at hH ⊢
  have hX : (M <<< 32) % 2 ^ 64 < 2 ^ 64 := Nat.mod_lt _ (Nat.pow_pos (by decide))
  have hlo : L ^^^ (M <<< 32) % 2 ^ 64 < 2 ^ 64 := Nat.xor_lt_two_pow hL hX
  have hhi : H ^^^ M >>> 32 < 2 ^ 64 := Nat.xor_lt_two_pow hH (shiftRight_lt hMlt 32)
  refine ⟨?_, hlo, hhi⟩
  rw [add_eq_xor_of_lt _ hlo, Nat.shiftLeft_xor_distrib]
  have hs : M <<< 32 = (M <<< 32) % 2 ^ 64 ^^^ (M >>> 32) <<< 64 := by
    have := split_lo_hi (M <<< 32) 64
    rw [shiftLeft_shiftRight_add M 32 32] at this
    exact this
  conv => rhs; rw [hs]
  have e64 : 32 + 32 = 64 := rfl
  rw [e64]
  generalize M <<< 32 % 2 ^ 64 = X
  generalize M >>> 32 <<< 64 = Y
  generalize H <<< 64 = Z
  ac_rfl

end TinkVerif.Clmul
