import TinkVerif.Model.Aead
import TinkVerif.Lemmas.CmacDbl
/-!
  Helper lemmas for `Props/C01Deep.lean`: fixed-width big-endian encodings modulo `256^k`,
  cutting a list into prefix / middle / suffix, and a few `UInt8` bit facts (exhaustive over the
  256 byte values).  Core Lean only.
-/
namespace TinkVerif.Bytes

/-- `ofNatBE k` only sees its argument modulo `256^k` -/
theorem ofNatBE_mod (k n : Nat) : ofNatBE k (n % 256 ^ k) = ofNatBE k n := by
  have h := ofNatBE_toNatBE (ofNatBE k n)
  rwa [length_ofNatBE, toNatBE_ofNatBE] at h

/-- exact criterion for two fixed-width big-endian encodings to coincide -/
theorem ofNatBE_eq_iff (k a b : Nat) : ofNatBE k a = ofNatBE k b ↔ a % 256 ^ k = b % 256 ^ k := by
  constructor
  · intro h
    have := congrArg toNatBE h
    rwa [toNatBE_ofNatBE, toNatBE_ofNatBE] at this
  · intro h
    rw [← ofNatBE_mod k a, h, ofNatBE_mod]

theorem pow_256_8 : (256 : Nat) ^ 8 = 18446744073709551616 := by decide
theorem pow_256_4 : (256 : Nat) ^ 4 = 4294967296 := by decide

/-- arithmetic core of the length block: `8·a ≡ 8·b (mod 2^64)` iff `a ≡ b (mod 2^61)` -/
theorem eight_mul_mod_iff (a b : Nat) :
    (8 * a) % 18446744073709551616 = (8 * b) % 18446744073709551616 ↔
      a % 2305843009213693952 = b % 2305843009213693952 := by
  have ha := Nat.div_add_mod a 2305843009213693952
  have hb := Nat.div_add_mod b 2305843009213693952
  have ha' := Nat.mod_lt a (show 0 < 2305843009213693952 by decide)
  have hb' := Nat.mod_lt b (show 0 < 2305843009213693952 by decide)
  generalize a / 2305843009213693952 = qa at ha
  generalize a % 2305843009213693952 = ra at ha ha' ⊢
  generalize b / 2305843009213693952 = qb at hb
  generalize b % 2305843009213693952 = rb at hb hb' ⊢
  subst ha hb
  have e1 : (8 * (2305843009213693952 * qa + ra)) % 18446744073709551616 = 8 * ra := by omega
  have e2 : (8 * (2305843009213693952 * qb + rb)) % 18446744073709551616 = 8 * rb := by omega
  rw [e1, e2]; omega

/-- `be64 (8·a) = be64 (8·b)` exactly when `a ≡ b (mod 2^61)` -/
theorem be64_eight_mul_eq_iff (a b : Nat) :
    be64 (8 * a) = be64 (8 * b) ↔ a % 2305843009213693952 = b % 2305843009213693952 := by
  unfold be64
  rw [ofNatBE_eq_iff, pow_256_8]
  exact eight_mul_mod_iff a b

theorem toNatLE_ofNatLE (k n : Nat) : toNatLE (ofNatLE k n) = n % 256 ^ k := by
  induction k generalizing n with
  | zero => simp [ofNatLE, toNatLE, Nat.mod_one]
  | succ k ih =>
    rw [ofNatLE, toNatLE, ih]
    have h1 : (UInt8.ofNat (n % 256)).toNat = n % 256 := by simp [UInt8.toNat_ofNat']
    rw [h1, Nat.pow_succ, Nat.mul_comm (256 ^ k) 256, Nat.mod_mul]

/-- little-endian 64-bit bit-length blocks (AES-GCM-SIV): equal blocks, lengths congruent mod `2^61` -/
theorem le64_eight_mul_eq (a b : Nat) (h : ofNatLE 8 (8 * a) = ofNatLE 8 (8 * b)) :
    a % 2305843009213693952 = b % 2305843009213693952 := by
  have := congrArg toNatLE h
  rw [toNatLE_ofNatLE, toNatLE_ofNatLE, pow_256_8] at this
  exact (eight_mul_mod_iff a b).1 this

end TinkVerif.Bytes

namespace TinkVerif.Aead
open TinkVerif

/-! ### cutting `prefix ‖ middle ‖ suffix` -/

/-- any list with room for an `a`-byte prefix and a `c`-byte suffix is the concatenation of the three
    slices the decrypt functions cut out of it -/
theorem split3 {α : Type} (l : List α) (a c : Nat) (h : a + c ≤ l.length) :
    l = l.take a ++ (l.drop a).take (l.length - a - c) ++ l.drop (l.length - c) := by
  have h1 : l.drop (l.length - c) = (l.drop a).drop (l.length - a - c) := by
    rw [List.drop_drop]; congr 1; omega
  rw [h1, List.append_assoc, List.take_append_drop, List.take_append_drop]

/-- … and conversely the three slices of `p ‖ m ‖ s` are `p`, `m`, `s` -/
theorem cut3 {α : Type} (p m s : List α) :
    (p ++ m ++ s).take p.length = p ∧
    ((p ++ m ++ s).drop p.length).take ((p ++ m ++ s).length - p.length - s.length) = m ∧
    (p ++ m ++ s).drop ((p ++ m ++ s).length - s.length) = s := by
  refine ⟨by rw [List.append_assoc, List.take_left], ?_, ?_⟩
  · rw [List.append_assoc, List.drop_left]
    exact List.take_left' (by simp only [List.length_append]; omega)
  · exact List.drop_left' (by simp only [List.length_append]; omega)

/-- a different prefix of the same length is seen by the prefix comparison -/
theorem take_ne_of_prefix_ne {α : Type} (p p' rest : List α) (hl : p.length = p'.length) (hne : p ≠ p') :
    (p ++ rest).take p'.length ≠ p' := by
  rw [← hl, List.take_left]; exact hne

/-! ### byte facts (exhaustive over the 256 values) -/

theorem u8_forall (P : UInt8 → Prop) (h : ∀ n : Fin 256, P (UInt8.ofNat n.val)) (x : UInt8) : P x := by
  have := h ⟨x.toNat, x.toNat_lt⟩
  simpa using this

theorem u8_or80_ge (x : UInt8) : 128 ≤ (x ||| 0x80).toNat := by
  revert x; apply u8_forall; decide +kernel

theorem u8_or80_and80 (x : UInt8) : (x ||| 0x80) &&& 0x80 = 0x80 := by
  revert x; apply u8_forall; decide +kernel

theorem u8_or80_low (x : UInt8) : (x ||| 0x80) &&& 0x7f = x &&& 0x7f := by
  revert x; apply u8_forall; decide +kernel

theorem u8_and7f_lt (x : UInt8) : (x &&& 0x7f).toNat < 128 := by
  revert x; apply u8_forall; decide +kernel

theorem u8_and7f_and80 (x : UInt8) : (x &&& 0x7f) &&& 0x80 = 0 := by
  revert x; apply u8_forall; decide +kernel

end TinkVerif.Aead
