import TinkVerif.Lemmas.GlueSemLoop
/-
  General lemmas about `GoSemBytes` operations used by Props/GlueTie/Siv.lean:
  `copy` / `XORKeyStream` into the head of a buffer, and the constant-time comparison loop
  `diff |= a[i] ^ b[i]` (zero iff the two equally long slices are equal).
-/
namespace TinkVerif.GoSem
open TinkVerif

/-- `copy(b[:n], src)` with `len(src) = n ≤ len(b)` -/
theorem copyInto_head (b src : Bytes) (n : Nat) (hs : src.length = n) (hb : n ≤ b.length) :
    copyInto b 0 (n : Int) src = src ++ b.drop n := by
  have hc : (0 : Int) ≤ 0 ∧ (0 : Int) ≤ (n : Int) ∧ (n : Int) ≤ len b := by
    simp only [len_eq]; omega
  subst hs
  rw [copyInto, if_pos hc]
  simp

/-- `stream.XORKeyStream(b, src)` with `len(src) ≤ len(b)`: the head of `b` is overwritten -/
theorem applyInto_head (F : Bytes → Bytes) (b src : Bytes) (h : src.length ≤ b.length) :
    applyInto F b 0 (len b) src = F src ++ b.drop src.length := by
  have hc : (0 : Int) ≤ 0 ∧ (0 : Int) + Int.ofNat src.length ≤ len b ∧ len b ≤ len b := by
    simp only [len_eq, Int.ofNat_eq_natCast]; omega
  rw [applyInto, if_pos hc]
  simp

/-- an OR-accumulator is zero at the end iff it started at zero and every contribution was zero -/
theorem orFold_eq_zero_iff (f : Nat → UInt8) (n : Nat) (init : UInt8) :
    (List.range n).foldl (fun s k => s ||| f k) init = 0 ↔ init = 0 ∧ ∀ k, k < n → f k = 0 := by
  induction n with
  | zero => simp
  | succ n ih =>
    rw [List.range_succ, List.foldl_append]
    simp only [List.foldl_cons, List.foldl_nil]
    rw [UInt8.or_eq_zero_iff, ih]
    constructor
    · rintro ⟨⟨h0, h1⟩, h2⟩
      refine ⟨h0, fun k hk => ?_⟩
      by_cases hkn : k = n
      · subst hkn; exact h2
      · exact h1 k (by omega)
    · rintro ⟨h0, h1⟩
      exact ⟨⟨h0, fun k hk => h1 k (by omega)⟩, h1 n (by omega)⟩

/-- `getD` agreement on all indices below the common length is equality -/
theorem eq_of_getD_eq (a b : Bytes) (n : Nat) (ha : a.length = n) (hb : b.length = n)
    (h : ∀ k, k < n → a.getD k 0 = b.getD k 0) : a = b := by
  apply List.ext_getElem (by omega)
  intro i h1 h2
  have := h i (by omega)
  simpa [List.getD_eq_getElem?_getD, List.getElem?_eq_getElem h1, List.getElem?_eq_getElem h2] using this

/-- `for i := 0; i < n; i++ { diff |= a[i] ^ b[i] }` starting from 0 ends at 0 iff `a = b`
    (both of length `n`) -/
theorem ctDiff_eq_zero_iff (a b : Bytes) (n : Nat) (ha : a.length = n) (hb : b.length = n) :
    forRange (n : Int) (0 : UInt8) (fun s i => s ||| (getAt a i ^^^ getAt b i)) = 0 ↔ a = b := by
  rw [forRange_natCast]
  simp only [getAt_nat]
  rw [orFold_eq_zero_iff (fun k => a.getD k 0 ^^^ b.getD k 0)]
  simp only [UInt8.xor_eq_zero_iff, true_and]
  constructor
  · exact eq_of_getD_eq a b n ha hb
  · intro h k _; rw [h]

end TinkVerif.GoSem
