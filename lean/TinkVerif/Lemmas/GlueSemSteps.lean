import TinkVerif.Lemmas.GlueSemLoop
/-
  General-purpose lemmas about the general loop forms of `GoSemBytes` (`forSteps`, `whileSteps`, `rangeUp`,
  `rangeDown`) and a few mid-buffer store forms, used by whole-function tie proofs (Props/GlueTie/KwpFull.lean).

  * `forSteps_next_foldl`     a `forSteps` whose body always says `next` is a `foldl`
  * `forSteps_check_fst`      a `forSteps` whose body only tests the index (`if c i { return r }`) is `List.any`
  * `whileSteps_next/brk/ret` one unfolding step of `whileSteps`
  * `whileSteps_inv`          counted while loop: `k` iterations `next` (an indexed invariant `Q j`), then `brk`;
                              any fuel ≥ k gives the state after the k-th iteration (fuel = k needs no exit test)
  * `rangeDown_natCast`, `rangeDown_lit`, `rangeUp_natCast`   the index lists over `Nat`
  * `foldl_range_inv`, `foldl_range_reverse_inv`              invariants for folds over `List.range n` (up / down)
  * `copyInto_nat`, `copyInto_window`, `copyInto_tail`        `copy` into the middle of a buffer
-/
namespace TinkVerif.GoSem
open TinkVerif

/-! ### `forSteps` -/

/-- a loop body that never breaks or returns: the loop is a fold -/
theorem forSteps_next_foldl {ρ σ : Type} (l : List Int) (init : σ) (f : σ → Int → Step ρ σ) (g : σ → Int → σ)
    (h : ∀ s i, f s i = Step.next (g s i)) : forSteps l init f = (none, l.foldl g init) := by
  induction l generalizing init with
  | nil => rfl
  | cons i rest ih => rw [forSteps, h, List.foldl_cons]; exact ih _

/-- the same, when the body is `next` only on the indices actually visited -/
theorem forSteps_next_foldl_mem {ρ σ : Type} (l : List Int) (init : σ) (f : σ → Int → Step ρ σ) (g : σ → Int → σ)
    (h : ∀ s i, i ∈ l → f s i = Step.next (g s i)) : forSteps l init f = (none, l.foldl g init) := by
  induction l generalizing init with
  | nil => rfl
  | cons i rest ih =>
    rw [forSteps, h _ _ List.mem_cons_self, List.foldl_cons]
    exact ih _ (fun s j hj => h s j (List.mem_cons_of_mem _ hj))

/-- a loop that only inspects the index and returns `r` at the first index satisfying `c`
    (`for i := …; { if c(i) { return r } }`) -/
theorem forSteps_check_fst {ρ σ : Type} (l : List Int) (init : σ) (f : σ → Int → Step ρ σ) (c : Int → Bool) (r : ρ)
    (h : ∀ s i, f s i = if c i then Step.ret r else Step.next s) :
    (forSteps l init f).1 = if l.any c then some r else none := by
  induction l with
  | nil => rfl
  | cons i rest ih =>
    rw [forSteps, h]
    by_cases hc : c i = true
    · simp [hc]
    · simp only [hc, Bool.false_eq_true, ↓reduceIte, List.any_cons, Bool.false_or]
      exact ih

/-! ### `whileSteps` -/

theorem whileSteps_zero {ρ σ : Type} (s : σ) (f : σ → Step ρ σ) : whileSteps 0 s f = (none, s) := rfl

theorem whileSteps_next {ρ σ : Type} (fuel : Nat) (s s' : σ) (f : σ → Step ρ σ) (h : f s = Step.next s') :
    whileSteps (fuel + 1) s f = whileSteps fuel s' f := by
  rw [whileSteps, h]

theorem whileSteps_brk {ρ σ : Type} (fuel : Nat) (s s' : σ) (f : σ → Step ρ σ) (h : f s = Step.brk s') :
    whileSteps (fuel + 1) s f = (none, s') := by
  rw [whileSteps, h]

theorem whileSteps_ret {ρ σ : Type} (fuel : Nat) (s : σ) (r : ρ) (f : σ → Step ρ σ) (h : f s = Step.ret r) :
    whileSteps (fuel + 1) s f = (some r, s) := by
  rw [whileSteps, h]

/-- counted `while`: from a state satisfying `Q j` (`j < k`) the body continues into a state satisfying `Q (j+1)`;
    at `Q k` the body breaks without changing the state.  With fuel ≥ `k - j` the loop ends (no early return)
    in a state satisfying `Q k`. -/
theorem whileSteps_inv_from {ρ σ : Type} (f : σ → Step ρ σ) (Q : Nat → σ → Prop) (k : Nat)
    (hstep : ∀ j s, j < k → Q j s → ∃ s', f s = Step.next s' ∧ Q (j + 1) s')
    (hstop : ∀ s, Q k s → f s = Step.brk s)
    (d : Nat) : ∀ (j : Nat) (s : σ) (fuel : Nat), j + d = k → Q j s → d ≤ fuel →
      ∃ s', whileSteps fuel s f = (none, s') ∧ Q k s' := by
  induction d with
  | zero =>
    intro j s fuel hj hQ _
    have : j = k := by omega
    subst this
    cases fuel with
    | zero => exact ⟨s, rfl, hQ⟩
    | succ fuel => exact ⟨s, whileSteps_brk fuel s s f (hstop s hQ), hQ⟩
  | succ d ih =>
    intro j s fuel hj hQ hf
    cases fuel with
    | zero => omega
    | succ fuel =>
      obtain ⟨s', hs', hQ'⟩ := hstep j s (by omega) hQ
      rw [whileSteps_next fuel s s' f hs']
      exact ih (j + 1) s' fuel (by omega) hQ' (by omega)

theorem whileSteps_inv {ρ σ : Type} (f : σ → Step ρ σ) (Q : Nat → σ → Prop) (k : Nat)
    (hstep : ∀ j s, j < k → Q j s → ∃ s', f s = Step.next s' ∧ Q (j + 1) s')
    (hstop : ∀ s, Q k s → f s = Step.brk s)
    (s : σ) (h0 : Q 0 s) (fuel : Nat) (hf : k ≤ fuel) :
    ∃ s', whileSteps fuel s f = (none, s') ∧ Q k s' :=
  whileSteps_inv_from f Q k hstep hstop k 0 s fuel (by omega) h0 hf

/-! ### index lists -/

/-- `for j := n-1; j >= 0; j--` visits `n-1, …, 0` -/
theorem rangeDown_natCast (n : Nat) :
    rangeDown ((n : Int) - 1) 0 = (List.range n).reverse.map (fun (k : Nat) => (k : Int)) := by
  unfold rangeDown
  have e : ((n : Int) - 1 - 0 + 1).toNat = n := by omega
  rw [e]
  apply List.ext_getElem
  · simp
  · intro i h1 h2
    simp only [List.length_map, List.length_range] at h1
    simp only [List.getElem_map, List.getElem_range, List.getElem_reverse, List.length_range, Int.ofNat_eq_natCast]
    omega

/-- literal upper bound: `for i := c; i >= 0; i--` with `c + 1 = n` -/
theorem rangeDown_lit (c : Int) (n : Nat) (h : c = (n : Int) - 1) :
    rangeDown c 0 = (List.range n).reverse.map (fun (k : Nat) => (k : Int)) := by
  rw [h, rangeDown_natCast]

/-- `for i := a; i < b; i++` with non-negative bounds -/
theorem rangeUp_natCast (a b : Nat) :
    rangeUp (a : Int) (b : Int) = (List.range (b - a)).map (fun (k : Nat) => ((a + k : Nat) : Int)) := by
  unfold rangeUp
  have e : ((b : Int) - (a : Int)).toNat = b - a := by omega
  rw [e]
  apply List.map_congr_left
  intro k _
  simp

/-! ### invariants for folds over `List.range` -/

theorem foldl_range_inv {σ : Type} (g : σ → Nat → σ) (Q : Nat → σ → Prop) (n : Nat) (init : σ) (h0 : Q 0 init)
    (hstep : ∀ j s, j < n → Q j s → Q (j + 1) (g s j)) : Q n ((List.range n).foldl g init) := by
  induction n with
  | zero => exact h0
  | succ n ih =>
    rw [List.range_succ, List.foldl_append]
    exact hstep n _ (Nat.lt_succ_self n) (ih (fun j s hj => hstep j s (Nat.lt_succ_of_lt hj)))

/-- downward loop `j = n-1, …, 0`: from `Q n` to `Q 0` -/
theorem foldl_range_reverse_inv {σ : Type} (g : σ → Nat → σ) (Q : Nat → σ → Prop) (n : Nat) (init : σ) (h0 : Q n init)
    (hstep : ∀ j s, j < n → Q (j + 1) s → Q j (g s j)) : Q 0 ((List.range n).reverse.foldl g init) := by
  induction n generalizing init with
  | zero => exact h0
  | succ n ih =>
    rw [List.range_succ, List.reverse_append, List.reverse_singleton, List.singleton_append, List.foldl_cons]
    exact ih _ (hstep n init (Nat.lt_succ_self n) h0) (fun j s hj => hstep j s (Nat.lt_succ_of_lt hj))

/-! ### `copy` into the middle of a buffer -/

theorem copyInto_nat (b src : Bytes) (lo hi : Nat) (h1 : lo ≤ hi) (h2 : hi ≤ b.length) :
    copyInto b (lo : Int) (hi : Int) src
      = b.take lo ++ src.take (min (hi - lo) src.length) ++ b.drop (lo + min (hi - lo) src.length) := by
  have hc : 0 ≤ (lo : Int) ∧ (lo : Int) ≤ hi ∧ (hi : Int) ≤ len b := by simp only [len_eq]; omega
  have e : ((hi : Int) - (lo : Int)).toNat = hi - lo := by omega
  rw [copyInto, if_pos hc, e, Int.toNat_natCast]

/-- `copy(b[lo:lo+|src|], src)`: the window is exactly filled -/
theorem copyInto_window (b src : Bytes) (lo hi : Nat) (h1 : hi = lo + src.length) (h2 : hi ≤ b.length) :
    copyInto b (lo : Int) (hi : Int) src = b.take lo ++ src ++ b.drop hi := by
  rw [copyInto_nat b src lo hi (by omega) h2]
  have e : min (hi - lo) src.length = src.length := by omega
  rw [e, List.take_of_length_le (Nat.le_refl _), h1]

/-- `copy(b[lo:], src)` with `src` not longer than the window -/
theorem copyInto_tail (b src : Bytes) (lo : Nat) (h : lo + src.length ≤ b.length) :
    copyInto b (lo : Int) (len b) src = b.take lo ++ src ++ b.drop (lo + src.length) := by
  rw [len_eq, copyInto_nat b src lo b.length (by omega) (Nat.le_refl _)]
  have e : min (b.length - lo) src.length = src.length := by omega
  rw [e, List.take_of_length_le (Nat.le_refl _)]

end TinkVerif.GoSem
