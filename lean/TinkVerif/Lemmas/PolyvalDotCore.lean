/-
  The reduction step of tink-go's `polyvalDot` in abstract form: a Montgomery reduction of the
  256-bit carry-less product `c = cl + ch·x^128` by `x^128` modulo the POLYVAL field polynomial
  (`q = cl·P mod x^128`, result `ch + (cl + q·P)/x^128 = ch + q + q/x + q/x^2 + q/x^7`), the
  word-pair (2 × 64 bit) versions of the 128-bit shifts, and the composition with the 128-bit
  Karatsuba product.  Core Lean only.
-/
import TinkVerif.Lemmas.PolyField
import TinkVerif.Lemmas.PolyvalGen

namespace TinkVerif.Clmul
open TinkVerif.Prim.PolyvalSpec

/-! ### shifts -/

theorem shiftLeft_mod_two_pow (w : Nat) {s t k : Nat} (h : s + t = k) :
    (w <<< t) % 2 ^ k = (w % 2 ^ s) <<< t := by
  subst h
  rw [Nat.shiftLeft_eq, Nat.shiftLeft_eq, Nat.pow_add, Nat.mul_mod_mul_right]

/-- `q·x^t = (q / x^s)·x^(s+t) + (q mod x^s)·x^t` -/
theorem shiftLeft_split (q s t : Nat) : q <<< t = (q >>> s) <<< (s + t) ^^^ (q % 2 ^ s) <<< t := by
  conv => lhs; rw [split_lo_hi q s]
  rw [Nat.shiftLeft_xor_distrib, ← Nat.shiftLeft_add, Nat.xor_comm]

theorem pair_mod_low (cl X : Nat) {s : Nat} (hs : s ≤ 64) :
    (cl ^^^ X <<< 64) % 2 ^ s = (cl % 2 ^ 64) % 2 ^ s := by
  apply Nat.eq_of_testBit_eq
  intro i
  simp only [Nat.testBit_mod_two_pow, Nat.testBit_xor, Nat.testBit_shiftLeft]
  by_cases h : i < s
  · have h1 : ¬ i ≥ 64 := by omega
    have h2 : i < 64 := by omega
    simp [h, h1, h2]
  · simp [h]

theorem pair_mod (x0 h : Nat) (hx : x0 < 2 ^ 64) : (x0 ^^^ h <<< 64) % 2 ^ 64 = x0 := by
  have := pair_mod_low x0 h (Nat.le_refl 64)
  rw [Nat.mod_mod, Nat.mod_eq_of_lt hx] at this
  exact this

/-- right shift of a 128-bit value held in two 64-bit words -/
theorem pair_shiftRight (lo hi : Nat) {s t : Nat} (h : t + s = 64) :
    (lo ^^^ hi <<< 64) >>> s = (lo >>> s ^^^ (hi <<< t) % 2 ^ 64) ^^^ (hi >>> s) <<< 64 := by
  have h1 : (hi <<< 64) >>> s = hi <<< t := by
    rw [← h, Nat.shiftLeft_add, Nat.shiftLeft_shiftRight]
  have h2 : hi <<< t = (hi <<< t) % 2 ^ 64 ^^^ (hi >>> s) <<< 64 := by
    have := split_lo_hi (hi <<< t) 64
    rw [← h, shiftLeft_shiftRight_add hi t s] at this
    rw [← h]
    exact this
  rw [Nat.shiftRight_xor_distrib, h1, Nat.xor_assoc, ← h2]

/-! ### Montgomery reduction by `x^128` -/

/-- with `q = cl·(1 + x^121 + x^126 + x^127) mod x^128`, the value
    `R = ch + q + q/x + q/x^2 + q/x^7` satisfies `R·x^128 = (cl + ch·x^128) + q·P`. -/
theorem mont_reduce (cl ch w0 q : Nat) (hw : w0 = cl % 2 ^ 64)
    (hq : q = cl ^^^ ((w0 <<< 63) % 2 ^ 64 ^^^ (w0 <<< 62) % 2 ^ 64 ^^^ (w0 <<< 57) % 2 ^ 64) <<< 64) :
    (ch ^^^ q ^^^ q >>> 1 ^^^ q >>> 2 ^^^ q >>> 7) <<< 128
      = (cl ^^^ ch <<< 128) ^^^ pmul fieldPoly q := by
  have l1 : q % 2 ^ 1 = w0 % 2 ^ 1 := by rw [hq, hw]; exact pair_mod_low _ _ (by decide)
  have l2 : q % 2 ^ 2 = w0 % 2 ^ 2 := by rw [hq, hw]; exact pair_mod_low _ _ (by decide)
  have l7 : q % 2 ^ 7 = w0 % 2 ^ 7 := by rw [hq, hw]; exact pair_mod_low _ _ (by decide)
  have e1 : (w0 <<< 63) % 2 ^ 64 = (q % 2 ^ 1) <<< 63 := by
    rw [l1]; exact shiftLeft_mod_two_pow w0 (by decide)
  have e2 : (w0 <<< 62) % 2 ^ 64 = (q % 2 ^ 2) <<< 62 := by
    rw [l2]; exact shiftLeft_mod_two_pow w0 (by decide)
  have e7 : (w0 <<< 57) % 2 ^ 64 = (q % 2 ^ 7) <<< 57 := by
    rw [l7]; exact shiftLeft_mod_two_pow w0 (by decide)
  have hcl : cl = q ^^^ ((q % 2 ^ 1) <<< 127 ^^^ (q % 2 ^ 2) <<< 126 ^^^ (q % 2 ^ 7) <<< 121) := by
    have a1 : ((q % 2 ^ 1) <<< 63) <<< 64 = (q % 2 ^ 1) <<< 127 := by rw [← Nat.shiftLeft_add]
    have a2 : ((q % 2 ^ 2) <<< 62) <<< 64 = (q % 2 ^ 2) <<< 126 := by rw [← Nat.shiftLeft_add]
    have a7 : ((q % 2 ^ 7) <<< 57) <<< 64 = (q % 2 ^ 7) <<< 121 := by rw [← Nat.shiftLeft_add]
    rw [← a1, ← a2, ← a7, ← Nat.shiftLeft_xor_distrib, ← Nat.shiftLeft_xor_distrib, ← e1, ← e2, ← e7]
    conv => rhs; rw [hq]
    rw [Nat.xor_assoc, Nat.xor_self, Nat.xor_zero]
  have s1 := shiftLeft_split q 1 127
  have s2 := shiftLeft_split q 2 126
  have s7 := shiftLeft_split q 7 121
  have n1 : 1 + 127 = 128 := rfl
  have n2 : 2 + 126 = 128 := rfl
  have n7 : 7 + 121 = 128 := rfl
  rw [n1] at s1; rw [n2] at s2; rw [n7] at s7
  rw [pmul_fieldPoly, s1, s2, s7]
  simp only [Nat.shiftLeft_xor_distrib]
  conv => rhs; rw [hcl]
  generalize (q % 2 ^ 1) <<< 127 = E1
  generalize (q % 2 ^ 2) <<< 126 = E2
  generalize (q % 2 ^ 7) <<< 121 = E7
  generalize (q >>> 1) <<< 128 = C1
  generalize (q >>> 2) <<< 128 = C2
  generalize (q >>> 7) <<< 128 = C7
  generalize ch <<< 128 = A
  generalize q <<< 128 = B
  xor_cancel

/-! ### `polyvalDot` in abstract form -/

theorem dot_assemble (y0' y1 x0 t1 z1 u1 v1 z2 u2 v2 z7 u7 v7 : Nat) :
    y0' ^^^ x0 ^^^ z1 ^^^ u1 ^^^ z2 ^^^ u2 ^^^ z7 ^^^ u7 ^^^ (y1 ^^^ t1 ^^^ v1 ^^^ v2 ^^^ v7) <<< 64 =
    y0' ^^^ y1 <<< 64 ^^^ (x0 ^^^ t1 <<< 64) ^^^ (z1 ^^^ u1 ^^^ v1 <<< 64) ^^^ (z2 ^^^ u2 ^^^ v2 <<< 64) ^^^
      (z7 ^^^ u7 ^^^ v7 <<< 64) := by
  simp only [Nat.shiftLeft_xor_distrib]
  xor_cancel

/-- abstract form of the body of `polyvalDot`, the three `mul64` results given as word pairs
    `(x0,x1) = alo·blo`, `(y0,y1) = ahi·bhi`, `(m0,m1) = (alo+ahi)·(blo+bhi)`. -/
theorem dot_core {alo ahi blo bhi x0 x1 y0 y1 m0 m1 t1 lo hi : Nat}
    (halo : alo < 2 ^ 64) (hahi : ahi < 2 ^ 64) (hblo : blo < 2 ^ 64) (hbhi : bhi < 2 ^ 64)
    (hx0 : x0 < 2 ^ 64) (hx1 : x1 < 2 ^ 64) (hy0 : y0 < 2 ^ 64) (hy1 : y1 < 2 ^ 64)
    (hm0 : m0 < 2 ^ 64) (hm1 : m1 < 2 ^ 64)
    (hx : x0 + x1 * 2 ^ 64 = clmul alo blo 64)
    (hy : y0 + y1 * 2 ^ 64 = clmul ahi bhi 64)
    (hm : m0 + m1 * 2 ^ 64 = clmul (alo ^^^ ahi) (blo ^^^ bhi) 64)
    (ht1 : t1 = (x1 ^^^ (m0 ^^^ (x0 ^^^ y0))) ^^^
      (((x0 <<< 63) % 2 ^ 64 ^^^ (x0 <<< 62) % 2 ^ 64) ^^^ (x0 <<< 57) % 2 ^ 64))
    (hlo : lo = (y0 ^^^ (m1 ^^^ (x1 ^^^ y1))) ^^^ x0 ^^^ x0 >>> 1 ^^^ (t1 <<< 63) % 2 ^ 64 ^^^ x0 >>> 2
      ^^^ (t1 <<< 62) % 2 ^ 64 ^^^ x0 >>> 7 ^^^ (t1 <<< 57) % 2 ^ 64)
    (hhi : hi = y1 ^^^ t1 ^^^ t1 >>> 1 ^^^ t1 >>> 2 ^^^ t1 >>> 7) :
    lo + hi * 2 ^ 64 = dot (alo + ahi * 2 ^ 64) (blo + bhi * 2 ^ 64) ∧ lo < 2 ^ 64 ∧ hi < 2 ^ 64 := by
  have md : ∀ z, z % 2 ^ 64 < 2 ^ 64 := fun z => Nat.mod_lt _ (Nat.pow_pos (by decide))
  have X : ∀ {u v : Nat}, u < 2 ^ 64 → v < 2 ^ 64 → u ^^^ v < 2 ^ 64 := Nat.xor_lt_two_pow
  have ht1lt : t1 < 2 ^ 64 := by
    rw [ht1]; exact X (X hx1 (X hm0 (X hx0 hy0))) (X (X (md _) (md _)) (md _))
  have hlolt : lo < 2 ^ 64 := by
    rw [hlo]
    exact X (X (X (X (X (X (X (X hy0 (X hm1 (X hx1 hy1))) hx0) (shiftRight_lt hx0 1)) (md _))
      (shiftRight_lt hx0 2)) (md _)) (shiftRight_lt hx0 7)) (md _)
  have hhilt : hi < 2 ^ 64 := by
    rw [hhi]
    exact X (X (X (X hy1 ht1lt) (shiftRight_lt ht1lt 1)) (shiftRight_lt ht1lt 2)) (shiftRight_lt ht1lt 7)
  clear X md
  refine ⟨?_, hlolt, hhilt⟩
  rw [add_eq_xor_of_lt _ hlolt, add_eq_xor_of_lt _ halo, add_eq_xor_of_lt _ hblo]
  have hA : alo ^^^ ahi <<< 64 < 2 ^ 128 := xor_shiftLeft_lt halo hahi
  have hB : blo ^^^ bhi <<< 64 < 2 ^ 128 := xor_shiftLeft_lt hblo hbhi
  have hR : lo ^^^ hi <<< 64 < 2 ^ 128 := xor_shiftLeft_lt hlolt hhilt
  refine eq_dot_of_cong hA hB hR ?_
  -- the three products as polynomials
  rw [add_eq_xor_of_lt _ hx0] at hx
  rw [add_eq_xor_of_lt _ hy0] at hy
  rw [add_eq_xor_of_lt _ hm0] at hm
  simp only [clmul_eq_pmul _ hblo] at hx
  simp only [clmul_eq_pmul _ hbhi] at hy
  simp only [clmul_eq_pmul _ (Nat.xor_lt_two_pow hblo hbhi)] at hm
  -- the 256-bit product  c = cl + ch·x^128
  have hc : (x0 ^^^ (x1 ^^^ (m0 ^^^ (x0 ^^^ y0))) <<< 64) ^^^
      ((y0 ^^^ (m1 ^^^ (x1 ^^^ y1))) ^^^ y1 <<< 64) <<< 128
      = pmul (alo ^^^ ahi <<< 64) (blo ^^^ bhi <<< 64) := by
    have hk := karatsuba_mid alo ahi blo bhi
    rw [karatsuba_combine, ← hk, ← hx, ← hy, ← hm]
    simp only [Nat.shiftLeft_xor_distrib, ← Nat.shiftLeft_add, Nat.reduceAdd]
    xor_cancel
  -- the Montgomery quotient, as a word pair
  have hq : x0 ^^^ t1 <<< 64 = (x0 ^^^ (x1 ^^^ (m0 ^^^ (x0 ^^^ y0))) <<< 64) ^^^
      ((x0 <<< 63) % 2 ^ 64 ^^^ (x0 <<< 62) % 2 ^ 64 ^^^ (x0 <<< 57) % 2 ^ 64) <<< 64 := by
    rw [ht1, Nat.shiftLeft_xor_distrib]
    exact (Nat.xor_assoc _ _ _).symm
  have hw : x0 = (x0 ^^^ (x1 ^^^ (m0 ^^^ (x0 ^^^ y0))) <<< 64) % 2 ^ 64 := (pair_mod x0 _ hx0).symm
  have hmont := mont_reduce _ ((y0 ^^^ (m1 ^^^ (x1 ^^^ y1))) ^^^ y1 <<< 64) x0 (x0 ^^^ t1 <<< 64) hw hq
  rw [hc] at hmont
  -- the result words are the reduced value
  have hRq : lo ^^^ hi <<< 64 = ((y0 ^^^ (m1 ^^^ (x1 ^^^ y1))) ^^^ y1 <<< 64) ^^^ (x0 ^^^ t1 <<< 64) ^^^
      (x0 ^^^ t1 <<< 64) >>> 1 ^^^ (x0 ^^^ t1 <<< 64) >>> 2 ^^^ (x0 ^^^ t1 <<< 64) >>> 7 := by
    rw [pair_shiftRight x0 t1 (show 63 + 1 = 64 from rfl), pair_shiftRight x0 t1 (show 62 + 2 = 64 from rfl),
      pair_shiftRight x0 t1 (show 57 + 7 = 64 from rfl), hlo, hhi]
    exact dot_assemble _ _ _ _ _ _ _ _ _ _ _ _ _
  rw [hRq, hmont]
  exact cong_xor_mul _ _

end TinkVerif.Clmul
