import TinkVerif.Lemmas.GlueSemSteps
import TinkVerif.Lemmas.GlueSemSiv
import TinkVerif.Lemmas.XorBytes
/-
  General lemmas about `GoSemBytes` operations used by Props/GlueTie/GcmSiv.lean (whole functions of
  internal/aead/aesgcmsiv.go): `XORBytes` into the tail window of a partly written buffer, block
  encryption into a scratch block, `min` of two lengths as Go `int`, stores into 8-byte windows of a
  16/32-byte key buffer.
-/
namespace TinkVerif.Bytes

/-- `xor` (a `zipWith`) only sees the common prefix (right operand) -/
theorem xor_take_right (a b : Bytes) : xor a (b.take a.length) = xor a b := by
  rw [xor_comm, xor_take_left, xor_comm]

end TinkVerif.Bytes

namespace TinkVerif.GoSem
open TinkVerif

/-- `XORBytes(b[lo:], x, y)` where `b = A ++ Z`, `lo = |A|` and the operands fit into `Z` -/
theorem xorInto_tail (A Z x y : Bytes) (lo : Int) (hlo : lo = (A.length : Int))
    (h : min x.length y.length ≤ Z.length) :
    xorInto (A ++ Z) lo (len (A ++ Z)) x y = A ++ Bytes.xor x y ++ Z.drop (min x.length y.length) := by
  subst hlo
  have hc : (0 : Int) ≤ (A.length : Int) ∧ (A.length : Int) + Int.ofNat (min x.length y.length) ≤ len (A ++ Z)
      ∧ len (A ++ Z) ≤ len (A ++ Z) := by
    simp only [len_eq, List.length_append, Int.ofNat_eq_natCast]; omega
  rw [xorInto, if_pos hc, Int.toNat_natCast, List.take_left, ← List.drop_drop, List.drop_left]

/-- Go's builtin `min` on two lengths -/
theorem min_natCast (a b : Nat) : min (a : Int) (b : Int) = ((min a b : Nat) : Int) := by
  omega

/-- `b[n:]` of `b` as a drop -/
theorem slice_suffix_int (b : Bytes) (lo : Int) (n : Nat) (hlo : lo = (n : Int)) (h : n ≤ b.length) :
    slice b lo (len b) = b.drop n := by
  subst hlo; exact slice_suffix b n h

/-- `copy(b[lo:hi], src)` where `b = A ++ W ++ Z`, the window is `W` and `src` has its length -/
theorem copyInto_mid (A W Z src : Bytes) (lo hi : Int) (hlo : lo = (A.length : Int))
    (hhi : hi = ((A.length + W.length : Nat) : Int)) (hs : src.length = W.length) :
    copyInto (A ++ W ++ Z) lo hi src = A ++ src ++ Z := by
  subst hlo hhi
  have h := copyInto_window (A ++ W ++ Z) src A.length (A.length + W.length) (by omega)
    (by simp only [List.length_append]; omega)
  rw [h, List.append_assoc A W Z, List.take_left, ← List.drop_drop, List.drop_left, List.drop_left' rfl]

/-- `copy(b[lo:hi], src)` where `b = A ++ Z`, `lo = |A|`, the window has the length of `src` -/
theorem copyInto_next (A Z src : Bytes) (lo hi : Int) (n : Nat) (hA : A.length = n) (hlo : lo = (n : Int))
    (hhi : hi = ((n + src.length : Nat) : Int)) (hZ : src.length ≤ Z.length) :
    copyInto (A ++ Z) lo hi src = (A ++ src) ++ Z.drop src.length := by
  subst hlo hhi
  rw [copyInto_window (A ++ Z) src n (n + src.length) rfl (by rw [List.length_append]; omega),
    List.take_left' hA, ← List.drop_drop, List.drop_left' hA]

/-- `binary.LittleEndian.PutUint32(b[:4], c)` on a buffer whose first four bytes are `X` -/
theorem putLE4_head (X Y : Bytes) (c : Nat) (hX : X.length = 4) :
    putLE 4 (X ++ Y) 0 4 c = Bytes.ofNatLE 4 c ++ Y := by
  have := putLE_append 4 [] (X ++ Y) 0 4 c (by simp) (by simp) (by simp; omega)
  simp only [List.nil_append] at this
  rw [this, List.drop_left' hX]

@[simp] theorem length_makeBytes_natCast (n : Nat) : (makeBytes (n : Int)).length = n := by
  simp [makeBytes]

/-- `x := buf[:n]` of a fresh array: its length -/
theorem length_slice_prefix (b : Bytes) (hi : Int) (n : Nat) (hhi : hi = (n : Int)) (h : n ≤ b.length) :
    (slice b 0 hi).length = n := by
  subst hhi
  rw [slice_prefix b n h, List.length_take]; omega

/-- a callee writes `src` through the window `buf[:n]`; reading the window back gives `src` -/
theorem slice_copyInto_prefix (b src : Bytes) (hi : Int) (n : Nat) (hhi : hi = (n : Int)) (hs : src.length = n)
    (hb : n ≤ b.length) : slice (copyInto b 0 hi src) 0 hi = src := by
  subst hhi
  rw [copyInto_head b src n hs hb, slice_prefix _ n (by rw [List.length_append]; omega), List.take_left' hs]

/-- `ct[12 : len(ct)-16]` in the form the models use -/
theorem take_drop_comm (l : Bytes) (m n : Nat) : (l.take n).drop m = (l.drop m).take (n - m) := by
  rw [List.drop_take]

theorem ctCompare_ne_one (a b : Bytes) : (ctCompare a b ≠ 1) ↔ a ≠ b := by
  unfold ctCompare
  by_cases h : a = b <;> simp [h]

end TinkVerif.GoSem
