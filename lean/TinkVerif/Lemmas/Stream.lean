import TinkVerif.Model.Stream

/-! Helper lemmas for the streaming state machines (C07). Core Lean only. -/
namespace TinkVerif.Stream
open TinkVerif

theorem split_short (first rest : Nat) (b : Bytes) (h : b.length ≤ first) :
    split first rest b = [b] := by
  rw [split]; simp [h]

theorem split_long (first rest : Nat) (b : Bytes) (h : first < b.length) (h0 : first ≠ 0) :
    split first rest b = b.take first :: split rest rest (b.drop first) := by
  rw [split]
  have : ¬ (b.length ≤ first ∨ first = 0) := by omega
  simp [this]

theorem split_ne_nil (first rest : Nat) (b : Bytes) : split first rest b ≠ [] := by
  rw [split]; split <;> simp

theorem encSegs_cons_of_ne_nil (C : Cipher) (i : Nat) (s : Bytes) (t : List Bytes) (ht : t ≠ []) :
    encSegs C i (s :: t) = C.enc i false s :: encSegs C (i + 1) t := by
  cases t with
  | nil => exact absurd rfl ht
  | cons a as => simp [encSegs]

/-- concatenation of a segmentation gives back the plaintext -/
theorem flatten_split (first rest : Nat) (b : Bytes) : (split first rest b).flatten = b := by
  induction h : b.length using Nat.strongRecOn generalizing first b with
  | _ n ih =>
    by_cases hs : b.length ≤ first ∨ first = 0
    · rw [split]; simp [hs]
    · have h1 : first < b.length := by omega
      have h0 : first ≠ 0 := by omega
      rw [split_long _ _ _ h1 h0]
      simp only [List.flatten_cons]
      have hlen : (b.drop first).length < n := by simp only [List.length_drop]; omega
      rw [ih _ hlen rest (b.drop first) rfl]
      exact List.take_append_drop first b

/-- what closing would eventually deliver to the sink if `q` were still written first -/
def final (P : Params) (C : Cipher) (s : WState) (q : Bytes) : List Bytes :=
  s.sink ++ encSegs C s.cnt (split (lim P s.cnt) P.ptSeg (s.buf ++ q))

/-- writer well-formedness: buffer within its limit, limits positive -/
structure WInv (P : Params) (s : WState) : Prop where
  bufLe : s.buf.length ≤ lim P s.cnt
  limPos : 0 < lim P s.cnt
  segPos : 0 < P.ptSeg

theorem lim_succ (P : Params) (n : Nat) : lim P (n + 1) = P.ptSeg := by simp [lim]

/-- Fault-free feeding: no error, every byte consumed, and the eventual sink content is the one
    the canonical segmentation of (buffer ++ everything still to come) prescribes. -/
theorem feed_ok (P : Params) (C : Cipher) (s : WState) (p : Bytes) (k : Nat)
    (inv : WInv P s) (hb : s.cnt + p.length ≤ 4294967294) :
    ∃ s', feed P C none s p k = (s', k + p.length, none) ∧ WInv P s' ∧ s'.closed = s.closed ∧
      s'.cnt + 0 ≤ s.cnt + p.length ∧
      ∀ q, final P C s' q = final P C s (p ++ q) := by
  induction p generalizing s k with
  | nil => exact ⟨s, by simp [feed], inv, rfl, by omega, fun q => by simp⟩
  | cons b rest ih =>
    simp only [List.length_cons] at hb
    by_cases hlt : s.buf.length < lim P s.cnt
    · -- room in the buffer
      have inv1 : WInv P { s with buf := s.buf ++ [b] } :=
        ⟨by simp only [List.length_append, List.length_cons, List.length_nil]; omega, inv.limPos, inv.segPos⟩
      obtain ⟨s', h1, h2, h3, h4, h5⟩ := ih { s with buf := s.buf ++ [b] } (k + 1) inv1 (by simp only; omega)
      refine ⟨s', ?_, h2, h3, by simp only [List.length_cons] at h4 ⊢; omega, ?_⟩
      · simp only [feed, hlt, ↓reduceIte, h1, List.length_cons]
        congr 2; omega
      · intro q
        rw [h5 q]
        simp [final, List.append_assoc]
    · -- buffer full: flush it as a non-final segment, then start the next one with `b`
      have hfull : s.buf.length = lim P s.cnt := by have := inv.bufLe; omega
      have hcnt : ¬ (s.cnt ≥ 4294967295) := by omega
      have hflush : flush C none s false =
          .ok { s with buf := [], cnt := s.cnt + 1, sink := s.sink ++ [C.enc s.cnt false s.buf],
                       sinkCalls := s.sinkCalls + 1 } := by
        simp [flush, hcnt, sinkFails]
      let s1 : WState := { buf := [b], cnt := s.cnt + 1, closed := s.closed,
                           sink := s.sink ++ [C.enc s.cnt false s.buf], sinkCalls := s.sinkCalls + 1 }
      have inv1 : WInv P s1 := ⟨by simp only [s1, lim_succ, List.length_cons, List.length_nil]; exact inv.segPos,
                                by simp only [s1, lim_succ]; exact inv.segPos, inv.segPos⟩
      obtain ⟨s', h1, h2, h3, h4, h5⟩ := ih s1 (k + 1) inv1 (by simp only [s1]; omega)
      refine ⟨s', ?_, h2, h3, by simp only [s1, List.length_cons] at h4 ⊢; omega, ?_⟩
      · simp only [feed, hlt, ↓reduceIte, hflush, List.length_cons]
        rw [show ({ buf := [b], cnt := s.cnt + 1, closed := s.closed,
                    sink := s.sink ++ [C.enc s.cnt false s.buf], sinkCalls := s.sinkCalls + 1 } : WState) = s1 from rfl, h1]
        congr 2; omega
      · intro q
        rw [h5 q]
        simp only [final, s1, lim_succ]
        have hlong : lim P s.cnt < (s.buf ++ (b :: rest ++ q)).length := by
          simp only [List.length_append, List.length_cons]; omega
        have h0 : lim P s.cnt ≠ 0 := by have := inv.limPos; omega
        rw [split_long _ _ _ hlong h0]
        have htake : (s.buf ++ (b :: rest ++ q)).take (lim P s.cnt) = s.buf := by
          rw [← hfull]; simp
        have hdrop : (s.buf ++ (b :: rest ++ q)).drop (lim P s.cnt) = b :: rest ++ q := by
          rw [← hfull]; simp
        rw [htake, hdrop, encSegs_cons_of_ne_nil _ _ _ _ (split_ne_nil _ _ _)]
        simp [List.append_assoc]

/-- closing a well-formed, fault-free writer emits the buffer as the final segment -/
theorem close_ok (P : Params) (C : Cipher) (s : WState) (inv : WInv P s) (hc : s.closed = false)
    (hb : s.cnt ≤ 4294967294) :
    (close C none s).2 = none ∧ (close C none s).1.sink = final P C s [] ∧
    (close C none s).1.closed = true := by
  have hcnt : ¬ (s.cnt ≥ 4294967295) := by omega
  simp only [close, hc, Bool.false_eq_true, ↓reduceIte, flush, hcnt, sinkFails, final, List.append_nil]
  rw [split_short _ _ _ inv.bufLe]
  simp [encSegs]

end TinkVerif.Stream

namespace TinkVerif.Stream
open TinkVerif

/-! ### Reader: the unread tail (look-ahead byte ++ source) -/

/-- unread ciphertext including the look-ahead byte -/
def tail (s : RState) : Bytes := carryBytes s.carry ++ s.src

/-- number of bytes the reader wants in its buffer before deciding "not the last segment" -/
def need (P : Params) (k : Nat) : Nat := lim P k + P.overhead + 1

/-- carry is present exactly after the first segment -/
def CarryOk (s : RState) : Prop := (s.cnt = 0 ↔ s.carry = none)

theorem want_eq (P : Params) (s : RState) (hc : CarryOk s) (hoff : P.off ≤ P.ptSeg) :
    P.ptSeg + P.overhead + 1 - (if s.cnt = 0 then P.off else 0) - (carryBytes s.carry).length
      + (carryBytes s.carry).length = need P s.cnt := by
  unfold need lim CarryOk at *
  cases hcar : s.carry with
  | none => have := hc.mpr hcar; simp [carryBytes, this]; omega
  | some b =>
    have : s.cnt ≠ 0 := fun h => by have := hc.mp h; simp [hcar] at this
    simp [carryBytes, this]

/-- The buffer the reader assembles is the first `need` bytes of the tail. -/
theorem all_eq_take (P : Params) (s : RState) (hc : CarryOk s) (hoff : P.off ≤ P.ptSeg) :
    carryBytes s.carry ++ s.src.take (P.ptSeg + P.overhead + 1 - (if s.cnt = 0 then P.off else 0)
        - (carryBytes s.carry).length) = (tail s).take (need P s.cnt) := by
  have hw := want_eq P s hc hoff
  unfold tail
  rw [List.take_append]
  have hle : (carryBytes s.carry).length ≤ need P s.cnt := by omega
  rw [List.take_of_length_le hle]
  congr 2
  omega

theorem tail_drop (P : Params) (s : RState) (hc : CarryOk s) (hoff : P.off ≤ P.ptSeg) :
    s.src.drop (P.ptSeg + P.overhead + 1 - (if s.cnt = 0 then P.off else 0)
        - (carryBytes s.carry).length) = (tail s).drop (need P s.cnt) := by
  have hw := want_eq P s hc hoff
  unfold tail
  rw [List.drop_append]
  have hle : (carryBytes s.carry).length ≤ need P s.cnt := by omega
  rw [List.drop_of_length_le hle]
  simp only [List.nil_append]
  congr 1
  omega

theorem chunk_full_iff (P : Params) (s : RState) (hc : CarryOk s) (hoff : P.off ≤ P.ptSeg) :
    ((s.src.take (P.ptSeg + P.overhead + 1 - (if s.cnt = 0 then P.off else 0)
        - (carryBytes s.carry).length)).length =
      P.ptSeg + P.overhead + 1 - (if s.cnt = 0 then P.off else 0) - (carryBytes s.carry).length)
    ↔ need P s.cnt ≤ (tail s).length := by
  have hw := want_eq P s hc hoff
  unfold tail
  simp only [List.length_take, List.length_append]
  omega

end TinkVerif.Stream

namespace TinkVerif.Stream
open TinkVerif

theorem take_add_one_eq (T : Bytes) (m : Nat) (h : m < T.length) :
    T.take (m + 1) = T.take m ++ [T[m]] := by
  rw [List.take_add_one, List.getElem?_eq_getElem h]; rfl

/-- the look-ahead byte followed by the unread source is the tail from one byte earlier -/
theorem carry_drop (T : Bytes) (m : Nat) (h : m < T.length) :
    carryBytes (T.take (m + 1)).getLast? ++ T.drop (m + 1) = T.drop m := by
  rw [take_add_one_eq T m h, List.getLast?_append]
  simp only [List.getLast?_singleton, Option.some_or, carryBytes, List.singleton_append]
  exact (List.drop_eq_getElem_cons h).symm

theorem take_succ_dropLast (T : Bytes) (m : Nat) (h : m < T.length) :
    (T.take (m + 1)).dropLast = T.take m := by
  rw [take_add_one_eq T m h, List.dropLast_concat]

theorem take_succ_getLast_isSome (T : Bytes) (m : Nat) (h : m < T.length) :
    (T.take (m + 1)).getLast?.isSome = true := by
  rw [take_add_one_eq T m h, List.getLast?_append]; simp

end TinkVerif.Stream
