import TinkVerif.Gen.MldsaAlgebra

/-! Scalar arithmetic of ML-DSA: lemmas about the **regenerated** definitions
    (TinkVerif/Gen/MldsaAlgebra.lean, emitted from internal/signature/mldsa/algebra.go on every run).
    Discipline: arithmetic facts are context-free `omega` lemmas over plain variables; the theorems
    about generated functions only `unfold` and `simp only` (see DESIGN.md §8, omega/defeq note).

    Names: the translator's output is alpha-normalised. `fn.v<k>` is the k-th auxiliary definition of
    `fn` in canonical data-flow order, independent of the Go local's name; the comment in front of
    each function in Gen/MldsaAlgebra.lean maps it back (at the time of writing: `reduceOnce.v1` = c;
    `mul.v1 … v8` = prod, lo, hi, hiLo, carry, quoHi, quoLo, quo). -/
namespace TinkVerif.Gen.Mldsa
open TinkVerif

theorem toUnsigned_ofNat (x : Nat) (h : x < 4294967296) : GoSem.toUnsigned 32 (Int.ofNat x) = x := by
  unfold GoSem.toUnsigned
  have : (Int.ofNat x % Int.ofNat (2 ^ 32)) = Int.ofNat x := Int.emod_eq_of_lt (by simp) (by simp; omega)
  rw [this]; rfl

theorem reduceOnce_spec (a : Nat) (h : a < 2147483648) :
    reduceOnce a = if a ≥ 8380417 then a - 8380417 else a := by
  unfold reduceOnce reduceOnce.v1
  by_cases hq : a ≥ 8380417
  · have hc : GoSem.ctLessOrEq (8380417 : Int) (Int.ofNat a) = 1 := by
      unfold GoSem.ctLessOrEq
      rw [if_pos (by simp; omega), if_pos (by simp; omega)]
    simp only [hc, GoSem.ctSelect, ↓reduceIte, hq]
    rw [toUnsigned_ofNat _ (by omega)]
    omega
  · have hc : GoSem.ctLessOrEq (8380417 : Int) (Int.ofNat a) = 0 := by
      unfold GoSem.ctLessOrEq
      rw [if_pos (by simp; omega), if_neg (by simp; omega)]
    simp only [hc, GoSem.ctSelect, hq, ↓reduceIte]
    simp only [show ((0 : Int) = 1) = False by simp, ↓reduceIte]
    exact toUnsigned_ofNat _ (by omega)

theorem words (hi lo : Nat) :
    (hi * 4294967296 + lo) / 18446744073709551616 = hi / 4294967296 + (lo / 4294967296 + hi % 4294967296) / 4294967296 ∧
    (hi * 4294967296 + lo) % 18446744073709551616 = (hi % 4294967296 * 4294967296 + lo) % 18446744073709551616 := by
  omega

theorem shift46 (T : Nat) (hT : T < 1180591620717411303424) :
    T / 70368744177664 = (T / 18446744073709551616 % 64) * 262144 + (T % 18446744073709551616) / 70368744177664 := by
  omega

theorem split32 (P : Nat) : (P / 4294967296) * 8396807 * 4294967296 + (P % 4294967296) * 8396807 = P * 8396807 := by
  omega

theorem barrett_range (P : Nat) (hP : P ≤ 70231372333056) :
    (P * 8396807) / 70368744177664 * 8380417 ≤ P ∧ P - (P * 8396807) / 70368744177664 * 8380417 < 16760834 ∧
    (P - (P * 8396807) / 70368744177664 * 8380417) % 8380417 = P % 8380417 := by
  omega

theorem and_mask32 (x : Nat) : x &&& 4294967295 = x % 4294967296 := Nat.and_two_pow_sub_one_eq_mod x 32
theorem and_mask6 (x : Nat) : x &&& 63 = x % 64 := Nat.and_two_pow_sub_one_eq_mod x 6
theorem or_eq_add18 (x B : Nat) (hB : B < 262144) : x <<< 18 ||| B = x * 262144 + B := by
  rw [← Nat.shiftLeft_add_eq_or_of_lt (by simpa using hB), Nat.shiftLeft_eq]

theorem shr32 (x : Nat) : x >>> 32 = x / 4294967296 := Nat.shiftRight_eq_div_pow x 32
theorem shr46 (x : Nat) : x >>> 46 = x / 70368744177664 := Nat.shiftRight_eq_div_pow x 46
theorem shl32 (x : Nat) : x <<< 32 = x * 4294967296 := Nat.shiftLeft_eq x 32
theorem shl18 (x : Nat) : x <<< 18 = x * 262144 := Nat.shiftLeft_eq x 18

theorem prod_bound (a b : Nat) (ha : a < 8380417) (hb : b < 8380417) : a * b ≤ 70231372333056 := by
  have : a * b ≤ 8380416 * 8380416 := Nat.mul_le_mul (by omega) (by omega)
  omega

theorem mul_prod (a b : Nat) (ha : a < 8380417) (hb : b < 8380417) : mul.v1 a b = a * b := by
  unfold mul.v1; have := prod_bound a b ha hb; omega

theorem mul_hi (a b : Nat) (ha : a < 8380417) (hb : b < 8380417) : mul.v3 a b = (a * b) / 4294967296 * 8396807 := by
  unfold mul.v3; rw [mul_prod a b ha hb, shr32]
  have := prod_bound a b ha hb
  generalize a * b = P at *
  omega

theorem mul_lo (a b : Nat) (ha : a < 8380417) (hb : b < 8380417) : mul.v2 a b = (a * b) % 4294967296 * 8396807 := by
  unfold mul.v2; rw [mul_prod a b ha hb, and_mask32]
  generalize a * b = P
  omega

theorem hib (P : Nat) (hP : P ≤ 70231372333056) :
    P / 4294967296 * 8396807 < 274877906944 ∧ P % 4294967296 * 8396807 < 72057594037927936 ∧
    P / 4294967296 * 8396807 * 4294967296 + P % 4294967296 * 8396807 < 1180591620717411303424 := by omega

theorem quo_words (hi lo : Nat) (hhib : hi < 274877906944) (hlob : lo < 72057594037927936)
    (hT : hi * 4294967296 + lo < 1180591620717411303424) :
    ((hi / 4294967296 + (lo / 4294967296 + hi % 4294967296) % 18446744073709551616 / 4294967296) % 18446744073709551616 % 64) * 262144 +
      (hi % 4294967296 * 4294967296 % 18446744073709551616 + lo) % 18446744073709551616 / 70368744177664
    = (hi * 4294967296 + lo) / 70368744177664 ∧
    (hi % 4294967296 * 4294967296 % 18446744073709551616 + lo) % 18446744073709551616 / 70368744177664 < 262144 ∧
    ((hi / 4294967296 + (lo / 4294967296 + hi % 4294967296) % 18446744073709551616 / 4294967296) % 18446744073709551616 % 64) * 262144 % 18446744073709551616
     = ((hi / 4294967296 + (lo / 4294967296 + hi % 4294967296) % 18446744073709551616 / 4294967296) % 18446744073709551616 % 64) * 262144 := by
  have hw := words hi lo
  have hs := shift46 (hi * 4294967296 + lo) hT
  omega

theorem or_eq_add18' (x B : Nat) (hB : B < 262144) : x * 262144 ||| B = x * 262144 + B := by
  rw [← shl18, or_eq_add18 _ _ hB, shl18]

theorem mul_quo (a b : Nat) (ha : a < 8380417) (hb : b < 8380417) :
    mul.v8 a b = (a * b * 8396807) / 70368744177664 := by
  have hP := prod_bound a b ha hb
  unfold mul.v8 mul.v6 mul.v7 mul.v5 mul.v4
  simp only [mul_hi a b ha hb, mul_lo a b ha hb, and_mask32, and_mask6, shr32, shr46, shl32, shl18]
  obtain ⟨hhib, hlob, hT⟩ := hib (a * b) hP
  obtain ⟨q1, q2, q3⟩ := quo_words _ _ hhib hlob hT
  simp only [q3, or_eq_add18' _ _ q2, q1, split32]

theorem final_reduce (P : Nat) (hP : P ≤ 70231372333056) :
    reduceOnce ((P + 18446744073709551616 - P * 8396807 / 70368744177664 * 8380417 % 18446744073709551616) % 18446744073709551616 % 4294967296)
      = P % 8380417 := by
  obtain ⟨r1, r2, r3⟩ := barrett_range P hP
  have e1 : (P + 18446744073709551616 - P * 8396807 / 70368744177664 * 8380417 % 18446744073709551616) % 18446744073709551616 % 4294967296
      = P - P * 8396807 / 70368744177664 * 8380417 := by omega
  have e2 := reduceOnce_spec (P - P * 8396807 / 70368744177664 * 8380417) (by omega)
  simp only [e1, e2]
  clear e1 e2
  by_cases h : P - P * 8396807 / 70368744177664 * 8380417 ≥ 8380417
  · simp only [h, ↓reduceIte]; omega
  · simp only [h, ↓reduceIte]; omega

/-- **Barrett multiplication is multiplication in Z_q**, for all field elements. -/
theorem mul_spec (a b : Nat) (ha : a < 8380417) (hb : b < 8380417) : mul a b = (a * b) % 8380417 := by
  unfold mul
  simp only [mul_prod a b ha hb, mul_quo a b ha hb]
  exact final_reduce (a * b) (prod_bound a b ha hb)

theorem shr49 (x : Nat) : x >>> 49 = x / 562949953421312 := Nat.shiftRight_eq_div_pow x 49
theorem shr9 (x : Nat) : x >>> 9 = x / 512 := Nat.shiftRight_eq_div_pow x 9
theorem shr33 (x : Nat) : x >>> 33 = x / 8589934592 := Nat.shiftRight_eq_div_pow x 33

theorem div88kr (k r : Nat) (hk : k ≤ 44) (hr : r < 190464) : ((190464 * k + r) * 2955676419) / 562949953421312 = k := by omega
theorem div88 (x : Nat) (h : x < 8476000) : (x * 2955676419) % 18446744073709551616 / 562949953421312 % 4294967296 = x / 190464 := by
  have h1 := div88kr (x / 190464) (x % 190464) (by omega) (by omega)
  have h2 : 190464 * (x / 190464) + x % 190464 = x := Nat.div_add_mod x 190464
  rw [h2] at h1
  have h3 : x * 2955676419 % 18446744073709551616 = x * 2955676419 := Nat.mod_eq_of_lt (by omega)
  rw [h3, h1]
  omega
theorem div32kr (k r : Nat) (hk : k ≤ 16) (hr : r < 523776) : (((523776 * k + r) / 512) * 8396809) / 8589934592 = k := by omega
theorem div32 (x : Nat) (h : x < 8650000) : ((x / 512) * 8396809) % 18446744073709551616 / 8589934592 % 4294967296 = x / 523776 := by
  have h1 := div32kr (x / 523776) (x % 523776) (by omega) (by omega)
  have h2 : 523776 * (x / 523776) + x % 523776 = x := Nat.div_add_mod x 523776
  rw [h2] at h1
  have h3 : (x / 512) * 8396809 % 18446744073709551616 = (x / 512) * 8396809 := Nat.mod_eq_of_lt (by omega)
  rw [h3, h1]
  omega

end TinkVerif.Gen.Mldsa
