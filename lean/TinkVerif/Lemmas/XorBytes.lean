import TinkVerif.Base.Bytes
/-!
  Generic lemmas on `Bytes.xor` (truncating `zipWith`), used by `Props/C08Deep.lean`.
  None of them needs a length hypothesis unless stated.
-/
namespace TinkVerif.Bytes

theorem xor_nil_left (b : Bytes) : xor [] b = [] := by simp [xor]
theorem xor_nil_right (a : Bytes) : xor a [] = [] := by simp [xor]

theorem xor_cons (x y : UInt8) (a b : Bytes) : xor (x :: a) (y :: b) = (x ^^^ y) :: xor a b := by
  simp [xor]

theorem take_xor (a b : Bytes) (n : Nat) : (xor a b).take n = xor (a.take n) (b.take n) := by
  simp [xor, List.take_zipWith]

theorem drop_xor (a b : Bytes) (n : Nat) : (xor a b).drop n = xor (a.drop n) (b.drop n) := by
  simp [xor, List.drop_zipWith]

/-- xor distributes over `++` on the left, for every length of the right operand -/
theorem xor_append_left (a b o : Bytes) :
    xor (a ++ b) o = xor a (o.take a.length) ++ xor b (o.drop a.length) := by
  induction a generalizing o with
  | nil => simp [xor]
  | cons x xs ih =>
    cases o with
    | nil => simp [xor]
    | cons y ys =>
      simp only [List.cons_append, xor_cons, List.length_cons, List.take_succ_cons,
        List.drop_succ_cons, ih ys]

theorem xor_append_right (o a b : Bytes) :
    xor o (a ++ b) = xor (o.take a.length) a ++ xor (o.drop a.length) b := by
  rw [xor_comm, xor_append_left, xor_comm a, xor_comm b]

/-- xor-ing two masks commutes (all three operands of arbitrary length) -/
theorem xor_right_comm (a b c : Bytes) : xor (xor a b) c = xor (xor a c) b := by
  induction a generalizing b c with
  | nil => simp [xor]
  | cons x xs ih =>
    cases b with
    | nil => simp [xor]
    | cons y ys =>
      cases c with
      | nil => simp [xor]
      | cons z zs =>
        simp only [xor_cons, ih ys zs]
        congr 1
        rw [UInt8.xor_assoc, UInt8.xor_comm y z, ← UInt8.xor_assoc]

theorem xor_zeros_right (a : Bytes) (n : Nat) (h : a.length ≤ n) : xor a (zeros n) = a := by
  induction a generalizing n with
  | nil => simp [xor]
  | cons x xs ih =>
    cases n with
    | zero => simp at h
    | succ n =>
      simp only [List.length_cons, Nat.add_le_add_iff_right] at h
      have := ih n h
      simp only [zeros, List.replicate_succ] at this ⊢
      rw [xor_cons, this]
      simp

theorem xor_singleton (x y : UInt8) : xor [x] [y] = [x ^^^ y] := by simp [xor]

end TinkVerif.Bytes
