/-
  A small theory of the carry-less product `PolyvalSpec.clmul` on `Nat` (GF(2)[x], bit `i` =
  coefficient of `x^i`): bilinearity over xor, shifts, bounds, stability in the bit-count argument,
  and the unbounded product `pmul a b = clmul a b b` with commutativity / associativity.
  Core Lean only.
-/
import TinkVerif.Prim.Polyval

namespace TinkVerif.Clmul
open TinkVerif.Prim.PolyvalSpec

/-! ### xor helpers -/

theorem xor_cancel_left (a x y : Nat) : (a ^^^ x) ^^^ (a ^^^ y) = x ^^^ y := by
  have : (a ^^^ x) ^^^ (a ^^^ y) = (a ^^^ a) ^^^ (x ^^^ y) := by ac_rfl
  rw [this, Nat.xor_self, Nat.zero_xor]

theorem xor_xor_self_left (a x : Nat) : a ^^^ (a ^^^ x) = x := by
  rw [← Nat.xor_assoc, Nat.xor_self, Nat.zero_xor]

theorem xor_left_comm (a b c : Nat) : a ^^^ (b ^^^ c) = b ^^^ (a ^^^ c) := by
  rw [← Nat.xor_assoc, Nat.xor_comm a b, Nat.xor_assoc]

/-- normalise both sides of an equation between xor-sums (AC + cancellation of equal terms) -/
macro "xor_cancel" : tactic =>
  `(tactic| (set_option linter.unusedSimpArgs false in
      simp only [Nat.xor_assoc, Nat.xor_comm, xor_left_comm, Nat.xor_self, Nat.xor_zero, Nat.zero_xor,
        xor_xor_self_left]))

/-- or of bitwise-disjoint numbers is their xor -/
theorem or_eq_xor_of_and_eq_zero {x y : Nat} (h : x &&& y = 0) : x ||| y = x ^^^ y := by
  apply Nat.eq_of_testBit_eq
  intro i
  have hi : (x &&& y).testBit i = false := by rw [h]; exact Nat.zero_testBit i
  rw [Nat.testBit_and] at hi
  rw [Nat.testBit_or, Nat.testBit_xor]
  cases hx : x.testBit i <;> cases hy : y.testBit i <;> simp_all

/-- sum of bitwise-disjoint numbers is their xor -/
theorem add_eq_xor_of_lt {lo : Nat} (hi : Nat) {k : Nat} (h : lo < 2 ^ k) :
    lo + hi * 2 ^ k = lo ^^^ (hi <<< k) := by
  rw [Nat.shiftLeft_eq, Nat.add_comm, Nat.mul_comm]
  apply Nat.eq_of_testBit_eq
  intro i
  rw [Nat.testBit_xor, Nat.testBit_two_pow_mul_add _ h, Nat.testBit_two_pow_mul]
  by_cases hik : i < k
  · have : ¬ i ≥ k := by omega
    simp [hik, this]
  · have h1 : i ≥ k := by omega
    have h2 : lo.testBit i = false := Nat.testBit_lt_two_pow (Nat.lt_of_lt_of_le h (Nat.pow_le_pow_right (by decide) h1))
    simp [hik, h1, h2]

/-! ### the bounded product -/

theorem clmul_succ (a b n : Nat) :
    clmul a b (n+1) = (if b.testBit n then a <<< n else 0) ^^^ clmul a b n := rfl

@[simp] theorem clmul_zero_count (a b : Nat) : clmul a b 0 = 0 := rfl

theorem clmul_xor_left (a a' b n : Nat) :
    clmul (a ^^^ a') b n = clmul a b n ^^^ clmul a' b n := by
  induction n with
  | zero => simp
  | succ n ih =>
    simp only [clmul_succ, ih]
    by_cases h : b.testBit n
    · simp only [h, if_true, Nat.shiftLeft_xor_distrib]; ac_rfl
    · simp only [h, Bool.false_eq_true, if_false, Nat.zero_xor]

theorem clmul_xor_right (a b b' n : Nat) :
    clmul a (b ^^^ b') n = clmul a b n ^^^ clmul a b' n := by
  induction n with
  | zero => simp
  | succ n ih =>
    simp only [clmul_succ, ih, Nat.testBit_xor]
    cases b.testBit n <;> cases b'.testBit n
    · simp
    · simp only [Bool.false_bne, if_true, Bool.false_eq_true, if_false, Nat.zero_xor]; ac_rfl
    · simp only [Bool.bne_false, if_true, Bool.false_eq_true, if_false, Nat.zero_xor]; ac_rfl
    · simp only [bne_self_eq_false, Bool.false_eq_true, if_false, if_true, Nat.zero_xor,
        xor_cancel_left]

theorem clmul_zero_left (b n : Nat) : clmul 0 b n = 0 := by
  induction n with
  | zero => rfl
  | succ n ih => simp [clmul_succ, ih]

theorem clmul_congr (a : Nat) {b b' n : Nat} (h : ∀ i, i < n → b.testBit i = b'.testBit i) :
    clmul a b n = clmul a b' n := by
  induction n with
  | zero => rfl
  | succ n ih =>
    rw [clmul_succ, clmul_succ, h n (Nat.lt_succ_self n), ih (fun i hi => h i (Nat.lt_succ_of_lt hi))]

theorem clmul_eq_zero_of_low {a b n : Nat} (h : ∀ i, i < n → b.testBit i = false) :
    clmul a b n = 0 := by
  induction n with
  | zero => rfl
  | succ n ih =>
    rw [clmul_succ, h n (Nat.lt_succ_self n), ih (fun i hi => h i (Nat.lt_succ_of_lt hi))]
    simp

theorem clmul_zero_right (a n : Nat) : clmul a 0 n = 0 :=
  clmul_eq_zero_of_low (fun i _ => Nat.zero_testBit i)

theorem clmul_mod (a b n : Nat) : clmul a (b % 2 ^ n) n = clmul a b n :=
  clmul_congr a (fun i hi => by rw [Nat.testBit_mod_two_pow]; simp [hi])

/-- bits of `b` at or above `n` being clear, a larger bit count changes nothing -/
theorem clmul_stable (a : Nat) {b n : Nat} (hb : b < 2 ^ n) (m : Nat) :
    clmul a b (n + m) = clmul a b n := by
  induction m with
  | zero => rfl
  | succ m ih =>
    have : b.testBit (n + m) = false :=
      Nat.testBit_lt_two_pow (Nat.lt_of_lt_of_le hb (Nat.pow_le_pow_right (by decide) (Nat.le_add_right n m)))
    rw [← Nat.add_assoc, clmul_succ, this, ih]
    simp

theorem clmul_stable' (a : Nat) {b n m : Nat} (hb : b < 2 ^ n) (hnm : n ≤ m) :
    clmul a b m = clmul a b n := by
  obtain ⟨k, rfl⟩ := Nat.exists_eq_add_of_le hnm
  exact clmul_stable a hb k

theorem clmul_shiftLeft_left (a b k n : Nat) :
    clmul (a <<< k) b n = clmul a b n <<< k := by
  induction n with
  | zero => simp
  | succ n ih =>
    simp only [clmul_succ, ih, Nat.shiftLeft_xor_distrib]
    by_cases h : b.testBit n
    · simp only [h, if_true, ← Nat.shiftLeft_add, Nat.add_comm]
    · simp only [h, Bool.false_eq_true, if_false, Nat.zero_shiftLeft]

theorem clmul_shiftLeft_right (a b k n : Nat) :
    clmul a (b <<< k) (n + k) = clmul a b n <<< k := by
  induction n with
  | zero =>
    rw [Nat.zero_add, clmul_zero_count, Nat.zero_shiftLeft]
    apply clmul_eq_zero_of_low
    intro i hi
    rw [Nat.testBit_shiftLeft]
    have : ¬ i ≥ k := by omega
    simp [this]
  | succ n ih =>
    have e : n + 1 + k = (n + k) + 1 := by omega
    rw [e, clmul_succ, ih, clmul_succ, Nat.shiftLeft_xor_distrib, Nat.testBit_shiftLeft]
    have h1 : n + k ≥ k := by omega
    have h2 : n + k - k = n := by omega
    simp only [h1, h2, decide_true, Bool.true_and]
    by_cases h : b.testBit n
    · simp only [h, if_true, ← Nat.shiftLeft_add]
    · simp only [h, Bool.false_eq_true, if_false, Nat.zero_shiftLeft]

theorem clmul_lt {a m : Nat} (ha : a < 2 ^ m) (b n : Nat) : clmul a b n < 2 ^ (m + n) := by
  induction n with
  | zero => exact Nat.lt_of_le_of_lt (Nat.zero_le _) (Nat.pow_pos (by decide))
  | succ n ih =>
    rw [clmul_succ]
    apply Nat.xor_lt_two_pow
    · by_cases h : b.testBit n
      · simp only [h, if_true, Nat.shiftLeft_eq]
        calc a * 2 ^ n < 2 ^ m * 2 ^ n := Nat.mul_lt_mul_of_pos_right ha (Nat.pow_pos (by decide))
          _ = 2 ^ (m + n) := (Nat.pow_add 2 m n).symm
          _ ≤ 2 ^ (m + (n + 1)) := Nat.pow_le_pow_right (by decide) (by omega)
      · simp only [h, Bool.false_eq_true, if_false]; exact Nat.pow_pos (by decide)
    · exact Nat.lt_of_lt_of_le ih (Nat.pow_le_pow_right (by decide) (by omega))

/-- tight degree bound: `deg (a·b) ≤ deg a + deg b` -/
theorem clmul_lt_tight {a m : Nat} (ha : a < 2 ^ m) (b n : Nat) :
    clmul a b (n + 1) < 2 ^ (m + n) := by
  rw [clmul_succ]
  apply Nat.xor_lt_two_pow
  · by_cases h : b.testBit n
    · simp only [h, if_true, Nat.shiftLeft_eq]
      calc a * 2 ^ n < 2 ^ m * 2 ^ n := Nat.mul_lt_mul_of_pos_right ha (Nat.pow_pos (by decide))
        _ = 2 ^ (m + n) := (Nat.pow_add 2 m n).symm
    · simp only [h, Bool.false_eq_true, if_false]; exact Nat.pow_pos (by decide)
  · exact clmul_lt ha b n

/-! ### the unbounded product -/

/-- carry-less product of `a` and `b` (all bits of `b`; `b < 2^b`). -/
def pmul (a b : Nat) : Nat := clmul a b b

theorem clmul_eq_pmul (a : Nat) {b n : Nat} (hb : b < 2 ^ n) : clmul a b n = pmul a b := by
  unfold pmul
  by_cases h : n ≤ b
  · exact (clmul_stable' a hb h).symm
  · exact clmul_stable' a Nat.lt_two_pow_self (by omega)

theorem pmul_xor_left (a a' b : Nat) : pmul (a ^^^ a') b = pmul a b ^^^ pmul a' b :=
  clmul_xor_left a a' b b

theorem lt_two_pow_max_left (b b' : Nat) : b < 2 ^ (max b b') :=
  Nat.lt_of_lt_of_le Nat.lt_two_pow_self (Nat.pow_le_pow_right (by decide) (Nat.le_max_left b b'))

theorem lt_two_pow_max_right (b b' : Nat) : b' < 2 ^ (max b b') :=
  Nat.lt_of_lt_of_le Nat.lt_two_pow_self (Nat.pow_le_pow_right (by decide) (Nat.le_max_right b b'))

theorem pmul_xor_right (a b b' : Nat) : pmul a (b ^^^ b') = pmul a b ^^^ pmul a b' := by
  have h1 := lt_two_pow_max_left b b'
  have h2 := lt_two_pow_max_right b b'
  rw [← clmul_eq_pmul a (Nat.xor_lt_two_pow h1 h2), ← clmul_eq_pmul a h1, ← clmul_eq_pmul a h2,
    clmul_xor_right]

theorem pmul_zero_right (a : Nat) : pmul a 0 = 0 := rfl
theorem pmul_zero_left (b : Nat) : pmul 0 b = 0 := clmul_zero_left b b

theorem pmul_one_right (a : Nat) : pmul a 1 = a := by
  show clmul a 1 1 = a
  simp [clmul_succ]

theorem pmul_shiftLeft_left (a b k : Nat) : pmul (a <<< k) b = pmul a b <<< k :=
  clmul_shiftLeft_left a b k b

theorem pmul_shiftLeft_right (a b k : Nat) : pmul a (b <<< k) = pmul a b <<< k := by
  have hb : b <<< k < 2 ^ (b + k) := by
    rw [Nat.shiftLeft_eq, Nat.pow_add]
    exact Nat.mul_lt_mul_of_pos_right Nat.lt_two_pow_self (Nat.pow_pos (by decide))
  rw [← clmul_eq_pmul a hb, clmul_shiftLeft_right]
  rfl

theorem pmul_two_pow (a k : Nat) : pmul a (2 ^ k) = a <<< k := by
  have : 2 ^ k = 1 <<< k := by rw [Nat.shiftLeft_eq, Nat.one_mul]
  rw [this, pmul_shiftLeft_right, pmul_one_right]

/-- binary decomposition `b = (b / 2) · x + (b mod 2)` in GF(2)[x] -/
theorem eq_shift_xor_bit (b : Nat) : b = ((b / 2) <<< 1) ^^^ (b % 2) := by
  have h : b % 2 < 2 ^ 1 := Nat.mod_lt _ (by decide)
  rw [Nat.xor_comm, ← add_eq_xor_of_lt (b / 2) h]
  omega

theorem pmul_bit_right (a : Nat) {c : Nat} (hc : c < 2) : pmul a c = if c = 1 then a else 0 := by
  have : c = 0 ∨ c = 1 := by omega
  rcases this with rfl | rfl
  · rfl
  · simp [pmul_one_right]

theorem pmul_bit_left (a : Nat) {c : Nat} (hc : c < 2) : pmul c a = if c = 1 then a else 0 := by
  have : c = 0 ∨ c = 1 := by omega
  rcases this with rfl | rfl
  · simp [pmul_zero_left]
  · simp only [if_true]
    -- pmul 1 a = a, by binary induction on a
    induction a using Nat.strongRecOn with
    | _ a ih =>
      by_cases ha : a = 0
      · subst ha; rfl
      · have hlt : a / 2 < a := by omega
        have hb : a % 2 < 2 := Nat.mod_lt _ (by decide)
        conv => lhs; rw [eq_shift_xor_bit a]
        rw [pmul_xor_right, pmul_shiftLeft_right, ih _ hlt, pmul_bit_right 1 hb]
        have : (if a % 2 = 1 then 1 else 0) = a % 2 := by
          by_cases h : a % 2 = 1
          · simp [h]
          · have : a % 2 = 0 := by omega
            simp [this]
        rw [this]
        exact (eq_shift_xor_bit a).symm

theorem pmul_one_left (a : Nat) : pmul 1 a = a := by
  rw [pmul_bit_left a (by decide : 1 < 2)]; simp

theorem pmul_comm (a b : Nat) : pmul a b = pmul b a := by
  induction b using Nat.strongRecOn with
  | _ b ih =>
    by_cases hb0 : b = 0
    · subst hb0; rw [pmul_zero_left]; rfl
    · have hlt : b / 2 < b := by omega
      have hb : b % 2 < 2 := Nat.mod_lt _ (by decide)
      conv => lhs; rw [eq_shift_xor_bit b]
      conv => rhs; rw [eq_shift_xor_bit b]
      rw [pmul_xor_right, pmul_xor_left, pmul_shiftLeft_right, pmul_shiftLeft_left, ih _ hlt,
        pmul_bit_right a hb, pmul_bit_left a hb]

theorem pmul_assoc (a b c : Nat) : pmul (pmul a b) c = pmul a (pmul b c) := by
  induction c using Nat.strongRecOn with
  | _ c ih =>
    by_cases hc0 : c = 0
    · subst hc0; rfl
    · have hlt : c / 2 < c := by omega
      have hc : c % 2 < 2 := Nat.mod_lt _ (by decide)
      conv => lhs; rw [eq_shift_xor_bit c]
      conv => rhs; rw [eq_shift_xor_bit c]
      rw [pmul_xor_right, pmul_xor_right, pmul_xor_right, pmul_shiftLeft_right, pmul_shiftLeft_right,
        pmul_shiftLeft_right, ih _ hlt, pmul_bit_right _ hc, pmul_bit_right _ hc]
      by_cases h1 : c % 2 = 1
      · simp only [h1, if_true]
      · simp only [h1, if_false]; rfl

theorem pmul_lt {a b m n : Nat} (ha : a < 2 ^ m) (hb : b < 2 ^ n) : pmul a b < 2 ^ (m + n) := by
  rw [← clmul_eq_pmul a hb]; exact clmul_lt ha b n

/-- `clmul` is symmetric on inputs that fit the bit counts -/
theorem clmul_comm {a b m n : Nat} (ha : a < 2 ^ m) (hb : b < 2 ^ n) : clmul a b n = clmul b a m := by
  rw [clmul_eq_pmul a hb, clmul_eq_pmul b ha, pmul_comm]

end TinkVerif.Clmul
