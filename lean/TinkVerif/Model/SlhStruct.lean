import TinkVerif.Model.Slh
/-
  SLH-DSA (FIPS 205) over an ABSTRACT tweakable hash family.

  The definitions below follow FIPS 205 Algorithms 5–20 (and the executable reference
  `TinkVerif/Prim/Slhdsa.lean`, which the driver compares with tink-go) line by line, but
    * the address ADRS is a record of its six fields instead of 32 bytes (§4.2):
      layer, tree, type and the three type-dependent words;
    * the hash functions PRF, F, H, T_l, H_msg, PRF_msg are PARAMETERS (`TH`): nothing is assumed
      about them, so every theorem of `Props/C16Struct.lean` holds for every instantiation
      (SHA2, SHAKE, or a toy function);
    * signatures are lists of byte strings instead of one concatenated byte string (the n-byte
      pieces that the standard cuts out again with `SIG[i·n : (i+1)·n]`).
  `Kat/SlhStruct.lean` instantiates the record with the real hashes and compares every function here
  with its `Prim/Slhdsa.lean` counterpart.
-/
namespace TinkVerif.SlhStruct
open TinkVerif TinkVerif.Slh

/-! ## §4.2–4.3 addresses -/

/-- ADRS: layer address, tree address, type, and the three words whose meaning depends on the type
    (`w1` key pair address; `w2` chain address / tree height; `w3` hash address / tree index). -/
structure Adrs where
  layer : Nat := 0
  tree : Nat := 0
  typ : Nat := 0
  w1 : Nat := 0
  w2 : Nat := 0
  w3 : Nat := 0
  deriving DecidableEq, Repr, Inhabited

def WOTS_HASH : Nat := 0
def WOTS_PK : Nat := 1
def TREE : Nat := 2
def FORS_TREE : Nat := 3
def FORS_ROOTS : Nat := 4
def WOTS_PRF : Nat := 5
def FORS_PRF : Nat := 6

namespace Adrs
/-- `toByte(0, 32)` -/
def zero : Adrs := {}
def setLayerAddress (a : Adrs) (l : Nat) : Adrs := { a with layer := l }
def setTreeAddress (a : Adrs) (t : Nat) : Adrs := { a with tree := t }
/-- `setTypeAndClear(Y)`: type ← Y, the three following words ← 0 -/
def setTypeAndClear (a : Adrs) (y : Nat) : Adrs := { a with typ := y, w1 := 0, w2 := 0, w3 := 0 }
def setKeyPairAddress (a : Adrs) (i : Nat) : Adrs := { a with w1 := i }
def setChainAddress (a : Adrs) (i : Nat) : Adrs := { a with w2 := i }
def setTreeHeight (a : Adrs) (i : Nat) : Adrs := { a with w2 := i }
def setHashAddress (a : Adrs) (i : Nat) : Adrs := { a with w3 := i }
def setTreeIndex (a : Adrs) (i : Nat) : Adrs := { a with w3 := i }
def getKeyPairAddress (a : Adrs) : Nat := a.w1
def getTreeIndex (a : Adrs) : Nat := a.w3
end Adrs

/-- The tweakable hash functions of §11 for one `PK.seed` (which is a fixed implicit argument of
    every call inside one key generation / signature / verification), all abstract. -/
structure TH where
  /-- `PRF(PK.seed, SK.seed, ADRS)` -/
  PRF : Adrs → (skSeed : Bytes) → Bytes
  /-- `F(PK.seed, ADRS, M₁)` -/
  F : Adrs → Bytes → Bytes
  /-- `H(PK.seed, ADRS, M₂)` -/
  H : Adrs → Bytes → Bytes
  /-- `T_l(PK.seed, ADRS, M_l)` -/
  T : Adrs → Bytes → Bytes

/-- WOTS⁺ parameters: `w = 2^lgw`, `len = len1 + len2` -/
structure WP where
  lgw : Nat
  len1 : Nat
  len2 : Nat
  deriving Repr

def WP.w (p : WP) : Nat := 2 ^ p.lgw
def WP.len (p : WP) : Nat := p.len1 + p.len2

/-! ## §5 WOTS⁺ -/

/-- Algorithm 5 `chain(X, i, s, PK.seed, ADRS)`:
    `tmp ← X; for j from i to i+s−1: ADRS.setHashAddress(j); tmp ← F(PK.seed, ADRS, tmp)` -/
def chain (F : Adrs → Bytes → Bytes) (x : Bytes) (i : Nat) : (s : Nat) → Adrs → Bytes
  | 0, _ => x
  | s + 1, adrs =>
    let adrs := adrs.setHashAddress i
    chain F (F adrs x) (i + 1) s adrs

/-- Algorithm 7 lines 2–4: `csum ← Σ (w − 1 − msg[i])` -/
def csum (w : Nat) (msg : List Nat) : Nat := msg.foldl (fun acc d => acc + (w - 1 - d)) 0

/-- Algorithm 7 lines 5–6: `csum ← csum ≪ ((8 − ((len2·lg_w) mod 8)) mod 8)`;
    `base_2^b(toByte(csum, ⌈len2·lg_w/8⌉), lg_w, len2)` -/
def checksumDigits (p : WP) (msg : List Nat) : List Nat :=
  let c := csum p.w msg
  let c := c <<< ((8 - ((p.len2 * p.lgw) % 8)) % 8)
  base2b (toByte c ((p.len2 * p.lgw + 7) / 8)) p.lgw p.len2

/-- all `len` digits signed for the message `m` (Algorithm 7 lines 1–7 = Algorithm 8 lines 1–7) -/
def wotsDigits (p : WP) (m : Bytes) : List Nat :=
  let msg := base2b m p.lgw p.len1
  msg ++ checksumDigits p msg

/-- the secret value of chain `i` (Algorithm 6 lines 1–6 / Algorithm 7 lines 8–12) -/
def wotsSk (th : TH) (skSeed : Bytes) (adrs : Adrs) (i : Nat) : Bytes :=
  let skAdrs := adrs.setTypeAndClear WOTS_PRF
  let skAdrs := skAdrs.setKeyPairAddress adrs.getKeyPairAddress
  th.PRF (skAdrs.setChainAddress i) skSeed

/-- the address of the compressed public key (Algorithm 6 lines 10–12) -/
def wotsPkAdrs (adrs : Adrs) : Adrs :=
  (adrs.setTypeAndClear WOTS_PK).setKeyPairAddress adrs.getKeyPairAddress

/-- Algorithm 6 `wots_pkGen(SK.seed, PK.seed, ADRS)` -/
def wotsPkGen (th : TH) (p : WP) (skSeed : Bytes) (adrs : Adrs) : Bytes :=
  let tmp := (List.range p.len).map fun i =>
    chain th.F (wotsSk th skSeed adrs i) 0 (p.w - 1) (adrs.setChainAddress i)
  th.T (wotsPkAdrs adrs) tmp.flatten

/-- Algorithm 7 lines 8–16 for given digits: `sig[i] ← chain(sk_i, 0, msg[i], PK.seed, ADRS)` -/
def wotsSignDigits (th : TH) (p : WP) (digits : List Nat) (skSeed : Bytes) (adrs : Adrs) : List Bytes :=
  (List.range p.len).map fun i =>
    chain th.F (wotsSk th skSeed adrs i) 0 (digits.getD i 0) (adrs.setChainAddress i)

/-- Algorithm 8 lines 8–15 for given digits:
    `tmp[i] ← chain(sig[i], msg[i], w − 1 − msg[i], PK.seed, ADRS)`; compress with `T_len` -/
def wotsPkFromSigDigits (th : TH) (p : WP) (sig : List Bytes) (digits : List Nat) (adrs : Adrs) : Bytes :=
  let tmp := (List.range p.len).map fun i =>
    let d := digits.getD i 0
    chain th.F (sig.getD i []) d (p.w - 1 - d) (adrs.setChainAddress i)
  th.T (wotsPkAdrs adrs) tmp.flatten

/-- Algorithm 7 `wots_sign(M, SK.seed, PK.seed, ADRS)` -/
def wotsSign (th : TH) (p : WP) (m skSeed : Bytes) (adrs : Adrs) : List Bytes :=
  wotsSignDigits th p (wotsDigits p m) skSeed adrs

/-- Algorithm 8 `wots_pkFromSig(sig, M, PK.seed, ADRS)` -/
def wotsPkFromSig (th : TH) (p : WP) (sig : List Bytes) (m : Bytes) (adrs : Adrs) : Bytes :=
  wotsPkFromSigDigits th p sig (wotsDigits p m) adrs

/-! ## Merkle trees (shared by XMSS §6 and FORS §8) -/

/-- Node `i` at height `z` of the binary hash forest over the leaves `leaf 0, leaf 1, …`:
    `node(i, z+1) = H(ADRS[height z+1, index i], node(2i, z) ‖ node(2i+1, z))`
    (Algorithm 9 lines 4–10, Algorithm 15 lines 6–11). -/
def treeNode (H : Adrs → Bytes → Bytes) (leaf : Nat → Bytes) (adrs : Adrs) (i : Nat) : (z : Nat) → Bytes
  | 0 => leaf i
  | z + 1 =>
    let lnode := treeNode H leaf adrs (2 * i) z
    let rnode := treeNode H leaf adrs (2 * i + 1) z
    let adrs := adrs.setTreeHeight (z + 1)
    let adrs := adrs.setTreeIndex i
    H adrs (lnode ++ rnode)

/-- The root-recomputation loop of Algorithm 11 (lines 8–18) and Algorithm 17 (lines 9–19):
    `cnt` more levels starting with level `k`; `idx` supplies the parities, the tree index is kept
    in ADRS and halved exactly as the standard does it. -/
def climb (H : Adrs → Bytes → Bytes) (idx : Nat) (auth : List Bytes) :
    (cnt k : Nat) → Adrs → (node : Bytes) → Bytes
  | 0, _, _, node => node
  | cnt + 1, k, adrs, node =>
    let adrs := adrs.setTreeHeight (k + 1)
    let authK := auth.getD k []
    if (idx / 2 ^ k) % 2 = 0 then
      let adrs := adrs.setTreeIndex (adrs.getTreeIndex / 2)
      climb H idx auth cnt (k + 1) adrs (H adrs (node ++ authK))
    else
      let adrs := adrs.setTreeIndex ((adrs.getTreeIndex - 1) / 2)
      climb H idx auth cnt (k + 1) adrs (H adrs (authK ++ node))

/-- the root of the complete binary tree of height `h` over `leaf 0 … leaf (2^h − 1)` -/
def merkleRoot (H : Adrs → Bytes → Bytes) (leaf : Nat → Bytes) (adrs : Adrs) (h : Nat) : Bytes :=
  treeNode H leaf adrs 0 h

/-- the authentication path of leaf `idx`: on every level `j < h` the sibling `⌊idx/2^j⌋ ⊕ 1`
    (Algorithm 10 lines 1–4, Algorithm 16 lines 6–9) -/
def authPath (H : Adrs → Bytes → Bytes) (leaf : Nat → Bytes) (adrs : Adrs) (idx h : Nat) : List Bytes :=
  (List.range h).map fun j => treeNode H leaf adrs ((idx / 2 ^ j) ^^^ 1) j

/-- recompute the root from a leaf value, its index and an authentication path
    (Algorithm 11 lines 6–19) -/
def rootFromPath (H : Adrs → Bytes → Bytes) (adrs : Adrs) (h : Nat) (leafVal : Bytes) (idx : Nat)
    (path : List Bytes) : Bytes :=
  let adrs := adrs.setTreeHeight 0
  let adrs := adrs.setTreeIndex idx
  climb H idx path h 0 adrs leafVal

/-! ## §6 XMSS -/

/-- Algorithm 9 `xmss_node(SK.seed, i, z, PK.seed, ADRS)` -/
def xmssNode (th : TH) (p : WP) (skSeed : Bytes) (i : Nat) : (z : Nat) → Adrs → Bytes
  | 0, adrs =>
    let adrs := adrs.setTypeAndClear WOTS_HASH
    let adrs := adrs.setKeyPairAddress i
    wotsPkGen th p skSeed adrs
  | z + 1, adrs =>
    let lnode := xmssNode th p skSeed (2 * i) z adrs
    let rnode := xmssNode th p skSeed (2 * i + 1) z adrs
    let adrs := adrs.setTypeAndClear TREE
    let adrs := adrs.setTreeHeight (z + 1)
    let adrs := adrs.setTreeIndex i
    th.H adrs (lnode ++ rnode)

/-- an XMSS signature: the WOTS⁺ signature and the authentication path -/
structure XmssSig where
  sig : List Bytes
  auth : List Bytes
  deriving Inhabited

/-- Algorithm 10 `xmss_sign(M, SK.seed, idx, PK.seed, ADRS)` -/
def xmssSign (th : TH) (p : WP) (hp : Nat) (m skSeed : Bytes) (idx : Nat) (adrs : Adrs) : XmssSig :=
  let auth := (List.range hp).map fun j =>
    let k := (idx / 2 ^ j) ^^^ 1
    xmssNode th p skSeed k j adrs
  let adrs := adrs.setTypeAndClear WOTS_HASH
  let adrs := adrs.setKeyPairAddress idx
  { sig := wotsSign th p m skSeed adrs, auth := auth }

/-- Algorithm 11 `xmss_pkFromSig(idx, SIG_XMSS, M, PK.seed, ADRS)` -/
def xmssPkFromSig (th : TH) (p : WP) (hp : Nat) (idx : Nat) (s : XmssSig) (m : Bytes) (adrs : Adrs) : Bytes :=
  let adrs := adrs.setTypeAndClear WOTS_HASH
  let adrs := adrs.setKeyPairAddress idx
  let node0 := wotsPkFromSig th p s.sig m adrs
  let adrs := adrs.setTypeAndClear TREE
  let adrs := adrs.setTreeIndex idx
  climb th.H idx s.auth hp 0 adrs node0

/-! ## §7 hypertree -/

/-- Algorithm 12 lines 5–14: layers `j, j+1, …` (`cnt` of them).  The standard skips the last,
    unused, recomputation of `root` (`if j < d − 1`); the value is not used, so it is not modelled. -/
def htSignLoop (th : TH) (p : WP) (hp : Nat) (skSeed : Bytes) :
    (cnt j : Nat) → (root : Bytes) → (idxTree : Nat) → Adrs → List XmssSig
  | 0, _, _, _, _ => []
  | cnt + 1, j, root, idxTree, adrs =>
    let idxLeaf := idxTree % 2 ^ hp
    let idxTree := idxTree >>> hp
    let adrs := adrs.setLayerAddress j
    let adrs := adrs.setTreeAddress idxTree
    let sigTmp := xmssSign th p hp root skSeed idxLeaf adrs
    let root := xmssPkFromSig th p hp idxLeaf sigTmp root adrs
    sigTmp :: htSignLoop th p hp skSeed cnt (j + 1) root idxTree adrs

/-- Algorithm 12 `ht_sign(M, SK.seed, PK.seed, idx_tree, idx_leaf)` -/
def htSign (th : TH) (p : WP) (hp d : Nat) (m skSeed : Bytes) (idxTree idxLeaf : Nat) : List XmssSig :=
  let adrs := Adrs.zero.setTreeAddress idxTree
  let sigTmp := xmssSign th p hp m skSeed idxLeaf adrs
  let root := xmssPkFromSig th p hp idxLeaf sigTmp m adrs
  sigTmp :: htSignLoop th p hp skSeed (d - 1) 1 root idxTree adrs

/-- Algorithm 13 lines 5–12: layers `j, j+1, …` (`cnt` of them) -/
def htVerifyLoop (th : TH) (p : WP) (hp : Nat) (sigHt : List XmssSig) :
    (cnt j : Nat) → (node : Bytes) → (idxTree : Nat) → Adrs → Bytes
  | 0, _, node, _, _ => node
  | cnt + 1, j, node, idxTree, adrs =>
    let idxLeaf := idxTree % 2 ^ hp
    let idxTree := idxTree >>> hp
    let adrs := adrs.setLayerAddress j
    let adrs := adrs.setTreeAddress idxTree
    let node := xmssPkFromSig th p hp idxLeaf (sigHt.getD j default) node adrs
    htVerifyLoop th p hp sigHt cnt (j + 1) node idxTree adrs

/-- Algorithm 13 `ht_verify(M, SIG_HT, PK.seed, idx_tree, idx_leaf, PK.root)` -/
def htVerify (th : TH) (p : WP) (hp d : Nat) (m : Bytes) (sigHt : List XmssSig) (idxTree idxLeaf : Nat)
    (pkRoot : Bytes) : Bool :=
  let adrs := Adrs.zero.setTreeAddress idxTree
  let node := xmssPkFromSig th p hp idxLeaf (sigHt.getD 0 default) m adrs
  htVerifyLoop th p hp sigHt (d - 1) 1 node idxTree adrs == pkRoot

/-! ## §8 FORS -/

/-- Algorithm 14 `fors_skGen(SK.seed, PK.seed, ADRS, idx)` -/
def forsSkGen (th : TH) (skSeed : Bytes) (adrs : Adrs) (idx : Nat) : Bytes :=
  let skAdrs := adrs.setTypeAndClear FORS_PRF
  let skAdrs := skAdrs.setKeyPairAddress adrs.getKeyPairAddress
  let skAdrs := skAdrs.setTreeIndex idx
  th.PRF skAdrs skSeed

/-- Algorithm 15 `fors_node(SK.seed, i, z, PK.seed, ADRS)` -/
def forsNode (th : TH) (skSeed : Bytes) (i : Nat) : (z : Nat) → Adrs → Bytes
  | 0, adrs =>
    let sk := forsSkGen th skSeed adrs i
    let adrs := adrs.setTreeHeight 0
    let adrs := adrs.setTreeIndex i
    th.F adrs sk
  | z + 1, adrs =>
    let lnode := forsNode th skSeed (2 * i) z adrs
    let rnode := forsNode th skSeed (2 * i + 1) z adrs
    let adrs := adrs.setTreeHeight (z + 1)
    let adrs := adrs.setTreeIndex i
    th.H adrs (lnode ++ rnode)

/-- one of the `k` parts of a FORS signature: the revealed secret value and its authentication path -/
structure ForsPart where
  sk : Bytes
  auth : List Bytes
  deriving Inhabited

/-- Algorithm 16 `fors_sign(md, SK.seed, PK.seed, ADRS)` -/
def forsSign (th : TH) (a k : Nat) (md skSeed : Bytes) (adrs : Adrs) : List ForsPart :=
  let indices := base2b md a k
  (List.range k).map fun i =>
    let idx := indices.getD i 0
    { sk := forsSkGen th skSeed adrs (i * 2 ^ a + idx),
      auth := (List.range a).map fun j =>
        let s := (idx / 2 ^ j) ^^^ 1
        forsNode th skSeed (i * 2 ^ (a - j) + s) j adrs }

/-- the address under which the `k` FORS roots are compressed (Algorithm 17 lines 21–23) -/
def forsPkAdrs (adrs : Adrs) : Adrs :=
  (adrs.setTypeAndClear FORS_ROOTS).setKeyPairAddress adrs.getKeyPairAddress

/-- Algorithm 17 `fors_pkFromSig(SIG_FORS, md, PK.seed, ADRS)` -/
def forsPkFromSig (th : TH) (a k : Nat) (sigFors : List ForsPart) (md : Bytes) (adrs : Adrs) : Bytes :=
  let indices := base2b md a k
  let roots := (List.range k).map fun i =>
    let idx := indices.getD i 0
    let part := sigFors.getD i default
    let adrs := adrs.setTreeHeight 0
    let adrs := adrs.setTreeIndex (i * 2 ^ a + idx)
    let node := th.F adrs part.sk
    climb th.H idx part.auth a 0 adrs node
  th.T (forsPkAdrs adrs) roots.flatten

/-- the FORS public key: `T_k` over the roots of the `k` trees (what `fors_pkFromSig` must return
    for a genuine signature; the standard never computes it separately) -/
def forsPk (th : TH) (a k : Nat) (skSeed : Bytes) (adrs : Adrs) : Bytes :=
  let roots := (List.range k).map fun i => forsNode th skSeed i a adrs
  th.T (forsPkAdrs adrs) roots.flatten

/-! ## §9 SLH-DSA -/

/-- the parameters of Table 2 that the structure depends on (`hp = h' = h/d`) -/
structure SP where
  wp : WP
  h : Nat
  d : Nat
  hp : Nat
  a : Nat
  k : Nat
  deriving Repr

def SP.mdLen (p : SP) : Nat := (p.k * p.a + 7) / 8
def SP.treeIdxLen (p : SP) : Nat := (p.h - p.hp + 7) / 8
def SP.leafIdxLen (p : SP) : Nat := (p.hp + 7) / 8

/-- Algorithm 19 lines 6–10 / Algorithm 20 lines 8–12 -/
def digestSplit (p : SP) (digest : Bytes) : Bytes × Nat × Nat :=
  let l1 := p.mdLen
  let l2 := p.treeIdxLen
  let l3 := p.leafIdxLen
  let md := digest.take l1
  let tmpIdxTree := (digest.drop l1).take l2
  let tmpIdxLeaf := (digest.drop (l1 + l2)).take l3
  (md, idxTree p.h p.hp tmpIdxTree, idxLeaf p.hp tmpIdxLeaf)

/-- an SLH-DSA signature `R ‖ SIG_FORS ‖ SIG_HT` -/
structure SlhSig where
  r : Bytes
  sigFors : List ForsPart
  sigHt : List XmssSig

/-- Algorithm 18 `slh_keygen_internal`: `PK.root` -/
def pkRoot (th : TH) (p : SP) (skSeed : Bytes) : Bytes :=
  let adrs := Adrs.zero.setLayerAddress (p.d - 1)
  xmssNode th p.wp skSeed 0 p.hp adrs

/-- Algorithm 19 `slh_sign_internal(M, SK, addrnd)`; `Hmsg r pkRoot M` is `H_msg(R, PK.seed, PK.root, M)`
    and `PRFmsg skPrf optRand M` is `PRF_msg`, both abstract -/
def slhSign (th : TH) (Hmsg : Bytes → Bytes → Bytes → Bytes) (PRFmsg : Bytes → Bytes → Bytes → Bytes)
    (p : SP) (msg skSeed skPrf pkRoot optRand : Bytes) : SlhSig :=
  let r := PRFmsg skPrf optRand msg
  let digest := Hmsg r pkRoot msg
  let (md, idxTree, idxLeaf) := digestSplit p digest
  let adrs := Adrs.zero.setTreeAddress idxTree
  let adrs := adrs.setTypeAndClear FORS_TREE
  let adrs := adrs.setKeyPairAddress idxLeaf
  let sigFors := forsSign th p.a p.k md skSeed adrs
  let pkFors := forsPkFromSig th p.a p.k sigFors md adrs
  let sigHt := htSign th p.wp p.hp p.d pkFors skSeed idxTree idxLeaf
  { r := r, sigFors := sigFors, sigHt := sigHt }

/-- Algorithm 20 `slh_verify_internal(M, SIG, PK)` (the length checks of lines 1–3 concern the byte
    encoding and are not modelled) -/
def slhVerify (th : TH) (Hmsg : Bytes → Bytes → Bytes → Bytes) (p : SP) (msg : Bytes) (sig : SlhSig)
    (pkRoot : Bytes) : Bool :=
  let digest := Hmsg sig.r pkRoot msg
  let (md, idxTree, idxLeaf) := digestSplit p digest
  let adrs := Adrs.zero.setTreeAddress idxTree
  let adrs := adrs.setTypeAndClear FORS_TREE
  let adrs := adrs.setKeyPairAddress idxLeaf
  let pkFors := forsPkFromSig th p.a p.k sig.sigFors md adrs
  htVerify th p.wp p.hp p.d pkFors sig.sigHt idxTree idxLeaf pkRoot

end TinkVerif.SlhStruct
