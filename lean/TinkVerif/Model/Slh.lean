import TinkVerif.Base.Bytes
/-
  Support functions of SLH-DSA (FIPS 205 §4.4, Algorithms 2–4) as tink-go implements them in
  internal/signature/slhdsa/support.go: `toInt`, `toByte`, `base2b`; and the index split of the
  message digest (`slh_sign_internal` lines 7–11).  List-based so that the laws can be proved.
-/
namespace TinkVerif.Slh
open TinkVerif

/-- Algorithm 2: big-endian bytes to integer -/
def toInt (b : Bytes) : Nat := Bytes.toNatBE b

/-- Algorithm 3: integer to `n` big-endian bytes (value taken mod 256ⁿ) -/
def toByte (x n : Nat) : Bytes := Bytes.ofNatBE n x

/-- Algorithm 4 (`base_2^b`) as the standard writes it: accumulate bytes, emit `b`-bit digits -/
def base2bLoop (b : Nat) : (outLen : Nat) → (x : Bytes) → (bits total : Nat) → List Nat
  | 0, _, _, _ => []
  | n + 1, x, bits, total =>
    -- pull in bytes until at least b bits are available
    let need := (b - bits + 7) / 8
    let taken := x.take need
    let total' := taken.foldl (fun acc y => acc * 256 + y.toNat) total
    let bits' := bits + 8 * taken.length
    let bits'' := bits' - b
    (total' / 2 ^ bits'') % 2 ^ b :: base2bLoop b n (x.drop need) bits'' (total' % 2 ^ bits'')

def base2b (x : Bytes) (b outLen : Nat) : List Nat := base2bLoop b outLen x 0 0

/-- digits of the leading `outLen·b` bits, specification form: digit i = bits [i·b, (i+1)·b) of the
    big-endian integer of the first ⌈outLen·b/8⌉ bytes -/
def base2bSpec (x : Bytes) (b outLen : Nat) : List Nat :=
  let nbytes := (outLen * b + 7) / 8
  let v := Bytes.toNatBE (x.take nbytes)
  let totalBits := 8 * nbytes
  (List.range outLen).map fun i => (v / 2 ^ (totalBits - (i + 1) * b)) % 2 ^ b

/-- tree and leaf index from the digest tail: `idx_tree = toInt(tmp) mod 2^(h−h')`,
    `idx_leaf = toInt(tmp') mod 2^(h')` -/
def idxTree (h hp : Nat) (tmp : Bytes) : Nat := toInt tmp % 2 ^ (h - hp)
def idxLeaf (hp : Nat) (tmp : Bytes) : Nat := toInt tmp % 2 ^ hp

end TinkVerif.Slh
