/-
  Strict DER (X.690 §8.1.3, §8.3, §10.1) codec of `ECDSA-Sig-Value ::= SEQUENCE { r INTEGER, s INTEGER }`
  (RFC 3279 §2.2.3) over `Bytes = List UInt8`, written for proving. The round-trip and canonicity
  theorems are in `TinkVerif/Props/C03Der.lean`; the driver (`Driver/Sig.lean`, ops `der`, `derenc`
  and the DER branch of `ecdsa`) executes these definitions against Go's `crypto/ecdsa` / tink's
  `internal/signature/ecdsa` ASN.1 codec.

  * INTEGER content: minimal big-endian two's complement of a non-negative value: the base-256
    digits without leading zero, preceded by one `00` iff the top bit of the first digit is set;
    zero is the single octet `00`.
  * length octets: definite, minimal: short form below 128, otherwise `0x80 + k` followed by the
    `k` base-256 digits of the length without leading zero, `1 ≤ k ≤ 126` (X.690 §8.1.3.5: `0xff`
    is reserved, `0x80` is the indefinite form).
  * the decoder rejects: wrong tags, indefinite / non-minimal lengths, empty, negative or
    non-minimal INTEGER contents, truncated input and trailing data after or inside the SEQUENCE.
-/
import TinkVerif.Base.Bytes

namespace TinkVerif.DerList
open TinkVerif TinkVerif.Bytes

/-- base-256 digits of `n`, big-endian, without leading zero (`0 ↦ []`). -/
def natBytes (n : Nat) : Bytes :=
  if _h : n = 0 then [] else natBytes (n / 256) ++ [UInt8.ofNat (n % 256)]
decreasing_by omega

/-- content octets of a DER INTEGER holding the non-negative value `n`. -/
def intContent (n : Nat) : Bytes :=
  match natBytes n with
  | [] => [0]
  | x :: t => if 128 ≤ x.toNat then 0 :: x :: t else x :: t

/-- DER length octets. Meaningful for `n < 256 ^ 126` (X.690 cannot express more). -/
def encLen (n : Nat) : Bytes :=
  if n < 128 then [UInt8.ofNat n]
  else UInt8.ofNat (128 + (natBytes n).length) :: natBytes n

def encTlv (tag : UInt8) (c : Bytes) : Bytes := tag :: (encLen c.length ++ c)

def encInt (n : Nat) : Bytes := encTlv 0x02 (intContent n)

def encSig (r s : Nat) : Bytes := encTlv 0x30 (encInt r ++ encInt s)

/-- reads minimal definite length octets; returns the length and the remaining input. -/
def decLen : Bytes → Option (Nat × Bytes)
  | [] => none
  | l0 :: rest =>
    if l0.toNat < 128 then some (l0.toNat, rest)
    else
      let k := l0.toNat - 128
      if k = 0 then none                       -- 0x80: indefinite form
      else if 126 < k then none                -- 0xff: reserved
      else if rest.length < k then none        -- truncated
      else if (rest.take k).head? = some 0 then none   -- leading zero octet
      else if toNatBE (rest.take k) < 128 then none    -- long form below 128
      else some (toNatBE (rest.take k), rest.drop k)

/-- reads one TLV with the given single-octet tag; returns the content and the remaining input. -/
def decTlv (tag : UInt8) : Bytes → Option (Bytes × Bytes)
  | [] => none
  | t :: b =>
    if t = tag then
      match decLen b with
      | none => none
      | some (len, rest) =>
        if len ≤ rest.length then some (rest.take len, rest.drop len) else none
    else none

/-- content octets of a DER INTEGER → non-negative value; rejects empty, negative and
    non-minimal contents. -/
def decIntContent : Bytes → Option Nat
  | [] => none
  | [x] => if 128 ≤ x.toNat then none else some x.toNat
  | x :: y :: t =>
    if 128 ≤ x.toNat then none                       -- negative
    else if x = 0 ∧ y.toNat < 128 then none          -- superfluous leading 00
    else some (toNatBE (x :: y :: t))

/-- reads one non-negative DER INTEGER; returns the value and the remaining input. -/
def decInt (b : Bytes) : Option (Nat × Bytes) :=
  match decTlv 0x02 b with
  | none => none
  | some (c, rest) =>
    match decIntContent c with
    | none => none
    | some n => some (n, rest)

/-- strict DER decoding of `SEQUENCE { INTEGER r, INTEGER s }` with `r, s ≥ 0`. -/
def decSig (b : Bytes) : Option (Nat × Nat) :=
  match decTlv 0x30 b with
  | some (body, []) =>
    match decInt body with
    | none => none
    | some (r, b1) =>
      match decInt b1 with
      | some (s, []) => some (r, s)
      | _ => none
  | _ => none

end TinkVerif.DerList
