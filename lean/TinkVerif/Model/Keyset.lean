import TinkVerif.Model.Manager
/-
  Model of keyset/validation.go (`Validate`, `validateKey`), `keysetToEntries`,
  `newKeysetHandleFromProto`, `hasSecrets` and the NoSecrets gates of keyset/handle.go.
  Proto enums are kept as raw numbers so that unknown values are expressible.
-/
namespace TinkVerif.Keyset
open TinkVerif TinkVerif.Manager

/-- tinkpb.Keyset.Key (the fields the structural gate looks at). `parseOk` is the verdict of the
    per-type key parser (`protoserialization.ParseKey`), an oracle input to the model. -/
structure PKey where
  hasKeyData : Bool
  material : Nat      -- KeyData.KeyMaterialType: 0 UNKNOWN, 1 SYMMETRIC, 2 ASYM_PRIVATE, 3 ASYM_PUBLIC, 4 REMOTE
  status : Nat        -- KeyStatusType: 0 UNKNOWN, 1 ENABLED, 2 DISABLED, 3 DESTROYED
  keyId : Nat
  prefixType : Nat    -- OutputPrefixType: 0 UNKNOWN, 1 TINK, 2 LEGACY, 3 RAW, 4 CRUNCHY, 5 WITH_ID_REQUIREMENT
  parseOk : Bool
  deriving DecidableEq, Repr

structure PKeyset where
  primaryKeyId : Nat
  keys : List PKey
  deriving Repr

def validKey (k : PKey) : Bool :=
  k.hasKeyData &&
  (k.prefixType == 1 || k.prefixType == 2 || k.prefixType == 3 || k.prefixType == 4 || k.prefixType == 5) &&
  (k.status == 1 || k.status == 2 || k.status == 3)

structure VState where
  seen : List Nat
  hasPrimary : Bool
  numEnabled : Nat

/-- one iteration of the loop in `Validate`; `none` = an error is returned -/
def vstep (primary : Nat) (s : VState) (k : PKey) : Option VState :=
  if !validKey k then none
  else if k.keyId ∈ s.seen then none
  else if k.status ≠ 1 ∧ k.keyId = primary then none
  else
    let s1 := { s with seen := k.keyId :: s.seen }
    if k.status ≠ 1 then some s1
    else if k.keyId = primary then
      if s.hasPrimary then none      -- "multiple primary keys": unreachable after the duplicate check
      else some { s1 with hasPrimary := true, numEnabled := s.numEnabled + 1 }
    else some { s1 with numEnabled := s.numEnabled + 1 }

def vloop (primary : Nat) : VState → List PKey → Option VState
  | s, [] => some s
  | s, k :: ks => match vstep primary s k with
    | none => none
    | some s' => vloop primary s' ks

/-- `Validate` (for a non-nil keyset) -/
def validate (ks : PKeyset) : Bool :=
  if ks.keys.isEmpty then false
  else match vloop ks.primaryKeyId { seen := [], hasPrimary := false, numEnabled := 0 } ks.keys with
    | none => false
    | some s => s.numEnabled ≠ 0 && s.hasPrimary

/-- declarative well-formedness -/
def WF (ks : PKeyset) : Prop :=
  ks.keys ≠ [] ∧ (∀ k ∈ ks.keys, validKey k = true) ∧ (ks.keys.map (·.keyId)).Nodup ∧
  (∀ k ∈ ks.keys, k.keyId = ks.primaryKeyId → k.status = 1) ∧
  (∃ k ∈ ks.keys, k.keyId = ks.primaryKeyId)

def statusOf : Nat → Status
  | 1 => .enabled | 2 => .disabled | 3 => .destroyed | _ => .unknown

/-- `keysetToEntries` + `newFromEntries`: a handle, or `none` on any error -/
def handleOf (ks : PKeyset) : Option Handle :=
  if !validate ks then none
  else if ks.keys.any (fun k => !k.parseOk) then none
  else
    let es := ks.keys.map fun k =>
      ({ key := 0, id := k.keyId, status := statusOf k.status, isPrimary := k.keyId == ks.primaryKeyId } : MEntry)
    if es.any (·.status = .unknown) then none
    else if es.any (·.isPrimary) then some es else none

/-- `hasSecrets` -/
def hasSecrets (ks : PKeyset) : Bool :=
  ks.keys.any fun k => k.material == 0 || k.material == 2 || k.material == 1

/-- `NewHandleWithNoSecrets` / `ReadWithNoSecrets` -/
def noSecretsHandle (ks : PKeyset) : Option Handle :=
  if hasSecrets ks then none else handleOf ks

/-- metadata that `KeysetInfo()`, `String()` and the encrypted-keyset wrapper expose -/
structure KeyInfo where
  typeUrl : Nat
  status : Nat
  keyId : Nat
  prefixType : Nat
  deriving DecidableEq, Repr

end TinkVerif.Keyset
