import TinkVerif.Model.Hmac
import TinkVerif.Model.Aead
/-
  Model of tink-go's hybrid encryption:
  * HPKE base mode (hybrid/internal/hpke: hpke.go, context.go, hkdf_kdf.go, *_kem.go, encrypt.go,
    decrypt.go) — labelled extract/expand, suite ids, DHKEM shared-secret derivation, key schedule,
    nonce computation, `enc ‖ ct` framing — generic over the keyed MAC (HMAC over any hash), the raw
    AEAD and the KEM;
  * X-Wing key expansion and combiner (hybrid/internal/xwing);
  * ECIES-AEAD-HKDF (hybrid/subtle): HKDF over `kem ‖ dh`, `kem ‖ demCiphertext` framing;
  * the prefix framing of hybrid/hpke and hybrid/ecies.
-/
namespace TinkVerif.Hpke
open TinkVerif

def hpkeV1 : Bytes := Bytes.ofString "HPKE-v1"

def be16 (n : Nat) : Bytes := Bytes.ofNatBE 2 n

def kemSuiteID (kemId : Nat) : Bytes := Bytes.ofString "KEM" ++ be16 kemId

def hpkeSuiteID (kemId kdfId aeadId : Nat) : Bytes :=
  Bytes.ofString "HPKE" ++ be16 kemId ++ be16 kdfId ++ be16 aeadId

def labelIKM (label : String) (ikm suiteID : Bytes) : Bytes :=
  hpkeV1 ++ suiteID ++ Bytes.ofString label ++ ikm

/-- `labelInfo`: `none` when the length does not fit a uint16 -/
def labelInfo (label : String) (info suiteID : Bytes) (len : Nat) : Option Bytes :=
  if len ≥ 65536 then none
  else some (be16 len ++ hpkeV1 ++ suiteID ++ Bytes.ofString label ++ info)

/-- a KDF: keyed MAC (HKDF-Extract(salt, ikm) = MAC(salt, ikm)) and its output length -/
structure Kdf where
  mac : Bytes → Bytes → Bytes
  hashLen : Nat

def labeledExtract (k : Kdf) (salt ikm : Bytes) (label : String) (suiteID : Bytes) : Bytes :=
  k.mac salt (labelIKM label ikm suiteID)

def labeledExpand (k : Kdf) (prk info : Bytes) (label : String) (suiteID : Bytes) (len : Nat) : Option Bytes :=
  (labelInfo label info suiteID len).map fun li => Hmac.expand k.mac k.hashLen prk li len

/-- DHKEM `ExtractAndExpand(dh, enc ‖ pkR)` -/
def dhkemSecret (k : Kdf) (kemId : Nat) (dh enc pkR : Bytes) : Option Bytes :=
  let suite := kemSuiteID kemId
  labeledExpand k (labeledExtract k [] dh "eae_prk" suite) (enc ++ pkR) "shared_secret" suite k.hashLen

/-- key schedule, base mode, default (empty) psk and psk_id -/
def keySchedule (k : Kdf) (suite : Bytes) (sharedSecret info : Bytes) (keyLen nonceLen : Nat) : Option (Bytes × Bytes) :=
  let pskIdHash := labeledExtract k [] [] "psk_id_hash" suite
  let infoHash := labeledExtract k [] info "info_hash" suite
  let ctx := [0] ++ pskIdHash ++ infoHash
  let secret := labeledExtract k sharedSecret [] "secret" suite
  match labeledExpand k secret ctx "key" suite keyLen, labeledExpand k secret ctx "base_nonce" suite nonceLen with
  | some key, some nonce => some (key, nonce)
  | _, _ => none

/-- `computeNonce`: base nonce xor the big-endian sequence number, right-aligned -/
def computeNonce (baseNonce : Bytes) (seq : Nat) : Bytes :=
  Bytes.xor (Bytes.ofNatBE baseNonce.length seq) baseNonce

/-- a KEM as the HPKE code uses it -/
structure Kem where
  id : Nat
  nEnc : Nat
  /-- encapsulate to `pkR` with explicit ephemeral randomness: (shared secret, enc) -/
  encapWith : (eph pkR : Bytes) → Option (Bytes × Bytes)
  decap : (enc skR : Bytes) → Option Bytes

structure Suite where
  kem : Kem
  kdf : Kdf
  kdfId : Nat
  aeadId : Nat
  keyLen : Nat
  nonceLen : Nat
  aead : Bytes → Aead.Raw      -- raw AEAD under a key

def Suite.id (s : Suite) : Bytes := hpkeSuiteID s.kem.id s.kdfId s.aeadId

/-- `Encrypt`: enc ‖ Seal(key, nonce(seq 0), pt, ad = "") -/
def sealWith (s : Suite) (eph pkR pt info : Bytes) : Option Bytes :=
  match s.kem.encapWith eph pkR with
  | none => none
  | some (ss, enc) =>
    match keySchedule s.kdf s.id ss info s.keyLen s.nonceLen with
    | none => none
    | some (key, baseNonce) => some (enc ++ (s.aead key).sealF (computeNonce baseNonce 0) pt [])

/-- `Decrypt` -/
def open_ (s : Suite) (skR ct info : Bytes) : Option Bytes :=
  if ct.length < s.kem.nEnc then none
  else
    match s.kem.decap (ct.take s.kem.nEnc) skR with
    | none => none
    | some ss =>
      match keySchedule s.kdf s.id ss info s.keyLen s.nonceLen with
      | none => none
      | some (key, baseNonce) => (s.aead key).openF (computeNonce baseNonce 0) (ct.drop s.kem.nEnc) []

/-- hybrid/hpke and hybrid/ecies prefix framing -/
def fullSealWith (pre : Bytes) (raw : Option Bytes) : Option Bytes := raw.map (pre ++ ·)

def fullOpen (pre : Bytes) (rawOpen : Bytes → Option Bytes) (ct : Bytes) : Option Bytes :=
  if ct.length < pre.length then none
  else if ct.take pre.length ≠ pre then none
  else rawOpen (ct.drop pre.length)

/-! ### X-Wing -/

def xwingLabel : Bytes := [0x5c, 0x2e, 0x2f, 0x2f, 0x5e, 0x5c]   -- `\.//^\`

/-- `combiner`: SHA3-256(ssM ‖ ssX ‖ ctX ‖ pkX ‖ label) -/
def xwingCombine (sha3_256 : Bytes → Bytes) (ssM ssX ctX pkX : Bytes) : Bytes :=
  sha3_256 (ssM ++ ssX ++ ctX ++ pkX ++ xwingLabel)

/-- `expandDecapsulationKey`: SHAKE256(sk, 96) = seedM (64) ‖ skX (32) -/
def xwingExpand (shake256 : Bytes → Nat → Bytes) (sk : Bytes) : Bytes × Bytes :=
  let o := shake256 sk 96
  (o.take 64, o.drop 64)

/-! ### ECIES-AEAD-HKDF -/

/-- symmetric key: HKDF(ikm = kem ‖ dh, salt, info = contextInfo) via `subtle.ComputeHKDF` -/
def eciesKey (mac : Bytes → Bytes → Bytes) (hashLen : Nat) (kemBytes dh salt info : Bytes) (keyLen : Nat) : Option Bytes :=
  Hmac.computeHKDF mac hashLen (kemBytes ++ dh) salt info keyLen

/-- `Encrypt`: kem ‖ DEM(key).Encrypt(pt, "") -/
def eciesSeal (kemBytes : Bytes) (demEnc : Bytes → Bytes) (pt : Bytes) : Bytes := kemBytes ++ demEnc pt

def eciesOpen (headerSize : Nat) (keyOf : Bytes → Option Bytes) (demDec : Bytes → Bytes → Option Bytes) (ct : Bytes) : Option Bytes :=
  if ct.length < headerSize then none
  else match keyOf (ct.take headerSize) with
    | none => none
    | some key => demDec key (ct.drop headerSize)

end TinkVerif.Hpke
