import TinkVerif.Model.Cmac
import TinkVerif.Model.Ctr
import TinkVerif.Model.Framing
/-
  Model of daead/subtle/aes_siv.go and daead/aessiv/daead.go, generic over the two block
  functions (`E1`: CMAC key, `E2`: CTR key).
-/
namespace TinkVerif.Siv
open TinkVerif TinkVerif.Cmac

/-- `s2v` as written in the Go code (two branches) -/
def s2v (E1 : Block → Block) (msg ad : Bytes) : Block :=
  let block := Bytes.xor (mulByX (compute E1 zero16)) (compute E1 ad)
  if msg.length ≥ 16 then
    (xorEndAndCompute E1 msg block).getD []
  else
    let b2 := mulByX block
    -- XORBytes(block, block, msg): the first |msg| bytes; then block[len(msg)] ^= 0x80
    let b3 := Bytes.xor (b2.take msg.length) msg ++ [(b2.getD msg.length 0) ^^^ 0x80] ++ b2.drop (msg.length + 1)
    compute E1 b3

/-- RFC 5297 §2.4 S2V with one associated-data component, from the RFC text -/
def s2vSpec (E1 : Block → Block) (msg ad : Bytes) : Block :=
  let D0 := compute E1 zero16
  let D := Bytes.xor (mulByX D0) (compute E1 ad)
  let T := if msg.length ≥ 16 then xorend msg D
           else Bytes.xor (mulByX D) (pad16 msg)
  compute E1 T

/-- clear bit 31 and bit 63 of the IV (`iv[8] &= 0x7f; iv[12] &= 0x7f`) -/
def clearBits (siv : Bytes) : Bytes :=
  (siv.take 8) ++ [(siv.getD 8 0) &&& 0x7f] ++ (siv.drop 9).take 3 ++ [(siv.getD 12 0) &&& 0x7f] ++ siv.drop 13

def encryptRaw (E1 E2 : Block → Block) (pt ad : Bytes) : Bytes :=
  let siv := s2v E1 pt ad
  siv ++ Ctr.xorBE E2 (clearBits siv) pt

def decryptRaw (E1 E2 : Block → Block) (ct ad : Bytes) : Option Bytes :=
  if ct.length < 16 then none
  else
    let siv := ct.take 16
    let pt := Ctr.xorBE E2 (clearBits siv) (ct.drop 16)
    if s2v E1 pt ad = siv then some pt else none

/-- daead/aessiv full primitive -/
def encrypt (E1 E2 : Block → Block) (pre : Bytes) (pt ad : Bytes) : Bytes :=
  pre ++ encryptRaw E1 E2 pt ad

def decrypt (E1 E2 : Block → Block) (pre : Bytes) (ct ad : Bytes) : Option Bytes :=
  if ct.length < pre.length then none
  else if ct.take pre.length ≠ pre then none
  else decryptRaw E1 E2 (ct.drop pre.length) ad

end TinkVerif.Siv
