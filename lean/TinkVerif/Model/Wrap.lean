import TinkVerif.Model.Manager
import TinkVerif.Base.Bytes
/-
  Model of the keyset-level ("wrapped") primitives built by the ten `*_factory.go` files over
  internal/prefixmap: which key produces, which keys are tried to accept, and which key id is
  logged. The single-key behaviour is abstract: `accepts k y x` = "the full single-key primitive of
  key `k` accepts output `y` for input `x`" (C01–C04, C06, C09 are about that part).
-/
namespace TinkVerif.Wrap
open TinkVerif TinkVerif.Manager

structure WEntry (κ : Type) where
  id : Nat
  status : Status
  isPrimary : Bool
  pre : Bytes          -- output prefix of the key: empty (RAW) or 5 bytes
  key : κ

variable {κ : Type}

/-- `EnabledUnmonitoredEntries`: ENABLED entries in keyset order -/
def enabled (es : List (WEntry κ)) : List (WEntry κ) := es.filter (·.status = .enabled)

/-- `prefixmap.Insert`/lookup: the entries stored under one prefix string, in insertion order -/
def bucket (es : List (WEntry κ)) (p : Bytes) : List (WEntry κ) := (enabled es).filter (·.pre = p)

/-- `PrimitivesMatchingPrefix(y)`: the 5-byte bucket (only when |y| ≥ 5), then the RAW bucket -/
def candidates (es : List (WEntry κ)) (y : Bytes) : List (WEntry κ) :=
  (if 5 ≤ y.length then bucket es (y.take 5) else []) ++ bucket es []

/-- AEAD / DAEAD / signature verify / hybrid decrypt: first candidate that accepts; its id is logged -/
def accept (accepts : κ → Bytes → Bytes → Bool) (es : List (WEntry κ)) (y x : Bytes) : Option Nat :=
  ((candidates es y).find? fun e => accepts e.key y x).map (·.id)

/-- `wrappedMAC.VerifyMAC`: tags of at most 5 bytes are rejected outright; then the candidates, then
    the RAW bucket once more -/
def macAccept (accepts : κ → Bytes → Bytes → Bool) (es : List (WEntry κ)) (y x : Bytes) : Option Nat :=
  if y.length ≤ 5 then none
  else ((candidates es y ++ bucket es []).find? fun e => accepts e.key y x).map (·.id)

/-- JWT and streaming AEAD: every enabled key is tried in order, no prefix filter -/
def tryAll (accepts : κ → Bytes → Bytes → Bool) (es : List (WEntry κ)) (y x : Bytes) : Option Nat :=
  ((enabled es).find? fun e => accepts e.key y x).map (·.id)

/-- the key that produces: the factory keeps the last ENABLED entry flagged primary -/
def producer (es : List (WEntry κ)) : Option (WEntry κ) := (enabled es).reverse.find? (·.isPrimary)

/-- PRF set: ids of the enabled keys and the primary id -/
def prfIds (es : List (WEntry κ)) : List Nat := (enabled es).map (·.id)

end TinkVerif.Wrap
