import TinkVerif.Base.Bytes
/-
  Counter-mode keystreams as tink-go uses them:
  * `ctrBE`: Go's `cipher.NewCTR` — the whole 16-byte block is a big-endian counter (AES-CTR-HMAC
    with the IV zero-padded to 16 bytes, AES-SIV);
  * `ctrLE32`: AES-GCM-SIV — the first 4 bytes are a little-endian 32-bit counter that wraps.
-/
namespace TinkVerif.Ctr
open TinkVerif

/-- counter block number `i` of a big-endian 128-bit counter starting at `iv` -/
def blockBE (iv : Bytes) (i : Nat) : Bytes := Bytes.ofNatBE 16 ((Bytes.toNatBE iv + i) % 2 ^ 128)

/-- first `n` bytes of the keystream E(iv) ‖ E(iv+1) ‖ … -/
def streamBE (E : Bytes → Bytes) (iv : Bytes) (n : Nat) : Bytes :=
  ((List.range ((n + 15) / 16)).flatMap fun i => E (blockBE iv i)).take n

def xorBE (E : Bytes → Bytes) (iv data : Bytes) : Bytes :=
  Bytes.xor data (streamBE E iv data.length)

/-- counter block `i` for AES-GCM-SIV: LE32 counter in bytes 0..3 (wrapping), bytes 4..15 fixed -/
def blockLE32 (iv : Bytes) (i : Nat) : Bytes :=
  Bytes.ofNatLE 4 ((Bytes.toNatLE (iv.take 4) + i) % 2 ^ 32) ++ iv.drop 4

def streamLE32 (E : Bytes → Bytes) (iv : Bytes) (n : Nat) : Bytes :=
  ((List.range ((n + 15) / 16)).flatMap fun i => E (blockLE32 iv i)).take n

def xorLE32 (E : Bytes → Bytes) (iv data : Bytes) : Bytes :=
  Bytes.xor data (streamLE32 E iv data.length)

end TinkVerif.Ctr
