import TinkVerif.Base.Bytes
/-
  RFC 2104 HMAC and RFC 5869 HKDF, generic over the hash function `H` (block length `B`).
  HKDF is additionally generic over the keyed MAC it iterates, so its laws hold for any MAC.
-/
namespace TinkVerif.Hmac
open TinkVerif

/-- key preparation: hash keys longer than a block, then zero-pad to the block length -/
def prepKey (H : Bytes → Bytes) (B : Nat) (key : Bytes) : Bytes :=
  let k := if key.length > B then H key else key
  k ++ Bytes.zeros (B - k.length)

def hmac (H : Bytes → Bytes) (B : Nat) (key msg : Bytes) : Bytes :=
  let k := prepKey H B key
  let ipad := k.map (· ^^^ 0x36)
  let opad := k.map (· ^^^ 0x5c)
  H (opad ++ H (ipad ++ msg))

/-- RFC 5869 §2.3: T(i) = MAC(prk, T(i-1) ‖ info ‖ byte i). `blocksFrom n prev i` is
    T(i+1) ‖ … ‖ T(i+n) given `prev = T(i)`. -/
def blocksFrom (mac : Bytes → Bytes → Bytes) (prk info : Bytes) : Nat → Bytes → Nat → Bytes
  | 0, _, _ => []
  | n + 1, prev, i =>
    let t := mac prk (prev ++ info ++ [UInt8.ofNat (i + 1)])
    t ++ blocksFrom mac prk info n t (i + 1)

/-- T(1) ‖ … ‖ T(n) -/
def stream (mac : Bytes → Bytes → Bytes) (prk info : Bytes) (n : Nat) : Bytes :=
  blocksFrom mac prk info n [] 0

/-- HKDF-Expand to `len` bytes (enough blocks are generated; the RFC limit is the caller's guard) -/
def expand (mac : Bytes → Bytes → Bytes) (hashLen : Nat) (prk info : Bytes) (len : Nat) : Bytes :=
  (stream mac prk info (len / hashLen + 1)).take len

def extract (mac : Bytes → Bytes → Bytes) (salt ikm : Bytes) : Bytes := mac salt ikm

/-- HKDF with the output-length limit of RFC 5869 (`none` beyond 255·hashLen) -/
def hkdf (mac : Bytes → Bytes → Bytes) (hashLen : Nat) (ikm salt info : Bytes) (len : Nat) : Option Bytes :=
  if len > 255 * hashLen then none
  else some (expand mac hashLen (extract mac salt ikm) info len)

/-- `subtle.ComputeHKDF`: tag-size guards, empty salt replaced by `hashLen` zero bytes -/
def computeHKDF (mac : Bytes → Bytes → Bytes) (hashLen : Nat) (key salt info : Bytes) (tagSize : Nat) : Option Bytes :=
  if tagSize > 255 * hashLen then none
  else if tagSize < 10 then none
  else
    let salt' := if salt.length = 0 then Bytes.zeros hashLen else salt
    some (expand mac hashLen (extract mac salt' key) info tagSize)

end TinkVerif.Hmac
