import TinkVerif.Base.Bytes
import TinkVerif.Model.Aead
import TinkVerif.Model.Manager
/-
  Model of how tink-go's randomized operations consume randomness (C20).

  `crypto/rand.Read` goes through the package variable `rand.Reader`; the correspondence harness
  replaces it with a recording tape.  In the model the tape is explicit: a randomized operation
  that needs fields of lengths `n₁ … nₖ` *is given the next n₁ + … + nₖ tape bytes* and places them
  verbatim at fixed positions of its output.  What the model states — and the harness checks against
  the real code for every randomized key type — is the consumption discipline:
    call i's random fields = the i-th window of the tape, windows of different calls are disjoint,
    and every byte of every field is one tape byte (no truncation, no constant bytes, no reuse).
-/
namespace TinkVerif.Rand
open TinkVerif

/-- the random source: an infinite byte stream -/
abbrev Tape := Nat → UInt8

/-- the `n` bytes at offset `off` -/
def seg (t : Tape) (off n : Nat) : Bytes := (List.range n).map fun i => t (off + i)

/-- the successive draws of a history of calls: each call draws its lengths in order -/
def fields (t : Tape) : Nat → List Nat → List Bytes
  | _, [] => []
  | pos, n :: ns => seg t pos n :: fields t (pos + n) ns

/-- start offset of draw `i` -/
def offsetOf (start : Nat) (ns : List Nat) (i : Nat) : Nat := start + (ns.take i).sum

/-! ### ciphertext layouts: where the random fields sit -/

/-- `prefix ‖ field ‖ rest`: the field of length `n` after a prefix of length `p` -/
def fieldAt (ct : Bytes) (p n : Nat) : Bytes := (ct.drop p).take n

/-- AEADs with `prefix ‖ iv ‖ …` layout (AES-GCM 12, AES-GCM-SIV 12, ChaCha20-Poly1305 12,
    XChaCha20-Poly1305 24, AES-CTR-HMAC ivLen, X-AES-GCM salt ‖ iv) -/
def aeadField (preLen ivLen : Nat) (ct : Bytes) : Bytes := fieldAt ct preLen ivLen

/-- streaming AEAD header: `len ‖ salt(keySize) ‖ noncePrefix(7)`; both fields drawn in this order -/
def streamHeaderFields (keySize : Nat) (hdr : Bytes) : Bytes × Bytes :=
  (fieldAt hdr 1 keySize, fieldAt hdr (1 + keySize) 7)

/-! ### key ids -/

/-- a 32-bit id from four tape bytes, as `random.GetRandomUint32` does (big endian) -/
def wordAt (t : Tape) (off : Nat) : Nat := Bytes.toNatBE (seg t off 4)

/-- the words `newRandomKeyID` sees: it redraws while the word is unavailable -/
def words (t : Tape) (off : Nat) : Nat → List Nat
  | 0 => []
  | k + 1 => wordAt t off :: words t (off + 4) k

end TinkVerif.Rand
