import TinkVerif.Model.ProtoWire
/-
  Keysets WITH key material at the protobuf level, and the three messages keyset/handle.go builds
  from them:

  * `toWire`    — tinkpb.Keyset as `proto.Marshal` writes it (what `encrypt` feeds to the
                  key-encryption AEAD, what the cleartext writers emit);
  * `info`      — tinkpb.KeysetInfo as `getKeysetInfo`/`getKeyInfo` (and `entriesToKeysetInfo`, i.e.
                  `Handle.KeysetInfo()` / `String()`) build it: type URL, status, id, prefix type per key;
  * `encryptedKeyset` — tinkpb.EncryptedKeyset{encrypted_keyset, keyset_info} as `encrypt` builds it
                  (what MemReaderWriter stores and JSONWriter prints); `binaryForm` is what
                  `BinaryWriter.WriteEncrypted` writes: the ciphertext field only.
  * `fromWire`  — `proto.Unmarshal` into tinkpb.Keyset (last value wins for scalars, repeated key
                  appended, embedded messages merged, unknown fields skipped, uint32/enum
                  truncation, UTF-8 check on `type_url`);
  * `writeEncrypted` / `readEncrypted` — `Handle.WriteWithAssociatedData` / `decrypt` up to the
                  keyset message (handle construction from it is `Keyset.handleOf`, Model/Keyset.lean).

  Field numbers (proto/tink.proto): KeyData{1 type_url, 2 value, 3 key_material_type};
  Keyset{1 primary_key_id, 2 key{1 key_data, 2 status, 3 key_id, 4 output_prefix_type}};
  KeysetInfo{1 primary_key_id, 2 key_info{1 type_url, 2 status, 3 key_id, 4 output_prefix_type}};
  EncryptedKeyset{2 encrypted_keyset, 3 keyset_info}.

  Numbers are the varint values on the wire: uint32 fields are < 2^32; an enum (int32) `e` is written
  by Go as `uint64(int64(e))`, so negative numbers appear as values ≥ 2^64 − 2^31.
  The key-encryption AEAD is a parameter (`Kek`): `enc` is `Encrypt` with its random bytes explicit.
-/
namespace TinkVerif.KInfo
open TinkVerif TinkVerif.Wire

structure FKey where
  typeUrl : Bytes
  value : Bytes
  material : Nat
  status : Nat
  keyId : Nat
  prefixType : Nat
  deriving DecidableEq, Repr

structure FKeyset where
  primary : Nat
  keys : List FKey
  deriving DecidableEq, Repr

/-! ### proto3 presence: scalar fields holding the zero value are not written -/

def optVar (f n : Nat) : Msg := if n = 0 then [] else [(f, .varint n)]
def optBytes (f : Nat) (b : Bytes) : Msg := if b = [] then [] else [(f, .bytes b)]

/-- tinkpb.KeyData -/
def keyDataMsg (k : FKey) : Msg := optBytes 1 k.typeUrl ++ optBytes 2 k.value ++ optVar 3 k.material

/-- tinkpb.Keyset.Key; `key_data` is a non-nil message in every keyset a handle produces, so the
    field is always written (with length 0 if all three members are default) -/
def keyMsg (k : FKey) : Msg :=
  [(1, .bytes (encode (keyDataMsg k)))] ++ optVar 2 k.status ++ optVar 3 k.keyId ++ optVar 4 k.prefixType

/-- tinkpb.Keyset -/
def toWire (ks : FKeyset) : Msg :=
  optVar 1 ks.primary ++ ks.keys.map fun k => (2, .bytes (encode (keyMsg k)))

/-! ### KeysetInfo -/

/-- the four things `getKeyInfo` copies -/
structure Meta where
  typeUrl : Bytes
  status : Nat
  keyId : Nat
  prefixType : Nat
  deriving DecidableEq, Repr

def FKey.meta (k : FKey) : Meta := ⟨k.typeUrl, k.status, k.keyId, k.prefixType⟩

/-- tinkpb.KeysetInfo.KeyInfo -/
def keyInfoMsg (m : Meta) : Msg :=
  optBytes 1 m.typeUrl ++ optVar 2 m.status ++ optVar 3 m.keyId ++ optVar 4 m.prefixType

/-- tinkpb.KeysetInfo from primary id and per-key metadata -/
def infoMsg (primary : Nat) (ms : List Meta) : Msg :=
  optVar 1 primary ++ ms.map fun m => (2, .bytes (encode (keyInfoMsg m)))

/-- `getKeysetInfo` -/
def info (ks : FKeyset) : Msg := infoMsg ks.primary (ks.keys.map FKey.meta)

/-! ### EncryptedKeyset -/

/-- what `encrypt` returns: `keyset_info` is always a non-nil message -/
def encryptedKeyset (ciphertext : Bytes) (ks : FKeyset) : Msg :=
  optBytes 2 ciphertext ++ [(3, .bytes (encode (info ks)))]

/-- `BinaryWriter.WriteEncrypted`: a fresh EncryptedKeyset holding the ciphertext only -/
def binaryForm (ciphertext : Bytes) : Msg := optBytes 2 ciphertext

/-- `GetEncryptedKeyset()` of a parsed EncryptedKeyset: the last field 2 of wire type bytes wins, empty if absent -/
def ctStep (acc : Bytes) (f : Nat × Val) : Bytes :=
  match f with
  | (2, .bytes b) => b
  | _ => acc

def ciphertextOf (m : Msg) : Bytes := m.foldl ctStep []

/-! ### UTF-8 (`utf8.Valid`, enforced by Go's proto3 string fields on Marshal and Unmarshal) -/

inductive U8St | s0 | c1 | c2 | c3 | e0 | ed | f0 | f4
  deriving DecidableEq, Repr

def utf8Step (s : U8St) (b : UInt8) : Option U8St :=
  let cont := 0x80 ≤ b && b ≤ 0xBF
  match s with
  | .s0 =>
    if b < 0x80 then some .s0
    else if 0xC2 ≤ b && b ≤ 0xDF then some .c1
    else if b == 0xE0 then some .e0
    else if b == 0xED then some .ed
    else if 0xE1 ≤ b && b ≤ 0xEF then some .c2
    else if b == 0xF0 then some .f0
    else if 0xF1 ≤ b && b ≤ 0xF3 then some .c3
    else if b == 0xF4 then some .f4
    else none
  | .c1 => if cont then some .s0 else none
  | .c2 => if cont then some .c1 else none
  | .c3 => if cont then some .c2 else none
  | .e0 => if 0xA0 ≤ b && b ≤ 0xBF then some .c1 else none
  | .ed => if 0x80 ≤ b && b ≤ 0x9F then some .c1 else none
  | .f0 => if 0x90 ≤ b && b ≤ 0xBF then some .c2 else none
  | .f4 => if 0x80 ≤ b && b ≤ 0x8F then some .c2 else none

def utf8Valid (b : Bytes) : Bool := b.foldlM utf8Step U8St.s0 == some U8St.s0

/-! ### `proto.Unmarshal` into tinkpb.Keyset -/

/-- a uint32 field keeps the low 32 bits of the varint -/
def u32 (v : Nat) : Nat := v % 4294967296

/-- an enum field keeps the low 32 bits as an int32; as a Marshal value that is its sign extension -/
def enum32 (v : Nat) : Nat :=
  if v % 4294967296 < 2147483648 then v % 4294967296 else v % 4294967296 + 18446744069414584320

def FKey.empty : FKey := ⟨[], [], 0, 0, 0, 0⟩

/-- one field of a KeyData message merged into `k` -/
def kdStep (k : FKey) (f : Nat × Val) : Option FKey :=
  match f with
  | (1, .bytes b) => if utf8Valid b then some { k with typeUrl := b } else none
  | (2, .bytes b) => some { k with value := b }
  | (3, .varint v) => some { k with material := enum32 v }
  | _ => some k      -- unknown field number, or known number with another wire type: kept aside, not interpreted

/-- one field of a Keyset.Key message merged into `k` -/
def keyStep (k : FKey) (f : Nat × Val) : Option FKey :=
  match f with
  | (1, .bytes b) => match decode b with
    | none => none
    | some m => m.foldlM kdStep k
  | (2, .varint v) => some { k with status := enum32 v }
  | (3, .varint v) => some { k with keyId := u32 v }
  | (4, .varint v) => some { k with prefixType := enum32 v }
  | _ => some k

/-- one field of a Keyset message merged into `ks` -/
def ksStep (ks : FKeyset) (f : Nat × Val) : Option FKeyset :=
  match f with
  | (1, .varint v) => some { ks with primary := u32 v }
  | (2, .bytes b) => match decode b with
    | none => none
    | some m => match m.foldlM keyStep FKey.empty with
      | none => none
      | some k => some { ks with keys := ks.keys ++ [k] }
  | _ => some ks

def fromWire (m : Msg) : Option FKeyset := m.foldlM ksStep ⟨0, []⟩

/-- `proto.Unmarshal(bytes, &tinkpb.Keyset{})`, on canonically encoded input (the strict decoder) -/
def parseKeyset (b : Bytes) : Option FKeyset :=
  match decode b with
  | none => none
  | some m => fromWire m

/-! ### encrypted write and read -/

/-- a key-encryption AEAD (tink.AEAD): `enc rnd pt ad` is `Encrypt(pt, ad)` drawing the random bytes
    `rnd`; `dec ct ad` is `Decrypt` -/
structure Kek where
  enc : (rnd pt ad : Bytes) → Bytes
  dec : (ct ad : Bytes) → Option Bytes

/-- `Handle.WriteWithAssociatedData` up to the writer: the EncryptedKeyset message handed to it -/
def writeEncrypted (kek : Kek) (ad rnd : Bytes) (ks : FKeyset) : Msg :=
  encryptedKeyset (kek.enc rnd (encode (toWire ks)) ad) ks

/-- … and the bytes `BinaryWriter` puts out for it -/
def writeBinary (kek : Kek) (ad rnd : Bytes) (ks : FKeyset) : Bytes :=
  encode (binaryForm (ciphertextOf (writeEncrypted kek ad rnd ks)))

/-- `decrypt`: ciphertext field → `Decrypt` with the caller's associated data → `proto.Unmarshal` -/
def readEncrypted (kek : Kek) (ad : Bytes) (m : Msg) : Option FKeyset :=
  match kek.dec (ciphertextOf m) ad with
  | none => none
  | some pt => parseKeyset pt

/-- `BinaryReader.ReadEncrypted` + `decrypt` -/
def readBinary (kek : Kek) (ad : Bytes) (b : Bytes) : Option FKeyset :=
  match decode b with
  | none => none
  | some m => readEncrypted kek ad m

end TinkVerif.KInfo
