import TinkVerif.Model.Framing
/-
  Model of the signature wrappers of tink-go (signature/*/verifier.go, signer.go): output-prefix
  check, LEGACY 0x00 suffix on the message, IEEE-P1363 fixed-width encoding. The raw scheme
  (`rawVerify sig msg`) is abstract; DER strictness is modelled in Model/Der.lean.
-/
namespace TinkVerif.Sig
open TinkVerif

/-- `Verify`: the signature must start with the key's prefix; the rest is checked by the raw scheme
    over the message (‖ 0x00 for LEGACY) -/
def fullVerify (pre : Bytes) (v : Variant) (rawVerify : Bytes → Bytes → Bool) (sig msg : Bytes) : Bool :=
  if pre.isPrefixOf sig then rawVerify (sig.drop pre.length) (legacyMsg v msg) else false

/-- `Sign`: prefix ‖ raw signature over the message (‖ 0x00 for LEGACY) -/
def fullSign (pre : Bytes) (v : Variant) (rawSign : Bytes → Bytes) (msg : Bytes) : Bytes :=
  pre ++ rawSign (legacyMsg v msg)

/-- IEEE P1363: r ‖ s, each as `n` big-endian bytes -/
def p1363Encode (n r s : Nat) : Bytes := Bytes.ofNatBE n r ++ Bytes.ofNatBE n s

/-- `IEEEP1363DecodeWithCurve`: exact length 2n, otherwise an error -/
def p1363Decode (n : Nat) (b : Bytes) : Option (Nat × Nat) :=
  if b.length ≠ 2 * n then none else some (Bytes.toNatBE (b.take n), Bytes.toNatBE (b.drop n))

/-- scalar byte length per curve (`ieeeSignatureSize / 2`) -/
def scalarLen : String → Option Nat
  | "P256" => some 32 | "P384" => some 48 | "P521" => some 66 | _ => none

/-- RSA key guards (`internal/signature/rsa*.go`): modulus ≥ 2048 bits, e = 65537, hash ∈ {256,384,512} -/
def rsaParamsOk (modBits e : Nat) (hashOk : Bool) : Bool := decide (2048 ≤ modBits) && e == 65537 && hashOk

end TinkVerif.Sig
