import TinkVerif.Model.Manager
import TinkVerif.Model.Hmac
/-
  Model of keyderivation/keyset_deriver_factory.go + prfbasedkeyderivation: `DeriveKeyset(salt)` is
  a sequence of keyset-manager operations (Model/Manager.lean: `AddKeyWithOpts(key, WithFixedID(id))`,
  `SetPrimary`) over the ENABLED entries of the deriver keyset, followed by `Handle()`; each derived
  key's material is the leading bytes of the HKDF stream keyed by the deriver's PRF key.
-/
namespace TinkVerif.Derive
open TinkVerif TinkVerif.Manager

structure DEntry where
  id : Nat
  status : Status
  isPrimary : Bool
  idReq : Option Nat   -- id requirement of the deriver key = id requirement of the derived key
  key : Nat            -- token of the key derived from this entry
  deriving Repr

def enabled (es : List DEntry) : List DEntry := es.filter (·.status = .enabled)

/-- `primaryKeyID` as the factory computes it: id of the last ENABLED entry flagged primary, default 0 -/
def primaryId (es : List DEntry) : Nat :=
  match (enabled es).reverse.find? (·.isPrimary) with
  | some e => e.id
  | none => 0

/-- one iteration of the loop in `DeriveKeyset`; `none` when an operation fails -/
def deriveStep (pid : Nat) (s : MState) (e : DEntry) : Option MState :=
  let r := step s (.addKeyOpts false e.key e.idReq [.withFixedID e.id] [])
  if r.2.isErr then none
  else if e.id = pid then
    let r2 := step r.1 (.setPrimary e.id)
    if r2.2.isErr then none else some r2.1
  else some r.1

def deriveLoop (pid : Nat) : MState → List DEntry → Option MState
  | s, [] => some s
  | s, e :: es => match deriveStep pid s e with
    | none => none
    | some s' => deriveLoop pid s' es

/-- `DeriveKeyset` at the keyset level: the derived handle, or `none` on any error -/
def deriveKeyset (es : List DEntry) : Option Handle :=
  match deriveLoop (primaryId es) init (enabled es) with
  | none => none
  | some s => Manager.handle s

/-- key material of a derived key: the first `need` bytes of HKDF(prfKey, prfSalt, info = salt) -/
def material (mac : Bytes → Bytes → Bytes) (hashLen : Nat) (prfKey prfSalt salt : Bytes) (need : Nat) : Bytes :=
  (Hmac.expand mac hashLen (Hmac.extract mac prfSalt prfKey) salt need)

end TinkVerif.Derive
