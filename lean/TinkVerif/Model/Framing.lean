import TinkVerif.Base.Bytes
/-
  Output-prefix framing shared by every "full" primitive (internal/outputprefix, */key.go
  `calculateOutputPrefix`): TINK = 01 ‖ be32 id, CRUNCHY and LEGACY = 00 ‖ be32 id, RAW = empty;
  LEGACY additionally appends one 0x00 byte to the authenticated/signed message.
-/
namespace TinkVerif

inductive Variant
  | tink | crunchy | legacy | raw
  deriving DecidableEq, Repr, Inhabited

def Variant.ofCode? : String → Option Variant
  | "T" => some .tink | "C" => some .crunchy | "L" => some .legacy | "R" => some .raw | _ => none

def outputPrefix (v : Variant) (id : Nat) : Bytes :=
  match v with
  | .tink => 1 :: Bytes.be32 id
  | .crunchy => 0 :: Bytes.be32 id
  | .legacy => 0 :: Bytes.be32 id
  | .raw => []

/-- message actually fed to the raw primitive -/
def legacyMsg (v : Variant) (m : Bytes) : Bytes :=
  match v with
  | .legacy => m ++ [0]
  | _ => m

@[simp] theorem outputPrefix_length (v : Variant) (id : Nat) :
    (outputPrefix v id).length = if v = .raw then 0 else 5 := by
  cases v <;> simp [outputPrefix, Bytes.be32]

/-- TINK and CRUNCHY/LEGACY prefixes never coincide; equal variants with different ids (< 2³²) differ. -/
theorem outputPrefix_tink_ne_crunchy (id id' : Nat) : outputPrefix .tink id ≠ outputPrefix .crunchy id' := by
  simp [outputPrefix]

theorem outputPrefix_inj (v : Variant) (hv : v ≠ .raw) (id id' : Nat) (h1 : id < 4294967296)
    (h2 : id' < 4294967296) (h : outputPrefix v id = outputPrefix v id') : id = id' := by
  cases v <;> simp only [outputPrefix, List.cons.injEq, true_and, ne_eq, not_true_eq_false] at h hv
  all_goals exact Bytes.ofNatBE_inj 4 id id' (by omega) (by omega) h

end TinkVerif
