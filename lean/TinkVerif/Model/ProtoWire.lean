import TinkVerif.Base.Bytes
/-
  Protocol-buffer wire format (the subset tink-go's key, parameter and keyset messages use): base-128
  varints, tags, length-delimited fields, fixed32/fixed64.  The decoder is *strict*: it accepts only
  minimal varints, so `encode ∘ decode = id` holds on what it accepts (canonical form).
-/
namespace TinkVerif.Wire
open TinkVerif

/-- varint encoding of `n` (little-endian base 128, continuation bit on all but the last byte) -/
def encVarint (n : Nat) : Bytes :=
  if h : n < 128 then [UInt8.ofNat n]
  else UInt8.ofNat (n % 128 + 128) :: encVarint (n / 128)
termination_by n
decreasing_by omega

/-- strict varint decoding with fuel (at most 10 bytes for 64-bit values): value and rest;
    rejects over-long (non-minimal) encodings and values ≥ 2^64 -/
def decVarintAux : Nat → Bytes → Option (Nat × Bytes)
  | 0, _ => none
  | _ + 1, [] => none
  | fuel + 1, b :: rest =>
    if b.toNat < 128 then some (b.toNat, rest)
    else match decVarintAux fuel rest with
      | none => none
      | some (hi, rest') =>
        if hi = 0 then none          -- a continuation followed by a zero group: not minimal
        else some (b.toNat - 128 + 128 * hi, rest')

def decVarint (b : Bytes) : Option (Nat × Bytes) :=
  match decVarintAux 10 b with
  | some (v, rest) => if v < 2 ^ 64 then some (v, rest) else none
  | none => none

inductive Val
  | varint (n : Nat)        -- wire type 0: int32/int64/uint32/uint64/bool/enum
  | fixed64 (b : Bytes)     -- wire type 1 (8 bytes)
  | bytes (b : Bytes)       -- wire type 2: bytes, string, embedded message
  | fixed32 (b : Bytes)     -- wire type 5 (4 bytes)
  deriving DecidableEq, Repr

def Val.wireType : Val → Nat
  | .varint _ => 0 | .fixed64 _ => 1 | .bytes _ => 2 | .fixed32 _ => 5

abbrev Msg := List (Nat × Val)     -- (field number, value) in wire order

def encField (f : Nat × Val) : Bytes :=
  encVarint (f.1 * 8 + f.2.wireType) ++
  match f.2 with
  | .varint n => encVarint n
  | .fixed64 b => b
  | .bytes b => encVarint b.length ++ b
  | .fixed32 b => b

def encode (m : Msg) : Bytes := (m.map encField).flatten

def decField (b : Bytes) : Option ((Nat × Val) × Bytes) :=
  match decVarint b with
  | none => none
  | some (tag, rest) =>
    let fno := tag / 8
    if fno = 0 then none else
    match tag % 8 with
    | 0 => (decVarint rest).map fun (v, r) => ((fno, .varint v), r)
    | 1 => if rest.length < 8 then none else some ((fno, .fixed64 (rest.take 8)), rest.drop 8)
    | 2 => match decVarint rest with
      | none => none
      | some (len, r) => if r.length < len then none else some ((fno, .bytes (r.take len)), r.drop len)
    | 5 => if rest.length < 4 then none else some ((fno, .fixed32 (rest.take 4)), rest.drop 4)
    | _ => none

def decodeAux : Nat → Bytes → Option Msg
  | 0, b => if b.isEmpty then some [] else none
  | fuel + 1, b =>
    if b.isEmpty then some []
    else match decField b with
      | none => none
      | some (f, rest) => (decodeAux fuel rest).map (f :: ·)

def decode (b : Bytes) : Option Msg := decodeAux b.length b

/-- well-formed values: what `encode` can represent faithfully -/
def Val.WF : Val → Prop
  | .varint n => n < 2 ^ 64
  | .fixed64 b => b.length = 8
  | .bytes b => b.length < 2 ^ 64
  | .fixed32 b => b.length = 4

def Msg.WF (m : Msg) : Prop := ∀ f ∈ m, 1 ≤ f.1 ∧ f.1 < 2 ^ 29 ∧ f.2.WF

end TinkVerif.Wire
