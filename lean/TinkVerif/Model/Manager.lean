/-
  Model of keyset/manager.go + the parts of keyset/handle.go it relies on
  (`newFromEntries`, `NewManagerFromHandle`).

  Keys are opaque tokens (`Nat`): key generation / parsing is outside the model, only its
  success or failure enters (`genOk`).  Random key ids are a parameter of the step
  (`draws`: the successive 32-bit words the random source returned during the call), so the
  model is a deterministic monitor of `newRandomKeyID`'s redraw loop.
-/
namespace TinkVerif.Manager

inductive Status
  | unknown | enabled | disabled | destroyed
  deriving DecidableEq, Repr, Inhabited

structure MEntry where
  key : Nat
  id : Nat
  status : Status
  isPrimary : Bool
  deriving DecidableEq, Repr, Inhabited

structure MState where
  entries : List MEntry
  unavail : List Nat
  deriving Repr, Inhabited

/-- a keyset handle as the manager sees it: the entry list (`primaryKeyEntry` is derived). -/
abbrev Handle := List MEntry

/-- options of the internal `AddKeyWithOpts`. -/
inductive KOpt
  | withStatus (s : Status)
  | withFixedID (id : Nat)
  | asPrimary
  deriving Repr

inductive Op
  /-- `Add(template)` / `AddNewKeyFromParameters`: `tmplOk = false` models a nil template or an
      UNKNOWN prefix type (rejected before anything happens); `genOk` is whether key creation
      succeeded; `key` is the token given to the fresh key. -/
  | add (tmplOk genOk : Bool) (key : Nat) (draws : List Nat)
  /-- public `AddKey(key)`; `idReq` is `key.IDRequirement()`; `keyNil` models a nil key. -/
  | addKey (keyNil : Bool) (key : Nat) (idReq : Option Nat) (draws : List Nat)
  /-- internal `AddKeyWithOpts` -/
  | addKeyOpts (keyNil : Bool) (key : Nat) (idReq : Option Nat) (opts : List KOpt) (draws : List Nat)
  | setPrimary (id : Nat)
  | enable (id : Nat)
  | disable (id : Nat)
  | delete (id : Nat)
  deriving Repr

inductive Out
  | okId (id : Nat)
  | ok
  | err
  /-- the supplied draws do not describe a terminating run of `newRandomKeyID` -/
  | stuck
  deriving DecidableEq, Repr

def Out.isErr : Out → Bool
  | .err => true
  | .stuck => true
  | _ => false

def init : MState := { entries := [], unavail := [] }

/-- `newRandomKeyID`: first drawn word that is not unavailable; it becomes unavailable. -/
def drawId (unavail : List Nat) : List Nat → Option Nat
  | [] => none
  | d :: ds => if d ∈ unavail then drawId unavail ds else some d

def findEntry (es : List MEntry) (id : Nat) : Option MEntry := es.find? (·.id == id)

/-- state of the partially built entry while options are applied -/
structure Pending where
  fixedID : Nat
  hasFixedID : Bool
  status : Status
  isPrimary : Bool

def applyOpt (idReq : Option Nat) (p : Pending) : KOpt → Option Pending
  | .withStatus s => some { p with status := s }
  | .withFixedID id =>
    match idReq with
    | some r => if r != id then none else some { p with fixedID := id, hasFixedID := true }
    | none => some { p with fixedID := id, hasFixedID := true }
  | .asPrimary => some { p with isPrimary := true }

def applyOpts (idReq : Option Nat) (p : Pending) : List KOpt → Option Pending
  | [] => some p
  | o :: os => match applyOpt idReq p o with
    | none => none
    | some p' => applyOpts idReq p' os

def clearPrimary (es : List MEntry) : List MEntry := es.map fun e => { e with isPrimary := false }

def addKeyWithOpts (s : MState) (keyNil : Bool) (key : Nat) (idReq : Option Nat)
    (opts : List KOpt) (draws : List Nat) : MState × Out :=
  if keyNil then (s, .err) else
  let p0 : Pending := { fixedID := idReq.getD 0, hasFixedID := idReq.isSome,
                        status := .enabled, isPrimary := false }
  match applyOpts idReq p0 opts with
  | none => (s, .err)
  | some p =>
    if p.status = .unknown then (s, .err) else
    if p.isPrimary && p.status ≠ .enabled then (s, .err) else
    -- NB: the code clears the other primaries *before* the id collision check.
    let es := if p.isPrimary then clearPrimary s.entries else s.entries
    if p.hasFixedID then
      if p.fixedID ∈ s.unavail then ({ s with entries := es }, .err)
      else
        ({ entries := es ++ [{ key := key, id := p.fixedID, status := p.status, isPrimary := p.isPrimary }],
           unavail := p.fixedID :: s.unavail }, .okId p.fixedID)
    else
      match drawId s.unavail draws with
      | none => ({ s with entries := es }, .stuck)
      | some id =>
        ({ entries := es ++ [{ key := key, id := id, status := p.status, isPrimary := p.isPrimary }],
           unavail := id :: s.unavail }, .okId id)

def setStatus (es : List MEntry) (id : Nat) (st : Status) : List MEntry :=
  es.map fun e => if e.id == id then { e with status := st } else e

def step (s : MState) : Op → MState × Out
  | .add tmplOk genOk key draws =>
    if !tmplOk then (s, .err) else
    match drawId s.unavail draws with
    | none => (s, .stuck)
    | some id =>
      -- the id is consumed even if key creation fails
      if !genOk then ({ s with unavail := id :: s.unavail }, .err)
      else ({ entries := s.entries ++ [{ key := key, id := id, status := .enabled, isPrimary := false }],
              unavail := id :: s.unavail }, .okId id)
  | .addKey keyNil key idReq draws => addKeyWithOpts s keyNil key idReq [] draws
  | .addKeyOpts keyNil key idReq opts draws => addKeyWithOpts s keyNil key idReq opts draws
  | .setPrimary id =>
    match findEntry s.entries id with
    | none => (s, .err)
    | some e =>
      if e.status ≠ .enabled then (s, .err)
      else ({ s with entries := s.entries.map fun x => { x with isPrimary := x.id == id } }, .ok)
  | .enable id =>
    match findEntry s.entries id with
    | none => (s, .err)
    | some e =>
      if e.status ≠ .disabled ∧ e.status ≠ .enabled then (s, .err)
      else ({ s with entries := setStatus s.entries id .enabled }, .ok)
  | .disable id =>
    match findEntry s.entries id with
    | none => (s, .err)
    | some e =>
      if e.isPrimary then (s, .err)
      else if e.status ≠ .enabled ∧ e.status ≠ .disabled then (s, .err)
      else ({ s with entries := setStatus s.entries id .disabled }, .ok)
  | .delete id =>
    match findEntry s.entries id with
    | none => (s, .err)
    | some e =>
      if e.isPrimary then (s, .err)
      else ({ s with entries := s.entries.eraseP (·.id == id) }, .ok)

/-- The op belongs to the public API surface the property lists
    (everything except the internal-token `AddKeyWithOpts`). -/
def Op.isPublic : Op → Bool
  | .addKeyOpts .. => false
  | _ => true

def run (s : MState) : List Op → MState
  | [] => s
  | op :: ops => run (step s op).1 ops

/-- `Manager.Handle()` → `newFromEntries`: error on an Unknown status or when no entry is
    flagged primary; otherwise a handle with a *copy* of the entries. -/
def handle (s : MState) : Option Handle :=
  if s.entries.any (·.status = .unknown) then none
  else if s.entries.any (·.isPrimary) then some s.entries
  else none

/-- `primaryKeyEntry` of `newFromEntries`: the last entry flagged primary. -/
def Handle.primary (h : Handle) : Option MEntry := (h.reverse.find? (·.isPrimary))

/-- `NewManagerFromHandle` -/
def fromHandle (h : Handle) : MState :=
  { entries := h, unavail := h.map (·.id) }

end TinkVerif.Manager
