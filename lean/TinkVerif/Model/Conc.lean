/-
  Interleaving model for concurrent use of one shared object (C18).

  A primitive obtained from a handle is a value `σ` shared by all goroutines.  A call is a sequence
  of atomic steps; a step may read the shared object and read/write the call's own local memory.
  In general a step could also *write* the shared object (`step` returns a new shared value) — the
  property holds for the code base because no step does (`ReadOnly`), which is what the regenerated
  mutation facts (`Gen/MutFacts.lean`) establish syntactically for the real code.
-/
namespace TinkVerif.Conc

/-- one thread's program over shared state `S` and local state `L` -/
structure Prog (S L : Type) where
  step : S → L → S × L

/-- a configuration: the shared object and every thread's local memory -/
structure Config (S L : Type) where
  shared : S
  locals : Nat → L

/-- thread `i` takes one step -/
def Config.stepThread {S L : Type} (p : Nat → Prog S L) (c : Config S L) (i : Nat) : Config S L :=
  let r := (p i).step c.shared (c.locals i)
  { shared := r.1, locals := fun j => if j = i then r.2 else c.locals j }

/-- run a schedule (the sequence of thread ids chosen by the scheduler) -/
def run {S L : Type} (p : Nat → Prog S L) (c : Config S L) (sch : List Nat) : Config S L :=
  sch.foldl (Config.stepThread p) c

/-- what thread `i` computes when it runs alone for `k` steps on shared object `s` -/
def alone {S L : Type} (p : Prog S L) (s : S) (l : L) : Nat → L
  | 0 => l
  | k + 1 => alone p s (p.step s l).2 k

/-- no step writes the shared object -/
def ReadOnly {S L : Type} (p : Prog S L) : Prop := ∀ s l, (p.step s l).1 = s

end TinkVerif.Conc
