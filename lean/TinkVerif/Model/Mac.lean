import TinkVerif.Model.Framing
/-
  Model of the "full MAC" wrappers mac/hmac/mac.go and mac/aescmac/mac.go over a raw tag function
  (`raw` already includes the truncation to `tagSize`, as `mac/subtle` does).
-/
namespace TinkVerif.Mac
open TinkVerif

structure FullMac where
  pre : Bytes
  variant : Variant
  raw : Bytes → Bytes

def FullMac.compute (m : FullMac) (data : Bytes) : Bytes :=
  m.pre ++ m.raw (legacyMsg m.variant data)

/-- `VerifyMAC`: length check, prefix comparison, then constant-time comparison of the rest with
    the recomputed tag (equality of byte strings, lengths included). -/
def FullMac.verify (m : FullMac) (tag data : Bytes) : Bool :=
  if tag.length < m.pre.length then false
  else if tag.take m.pre.length ≠ m.pre then false
  else decide (tag.drop m.pre.length = m.raw (legacyMsg m.variant data))

/-- parameter guards of `subtle.ValidateHMACParams` / `ValidateCMACParams` -/
def validHmacParams (digestLen keyLen tagLen : Nat) : Bool :=
  tagLen ≤ digestLen && 10 ≤ tagLen && 16 ≤ keyLen

def validCmacParams (keyLen tagLen : Nat) : Bool :=
  keyLen == 32 && 10 ≤ tagLen && tagLen ≤ 16

end TinkVerif.Mac
