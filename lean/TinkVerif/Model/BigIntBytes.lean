import TinkVerif.Base.Bytes
/-!
  Big-integer byte-string helpers used by tink-go's proto (de)serializers of EC and RSA keys
  (property C12: "leading-zero handling of big integers").  Every definition mirrors one Go
  function, including its error cases; the driver (`Driver/BigInt.lean`, first token `N`) executes
  them against the real helpers.

  Go                                                        | here
  ----------------------------------------------------------+---------------------------
  internal/ec.BigIntBytesToFixedSizeBuffer(b, n)            | `toFixed b n`
  internal/signature.Pad(b, n)                              | `pad b n`
  internal/signature.AdjustEncodingLengths(n,p,q,d,dp,dq,c) | `adjustEncodingLengths`
  new(big.Int).SetBytes(b).Bytes()   (removeLeadingZeros)   | `minimal b`
  new(big.Int).SetUint64(v).Bytes()                         | `natBytes v`
  signature/ecdsa.validateEncodingAndGetCoordinates         | `pointCoords`
  signature/ecdsa.encodePoint                               | `encodePoint`
  hybrid/ecies parsePublicKey: slices.Concat({4}, x, y)     | `concatPoint`
  signature/ecdsa.privateKeyValue                           | `privateKeyValue`
  serializers: x, y, d written with BigInt…(c, size+1)      | `protoCoord`
  parsers:     x, y, d read    with BigInt…(f, size)        | `parseCoord`
-/
namespace TinkVerif.BigIntBytes
open TinkVerif

/-! ### `internal/ec/ec.go` -/

/-- `BigIntBytesToFixedSizeBuffer(bigIntBytes, size)`:
    equal length → unchanged; shorter → left-padded with zeros; longer → the leading
    `len - size` bytes must all be zero (else error) and are removed. -/
def toFixed (b : Bytes) (n : Nat) : Option Bytes :=
  if b.length = n then some b
  else if b.length < n then some (Bytes.zeros (n - b.length) ++ b)
  else if (b.take (b.length - n)).all (· == 0) then some (b.drop (b.length - n))
  else none

/-! ### `internal/signature/rsa.go` -/

/-- `Pad(toPad, encodingLength)`: error if longer; unchanged if equal; else left-pad with zeros. -/
def pad (b : Bytes) (n : Nat) : Option Bytes :=
  if b.length > n then none
  else if b.length = n then some b
  else some (Bytes.zeros (n - b.length) ++ b)

/-- Result of `AdjustEncodingLengths`: the four re-encoded values, in Go's return order. -/
structure Adjusted where
  d : Bytes
  dp : Bytes
  dq : Bytes
  crt : Bytes
deriving DecidableEq, Repr

/-- `AdjustEncodingLengths(n, p, q, d, dp, dq, crt)`: dp → len p, dq → len q, crt → len p,
    d → len n, checked in this order; the error names the first field that does not fit. -/
def adjustEncodingLengths (n p q d dp dq crt : Bytes) : Except String Adjusted :=
  match pad dp p.length with
  | none => .error "dp"
  | some dp' =>
    match pad dq q.length with
    | none => .error "dq"
    | some dq' =>
      match pad crt p.length with
      | none => .error "crt"
      | some crt' =>
        match pad d n.length with
        | none => .error "d"
        | some d' => .ok { d := d', dp := dp', dq := dq', crt := crt' }

/-! ### `math/big` -/

/-- `new(big.Int).SetBytes(b).Bytes()` (tink's `removeLeadingZeros`): big-endian without leading
    zero bytes; the value zero is the empty string. -/
def minimal (b : Bytes) : Bytes := b.dropWhile (· == 0)

/-- A byte string is in minimal form when it does not start with a zero byte. -/
def Minimal (b : Bytes) : Prop := b.head? ≠ some 0

instance (b : Bytes) : Decidable (Minimal b) := by unfold Minimal; infer_instance

/-- `new(big.Int).SetUint64(v).Bytes()` / `x.Bytes()` of a non-negative big integer of value `v`. -/
def natBytes (v : Nat) : Bytes :=
  if _h : v = 0 then [] else natBytes (v / 256) ++ [UInt8.ofNat (v % 256)]
termination_by v
decreasing_by omega

/-! ### EC points and coordinates (`signature/ecdsa`, `jwt/jwtecdsa`, `hybrid/ecies`) -/

/-- `coordinateSizeForCurve`: P-256 → 32, P-384 → 48, P-521 → 66 (curve named by its bit size). -/
def coordinateSizeForCurve (curveBits : Nat) : Option Nat :=
  if curveBits = 256 then some 32
  else if curveBits = 384 then some 48
  else if curveBits = 521 then some 66
  else none

/-- serializer side of one coordinate / private scalar: `BigIntBytesToFixedSizeBuffer(c, size+1)`,
    i.e. the proto field always carries (at least) one extra leading 0x00 (b/264525021). -/
def protoCoord (c : Bytes) (cs : Nat) : Option Bytes := toFixed c (cs + 1)

/-- parser side of one coordinate / private scalar: `BigIntBytesToFixedSizeBuffer(f, size)`. -/
def parseCoord (f : Bytes) (cs : Nat) : Option Bytes := toFixed f cs

/-- `ecdsa.privateKeyValue(curve, keyBytes)`: both branches of the Go `if` call
    `BigIntBytesToFixedSizeBuffer(keyBytes, coordinateSize)`. -/
def privateKeyValue (keyBytes : Bytes) (cs : Nat) : Option Bytes :=
  if cs > keyBytes.length then toFixed keyBytes cs else toFixed keyBytes cs

/-- `validateEncodingAndGetCoordinates(publicPoint, curve)` (same code inline in ECIES and
    JWT-ECDSA): length must be `2*size+1`, first byte 0x04, then both halves are re-encoded
    with `size+1` bytes. -/
def pointCoords (pt : Bytes) (cs : Nat) : Option (Bytes × Bytes) :=
  if pt.length ≠ 2 * cs + 1 then none
  else if pt.head? ≠ some 4 then none
  else
    let xy := pt.drop 1
    match toFixed (xy.take cs) (cs + 1) with
    | none => none
    | some x =>
      match toFixed (xy.drop cs) (cs + 1) with
      | none => none
      | some y => some (x, y)

/-- Go's `copy(buf[pos:], src)`: overwrites `min(len src, len buf - pos)` bytes (needs
    `pos ≤ len buf`). -/
def copyAt (buf : Bytes) (pos : Nat) (src : Bytes) : Bytes :=
  buf.take pos ++ src.take (buf.length - pos) ++ buf.drop (pos + min src.length (buf.length - pos))

/-- `ecdsa.encodePoint(x, y, size)`: a zeroed `1+2*size` buffer, byte 0 = 0x04, `x` copied so that
    it ends at `1+size`, `y` so that it ends at `1+2*size`.  A start position below zero is a slice
    panic in Go (`none` here); an over-long `x` of `size+1` bytes would overwrite the 0x04. -/
def encodePoint (x y : Bytes) (cs : Nat) : Option Bytes :=
  if x.length > 1 + cs ∨ y.length > 1 + 2 * cs then none
  else
    let buf : Bytes := 4 :: Bytes.zeros (2 * cs)
    let buf := copyAt buf (1 + cs - x.length) x
    some (copyAt buf (1 + 2 * cs - y.length) y)

/-- `slices.Concat([]byte{0x04}, x, y)` (ECIES parser). -/
def concatPoint (x y : Bytes) : Bytes := 4 :: (x ++ y)

/-! ### Key-level models: what the serializers / parsers do with the big-integer fields -/

/-- accessor view of an EC private key on a NIST curve: `PublicPoint()` / `PublicKeyBytes()` and
    `PrivateKeyValue()` / `PrivateKeyBytes()`. -/
structure EcKey where
  point : Bytes
  d : Bytes
deriving DecidableEq, Repr

/-- the three big-integer proto fields of `EcdsaPrivateKey` / `EciesAeadHkdfPrivateKey` /
    `JwtEcdsaPrivateKey`. -/
structure EcProto where
  x : Bytes
  y : Bytes
  keyValue : Bytes
deriving DecidableEq, Repr

/-- the invariant the key constructors establish (crypto/ecdh: fixed-size scalar, uncompressed
    point). -/
def EcKey.WellFormed (k : EcKey) (cs : Nat) : Prop :=
  k.point.length = 2 * cs + 1 ∧ k.point.head? = some 4 ∧ k.d.length = cs

/-- `SerializeKey` of the EC private key types, big-integer fields only. -/
def ecSerialize (k : EcKey) (cs : Nat) : Option EcProto :=
  match pointCoords k.point cs with
  | none => none
  | some (x, y) =>
    match protoCoord k.d cs with
    | none => none
    | some d => some { x := x, y := y, keyValue := d }

/-- `ParseKey` of the EC private key types, big-integer fields only (`ecdsaStyle`: the point is
    assembled by `encodePoint`, otherwise by `slices.Concat`). -/
def ecParse (pr : EcProto) (cs : Nat) (ecdsaStyle : Bool := true) : Option EcKey :=
  match parseCoord pr.x cs with
  | none => none
  | some x =>
    match parseCoord pr.y cs with
    | none => none
    | some y =>
      match (if ecdsaStyle then encodePoint x y cs else some (concatPoint x y)) with
      | none => none
      | some pt =>
        match privateKeyValue pr.keyValue cs with
        | none => none
        | some d => some { point := pt, d := d }

/-- accessor view of an RSA private key: every accessor returns `big.Int.Bytes()`, except that the
    JWT key types return the caller's modulus bytes verbatim. -/
structure RsaKey where
  n : Bytes
  e : Bytes
  p : Bytes
  q : Bytes
  d : Bytes
  dp : Bytes
  dq : Bytes
  crt : Bytes
deriving DecidableEq, Repr

/-- the proto has the same eight fields. -/
abbrev RsaProto := RsaKey

/-- `SerializeKey` of the RSA private key types: n, e, p, q as the accessors give them;
    d, dp, dq, crt through `AdjustEncodingLengths`. -/
def rsaSerialize (k : RsaKey) : Except String RsaProto :=
  match adjustEncodingLengths k.n k.p k.q k.d k.dp k.dq k.crt with
  | .error e => .error e
  | .ok a => .ok { k with d := a.d, dp := a.dp, dq := a.dq, crt := a.crt }

/-- `ParseKey` of the RSA private key types: every field goes through `big.Int.SetBytes` and comes
    back from the accessors as `Bytes()`; the JWT types (`jwt = true`) keep the modulus verbatim.
    (The parser recomputes dp, dq, crt from p, q, d and compares them with `minimal` of the proto
    fields; a key that passes has exactly these accessor values.) -/
def rsaParse (pr : RsaProto) (jwt : Bool := false) : RsaKey :=
  { n := if jwt then pr.n else minimal pr.n
    e := minimal pr.e
    p := minimal pr.p
    q := minimal pr.q
    d := minimal pr.d
    dp := minimal pr.dp
    dq := minimal pr.dq
    crt := minimal pr.crt }

/-- accessor invariant of RSA keys built by the library. -/
def RsaKey.WellFormed (k : RsaKey) (jwt : Bool := false) : Prop :=
  (jwt = false → Minimal k.n) ∧ Minimal k.e ∧ Minimal k.p ∧ Minimal k.q ∧ Minimal k.d ∧
    Minimal k.dp ∧ Minimal k.dq ∧ Minimal k.crt

end TinkVerif.BigIntBytes
