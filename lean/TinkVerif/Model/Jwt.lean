import TinkVerif.Base.Bytes
/-
  Model of the JWT decision logic of tink-go: jwt_encoding.go (`splitSignedCompact`, strict base64url,
  `validateHeader`, `extractTypeHeader`), raw_jwt.go (`validatePayload`), jwt_validator.go
  (`NewValidator`, `Validate`), the single-key verify flow (jwt_mac_kid.go / jwt_verifier_kid.go) and
  the keyset-level try-all loop with its "interesting error" rule.

  JSON text parsing (protobuf's structpb) is outside the model: header and payload arrive as parsed
  objects (`Obj`), or `none` when they are not JSON objects.  The raw signature/MAC check is an
  oracle bit per key.  Times are integers: claims in seconds, `now`/`skew` in nanoseconds.
-/
namespace TinkVerif.Jwt

/-- elements of a JSON array as far as the JWT logic looks at them -/
inductive Item
  | str (s : String) (utf8 : Bool)
  | other
  deriving DecidableEq, Repr

/-- JSON values as far as the JWT logic looks at them. A number is the exact decimal
    `mant · 10^exp10`. -/
inductive Val
  | null
  | bool (b : Bool)
  | num (mant : Int) (exp10 : Int)
  | str (s : String) (utf8 : Bool)
  | arr (items : List Item)
  | obj
  deriving DecidableEq, Repr

abbrev Obj := List (String × Val)

def Obj.get? (o : Obj) (k : String) : Option Val := (o.find? (·.1 == k)).map (·.2)

/-! ### compact serialization -/

def isB64Char (c : Char) : Bool :=
  ('a' ≤ c && c ≤ 'z') || ('A' ≤ c && c ≤ 'Z') || ('0' ≤ c && c ≤ '9') || c == '-' || c == '_'

/-- `base64Decode` succeeds: URL-safe alphabet only, no padding, length not ≡ 1 (mod 4) -/
def b64ok (s : List Char) : Bool := s.all isB64Char && s.length % 4 != 1

/-- number of bytes a valid unpadded base64 string decodes to -/
def b64len (s : List Char) : Nat := s.length * 6 / 8

/-- split at the last '.' -/
def splitLastDot (s : List Char) : Option (List Char × List Char) :=
  let r := s.reverse
  let sigR := r.takeWhile (· ≠ '.')
  if sigR.length = r.length then none
  else some ((r.drop (sigR.length + 1)).reverse, sigR.reverse)

/-- `splitSignedCompact`: returns (unsigned, signature part) -/
def splitSignedCompact (compact : List Char) : Option (List Char × List Char) :=
  match splitLastDot compact with
  | none => none
  | some (unsigned, sig) =>
    if !b64ok sig then none
    else if b64len sig = 0 then none
    else if unsigned.isEmpty then none
    else if (unsigned.filter (· == '.')).length ≠ 1 then none
    else some (unsigned, sig)

/-! ### header -/

structure KeyCfg where
  alg : String
  tinkKid : Option String     -- Base64EncodedKeyIDAsKID: kid derived from the key id (TINK keys)
  customKid : Option String   -- CustomKID (RAW keys)
  deriving Repr

def strField (o : Obj) (k : String) : Option String :=
  match o.get? k with
  | some (.str s _) => some s
  | _ => none

/-- `validateHeader` -/
def validateHeader (h : Obj) (k : KeyCfg) : Bool :=
  match strField h "alg" with
  | none => false
  | some alg =>
    if alg ≠ k.alg then false
    else if (h.get? "crit").isSome then false
    else if k.tinkKid.isSome ∧ k.customKid.isSome then false
    else
      let hasKid := (h.get? "kid").isSome
      match k.tinkKid with
      | some kid => if !hasKid then false else strField h "kid" == some kid
      | none =>
        match k.customKid with
        | some kid => if hasKid then strField h "kid" == some kid else true
        | none => true

/-- `extractTypeHeader`: `none` = error (typ present but not a string); `some none` = absent -/
def extractTyp (h : Obj) : Option (Option String) :=
  match h.get? "typ" with
  | none => some none
  | some (.str s _) => some (some s)
  | some _ => none

/-! ### payload -/

def tsMax : Int := 253402300799

/-- `int64(float)` truncation of an exact decimal; `none` when the magnitude is outside int64 (Go
    then yields a negative value on amd64, which the range check rejects as well) -/
def truncNum (m e : Int) : Option Int :=
  let v : Int := if e ≥ 0 then m * (10 : Int) ^ e.toNat else Int.tdiv m ((10 : Int) ^ (-e).toNat)
  if v ≥ 9223372036854775808 ∨ v < -9223372036854775808 then none else some v

def validTimeClaim (v : Val) : Bool :=
  match v with
  | .num m e => match truncNum m e with
    | some t => decide (0 ≤ t ∧ t ≤ tsMax)
    | none => false
  | _ => false

def validStringClaim (v : Val) : Bool :=
  match v with
  | .str _ utf8 => utf8
  | _ => false

def validAudience (v : Val) : Bool :=
  match v with
  | .str _ utf8 => utf8
  | .arr items => !items.isEmpty && items.all fun i => match i with | .str _ u => u | .other => false
  | _ => false

def isTimeClaim (k : String) : Bool := k == "exp" || k == "nbf" || k == "iat"
def isStringClaim (k : String) : Bool := k == "iss" || k == "sub" || k == "jti"

/-- `validatePayload` -/
def validatePayload (p : Obj) : Bool :=
  (match p.get? "aud" with | none => true | some v => validAudience v) &&
  p.all fun (k, v) =>
    (if isTimeClaim k then validTimeClaim v else true) && (if isStringClaim k then validStringClaim v else true)

/-! ### validator -/

structure VOpts where
  expectedTyp : Option String
  expectedIss : Option String
  expectedAud : Option String
  expectedAuds : Option String      -- the deprecated ExpectedAudiences field
  ignoreTyp : Bool
  ignoreAud : Bool
  ignoreIss : Bool
  allowMissingExp : Bool
  expectIat : Bool
  skewNs : Int
  nowNs : Int
  deriving Repr

/-- `NewValidator`: `none` = constructor error; otherwise the normalised options -/
def newValidator (o : VOpts) : Option VOpts :=
  if o.expectedAuds.isSome ∧ o.expectedAud.isSome then none else
  let o1 := if o.expectedAuds.isSome then { o with expectedAud := o.expectedAuds, expectedAuds := none } else o
  if o1.expectedTyp.isSome ∧ o1.ignoreTyp then none
  else if o1.expectedIss.isSome ∧ o1.ignoreIss then none
  else if o1.expectedAud.isSome ∧ o1.ignoreAud then none
  else if o1.skewNs > 600000000000 then none      -- ClockSkew.Minutes() > 10
  else some o1

/-- `validateFieldPresence` folded with the comparison: `ignore`, presence, expectation -/
def fieldRule (ignore : Bool) (present : Option Bool) (expected : Bool) : Bool :=
  -- `present = some matches` when the field is there (`matches`: equals / contains the expected value)
  if ignore then true
  else match present, expected with
    | none, false => true
    | some _, false => false
    | none, true => false
    | some m, true => m

def timeOf (p : Obj) (k : String) : Option Int :=
  match p.get? k with
  | some (.num m e) => truncNum m e
  | _ => none

def audiences (p : Obj) : List String :=
  match p.get? "aud" with
  | some (.str s _) => [s]
  | some (.arr items) => items.filterMap fun i => match i with | .str s _ => some s | .other => none
  | _ => []

/-- `Validator.Validate` on a payload that passed `validatePayload` -/
def validate (v : VOpts) (typ : Option String) (p : Obj) : Bool :=
  -- timestamps
  (match p.get? "exp" with
   | none => v.allowMissingExp
   | some _ => match timeOf p "exp" with
     | some exp => decide (exp * 1000000000 > v.nowNs - v.skewNs)
     | none => false) &&
  (match p.get? "nbf" with
   | none => true
   | some _ => match timeOf p "nbf" with
     | some nbf => decide (nbf * 1000000000 ≤ v.nowNs + v.skewNs)
     | none => false) &&
  (if v.expectIat then
     match timeOf p "iat" with
     | some iat => decide (iat * 1000000000 ≤ v.nowNs + v.skewNs)
     | none => false
   else true) &&
  -- typ, aud, iss
  fieldRule v.ignoreTyp (typ.map fun t => some t == v.expectedTyp) v.expectedTyp.isSome &&
  fieldRule v.ignoreAud ((p.get? "aud").map fun _ => match v.expectedAud with
      | some a => (audiences p).contains a | none => false) v.expectedAud.isSome &&
  fieldRule v.ignoreIss ((p.get? "iss").map fun _ => strField p "iss" == v.expectedIss ∧ v.expectedIss.isSome) v.expectedIss.isSome

/-! ### one key, then the keyset -/

inductive Outcome
  | accept
  | verificationErr     -- errJwtVerification
  | validationErr       -- an "interesting" error from the validator
  deriving DecidableEq, Repr

structure Token where
  compact : List Char
  header : Option Obj      -- independent parse of the decoded header (none: not a JSON object / no fields map)
  payload : Option Obj     -- likewise for the payload
  deriving Repr

/-- `VerifyMACAndDecodeWithKID` / `VerifyAndDecodeWithKID` for one key; `sigOk` is the raw
    primitive's verdict on (signature bytes, unsigned part) -/
def verifyOne (k : KeyCfg) (sigOk : Bool) (t : Token) (v : VOpts) : Outcome :=
  match splitSignedCompact t.compact with
  | none => .verificationErr
  | some (unsigned, _) =>
    if !sigOk then .verificationErr else
    -- decodeUnsignedTokenAndValidateHeader
    let parts := unsigned.splitOn '.'   -- exactly two parts here
    match parts with
    | [hpart, ppart] =>
      if !b64ok hpart then .verificationErr else
      match t.header with
      | none => .verificationErr
      | some h =>
        if !validateHeader h k then .verificationErr else
        match extractTyp h with
        | none => .verificationErr
        | some typ =>
          if !b64ok ppart then .verificationErr else
          match t.payload with
          | none => .verificationErr
          | some p =>
            if !validatePayload p then .verificationErr
            else if validate v typ p then .accept else .validationErr
    | _ => .verificationErr

/-- keyset level: every ENABLED key in order; first accept wins; otherwise an interesting error
    (the last one seen) wins over the plain verification error. `keys` = (key id, cfg, sigOk). -/
def verifyKeyset (keys : List (Nat × KeyCfg × Bool)) (t : Token) (v : VOpts) : Outcome × Option Nat :=
  let rec go : List (Nat × KeyCfg × Bool) → Bool → Outcome × Option Nat
    | [], interesting => (if interesting then .validationErr else .verificationErr, none)
    | (id, k, s) :: rest, interesting =>
      match verifyOne k s t v with
      | .accept => (.accept, some id)
      | .validationErr => go rest true
      | .verificationErr => go rest interesting
  go keys false

end TinkVerif.Jwt
