import TinkVerif.Model.Framing
import TinkVerif.Model.Ctr
import TinkVerif.Model.Cmac
/-
  Models of tink-go's AEAD primitives.

  * `Raw`: a nonce-based AEAD as the standard library provides it (`cipher.AEAD`): AES-GCM,
    ChaCha20-Poly1305, XChaCha20-Poly1305 are used through this interface.
  * `Full`: the framing every `aead/*/aead.go` adds: `prefix ‖ nonce ‖ Seal(...)`, length guard,
    prefix comparison (aead/aesgcm, chacha20poly1305, xchacha20poly1305).
  * `EtM`: AES-CTR + HMAC encrypt-then-MAC (aead/aesctrhmac), Tink's own composition.
  * `GcmSiv`: AES-GCM-SIV (internal/aead/aesgcmsiv.go), implemented in tink-go itself.
  * `Xaes`: XAES-256-GCM per-message key derivation (aead/xaesgcm).
  * `Envelope`: KMS envelope framing (aead/kms_envelope_aead.go).
  Random bytes are an explicit argument (`rnd`), so encryption is a function.
-/
namespace TinkVerif.Aead
open TinkVerif

structure Raw where
  nonceLen : Nat
  overhead : Nat
  sealF : (nonce pt ad : Bytes) → Bytes
  openF : (nonce ct ad : Bytes) → Option Bytes

structure Full where
  pre : Bytes
  raw : Raw

/-- `Encrypt` with the random nonce made explicit -/
def Full.encryptWith (a : Full) (rnd pt ad : Bytes) : Bytes :=
  a.pre ++ rnd ++ a.raw.sealF rnd pt ad

def Full.decrypt (a : Full) (ct ad : Bytes) : Option Bytes :=
  if ct.length < a.pre.length + a.raw.nonceLen + a.raw.overhead then none
  else if ct.take a.pre.length ≠ a.pre then none
  else
    let rest := ct.drop a.pre.length
    a.raw.openF (rest.take a.raw.nonceLen) (rest.drop a.raw.nonceLen) ad

/-! ### AES-CTR-HMAC (encrypt-then-MAC) -/

structure EtM where
  pre : Bytes
  E : Bytes → Bytes              -- AES under the encryption key
  mac : Bytes → Bytes            -- HMAC under the MAC key, full digest
  ivLen : Nat                    -- 12..16
  tagLen : Nat

/-- `newCipher`: an IV shorter than a block is zero-padded on the right -/
def padIV (iv : Bytes) : Bytes := iv ++ Bytes.zeros (16 - iv.length)

/-- the MAC input: ad ‖ iv ‖ ciphertext ‖ be64(8·|ad|) -/
def EtM.macInput (ad payload : Bytes) : Bytes := ad ++ payload ++ Bytes.be64 (8 * ad.length)

def EtM.encryptWith (a : EtM) (iv pt ad : Bytes) : Bytes :=
  let payload := iv ++ Ctr.xorBE a.E (padIV iv) pt
  a.pre ++ payload ++ (a.mac (EtM.macInput ad payload)).take a.tagLen

def EtM.decrypt (a : EtM) (ct ad : Bytes) : Option Bytes :=
  if ct.length < a.pre.length + a.ivLen + a.tagLen then none
  else if ct.take a.pre.length ≠ a.pre then none
  else
    let payload := (ct.drop a.pre.length).take (ct.length - a.pre.length - a.tagLen)
    let tag := ct.drop (ct.length - a.tagLen)
    if (a.mac (EtM.macInput ad payload)).take a.tagLen ≠ tag then none
    else some (Ctr.xorBE a.E (padIV (payload.take a.ivLen)) (payload.drop a.ivLen))

/-! ### AES-GCM-SIV (RFC 8452) -/

structure GcmSiv where
  aes : Bytes → Bytes → Bytes      -- key → block → block
  polyval : Bytes → Bytes → Bytes  -- 16-byte key → data (multiple of 16) → 16 bytes
  keyLen : Nat                     -- 16 or 32

/-- `deriveKeys`: counter (LE32) ‖ nonce, first 8 bytes of each encrypted block -/
def GcmSiv.deriveKeys (g : GcmSiv) (key nonce : Bytes) : Bytes × Bytes :=
  let kdf (c : Nat) : Bytes := (g.aes key (Bytes.ofNatLE 4 c ++ nonce)).take 8
  let auth := kdf 0 ++ kdf 1
  let enc := kdf 2 ++ kdf 3 ++ (if g.keyLen = 32 then kdf 4 ++ kdf 5 else [])
  (auth, enc)

def pad16 (b : Bytes) : Bytes := b ++ Bytes.zeros ((16 - b.length % 16) % 16)

/-- `computePolyval`: Update(ad); Update(pt); Update(lengthBlock) — each update zero-pads its last block -/
def GcmSiv.polyvalInput (pt ad : Bytes) : Bytes :=
  pad16 ad ++ pad16 pt ++ Bytes.ofNatLE 8 (8 * ad.length) ++ Bytes.ofNatLE 8 (8 * pt.length)

/-- `computeTag`: xor the nonce into the first 12 bytes, clear the top bit of the last byte, encrypt -/
def GcmSiv.tag (g : GcmSiv) (encKey authKey nonce pt ad : Bytes) : Bytes :=
  let pv := g.polyval authKey (GcmSiv.polyvalInput pt ad)
  let x := Bytes.xor (pv.take 12) nonce ++ pv.drop 12
  let x' := x.take 15 ++ [(x.getD 15 0) &&& 0x7f]
  g.aes encKey x'

/-- counter block for `aesCTR`: the tag with the top bit of the last byte set -/
def GcmSiv.ctrIV (tag : Bytes) : Bytes := tag.take 15 ++ [(tag.getD 15 0) ||| 0x80]

def GcmSiv.encryptWith (g : GcmSiv) (key nonce pt ad : Bytes) : Bytes :=
  let (auth, enc) := g.deriveKeys key nonce
  let tag := g.tag enc auth nonce pt ad
  nonce ++ Ctr.xorLE32 (g.aes enc) (GcmSiv.ctrIV tag) pt ++ tag

def GcmSiv.decrypt (g : GcmSiv) (key ct ad : Bytes) : Option Bytes :=
  if ct.length < 12 + 16 then none
  else
    let nonce := ct.take 12
    let tag := ct.drop (ct.length - 16)
    let body := (ct.drop 12).take (ct.length - 28)
    let (auth, enc) := g.deriveKeys key nonce
    let pt := Ctr.xorLE32 (g.aes enc) (GcmSiv.ctrIV tag) body
    if g.tag enc auth nonce pt ad = tag then some pt else none

/-- the full primitive (aead/aesgcmsiv): prefix framing around the raw scheme -/
def GcmSiv.fullEncryptWith (g : GcmSiv) (pre key nonce pt ad : Bytes) : Bytes :=
  pre ++ g.encryptWith key nonce pt ad

def GcmSiv.fullDecrypt (g : GcmSiv) (pre key ct ad : Bytes) : Option Bytes :=
  if ct.length < pre.length + 12 + 16 then none
  else if ct.take pre.length ≠ pre then none
  else g.decrypt key (ct.drop pre.length) ad

/-! ### XAES-256-GCM -/

/-- `derivePerMessageKey`: CMAC(k, 00 01 'X' 00 ‖ salt₁₂) ‖ CMAC(k, 00 02 'X' 00 ‖ salt₁₂) -/
def xaesDeriveKey (E : Bytes → Bytes) (salt : Bytes) : Bytes :=
  let padded := (salt ++ Bytes.zeros (12 - salt.length)).take 12
  Cmac.compute E ([0x00, 0x01, 0x58, 0x00] ++ padded) ++ Cmac.compute E ([0x00, 0x02, 0x58, 0x00] ++ padded)

structure Xaes where
  pre : Bytes
  E : Bytes → Bytes                  -- AES-256 under the long-term key
  gcm : Bytes → Raw                  -- AES-GCM under a (derived) key
  saltLen : Nat                      -- 8..12

def Xaes.encryptWith (x : Xaes) (rnd pt ad : Bytes) : Bytes :=
  let salt := rnd.take x.saltLen
  let iv := rnd.drop x.saltLen
  x.pre ++ rnd ++ (x.gcm (xaesDeriveKey x.E salt)).sealF iv pt ad

def Xaes.decrypt (x : Xaes) (ct ad : Bytes) : Option Bytes :=
  if ct.length < x.pre.length + x.saltLen + 12 + 16 then none
  else if ct.take x.pre.length ≠ x.pre then none
  else
    let rest := ct.drop x.pre.length
    let salt := rest.take x.saltLen
    let iv := (rest.drop x.saltLen).take 12
    (x.gcm (xaesDeriveKey x.E salt)).openF iv (rest.drop (x.saltLen + 12)) ad

/-! ### KMS envelope framing -/

/-- `encryptDataAndSerializeEnvelope`: be32(|encDEK|) ‖ encDEK ‖ payload; `none` for the size errors -/
def envelopeSerialize (encDEK payload : Bytes) : Option Bytes :=
  if encDEK.length = 0 then none
  else if encDEK.length > 4096 then none
  else some (Bytes.be32 encDEK.length ++ encDEK ++ payload)

/-- `parseEnvelope` -/
def envelopeParse (ct : Bytes) : Option (Bytes × Bytes) :=
  if ct.length ≤ 4 then none
  else
    let n := Bytes.toNatBE (ct.take 4)
    if n = 0 ∨ n > 4096 ∨ n > ct.length - 4 then none
    else some ((ct.drop 4).take n, (ct.drop 4).drop n)

end TinkVerif.Aead
