import TinkVerif.Base.Bytes
/-!
# List-based model of the ML-DSA packing codecs (`/repo/internal/signature/mldsa/marshal.go`)

FIPS 204 Algorithms 16–21 and 28 written to mirror the Go functions.  Polynomials are lists of
coefficients stored the way the Go code stores them (`rZq`: a natural number in `[0, q)`), byte strings
are `List UInt8`, hint vectors are lists of 0/1 polynomials.

Go (`simpleBitPack`, identical for `poly` and `polyNTT`):

    encoded := make([]byte, (degree*bits)/8)
    for i := 0; i < len(encoded)*8; i++ {
        bit := byte((p[i/bits] >> (i%bits)) & 1)
        encoded[i>>3] ^= bit << (i&7)
    }

Output bit `i` (bit `i mod 8` of byte `i / 8`) is bit `i mod bits` of coefficient `i / bits`: little-endian
inside the integer (`IntegerToBits`) and across bytes (`BitsToBytes`).  Every target bit is written once
into a zeroed byte, so the XOR accumulation is the sum `Σ bit·2^k` (`natOfBits`).  `simpleBitUnpackPoly`
is the same loop with the roles of the two sides exchanged.  The models below are those loops, one output
element at a time; `degree` is the length of the coefficient list.

The driver (`Driver/Mldsa.lean`, ops `spack sunpack bpack bunpack hpack hunpack w1enc`) executes exactly
these definitions against the Go functions (harness `go/harness/c10/codec.go`); the laws are proved in
`Props/C10Pack.lean`.
-/
namespace TinkVerif.Model.MldsaPack
open TinkVerif

/-- the ML-DSA modulus -/
def q : Nat := 8380417

/-- FIPS 204 `bitlen` -/
def bitlen (n : Nat) : Nat := if n = 0 then 0 else n.log2 + 1

/-- `BitsToInteger`: `Σ_{j<n} f(j)·2^j` -/
def natOfBits : Nat → (Nat → Bool) → Nat
  | 0, _ => 0
  | n+1, f => (f 0).toNat + 2 * natOfBits n (fun j => f (j + 1))

/-- Go: `(p[i/bits] >> (i%bits)) & 1` — bit `i` of the bit string `IntegerToBits(w₀) ‖ IntegerToBits(w₁) ‖ …` -/
def coeffBit (w : List Nat) (bits i : Nat) : Bool := (w.getD (i / bits) 0).testBit (i % bits)

/-- Go: `(encoded[i>>3] >> (i&7)) & 1` — bit `i` of `BytesToBits(encoded)` -/
def byteBit (enc : Bytes) (i : Nat) : Bool := (enc.getD (i / 8) 0).toNat.testBit (i % 8)

/-- Algorithm 16 SimpleBitPack, `bits` bits per coefficient (`(len·bits)/8` output bytes). -/
def simpleBitPack (bits : Nat) (w : List Nat) : Bytes :=
  (List.range (w.length * bits / 8)).map fun e =>
    UInt8.ofNat (natOfBits 8 fun k => coeffBit w bits (8 * e + k))

/-- Algorithm 18 SimpleBitUnpack: `(8·len)/bits` coefficients, no range check (as in the standard). -/
def simpleBitUnpack (bits : Nat) (enc : Bytes) : List Nat :=
  (List.range (enc.length * 8 / bits)).map fun c =>
    natOfBits bits fun j => byteBit enc (c * bits + j)

/-- Go `rZq.sub` on reduced arguments: `(a + q − b).reduceOnce()` (`Props/C10.lean`, `sub_spec`). -/
def subq (a b : Nat) : Nat := (a + q - b) % q

/-- Go `(p *poly) subFrom(a)`: coefficient-wise `a − pᵢ mod q`. -/
def subFrom (a : Nat) (w : List Nat) : List Nat := w.map (subq a)

/-- Go `p.bitPack(a, bits) = p.subFrom(a).simpleBitPack(bits)` (Go's `a` is the upper bound `b` of FIPS 204). -/
def bitPackBits (hi bits : Nat) (w : List Nat) : Bytes := simpleBitPack bits (subFrom hi w)

/-- Go `bitUnpackPoly(encoded, a, bits) = simpleBitUnpackPoly(encoded, bits).subFrom(a)`. -/
def bitUnpackBits (hi bits : Nat) (enc : Bytes) : List Nat := subFrom hi (simpleBitUnpack bits enc)

/-- Algorithm 17 BitPack(w, a, b): packs `b − wᵢ mod q` into `bitlen(a+b)` bits. -/
def bitPack (a b : Nat) (w : List Nat) : Bytes := bitPackBits b (bitlen (a + b)) w

/-- Algorithm 19 BitUnpack(v, a, b). -/
def bitUnpack (a b : Nat) (enc : Bytes) : List Nat := bitUnpackBits b (bitlen (a + b)) enc

/-- Algorithm 28 w1Encode: concatenated SimpleBitPack of the `k` polynomials. -/
def w1Encode (bits : Nat) (w1 : List (List Nat)) : Bytes := w1.flatMap (simpleBitPack bits)

/-! ### Hints (Algorithms 20 and 21) -/

/-- the indices of the non-zero coefficients of a polynomial, in increasing order -/
def positions (p : List Nat) : List Nat := (List.range p.length).filter fun j => p.getD j 0 != 0

/-- the values of `Index` after each polynomial, starting from `n` -/
def hintCounters : List (List Nat) → Nat → List Nat
  | [], _ => []
  | p :: ps, n => (n + (positions p).length) :: hintCounters ps (n + (positions p).length)

/-- Algorithm 20 HintBitPack in closed form: the positions of the ones of every polynomial in order,
zero padding up to `ω` bytes, then the `k` running counts.  Meant for hint vectors with at most `ω` ones
(the only ones `sign` produces and the standard defines it for); `hintBitPackGo` below is the literal
loop, and `Props/C10Pack.hintBitPackGo_eq` shows that they agree on such vectors. -/
def hintBitPack (omega : Nat) (h : List (List Nat)) : Bytes :=
  (h.flatMap positions).map UInt8.ofNat ++ Bytes.zeros (omega - (h.flatMap positions).length)
    ++ (hintCounters h 0).map UInt8.ofNat

/-- Go inner loop `for j < degree { if v[i][j] != 0 { res[index] = byte(j); index++ } }` -/
def hintPackPoly (res : Bytes) (index : Nat) (p : List Nat) : Bytes × Nat :=
  (List.range p.length).foldl
    (fun (st : Bytes × Nat) j => if p.getD j 0 != 0 then (st.1.set st.2 (UInt8.ofNat j), st.2 + 1) else st)
    (res, index)

/-- Go outer loop of `hintBitPack`: `i` is the polynomial number, `res[omega+i] = byte(index)` after it. -/
def hintPackLoop (omega : Nat) : List (List Nat) → Nat → Bytes → Nat → Bytes
  | [], _, res, _ => res
  | p :: ps, i, res, index =>
    let st := hintPackPoly res index p
    hintPackLoop omega ps (i + 1) (st.1.set (omega + i) (UInt8.ofNat st.2)) st.2

/-- Algorithm 20 HintBitPack as the Go loop (array writes into `make([]byte, omega+k)`). -/
def hintBitPackGo (omega : Nat) (h : List (List Nat)) : Bytes :=
  hintPackLoop omega h 0 (Bytes.zeros (omega + h.length)) 0

/-- Go: `index > first && encoded[index-1] >= encoded[index]` is an error — the indices of one polynomial
must be strictly increasing. -/
def strictInc : Bytes → Bool
  | a :: b :: r => decide (a < b) && strictInc (b :: r)
  | _ => true

/-- Go: `res[i][encoded[index]] = 1` for every index byte of the polynomial, on a zero polynomial. -/
def setOnes (s : Bytes) : List Nat := s.foldl (fun p x => p.set x.toNat 1) (List.replicate 256 0)

/-- Algorithm 21 main loop over the counter bytes `encoded[omega+i]`; `idx` is `encoded[0:omega]`,
`index` the running `Index`.  `none` is ⊥.  Per polynomial: `end < index || end > omega` is an error,
the index bytes `idx[index:end]` must be strictly increasing; after the last polynomial the bytes
`idx[index:omega]` must all be zero. -/
def hintUnpackLoop (omega : Nat) (idx : Bytes) : Bytes → Nat → Option (List (List Nat))
  | [], index => if (idx.drop index).all (· == 0) then some [] else none
  | c :: cs, index =>
    if c.toNat < index || c.toNat > omega then none
    else if strictInc ((idx.take c.toNat).drop index) then
      (hintUnpackLoop omega idx cs c.toNat).map (setOnes ((idx.take c.toNat).drop index) :: ·)
    else none

/-- Algorithm 21 HintBitUnpack on exactly `ω + k` bytes (`sigDecode` has checked the signature length). -/
def hintBitUnpack (omega k : Nat) (y : Bytes) : Option (List (List Nat)) :=
  if y.length = omega + k then hintUnpackLoop omega (y.take omega) (y.drop omega) 0 else none

end TinkVerif.Model.MldsaPack
