import TinkVerif.Base.Bytes
/-
  Model of streamingaead/subtle/noncebased/noncebased.go: the segment state machines of
  `Writer` (Write/Close) and `Reader` (Read), generic over the segment cipher.

  * The segment cipher is abstract: `enc i last seg` / `dec i last seg` stand for
    `EncryptSegment(seg, nonce(i,last))` / `DecryptSegment(seg, nonce(i,last))`; the nonce layout
    itself is `segmentNonce` below.
  * The sink is a list of byte strings (one per `w.Write` call) with a persistent failure from a
    chosen call index on; the source is a byte string with an optional position at which a
    non-EOF error is raised (`io.ReadFull` hides short reads, so only bytes and the fault position
    matter).
  * `Write` is modelled byte-wise: a full buffer is flushed lazily, when the next byte arrives —
    exactly the Go loop (`copy`, then `if pos == len(p) break`, then encrypt+write).
-/
namespace TinkVerif.Stream

open TinkVerif

/-- `generateSegmentNonce`: prefix ‖ be32 counter ‖ last-flag, zero padded to `size`;
    `none` is `ErrTooManySegments`. -/
def segmentNonce (size : Nat) (pre : Bytes) (i : Nat) (last : Bool) : Option Bytes :=
  if i ≥ 4294967295 then none
  else
    let body := pre ++ Bytes.be32 i ++ [if last then 1 else 0]
    some (body ++ Bytes.zeros (size - body.length))

structure Params where
  ptSeg : Nat      -- WriterParams.PlaintextSegmentSize
  off : Nat        -- FirstCiphertextSegmentOffset (includes the header length at the subtle level)
  overhead : Nat   -- ciphertext segment size = ptSeg + overhead (tag)
  deriving Repr

/-- abstract segment cipher -/
structure Cipher where
  enc : Nat → Bool → Bytes → Bytes
  dec : Nat → Bool → Bytes → Option Bytes

/-! ### Writer -/

structure WState where
  buf : Bytes          -- plaintext[:plaintextPos]
  cnt : Nat            -- encryptedSegmentCnt
  closed : Bool
  sink : List Bytes    -- what reached the underlying writer, one entry per Write call (reversed order = append)
  sinkCalls : Nat      -- number of calls made on the underlying writer (successful or not)
  deriving Repr

def WState.init : WState := { buf := [], cnt := 0, closed := false, sink := [], sinkCalls := 0 }

/-- the sink fails persistently from call index `failFrom` on -/
abbrev Fault := Option Nat

def sinkFails (f : Fault) (call : Nat) : Bool :=
  match f with
  | none => false
  | some j => j ≤ call

def lim (P : Params) (cnt : Nat) : Nat := if cnt = 0 then P.ptSeg - P.off else P.ptSeg

inductive WErr
  | closed | tooMany | io
  deriving DecidableEq, Repr

/-- flush the (full or final) buffer as segment `cnt` -/
def flush (C : Cipher) (f : Fault) (s : WState) (last : Bool) : Except WErr WState :=
  if s.cnt ≥ 4294967295 then .error .tooMany
  else if sinkFails f s.sinkCalls then .error .io
  else .ok { s with buf := [], cnt := s.cnt + 1, sink := s.sink ++ [C.enc s.cnt last s.buf],
                    sinkCalls := s.sinkCalls + 1 }

/-- state after a failed flush: the attempt still counts as a call on the sink when it was the sink
    that failed -/
def flushFailState (f : Fault) (s : WState) : WState :=
  if s.cnt ≥ 4294967295 then s else
  if sinkFails f s.sinkCalls then { s with sinkCalls := s.sinkCalls + 1 } else s

/-- feed the bytes of one `Write(p)` call; returns the new state, the number of bytes consumed
    and the error, if any. -/
def feed (P : Params) (C : Cipher) (f : Fault) (s : WState) : Bytes → Nat → WState × Nat × Option WErr
  | [], n => (s, n, none)
  | b :: rest, n =>
    if s.buf.length < lim P s.cnt then
      feed P C f { s with buf := s.buf ++ [b] } rest (n + 1)
    else
      match flush C f s false with
      | .error e => (flushFailState f s, n, some e)
      | .ok s' => feed P C f { s' with buf := [b] } rest (n + 1)

def write (P : Params) (C : Cipher) (f : Fault) (s : WState) (p : Bytes) : WState × Nat × Option WErr :=
  if s.closed then (s, 0, some .closed) else feed P C f s p 0

def close (C : Cipher) (f : Fault) (s : WState) : WState × Option WErr :=
  if s.closed then (s, none) else
  match flush C f s true with
  | .error e => (flushFailState f s, some e)
  | .ok s' => ({ s' with closed := true }, none)

/-- bytes that reached the sink -/
def WState.output (s : WState) : Bytes := s.sink.flatten

/-! ### The documented format -/

/-- canonical plaintext segmentation: first segment `first` bytes, then `rest` bytes each; the
    final list element is the last segment (possibly short, possibly — only for an empty
    plaintext — empty); a plaintext ending on a boundary gets no extra segment. -/
def split (first rest : Nat) (pt : Bytes) : List Bytes :=
  if h : pt.length ≤ first ∨ first = 0 then [pt]
  else pt.take first :: split rest rest (pt.drop first)
termination_by pt.length
decreasing_by
  simp only [List.length_drop]
  omega

/-- encrypt a list of plaintext segments starting at index `i`; the final one carries the last flag -/
def encSegs (C : Cipher) : Nat → List Bytes → List Bytes
  | _, [] => []
  | i, [s] => [C.enc i true s]
  | i, s :: t => C.enc i false s :: encSegs C (i + 1) t

def encodeStream (P : Params) (C : Cipher) (pt : Bytes) : Bytes :=
  (encSegs C 0 (split (P.ptSeg - P.off) P.ptSeg pt)).flatten

/-! ### Reader -/

structure RState where
  pt : Bytes            -- plaintext[plaintextPos:], not yet handed out
  cnt : Nat             -- decryptedSegmentCnt
  carry : Option UInt8  -- the look-ahead byte (ciphertextPos = 1)
  lastDone : Bool       -- lastSegmentDecrypted
  src : Bytes           -- bytes not yet read from the underlying reader
  deriving Repr

def RState.init (src : Bytes) : RState :=
  { pt := [], cnt := 0, carry := none, lastDone := false, src := src }

inductive RErr
  | io | tooMany | auth
  deriving DecidableEq, Repr

inductive ROut
  | data (d : Bytes)
  | eof
  | err (e : RErr)
  deriving DecidableEq, Repr

def carryBytes (c : Option UInt8) : Bytes := match c with | none => [] | some b => [b]

/-- One `Read(p)` with `len(p) = cap`.
    `errAtEnd`: when the underlying reader runs out of bytes it raises a non-EOF error instead of
    `io.EOF` (a source that fails persistently at position `j` is `src.take j` with `errAtEnd`). -/
def read (P : Params) (C : Cipher) (errAtEnd : Bool) (s : RState) (cap : Nat) : RState × ROut :=
  if s.pt ≠ [] then
    ({ s with pt := s.pt.drop cap }, .data (s.pt.take cap))
  else if s.lastDone then (s, .eof)
  else
    let ctLim := P.ptSeg + P.overhead + 1 - (if s.cnt = 0 then P.off else 0)
    let want := ctLim - (carryBytes s.carry).length
    let chunk := s.src.take want
    let s1 := { s with src := s.src.drop want, pt := [] }
    if chunk.length = want then
      -- io.ReadFull filled the buffer: there is more data, so this is not the last segment
      let all := carryBytes s.carry ++ chunk
      if s.cnt ≥ 4294967295 then (s1, .err .tooMany) else
      match C.dec s.cnt false all.dropLast with
      | none => (s1, .err .auth)
      | some seg =>
        ({ s1 with pt := seg.drop cap, cnt := s.cnt + 1, carry := all.getLast? }, .data (seg.take cap))
    else if errAtEnd then (s1, .err .io)
    else
      -- io.EOF / io.ErrUnexpectedEOF: what is buffered is the last segment
      let s2 := { s1 with lastDone := true }
      if s.cnt ≥ 4294967295 then (s2, .err .tooMany) else
      match C.dec s.cnt true (carryBytes s.carry ++ chunk) with
      | none => (s2, .err .auth)
      | some seg => ({ s2 with pt := seg.drop cap, cnt := s.cnt + 1 }, .data (seg.take cap))

/-- run a sequence of `Read` calls with the given buffer capacities -/
def readMany (P : Params) (C : Cipher) (errAtEnd : Bool) (s : RState) : List Nat → RState × List ROut
  | [] => (s, [])
  | cap :: caps =>
    let r := read P C errAtEnd s cap
    let rs := readMany P C errAtEnd r.1 caps
    (rs.1, r.2 :: rs.2)

end TinkVerif.Stream
