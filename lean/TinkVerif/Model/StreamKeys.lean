import TinkVerif.Model.Stream
import TinkVerif.Model.Ctr
/-
  The two Tink streaming-AEAD wire formats (streamingaead/subtle/aes_gcm_hkdf.go and
  aes_ctr_hmac.go), written as whole-stream functions from the format description and generic in
  the primitives (HKDF, AES-GCM, AES, HMAC), which the driver instantiates with the reference
  implementations:

    ciphertext = header ‖ segment_0 ‖ … ‖ segment_k
    header     = headerLen (1 byte, = 1 + keySize + 7) ‖ salt (keySize bytes) ‖ noncePrefix (7 bytes)
    session key material = HKDF(hash, ikm = main key, salt, info = associated data)
    nonce_i    = noncePrefix ‖ be32(i) ‖ (1 if segment i is the last one, else 0) [‖ zero padding]
    |segment_0| = segSize − firstSegmentOffset − headerLen, |segment_i| = segSize (last one: ≤, ≥ tag)

  AES-GCM-HKDF : key = first keySize bytes of HKDF; nonce 12 bytes; segment = AES-GCM(key, nonce_i, pt_i, ad = "").
  AES-CTR-HMAC : HKDF output = AES key (keySize) ‖ HMAC key (32); nonce 16 bytes (= the 12 bytes above
                 ‖ 00 00 00 00) used as the initial 128-bit big-endian CTR counter block;
                 segment = c ‖ HMAC(hmacKey, nonce_i(16 bytes) ‖ c)[:tagSize] with c = AES-CTR(pt_i).

  Decryption is by the format (`Stream.split` of the ciphertext body), not by the reader state
  machine of Model/Stream.lean.
-/
namespace TinkVerif.StreamKeys
open TinkVerif TinkVerif.Stream

def noncePrefixLen : Nat := 7
def hmacKeyLen : Nat := 32

/-- a segment AEAD under a fixed session key: nonce → data → result -/
structure SegAead where
  sealSeg : Bytes → Bytes → Bytes
  openSeg : Bytes → Bytes → Option Bytes

structure Format where
  keySize : Nat      -- derived key size = salt size
  nonceSize : Nat    -- 12 (AES-GCM-HKDF) / 16 (AES-CTR-HMAC)
  tagSize : Nat
  segSize : Nat      -- ciphertext segment size
  offset : Nat       -- firstSegmentOffset (not counting the header)
  derive : (salt ad : Bytes) → Option SegAead

def Format.headerLen (F : Format) : Nat := 1 + F.keySize + noncePrefixLen

/-- the constructor guard shared by both key types: room for at least one plaintext byte in the first segment -/
def Format.roomy (F : Format) : Bool := F.segSize > F.offset + F.headerLen + F.tagSize

def Format.params (F : Format) : Params :=
  { ptSeg := F.segSize - F.tagSize, off := F.offset + F.headerLen, overhead := F.tagSize }

def Format.header (F : Format) (salt pre : Bytes) : Bytes := [UInt8.ofNat F.headerLen] ++ salt ++ pre

def Format.cipher (F : Format) (A : SegAead) (pre : Bytes) : Cipher :=
  { enc := fun i last seg => match segmentNonce F.nonceSize pre i last with
      | some n => A.sealSeg n seg
      | none => []
    dec := fun i last ct => match segmentNonce F.nonceSize pre i last with
      | some n => A.openSeg n ct
      | none => none }

/-- encryption with the two random header fields made explicit -/
def Format.encrypt (F : Format) (ad salt pre pt : Bytes) : Option Bytes :=
  if salt.length ≠ F.keySize ∨ pre.length ≠ noncePrefixLen ∨ !F.roomy then none
  else do
    let A ← F.derive salt ad
    some (F.header salt pre ++ encodeStream F.params (F.cipher A pre) pt)

/-- decrypt ciphertext segments `i, i+1, …`; the final list element is the last segment -/
def decSegs (C : Cipher) : Nat → List Bytes → Option Bytes
  | _, [] => none
  | i, [s] => C.dec i true s
  | i, s :: t => do
    let p ← C.dec i false s
    let r ← decSegs C (i + 1) t
    some (p ++ r)

/-- whole-stream decryption by the documented format -/
def Format.decrypt (F : Format) (ad ct : Bytes) : Option Bytes :=
  if !F.roomy then none
  else if ct.length < F.headerLen then none
  else if ct.head? ≠ some (UInt8.ofNat F.headerLen) then none
  else do
    let salt := (ct.drop 1).take F.keySize
    let pre := (ct.drop (1 + F.keySize)).take noncePrefixLen
    let body := ct.drop F.headerLen
    let A ← F.derive salt ad
    decSegs (F.cipher A pre) 0 (split (F.segSize - F.offset - F.headerLen) F.segSize body)

/-! ### the two key types -/

/-- AES-GCM-HKDF. `hkdf ikm salt info len`; `gcm key nonce pt ad` / `gcmOpen key nonce ct ad` with a 16-byte tag
    (`none` from `gcm?` = invalid AES key size). -/
def gcmHkdf (hkdf : Bytes → Bytes → Bytes → Nat → Option Bytes)
    (gcm? : Bytes → Option ((Bytes → Bytes → Bytes → Bytes) × (Bytes → Bytes → Bytes → Option Bytes)))
    (ikm : Bytes) (keySize segSize offset : Nat) : Format :=
  { keySize, nonceSize := 12, tagSize := 16, segSize, offset,
    derive := fun salt ad => do
      let key ← hkdf ikm salt ad keySize
      let (sealSeg, openSeg) ← gcm? key
      some { sealSeg := fun n p => sealSeg n p [], openSeg := fun n c => openSeg n c [] } }

/-- AES-CTR-HMAC. `aes? key` = the block function; `mac key msg` = full-length HMAC with the tag hash. -/
def ctrHmac (hkdf : Bytes → Bytes → Bytes → Nat → Option Bytes)
    (aes? : Bytes → Option (Bytes → Bytes)) (mac : Bytes → Bytes → Bytes)
    (ikm : Bytes) (keySize tagSize segSize offset : Nat) : Format :=
  { keySize, nonceSize := 16, tagSize, segSize, offset,
    derive := fun salt ad => do
      let km ← hkdf ikm salt ad (keySize + hmacKeyLen)
      let E ← aes? (km.take keySize)
      let macKey := km.drop keySize
      some { sealSeg := fun n p =>
               let c := Ctr.xorBE E n p
               c ++ (mac macKey (n ++ c)).take tagSize
             openSeg := fun n ct =>
               if ct.length < tagSize then none
               else
                 let c := ct.take (ct.length - tagSize)
                 if (mac macKey (n ++ c)).take tagSize = ct.drop (ct.length - tagSize) then some (Ctr.xorBE E n c)
                 else none } }

/-! ### constructor guards (`NewAESGCMHKDF`, `NewAESCTRHMAC`) -/

def validMainKey (ikmLen keySize : Nat) : Bool :=
  !(ikmLen < 16 || ikmLen < keySize) && (keySize == 16 || keySize == 32)

def gcmNewOk (ikmLen keySize segSize offset : Nat) : Bool :=
  validMainKey ikmLen keySize && segSize > offset + (1 + keySize + noncePrefixLen) + 16

def ctrNewOk (ikmLen keySize tagDigestLen tagSize segSize offset : Nat) : Bool :=
  validMainKey ikmLen keySize && tagSize ≥ 10 && tagSize ≤ tagDigestLen &&
    segSize > offset + (1 + keySize + noncePrefixLen) + tagSize

end TinkVerif.StreamKeys
