import TinkVerif.Base.Bytes
/-
  A small heap model of Go byte slices (C19): arrays with identity, slices `(arr, off, len, cap)`,
  `append` (in place iff the result fits the capacity), `copy`, `bytes.Clone`, `slices.Concat`,
  re-slicing.  API operations are heap transformers; the contract of C19 is stated over them.
-/
namespace TinkVerif.Heap
open TinkVerif

/-- the heap: array id ↦ contents (ids are positions; allocation appends) -/
abbrev Heap := List Bytes

/-- a slice header; `cap` counts from `off` like Go's `cap(s)` -/
structure Slice where
  arr : Nat
  off : Nat
  len : Nat
  cap : Nat
  deriving DecidableEq, Repr

def Heap.array (h : Heap) (a : Nat) : Bytes := h.getD a []

/-- the bytes the slice denotes -/
def Heap.read (h : Heap) (s : Slice) : Bytes := ((h.array s.arr).drop s.off).take s.len

/-- a slice header is valid in a heap -/
def Heap.valid (h : Heap) (s : Slice) : Prop :=
  s.arr < h.length ∧ s.len ≤ s.cap ∧ s.off + s.cap ≤ (h.array s.arr).length

/-- allocate a fresh array holding `bs` followed by `extra` spare bytes -/
def alloc (h : Heap) (bs : Bytes) (extra : Nat) : Heap × Slice :=
  (h ++ [bs ++ Bytes.zeros extra], { arr := h.length, off := 0, len := bs.length, cap := bs.length + extra })

/-- overwrite `bs.length` bytes of array `a` starting at `pos` -/
def writeAt (h : Heap) (a pos : Nat) (bs : Bytes) : Heap :=
  h.set a ((h.array a).take pos ++ bs ++ (h.array a).drop (pos + bs.length))

/-- Go's `append(s, bs...)`; the growth amount on reallocation is a parameter (runtime policy) -/
def append (h : Heap) (s : Slice) (bs : Bytes) (growth : Nat := 0) : Heap × Slice :=
  if s.len + bs.length ≤ s.cap then
    (writeAt h s.arr (s.off + s.len) bs, { s with len := s.len + bs.length })
  else alloc h (h.read s ++ bs) growth

/-- `bytes.Clone` -/
def clone (h : Heap) (s : Slice) : Heap × Slice := alloc h (h.read s) 0

/-- `slices.Concat` -/
def concat (h : Heap) (ss : List Slice) : Heap × Slice := alloc h (ss.flatMap h.read) 0

/-- `copy(dst, src)` — writes min(len) bytes into dst's array -/
def copy (h : Heap) (dst src : Slice) : Heap :=
  writeAt h dst.arr dst.off ((h.read src).take dst.len)

/-- `s[i:j]` -/
def reslice (s : Slice) (i j : Nat) : Slice := { arr := s.arr, off := s.off + i, len := j - i, cap := s.cap - i }

/-! ### the C19 contract for an API operation

An operation sees the heap, some *owned* arrays (key objects, handles: everything reachable from
library objects) and argument slices; it returns a new heap, new owned set, and result slices. -/

structure World where
  heap : Heap
  owned : List Nat        -- array ids reachable from library objects (keys, handles, primitives)
  deriving Repr

/-- result of a call -/
structure Ret where
  world : World
  outs : List Slice

abbrev Api := World → List Slice → Ret

/-- caller-visible arrays: everything that is not owned -/
def World.callerArr (w : World) (a : Nat) : Prop := a < w.heap.length ∧ a ∉ w.owned

/-- **The contract.**  (1) no caller-visible array is written — not within the argument's length and
    not in its spare capacity, since whole arrays are compared; (2) results live in fresh arrays
    that the library does not keep; (3) whatever the library keeps is fresh or was already owned —
    never an argument's array; (4) the heap only grows. -/
structure Clean (f : Api) : Prop where
  frame : ∀ w args a, w.callerArr a → (f w args).world.heap.array a = w.heap.array a
  grows : ∀ w args, w.heap.length ≤ (f w args).world.heap.length
  outsFresh : ∀ w args o, o ∈ (f w args).outs → w.heap.length ≤ o.arr ∧ o.arr ∉ (f w args).world.owned
  ownedFresh : ∀ w args a, a ∈ (f w args).world.owned → a ∈ w.owned ∨ w.heap.length ≤ a
  ownedKept : ∀ w args a, a ∈ w.owned → a ∈ (f w args).world.owned
  outsValid : ∀ w args o, o ∈ (f w args).outs → o.arr < (f w args).world.heap.length
  ownedValid : ∀ w args, (∀ a ∈ w.owned, a < w.heap.length) → ∀ a ∈ (f w args).world.owned, a < (f w args).world.heap.length

/-- the library's state: contents of the owned arrays -/
def World.ownedContents (w : World) : List (Nat × Bytes) := w.owned.map fun a => (a, w.heap.array a)

/-- a caller mutation: overwrite part of a caller-visible array (an input after the call, a returned
    slice, spare capacity — anything the caller can reach) -/
structure Mutation where
  arr : Nat
  pos : Nat
  bytes : Bytes

def World.mutate (w : World) (m : Mutation) : World :=
  if m.arr ∈ w.owned then w else { w with heap := writeAt w.heap m.arr m.pos m.bytes }

end TinkVerif.Heap
