import TinkVerif.Base.Bytes
/-
  Model of internal/mac/aescmac/aescmac.go, generic over the block function `E` (AES under the key).
  `compute` / `xorEndAndCompute` mirror the Go loops; `spec` is RFC 4493 §2.4 written from the RFC.
-/
namespace TinkVerif.Cmac
open TinkVerif

abbrev Block := Bytes

def zero16 : Block := Bytes.zeros 16

/-- `mulByX`: shift the 128-bit big-endian value left by one, xor 0x87 into the last byte if the
    top bit was set (mirrors the byte loop). -/
def mulByX (b : Block) : Block :=
  let v := (b.getD 0 0) >>> 7
  let shifted := (List.range 15).map fun i => ((b.getD i 0) <<< 1) ||| ((b.getD (i + 1) 0) >>> 7)
  shifted ++ [((b.getD 15 0) <<< 1) ^^^ (if v = 1 then 0x87 else 0)]

/-- RFC 4493 §2.3 doubling on the 128-bit integer: `(L << 1) mod 2^128`, xor `0x87` if `msb(L) = 1`. -/
def dblSpec (b : Block) : Block :=
  let n := Bytes.toNatBE b
  let s := (n * 2) % 2 ^ 128
  Bytes.ofNatBE 16 (if n ≥ 2 ^ 127 then s ^^^ 0x87 else s)

structure Keys where
  k1 : Block
  k2 : Block

def subkeys (E : Block → Block) : Keys :=
  let k1 := mulByX (E zero16)
  { k1 := k1, k2 := mulByX k1 }

def pad16 (r : Bytes) : Block := r ++ [0x80] ++ Bytes.zeros (15 - r.length)

/-- the CBC loop over `n` full blocks: `output = E(data[:16] xor output)` -/
def cbcLoop (E : Block → Block) : Nat → Block → Bytes → Block × Bytes
  | 0, out, data => (out, data)
  | n + 1, out, data => cbcLoop E n (E (Bytes.xor (data.take 16) out)) (data.drop 16)

def numBlocksButLast (len : Nat) : Nat :=
  len / 16 - (if len > 0 ∧ len % 16 = 0 then 1 else 0)

/-- `(*CMAC).Compute` -/
def compute (E : Block → Block) (data : Bytes) : Block :=
  let K := subkeys E
  let r := cbcLoop E (numBlocksButLast data.length) zero16 data
  let lastBlock := if r.2.length = 16 then Bytes.xor r.2 K.k1 else Bytes.xor (pad16 r.2) K.k2
  E (Bytes.xor r.1 lastBlock)

/-- RFC 4493 §2.4, Algorithm AES-CMAC, written from the RFC text. -/
def spec (E : Block → Block) (data : Bytes) : Block :=
  let K := subkeys E
  let n0 := (data.length + 15) / 16
  let n := if n0 = 0 then 1 else n0
  let flag := n0 ≠ 0 ∧ data.length % 16 = 0
  let M (i : Nat) : Bytes := (data.drop (16 * (i - 1))).take 16      -- M_i, i = 1..n
  let Mlast := if flag then Bytes.xor (M n) K.k1 else Bytes.xor (pad16 (M n)) K.k2
  let X := (List.range (n - 1)).foldl (fun X i => E (Bytes.xor X (M (i + 1)))) zero16
  E (Bytes.xor Mlast X)

/-- RFC 5297 `xorend`: xor `last` into the final 16 bytes of `data` -/
def xorend (data last : Bytes) : Bytes :=
  data.take (data.length - 16) ++ Bytes.xor (data.drop (data.length - 16)) last

/-- the loop of `XOREndAndCompute` -/
def xeLoop (E : Block → Block) (startPos : Nat) : Nat → Nat → Block → Bytes → Bytes → Block × Bytes × Bytes
  | 0, _, out, data, last => (out, data, last)
  | n + 1, i, out, data, last =>
    let out1 := Bytes.xor (data.take 16) out
    if (i + 1) * 16 > startPos then
      let portion := (i + 1) * 16 - startPos
      let out2 := out1.take (16 - portion) ++ Bytes.xor (out1.drop (16 - portion)) (last.take portion)
      xeLoop E startPos n (i + 1) (E out2) (data.drop 16) (last.drop portion)
    else
      xeLoop E startPos n (i + 1) (E out1) (data.drop 16) last

/-- `(*CMAC).XOREndAndCompute`; `none` for the two size errors -/
def xorEndAndCompute (E : Block → Block) (data last : Bytes) : Option Block :=
  if last.length ≠ 16 then none
  else if data.length < 16 then none
  else
    let K := subkeys E
    let nb := data.length / 16 - (if data.length % 16 = 0 then 1 else 0)
    let r := xeLoop E (data.length - 16) nb 0 zero16 data last
    let lb0 := Bytes.xor r.2.1 r.2.2
    -- `lastBlock` is a zeroed 16-byte array: bytes beyond the xor'ed prefix stay 0
    let lb1 := lb0 ++ Bytes.zeros (16 - lb0.length)
    let lastBlock :=
      if r.2.1.length = 16 then Bytes.xor lb1 K.k1
      else Bytes.xor ((lb1.take r.2.1.length) ++ [0x80] ++ (lb1.drop (r.2.1.length + 1))) K.k2
    some (E (Bytes.xor r.1 lastBlock))

end TinkVerif.Cmac
