import TinkVerif.Base.Bytes
/-
  Model of kwp/subtle/kwp.go (AES-KWP, RFC 5649 / SP 800-38F), generic over the block function
  `E` and its inverse `D`.  State of the W permutation: `A` (8 bytes) and the list `R` of 8-byte
  semiblocks; step `t` (1-based round counter) works on semiblock `(t-1) mod n`.
-/
namespace TinkVerif.Kwp
open TinkVerif

structure WState where
  A : Bytes
  R : List Bytes
  deriving DecidableEq, Repr

/-- xor the low 32 bits of `t`, big-endian, into bytes 4..7 of an 8-byte value -/
def xorCtr (a : Bytes) (t : Nat) : Bytes := a.take 4 ++ Bytes.xor (a.drop 4) (Bytes.be32 t)

def stepF (E : Bytes → Bytes) (n : Nat) (s : WState) (t : Nat) : WState :=
  let j := (t - 1) % n
  let B := E (s.A ++ s.R.getD j [])
  { A := xorCtr (B.take 8) t, R := s.R.set j (B.drop 8) }

def stepB (D : Bytes → Bytes) (n : Nat) (s : WState) (t : Nat) : WState :=
  let j := (t - 1) % n
  let B := D (xorCtr s.A t ++ s.R.getD j [])
  { A := B.take 8, R := s.R.set j (B.drop 8) }

/-- round counters 1 … 6n in the order `Wrap` uses them -/
def counters (n : Nat) : List Nat := (List.range (6 * n)).map (· + 1)

def W (E : Bytes → Bytes) (s : WState) : WState :=
  (counters s.R.length).foldl (stepF E s.R.length) s

def Winv (D : Bytes → Bytes) (s : WState) : WState :=
  (counters s.R.length).reverse.foldl (stepB D s.R.length) s

def semiblocks (b : Bytes) : List Bytes :=
  (List.range (b.length / 8)).map fun i => (b.drop (8 * i)).take 8

def wrappingSize (n : Nat) : Nat := n + (7 - (n + 7) % 8) + 8

def aiv (len : Nat) : Bytes := [0xA6, 0x59, 0x59, 0xA6] ++ Bytes.be32 len

/-- `Wrap`; `none` for the two size errors -/
def wrap (E : Bytes → Bytes) (data : Bytes) : Option Bytes :=
  if data.length < 16 then none
  else if data.length > 8192 then none
  else
    let padded := data ++ Bytes.zeros (wrappingSize data.length - 8 - data.length)
    let s := W E { A := aiv data.length, R := semiblocks padded }
    some (s.A ++ s.R.flatten)

/-- `Unwrap` -/
def unwrap (D : Bytes → Bytes) (w : Bytes) : Option Bytes :=
  if w.length < wrappingSize 16 then none
  else if w.length > wrappingSize 8192 then none
  else if w.length % 8 ≠ 0 then none
  else
    let s := Winv D { A := w.take 8, R := semiblocks (w.drop 8) }
    let u := s.A ++ s.R.flatten
    if u.take 4 ≠ [0xA6, 0x59, 0x59, 0xA6] then none
    else
      let encodedSize := Bytes.toNatBE ((u.drop 4).take 4)
      if wrappingSize encodedSize ≠ u.length then none
      else if (u.drop (8 + encodedSize)).any (· ≠ 0) then none
      else some ((u.drop 8).take encodedSize)

end TinkVerif.Kwp
