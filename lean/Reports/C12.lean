import TinkVerif.Props.C12TableDefs
/-! Report evaluated by ./check: cells of the regenerated conversion tables that break a table theorem. -/
open TinkVerif.Gen.EnumTables
def showCell (t : Table) (c : Cell) : String := s!"{t.pkg} {t.fn} {c.caseName}({c.caseVal}) -> {c.retName}({c.retVal})"
#eval IO.println s!"NOTE: conversion tables={tables.length} pairs={pairs.length} prefix-tables={(tables.filter isPrefixTable).length}"
#eval (pairs.flatMap fun (f, g) => (f.cells.filter fun c => !(isException f c || lookup g c.retVal == some c.caseVal)).map fun c =>
  s!"UNEXPECTED: enum-table round trip fails: {showCell f c}; parser {g.fn} maps {c.retVal} to {lookup g c.retVal}").forM IO.println
#eval (pairs.flatMap fun (f, _) => (f.cells.filter fun c => f.cells.any fun c' => !(isException f c) && !(isException f c') && c.retVal == c'.retVal && c.caseVal != c'.caseVal).map fun c =>
  s!"UNEXPECTED: enum-table serializer not injective: {showCell f c}").forM IO.println
#eval ((tables.filter isPrefixTable).flatMap fun t => (t.cells.filter fun c => prefixName c.caseName != some c.retVal).map fun c =>
  s!"UNEXPECTED: enum-table variant/prefix-type convention: {showCell t c}").forM IO.println
#eval ((serializerTables.filter fun f => !(tables.any fun g => isPair f g)).map fun f => s!"UNEXPECTED: enum-table serializer table without parser partner: {f.pkg} {f.fn}").forM IO.println
#eval (pairs.flatMap fun (f, g) => if !f.prefixRes then [] else (g.cells.filter fun c => match lookup f c.retVal with
    | some back => !samePrefixBytes c.caseVal back
    | none => true).map fun c =>
  s!"UNEXPECTED: enum-table parser maps prefix type to a variant with different output-prefix bytes: {showCell g c}; it re-serialises as {lookup f c.retVal}").forM IO.println
