import TinkVerif.Props.C18Class
/-! Report evaluated by ./check: regenerated mutation facts outside the allow-list. -/
open TinkVerif.Gen.MutFacts
def showFact (f : Fact) : String := s!"{f.pkg} {f.fn} {f.kind} {f.what}"
#eval IO.println s!"NOTE: mutation facts={facts.length} scanned-packages={packagesScanned} allowed-owners={allowedOwners.length} allowed-globals={allowedGlobals.length} allowed-field-facts={allowedFieldFacts.length} pool-variables={pools.length}"
#eval (unexpected.map showFact).forM fun l => IO.println ("UNEXPECTED: mutation-fact " ++ l)
