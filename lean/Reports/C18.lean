import TinkVerif.Props.C18Class
/-! Report evaluated by ./check: regenerated mutation facts outside the allow-list. -/
open TinkVerif.Gen.MutFacts
def showFact (f : Fact) : String := s!"{f.pkg} {f.fn} {f.kind} {f.what}"
def showFactInfo (f : Fact) : String := if f.info == "" then showFact f else s!"{showFact f}  [{f.info}]"
#eval IO.println s!"NOTE: mutation facts={facts.length} scanned-packages={packagesScanned} functions={functionsScanned} entry-points={entryPoints} resolved-call-sites={resolvedCallSites} allowed-owners={allowedOwners.length} allowed-globals={allowedGlobals.length} allowed-field-facts={allowedFieldFacts.length} pool-variables={pools.length}"
#eval (unexpected.map showFactInfo).forM fun l => IO.println ("UNEXPECTED: mutation-fact " ++ l)
#eval (staleOwners.map fun (pkg, o, _) => s!"{pkg} {o}").forM fun l => IO.println ("NOTE: stale owner allowance " ++ l)
#eval (staleGlobals.map fun (pkg, o, _) => s!"{pkg} {o}").forM fun l => IO.println ("NOTE: stale global allowance " ++ l)
#eval (staleFieldFacts.map fun (pkg, fn, kind, what, _) => s!"{pkg} {fn} {kind} {what}").forM fun l => IO.println ("NOTE: stale field-fact allowance " ++ l)
