import TinkVerif.Props.C19Class
/-! Report evaluated by ./check: regenerated slice facts that the classification does not cover, and
    recorded defects still present. -/
open TinkVerif.Gen.SliceFacts
def showFact (f : Fact) : String := s!"{f.pkg} {f.fn} {f.kind} {f.what}"
#eval IO.println s!"NOTE: slice facts={facts.length} scanned-packages={packagesScanned} allowed={allowed.length}"
#eval (unexpected.map showFact).forM fun l => IO.println ("UNEXPECTED: slice-fact " ++ l)
#eval ((facts.filter recordedDefects.contains).map showFact).forM fun l => IO.println ("DEFECT: slice-fact " ++ l)
#eval ((allowed.filter fun p => !facts.contains p.1).map (showFact ·.1)).forM fun l => IO.println ("NOTE: stale allowance " ++ l)
