import TinkVerif.Props.C19Class
/-! Report evaluated by ./check: regenerated slice facts that the classification does not cover, and
    recorded defects still present. -/
open TinkVerif.Gen.SliceFacts
def showFact (f : Fact) : String := s!"{f.pkg} {f.fn} {f.kind} {f.what}"
def showFactInfo (f : Fact) : String := s!"{f.pkg} {f.fn} {f.kind} {f.what}  [{f.info}]"
#eval IO.println s!"NOTE: slice facts={facts.length} scanned-packages={packagesScanned} functions={functionsScanned} entry-points={entryPoints} resolved-call-sites={resolvedCallSites} allowed={allowed.length}"
#eval (unexpected.map showFactInfo).forM fun l => IO.println ("UNEXPECTED: slice-fact " ++ l)
#eval ((facts.filter fun f => recordedDefects.contains (key f)).map showFact).forM fun l => IO.println ("DEFECT: slice-fact " ++ l)
#eval (staleAllowances.map fun (pkg, fn, kind, what, _) => s!"{pkg} {fn} {kind} {what}").forM fun l => IO.println ("NOTE: stale allowance " ++ l)
