"""Per-property registry: Lean modules, theorem (obligation) names, harnesses, evidence and manifest text."""

KERNEL = "Lean 4.33.0 kernel (lake build; leanchecker re-check in the thorough tier)"
TIE = ("correspondence harness (Go, built from /repo's working tree with -tags verif -overlay) + compiled Lean driver tvdrv + "
       "line diff; generator coverage is reported in the evidence, not assumed")
PRIMS = ("reference primitives TinkVerif/Prim/* (SHA-1/2, Keccak, AES, GHASH/GCM, ChaCha20-Poly1305, POLYVAL, EC/RSA/Ed25519, "
         "FIPS 204, FIPS 205) are executable Lean written from the standards, validated by KATs (lake build fails if one fails) "
         "and by agreement with Go — not proved")


def T(ns, names):
    return [ns + "." + t for t in names.split()]


PROPS = {
    "C04": {
        "lean": ["TinkVerif.Props.C04"],
        "theorems": ["TinkVerif.Cmac.compute_eq_spec", "TinkVerif.Cmac.cbcLoop_eq", "TinkVerif.Mac.verify_iff",
                     "TinkVerif.Mac.compute_layout", "TinkVerif.Mac.legacy_suffix", "TinkVerif.Mac.verify_wrong_length",
                     "TinkVerif.Mac.hmac_param_guard", "TinkVerif.Mac.cmac_param_guard",
                     "TinkVerif.outputPrefix_inj", "TinkVerif.outputPrefix_tink_ne_crunchy"],
        "harness": [{"name": "c04"}],
        "rule": "HMAC (5 hashes × key sizes incl. rejected ones × tag sizes 10..digest and rejected ones) and AES-CMAC (key 16/24/32 and "
                "rejected, tag 10..16 and rejected) through mac.New(handle), mac/subtle and the internal CMAC routine; all four variants; "
                "ids incl. 0 and 2^32-1; message lengths concentrated on block boundaries; per tag 6 tag mutations (flip/truncate/extend/"
                "prefix/random) and 2 message mutations; every line compares Go with the Lean model instantiated with the reference "
                "HMAC/AES; LARGE-SIZES section (own PRNG stream; inputs sent as `@<len>:<seed>` through the driver ops X …gen, generator equivalence checked by `X gen`/`X gensha` and lines carrying both forms): AES-CMAC and HMAC inputs of k·2^16+d bytes "
                "(k ∈ {1,2,3,4,8,16}, d ∈ {−17,−16,−15,−1,0,1,15,16,17}, i.e. also 2^20 ± {0,1,16}), 2^20+2^16 and k·4096+d (k ∈ {1,2,3,4,8}); LEGACY "
                "keys with messages one byte shorter; quick: whole grid once with the construction path / hash rotating, LEGACY on a 14-length "
                "subset holding every k and d; thorough: every path and every hash × whole grid; oracles: determinism, own tag accepted, modified "
                "tag and message bytes at the 64 KiB borders rejected; COLLIDING-PREFIX section (collide.go, own PRNG stream): keysets in which a RAW "
                "HMAC / AES-CMAC key's valid tag starts with the 5-byte output prefix of another member (≤ 4000 messages searched for a tag "
                "starting 0x01 / 0x00, then the TINK / CRUNCHY / LEGACY member gets id = tag[1:5]); that member has the same key material, "
                "another key or the other MAC family, sits before / between / after the RAW keys (18 layouts incl. a second RAW key, unrelated "
                "prefixed keys, DISABLED colliding key, DISABLED target), is primary or not; probes: the colliding tag, flips (also inside the "
                "prefix), cuts, extension, other message, every member's ordinary tags, prefixed tags without prefix / other start byte, RAW "
                "tags behind the colliding prefix, the keyset's own tag; demand: mac.New(handle).VerifyMAC accepts iff an ENABLED member's own "
                "primitive (hmac.NewMAC / aescmac.NewMAC) accepts — oracle, `!W macb` against the Lean wrap model (Wrap.macAccept) after "
                "`W keys`, members' verdicts on the colliding tags as `!X hmacv` / `!X cmacv` (quick: a third of the 2×3×18×3 matrix, "
                "thorough: all); non-trivial = every op line, distinct by line hash",
        "trusted_base": [KERNEL, TIE, PRIMS],
        "assumptions": ["collision resistance of the tag function is cryptographic: 'modified messages are rejected' is covered by the "
                        "mutation stream plus the exact theorem verify ↔ tag = compute"],
        "manifest": {
            "text": "Theorems (all lengths, every block function E, every raw tag function): the Go CMAC loop equals RFC 4493 AES-CMAC; "
                    "VerifyMAC accepts (tag,msg) iff tag = ComputeMAC(msg); tag layout prefix ‖ truncated tag over msg(‖00 for LEGACY); "
                    "wrong-length tags rejected; parameter guards. Tie: byte equality of Go's tags with the model instantiated with the "
                    "independent HMAC/AES reference, and agreement of verify decisions on mutation streams.",
            "design_ref": "DESIGN.md §5.4",
            "note": "Trusted: Lean kernel; reference SHA/AES (KAT + agreement with Go); hand model tied by differential execution.",
            "technique": "Lean 4 proof (CMAC impl = RFC spec, verify iff) + Go/Lean byte-equality correspondence with mutation stream",
        },
    },
    "C07": {
        "lean": ["TinkVerif.Props.C07"],
        "theorems": T("TinkVerif.Stream",
                      "writer_chunking_independent writer_partition_irrelevant segments_cover_plaintext segmentNonce_injective "
                      "segmentNonce_limit sink_fault_surfaces flush_fails_after_fault failed_flush_keeps_segment read_honest "
                      "reader_chunking_independent stream_roundtrip read_sound manipulation_detected source_fault_never_eof "
                      "idealCipher_sound"),
        "harness": [{"name": "c07a"}, {"name": "c07b", "timeout": 3000, "pre": True}],
        "rule": "c07a: real noncebased.Writer/Reader driven with a toy segment cipher mirrored in Lean: segment sizes 1..40, first-segment "
                "offsets, nonce/prefix sizes incl. invalid, plaintext lengths on segment boundaries, random write partitions with "
                "zero-length writes, sink failing from a chosen call, five source chunkers incl. (0,nil) and data+EOF, honest and "
                "manipulated streams (truncate/drop/dup/flip/append/swap/empty), failing sources, random read capacities incl. 0; every "
                "call's (n, error class, bytes) is diffed; the spec function encodeStream is compared with the real writer's output; "
                "non-trivial = every op except constructor lines, distinct by line hash. "
                "c07b: the real key types (AES-GCM-HKDF, AES-CTR-HMAC) through streamingaead/subtle, the key-level constructors "
                "(aesgcmhkdf/aesctrhmac keys from parameters, primitive registry) and the keyset factory (1-4 keys of mixed types, handles "
                "also through binary serialization and with non-RAW prefix types) against an independent Lean implementation of the documented "
                "header||segments format (Model/StreamKeys.lean: HKDF with the associated data, nonce prefix||be32 counter||last flag, "
                "AES-GCM / AES-CTR+HMAC segments; decoding by `split`, not the reader state machine): key sizes 16/32, HKDF hashes "
                "SHA1/224/256/384/512 (subtle) and SHA1/256/512 (keys), tag algorithms and sizes 10..digest, segment sizes minimum..4096, "
                "first-segment offsets, main keys longer than the derived key, empty/short/long associated data, plaintext lengths on every "
                "boundary (0, 1, first-1..first+1, each segment boundary -1/0/+1 up to 5 segments); direction Go->model (decoded plaintext and "
                "byte-identical re-encryption from the header's salt/prefix) and model->Go (two-phase, harness-chosen salt/prefix), random "
                "write partitions incl. empty writes, read buffers of 0/1/segment/more-than-a-segment bytes over non-seekable short-reading "
                "sources; ~50 manipulation kinds (each header field, body/tag flips, every truncation kind, appended bytes/valid segments, "
                "swap/duplicate/drop, last<->non-last substitution, wrong associated data, other key, one parameter changed): the real "
                "reader's verdict is diffed with the format-level decoder and the bytes released before the error must be whole segments of "
                "the plaintext; keyset reader with the right key at every position, disabled or absent (nothing may be released); sources "
                "failing at every kind of offset incl. (n>0, err) and sinks failing from a chosen call must surface as errors; constructor "
                "guards of the subtle API diffed with the model; keysets of 2-4 keys mixing segment sizes 4 KiB, 64 KiB+1, 1 MiB (the *1MB "
                "templates' parameters) and 2 MiB, equal and different header lengths (AES128/AES256, GCM-HKDF/CTR-HMAC), the right key at "
                "every position, ciphertexts of 60 KiB, 64 KiB±32, 100 KiB, 1 MiB±64, 1 MiB+65, 1 MiB+64 KiB, 2.5 MiB made by the keyset and "
                "read back through sources that return everything at once / 4 KiB per read / the last bytes with io.EOF: must decode to "
                "the plaintext, as under the right key's own primitive (Go-side oracle; one 100 KiB case per keyset also goes to the "
                "model's decoder); non-trivial = every op line, distinct by line hash c07b huge segments (huge.go): AES-GCM-HKDF and AES-CTR-HMAC keys with ciphertext segment sizes 4 MiB−1 … 32 MiB (thorough up to 64 MiB), every header length / hash / tag size, first-segment offsets up to 2 MiB+5, through subtle constructors, key-level primitives, single-key keysets and two-key keysets with the right key second; oracle = an independent Go implementation of the documented wire format (ref.go: stdlib only, RFC 5869 written out; tied to the Lean model on every run by T enc / T encsha / T dec lines) in both directions plus the own round trip through six source kinds; in thorough one ≥ 17 MiB stream per scheme is also compared with the Lean model via !T encsha.",
        "trusted_base": [KERNEL, TIE, "io.ReadFull semantics (stdlib) are modelled: only the byte stream and the fault position matter"],
        "assumptions": ["H_seg (ideal segment AEAD) is an explicit hypothesis of manipulation_detected; non-vacuity shown by idealCipher_sound",
                        "segment-cipher round trip and expansion (Honest) are hypotheses of the reader theorem",
                        "plaintexts up to 2^32-2 bytes in the writer theorem (the format allows 2^32-1 segments)"],
        "manifest": {
            "text": "Theorems over the Writer/Reader state machines, generic in the segment cipher, for every segment size/offset, plaintext, "
                    "write partition and read-capacity sequence: writer output = documented header-less stream (T1); reader returns exactly "
                    "the plaintext then EOF, never an error, EOF never early (T2); under H_seg every byte string other than the honest "
                    "stream ends in an error and bytes before it are a plaintext prefix (T3); a persistently failing sink/source always "
                    "surfaces as an error and never as EOF (T4); nonce injectivity. Tie: op-sequence differential on the real "
                    "noncebased package with a toy cipher, incl. manipulations and I/O faults.",
            "design_ref": "DESIGN.md §5.7",
            "note": "Trusted: Lean kernel; hand model tied by differential execution; AES-GCM-HKDF/AES-CTR-HMAC key derivation covered by harness c07b when built.",
            "technique": "Lean 4 invariant/refinement proofs over the stream state machines + Go/Lean op-sequence correspondence",
        },
    },
    "C08": {
        "lean": ["TinkVerif.Props.C08", "TinkVerif.Props.C08Deep"],
        "theorems": ["TinkVerif.Kwp.stepB_stepF", "TinkVerif.Kwp.Winv_W", "TinkVerif.Kwp.wrappingSize_formula",
                     "TinkVerif.Kwp.wrappingSize_mult8", "TinkVerif.Siv.xorBE_involutive", "TinkVerif.Siv.decryptRaw_encryptRaw",
                     "TinkVerif.Siv.decrypt_encrypt", "TinkVerif.Siv.decrypt_iff", "TinkVerif.Siv.decrypt_short",
                     "TinkVerif.Cmac.xorEndAndCompute_eq", "TinkVerif.Cmac.xorEndAndCompute_eq_none_iff",
                     "TinkVerif.Cmac.xorEndAndCompute_eq_spec", "TinkVerif.Cmac.mulByX_eq_dblSpec", "TinkVerif.Cmac.toNatBE_mulByX",
                     "TinkVerif.Siv.s2v_eq_spec", "TinkVerif.Siv.s2v_eq_rfc", "TinkVerif.Siv.s2v_length",
                     "TinkVerif.Kwp.unwrap_wrap", "TinkVerif.Kwp.wrap_eq_none_iff", "TinkVerif.Kwp.wrap_length",
                     "TinkVerif.Kwp.unwrap_some_length"],
        "harness": [{"name": "c08", "timeout": 3000, "pre": True}],
        "rule": "AES-SIV via daead.New(handle) (TINK/CRUNCHY/RAW) and daead/subtle: plaintext AND associated-data lengths <16, =16, 17..31, "
                "block multiples ±1, routinely up to 4 KiB and a few of 16–64 KiB, concentrated on k·1024 ± {0,1,15,16,17}, powers of two ± 1, "
                "1040/1041; ciphertext equality with the Lean RFC 5297 model; decrypt decisions on mutations incl. the two cleared IV bits, "
                "each SIV byte and modified ad; S2V (both branches), CMAC Compute and XOREndAndCompute compared with the RFC-text "
                "specifications through export hooks at the same lengths; CTR counter carries: (key, pt, ad) searched so that the masked SIV's "
                "low 8/16/24 bits wrap inside the message (hist ctrhunt/carryW/found), plus the CTR layer alone (hook VerifCtrCrypt vs model "
                "clearBits+xorBE) on IVs whose low 8..128 bits are (nearly) all ones; AES-KWP: both KEK sizes, payload lengths 16..8192 "
                "(thorough: every length), equality with the model, unwrap of mutated wrappings, and a forgery stream at the level of the "
                "plaintext of the wrap: the model's W (op kwpraw, two-phase) applied to block strings with each AIV byte wrong, length "
                "field too large/small/zero/misplaced, each padding position non-zero, padding patterns that XOR/ADD/AND to zero, extra or "
                "missing blocks, for key lengths 1..64 (every len%8, both KEK sizes) and some long ones — verdict compared with the model's "
                "unwrap and with an RFC 5649 check in the harness, accepted wrappings re-wrapped; "
                "LARGE-SIZES section (own PRNG stream; inputs sent as `@<len>:<seed>` through the driver ops X …gen, generator equivalence checked by `X gen`/`X gensha` and lines carrying both forms): AES-SIV associated data (S2V = CMAC(ad)) through "
                "the full primitive and S2V messages through the hook on the whole grid k·2^16+d (k ∈ {1,2,3,4,8,16}, d ∈ {−17…17 as above}), "
                "2^20+2^16, k·4096+d; plaintexts through the full primitive (k·4096+d, 5 lengths ≤ 256 KiB, one at 1 MiB in quick; whole grid in "
                "thorough; answer = length, prefix‖SIV, SHA-256 of the ciphertext); Compute / XOREndAndCompute alone and both arguments large on a "
                "14-length subset (thorough: whole grid); round trip and rejection of ciphertext / ad bytes modified at the 64 KiB borders; "
                "COLLIDING-PREFIX section (collide.go, own PRNG stream): keysets in which a RAW AES-SIV key's valid ciphertext (it starts with "
                "the SIV) begins with the 5-byte output prefix of another member (plaintexts searched until ct[0] = 0x01 / 0x00, the other "
                "member gets id = ct[1:5]); members are aessiv key objects (T/C/R) and keys of a stub registry.KeyManager (legacy path through "
                "fullDAEADPrimitiveAdapter, T/C/L/R); the colliding member has equal or other key material, sits before / between / after the "
                "RAW keys (18 layouts incl. a second RAW key / twin, unrelated prefixed keys, DISABLED colliding key, DISABLED target), is "
                "primary or not; probes: the colliding ciphertext, flips (also inside the prefix), cuts, extension, other ad, every member's "
                "ordinary ciphertexts, prefixed ones without prefix / other start byte, RAW ones behind the colliding prefix, the keyset's own "
                "output; demand: daead.New(handle) returns a plaintext iff an ENABLED member on its own accepts, and that member's plaintext "
                "— oracle, `!W acceptb` against the Lean wrap model (Wrap.accept) after `W keys`, members' results as `!X siv` / `!X sivd` "
                "(quick: a third of the 2×5×18×2 matrix, thorough: all); "
                "non-trivial = every op line, distinct by line hash",
        "trusted_base": [KERNEL, TIE, PRIMS],
        "assumptions": ["forgery rejection beyond the exact characterisation decrypt_iff rests on CMAC unforgeability (cryptographic)"],
        "manifest": {
            "text": "Theorems for every block function: the Go-shaped XOREndAndCompute loop = CMAC of RFC 5297 xorend (all lengths); the "
                    "two-branch s2v of the code = RFC 5297 S2V; the constant-time doubling = RFC dbl; KWP unwrap∘wrap = id under exactly "
                    "wrap's own size guards, output length, rejected lengths; KWP's unwrapping permutation inverts the wrapping permutation "
                    "step by step; wrapping size formula; AES-SIV decrypt∘encrypt = id (raw and prefixed), exact acceptance characterisation, short inputs "
                    "rejected. Tie: byte equality of Go ciphertexts/wrappings with the RFC 5297 / RFC 5649 Lean models over the reference AES, "
                    "S2V and XOREndAndCompute vs their RFC-text specifications, decisions on mutation streams.",
            "design_ref": "DESIGN.md §5.8",
            "note": "Trusted: Lean kernel; reference AES; hand model tied by differential execution.",
            "technique": "Lean 4 proof (KWP inverse, SIV round trip/characterisation) + Go/Lean byte-equality correspondence",
        },
    },
    "C11": {
        "lean": ["TinkVerif.Props.C11"],
        "theorems": T("TinkVerif.Manager",
                      "inv_run handle_after_any_history handle_after_any_history_from handle_isSome_iff handle_wf wf_primary "
                      "inv_fromHandle err_unchanged hasPrimary_step disable_primary_err delete_primary_err setPrimary_nonenabled_err "
                      "unknown_id_err addKey_idReq add_ok_last"),
        "harness": [{"name": "c11"}],
        "rule": "random manager histories (1..80 ops over Add/AddNewKeyFromParameters/AddKey/AddKeyWithOpts/SetPrimary/"
                "Enable/Disable/Delete/Handle/NewManagerFromHandle, ids biased to live/deleted/colliding/boundary values, "
                "forced random-id collisions through the crypto/rand tape); after every op the manager's entries and "
                "unavailable-id set are compared with the Lean model, earlier handles are re-inspected; histories also "
                "contain SetAnnotations (nil/empty/fresh/re-used caller maps, maps read from earlier handles) and caller-side "
                "mutation of maps after they were passed in (`M setann`/`M annmut`, handle annotations compared with the "
                "driver's `M hann`); EVERY handle obtained in a history (history Handle() results, the oracle's per-op "
                "handles, reader handles) is snapshotted and re-observed after EVERY later op of any manager (entries, ids, "
                "statuses, primary, key objects and serialized material, KeysetInfo, annotations), and a recording "
                "monitoring client checks that contexts handed out never change and that primitives/key exports of earlier "
                "handles log under the handle's own snapshot (annotations, primary, enabled ids); a case is "
                "non-trivial if it is a state-changing or failing op (not a bare dump of ≤1 entries); distinct by op-line hash Sections c11-failops / c11-fallback: Add/AddNewKeyFromParameters failing at every stage (nil, UNKNOWN_PREFIX, no serializer, unknown type URL, garbage/varint-mutated formats, parse-ok/CreateKey-fails incl. PRF-based deriver with a non-HKDF PRF, legacy key data the key parser refuses) under every output prefix type, interleaved with fixed-id adds aimed at ids in use with 0 and 0xffffffff seeded; generation success is decided outside the manager and the Lean model decides each op; after EVERY failing op entries unchanged, no reservation released, only the drawn id newly reserved, fresh Handle() unchanged, and a fixed-id add of every in-use/reserved id is still refused. Keys without a registered parser (KMS AEAD/envelope, custom type URLs incl. private material) with every prefix and special ids are read from hand-made keysets and moved with AddKey/AddKeyWithOpts; the id requirement fed to the model comes from the serialized keyset, the key object is checked against it, receiving handles are serialized, re-read and compared entry by entry.",
        "trusted_base": [KERNEL, TIE, "key generation/parsing is opaque to the model (only success/failure enters)"],
        "assumptions": ["model Manager.lean is tied to keyset/manager.go by differential execution, not by translation"],
        "manifest": {
            "text": "Lean 4 theorems over a model of keyset.Manager/newFromEntries: the invariant (distinct ids, ≤1 primary, primary ENABLED, "
                    "ids unavailable, no Unknown status) is proved for every operation and, by induction, for operation histories of any length "
                    "from the empty manager or any well-formed handle; Handle() is proved to fail exactly when no primary exists and otherwise "
                    "to return a well-formed keyset; failing public operations leave the entry list unchanged; primary persistence; id requirement. "
                    "The model is tied to the code by an op-history differential on the real Manager (every op's result, entries and unavailable ids).",
            "design_ref": "DESIGN.md §5.11",
            "note": "Trusted: Lean kernel; hand-written model tied by differential execution (generator coverage in evidence); key generation opaque.",
            "technique": "Lean 4 invariant proof by induction over operation histories + Go/Lean op-history correspondence",
        },
    },
    "C15": {
        "lean": ["TinkVerif.Props.C15", "TinkVerif.Props.C15Deep"],
        "theorems": T("TinkVerif.Hmac", "expand_prefix expand_length expand_first_block hkdf_limit hkdf_prefix computeHKDF_spec "
                      "computeHKDF_guard hmac_empty_key_eq_zero_key expand_eq_rfc expand_eq_Tconcat okm_undefined hkdf_eq_rfc "
                      "hkdf_none_iff computeHKDF_eq_rfc computeHKDF_none_iff hmac_eq_rfc2104 hmac_length hmac_long_key hmac_pad_zeros "
                      "hkdf_empty_salt_eq_rfc computeHKDF_eq_hkdf expand_read_split hkdf_common_prefix computeHKDF_prefix") +
                    T("TinkVerif.Prf", "truncPrf_spec hmacPrf_spec hmacPrf_prefix cmacPrf_spec cmacPrf_prefix hkdfPrf_spec") +
                    ["TinkVerif.truncating_prf_prefix"],
        "harness": [{"name": "c15"}],
        "rule": "HMAC-PRF (5 hashes, any key size), HKDF-PRF (salts nil/empty/short/hashLen/long), AES-CMAC-PRF through prf/subtle and "
                "prf.NewPRFSet over mixed multi-key keysets with DISABLED/DESTROYED keys; output lengths 0..max+1 (exhaustive for "
                "HMAC/CMAC in every third case, boundary-directed for HKDF incl. k·hashLen±1, 255·hashLen, +1); subtle.ComputeHKDF with "
                "tag sizes 0..max+1 and nil/empty/zero salts; byte equality with the Lean RFC 2104/5869/4493 models; prefix law, "
                "determinism, id set and primary id checked on the implementation; LARGE-SIZES section (own PRNG stream; inputs sent as `@<len>:<seed>` through the driver ops X …gen, generator equivalence checked by `X gen`/`X gensha` and lines carrying both forms): AES-CMAC-PRF, "
                "HMAC-PRF and HKDF-PRF (input = info) inputs of k·2^16+d bytes (k ∈ {1,2,3,4,8,16}, d ∈ {−17,−16,−15,−1,0,1,15,16,17}), 2^20+2^16 and "
                "k·4096+d through prf/subtle and prf.NewPRFSet, whole grid with hash / path / key size rotating (thorough: every one); "
                "subtle.ComputeHKDF with a large key, salt or info on a 14-length subset holding every k and d (thorough: whole grid × 3); "
                "oracles: prefix law, determinism, dependence on the bytes at the 64 KiB borders; "
                "SPECIAL-VALUES section (special.go, own PRNG streams): salts and keys that are all-zero, all-0xff, zero except the last / first "
                "byte, zero-prefixed, zero-suffixed at the lengths {1, (16), hLen, block−1, block, block+1, 2·block, 200} (block = 64 or 128, the "
                "HMAC key-padding border) for every hash through prfsubtle.NewHKDFPRF / NewHMACPRF / NewAESCMACPRF, subtle.ComputeHKDF and keyset PRFs "
                "(key object and serialized → parsed keyset) against the Lean RFC models; PRF keysets of 1..4 (thorough 6) keys with one key that "
                "parses but cannot be instantiated (HKDF-PRF SHA-1/224/384 or 16..31-byte key, AES-CMAC-PRF 16-byte key, MAC key, AEAD key, unknown "
                "type URL) at every position as enabled non-primary / primary / DISABLED / DESTROYED: whenever NewPRFSet returns a set its ids must "
                "be exactly the enabled key ids with every PRF equal to the model, and it must not fail when all enabled keys are instantiable "
                "(the unchanged tree refuses every keyset whose un-instantiable key is enabled); "
                "non-trivial = every op line, distinct by line hash",
        "trusted_base": [KERNEL, TIE, PRIMS],
        "assumptions": ["the hash compression functions are reference code (KAT-validated)"],
        "manifest": {
            "text": "Theorems for every fixed-length MAC: HKDF-Expand prefix law, output length, first block = T(1), the 255·hashLen limit, "
                    "ComputeHKDF returns RFC 5869 output whenever it returns (empty salt = zeros, proved equivalent HMAC key), guard table; "
                    "truncating-PRF prefix law. Tie: byte equality of every PRF output and every HKDF helper output with the Lean models over "
                    "the reference hash/AES for all output lengths around every boundary, plus PRF-set id checks.",
            "design_ref": "DESIGN.md §5.15",
            "note": "Trusted: Lean kernel; reference SHA/AES; hand model tied by differential execution.",
            "technique": "Lean 4 proof (HKDF/PRF laws for any MAC) + Go/Lean byte-equality correspondence over all output lengths",
        },
    },
}

AEAD_RULE = ("AES-GCM{16,32}, AES-CTR-HMAC{aes 16,32}×{iv 12..16}×{SHA1..512}×{tag 10..digest}×{hmac key 16..130}, AES-GCM-SIV{16,32}, "
             "ChaCha20-Poly1305, XChaCha20-Poly1305, XAES-256-GCM{salt 8..12}, KMS envelope AEAD, custom key-manager AEAD (legacy adapter); TINK/CRUNCHY/RAW (LEGACY for legacy-adapter keys); ids incl. 0 and 2^32-1; "
             "entry points aead.New(handle), per-key constructors, key managers and aead/subtle; rejected constructions (24-byte AES keys); pt/ad lengths on block boundaries up to 4 KiB "
             "(thorough: 256 KiB), ad nil/empty/non-empty; ")
KMS_UNSUPPORTED = ("KMS envelope, unsupported DEK templates (kms_unsupported.go): for every DEK template outside the allow-list whose type has a "
                   "key manager (all exported XAES-256-GCM templates and salt sizes 8..12, nested KmsEnvelopeAeadKey templates over stub KMS keys, "
                   "custom registry.KeyManager AEAD key types incl. one whose type URL has a supported URL as prefix) and for registered non-AEAD "
                   "types (HMAC, AES-CMAC, AES-SIV, streaming, PRF) and unregistered look-alike URLs, the harness hand-assembles be32 ‖ "
                   "KEK(serialized DEK of that type) ‖ DEK-primitive ciphertext (stub wrapped lengths 1,2,28..60,4095,4096,4097 and a real AES-GCM "
                   "KEK; `!A envparse` framing, `!A dec xaes` payload) and demands from NewKMSEnvelopeAEAD2 / NewKMSEnvelopeAEADWithContext / "
                   "registry.Primitive(KmsEnvelopeAeadKey): no panic, the three agree on usability, and an object whose Encrypt fails never "
                   "decrypts (right / nil / extended / flipped ad; mode mut: 9 mutations of the crafted envelope) nor returns plaintext next to "
                   "an error; a supported instance over the same KEK must give the verdict derived from the DEK bytes under its own type URL "
                   "(`A envparse`); unsupported templates that turn out usable must round-trip and are only counted. ")
SPECIAL_NONCES = ("Special nonces (special.go), both directions — model-made ciphertexts with harness-chosen nonces that Go must decrypt, and Go "
                  "ciphertexts with the nonce forced through the crypto/rand tape that the model must reproduce: nonces / IVs whose low 1, 2, 3, 4, 8, 12, 16 "
                  "bytes are all ones (and all ones − 1, − 2), all zero, top bit, high half ones, with plaintexts in which the counter crosses the carry in "
                  "the last partial block and of 4..40 blocks, and 257+ blocks (carry out of the lowest counter byte; AES-CTR-HMAC iv 15: out of the padding "
                  "byte into an all-ones IV tail; iv 14 × 65537 blocks thorough), for AES-CTR-HMAC iv 16 × AES-128/256 through aead.New, the per-key "
                  "constructor, the key manager and aead/subtle.EncryptThenAuthenticate(subtle.AESCTR) (+ subtle.AESCTR Encrypt/Decrypt alone against the "
                  "model's key stream), iv 12..15, AES-GCM, AES-GCM-SIV, XAES (salt 8, 12), (X)ChaCha20-Poly1305; AES-GCM-SIV plaintexts CRAFTED (POLYVAL "
                  "linearity, own GF(2^128) code) so that the tag = counter block has low 32 bits ff / ffff / ffffff / ffffffff (− 0, 1, 2), 0, 2^31: every "
                  "LE32 carry width and the 2^32 wrap; keysets in which a RAW key's nonce starts with another member's TINK/CRUNCHY output prefix. Not "
                  "reachable: the inc32 wrap of AES-GCM / XAES (J0 = nonce ‖ 00000001, 2^32 blocks) and the ChaCha20 block-counter wrap (256 GiB); ")
PROPS["C01"] = {
    "lean": ["TinkVerif.Props.C01", "TinkVerif.Props.C01Deep", "TinkVerif.Props.C01Polyval", "TinkVerif.Kat.PolyvalGen"],
    "theorems": T("TinkVerif.Props.C01Polyval", "consts_spec mul32_eq_clmul mul32_lt mul64_eq_clmul polyvalDot_eq_spec") +
                T("TinkVerif.Aead", "xorBE_involutive xorLE32_involutive blockBE_spec blockLE32_tail Full.decrypt_encrypt Full.layout "
                  "EtM.decrypt_encrypt EtM.layout GcmSiv.decrypt_encrypt GcmSiv.layout GcmSiv.full_decrypt_encrypt "
                  "Xaes.decrypt_encrypt xaes_key_derivation envelope_roundtrip "
                  "EtM.macInput_inj EtM.macInput_eq_iff be64_bitlen_inj be32_bitlen_wrap Xaes.decrypt_encrypt_min xaesDeriveKey_take12 "
                  "GcmSiv.ctrIV_msb GcmSiv.tagBlock_ne_ctr_block GcmSiv.polyvalInput_length_mod envelopeSerialize_eq_some_iff "
                  "envelopeParse_serialize envelopeSerialize_parse"),
    "harness": [{"name": "c01", "args": ["-mode", "rt"], "pre": True}],
    "rule": AEAD_RULE + "(a) Go Encrypt → the Lean model re-encrypts with the nonce read from the ciphertext and must reproduce it byte for "
            "byte, and decrypts it; (b) the Lean model encrypts with a harness-chosen nonce (two-phase run) → Go Decrypt must return the "
            "plaintext; nil/empty ad cross-checked; every ciphertext buffer is decrypted twice and must survive Decrypt unchanged. "
            "Systematic grid: every parameter point (AES-GCM/-SIV key 16,32 × T/C/R; (X)ChaCha × T/C/R; XAES salt 8..12 × T/R; AES-CTR-HMAC aes "
            "16,32 × iv 12..16 × 5 hashes × tags {10,11,16,digest-1,digest,2 random} (thorough: every tag 10..digest)) through aead.New(handle), "
            "the per-key constructor (aesgcm.NewAEAD, xaesgcm.NewAEAD, registered primitive constructor) and, for RAW, the key manager "
            "(registry.Primitive), cross-decrypting, with empty and 1-byte plaintexts at every point. Keysets of 2..4 RAW keys (same type / "
            "mixed, optionally a prefixed key too): ciphertexts of every member (Tink-made and model-made) decrypt, incl. keys that are not the "
            "first RAW candidate, twice from the same buffer. KMS envelope (NewKMSEnvelopeAEAD2, NewKMSEnvelopeAEADWithContext, keyset-level via "
            "CreateKMSEnvelopeAEADKeyTemplate + registered KMS client with RAW/TINK/CRUNCHY key prefix, fakekms client) × every supported DEK "
            "key type (random AES-CTR-HMAC parameters, all exported templates) × stub remote AEAD with wrapped-DEK length 0,1,2,28,4095,4096,"
            "4097,5000 or a real AEAD (every type above, fakekms) as KEK: `A envser`/`A envparse` lines tie the framing to envelopeSerialize/"
            "envelopeParse (Go's parse verdict observed at the stub), Encrypt rejections = the model's guard, Encrypt success ⇒ Decrypt success "
            "(oracle), the payload decrypts under the DEK the stub saw via `A dec` (RAW DEK AEAD), the DEK matches the template, the KEK sees "
            "empty ad, model-made envelopes (model-made payload, chosen wrapped length, model-wrapped DEK for real KEKs) decrypt in Go, the "
            "other entry point decrypts the same envelope. Keyset prefix matrix (adapter.go): legacy key-manager primitives behind "
            "fullAEADPrimitiveAdapter — a stub registry.KeyManager AEAD (own type URL, subtle AES-GCM) and KmsEnvelopeAeadKey keys, prefix "
            "TINK/CRUNCHY/LEGACY/RAW each — and the full primitives of every key type × variant, as the producing key of 12 keyset shapes "
            "(single; first/last of 2 and 4; the only ENABLED key among DISABLED neighbours; mixed; primary or not): ciphertext = cryptofmt "
            "output prefix ‖ raw ciphertext byte-identical to the model's (`!A enc … T|C|L|R id`), KMS: prefix ‖ envelope (`!A envparse`, "
            "`!A dec` over the DEK's AEAD with the key's prefix), round trip through the keyset and a single-key keyset, model-made ciphertexts "
            "decrypt. AES-CTR-HMAC associated-data length block for sizes that cannot be run end to end: aesctrhmac.aadSizeInBits (hook VerifAADSizeInBits) and legacy aead/subtle.EncryptThenAuthenticate (recording MAC, identity cipher) on never-touched zero mappings of 0..2^32+1 bytes (2^29±1, 2^31, k·2^29, random) against `A aadbits n` = the closing block of EtM.macInput; " + KMS_UNSUPPORTED + SPECIAL_NONCES + "non-trivial = every op line, distinct by line hash",
    "trusted_base": [KERNEL, TIE, PRIMS, "the raw-AEAD law (RawLaw) of stdlib AES-GCM / ChaCha20-Poly1305 is a hypothesis of the framing "
                     "theorems and is what the correspondence with the reference implementation exercises"],
    "assumptions": ["AES/SHA/ChaCha/GHASH/POLYVAL are reference primitives (KAT + agreement with Go), not proved",
                    "math.MaxInt-size limits are not exercised"],
    "manifest": {
        "text": "REGENERATED on every run from internal/aead/polyval.go: the constant-time POLYVAL field arithmetic (mul32 'with holes', "
                "Karatsuba mul64, polyvalDot with its Montgomery-style reduction) — proved equal to the RFC 8452 bit-level specification for "
                "all 2^256 operand pairs (mul32_eq_clmul, mul64_eq_clmul, polyvalDot_eq_spec). Theorems for every block function / MAC / raw AEAD: decrypt∘encrypt = id and the wire layout prefix‖nonce‖body‖tag for the "
                "framed AEADs, the AES-CTR+HMAC composition (MAC over ad‖iv‖ct‖be64(8|ad|)), the whole of AES-GCM-SIV (key derivation, "
                "POLYVAL framing, tag masking, LE32 counter), XAES per-message key derivation, KMS envelope framing; CTR counter facts. "
                "Tie: byte-identical ciphertexts between tink-go and the Lean model over reference AES/SHA/ChaCha/POLYVAL in both directions.",
        "design_ref": "DESIGN.md §5.1",
        "note": "Trusted: Lean kernel; reference primitives; hand models tied by differential execution in both directions.",
        "technique": "Lean 4 proof (round trip + layout, generic over primitives) + two-way Go/Lean ciphertext correspondence",
    },
}
PROPS["C02"] = {
    "lean": ["TinkVerif.Props.C01", "TinkVerif.Props.C01Deep"],
    "theorems": T("TinkVerif.Aead", "Full.decrypt_iff Full.decrypt_short Full.decrypt_wrong_prefix EtM.decrypt_iff GcmSiv.decrypt_iff "
                  "envelope_reject EtM.decrypt_short EtM.decrypt_wrong_prefix EtM.decrypt_bad_tag EtM.decrypt_some_iff_encrypt "
                  "EtM.reject_modified_ad EtM.reject_modified_payload EtM.reject_modified_tag EtM.accepted_other_is_fresh "
                  "EtM.macInput_inj EtM.macInput_collision_at_2_61 GcmSiv.decrypt_some_iff_encrypt GcmSiv.reject_modified_ad "
                  "GcmSiv.reject_modified_body GcmSiv.fullDecrypt_iff GcmSiv.fullDecrypt_wrong_prefix Xaes.decrypt_iff Xaes.decrypt_short "
                  "Xaes.decrypt_wrong_prefix envelopeParse_eq_none_iff envelopeParse_reject_overlong envelopeParse_reject_zero "
                  "envelopeParse_reject_above_limit outputPrefix_eq_iff Full.decrypt_foreign_prefix EtM.decrypt_other_key"),
    "harness": [{"name": "c01", "args": ["-mode", "mut"], "pre": True}],
    "rule": AEAD_RULE + "per valid ciphertext: 10 random mutations (flip/truncate/extend/drop/prefix/random/strip), flips and cuts at "
            "every field boundary, short random strings of every length up to prefix+nonce+tag+1, other variant's start byte, RAW↔prefixed "
            "confusion, 5 associated-data mutations; Go and model must agree (reject / plaintext); any acceptance of a mutated input and "
            "any panic is a property-oracle violation. The same stream (random part thinned) runs over the systematic parameter grid "
            "(both entry points) and flips over multi-RAW-key keysets. KMS envelope (all entry points, DEK types, stub lengths / real KEKs as in "
            "C01): flips and cuts in the length field, the encrypted DEK and the payload, length ±1, 0, to-the-end, past-the-end, 2^31.., 2^32-1, "
            "4096/4097 with enough bytes behind, extension, short strings, another envelope's encrypted DEK, 5 associated-data mutations; the "
            "stub must fail or Go must reject; model verdicts by `A envparse` (+ `A dec` under the DEK the stub returned). Keyset prefix "
            "matrix (adapter.go; keys and shapes as in C01: stub key-manager AEAD and KMS envelope keys behind fullAEADPrimitiveAdapter × "
            "T/C/L/R, full primitives of every type × variant; keysets of 1 and 2..4 keys, producing key first / last / only ENABLED one "
            "among DISABLED neighbours / primary or not), after a successful Decrypt on the same primitive object: every single-bit flip of "
            "the 5 prefix bytes, start bytes 0,1,2,0x80,0xff, every other member's id (both start bytes) and foreign ids, prefix stripped / "
            "doubled / zeroed / ones / 4 and 6 bytes / reversed, prefixed-of-RAW, inputs of 0..5 bytes (nil, cap == len, re-slices, random, "
            "members' prefixes), cuts, extension, flips in every field, 4 random mutations, 4 associated-data changes; released plaintext, "
            "a panic or a modified input buffer is an oracle violation; model verdict by `A dec` with the model's own prefix handling "
            "(stub/full: whole input; KMS: prefix ‖ payload over the DEK's AEAD when the envelope header is untouched, else Go oracle only). "
            "AES-CTR-HMAC associated-data length block for sizes that cannot be run end to end: aesctrhmac.aadSizeInBits (hook VerifAADSizeInBits) and legacy aead/subtle.EncryptThenAuthenticate (recording MAC, identity cipher) on never-touched zero mappings of 0..2^32+1 bytes (2^29±1, 2^31, k·2^29, random) against `A aadbits n` = the closing block of EtM.macInput; "
            + KMS_UNSUPPORTED + SPECIAL_NONCES + "(mode mut: every model-made special ciphertext also with flips before / at / after the carry block, in nonce and tag, cuts, a dropped block, nonce ± 1 — all rejected); "
            "non-trivial = every op line, distinct by line hash",
    "trusted_base": [KERNEL, TIE, PRIMS],
    "assumptions": ["H_mac: beyond the exact characterisation (plaintext is released iff the recomputed tag equals the transmitted tag), "
                    "rejection of modified inputs rests on the unforgeability of GHASH/Poly1305/HMAC/POLYVAL tags (cryptographic)",
                    "no-panic on the real code is explored (recover around every call), not proved"],
    "manifest": {
        "text": "Theorems: exact acceptance characterisation of Decrypt for the framed AEADs, AES-CTR-HMAC and AES-GCM-SIV (plaintext is "
                "released iff length ≥ minimum, the prefix matches and the recomputed tag equals the transmitted one), short inputs and wrong "
                "prefixes rejected, envelope length-field rejections; the model is total (no partial function, every slice guarded). "
                "Tie: decisions of tink-go and the model agree on a mutation stream over every field and boundary; acceptance of any mutated "
                "input or a panic is reported as a violation.",
        "design_ref": "DESIGN.md §5.2",
        "note": "Trusted: Lean kernel; reference primitives; H_mac is a named cryptographic assumption for the non-exact part.",
        "technique": "Lean 4 proof (acceptance characterisation) + Go/Lean decision correspondence on mutation streams",
    },
}

PROPS["C14"] = {
    "lean": ["TinkVerif.Props.C14"],
    "theorems": T("TinkVerif.Keyset", "validate_iff_WF validate_rejects validKey_iff handleOf_wf handle_from_reader_then_any_history"),
    "harness": [{"name": "c14"}],
    "rule": "structure-aware mutation of valid keysets of every key type (empty, missing/duplicate/disabled/destroyed primary, duplicate "
            "ids, unknown status/prefix/material enum values, nil KeyData, wrong material type, truncated/garbage values, versions, "
            "out-of-range sizes, off-curve points, mismatched halves, below-minimum-strength keys) plus random bytes and random JSON, "
            "through keyset.Validate, insecurecleartextkeyset.Read, NewHandleWithNoSecrets, the binary and JSON readers; Go accept/reject "
            "vs the Lean model (per-key parser verdict passed as an oracle bit); every accepted handle is used with every factory under "
            "recover and checked for self-consistency; systematic length mutations (extend by 1 / by a leading zero / by 32, double, "
            "truncate by 1 / to half, empty) of every bytes field of every key proto (private keys, their embedded public keys, "
            "public-only keysets) as single-key keysets and inside multi-key keysets, and the same mutations through the key-level "
            "New*Key constructors; public-only handles are used with well-formed inputs (verifiers: what the untouched private twin "
            "signs + random strings of every signature length under every prefix; encrypters: ciphertext opened by the private twin; "
            "JWT verifiers likewise): an untouched key must accept its twin, a wrong-length key that is accepted must give a working "
            "primitive, nothing may panic; structured public/private mismatches of every asymmetric pool key (each single field taken "
            "from a second valid key and the converse; NIST curves incl. HPKE and composite: negated point, n−d, 2Q, Q±G, d±1, 2d, d+n, "
            "x+p, y+p, d∈{0,n}, compressed point; X25519/Ed25519: top/sign bit, small-order points, clamping aliases; RSA: p↔q with and "
            "without CRT values, d+λ, d+φ, dp+(p−1), crt+p, d for another e) with still-matching rewrites as controls — an accepted one "
            "must verify/open under its own public half; keysets of 15…70 keys (…257 in thorough; sizes around 16/32/64/128/256) with a "
            "repeated id at first/middle/last and threshold positions under all 9 status pairs and every primary placement, three "
            "occurrences, and one structural fault (unknown status/prefix, nil KeyData, disabled/destroyed/missing primary) at each chosen "
            "position, which must be rejected by every reader; NIST-curve keys in foreign integer encodings (1–3 leading zero bytes "
            "stripped, fixed, over-long; kslib.ECShortCases) whose accepted forms must be the same key as the canonical encoding; "
            "non-trivial = keysets with ≥1 key, distinct by line hash Round-4 passes: role swaps in nested keys — every KeyData / KeyTemplate field inside a key proto (found by a protoreflect walk: composite ML-DSA halves, the deriver's PRF key and derived-key template, KMS-envelope DEK and ECIES DEM templates) is given well-formed keys / templates of another role (private for public and vice versa with exactly the nested parameters, another type over the same curve / modulus, another algorithm, key-for-format and format-for-key; material types left / adjusted; every prefix): rejected, or every factory and the registered key-level constructor of each entry must return without panic and a created primitive must round-trip; structured mismatches of X-Wing / ML-KEM / ML-DSA / SLH-DSA / composite keys (ML-KEM part, t-hat, rho, single coefficients incl. non-reduced, bits of X25519 / Ed25519 public values, small-order and u>=p shares, seeds / d / z / rho / t1 / PK.seed / PK.root of a second key, with controls) under the same own-round-trip rule.",
    "trusted_base": [KERNEL, TIE, "per-type key parsers are an oracle bit of the model (parseOk); the harness obtains it from "
                     "protoserialization.ParseKey"],
    "assumptions": ["'never a panic' on the real code is explored (recover around every call), not proved; the theorem covers the structural gate"],
    "manifest": {
        "text": "Theorems for every keyset message (any keys, any enum numbers incl. unknown ones): Validate accepts iff the keyset is "
                "non-empty, all keys have key data and known prefix/status, ids are pairwise distinct and the primary id names an ENABLED "
                "key; each rejected shape of the property as a corollary; handle construction yields an error or a handle with ≥1 key, "
                "distinct ids, exactly one ENABLED primary and known statuses (the WFHandle of C11, so any later manager history keeps it "
                "well-formed). Tie: accept/reject and resulting entries of the real readers vs the model on structurally mutated keysets, "
                "random bytes and JSON; accepted handles are used with every factory under recover.",
        "design_ref": "DESIGN.md §5.14",
        "note": "Trusted: Lean kernel; per-type parsers as oracle; no-panic explored not proved.",
        "technique": "Lean 4 proof (validate ↔ WF, handle well-formedness) + Go/Lean decision correspondence on mutated keysets",
    },
}
PROPS["C13"] = {
    "lean": ["TinkVerif.Props.C14", "TinkVerif.Props.C13Info"],
    "theorems": T("TinkVerif.Keyset", "noSecrets_sound noSecrets_complete noSecrets_any_position") +
                T("TinkVerif.KInfo", "info_noninterference info_ignores_key_material info_entries info_fields keyInfo_fields "
                  "encryptedKeyset_noninterference encryptedKeyset_fields binaryForm_fields fromWire_toWire parseKeyset_encode "
                  "readEncrypted_writeEncrypted readBinary_writeBinary readEncrypted_wrong_ad readEncrypted_wrong_key "
                  "readBinary_wrong_ad readBinary_wrong_key"),
    "harness": [{"name": "c13"}],
    "rule": "keysets of every key type with the secret key at each position, mixed public/secret, unknown material enum values and type "
            "URLs; NewHandleWithNoSecrets / ReadWithNoSecrets / WriteWithNoSecrets decisions vs the model; every String(), KeysetInfo() "
            "and written encrypted keyset is scanned for ≥8-byte substrings of any secret key material; encrypted keysets re-read with "
            "wrong key / wrong associated data / truncated ciphertext; large keysets: 63..300 keys (thorough: up to 65537) with one secret "
            "key of every kind and status at early, late (≥64, ≥128, ≥256) and, for some sizes, every position, Public() of that many "
            "private keys; serializations padded to exact sizes around 64 KiB, 128 KiB, 1 MiB, 1.5 MiB (thorough: up to 32 MiB; many "
            "ML-DSA / small public keys or one giant padding key) written and read back through the no-secret, cleartext and encrypted "
            "binary / JSON / memory paths with equal keys, a secret key first / in the middle / behind 64 KiB or 1 MiB / right behind a "
            "key that ends exactly at byte 65535..65537 or 1 MiB±1; NIST-curve keys (ECDSA, JWT-ECDSA, ECIES; P-256/384/521) whose x, y "
            "or d has 1, 2, 3 leading zero bytes in foreign encodings (minimal, partially stripped, fixed, over-long, "
            "BigInteger.toByteArray) must be accepted by the no-secret gates resp. read from an encrypted keyset and be Equal to the "
            "key in tink-go's own encoding, non-zero extra leading bytes must be refused; "
            "non-trivial = keysets with ≥1 key, distinct by line hash",
    "trusted_base": [KERNEL, TIE],
    "assumptions": ["confidentiality of the AEAD ciphertext of an encrypted keyset is cryptographic",
                    "the substring scan is a search aid, not the proof; the proof is the gate theorem over all positions"],
    "manifest": {
        "text": "Theorems for every keyset and every position of the offending key: the NoSecrets gates succeed only if no key carries "
                "UNKNOWN/SYMMETRIC/ASYMMETRIC_PRIVATE material, and for public/remote-only keysets they coincide with ordinary handle "
                "construction. Tie: gate decisions of the real API vs the model; outputs of String/KeysetInfo/encrypted writers scanned for "
                "key bytes; encrypted keysets rejected under wrong key or associated data.",
        "design_ref": "DESIGN.md §5.13",
        "note": "Trusted: Lean kernel; AEAD confidentiality cryptographic; material types with undefined enum numbers are treated as the code treats them (not secret) and reported in DESIGN.md.",
        "technique": "Lean 4 proof (gate soundness over all positions) + Go/Lean decision correspondence + leak scan",
    },
}

PROPS["C05"] = {
    "lean": ["TinkVerif.Props.C05"],
    "theorems": T("TinkVerif.Wrap", "accept_iff accept_none_of_no_enabled accept_logs_worker macAccept_iff tryAll_iff producer_is_primary "
                  "prfIds_spec wf_after_any_history"),
    "harness": [{"name": "c05"}],
    "rule": "keysets of 1..6 keys per family (AEAD, DAEAD, MAC, signatures, hybrid, JWT, streaming AEAD, PRF) with mixed key types, "
            "TINK/CRUNCHY/LEGACY/RAW, ENABLED/DISABLED/DESTROYED, any primary, ids incl. 0 and 2^32-1, CRUNCHY/LEGACY keys sharing an id, "
            "the same key material under two ids, keysets built through manager histories; for each keyset a single-key primitive per key "
            "(incl. disabled, destroyed, removed and foreign keys) produces an output and the acceptance matrix is measured; the Lean "
            "model receives the keyset and the matrix row and predicts accept/reject and the logged key id; the wrapped primitive's "
            "decision, the producing key's prefix and the fakemonitoring log are compared; every 16th streaming keyset has 2-4 keys with "
            "segment sizes 4 KiB / 64 KiB+1 / 1 MiB / 2 MiB and probes of 60 KiB .. 2.5 MiB read through three kinds of sources "
            "(the key-matching reader must replay what a failed trial consumed); "
            "twin JWT keys (kidtwins.go; same key material) with near-identical kids — TINK ids constructed so that the base64url kids differ only "
            "in letter case, custom kids differing by ASCII/Unicode case folding (K/Kelvin sign, s/long s, İ, ı), trailing or leading white "
            "space/NUL, prefix, NFC vs NFD, base64 padding or non-canonical trailing bits, empty vs absent — for HS*, ES*, RS*, PS* and ML-DSA "
            "(one algorithm per family in the quick tier, all 15 in thorough): tokens made by twin X through jwt.NewMAC/NewSigner and its "
            "single-key primitive are shown to keysets holding only X (control), only the other twin Y, Y plus unrelated keys (one carrying X's "
            "exact kid with other material), X disabled + Y, and X together with Y; the acceptance row given to the model (`!W tryall`, "
            "property-level) is computed independently of the jwt package (stdlib MAC/signature check over header.payload and byte equality of "
            "the header kid with the kid the harness computes), and the logged key id must be the twin whose kid matches exactly; every "
            "generated JWT keyset also gets a foreign key with a member's material and a case/space/NUL/padding variant of its kid, and every "
            "genuine JWT probe is checked against the by-construction row (same material and exact kid) at single-key and keyset level; "
            "non-trivial = probes on keysets with ≥2 keys",
    "trusted_base": [KERNEL, TIE, "the single-key acceptance relation is measured on the real single-key primitives and passed to the "
                     "model (this check is independent of the cryptography, which C01–C04/C06/C09 cover)"],
    "assumptions": ["a defect that lives only inside a single-key primitive is invisible to this check by construction, except for the JWT kid "
                    "rule, which the kid-twin section judges with a row computed independently of the jwt package"],
    "manifest": {
        "text": "Theorems for every keyset and every single-key acceptance relation: an input is accepted iff some ENABLED key whose "
                "5-byte prefix it carries (or which has no prefix) accepts it (MAC: and the tag is longer than 5 bytes; JWT/streaming: any "
                "ENABLED key); nothing valid only under disabled/destroyed/foreign keys is accepted; the logged key id names an accepting "
                "ENABLED candidate; the producer is the unique ENABLED primary; PRF-set ids = enabled ids; composed with C11 so that it holds "
                "after any manager history. Tie: decisions, producing prefix and monitoring logs of the real factories vs the model on "
                "generated keysets with a measured acceptance matrix.",
        "design_ref": "DESIGN.md §5.5",
        "note": "Trusted: Lean kernel; acceptance matrix measured on real single-key primitives.",
        "technique": "Lean 4 proof (selection rule ↔ declarative statement) + Go/Lean decision-and-log correspondence",
    },
}

PROPS["C09"] = {
    "lean": ["TinkVerif.Props.C09"],
    "theorems": T("TinkVerif.Jwt", "verifyOne_accept_iff bad_signature_rejected validateHeader_sound wrong_alg_rejected crit_rejected "
                  "tink_kid_required fieldRule_table validate_iff missing_exp_needs_option newValidator_guards verifyKeyset_accept_iff"),
    "harness": [{"name": "c09"}],
    "rule": "product-space JWT generator: subsets of registered claims, custom claims of every JSON kind, all validator option "
            "combinations incl. invalid ones, time grid around now±skew with nanosecond clocks, skews {0,1s,10min,10min+1ns,negative}, "
            "keys HS256/384/512, ES256/384/512, RS*, PS*, ML-DSA × kid strategies × TINK/RAW, header manipulations (alg none/other "
            "family/other hash, kid missing/wrong/non-string, crit, non-string typ, extra fields), structure manipulations (dots, empty "
            "parts, padded/standard-alphabet base64, whitespace), signature mutations, multi-key keysets with disabled keys; the model "
            "receives the compact string, header and payload from an independent encoding/json parse and the per-key raw-signature "
            "validity bits; accept/verification-error/validation-error and the logged key id are compared; claims of accepted tokens "
            "are compared with the independent parse; RSA moduli of 2048 bits and of sizes that are not a multiple of 8 "
            "(2049/2050/2052/2055/2057/2060; three per quick run, all plus 3072 in the thorough tier; one key per run made by "
            "AddNewKeyFromParameters) are drawn by the generator and run directed, each with the JWK export → import → re-export round "
            "trip (n = minimal big-endian modulus, modulus size in bits / exponent / algorithm / kid strategy preserved, the imported "
            "keyset verifies what the private keyset signs); HISTORY: sequences of 6..30 calls on long-lived MAC/signer/verifier objects "
            "with failing calls (NaN/±Inf custom claims also nested, invalid-UTF-8 claim name or typ, nil RawJWT, options NewRawJWT must "
            "refuse, garbage/empty/oversized/glued tokens, unfit validators) directly in front of valid ones (≥ 9 fail→valid pairs per key "
            "configuration): every valid call equals a fresh primitive's (byte-identical token for HS*/RS*, identical header.payload and "
            "cross-verification for ES*/PS*/ML-DSA); LARGE: library-made and hand-written tokens with header.payload of exactly 60 KiB, "
            "64 KiB−16, 65535/65536/65537, 64 KiB+16, 70 KiB, 131071/131072/131073, 200 KiB (string / array / object / sub / aud-list "
            "padding) under HS256/384/512 × kid strategies and ES256/RS256/PS256/ML-DSA-44/ES384: tag = crypto/hmac over the whole "
            "header.payload byte for byte, and any change beyond offsets 65536 / 131072 (padding letter, trailing claim value, exp "
            "extended, base64 character, appended whitespace/garbage, truncation) with the original tag must be rejected; "
            "KID TWINS (kidtwins.go; header manipulations kid-case-flip / kid-unicode-fold in the generator): keys with the same material "
            "whose kids differ only in letter case (TINK key ids built from case-flipped base64 kids, e.g. 0x69b71d79 \"abcdeQ\" / "
            "0x00108311 \"ABCDEQ\"; custom kids \"Signing-Key-2024\"/\"signing-key-2024\"), Unicode case folding (K/KELVIN SIGN, s/LONG S, "
            "σ/ς, é/É), NFC/NFD, leading/trailing blank, NUL, proper prefix, for HS*/ES*/RS*/PS*/ML-DSA: a hand-written or library-made "
            "token of one twin must be rejected by a keyset holding only the other (or the other plus the first one disabled / an unrelated "
            "key) and verified under its own id when both are enabled (either order); REAL CLOCK (realclock.go, last phase): validators "
            "WITHOUT FixedNow, calls aligned to ≈.1/.4/.6/.9 s after a whole second (thorough: ten phases incl. next to .0 and .5, more key "
            "families and skews), exp ∈ ⌊now−skew⌋+{−2..2}, nbf/iat ∈ ⌊now+skew⌋+{−2..2}, alone and combined, skews 0, ±1 s, 500 ms, 10 min; the "
            "wall clock is read immediately before and after each call and the sample counts only if the three RFC 7519 comparisons come out "
            "the same for both readings (otherwise it is discarded and crafted again — never an alarm); the model gets the un-rounded "
            "nanosecond readings (both) and must give the implementation's answer; "
            "non-trivial = every verify line, distinct by line hash",
    "trusted_base": [KERNEL, TIE, "JSON text parsing is protobuf structpb's (the generator stays on JSON where encoding/json and "
                     "protobuf agree: unique keys, valid UTF-8, numbers exactly representable)",
                     "raw signature/MAC validity is measured with tink's single-key raw primitives (C03/C04/C10 cover those)"],
    "assumptions": ["float formatting/rounding of time claims is not modelled"],
    "manifest": {
        "text": "Decision theorems stated outright, for every token text, parsed header/payload, key configuration, validator options, "
                "instant and skew: a single key accepts iff the compact form splits correctly, the raw signature verifies, the header "
                "names exactly the key's algorithm, has no crit, satisfies the kid rule, typ is a string if present, the payload is "
                "well-formed and the validator's exp/nbf/iat/typ/aud/iss rules hold; the keyset-level primitive accepts iff some listed "
                "key accepts; presence matrix, constructor guards, boundary instants. Tie: product-space token generator, decisions and "
                "logged key ids of the real JWT primitives vs the model.",
        "design_ref": "DESIGN.md §5.9",
        "note": "Trusted: Lean kernel; structpb JSON parsing and raw signature checks are inputs to the model.",
        "technique": "Lean 4 proof (decision logic stated outright) + Go/Lean decision correspondence over a product-space generator",
    },
}

PROPS["C10"] = {
    "lean": ["TinkVerif.Props.C10", "TinkVerif.Props.C10Hint", "TinkVerif.Props.C10Pack", "TinkVerif.Kat.MldsaPack"],
    "theorems": T("TinkVerif.Gen.Mldsa", "useHint_makeHint useHint_makeHint_norm useHint_close useHint_zero decompose_recompose "
                  "lowBits_small_highBits_stable power2Round_bound") +
                T("TinkVerif.Model.MldsaPack", "simpleBitUnpack_simpleBitPack simpleBitPack_simpleBitUnpack simpleBitPack_bijective_256 "
                  "bitUnpack_bitPack bitPack_bitUnpack mldsa_bitPack_bijective hintBitUnpack_hintBitPack hintBitUnpack_canonical "
                  "hintBitUnpack_injective hintBitUnpack_reject_counter_decreasing hintBitUnpack_reject_index_not_increasing "
                  "hintBitUnpack_reject_nonzero_padding hintBitUnpack_reject_counter_gt_omega mldsa_hint_laws w1Encode_injective") + T("TinkVerif.Gen.Mldsa", "reduceOnce_spec add_spec sub_spec neg_spec mul_spec power2Round_spec power2Round_fips "
                  "divBy2Gamma2_88 divBy2Gamma2_32 decompose_spec88 decompose_spec32 decompose_fips88 decompose_fips32 highBits_eq "
                  "lowBits_eq useHint_spec88 useHint_spec32 makeHint_spec centeredAbs_spec centeredMax_spec zetas_spec consts_spec"),
    "harness": [{"name": "c10", "pre": True, "timeout": 3000}],
    "rule": "(1) translation validation: every regenerated scalar function vs the Go original through export hooks on boundary values "
            "(0, 1, q-1, q/2±1, multiples of 2γ2 ±1, 2^13 multiples ±1) and random field elements (thorough: exhaustive over all of Z_q "
            "for the unary functions); (2) packing/hint codecs vs the FIPS 204 reference; (3) algorithm level: key generation from seeds "
            "(pk, sk bytes), deterministic signatures byte-identical, hedged signatures verify in the reference, external-mu path, verify "
            "decisions on bit flips in c~/z/h regions, wrong lengths, other key/context, crafted boundary signatures made by the reference "
            "with the secret key (||z||∞ = γ1−β−1 accept, = γ1−β reject, hint count = ω accept), non-canonical hint encodings; composite "
            "ML-DSA accept iff both components accept; (4) sampling layer on its boundaries, inputs SEARCHED with samplers written from the "
            "standard and put to the reference (ops rejntt/rejbounded/chb/sampleinball/expandmask): RejNTTPoly streams holding the "
            "candidates q−1, q, q+1, 2^23−1, 0 (incl. byte triples with bit 23 set), key-generation seeds whose ExpandA/ExpandS hit them "
            "or need a third SHAKE256 block, RejBoundedPoly on XOF block edges, SampleInBall with j = i / j = i+1 / sign-byte patterns, "
            "ExpandMask at κ = 0, around the counter carry (κ < 256 ≤ κ+r), at the top of the 16-bit range and with coefficients γ1 / "
            "−γ1+1; (5) signing-loop history: deterministic signatures needing ≥ 20 / ≥ 37 / ≥ 52 attempts (table found offline + live "
            "search; the attempt is recovered from the signature alone), and messages with an attempt exactly on a rejection bound of "
            "Alg. 7 (‖z‖∞, ‖r0‖∞, hint count: largest accepted / smallest refused value) found by the reference (op signscan, table + live "
            "scan); non-trivial = every op line, distinct by line hash",
    "trusted_base": [KERNEL, TIE, PRIMS, "translator go/harness/translator (go/parser + go/types, whitelisted grammar, refuses unknown "
                     "constructs), validated on every run against the Go originals through export hooks",
                     "GoSem.lean: semantics of crypto/subtle helpers with preconditions as poison values"],
    "assumptions": ["SHAKE is a reference primitive; the FIPS 204 reference (Prim/Mldsa.lean) is validated by Wycheproof/ACVP-derived "
                    "vectors and agreement with Go, not proved", "NTT inverse law is tied by correspondence only"],
    "manifest": {
        "text": "Theorems over definitions REGENERATED from algebra.go on every run, for every element of Z_q and both γ2: reduceOnce/add/sub/"
                "neg are arithmetic mod q; Barrett multiplication equals a·b mod q; Power2Round, Decompose, HighBits/LowBits, UseHint, "
                "MakeHint equal FIPS 204 Alg. 35–40 incl. the q−1 corner; the magic-constant divisions equal x/(2γ2); centered norm; "
                "zetas table = 1753^bitrev8(k) mod q; constants. A changed constant, shift, mask or operator in the Go source breaks a "
                "proof. Tie for the rest: Go vs the independent FIPS 204 Lean implementation (keys, deterministic signatures, verify "
                "decisions incl. crafted boundary signatures), and translation validation of the regenerated functions.",
        "design_ref": "DESIGN.md §5.10",
        "note": "Trusted: Lean kernel; translator (validated each run); reference FIPS 204 implementation (KAT + agreement).",
        "technique": "Lean 4 proof over regenerated definitions (∀ Z_q) + translation validation + Go/Lean FIPS 204 correspondence",
    },
}

PROPS["C03"] = {
    "lean": ["TinkVerif.Props.C03", "TinkVerif.Props.C03Der", "TinkVerif.Kat.DerList"],
    "theorems": T("TinkVerif.Sig", "fullVerify_fullSign fullVerify_iff legacy_signs_suffixed p1363_roundtrip p1363_wrong_length "
                  "p1363_encode_decode rsa_guard") +
                T("TinkVerif.DerList", "decSig_encSig encSig_decSig decSig_eq_some_iff encSig_inj decSig_append_none decSig_take_none "
                  "decSig_trailing_inside decSig_leading_zero_r decSig_leading_zero_s decSig_wrong_tag decInt_encInt encInt_decInt "
                  "encInt_inj decInt_negative decInt_empty decLen_unique decSig_encSig_p521"),
    "harness": [{"name": "c03", "timeout": 3000}],
    "rule": "Go signs with ECDSA (P-256/384/521 × SHA256/384/512 admissible pairs × DER/P1363), Ed25519, RSA-SSA-PKCS1 (2048/3072 and odd sizes × hash), "
            "RSA-SSA-PSS (salt 0/20/32/48/64 × hash), every variant TINK/CRUNCHY/LEGACY/RAW; the independent Lean verifier (curve arithmetic, "
            "strict DER, EMSA encodings written from the standards) must accept over message‖0x00 for LEGACY; decisions of Go and the "
            "reference must agree on mutation streams: bit flips, wrong/missing prefix, truncation/extension, (r, n−s), r or s = 0 / ≥ n, "
            "DER re-encodings (long-form length, leading zeros, negative, trailing bytes, indefinite length, SET), P1363 of wrong length, "
            "DER given to a P1363 key and vice versa, other key; RSA moduli whose bit length is not a multiple of 8 (rsasizes.go: 2049, 2050, 2052, 2055, 2057; "
            "thorough also 2051, 2060, 2063, 2100, 3073, 3079, 4095; generated per run by crypto/rsa): every PKCS1 hash × variant and PSS hash × salt × "
            "variant configuration with the same mutation streams as the 2048/3072-bit keys, signature length ⌈bits/8⌉, and signatures made by crypto/rsa "
            "itself (SignPKCS1v15 / SignPSS) presented to the Tink verifiers of the public key alone; "
            "RSA-SSA-PSS salt-length grid (saltgrid.go): every modulus (2048, 3072 and the non-byte-aligned sizes) × hash × salt ∈ {1, hLen−1, hLen, "
            "hLen+1, max−1, max} with max = ⌈(bits−1)/8⌉ − hLen − 2 — each key must be constructible through every path (parameters/public/private "
            "key, signature.NewSigner, rsassapss.NewSigner, internal/signature signer/verifier), sign, and its signatures and crypto/rsa.SignPSS "
            "signatures of the same salt must verify under the Tink verifiers, crypto/rsa.VerifyPSS with the explicit salt and the reference; "
            "salt-length binding: crypto/rsa signatures of every other grid salt and the Tink signatures of the keys that differ in the salt length "
            "only must be rejected (also by a key with salt max+1); salt 0 (known finding) only meets the grid in the last section, as lines "
            "without a Go-side oracle; non-trivial = every verification line, distinct by line hash",
    "trusted_base": [KERNEL, TIE, PRIMS],
    "assumptions": ["group-law correctness of the reference EC/RSA code is by KAT (RFC vectors, Wycheproof) and agreement with Go, not proved",
                    "unforgeability of the schemes is cryptographic"],
    "manifest": {
        "text": "Theorems for every prefix, variant, message and raw scheme: a produced signature verifies; Verify accepts iff the "
                "signature carries the key's prefix and the remainder verifies under the raw scheme over message(‖00 for LEGACY); the "
                "IEEE-P1363 codec is a bijection between pairs of n-byte scalars and strings of exactly 2n bytes; RSA parameter guard. "
                "Tie: accept/reject decisions of tink-go vs an independent strict verifier (ECDSA over P-256/384/521 with strict DER, "
                "Ed25519, RSASSA-PKCS1, RSASSA-PSS) on Go-made signatures and systematic mutations/re-encodings.",
        "design_ref": "DESIGN.md §5.3",
        "note": "Trusted: Lean kernel; reference EC/RSA/Ed25519 verifiers (KAT + 27k cross-checked vectors).",
        "technique": "Lean 4 proof (wrapper + codec laws) + Go/Lean verification-decision correspondence on mutation streams",
    },
}
PROPS["C16"] = {
    "lean": ["TinkVerif.Props.C16", "TinkVerif.Props.C16Struct", "TinkVerif.Kat.SlhStruct"],
    "theorems": T("TinkVerif.Slh", "toInt_toByte toByte_length toByte_toInt toInt_lt base2b_length base2b_digit_lt idxTree_lt idxLeaf_lt") +
                T("TinkVerif.SlhStruct", "base2b_eq_spec_ceil chain_add wotsPkFromSig_sign csum_strict_anti checksumDigits_eq "
                  "wots_checksum_blocks_forward_forgery rootFromPath_authPath xmssPkFromSig_sign htVerify_sign forsPkFromSig_sign "
                  "slhVerify_sign table2_digest_length table2_mDerived table2_height table2_wots"),
    "harness": [{"name": "c16", "timeout": 3000}],
    "rule": "all twelve SLH-DSA parameter sets: public key from seeds byte-identical with the FIPS 205 reference (f-sets quick, s-sets "
            "thorough), deterministic signatures byte-identical (f-sets), Go hedged signatures verify in the reference for varied messages "
            "(so tree/leaf indices and base-2^b digit patterns vary), mutations in every structural region (R, FORS secret/auth nodes, WOTS "
            "chains, XMSS auth paths), wrong length ±1, other key/message → both reject; internal toInt/toByte/base2b/digest split compared "
            "through export hooks on random and boundary inputs; contexts of 256, 257, 511 and 512 bytes are refused by Sign, "
            "SignDeterministic (all sets) and by Verify also when the signature is crafted to be genuine for each encoding a missing "
            "length check could build (length byte wrapped / saturated, context cut to 255 or to the wrapped length, empty context over "
            "ctx|M; f-sets quick, all sets thorough), the 255-byte context round-trips; LARGE MESSAGES (lengths k*2^16+d around 65536 "
            "and 131072 incl. exactly 65533..65537, 100000, and the lengths where M' = 0|len(ctx)|ctx|M crosses 2^16 / 2^17 for contexts of "
            "0, 1, 255 bytes; 3*2^16, 1 MiB, 1 MiB+1 thorough; messages as @len:seed tokens): R = PRF_msg, digest = H_msg, its split and the "
            "FORS indices as computed inside signInternal / verifyInternal vs the reference for all three hash families at every size (all "
            "twelve sets), Sign / SignDeterministic / signInternal signatures verify in the reference and are byte-identical to its own "
            "(f-sets quick, all sets thorough), flipped message bytes (first, last, positions 65535/65536 of M and M'), message length "
            "±1 / ±2^16 and signatures crafted to be genuine only under a wrong digest (H_msg without PK.root, over M' cut to 65535 or to "
            "len mod 2^16 bytes, signature of the cut M') are rejected by both; non-trivial = every line, distinct by line hash",
    "trusted_base": [KERNEL, TIE, PRIMS],
    "assumptions": ["hashes are reference primitives; the FIPS 205 reference (Prim/Slhdsa.lean) is validated by the repo's KAT vectors "
                    "and agreement with Go on 3300 cross-check lines, not proved",
                    "the structural verify∘sign theorem (Merkle paths) is not proved; only the support laws are"],
    "manifest": {
        "text": "Theorems for all inputs: toInt/toByte are mutually inverse (mod 256^n), base_2^b yields exactly outLen digits each below "
                "2^b and the Go-shaped bit-buffer loop equals the digits of the big-endian integer (base2b_eq_spec), tree and leaf indices are in "
                "range for every digest and every (h, h'). Structural FIPS 205 correctness over an ABSTRACT tweakable hash, all sizes: WOTS+ "
                "chain composition and pkFromSig∘sign = pkGen, checksum strictly decreases when any digit advances (no forward forgery), "
                "Merkle rootFromPath∘authPath = root, XMSS / hypertree / FORS verify their own signatures, and slhVerify (slhSign …) = true; "
                "Table 2 identities for the 12 sets; the abstract model is tied to the executable reference by #guard byte comparisons. "
                "Tie for the scheme: keys, deterministic "
                "signatures and verification decisions of tink-go vs an independent FIPS 205 implementation in Lean on all twelve "
                "parameter sets, incl. mutations in every structural region.",
        "design_ref": "DESIGN.md §5.16",
        "note": "Trusted: Lean kernel; reference FIPS 205 implementation (KAT + agreement); structural correctness not proved.",
        "technique": "Lean 4 proof (support-function laws) + Go/Lean FIPS 205 correspondence",
    },
}

PROPS["C06"] = {
    "lean": ["TinkVerif.Props.C06"],
    "theorems": T("TinkVerif.Hpke", "computeNonce_zero open_sealWith sealWith_layout open_short open_iff fullOpen_fullSeal "
                  "fullOpen_wrong_prefix labelInfo_injective labelInfo_length_prefix eciesOpen_eciesSeal eciesOpen_short suite_id_layout"),
    "harness": [{"name": "c06", "pre": True, "timeout": 3000}],
    "rule": "every HPKE suite tink-go admits (KEM P-256/384/521/X25519/X-Wing/ML-KEM-768/1024 × KDF × AEAD) and the ECIES grid (curve × "
            "hash × point format × DEM AES-GCM/AES-CTR-HMAC/AES-SIV × salt), all variants; Go Encrypt → the Lean model decrypts with the "
            "private key bytes using its own DH, key schedule and AEAD; the Lean model encrypts with a harness-chosen ephemeral scalar "
            "(two-phase) → Go Decrypt; for ML-KEM and the ML-KEM half of X-Wing the shared secret is taken from Go's crypto/mlkem and "
            "passed on the line; mutations of prefix / enc / ct / tag, cut points, other private key, changed and empty context info → both "
            "reject; non-trivial = every line, distinct by line hash. Section SUBTLE (subtle.go): the public hybrid/subtle API for every "
            "curve subtle.GetCurve admits (P-224 included; every name string) × the three point formats: PointEncode / PointDecode on "
            "G, 2G, 3G, (n-1)G, (n-2)G, points with leading-zero x / y, random points, both y parities — byte-for-byte against "
            "crypto/elliptic and the Lean reference (P-224: Prim/EcP224.lean, Tonelli–Shanks); invalid encodings (length, first byte, "
            "x ≥ p, non-residue x, off-curve, (0,0)) → rejected by tink-go, crypto/elliptic and the model; GetECPrivateKey / "
            "GenerateECDHKeyPair / ComputeSharedSecret (incl. d ≡ 0 mod n, off-curve peer); the ECIES-HKDF KEM key observed through a "
            "spying DEM helper (go-encapsulated, independent sender, negated point, invalid KEM bytes) vs crypto/hkdf and the model; "
            "full ECIES round engine over the subtle constructors for all 12 curve × format pairs. "
            "Section COLLIDE (collide.go): keysets in which a RAW key's ciphertext starts with the output prefix of another member — HPKE "
            "X25519 and ECIES legacy-point-format (P-256/384/521) targets with lines, X-Wing / ML-KEM targets by Go oracle only; Go-made "
            "(Encrypt on the deterministic tape until ct[0] ∈ {00,01}) and model-made (ephemeral scalar searched with crypto/ecdh, Lean "
            "encrypts, two-phase) ciphertexts; the TINK/CRUNCHY member with id ct[1:5] has equal key material, fresh material or another "
            "KEM family, sits before / between / after the RAW keys, is primary or not, enabled or disabled. Every probe (colliding "
            "ciphertexts, flips, other info, cuts, the prefixed members' ciphertexts, prefix stripped / prepended) is measured on each "
            "member's single-key primitive and on the keyset primitive: keyset accepts iff an ENABLED member accepts and returns its "
            "plaintext, tied to the Lean prefix-map model by `W keys` + `!W acceptb`, with the RAW key's single-key verdict tied to the "
            "HPKE/ECIES model by `!H` lines. "
            "Section SALTS (salts.go): ECIES HKDF salts of lengths {0,1,31,32,33,63,64,65,96,100,127,128,129,200,1000} × every HKDF hash "
            "(SHA1/224/256/384/512; HMAC blocks 64/128) plus all-zero / all-0xff / last-byte-zero / first-byte-zero salts around the digest "
            "and block sizes, through hybrid/subtle directly (P-224 included) and through ecies.Parameters{Salt} keys (key / keyset / "
            "serialized keyset / generated), curve × point format × DEM × variant rotating (thorough: every curve × format × path): Go Encrypt "
            "→ the Lean model must recover the plaintext, Lean model encrypts (two-phase) → Go Decrypt, Go round trip; a recipient built with "
            "a related salt (zero appended/dropped, zero-padded or truncated to block/64/digest size, digest of the salt, bit flipped) must "
            "accept exactly when both salts are the same RFC 2104 HMAC key block, and must agree with the model",
    "trusted_base": [KERNEL, TIE, PRIMS, "crypto/mlkem (stdlib) supplies ML-KEM shared secrets; H_kem (decap∘encap) is a hypothesis of the "
                     "round-trip theorem"],
    "assumptions": ["H_kem: Diffie-Hellman commutativity / KEM correctness is assumed (named hypothesis KemLaw), exercised by the "
                    "two-way correspondence", "compressed-point square roots are reference code"],
    "manifest": {
        "text": "Theorems for every KEM, MAC and raw AEAD: HPKE decrypt∘encrypt = id under KemLaw and the raw AEAD law, wire layout enc‖ct "
                "with |enc| = Nenc, exact acceptance characterisation (decap succeeds and the tag verifies under the key scheduled from "
                "the decapsulated secret and the context info), first nonce = base nonce, labelInfo length prefix and injectivity in info "
                "(context binding at the encoding level), prefix framing, ECIES framing round trip. Tie: tink-go ciphertexts decrypted by "
                "the Lean RFC 9180 / ECIES implementation and vice versa, with mutations.",
        "design_ref": "DESIGN.md §5.6",
        "note": "Trusted: Lean kernel; reference curves/hashes/AEADs; ML-KEM from stdlib; H_kem named.",
        "technique": "Lean 4 proof (round trip under H_kem, characterisation, label laws) + two-way Go/Lean ciphertext correspondence",
    },
}

PROPS["C12"] = {
    "lean": ["TinkVerif.Props.C12", "TinkVerif.Props.C12TableDefs", "TinkVerif.Props.C12Tables", "TinkVerif.Props.C12BigInt"],
    "theorems": ["TinkVerif.Wire.decVarint_enc", "TinkVerif.Wire.decVarint_canon", "TinkVerif.Wire.decField_enc",
                 "TinkVerif.Wire.decode_encode", "TinkVerif.Wire.encode_decode", "TinkVerif.Keyset.handleOf_toKeyset"] +
                T("TinkVerif.Gen.EnumTables", "enum_tables_round_trip enum_tables_injective exception_is_one_cell enum_tables_parser_range "
                  "every_serializer_table_paired prefix_tables_follow_convention coverage parser_prefix_consistent") +
                T("TinkVerif.C12BigInt", "toFixed_eq toFixed_isSome_iff toFixed_length toFixed_value toFixed_canonical toFixed_leading_zeros "
                  "toFixed_idem minimal_canonical pad_eq_toFixed parseCoord_protoCoord protoCoord_parseCoord ecParse_ecSerialize "
                  "ecSerialize_ecParse ec_reserialize_identical adjust_ok_iff adjust_lengths adjust_values rsaParse_rsaSerialize "
                  "rsa_reserialize_identical rsaParse_canonical"),
    "harness": [{"name": "c12", "timeout": 3000}],
    "reports": ["Reports/C12.lean"],
    "rule": "for every registered key type × the grid of valid parameter combinations reachable through the public NewParameters "
            "constructors × variants × ids {0, 2^32-1, random} × fresh key material: SerializeKey → ParseKey is Equal and re-serialises "
            "byte-identically; the serialised key value and key template are decoded by the Lean strict wire decoder and re-encoded "
            "byte-identically (canonical form) and the field dump is compared with the key's accessors; the same for parameters; "
            "keysets through every writer/reader pair (binary, JSON, mem; cleartext, encrypted under several AEADs and associated data, "
            "public-only): ids, statuses, primary, order compared, primitives of original and re-read handle interoperate, Public() maps "
            "private keys to matching public keys; RSA off the standard size grid (stream 6, rsaodd.go): real private and public keys of "
            "all four RSA families (RSA-SSA-PKCS1, RSA-SSA-PSS, JWT RS*, JWT PS*) whose modulus bit length is not a multiple of 8 "
            "(2049, 2050, 2052, 2055, 2057, 2060; thorough also 2051, 2053, 2056, 2063, 2100, 3073, 3079, 4095) or whose primes have "
            "different byte lengths (8k+1-bit moduli and their p<->q swap, hand-made 1040+1008-bit primes in both orders; thorough more "
            "splits) go through all of the above: key and parameters/template round trips with wire dumps, the Lean big-integer model "
            "lines on the real key's fields, and deterministic keysets through every writer/reader pair incl. Public() + "
            "WriteWithNoSecrets/ReadWithNoSecrets and primitive interoperability; non-trivial = every line, distinct by line hash",
    "trusted_base": [KERNEL, TIE, "google.golang.org/protobuf (wire and JSON codecs) is the implementation under comparison for the "
                     "wire form; Equal and protobuf-JSON are exercised on the Go side only"],
    "assumptions": ["per-key-type field mappings are tied by correspondence over the constructor grid, not proved"],
    "manifest": {
        "text": "Theorems: the protobuf wire codec model round-trips every well-formed message (any fields, any values) and its strict "
                "decoder accepts only canonical encodings (parse then serialise is byte-identical); varint codec laws for all 64-bit "
                "values; writing a well-formed handle's entries to a keyset message and reading it back preserves ids, statuses, primary "
                "and order; REGENERATED on every run from all */*/protoserialization.go: every enum/variant conversion table (82 switch tables, 40 "
                "serializer/parser pairs) — parse∘serialize is the identity on every value, serializers are injective, every variant maps to "
                "the like-named OutputPrefixType (kernel `decide` over the regenerated data). Tie: every key type's serialisation decoded and re-encoded by the Lean codec, Go-side Equal / byte-identical "
                "re-serialisation over the full parameter grid, all keyset writer/reader pairs.",
        "design_ref": "DESIGN.md §5.12",
        "note": "Trusted: Lean kernel; protobuf library as implementation; accessor dumps hand-written in the harness.",
        "technique": "Lean 4 proof (wire codec round trip + canonicity, keyset↔entries; regenerated enum tables decided in the kernel) + Go/Lean byte-level correspondence over the key-type grid",
    },
}
PROPS["C17"] = {
    "lean": ["TinkVerif.Props.C17"],
    "theorems": T("TinkVerif.Derive", "deriveKeyset_spec deriveKeyset_wf primaryId_spec material_prefix"),
    "harness": [{"name": "c17", "timeout": 3000}],
    "rule": "deriver keysets of 1..5 keys over every derivable key type (AES-GCM, XChaCha20-Poly1305, AES-SIV, HMAC, HKDF-PRF, HMAC-PRF, "
            "Ed25519, AES-GCM-HKDF streaming) × variants × statuses × primary choice × PRF hash SHA256/SHA512 × PRF salts × key sizes; "
            "salts empty/short/1 KiB; the derived handle (ids, statuses, primary, prefix types, key bytes via insecure access) is compared "
            "with the Lean model (structure from the manager model, material from RFC 5869 over the reference hash); two derivations "
            "compared for Equal; derived keys used as ordinary keys; hand-written serialized deriver keysets (binary/JSON/in-memory/encrypted "
            "readers) over the full grid (key entry prefix type × derived-key template prefix type, UNKNOWN/TINK/LEGACY/RAW/CRUNCHY/"
            "WITH_ID_REQUIREMENT/out-of-range) × every derivable key type: acceptance vs the model (`V accept`: equal and legal for the type, "
            "else rejected), accepted ones carry the ENTRY's id / prefix type / primary and compute what the model's HMAC (LEGACY: data||0x00), "
            "AES-GCM, XChaCha20-Poly1305, AES-SIV, Ed25519, HKDF/HMAC-PRF compute for the entry's prefix type; histories on ONE deriver object "
            "with ONE caller-owned salt buffer overwritten in place / re-sliced (other lengths, offsets) / restored to earlier salts (A,B,A) / "
            "scribbled after the call, every call vs a fresh deriver on a copy of the salt, vs earlier calls and vs the model's material; "
            "section LIMITS (limits.go, own PRNG stream): derived key sizes around the HKDF output limit 255·hashLen (8159…20000 and random, "
            "HMAC / HMAC-PRF / HKDF-PRF / AES-GCM-HKDF × PRF hash SHA256/SHA512 × build method AddKeyWithOpts/AddKey/parameters/templates × two "
            "salts): material equals the RFC 5869 prefix within the limit and DeriveKeyset fails beyond it (`V hkdfkey`: err past 255·hashLen; "
            "never all-zero, truncated or salt-independent material); deriver keysets of 2..5 keys of mixed statuses in which one or two keys "
            "cannot be derived (size beyond the limit, or a key type without key deriver built with prfbasedkeyderivation.NewKey) at every "
            "position as ENABLED non-primary / primary / DISABLED / DESTROYED (`V derivef`: the call fails as a whole iff an ENABLED key fails, "
            "non-ENABLED failing keys are never derived; a successful result holds exactly one ENABLED key per ENABLED deriver key with the "
            "same id and primary flag); "
            "non-trivial = every line, distinct by line hash",
    "trusted_base": [KERNEL, TIE, PRIMS],
    "assumptions": ["'different salts or PRF keys give different keys' is HKDF injectivity — cryptographic, exercised empirically"],
    "manifest": {
        "text": "Theorems for every well-formed deriver keyset of any size: DeriveKeyset (a composition of the keyset manager's own "
                "operations, C11) succeeds and returns exactly one ENABLED key per ENABLED deriver key, in order, with the same key id and "
                "primary designation, and the result is a well-formed handle; the key material is a prefix of the RFC 5869 stream "
                "(C15's prefix law), so derivation is a function of (keyset, salt). Tie: derived handles of the real implementation "
                "(structure and key bytes) vs the model over the reference HKDF.",
        "design_ref": "DESIGN.md §5.17",
        "note": "Trusted: Lean kernel; reference SHA; hand model tied by differential execution.",
        "technique": "Lean 4 proof (structure preservation via the manager model) + Go/Lean derived-keyset correspondence",
    },
}

PROPS["C20"] = {
    "lean": ["TinkVerif.Props.C20"],
    "theorems": T("TinkVerif.Rand", "fields_flatten fields_getElem windows_disjoint positions_injective field_byte fields_congr "
                  "fields_eq_iff_windows_eq fields_window_injective fields_window_surjective fields_lengths fieldAt_layout aeadField_encryptWith aeadField_etm aeadField_xaes streamHeader_layout "
                  "drawId_fresh drawId_first ids_pairwise_distinct"),
    "harness": [{"name": "c20", "timeout": 3000}],
    "rule": "with crypto/rand.Reader replaced by a recording tape: for every randomized AEAD key type (AES-GCM, AES-GCM-SIV, ChaCha20-/"
            "XChaCha20-Poly1305, AES-CTR-HMAC all iv sizes, X-AES-GCM all salt sizes, KMS envelope DEK) × variants and for both streaming "
            "AEADs, the iv/salt/nonce-prefix field read back from each ciphertext equals exactly the bytes drawn during that call, the "
            "number drawn is the field length, histories of calls draw consecutive windows (model `fields`), replay of a tape reproduces "
            "the output, one flipped tape byte flips the corresponding output byte; HPKE/ECIES ephemeral = public key of the drawn "
            "scalar; ML-DSA / SLH-DSA signatures equal the reference deterministic signing with rnd = tape; RSA-PSS salt recovered from "
            "the signature = tape; ECDSA signature a function of the tape; key generation material = tape; manager ids = tape words "
            "with forced collisions redrawn; plus (real reader) repetition and per-byte chi-square screens as support; "
            "section LARGE (large.go): the same discipline on the size grid k*2^16+d (65533..65537, 100000, 131071..131073, 200000, "
            "thorough up to 2 MiB+3): key generation of every key type without upper key-size bound (HMAC, HMAC-PRF, HKDF-PRF, "
            "JWT-HMAC) through all five generation routes and the raw generators (secretdata.NewBytesFromRand, "
            "subtle/random.GetRandomBytes) - exactly `size` bytes drawn, key byte j = tape byte j (model `fields` over natural and "
            "forced compactly written windows, `R histgen`), no constant run, replay; signing of large messages (ML-DSA / SLH-DSA "
            "signature = reference Sign_internal with rnd = tape on `@len:seed` messages, RSA-PSS salt recovered, ECDSA, JWT "
            "ES256/PS256/ML-DSA with claims sized to put the signing input just below / at 64 KiB; Ed25519, RSA-PKCS1, JWT-HMAC, MAC, "
            "PRF, AES-SIV draw nothing) with the read pattern of small inputs, two signatures differ, replay, flipped tape byte; "
            "AEAD / KMS-envelope / HPKE / ECIES / streaming encryption of large plaintexts and associated data; section IDHANDLE "
            "(idhandle.go): managers built from handles holding RAW / no-prefix keys (direct, binary and JSON transport), the tape "
            "replays ids of existing entries (RAW first) and the model's drawId is asked with the ids the KEYSET holds (the harness's "
            "own record, not the manager's set); fixed-id duplicates refused; final ids pairwise distinct; "
            "non-trivial = every line, distinct by line hash",
    "trusted_base": [KERNEL, TIE, PRIMS, "H_rand: the operating system's random source behind crypto/rand.Reader is i.i.d. uniform — the "
                     "property's distributional clause is reduced to this hypothesis by the theorems; ML-KEM / X-Wing encapsulation "
                     "randomness comes from the Go standard library's internal DRBG and is not observable through rand.Reader"],
    "assumptions": ["distribution itself is not provable of an implementation: what is proved is that every random field is, byte for "
                    "byte, a fresh window of the source"],
    "manifest": {
        "text": "Partial by nature (distribution is not a theorem about code). Theorems over every tape and every history of draws of any "
                "lengths: the random fields of a history are, concatenated, exactly the tape window consumed; draw i is the window at its "
                "own offset and of its full length; windows of different draws are disjoint and (draw, byte) ↦ tape position is injective "
                "(no byte of the source reused, none constant or truncated); outputs depend on the window only (replay); for fixed draw lengths the map window ↦ tuple of fields is a "
                "bijection (injective and surjective: counting form of 'uniform window ⇒ uniform independent fields'); ciphertext "
                "layouts return the drawn nonce; newRandomKeyID returns the first available drawn word and ids of one manager are pairwise "
                "distinct after any history (C11 invariant). Tie: real code under a recording tape must consume and place bytes exactly as "
                "the model says.",
        "design_ref": "DESIGN.md §5.20",
        "note": "Trusted: Lean kernel; H_rand for the OS source; stdlib-internal DRBG (ML-KEM) only screened for repetition.",
        "technique": "Lean 4 proof (tape-consumption model: windows, disjointness, layouts, key-id redraw) + Go/Lean correspondence under a recording crypto/rand tape",
    },
}

PROPS["C19"] = {
    "lean": ["TinkVerif.Props.C19", "TinkVerif.Props.C19Trace", "TinkVerif.Props.C19Class", "TinkVerif.Props.C19Facts"],
    "theorems": T("TinkVerif.Heap", "clone_frame concat_frame concat_read append_in_place_iff append_realloc_frame "
                  "append_spare_capacity_written append_read mutate_ownedContents mutations_ownedContents clean_caller_view "
                  "clean_guard_regions clean_result_mutation_harmless clean_result_not_owned cloningCtor_clean "
                  "retainingCtor_not_clean appendingOp_not_clean known_disjoint_owned noninterference noninterference_init") +
                T("TinkVerif.Gen.SliceFacts", "facts_classified scan_coverage"),
    "harness": [{"name": "c19", "timeout": 3000}],
    "reports": ["Reports/C19.lean"],
    "rule": "guard-region differential: every operation that takes or returns bytes (primitive calls of every key type and variant incl. "
            "legacy key-manager adapters via stub key managers; subtle constructors; key / parameter constructors and accessors; secretdata; "
            "keyset read / write; proto keysets in and out) is run with every input placed inside a larger buffer with canaries before off, "
            "after len and through cap; afterwards all canaries and the input bytes are compared; then inputs and every returned slice are "
            "overwritten and the operation, Equal against a pristine copy, and primitives built before and after are repeated and must "
            "give the same results; same-buffer reuse: every byte input is then overwritten IN PLACE with other bytes of the same length "
            "and the operation is called again with the SAME slice: verdict and output must equal those of a call with a freshly "
            "allocated copy of the new bytes (made before the aliasing call; deterministic operations also on a fresh object; "
            "constructors through fresh instances and their observations) — a cache keyed by an alias of the caller's buffer; "
            "fallback proto keys (type URL without parser: unknown, or served by stub key managers incl. "
            "PrivateKeyManagers) with every KeyMaterialType x prefix type through every handle constructor and every export path, where "
            "additionally every field of the caller's / the exported proto keyset is reassigned; "
            "output stability under history: every byte-returning operation is driven through a script of calls on two objects of the "
            "same source incl. a call with a >= 64 KiB input (1 MiB in the thorough tier); every returned slice is kept and must equal "
            "its snapshot after each later call, must not share memory with later results, old results are then scrubbed through cap and "
            "the newest result and later calls must be unaffected; the big and last results of the 24 most recent histories (other "
            "objects and apis) are re-compared during every later history; constructors are additionally given inputs with 1, 2 and 8 "
            "leading zero bytes (all inputs and each alone, every accepted encoding) and the caller's buffer is overwritten afterwards; "
            "the regenerated slice facts are entry-point summaries (helpers are summarised and applied at call sites, across "
            "packages; names of locals / parameters are not part of a fact), follow bytes.Trim*/Split*/Cut*/Fields, slices.Clip, "
            "bytes.NewBuffer/NewReader, append(p[:k],…), composite literals and field stores, and report results that alias a "
            "pooled / global / receiver-held buffer (return-internal); "
            "Go's append/copy/Concat semantics are compared with the heap model; non-trivial = every line, "
            "distinct by line hash",
    "trusted_base": [KERNEL, TIE, "the regenerated slice facts come from an extractor (go/ast + go/types) over all non-test packages: "
                     "flow-insensitive per-function summaries (what happens to the memory behind each []byte parameter / field of an "
                     "options parameter / receiver field: written, appended to, retained, returned; which results alias pooled or "
                     "receiver-held buffers), closed under calls of functions of the module by a fixpoint and reported for entry "
                     "points (exported functions, methods with exported or interface names, functions used as values) in canonical "
                     "form (positions, field and type names — no local names); calls through interfaces and function values are "
                     "opaque; the extractor refuses when a package does not type-check; the dynamic guard-region harness is the "
                     "evidence for the flows it cannot see",
                     "unsafe / assembly paths inside the Go standard library are out of scope"],
    "assumptions": ["the Lean theorems are about the slice model and the contract (what a violation looks like and why a contract-"
                    "respecting library is immune to caller mutations); that the code respects the contract is established by the "
                    "regenerated facts and the differential harness, not proved"],
    "manifest": {
        "text": "Partial. Theorems (heap model of Go slices): Clone/Concat never write an existing array; append writes the argument's "
                "array iff the result fits its capacity, and then exactly the spare bytes after len (the defect shape); in both cases the "
                "value is the concatenation (why tests cannot see it); for every history of calls with arbitrary caller mutations interleaved (inputs after the "
                "call, spare capacity, returned slices), every call of a Clean, deterministic library returns what it returns in the "
                "mutation-free history (`noninterference`), and the caller never holds a reference into library state "
                "(`known_disjoint_owned`); a cloning constructor is Clean, a retaining constructor and an appending "
                "operation are not. REGENERATED on every run: all uses of []byte parameters as append/copy/store/writer destinations, "
                "retention into structs, returns of receiver fields — each classified in Lean, `facts_classified` decided by the kernel. "
                "Tie: guard-region differential harness over the public API.",
        "design_ref": "DESIGN.md §5.19",
        "note": "Trusted: Lean kernel; syntactic extractor; dynamic harness for flows the extractor cannot see.",
        "technique": "Lean 4 proof (slice/heap model, non-interference under the Clean contract; regenerated slice facts decided in the kernel) + guard-region differential harness",
    },
}

PROPS["C18"] = {
    "lean": ["TinkVerif.Props.C18", "TinkVerif.Props.C18Class", "TinkVerif.Props.C18Facts"],
    "theorems": T("TinkVerif.Conc", "run_shared interleave_eq_sequential schedule_independent steps_commute scratchMac_not_readOnly "
                  "scratchMac_schedule_matters") + T("TinkVerif.Gen.MutFacts", "facts_classified scan_coverage"),
    "harness": [{"name": "c18", "timeout": 3000, "race": True}],
    "reports": ["Reports/C18.lean"],
    "rule": "race-detector build: for every primitive class and key type in the pool, G goroutines × M calls on ONE shared primitive "
            "(Encrypt/Decrypt, EncryptDeterministically, ComputeMAC/VerifyMAC, ComputePRF, Sign/Verify, hybrid Encrypt/Decrypt, "
            "NewEncryptingWriter/NewDecryptingReader full streams, JWT sign/verify, DeriveKeyset) with every result compared to the "
            "sequential oracle computed beforehand; concurrent handle reads (Public, KeysetInfo, Primitives, Len/Entry, String), "
            "concurrent primitive construction from one handle, concurrent registry / protoserialization lookups and key parsing; "
            "any race report, panic or result mismatch is a violation; streaming error-path + retry histories (one call = a writer whose "
            "sink fails once on its k-th Write, for the first, second, next-to-last and last sink write, with Close retried twice; a reader "
            "whose source fails once; then two fresh writers and two fresh readers of the shared primitive used interleaved, each stream "
            "must decrypt to its own plaintext) run concurrently like every other call; regenerated facts additionally list every "
            "package-level variable of sync.Pool / sync.Map / mutex / atomic / channel type and every method call on a package-level "
            "variable (classified per variable: a new pool or cache variable is unclassified), and every in-place rewrite of a map / "
            "slice field together with the places where that field is handed out (classified one by one); "
            "non-trivial = every concurrent call whose result was compared, "
            "distinct by (primitive, operation, input) hash",
    "trusted_base": [KERNEL, TIE, "the regenerated mutation facts come from an extractor (go/ast + go/types): per-function summaries (stores "
                     "through the receiver, its local aliases and sub-objects, mutator calls on receiver-held stateful std types, "
                     "in-place rewrites and hand-outs of container fields, stores to / method calls on package variables) closed "
                     "under calls of functions of the module by a fixpoint and reported for entry points in canonical form; "
                     "mutation through interface calls, closures or other aliases is not seen by it — the race-detector harness "
                     "covers those at run time; the extractor refuses when a package does not type-check",
                     "Go memory model, goroutine scheduler, race detector (happens-before based, sees only executed interleavings)"],
    "assumptions": ["the interleaving theorem is about the model: it shows why immutability after construction gives the property for "
                    "every schedule; that the code is immutable after construction is established by the regenerated facts, not proved",
                    "data-race freedom of the compiled program is not proved"],
    "manifest": {
        "text": "Partial. Theorem (interleaving model, any number of threads, any schedule, any programs): if no step writes the shared "
                "object then after every schedule each thread's memory is exactly what it computes alone, the shared object is unchanged, "
                "results do not depend on the schedule and steps of different threads commute (race freedom of the model); a primitive with "
                "a shared scratch cell violates this (kernel-checked counterexample schedule). REGENERATED on every run: every store "
                "through a method receiver, every mutator call on a receiver-held hash/cipher/buffer/big.Int, every store to a package "
                "variable outside init — `facts_classified`: all on allow-listed per-stream / per-call / builder objects or mutex-guarded "
                "registries. Tie and witness search: race-detector stress of every shared primitive against the sequential oracle.",
        "design_ref": "DESIGN.md §5.18",
        "note": "Trusted: Lean kernel; syntactic extractor; Go race detector. Real schedules and the Go memory model are outside the model.",
        "technique": "Lean 4 proof (interleaving = sequential for read-only steps; regenerated mutation facts decided in the kernel) + race-detector stress harness vs sequential oracle",
    },
}

# properties whose model side is an independent implementation of the standard the property names (RFC / FIPS reference
# primitives, JWT rules): every model/implementation disagreement on their lines is a concrete failing input of the implementation.
for _p in ("C01", "C02", "C03", "C04", "C06", "C08", "C09", "C10", "C15", "C16", "C17"):
    PROPS[_p]["reference_lines"] = True

# GlueTie: byte-level glue functions REGENERATED from /repo by go/harness/gluetr (GEN entries Glue* in vlib/gen.py) and proved
# equal to the hand models the property theorems are about. A property registers only modules whose Gen file it owns.
_GT = "TinkVerif.Props.GlueTie."
_G_FRAMING = T("TinkVerif.GlueTie", "calculatePrefixBytes_eq outputprefix_Tink_eq outputprefix_Legacy_eq cryptofmt_OutputPrefix_eq "
               "cryptofmt_OutputPrefix_unknown cryptofmt_constants")
_G_AEAD = T("TinkVerif.GlueTie", "aadSizeInBits_eq macInput_eq tag_eq_tagInputModel tagMask_eq ctrInit_counter ctrInit_counterInc "
            "blockLE32_zero ctrStep_eq lengthBlock_eq polyvalInput_eq nonceBlockInit_eq kdfCounter_eq kdf_block_first kdf_block_next "
            "paddedSalt_eq derivePerMessageKey_eq derivePerMessageKey_blocks")
_G_CMAC = T("TinkVerif.GlueTie", "mulByX_loop_inv mulByX_eq lastBlockInit_eq padLast_eq cmac_constants")
_G_KWP = T("TinkVerif.GlueTie", "wrappingSize_eq kwp_constants wrapBuffer_eq aivInit_eq roundXor_eq")
_G_HPKE = T("TinkVerif.GlueTie", "hpkeV1_eq kemSuiteID_eq hpkeSuiteID_eq labelIKM_eq labelInfo_eq labelInfo_negative keyScheduleContext_eq")
_G_STREAM = T("TinkVerif.GlueTie", "generateSegmentNonce_eq generateSegmentNonce_limit")
_G_PREFIXKEYS = T("TinkVerif.GlueTie.PrefixKeys", "calculatePrefixBytes_eq Tink_eq Legacy_eq " + " ".join(
    pkg + "_calculateOutputPrefix" for pkg in "aesctrhmac aesgcm aesgcmsiv chacha20poly1305 xchacha20poly1305 aessiv ecies hpke aescmac hmac "
    "ecdsa ed25519 rsassapkcs1 rsassapss xaesgcm compositemldsa slhdsa mldsa protoserialization".split()))
# whole-function ties (round 3b): the complete Go function is re-translated, so a statement inserted anywhere in it (a size-dependent
# fast path, a special-value branch) changes the regenerated definition and breaks the theorem — or makes the translator refuse.
_G_CMACFULL = T("TinkVerif.GlueTie", "compute_eq_computeK Compute_body_eq Compute_loop_inv Compute_loop_eq Compute_eq New_eq Compute_eq_spec "
                "xorEndAndCompute_eq_K XE_body_eq XE_loop_inv XE_loop_eq XOREndAndCompute_eq")
_G_CTR = T("TinkVerif.GlueTie", "aesctr_newCipher_eq aesctr_Encrypt_nil aesctr_Encrypt_dst aesctr_Encrypt_nil_length aesctr_Encrypt_small "
           "aesctr_Decrypt_nil aesctr_Decrypt_dst aesctr_Decrypt_small aesctr_Decrypt_short")
_G_ETM = T("TinkVerif.GlueTie", "etm_aadSizeInBits_eq etm_uint64ToByte_eq etm_macInput_eq etm_Encrypt_eq etm_Decrypt_eq subtle_eta_Encrypt_eq "
           "subtle_eta_Decrypt_eq")
_G_MACWRAP = T("TinkVerif.GlueTie", "macwrap_variant_constants aescmac_message_eq aescmac_message_other aescmac_ComputeMAC_eq aescmac_VerifyMAC_eq "
               "hmac_message_eq hmac_message_other hmac_ComputeMAC_eq hmac_VerifyMAC_eq macsubtle_ComputeMAC_eq macsubtle_VerifyMAC_eq "
               "macsubtle_ValidateCMACParams_eq")
_G_PRF = T("TinkVerif.GlueTie", "prfsubtle_ComputePRF_eq prfsubtle_Validate_eq")
_G_KWPFULL = T("TinkVerif.GlueTie", "kwp_Wrap_eq_fuel kwp_Wrap_eq kwp_invertW_eq kwp_Unwrap_eq kwp_Go_unwrap_wrap invertW_some Unwrap_of_invertW")
_G_UNREADER = T("TinkVerif.GlueTie", "unreader_Read_eq unreader_unread_eq unreader_disable_eq unreader_unread_model unreader_disable_model "
                "unreader_record unreader_reads_record unreader_replay unreader_roundtrip")
_G_STREAMSEG = T("TinkVerif.GlueTie", "seg_generateSegmentNonce_eq seg_generateSegmentNonce_limit seg_Close_eq seg_Read_buffered seg_Read_eof "
                 "seg_Read_fetch seg_Read_too_short seg_Read_eq seg_Write_step feed_append_fits feed_full feed_step write_loop seg_Write_eq "
                 "seg_Write_no_progress")
_G_RAND = T("TinkVerif.GlueTie", "rand_MustRand_eq rand_GetRandomBytes_eq rand_GetRandomUint32_eq rand_NewBytesFromRand_eq "
            "rand_NewBytesFromRand_tape rand_GetRandomUint32_tape rand_GetRandomBytes_tape")
_G_KEYSET = T("TinkVerif.GlueTie", "keyset_ValidateKeyVersion_eq keyset_constants keyset_constants_status keyset_validateKey_nil "
              "keyset_validateKey_eq keyset_Validate_nil keyset_Validate_eq keyset_Validate_nilKey keyset_hasSecrets_eq keyset_hasSecrets_imp")
_G_MANAGERID = T("TinkVerif.GlueTie", "managerId_newRandomKeyID_gen managerId_exhausted_gen managerId_fresh_gen "
                 "managerId_newRandomKeyID_eq managerId_count_spec managerId_newRandomKeyID_ex managerId_fresh managerId_exhausted")
_G_HPKECTX = T("TinkVerif.GlueTie", "hpke_createContext_eq hpke_createContext_negative goLabeledExtract_eq goLabeledExpand_eq "
               "hpke_createContext_go hpke_createContext_go_isSome hpke_computeNonce_eq hpke_computeNonce_long hpke_computeNonce_length "
               "hpke_computeNonce_minBE")
_G_GCMSIV = T("TinkVerif.GlueTie", "gcmsiv_aesCTR_eq gcmsiv_aesCTR_out_length gcmsiv_aesCTR_tag_length gcmsiv_computeTag_eq gcmsiv_computeTag_model "
              "gcmsiv_computeTag_polyval_length gcmsiv_computeTag_out_length gcmsiv_deriveKeys_eq gcmsiv_deriveKeys_nonce_length "
              "gcmsiv_deriveKeys_authKey_length gcmsiv_deriveKeys_encKey_length gcmsiv_computePolyval_eq gcmsiv_computePolyval_new_err "
              "polyvalObj_accumulate gcmsiv_Decrypt_eq gcmsiv_Decrypt_eq_fuel gcmsiv_Decrypt_too_short gcmsiv_Decrypt_ct_too_long "
              "gcmsiv_Decrypt_ad_too_long")
_G_SIV = T("TinkVerif.GlueTie", "siv_zeroBlock_eq siv_multiplyByX_loop_inv siv_multiplyByX_eq siv_padXor_eq siv_s2v_eq siv_clearBits_eq "
           "siv_ctrCrypt_eq siv_xorBE_length siv_Encrypt_long siv_Encrypt_eq siv_Decrypt_eq aessiv_full_Encrypt_eq aessiv_full_Decrypt_eq")
for _p, _mods, _thms in (
        ("C01", ["Framing", "Aead", "Ctr", "Etm", "GcmSiv"], _G_FRAMING + _G_AEAD + _G_CTR + _G_ETM + _G_GCMSIV),
        ("C02", ["Framing", "Aead", "Ctr", "Etm", "GcmSiv"], _G_FRAMING + _G_AEAD + _G_CTR + _G_ETM + _G_GCMSIV),
        ("C04", ["Framing", "Cmac", "CmacFull", "MacWrap"], _G_FRAMING + _G_CMAC + _G_CMACFULL + _G_MACWRAP),
        ("C05", ["Framing", "PrefixKeys", "Unreader"], _G_FRAMING + _G_PREFIXKEYS + _G_UNREADER),
        ("C06", ["Hpke", "HpkeCtx"], _G_HPKE + _G_HPKECTX), ("C07", ["Stream", "Unreader", "StreamSeg"], _G_STREAM + _G_UNREADER + _G_STREAMSEG),
        ("C20", ["Rand", "ManagerId"], _G_RAND + _G_MANAGERID),
        ("C08", ["Kwp", "KwpFull", "Cmac", "CmacFull", "Siv"], _G_KWP + _G_KWPFULL + _G_CMAC + _G_CMACFULL + _G_SIV),
        ("C11", ["ManagerId"], _G_MANAGERID),
        ("C13", ["Keyset"], _G_KEYSET),
        ("C14", ["Unreader", "Keyset"], _G_UNREADER + _G_KEYSET),
        ("C15", ["Cmac", "CmacFull", "Prf"], _G_CMAC + _G_CMACFULL + _G_PRF)):
    PROPS[_p]["lean"] = PROPS[_p]["lean"] + [_GT + m for m in _mods]
    PROPS[_p]["theorems"] = PROPS[_p]["theorems"] + [t for t in _thms if t not in PROPS[_p]["theorems"]]
    PROPS[_p]["manifest"]["text"] += (" REGENERATED glue (go/harness/gluetr → Gen/Glue*.lean) proved equal to the hand model on every run: "
                                       + ", ".join(_mods) + " (output prefixes, length blocks, counter blocks, nonces, suite ids, doubling/padding as applicable;"
                                       " *Full / Ctr / Etm / MacWrap / Prf / Siv modules: WHOLE Go functions for every input length, block cipher / hash /"
                                       " crypto/cipher stream as abstract parameters).")

# round 4: decision / glue logic under whole-function ties (keyset factory wrappers: candidate-selection loops tied to Model/Wrap)
_G_FACTORY = {
    "FactoryAead": T("TinkVerif.GlueTie", "factory_aead_decrypt_tie factory_aead_decrypt_accept factory_aead_encrypt_tie"),
    "FactoryDaead": T("TinkVerif.GlueTie", "factory_daead_decrypt_tie factory_daead_decrypt_accept factory_daead_encrypt_tie"),
    "FactoryMac": T("TinkVerif.GlueTie", "factory_mac_try_tie factory_mac_verify_tie factory_mac_verify_accept factory_mac_compute_tie"),
    "FactoryVerify": T("TinkVerif.GlueTie", "factory_verify_tie factory_verify_accept"),
    "FactoryHybrid": T("TinkVerif.GlueTie", "factory_hybrid_decrypt_tie factory_hybrid_decrypt_accept"),
}
_G_R4 = dict(_G_FACTORY)
_G_R4.update({
    "Jwt": T("TinkVerif.GlueTie", "jwt_validateFieldPresence_tie jwt_validateHeader_tie jwt_validateHeader_nil jwt_validateKIDInHeader_tie "
             "jwt_Validate_tie jwt_audiences_nonempty jwt_Validate_nil"),
    "IdReq": T("TinkVerif.GlueTie", "idreq_HasIDRequirement_tie idreq_IDRequirement_tie idreq_NewKeySerialization_tie "
               "idreq_Fallback_IDRequirement_tie idreq_entryIdRequirement_tie idreq_NewManagerFromHandle_tie idreq_NewManagerFromHandle_model"),
    "StreamNew": T("TinkVerif.GlueTie", "streamnew_NewAESGCMHKDF_tie streamnew_NewAESCTRHMAC_tie"),
    "HkdfPrf": T("TinkVerif.GlueTie", "hkdfprf_NewHKDFPRF_tie hkdfprf_ValidateHKDFPRFParams_tie"),
    "HmacNew": T("TinkVerif.GlueTie", "hmacnew_ValidateHMACParams_tie hmacnew_New_tie"),
    "Pss": T("TinkVerif.GlueTie", "pss_NewSigner_tie pss_NewVerifier_tie"),
    "KmsEnv": T("TinkVerif.GlueTie", "kmsenv_parseEnvelope_tie kmsenv_Decrypt_tie kmsenv_Encrypt_tie"),
    "Ecies": T("TinkVerif.GlueTie", "ecies_NewEncrypt_tie ecies_NewDecrypt_tie"),
    "DeriveKeyset": T("TinkVerif.GlueTie", "derivekeyset_DeriveKeyset_tie derivekeyset_all_derived"),
    "ManagerAdd": T("TinkVerif.GlueTie", "manageradd_newRandomKeyID_same manageradd_Add_early manageradd_Add_after_draw"),
    "JwtKid": T("TinkVerif.GlueTie", "jwtkid_newFullVerifier_tie jwtkid_newFullSigner_tie jwtkid_verifier_cfg"),
    "Prefixmap": T("TinkVerif.GlueTie", "prefixmap_Next_index prefixmap_iterSpec prefixmap_matching_tie prefixmap_Insert_tie "
                   "prefixmap_build_bucket prefixmap_candidates"),
    "HmacMac": T("TinkVerif.GlueTie", "hmacmac_ComputeMAC_tie hmacmac_VerifyMAC_tie"),
    "PrfSet": T("TinkVerif.GlueTie", "prfset_NewPRFSetWithConfig_tie prfset_all_built"),
    "KeyDerivers": T("TinkVerif.GlueTie", "keyderivers_hmacPRF_tie keyderivers_hkdfPRF_tie keyderivers_hmacPRF_read_error"),
    "SlhAdrs": T("TinkVerif.GlueTie.SlhAdrs", "get_put get_put_after get_put_before setLayerAddress_eq setTreeAddress_eq setTypeAndClear_eq "
                 "setKeyPairAddress_eq setChainAddress_eq setTreeHeight_eq setHashAddress_eq setTreeIndex_eq keyPairAddress_eq treeIndex_eq "
                 "setters_preserve_length treeIndex_setTreeIndex keyPairAddress_setKeyPairAddress keyPairAddress_stable "
                 "setTypeAndClear_reads compress_eq compress_length"),
})
for _p, _mods in (
        ("C01", ["FactoryAead", "HmacNew", "HmacMac"]), ("C02", ["FactoryAead", "KmsEnv", "Prefixmap"]), ("C03", ["FactoryVerify", "Pss"]), ("C04", ["FactoryMac", "HmacNew", "HmacMac"]),
        ("C05", ["FactoryAead", "FactoryDaead", "FactoryMac", "FactoryVerify", "FactoryHybrid", "Jwt", "JwtKid", "Prefixmap"]),
        ("C06", ["FactoryHybrid", "Ecies"]), ("C07", ["StreamNew"]), ("C08", ["FactoryDaead"]), ("C09", ["Jwt", "JwtKid"]),
        ("C11", ["IdReq", "ManagerAdd"]), ("C15", ["HkdfPrf", "PrfSet"]), ("C16", ["SlhAdrs"]), ("C17", ["DeriveKeyset", "KeyDerivers"]), ("C20", ["IdReq", "ManagerAdd"])):
    PROPS[_p]["lean"] = PROPS[_p]["lean"] + [_GT + m for m in _mods]
    for m in _mods:
        PROPS[_p]["theorems"] = PROPS[_p]["theorems"] + [t for t in _G_R4[m] if t not in PROPS[_p]["theorems"]]
    PROPS[_p]["manifest"]["text"] += (" REGENERATED decision logic proved equal to the hand model on every run: " + ", ".join(_mods) +
                                       " (Factory*: the WHOLE candidate-selection loops of the keyset-level wrappers tied to Model/Wrap"
                                       " candidates / accept / macAccept for every iterator satisfying the prefixmap contract; single-key primitives"
                                       " are abstract accept / transform functions, monitoring loggers are dropped; Jwt: Validator.Validate with the clock"
                                       " as a parameter, validateHeader / validateKIDInHeader tied to Model/Jwt; IdReq: IDRequirement of serializations,"
                                       " NewManagerFromHandle, keysetToEntries id requirement; StreamNew / HkdfPrf / HmacNew: constructor parameter checks"
                                       " and stored values in closed form; JwtKid: kid strategies of newFullVerifier / newFullSigner; ManagerAdd: whole"
                                       " stateful Manager.Add; DeriveKeyset: the whole derivation loop; Pss / Ecies / KmsEnv: constructor and envelope glue;"
                                       " SlhAdrs: all eleven methods of slhdsa's *address — every setter is the FIPS 205 Table 1 field store, getters read"
                                       " back, stores to other words leave the key-pair address intact, compress is the 22-byte ADRSc).")

NOT_BUILT = {}
