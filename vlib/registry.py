"""Per-property registry: Lean modules, theorem (obligation) names, harnesses, evidence text."""

KERNEL = "Lean 4.33.0 kernel (lake build; leanchecker re-check in the thorough tier)"
TIE = "correspondence harness (Go, built from /repo's working tree with -tags verif -overlay) + compiled Lean driver tvdrv + line diff"

PROPS = {
    "C11": {
        "lean": ["TinkVerif.Props.C11"],
        "theorems": [
            "TinkVerif.Manager.inv_run", "TinkVerif.Manager.handle_after_any_history",
            "TinkVerif.Manager.handle_after_any_history_from", "TinkVerif.Manager.handle_isSome_iff",
            "TinkVerif.Manager.handle_wf", "TinkVerif.Manager.wf_primary", "TinkVerif.Manager.inv_fromHandle",
            "TinkVerif.Manager.err_unchanged", "TinkVerif.Manager.hasPrimary_step",
            "TinkVerif.Manager.disable_primary_err", "TinkVerif.Manager.delete_primary_err",
            "TinkVerif.Manager.setPrimary_nonenabled_err", "TinkVerif.Manager.unknown_id_err",
            "TinkVerif.Manager.addKey_idReq", "TinkVerif.Manager.add_ok_last",
        ],
        "harness": [{"name": "c11"}],
        "rule": "random manager histories (1..80 ops over Add/AddNewKeyFromParameters/AddKey/AddKeyWithOpts/SetPrimary/"
                "Enable/Disable/Delete/Handle/NewManagerFromHandle, ids biased to live/deleted/colliding/boundary values, "
                "forced random-id collisions through the crypto/rand tape); after every op the manager's entries and "
                "unavailable-id set are compared with the Lean model, earlier handles are re-inspected; a case is "
                "non-trivial if it is a state-changing or failing op (not a bare dump of ≤1 entries); distinct by op-line hash",
        "trusted_base": [KERNEL, TIE, "key generation/parsing is opaque to the model (only success/failure enters)"],
        "assumptions": ["model Manager.lean is tied to keyset/manager.go by differential execution, not by translation"],
    },
    "C07": {
        "lean": ["TinkVerif.Props.C07"],
        "theorems": ["TinkVerif.Stream." + t for t in (
            "writer_chunking_independent writer_partition_irrelevant segments_cover_plaintext segmentNonce_injective "
            "segmentNonce_limit sink_fault_surfaces flush_fails_after_fault failed_flush_keeps_segment read_honest "
            "reader_chunking_independent stream_roundtrip read_sound manipulation_detected source_fault_never_eof "
            "idealCipher_sound").split()],
        "harness": [{"name": "c07a"}],
        "rule": "",
        "trusted_base": [KERNEL, TIE],
        "assumptions": [],
    },
    "C04": {
        "lean": ["TinkVerif.Props.C04"],
        "theorems": ["TinkVerif.Cmac.compute_eq_spec", "TinkVerif.Cmac.cbcLoop_eq", "TinkVerif.Mac.verify_iff",
                     "TinkVerif.Mac.compute_layout", "TinkVerif.Mac.legacy_suffix", "TinkVerif.Mac.verify_wrong_length",
                     "TinkVerif.Mac.hmac_param_guard", "TinkVerif.Mac.cmac_param_guard",
                     "TinkVerif.outputPrefix_inj", "TinkVerif.outputPrefix_tink_ne_crunchy"],
        "harness": [{"name": "c04"}],
        "rule": "",
        "trusted_base": [KERNEL, TIE],
        "assumptions": [],
    },
    "C15": {
        "lean": ["TinkVerif.Props.C15"],
        "theorems": ["TinkVerif.Hmac." + t for t in "expand_prefix expand_length expand_first_block hkdf_limit hkdf_prefix "
                     "computeHKDF_spec computeHKDF_guard hmac_empty_key_eq_zero_key".split()] + ["TinkVerif.truncating_prf_prefix"],
        "harness": [{"name": "c15"}],
        "rule": "",
        "trusted_base": [KERNEL, TIE],
        "assumptions": [],
    },
    "C08": {
        "lean": ["TinkVerif.Props.C08"],
        "theorems": ["TinkVerif.Kwp.stepB_stepF", "TinkVerif.Kwp.Winv_W", "TinkVerif.Kwp.wrappingSize_formula",
                     "TinkVerif.Kwp.wrappingSize_mult8", "TinkVerif.Siv.xorBE_involutive", "TinkVerif.Siv.decryptRaw_encryptRaw",
                     "TinkVerif.Siv.decrypt_encrypt", "TinkVerif.Siv.decrypt_iff", "TinkVerif.Siv.decrypt_short"],
        "harness": [{"name": "c08"}],
        "rule": "",
        "trusted_base": [KERNEL, TIE],
        "assumptions": [],
    },
}

NOT_BUILT = {}

MANIFEST_TEXT = {
    "C11": {
        "text": "Lean 4 theorems over a model of keyset.Manager/newFromEntries: the invariant (distinct ids, ≤1 primary, primary ENABLED, "
                "ids unavailable, no Unknown status) is proved for every operation and, by induction, for operation histories of any length "
                "from the empty manager or any well-formed handle; Handle() is proved to fail exactly when no primary exists and otherwise "
                "to return a well-formed keyset; failing public operations leave the entry list unchanged; primary persistence; id requirement. "
                "The model is tied to the code by an op-history differential on the real Manager (every op's result, entries and unavailable ids).",
        "design_ref": "DESIGN.md §5.11",
        "note": "Trusted: Lean kernel; hand-written model tied by differential execution (generator coverage in evidence); key generation opaque.",
        "technique": "Lean 4 invariant proof by induction over operation histories + Go/Lean op-history correspondence",
    },
}
