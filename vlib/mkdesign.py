#!/usr/bin/env python3
"""Refresh the generated parts of DESIGN.md (between <!-- BEGIN x --> / <!-- END x --> markers):
   PROPTABLE (from vlib/registry.py + vlib/gen.py), FIXED (from known_findings.json), SEEDED (from seeded/RESULTS.json)."""
import json, os, re, subprocess, sys
sys.path.insert(0, '/verif')
from vlib.registry import PROPS
from vlib import gen

def proptable():
    rows = ['| id | Lean modules (theorems audited) | regenerated from /repo | harnesses |', '|---|---|---|---|']
    for p in sorted(PROPS):
        sp = PROPS[p]
        mods = ', '.join(m.replace('TinkVerif.', '') for m in sp['lean'])
        regen = ', '.join(n for n, g in gen.GEN.items() if p in g['owner']) or '—'
        har = ', '.join(h['name'] + ('(-race)' if h.get('race') else '') + ('(two-phase)' if h.get('pre') else '') for h in sp['harness'])
        rows.append('| %s | %s (%d) | %s | %s |' % (p, mods, len(sp['theorems']), regen, har))
    return '\n'.join(rows)

def fixed():
    d = json.load(open('/verif/known_findings.json'))
    rows = ['| property | commit in /repo | what failed (input) |', '|---|---|---|']
    for f in d.get('fixed', []):
        parts = f['line'].split(' ', 3)
        rows.append('| %s | `%s` | %s |' % (parts[1].split('=')[1], parts[2], parts[3].replace('|', '/')))
    return '\n'.join(rows)

def findings():
    d = json.load(open('/verif/known_findings.json'))
    rows = ['| property | what fails (input) | why not repaired |', '|---|---|---|']
    for f in d.get('findings', []):
        rows.append('| %s | %s | %s |' % (f['property'], f['what'].replace('|', '/'), f.get('why_not_fixed', '').replace('|', '/')))
    return '\n'.join(rows)

def seeded():
    return subprocess.run([sys.executable, '/verif/vlib/seedtable.py'], stdout=subprocess.PIPE, text=True).stdout.strip()

def main():
    p = '/verif/DESIGN.md'
    s = open(p).read()
    for name, fn in (('PROPTABLE', proptable), ('FIXED', fixed), ('FINDINGS', findings), ('SEEDED', seeded)):
        a, b = '<!-- BEGIN %s -->' % name, '<!-- END %s -->' % name
        if a in s and b in s:
            i, j = s.index(a) + len(a), s.index(b)
            s = s[:i] + '\n' + fn() + '\n' + s[j:]
    open(p, 'w').write(s)

if __name__ == '__main__':
    main()
