"""Regeneration of TinkVerif/Gen/*.lean from /repo's current source (translator front end)."""
import os


def regenerate(prop, repo, verif, build):
    """Returns {"files": [...], "problems": [...], "obligations": n, "discharged": n}."""
    return {"files": [], "problems": [], "obligations": 0, "discharged": 0}
