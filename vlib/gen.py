"""Regeneration of TinkVerif/Gen/*.lean from /repo's current source (translator front end).

Each generated file is produced by the Go translator (go/harness/translator, built through the same
overlay as the harnesses and run with cwd=/repo). A translator failure (unknown construct, missing
function) is reported as a broken obligation; the previous generated file is left in place so that
unrelated properties still build, but the property that owns the file fails."""
import os, subprocess, sys

GEN = {
    "MldsaAlgebra": {
        "owner": ["C10"],
        "args": ["-pkg", "internal/signature/mldsa", "-recv", "rZq", "-ns", "TinkVerif.Gen.Mldsa",
                 "-consts", "q,qBits,d,inv256,degree,zeta", "-tables", "zetas",
                 "-funcs", "reduceOnce,add,sub,neg,mul,power2Round,scalePower2,divBy2Gamma2,decompose,highBits,lowBits,"
                           "makeHint,useHint,centeredAbs,centeredMax"],
    },
    "Polyval": {
        "owner": ["C01"],
        "args": ["-pkg", "internal/aead", "-files", "polyval.go", "-ns", "TinkVerif.Gen.Polyval",
                 "-structs", "fieldElement",
                 "-consts", "PolyvalBlockSize,u32Sel0,u32Sel1,u32Sel2,u32Sel3,u64Sel0,u64Sel1,u64Sel2,u64Sel3",
                 "-funcs", "mul32,mul64,polyvalDot"],
    },
    "SliceFacts": {"owner": ["C19"], "tool": "extract", "args": ["slicefacts"]},
    "MutFacts": {"owner": ["C18"], "tool": "extract", "args": ["mutfacts"]},
    "EnumTables": {
        "owner": ["C12"], "tool": "extract",
        "args": ["enumtables"],
    },
}


# ---- byte-level glue, translated by go/harness/gluetr (flags: see the header of gluetr/main.go) and tied to the hand
# models by TinkVerif/Props/GlueTie/*.lean.  A region is `name=function|start regexp|end regexp|output variables`;
# each regexp must match exactly one statement of the function.
def _prefix_keys():
    a = ["-ns", "TinkVerif.Gen.GluePrefixKeys",
         "-pkg", "internal/outputprefix", "-sub", "Outputprefix", "-funcs", "calculatePrefixBytes,Tink,Legacy"]
    shapes = {
        "VariantTink,VariantCrunchy,VariantNoPrefix": ["aead/aesctrhmac", "aead/aesgcm", "aead/aesgcmsiv", "aead/chacha20poly1305",
                                                       "aead/xchacha20poly1305", "daead/aessiv", "hybrid/ecies", "hybrid/hpke"],
        "VariantTink,VariantCrunchy,VariantLegacy,VariantNoPrefix": ["mac/aescmac", "mac/hmac", "signature/ecdsa", "signature/ed25519",
                                                                     "signature/rsassapkcs1", "signature/rsassapss"],
        "VariantTink,VariantNoPrefix": ["aead/xaesgcm", "signature/compositemldsa", "signature/slhdsa"],
        "VariantTink,VariantNoPrefix,VariantNoPrefixWithPrehashID": ["signature/mldsa"],
        "tinkpb.OutputPrefixType_TINK,tinkpb.OutputPrefixType_LEGACY,tinkpb.OutputPrefixType_RAW,tinkpb.OutputPrefixType_CRUNCHY":
            ["internal/protoserialization"],
    }
    for consts, pkgs in shapes.items():
        for p in pkgs:
            a += ["-pkg", p, "-sub", p.split("/")[-1].capitalize() + "Key", "-consts", consts, "-funcs", "calculateOutputPrefix"]
    return a


GEN.update({
    "GlueFraming": {
        "owner": ["C01", "C02", "C04", "C05"], "tool": "gluetr",
        "args": ["-ns", "TinkVerif.Gen.GlueFraming",
                 "-pkg", "internal/outputprefix", "-sub", "Outputprefix", "-funcs", "calculatePrefixBytes,Tink,Legacy",
                 "-pkg", "core/cryptofmt", "-sub", "Cryptofmt",
                 "-consts", "NonRawPrefixSize,LegacyStartByte,TinkStartByte,tinkpb.OutputPrefixType_TINK,tinkpb.OutputPrefixType_LEGACY,"
                            "tinkpb.OutputPrefixType_RAW,tinkpb.OutputPrefixType_CRUNCHY",
                 "-funcs", "OutputPrefix"],
    },
    "GlueStream": {
        "owner": ["C07"], "tool": "gluetr",
        "args": ["-ns", "TinkVerif.Gen.GlueStream",
                 "-pkg", "streamingaead/subtle/noncebased", "-sub", "Noncebased", "-funcs", "generateSegmentNonce"],
    },
    "GlueAead": {
        "owner": ["C01", "C02"], "tool": "gluetr",
        "args": ["-ns", "TinkVerif.Gen.GlueAead",
                 "-pkg", "aead/aesctrhmac", "-sub", "Aesctrhmac", "-funcs", "aadSizeInBits",
                 "-pkg", "aead/xaesgcm", "-sub", "Xaesgcm", "-vars", "derivationBlock1Prefix,derivationBlock2Prefix",
                 "-opaque", "derivePerMessageKey:r.prf.ComputePRF=prf", "-funcs", "derivePerMessageKey"],
    },
    # wrappingSize + the WHOLE functions invertW / Wrap / Unwrap: round loops with the counter,
    # the slice views into the output buffer (it := wrapped[8:]; ri := it[:8]), the unwrap padding check
    "GlueKwp": {
        "owner": ["C08"], "tool": "gluetr",
        "args": ["-ns", "TinkVerif.Gen.GlueKwp",
                 "-pkg", "kwp/subtle", "-sub", "KwpGo", "-consts", "MinWrapSize,MaxWrapSize,roundCount,ivPrefix",
                 "-funcs", "wrappingSize,invertW,Wrap,Unwrap",
                 "-block", "Wrap:r.block.Encrypt=E", "-block", "invertW:r.block.Decrypt=D"],
    },
    # streamingaead/decrypt_reader.go: the record / replay buffer `unreader` (whole methods, stateful translation; the source
    # reader is an external object with an abstract state)
    "GlueUnreader": {
        "owner": ["C05", "C07", "C14"], "tool": "gluetr",
        "args": ["-ns", "TinkVerif.Gen.GlueUnreader",
                 "-pkg", "streamingaead", "-sub", "Streamingaead", "-recv", "unreader", "-stateful", "Read,unread,disable",
                 "-extern", "Read:r.r.Read=rd@r.r:read", "-funcs", "Read,unread,disable"],
    },
    # whole functions New / Compute / XOREndAndCompute (the block cipher is the parameter E; aes.NewCipher is an abstract
    # constructor)
    "GlueCmac": {
        "owner": ["C04", "C08", "C15"], "tool": "gluetr",
        "args": ["-ns", "TinkVerif.Gen.GlueCmac",
                 "-pkg", "internal/mac/aescmac", "-sub", "Aescmac", "-consts", "BlockSize,mul,pad",
                 "-funcs", "mulByX,New,Compute,XOREndAndCompute",
                 "-abstract", "New:crypto/aes.NewCipher", "-block", "New:(crypto/cipher.Block).Encrypt=E", "-block", "Compute:r.bc.Encrypt=E",
                 "-block", "XOREndAndCompute:r.bc.Encrypt=E"],
    },
    # internal/aead/aesctr.go whole functions: IV padding, Encrypt / Decrypt length checks and slicing.  crypto/cipher's CTR is
    # the parameter ctr (keyed by the IV handed to cipher.NewCTR), random.MustRand the parameter rand.
    "GlueCtr": {
        "owner": ["C01", "C02"], "tool": "gluetr",
        "args": ["-ns", "TinkVerif.Gen.GlueCtr",
                 "-pkg", "internal/aead", "-sub", "Aesctr", "-recv", "AESCTR", "-consts", "aesCTRMinIVSize",
                 "-repr", "crypto/cipher.Stream=Bytes", "-ctor", "newCipher:crypto/cipher.NewCTR=1",
                 "-funcs", "newCipher,Encrypt,Decrypt",
                 "-fill", "Encrypt:internal/random.MustRand=rand", "-apply", "Encrypt:(crypto/cipher.Stream).XORKeyStream=ctr",
                 "-apply", "Decrypt:(crypto/cipher.Stream).XORKeyStream=ctr"],
    },
    # internal/aead/aesgcmsiv.go whole functions: the AES-GCM-SIV counter mode aesCTR (32-bit LE counter with wrap, partial last
    # block), computeTag, deriveKeys (local closure inlined), computePolyval, Decrypt.  AES is the parameter `aes key`, a cipher
    # object is represented by its key, tink-go's POLYVAL object is an abstract object.  Encrypt (appends into cap(dst)) is not covered.
    "GlueGcmSiv": {
        "owner": ["C01", "C02"], "tool": "gluetr",
        "args": ["-ns", "TinkVerif.Gen.GlueGcmSiv",
                 "-pkg", "internal/aead", "-sub", "GcmsivFull", "-recv", "AESGCMSIV", "-repr", "crypto/cipher.Block=Bytes",
                 "-abs", "github.com/tink-crypto/tink-go/v2/internal/aead.Polyval=S_pv",
                 "-consts", "AESGCMSIVNonceSize,AESGCMSIVTagSize,aesgcmsivBlockSize,aesgcmsivPolyvalSize,maxAESGCMSIVKeySize",
                 "-funcs", "aesCTR,computeTag,deriveKeys,computePolyval,Decrypt",
                 "-ctor", "aesCTR:crypto/aes.NewCipher=0", "-block", "aesCTR:(crypto/cipher.Block).Encrypt=aes",
                 "-ctor", "computeTag:crypto/aes.NewCipher=0", "-block", "computeTag:(crypto/cipher.Block).Encrypt=aes",
                 "-block", "deriveKeys:r.block.Encrypt=aes",
                 "-opaque", "computePolyval:NewPolyval=pvNew", "-mutate", "computePolyval:(internal/aead.Polyval).Update=pvUpdate",
                 "-opaque", "computePolyval:(internal/aead.Polyval).Finish=pvFinish"],
    },
    # encrypt-then-MAC framing, whole functions: aead/aesctrhmac fullAEAD and aead/subtle EncryptThenAuthenticate
    "GlueEtm": {
        "owner": ["C01", "C02"], "tool": "gluetr",
        "args": ["-ns", "TinkVerif.Gen.GlueEtm",
                 "-pkg", "aead/aesctrhmac", "-sub", "AesctrhmacFull", "-funcs", "aadSizeInBits,Encrypt,Decrypt",
                 "-inout", "Encrypt:r.aesCTR.Encrypt=ctrEnc", "-opaque", "Encrypt:r.hmac.ComputeMAC=hmac",
                 "-opaque", "Decrypt:r.hmac.VerifyMAC=hmacVerify", "-inout", "Decrypt:r.aesCTR.Decrypt=ctrDec",
                 "-pkg", "aead/subtle", "-sub", "AeadSubtle", "-recv", "EncryptThenAuthenticate", "-consts", "minTagSizeInBytes",
                 "-funcs", "uint64ToByte,Encrypt,Decrypt",
                 "-opaque", "Encrypt:r.indCPACipher.Encrypt=indEnc", "-opaque", "Encrypt:r.mac.ComputeMAC=mac",
                 "-opaque", "Decrypt:r.mac.VerifyMAC=macVerify", "-opaque", "Decrypt:r.indCPACipher.Decrypt=indDec"],
    },
    # streamingaead/subtle/noncebased whole methods Writer.Write / Close, Reader.Read (stateful translation: receiver fields are
    # state; the underlying io.Writer / io.Reader are external objects; the segment ciphers are opaque)
    "GlueStreamSeg": {
        "owner": ["C07"], "tool": "gluetr",
        "args": ["-ns", "TinkVerif.Gen.GlueStreamSeg",
                 "-pkg", "streamingaead/subtle/noncebased", "-sub", "NoncebasedSeg",
                 "-errcodes", "io.EOF=2,io.ErrUnexpectedEOF=3,ErrCiphertextSegmentTooShort=4,ErrTooManySegments=5,ErrNonceSizeTooShort=6",
                 "-funcs", "generateSegmentNonce,Write,Close,Read", "-stateful", "Write,Close,Read",
                 "-extern", "Write:r.w.Write=sink@r.w:write", "-extern", "Close:r.w.Write=sink@r.w:write",
                 "-extern", "Read:io.ReadFull=readFull@r.r:read",
                 "-opaque", "Write:r.segmentEncrypterWithDst.EncryptSegmentWithDst=encDst",
                 "-opaque", "Write:r.segmentEncrypter.EncryptSegment=enc",
                 "-opaque", "Close:r.segmentEncrypterWithDst.EncryptSegmentWithDst=encDst",
                 "-opaque", "Close:r.segmentEncrypter.EncryptSegment=enc",
                 "-opaque", "Read:r.segmentDecrypterWithDst.DecryptSegmentWithDst=decDst",
                 "-opaque", "Read:r.segmentDecrypter.DecryptSegment=dec"],
    },
    # the functions through which randomness is drawn: every byte requested is one byte of the source, one draw per call
    "GlueRand": {
        "owner": ["C20"], "tool": "gluetr",
        "args": ["-ns", "TinkVerif.Gen.GlueRand",
                 "-pkg", "internal/random", "-sub", "RandomInt", "-funcs", "MustRand", "-fill", "MustRand:crypto/rand.Read=rand",
                 "-pkg", "subtle/random", "-sub", "RandomSubtle", "-funcs", "GetRandomBytes,GetRandomUint32",
                 "-fill", "GetRandomBytes:internal/random.MustRand=rand", "-fill", "GetRandomUint32:internal/random.MustRand=rand",
                 "-pkg", "secretdata", "-sub", "Secretdata", "-funcs", "NewBytesFromRand", "-fill", "NewBytesFromRand:crypto/rand.Read=rand"],
    },
    # keyset/validation.go Validate / validateKey / ValidateKeyVersion and keyset/handle.go hasSecrets, whole functions: the proto
    # structs are records of the fields the code reads, the duplicate-id map is a set, every key position is examined
    "GlueKeyset": {
        "owner": ["C13", "C14"], "tool": "gluetr",
        "args": ["-ns", "TinkVerif.Gen.GlueKeyset", "-pkg", "keyset", "-sub", "KeysetGo",
                 "-record", "tink_go_proto.Keyset_Key=KeyId,Status,OutputPrefixType,KeyData,KeyData.KeyMaterialType",
                 "-record", "tink_go_proto.Keyset=PrimaryKeyId,Key",
                 "-consts", "tinkpb.KeyStatusType_ENABLED,tinkpb.KeyStatusType_DISABLED,tinkpb.KeyStatusType_DESTROYED,"
                            "tinkpb.KeyData_UNKNOWN_KEYMATERIAL,tinkpb.KeyData_SYMMETRIC,tinkpb.KeyData_ASYMMETRIC_PRIVATE,"
                            "tinkpb.KeyData_ASYMMETRIC_PUBLIC,tinkpb.KeyData_REMOTE",
                 "-funcs", "ValidateKeyVersion,validateKey,Validate,hasSecrets"],
    },
    # keyset/manager.go newRandomKeyID: the redraw loop (stateful: the id set and the random source are state)
    "GlueManagerId": {
        "owner": ["C11", "C20"], "tool": "gluetr",
        "args": ["-ns", "TinkVerif.Gen.GlueManagerId", "-pkg", "keyset", "-sub", "ManagerGo", "-recv", "Manager",
                 "-stateful", "newRandomKeyID", "-extern", "newRandomKeyID:subtle/random.GetRandomUint32=draw@tape:value",
                 "-funcs", "newRandomKeyID"],
    },
    # MAC wrappers, whole functions: LEGACY suffix, prefix framing, tag truncation, parameter guards
    "GlueMacWrap": {
        "owner": ["C04"], "tool": "gluetr",
        "args": ["-ns", "TinkVerif.Gen.GlueMacWrap"] + sum((
                 ["-pkg", p, "-sub", sub, "-consts", "VariantTink,VariantCrunchy,VariantLegacy,VariantNoPrefix",
                  "-funcs", "message,ComputeMAC,VerifyMAC", "-opaque", "ComputeMAC:r.rawMAC.ComputeMAC=raw",
                  "-opaque", "VerifyMAC:r.rawMAC.VerifyMAC=rawVerify"]
                 for p, sub in (("mac/aescmac", "AescmacMac"), ("mac/hmac", "HmacMac"))), []) + [
                 "-pkg", "mac/subtle", "-sub", "MacSubtle", "-recv", "AESCMAC",
                 "-consts", "minCMACKeySizeInBytes,recommendedCMACKeySizeInBytes,minTagLengthInBytes,maxTagLengthInBytes",
                 "-funcs", "ValidateCMACParams,ComputeMAC,VerifyMAC",
                 "-opaque", "ComputeMAC:r.cmac.Compute=cmac", "-opaque", "VerifyMAC:r.cmac.Compute=cmac"],
    },
    # daead/subtle/aes_siv.go whole functions (s2v, ctrCrypt IV masking, Encrypt/Decrypt slicing and size checks) and the
    # daead/aessiv prefix wrapper.  CMAC (tied in GlueCmac) and crypto/cipher's CTR are parameters.
    "GlueSiv": {
        "owner": ["C08"], "tool": "gluetr",
        "args": ["-ns", "TinkVerif.Gen.GlueSiv",
                 "-pkg", "daead/subtle", "-sub", "SivGo", "-consts", "AESSIVKeySize", "-vars", "zeroBlock",
                 "-repr", "crypto/cipher.Stream=Bytes",
                 "-funcs", "multiplyByX,s2v,ctrCrypt,EncryptDeterministically,DecryptDeterministically",
                 "-opaque", "s2v:r.cmac.Compute=cmac", "-opaque", "s2v:r.cmac.XOREndAndCompute=xorEnd",
                 "-abstract", "ctrCrypt:crypto/aes.NewCipher", "-ctor", "ctrCrypt:crypto/cipher.NewCTR=1", "-apply", "ctrCrypt:(crypto/cipher.Stream).XORKeyStream=ctr",
                 "-pkg", "daead/aessiv", "-sub", "AessivFull", "-funcs", "EncryptDeterministically,DecryptDeterministically",
                 "-opaque", "EncryptDeterministically:r.rawAESSIV.EncryptDeterministically=rawEnc",
                 "-opaque", "DecryptDeterministically:r.rawAESSIV.DecryptDeterministically=rawDec"],
    },
    "GluePrf": {
        "owner": ["C15"], "tool": "gluetr",
        "args": ["-ns", "TinkVerif.Gen.GluePrf",
                 "-pkg", "prf/subtle", "-sub", "PrfSubtle", "-recv", "AESCMACPRF", "-funcs", "ValidateAESCMACPRFParams,ComputePRF",
                 "-opaque", "ComputePRF:r.cmac.Compute=cmac"],
    },
    "GlueHpke": {
        "owner": ["C06"], "tool": "gluetr",
        "args": ["-ns", "TinkVerif.Gen.GlueHpke",
                 "-pkg", "hybrid/internal/hpke", "-sub", "HpkeGo", "-consts", "hpkeV1,baseMode", "-vars", "emptySalt,emptyIKM",
                 "-funcs", "kemSuiteID,hpkeSuiteID,keyScheduleContext,labelIKM,labelInfo,createContext,computeNonce",
                 # whole createContext (RFC 9180 key schedule) and computeNonce; the KEM/KDF/AEAD objects and big.Int are parameters
                 "-opaque", "createContext:a2.id=kemID", "-opaque", "createContext:a3.id=kdfID", "-opaque", "createContext:a4.id=aeadID",
                 "-opaque", "createContext:a4.keyLength=keyLen", "-opaque", "createContext:a4.nonceLength=nonceLen",
                 "-opaque", "createContext:a3.labeledExtract=extract", "-opaque", "createContext:a3.labeledExpand=expand",
                 "-opaque", "computeNonce:r.sequenceNumber.Bytes=seqBytes"],
    },
    "GluePrefixKeys": {"owner": ["C05"], "tool": "gluetr", "args": _prefix_keys()},
})


# ---- round 4: decision / glue logic.  Keyset factory wrappers (candidate-selection loops): the element type is an abstract
# type Prim with abstract single-key operations, prefixmap.PrefixMap / Iterator are abstract (PrimitivesMatchingPrefix = `matching`,
# Iterator.Next = `next`, a -step: it returns the element, the ok flag and the advanced iterator), monitoring loggers are dropped.
_M = "github.com/tink-crypto/tink-go/v2/"


def _factory(name, pkg, sub, recv, elem, funcs, ops, match_fn, next_fn):
    a = ["-ns", "TinkVerif.Gen." + name, "-pkg", pkg, "-sub", sub, "-recv", recv, "-funcs", funcs,
         "-abs", _M + pkg + "." + elem + "=Prim", "-abs", _M + "internal/prefixmap.PrefixMap=PMap",
         "-abs", _M + "internal/prefixmap.Iterator=Iter", "-ignore", "(monitoring.Logger).Log,(monitoring.Logger).LogFailure"]
    for fn, callee, nm in ops:
        a += ["-opaque", "%s:(*%s.%s).%s=%s" % (fn, pkg, elem, callee, nm)]
    a += ["-opaque", "%s:(*internal/prefixmap.PrefixMap[%s.%s]).PrimitivesMatchingPrefix=matching" % (match_fn, pkg, elem),
          "-step", "%s:(*internal/prefixmap.Iterator[%s.%s]).Next=next" % (next_fn, pkg, elem)]
    return a


GEN.update({
    "GlueFactoryAead": {"owner": ["C01", "C02", "C05"], "tool": "gluetr", "args": _factory(
        "GlueFactoryAead", "aead", "AeadFactory", "wrappedAead", "aeadAndKeyID", "Decrypt,Encrypt",
        [("Decrypt", "Decrypt", "dec"), ("Encrypt", "Encrypt", "enc")], "Decrypt", "Decrypt")},
    "GlueFactoryDaead": {"owner": ["C05", "C08"], "tool": "gluetr", "args": _factory(
        "GlueFactoryDaead", "daead", "DaeadFactory", "wrappedDAEAD", "daeadAndKeyID", "DecryptDeterministically,EncryptDeterministically",
        [("DecryptDeterministically", "DecryptDeterministically", "dec"), ("EncryptDeterministically", "EncryptDeterministically", "enc")],
        "DecryptDeterministically", "DecryptDeterministically")},
    "GlueFactoryMac": {"owner": ["C04", "C05"], "tool": "gluetr", "args": _factory(
        "GlueFactoryMac", "mac", "MacFactory", "wrappedMAC", "macAndKeyID", "tryVerifyMAC,VerifyMAC,ComputeMAC",
        [("tryVerifyMAC", "VerifyMAC", "ver"), ("ComputeMAC", "ComputeMAC", "comp")], "VerifyMAC", "tryVerifyMAC")},
    "GlueFactoryVerify": {"owner": ["C03", "C05"], "tool": "gluetr", "args": _factory(
        "GlueFactoryVerify", "signature", "VerifierFactory", "wrappedVerifier", "verifierAndID", "Verify",
        [("Verify", "Verify", "ver")], "Verify", "Verify")},
    "GlueFactoryHybrid": {"owner": ["C05", "C06"], "tool": "gluetr", "args": _factory(
        "GlueFactoryHybrid", "hybrid", "HybridDecryptFactory", "wrappedHybridDecrypt", "decrypterAndID", "Decrypt",
        [("Decrypt", "Decrypt", "dec")], "Decrypt", "Decrypt")},
})


# ---- round 4 (continued): JWT decision logic (clock, RawJWT accessors, header map abstract), key-id bookkeeping, constructors
_R4 = {}
# ---------------- round 4: JWT decision logic
_SPB = "google.golang.org/protobuf/types/known/structpb"
_RAW = "(*jwt.RawJWT)."
def _opq(fn, pairs):
    r = []
    for callee, nm in pairs:
        r += ["-opaque", "%s:%s=%s" % (fn, callee, nm)]
    return r
_R4["GlueJwt"] = ["-ns", "TinkVerif.Gen.GlueJwt", "-pkg", "jwt", "-sub", "Jwt", "-recv", "Validator",
    "-funcs", "validateFieldPresence,validateTimestamps,validateTypeHeader,validateIssuer,validateAudiences,Validate,validateKIDInHeader,validateHeader",
    "-abs", "time.Time=Time", "-abs", _M + "jwt.RawJWT=Raw", "-abs", _SPB + ".Struct=Hdr", "-abs", "map[string]*" + _SPB + ".Value=Fields"] \
    + _opq("validateTimestamps", [("time.Now", "now"), ("(time.Time).IsZero", "isZero"), ("(time.Time).Add", "add"), ("(time.Time).After", "after"),
        (_RAW + "HasExpiration", "hasExp"), (_RAW + "ExpiresAt", "expiresAt"), (_RAW + "HasNotBefore", "hasNbf"), (_RAW + "NotBefore", "notBefore"),
        (_RAW + "IssuedAt", "issuedAt")]) \
    + _opq("validateTypeHeader", [(_RAW + "HasTypeHeader", "hasTyp"), (_RAW + "TypeHeader", "typ")]) \
    + _opq("validateIssuer", [(_RAW + "HasIssuer", "hasIss"), (_RAW + "Issuer", "iss")]) \
    + _opq("validateAudiences", [(_RAW + "HasAudiences", "hasAud"), (_RAW + "Audiences", "auds")]) \
    + _opq("validateKIDInHeader", [("headerStringField", "strField")]) \
    + _opq("validateHeader", [("headerStringField", "strField"), ("(*" + _SPB + ".Struct).GetFields", "fields")])

# ---------------- round 4: id requirements, manager construction, constructors with parameter arithmetic
_R4["GlueIdReq"] = ["-ns", "TinkVerif.Gen.GlueIdReq",
    "-pkg", "internal/protoserialization", "-sub", "KeySer", "-recv", "KeySerialization",
    "-funcs", "OutputPrefixType,HasIDRequirement,IDRequirement,NewKeySerialization", "-consts", "tinkpb.OutputPrefixType_RAW",
    "-pkg", "internal/protoserialization", "-sub", "Fallback", "-recv", "FallbackProtoKey", "-funcs", "IDRequirement",
    "-pkg", "keyset", "-sub", "ManagerNew", "-funcs", "NewManagerFromHandle",
    "-record", "keyset.entry=fixedID", "-record", "keyset.Entry=keyID", "-record", "tink_go_proto.Keyset_Key=KeyId,OutputPrefixType",
    "-consts", "tinkpb.OutputPrefixType_RAW", "-opaque", "NewManagerFromHandle:fromKeysetEntries=fromEntries",
    "-region", r"entryIdRequirement=keysetToEntries|^keyID := protoKey.GetKeyId\(\)|^if protoKey.GetOutputPrefixType\(\) == |keyID"]
_R4["GlueStreamNew"] = ["-ns", "TinkVerif.Gen.GlueStreamNew", "-pkg", "streamingaead/subtle", "-sub", "StreamNew",
    "-funcs", "NewAESGCMHKDF,NewAESCTRHMAC",
    "-consts", "AESGCMHKDFNoncePrefixSizeInBytes,AESGCMHKDFTagSizeInBytes,AESCTRHMACNoncePrefixSizeInBytes",
    "-opaque", "NewAESGCMHKDF:aead/subtle.ValidateAESKeySize=validAESKeySize", "-opaque", "NewAESCTRHMAC:aead/subtle.ValidateAESKeySize=validAESKeySize",
    "-opaque", "NewAESCTRHMAC:subtle.GetHashDigestSize=digestSize"]
_R4["GlueHkdfPrf"] = ["-ns", "TinkVerif.Gen.GlueHkdfPrf", "-pkg", "prf/subtle", "-sub", "HkdfPrf", "-funcs", "NewHKDFPRF,ValidateHKDFPRFParams",
    "-consts", "minHKDFKeySizeInBytes", "-abs", "func() hash.Hash=HashFn",
    "-opaque", "NewHKDFPRF:subtle.GetHashFunc=getHashFunc", "-opaque", "ValidateHKDFPRFParams:subtle.GetHashFunc=getHashFunc"]
_R4["GlueHmacNew"] = ["-ns", "TinkVerif.Gen.GlueHmacNew", "-pkg", "internal/mac/hmac", "-sub", "HmacNew", "-funcs", "ValidateHMACParams,New",
    "-consts", "minKeySizeInBytes,minTagSizeInBytes", "-abs", "func() hash.Hash=HashFn",
    "-opaque", "New:subtle.GetHashFunc=getHashFunc", "-opaque", "ValidateHMACParams:subtle.GetHashDigestSize=digestSize"]

_R4["GluePss"] = ["-ns", "TinkVerif.Gen.GluePss", "-pkg", "internal/signature", "-sub", "Pss", "-funcs", "New_RSA_SSA_PSS_Signer,New_RSA_SSA_PSS_Verifier",
    "-abs", "crypto/rsa.PrivateKey=Priv", "-abs", "crypto/rsa.PublicKey=Pub", "-abs", "func() hash.Hash=HashFn",
    "-opaque", "New_RSA_SSA_PSS_Signer:validRSAPublicKey=validPub", "-opaque", "New_RSA_SSA_PSS_Verifier:validRSAPublicKey=validPub",
    "-opaque", "New_RSA_SSA_PSS_Signer:rsaHashFunc=hashFunc", "-opaque", "New_RSA_SSA_PSS_Verifier:rsaHashFunc=hashFunc"]
_R4["GlueKmsEnv"] = ["-ns", "TinkVerif.Gen.GlueKmsEnv", "-pkg", "aead", "-sub", "KmsEnvelope", "-recv", "KMSEnvelopeAEAD", "-funcs", "parseEnvelope,Decrypt,Encrypt",
    "-consts", "lenDEK,maxLengthEncryptedDEK", "-abs", _M + "tink.AEAD=Kek", "-record", "tink_go_proto.KeyTemplate=TypeUrl",
    "-opaque", "Decrypt:(tink.AEAD).Decrypt=kekDecrypt", "-opaque", "Decrypt:decryptDataWithDEK=decryptWithDEK",
    "-opaque", "Encrypt:(tink.AEAD).Encrypt=kekEncrypt", "-opaque", "Encrypt:newDEK=newDEK", "-opaque", "Encrypt:encryptDataAndSerializeEnvelope=encryptAndSerialize"]
_R4["GlueEcies"] = ["-ns", "TinkVerif.Gen.GlueEcies", "-pkg", "hybrid/subtle", "-sub", "EciesNew", "-funcs", "NewECIESAEADHKDFHybridEncrypt,NewECIESAEADHKDFHybridDecrypt",
    "-abs", "crypto/elliptic.Curve=Curve", "-abs", "crypto/elliptic.CurveParams=CParams", "-abs", _M + "hybrid/subtle.ECPoint=Point",
    "-abs", _M + "hybrid/subtle.EciesAEADHKDFDEMHelper=Dem", "-abs", _M + "hybrid/subtle.ECPrivateKey=PrivK",
    "-opaque", "NewECIESAEADHKDFHybridEncrypt:GetCurve=getCurve", "-opaque", "NewECIESAEADHKDFHybridEncrypt:(crypto/elliptic.Curve).Params=params"]
_R4["GlueDeriveKeyset"] = ["-ns", "TinkVerif.Gen.GlueDeriveKeyset", "-pkg", "keyderivation", "-sub", "KeysetDeriver", "-recv", "wrappedKeysetDeriver", "-funcs", "DeriveKeyset",
    "-abs", _M + "keyderivation.fullKeyDeriverWithKeyID=Deriver", "-abs", _M + "keyset.Manager=Mgr", "-abs", _M + "keyset.Handle=Handle",
    "-abs", _M + "key.Key=Key", "-abs", _M + "keyset.KeyOpts=KOpt",
    "-opaque", "DeriveKeyset:keyset.NewManager=newManager", "-opaque", "DeriveKeyset:(*keyderivation.fullKeyDeriverWithKeyID).DeriveKey=deriveKey",
    "-opaque", "DeriveKeyset:keyset.WithFixedID=withFixedID", "-opaque", "DeriveKeyset:(*keyset.Manager).Handle=handle",
    "-step", "DeriveKeyset:(*keyset.Manager).AddKeyWithOpts=addKey", "-step", "DeriveKeyset:(*keyset.Manager).SetPrimary=setPrimary"]
_R4["GlueManagerAdd"] = ["-ns", "TinkVerif.Gen.GlueManagerAdd", "-pkg", "keyset", "-sub", "ManagerGo", "-recv", "Manager",
    "-stateful", "newRandomKeyID,Add", "-extern", "newRandomKeyID:random.GetRandomUint32=draw@tape:value", "-extern", "Add:random.GetRandomUint32=draw@tape:value",
    "-funcs", "newRandomKeyID,Add", "-record", "keyset.entry=fixedID,isPrimary,status", "-record", "tink_go_proto.KeyTemplate=OutputPrefixType",
    "-consts", "tinkpb.OutputPrefixType_RAW,tinkpb.OutputPrefixType_UNKNOWN_PREFIX,Enabled",
    "-abs", _M + "key.Key=Key", "-abs", _M + "key.Parameters=Params", "-abs", _M + "internal/protoserialization.KeySerialization=KSer",
    "-abs", _M + "proto/tink_go_proto.KeyData=KData",
    "-opaque", "Add:internal/protoserialization.ParseParameters=parseParams", "-opaque", "Add:internal/keygenregistry.CreateKey=createKey",
    "-opaque", "Add:core/registry.NewKeyData=newKeyData", "-opaque", "Add:internal/protoserialization.NewKeySerialization=newKeySer",
    "-opaque", "Add:internal/protoserialization.ParseKey=parseKey"]
_R4["GlueJwtKid"] = ["-ns", "TinkVerif.Gen.GlueJwtKid", "-pkg", "jwt", "-sub", "JwtKid", "-funcs", "newFullVerifier,newFullSigner",
    "-abs", _M + "tink.Verifier=Ver", "-abs", _M + "tink.Signer=Sgn", "-abs", _M + "jwt.verifierWithKID=VKid", "-abs", _M + "jwt.signerWithKID=SKid",
    "-opaque", "newFullVerifier:newVerifierWithKID=newVerifierWithKID", "-opaque", "newFullSigner:newSignerWithKID=newSignerWithKID"]
_R4["GluePrefixmap"] = ["-ns", "TinkVerif.Gen.GluePrefixmap",
    "-pkg", "internal/prefixmap", "-sub", "Iter", "-recv", "Iterator", "-stateful", "Next", "-funcs", "Next",
    "-pkg", "internal/prefixmap", "-sub", "PMap", "-recv", "PrefixMap", "-stateful", "Insert", "-funcs", "PrimitivesMatchingPrefix,Insert",
    "-consts", "cryptofmt.NonRawPrefixSize,EmptyPrefix"]
_R4["GlueHmacMac"] = ["-ns", "TinkVerif.Gen.GlueHmacMac", "-pkg", "internal/mac/hmac", "-sub", "HmacMac", "-recv", "HMAC", "-funcs", "ComputeMAC,VerifyMAC",
    "-abs", "func() hash.Hash=HashFn", "-abs", "hash.Hash=Mac",
    "-opaque", "ComputeMAC:crypto/hmac.New=hmacNew", "-step", "ComputeMAC:(hash.Hash).Write=macWrite", "-opaque", "ComputeMAC:(hash.Hash).Sum=macSum",
    "-opaque", "VerifyMAC:crypto/hmac.Equal=ctEqual"]
_R4["GluePrfSet"] = ["-ns", "TinkVerif.Gen.GluePrfSet", "-pkg", "prf", "-sub", "PrfSet", "-funcs", "NewPRFSetWithConfig",
    "-abs", _M + "keyset.Handle=Handle", "-abs", _M + "keyset.Config=Config", "-abs", _M + "keyset.Entry=Entry", "-abs", _M + "key.Key=Key",
    "-abs", _M + "prf.PRF=Prf", "-abs", _M + "monitoring.Logger=Logger", "-abs", _M + "prf.monitoredPRF=MPrf", "-abs", "map[uint32]" + _M + "prf.PRF=PrfMap",
    "-opaque", "NewPRFSetWithConfig:(*keyset.Handle).Len=handleLen", "-opaque", "NewPRFSetWithConfig:createLogger=createLogger",
    "-opaque", "NewPRFSetWithConfig:internal/factoryutil.EnabledUnmonitoredEntries=entries",
    "-opaque", "NewPRFSetWithConfig:factoryutil.PrimitiveFromKey[PRF]=primitiveFromKey", "-opaque", "NewPRFSetWithConfig:(*keyset.Entry).Key=entryKey",
    "-opaque", "NewPRFSetWithConfig:(*keyset.Entry).IsPrimary=isPrimary", "-opaque", "NewPRFSetWithConfig:(*keyset.Entry).KeyID=keyID"]
_R4["GlueKeyDerivers"] = ["-ns", "TinkVerif.Gen.GlueKeyDerivers", "-pkg", "keyderivation/internal/keyderivers", "-sub", "KeyDerivers",
    "-closure", "hmacPRFDeriver=addHMACPRFKeyDeriver", "-closure", "hkdfPRFDeriver=addHKDFPRFKeyDeriver", "-funcs", "hmacPRFDeriver,hkdfPRFDeriver",
    "-abs", _M + "key.Parameters=Params", "-abs", _M + "key.Key=Key", "-abs", "io.Reader=Rd", "-abs", _M + "secretdata.Bytes=SBytes",
    "-abs", _M + "prf/hmacprf.Parameters=HParams", "-abs", _M + "prf/hmacprf.Key=HKey",
    "-abs", _M + "prf/hkdfprf.Parameters=KParams", "-abs", _M + "prf/hkdfprf.Key=KKey",
    "-read", "hmacPRFDeriver:io.ReadFull=readFull", "-opaque", "hmacPRFDeriver:(*prf/hmacprf.Parameters).KeySizeInBytes=keySize",
    "-opaque", "hmacPRFDeriver:prf/hmacprf.NewKey=newKey", "-opaque", "hmacPRFDeriver:secretdata.NewBytesFromData=secretBytes",
    "-read", "hkdfPRFDeriver:io.ReadFull=readFull", "-opaque", "hkdfPRFDeriver:(*prf/hkdfprf.Parameters).KeySizeInBytes=keySize",
    "-opaque", "hkdfPRFDeriver:prf/hkdfprf.NewKey=newKey", "-opaque", "hkdfPRFDeriver:secretdata.NewBytesFromData=secretBytes"]
# C16: the ADRS layout of internal/signature/slhdsa/address.go (methods of *address, address = [32]byte: the receiver is its content)
_R4["GlueSlh"] = ["-ns", "TinkVerif.Gen.GlueSlh", "-pkg", "internal/signature/slhdsa", "-sub", "SlhGo", "-recv", "address",
    "-funcs", "setLayerAddress,setTreeAddress,setTypeAndClear,setKeyPairAddress,keyPairAddress,setChainAddress,setTreeHeight,"
              "setHashAddress,setTreeIndex,treeIndex,compress"]
_R4_OWNERS = {"GlueSlh": ["C16"], "GlueKeyDerivers": ["C17"], "GluePrfSet": ["C15"], "GluePrefixmap": ["C02", "C05"], "GlueHmacMac": ["C01", "C04"], "GluePss": ["C03"], "GlueKmsEnv": ["C02"], "GlueEcies": ["C06"], "GlueDeriveKeyset": ["C17"], "GlueManagerAdd": ["C11", "C20"],
              "GlueJwtKid": ["C05", "C09"], "GlueJwt": ["C05", "C09"], "GlueIdReq": ["C11", "C20"], "GlueStreamNew": ["C07"], "GlueHkdfPrf": ["C15"], "GlueHmacNew": ["C01", "C04"]}
GEN.update({n: {"owner": _R4_OWNERS[n], "tool": "gluetr", "args": a} for n, a in _R4.items()})


def _strip_comments(s):
    import re
    return re.sub(r"/-.*?-/", "", s, flags=re.S)


def gengood_path(verif, n):
    return os.path.join(verif, "lean", "TinkVerif", "GenGood", n + ".lean")


def accept_gen(verif, names=None):
    """Make the current regenerated glue files the committed last-good copies (lean/TinkVerif/GenGood/Glue*.lean, namespace
    TinkVerif.GenGood.*).  Run explicitly (`python3 vlib/gen.py --accept-gen [names]`), never by ./check."""
    os.makedirs(os.path.join(verif, "lean", "TinkVerif", "GenGood"), exist_ok=True)
    done = []
    for n, g in GEN.items():
        if g.get("tool") != "gluetr" or (names and n not in names):
            continue
        src = os.path.join(verif, "lean", "TinkVerif", "Gen", n + ".lean")
        if not os.path.exists(src):
            continue
        text = open(src).read().replace("TinkVerif.Gen.", "TinkVerif.GenGood.")
        text = text.replace("/- GENERATED by", "/- LAST-GOOD COPY (vlib/gen.py --accept-gen) of a file GENERATED by", 1)
        with open(gengood_path(verif, n), "w") as fh:
            fh.write(text)
        done.append(n)
    return done


def glue_diff(verif, n, new_text):
    """If the regenerated glue file differs (comments aside) from its last-good copy, search a concrete input on which a
    function of the two versions differs (vlib/gluediff.py).  Returns the GLUE-DIFF lines (possibly empty)."""
    good = gengood_path(verif, n)
    if not os.path.exists(good):
        return []
    if _strip_comments(open(good).read().replace("TinkVerif.GenGood.", "TinkVerif.Gen.")) == _strip_comments(new_text):
        return []
    try:
        p = subprocess.run([sys.executable, os.path.join(verif, "vlib", "gluediff.py"), n, "--lean", os.path.join(verif, "lean")],
                           stdout=subprocess.PIPE, stderr=subprocess.STDOUT, text=True, timeout=300)
        return [l for l in p.stdout.split("\n") if l.startswith("GLUE-DIFF")]
    except Exception as e:  # the search is a convenience: never let it break a check
        return ["GLUE-DIFF-SKIP: %s: %s" % (n, e)]


def regenerate(prop, repo, verif, build, build_harness=None):
    """Returns {"files": [...], "problems": [...], "obligations": n, "discharged": n}."""
    res = {"files": [], "problems": [], "obligations": 0, "discharged": 0}
    todo = [n for n, g in GEN.items() if prop is None or prop in g["owner"]]
    if not todo:
        # every property still needs the generated files to exist (the driver imports them)
        todo = [n for n in GEN if not os.path.exists(os.path.join(verif, "lean", "TinkVerif", "Gen", n + ".lean"))]
        if not todo:
            return res
    bins = {}
    for tool in sorted({GEN[n].get("tool", "translator") for n in todo}):
        ok, log, binp = build_harness(tool)
        if not ok:
            res["problems"].append(tool + " does not build: " + log[-400:])
            return res
        bins[tool] = binp
    env = dict(os.environ, GOFLAGS="-mod=mod", GOPROXY="off")
    os.makedirs(os.path.join(verif, "lean", "TinkVerif", "Gen"), exist_ok=True)
    def _run(n):
        g = GEN[n]
        tmp = os.path.join(build, n + ".lean.new")
        if os.path.exists(tmp):
            os.remove(tmp)
        return subprocess.run([bins[g.get("tool", "translator")]] + g["args"] + ["-out", tmp], cwd=repo, env=env, stdout=subprocess.PIPE,
                              stderr=subprocess.STDOUT, text=True, timeout=600)
    # the translator runs are independent (each type-checks its packages and writes its own file): run them four at a time,
    # then look at the results in the fixed order of GEN
    from concurrent.futures import ThreadPoolExecutor
    with ThreadPoolExecutor(max_workers=4) as _ex:
        _procs = dict(zip(todo, _ex.map(_run, todo)))
    for n in todo:
        g = GEN[n]
        out = os.path.join(verif, "lean", "TinkVerif", "Gen", n + ".lean")
        tmp = os.path.join(build, n + ".lean.new")
        p = _procs[n]
        res["obligations"] += 1
        if p.returncode != 0 or not os.path.exists(tmp):
            res["problems"].append("translator refused %s: %s" % (n, p.stdout[-600:]))
            continue
        new = open(tmp).read()
        old = open(out).read() if os.path.exists(out) else None
        if new != old:
            with open(out, "w") as fh:
                fh.write(new)
        note = ""
        if g.get("tool") == "gluetr":
            # model-side counterexample search against the committed last-good regeneration (only when the text differs)
            lines = glue_diff(verif, n, new)
            for l in lines:
                print("# " + l[:600])
            hits = [l for l in lines if l.startswith("GLUE-DIFF:")]
            if lines:
                res.setdefault("gluediff", []).extend(lines)
                note = "; differs from GenGood: %d function(s) with a concrete differing input%s" % (
                    len(hits), (" — " + hits[0][:300]) if hits else "")
        res["files"].append("TinkVerif/Gen/%s.lean (regenerated from /repo, %d bytes%s%s)" %
                            (n, len(new), "" if new == old else ", CHANGED since last run", note))
        res["discharged"] += 1
    return res


if __name__ == "__main__":
    if len(sys.argv) >= 2 and sys.argv[1] == "--accept-gen":
        verif = os.path.dirname(os.path.dirname(os.path.abspath(__file__)))
        print("accepted as last-good:", ", ".join(accept_gen(verif, sys.argv[2:] or None)))
    else:
        print("usage: python3 vlib/gen.py --accept-gen [GlueName ...]   (copies lean/TinkVerif/Gen/Glue*.lean to GenGood/)")
