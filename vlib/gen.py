"""Regeneration of TinkVerif/Gen/*.lean from /repo's current source (translator front end).

Each generated file is produced by the Go translator (go/harness/translator, built through the same
overlay as the harnesses and run with cwd=/repo). A translator failure (unknown construct, missing
function) is reported as a broken obligation; the previous generated file is left in place so that
unrelated properties still build, but the property that owns the file fails."""
import os, subprocess

GEN = {
    "MldsaAlgebra": {
        "owner": ["C10"],
        "args": ["-pkg", "internal/signature/mldsa", "-recv", "rZq", "-ns", "TinkVerif.Gen.Mldsa",
                 "-consts", "q,qBits,d,inv256,degree,zeta", "-tables", "zetas",
                 "-funcs", "reduceOnce,add,sub,neg,mul,power2Round,scalePower2,divBy2Gamma2,decompose,highBits,lowBits,"
                           "makeHint,useHint,centeredAbs,centeredMax"],
    },
    "SliceFacts": {"owner": ["C19"], "tool": "extract", "args": ["slicefacts"]},
    "MutFacts": {"owner": ["C18"], "tool": "extract", "args": ["mutfacts"]},
    "EnumTables": {
        "owner": ["C12"], "tool": "extract",
        "args": ["enumtables"],
    },
}


def regenerate(prop, repo, verif, build, build_harness=None):
    """Returns {"files": [...], "problems": [...], "obligations": n, "discharged": n}."""
    res = {"files": [], "problems": [], "obligations": 0, "discharged": 0}
    todo = [n for n, g in GEN.items() if prop is None or prop in g["owner"]]
    if not todo:
        # every property still needs the generated files to exist (the driver imports them)
        todo = [n for n in GEN if not os.path.exists(os.path.join(verif, "lean", "TinkVerif", "Gen", n + ".lean"))]
        if not todo:
            return res
    bins = {}
    for tool in sorted({GEN[n].get("tool", "translator") for n in todo}):
        ok, log, binp = build_harness(tool)
        if not ok:
            res["problems"].append(tool + " does not build: " + log[-400:])
            return res
        bins[tool] = binp
    env = dict(os.environ, GOFLAGS="-mod=mod", GOPROXY="off")
    os.makedirs(os.path.join(verif, "lean", "TinkVerif", "Gen"), exist_ok=True)
    for n in todo:
        g = GEN[n]
        out = os.path.join(verif, "lean", "TinkVerif", "Gen", n + ".lean")
        tmp = os.path.join(build, n + ".lean.new")
        if os.path.exists(tmp):
            os.remove(tmp)
        p = subprocess.run([bins[g.get("tool", "translator")]] + g["args"] + ["-out", tmp], cwd=repo, env=env, stdout=subprocess.PIPE,
                           stderr=subprocess.STDOUT, text=True, timeout=600)
        res["obligations"] += 1
        if p.returncode != 0 or not os.path.exists(tmp):
            res["problems"].append("translator refused %s: %s" % (n, p.stdout[-600:]))
            continue
        new = open(tmp).read()
        old = open(out).read() if os.path.exists(out) else None
        if new != old:
            with open(out, "w") as fh:
                fh.write(new)
        res["files"].append("TinkVerif/Gen/%s.lean (regenerated from /repo, %d bytes%s)" %
                            (n, len(new), "" if new == old else ", CHANGED since last run"))
        res["discharged"] += 1
    return res
