#!/usr/bin/env python3
"""Writes /verif/MANIFEST.json from vlib/registry.py (so the two never drift)."""
import json, os, sys
sys.path.insert(0, os.path.dirname(os.path.dirname(os.path.abspath(__file__))))
from vlib.registry import PROPS, NOT_BUILT

ALL = ["C%02d" % i for i in range(1, 21)]
checks = []
for pid in ALL:
    if pid not in PROPS:
        continue
    t = PROPS[pid]["manifest"]
    checks.append({
        "property_id": pid,
        "quick_cmd": "./check %s --tier quick" % pid,
        "thorough_cmd": "./check %s --tier thorough" % pid,
        "evidence_file": "/verif/evidence/%s.json" % pid,
        "replay_cmd_template": "./check %s --replay {path}" % pid,
        "engine": "lean4-proof+correspondence",
        "level_claimed": {"category": t.get("category", "proof"), "text": t["text"], "design_ref": t["design_ref"]},
        "level_note": t["note"],
        "technique": t["technique"],
    })
m = {
    "version": 1,
    "setup_cmd": "cd /verif && ./check --setup",
    "hooks": {
        "guard": "verif",
        "enable": "go build -tags verif -overlay /verif/.build/overlay.json ./internal/verifharness/<name>  (cwd=/repo; hook and harness "
                  "files live under /verif/go and are injected by the overlay, nothing is committed to /repo)",
        "baseline_off_cmd": "for m in $(cat /w/out/gomods.txt); do MF=$(cd /repo/$m && . /w/out/goenv.sh && gomodflag); (cd /repo/$m && go test $MF -json -vet=off -count=1 -timeout 25m ./...); done",
        "source_commits": [],
        "add_only": True,
    },
    "engines": [{
        "name": "lean4-proof+correspondence", "path": "/verif/check",
        "serves_properties": [c["property_id"] for c in checks],
        "kind_free_text": "Lean 4 theorems over hand-written and regenerated models (lake build, #print axioms audit, leanchecker in thorough) "
                          "tied to /repo by a Go correspondence harness (overlay-injected, -tags verif) and a compiled Lean model driver",
    }],
    "checks": checks,
    "not_applicable": [{"property_id": p, "reason": NOT_BUILT.get(p, "check not built yet (work in progress; see DESIGN.md §8)")}
                       for p in ALL if p not in PROPS],
    "notes": "See DESIGN.md. Every check regenerates/rebuilds from /repo's working tree; evidence is rewritten on every run.",
}
json.dump(m, open(os.path.join(os.path.dirname(os.path.dirname(os.path.abspath(__file__))), "MANIFEST.json"), "w"), indent=1)
print("MANIFEST.json: %d checks, %d not_applicable" % (len(checks), len(m["not_applicable"])))
