#!/usr/bin/env python3
"""Render /verif/seeded/RESULTS.json + meta.json titles as the markdown table of DESIGN.md §9.7.2."""
import json, os, re
R = json.load(open('/verif/seeded/RESULTS.json'))
def key(k):
    i, s = k.split('/')
    m = re.match(r'(?:r(\d)-)?(\d+)', s)
    return (i, int(m.group(1) or 1), int(m.group(2)))
rows = []
for k in sorted(R, key=key):
    meta = os.path.join('/verif/seeded', k, 'meta.json')
    title = ''
    files = ''
    if os.path.exists(meta):
        try:
            m = json.load(open(meta))
            title = m.get('title', '')
            files = ', '.join(m.get('files', [])[:2])
        except Exception:
            pass
    by, how = R[k]
    rows.append('| %s | %s (`%s`) | %s | %s |' % (k, title.replace('|', '/'), files, by, how.replace('|', '/')))
print('| seed | change (files) | caught by | how / what was done |')
print('|---|---|---|---|')
print('\n'.join(rows))
