#!/usr/bin/env python3
"""gluediff: model-side counterexample search between two versions of a gluetr-generated file.

  gluediff.py <GlueName> [--lean /verif/lean] [--max-seconds 60]

Compares lean/TinkVerif/GenGood/<GlueName>.lean (the committed last-good regeneration, namespace TinkVerif.GenGood.<GlueName>)
with lean/TinkVerif/Gen/<GlueName>.lean (the current regeneration) function by function: every top-level function that has the
SAME Lean signature in both files is run on a deterministic input grid (lengths 0..33, 47..49, 63..65, 255..257, 4095..4097,
k·2^16+d; contents zero / 0xff / counting; small and boundary integers; toy instantiations of the abstract parameters) with
`lake env lean --run`, and the first difference per function is printed as

  GLUE-DIFF: <function> <arguments> old=<value> new=<value>

Functions whose signature changed, or whose parameter types the grid cannot instantiate, are listed as `GLUE-DIFF-SKIP`.
Exit status 0 always; the lines are the result.  Used by vlib/gen.py after a regeneration that differs from GenGood."""
import os, re, subprocess, sys, time, hashlib

def strip_comments(s):
    return re.sub(r"/-.*?-/", "", s, flags=re.S)

def parse_binders(s):
    """'(a : T) (b : U → V)' -> [(a, 'T'), (b, 'U → V')]"""
    out, i = [], 0
    while i < len(s):
        if s[i] == "(":
            depth, j = 1, i + 1
            while depth:
                depth += {"(": 1, ")": -1}.get(s[j], 0)
                j += 1
            name, ty = s[i + 1:j - 1].split(" : ", 1)
            out.append((name.strip(), ty.strip()))
            i = j
        else:
            i += 1
    return out

def functions(path):
    """[(sub, name, binders, result type)] for the top-level functions (those announced by a `names of` comment)"""
    text = open(path).read()
    res, sub = [], None
    announced = set()
    for line in text.split("\n"):
        m = re.match(r"namespace (\w+)$", line)
        if m and not line.startswith("namespace TinkVerif"):
            sub = m.group(1)
        m = re.match(r"/- names of ([\w.']+):", line)
        if m:
            announced.add((sub, m.group(1)))
        m = re.match(r"def ([\w.']+) (.*) : (.+) :=$", line)
        if m and (sub, m.group(1)) in announced:
            res.append((sub, m.group(1), parse_binders(m.group(2)), m.group(3).strip()))
        m = re.match(r"def ([\w.']+)\s+: (.+) :=$", line)
        if m and (sub, m.group(1)) in announced:
            res.append((sub, m.group(1), [], m.group(2).strip()))
    return res

def def_texts(path):
    """{(sub, top-level function): concatenated text of all its definitions (F, F.v1, F.loop1.body, …)}"""
    text = strip_comments(open(path).read()).replace("TinkVerif.GenGood.", "TinkVerif.Gen.")
    out, sub = {}, None
    for block in re.split(r"\n(?=def |namespace |end |structure )", text):
        m = re.match(r"namespace (\w+)", block)
        if m and not block.startswith("namespace TinkVerif"):
            sub = m.group(1)
        m = re.match(r"def ([\w']+)", block)
        if m:
            out.setdefault((sub, m.group(1)), []).append(block.strip())
    return {k: "\n".join(v) for k, v in out.items()}


def changed_functions(old, new):
    to, tn = def_texts(old), def_texts(new)
    changed = {k for k in set(to) | set(tn) if to.get(k) != tn.get(k)}
    # a function that mentions a changed function changed too
    grew = True
    while grew:
        grew = False
        for k, txt in tn.items():
            if k in changed:
                continue
            for (s2, n2) in list(changed):
                if s2 == k[0] and re.search(r"(?<![\w.'])" + re.escape(n2) + r"(?![\w'])", txt) or re.search(re.escape("%s.%s" % (s2, n2)) + r"(?![\w'])", txt):
                    changed.add(k)
                    grew = True
                    break
    return changed


def structures(path):
    text = strip_comments(open(path).read())
    out = {}
    for m in re.finditer(r"structure (\w+) where\n((?:  \w+ : .+\n)+)", text):
        out[m.group(1)] = [tuple(l.strip().split(" : ", 1)) for l in m.group(2).strip().split("\n") if not l.strip().startswith("deriving")]
    return out

PRELUDE = r'''
open TinkVerif
namespace GlueDiffRun
def pat (kind len : Nat) : Bytes :=
  match kind with
  | 0 => List.replicate len 0
  | 1 => List.replicate len 255
  | _ => (List.range len).map fun i => UInt8.ofNat (i * 7 + 3)
def lens : List Nat := [0, 1, 2, 7, 8, 15, 16, 17, 23, 24, 31, 32, 33, 47, 48, 49, 63, 64, 65, 255, 256, 257, 4095, 4096, 4097, 65535, 65536, 65537, 131072]
def smallLens : List Nat := [0, 1, 12, 15, 16, 17, 32, 33]
def bytesBig : List Bytes := lens.flatMap fun l => if l ≤ 64 then [pat 0 l, pat 1 l, pat 2 l] else [pat 2 l]
def bytesSmall : List Bytes := smallLens.flatMap fun l => [pat 2 l, pat 1 l]
def nats : List Nat := [0, 1, 2, 3, 4, 5, 10, 12, 16, 17, 32, 255, 256, 65535, 65536, 4294967294, 4294967295, 4294967296]
def ints : List Int := [0, 1, 2, 3, 4, 5, 8, 12, 16, 17, 32, 64, -1, 2147483647, 9223372036854775807]
def bools : List Bool := [false, true]
def u8s : List UInt8 := [0, 1, 127, 128, 255]
/-- a toy 16-byte block function (not an involution, depends on every input byte) -/
def toyBlock (x : Bytes) : Bytes :=
  let s := x.foldl (fun a b => (a * 31 + b.toNat + 7) % 251) 5
  (List.range 16).map fun i => UInt8.ofNat ((x.getD i 0).toNat * 3 + s + i * 11)
def toyKeyed (k x : Bytes) : Bytes := toyBlock (k ++ x)
/-- a toy length-preserving keyed stream -/
def toyStream (k x : Bytes) : Bytes :=
  let s := k.foldl (fun a b => (a * 17 + b.toNat + 1) % 253) 9
  (List.range x.length).map fun i => (x.getD i 0) ^^^ UInt8.ofNat (s + i * 5)
def toyRand (n : Int) : Bytes := (List.range n.toNat).map fun i => UInt8.ofNat (i * 13 + 1)
/-- the two printed values around their first difference -/
def diffShow (a b : String) : String :=
  if a.length ≤ 160 ∧ b.length ≤ 160 then s!"old={a} new={b}"
  else
    let la := a.toList
    let lb := b.toList
    let rec go (i : Nat) (x y : List Char) : Nat :=
      match x, y with
      | c :: xs, d :: ys => if c = d then go (i + 1) xs ys else i
      | _, _ => i
    let i := go 0 la lb
    let lo := i - 30
    s!"old(len {a.length})=…{String.mk ((la.drop lo).take 90)}… new(len {b.length})=…{String.mk ((lb.drop lo).take 90)}… (first difference at character {i} of the printed values)"
def showB (b : Bytes) : String := if b.length ≤ 40 then toString (repr b) else s!"#{b.length}-bytes{repr (b.take 8)}…"
'''

def toy_for(name, ty):
    """Lean term for an abstract parameter of the given type (None: unknown)"""
    t = ty.replace("(", "").replace(")", "")
    table = {
        "Bytes → Bytes": "toyBlock",
        "Bytes → Bytes → Bytes": "toyStream" if name in ("ctr",) else "toyKeyed",
        "Int → Bytes": "toyRand",
        "Bytes → Option Bytes": "(fun x => some (toyBlock x))",
        "Bytes → Bytes → Option Bytes": "(fun x y => some (toyKeyed x y ++ y))",
        "Bytes → Bytes → Bytes → Option Bytes": "(fun x y z => some (toyBlock (x ++ y ++ z)))",
        "Bytes → Option Unit": "(fun x => if (toyBlock x).getD 0 0 % 2 = 0 then some () else none)",
        "Bytes → Bytes → Option Unit": "(fun t x => if (toyBlock x).take t.length = t then some () else none)",
        "Bytes → Bytes → Bytes → Bytes → Option Unit": "(fun t x y z => if (toyBlock (x ++ y ++ z)).take t.length = t then some () else none)",
        "Bytes → Bytes → Bytes → Bytes → Bytes": "(fun a b c d => toyBlock (a ++ b ++ c ++ d) ++ toyBlock (d ++ a))",
        "Bytes → Bytes → Bytes → Bytes → Int → Option Bytes": "(fun a b c d n => if n < 0 ∨ n > 255 then none else some ((toyRand n).zipWith (· ^^^ ·) ((toyBlock (a ++ b ++ c ++ d) ++ toyRand n).take n.toNat)))",
        "Bytes → Bytes × Nat": "(fun x => (toyBlock x, 0))",
        "Bytes → Bytes → Bytes × Nat": "(fun x y => (x ++ toyKeyed y x, 0))",
        "Bytes → Bytes → Bytes → Bytes × Nat": "(fun _ x y => (x ++ toyKeyed y x, 0))",
        "Bytes → Int → Option Bytes": "(fun x n => some ((toyBlock x ++ toyRand n).take n.toNat))",
    }
    if t in table:
        return table[t]
    m = re.fullmatch(r"(S_\w+) → Int → Bytes × Nat × \1", t)
    if m:
        return "(fun (s : Bytes) (n : Int) => (s.take n.toNat, if n.toNat ≤ s.length then 0 else if s = [] then 2 else 3, s.drop n.toNat))"
    m = re.fullmatch(r"(S_\w+) → Bytes → Int × Nat × \1", t)
    if m:
        return "(fun (s : Bytes) (x : Bytes) => ((x.length : Int), 0, s ++ x))"
    m = re.fullmatch(r"(S_\w+) → Nat × \1", t)
    if m:
        return "(fun (s : Bytes) => (Bytes.toNatBE (s.take 4) % 7, s.drop 4 ++ [1]))"
    m = re.fullmatch(r"Bytes → Option (S_\w+)", t)
    if m:
        return "(fun (k : Bytes) => some k)"
    m = re.fullmatch(r"(S_\w+) → Bytes → \1", t)
    if m:
        return "(fun (s x : Bytes) => s ++ x ++ [7])"
    m = re.fullmatch(r"(S_\w+) → Bytes", t)
    if m:
        return "(fun (s : Bytes) => toyBlock s)"
    return None

def grid_for(ty, first_bytes, structs, ns):
    """(Lean list expression, show function) for a value parameter"""
    if ty == "Bytes":
        return ("bytesBig" if first_bytes else "bytesSmall", "showB")
    if ty == "Nat":
        return ("nats", "toString")
    if ty == "Int":
        return ("ints", "toString")
    if ty == "Bool":
        return ("bools", "toString")
    if ty == "UInt8":
        return ("u8s", "toString")
    if ty == "List Nat":
        return ("[[], [0], [1, 2, 4294967295], [5, 5]]", "toString")
    if re.fullmatch(r"S_\w+", ty):
        return ("bytesSmall", "showB")
    return None

def main():
    args = sys.argv[1:]
    name = args[0]
    lean = "/verif/lean"
    maxs = 60
    if "--lean" in args:
        lean = args[args.index("--lean") + 1]
    if "--max-seconds" in args:
        maxs = int(args[args.index("--max-seconds") + 1])
    new = os.path.join(lean, "TinkVerif", "Gen", name + ".lean")
    old = os.path.join(lean, "TinkVerif", "GenGood", name + ".lean")
    if not (os.path.exists(new) and os.path.exists(old)):
        print("GLUE-DIFF-SKIP: %s: no last-good copy" % name)
        return
    fo = {(s, n): (b, r) for s, n, b, r in functions(old)}
    fn = {(s, n): (b, r) for s, n, b, r in functions(new)}
    so, sn = structures(old), structures(new)
    tests, skipped = [], []
    changed = changed_functions(old, new)
    for key in sorted(fo):
        if key not in changed:
            continue  # textually the same definitions (and callees): nothing to search
        if key not in fn:
            skipped.append("%s.%s: not in the new file" % key)
            continue
        if fo[key] != fn[key]:
            skipped.append("%s.%s: signature changed" % key)
            continue
        binders, res = fo[key]
        if "Step" in res:
            continue
        argsO, argsN, loops, shows = [], [], [], []
        ok = True
        seen_bytes = False
        for bn, ty in binders:
            if ty == "Type":
                argsO.append("Bytes"); argsN.append("Bytes"); continue
            if bn == "fuel":
                argsO.append("200000"); argsN.append("200000"); continue
            if "→" in ty:
                tterm = toy_for(bn, ty)
                if tterm is None:
                    ok = False; skipped.append("%s.%s: no toy instance for %s : %s" % (key[0], key[1], bn, ty)); break
                argsO.append(tterm); argsN.append(tterm); continue
            if ty in so and ty in sn and so[ty] == sn[ty]:
                # a record: build it from a small grid of field values in both namespaces
                fields = so[ty]
                gens = []
                for fname, fty in fields:
                    if fty.startswith("List ") and fty[5:] in so:
                        inner = so[fty[5:]]
                        gens.append((fname, fty, "REC", inner))
                    else:
                        g = grid_for(fty, False, so, None)
                        if g is None:
                            ok = False
                        gens.append((fname, fty, g, None))
                if not ok:
                    skipped.append("%s.%s: record %s has a field the grid cannot make" % (key[0], key[1], ty)); break
                var = "r_" + bn
                loops.append((var, ty, gens))
                argsO.append("(%s_o)" % var); argsN.append("(%s_n)" % var); shows.append(("REC", var))
                continue
            g = grid_for(ty, not seen_bytes, so, None)
            if g is None:
                ok = False; skipped.append("%s.%s: no grid for %s : %s" % (key[0], key[1], bn, ty)); break
            if ty == "Bytes":
                seen_bytes = True
            var = "x_" + re.sub(r"\W", "_", bn)
            loops.append((var, ty, g))
            argsO.append(var); argsN.append(var); shows.append((g[1], var))
        if ok:
            tests.append((key, argsO, argsN, loops, shows, res))
    body = []
    recdefs = []
    for ti, (key, argsO, argsN, loops, shows, res) in enumerate(tests):
        sub, fname = key
        oq = "TinkVerif.GenGood.%s.%s.%s" % (name, sub, fname)
        nq = "TinkVerif.Gen.%s.%s.%s" % (name, sub, fname)
        lines = ["def test%d : IO Unit := do" % ti, "  let mut found := false"]
        ind = "  "
        for var, ty, g in loops:
            if isinstance(g, list):  # record
                # enumerate a fixed list of field assignments: lists of inner records of lengths 0,1,2,3,17,65
                recname = "recs%d_%s" % (ti, var)
                recdefs.append(record_grid(recname, ty, g, name))
                lines.append(ind + "for %s in %s do" % (var, recname))
                ind += "  "
                lines.append(ind + "let %s_o := %s.1" % (var, var))
                lines.append(ind + "let %s_n := %s.2.1" % (var, var))
            else:
                lines.append(ind + "for %s in %s do" % (var, g[0]))
                ind += "  "
        lines.append(ind + "if !found then")
        lines.append(ind + "  let o := %s %s" % (oq, " ".join(argsO)))
        lines.append(ind + "  let n := %s %s" % (nq, " ".join(argsN)))
        shown = " ++ \" \" ++ ".join(("%s.2.2" % v if sh == "REC" else "%s %s" % (sh, v)) for sh, v in shows) or '""'
        lines.append(ind + "  if !(o == n) then")
        lines.append(ind + "    found := true")
        lines.append(ind + "    IO.println (\"GLUE-DIFF: %s.%s \" ++ %s ++ \" \" ++ diffShow (reprStr o) (reprStr n))" % (sub, fname, shown))
        lines.append(ind + "    (← IO.getStdout).flush")
        body.append("\n".join(lines))
    prog = "import TinkVerif.Gen.%s\nimport TinkVerif.GenGood.%s\n" % (name, name) + PRELUDE + "\n".join(recdefs) + "\n\n" + "\n\n".join(body)
    prog += "\n\nend GlueDiffRun\n\ndef main : IO Unit := do\n" + "".join("  GlueDiffRun.test%d\n" % i for i in range(len(tests))) + "  IO.println \"GLUE-DIFF-DONE\"\n"
    for s in skipped:
        print("GLUE-DIFF-SKIP:", s)
    if not tests:
        return
    run = os.path.join(lean, ".lake", "gluediff_%s.lean" % name)
    open(run, "w").write(prog)
    r = subprocess.run(["lake", "build", "TinkVerif.Gen." + name, "TinkVerif.GenGood." + name], cwd=lean, stdout=subprocess.PIPE, stderr=subprocess.STDOUT, text=True)
    if r.returncode:
        print("GLUE-DIFF-SKIP: %s: the generated files do not build: %s" % (name, r.stdout[-300:].replace("\n", " ")))
        return
    # own process group: on a timeout `lake env` would die alone and leave its `lean --run` child spinning for hours
    import signal
    pr = subprocess.Popen(["lake", "env", "lean", "--run", run], cwd=lean, stdout=subprocess.PIPE, stderr=subprocess.STDOUT, text=True,
                          start_new_session=True)
    try:
        out, _ = pr.communicate(timeout=maxs)
    except subprocess.TimeoutExpired:
        try:
            os.killpg(pr.pid, signal.SIGKILL)
        except OSError:
            pass
        out, _ = pr.communicate()
        out = (out or "") + "\nGLUE-DIFF-SKIP: %s: search stopped after %d s" % (name, maxs)
    for l in out.split("\n"):
        if l.startswith("GLUE-DIFF"):
            print(l[:900])
        elif "error" in l:
            print("GLUE-DIFF-SKIP: %s: %s" % (name, l[:300]))

def record_grid(defname, ty, gens, glue):
    """Lean def: list of (old-namespace record, new-namespace record, description)"""
    # field value choices
    def scalar_choices(fty):
        return {"Bool": ["false", "true"], "Nat": ["0", "1", "7", "4294967295"], "Int": ["0", "1", "2", "3", "5", "-1"]}.get(fty, ["default"])
    inner_list_field = [g for g in gens if g[2] == "REC"]
    items = []
    # deterministic pseudo-random assignments
    def pick(choices, seed):
        h = int(hashlib.sha256(seed.encode()).hexdigest(), 16)
        return choices[h % len(choices)]
    for variant in range(40):
        vals_o, vals_n = [], []
        for fname, fty, g, inner in gens:
            if g == "REC":
                n = [0, 1, 2, 3, 5, 17, 65, 66][variant % 8]
                elems_o, elems_n = [], []
                for e in range(n):
                    fv = [pick(scalar_choices(ft), "%d/%d/%s" % (variant, e, fn_)) for fn_, ft in inner]
                    # make key ids mostly distinct
                    fv = [(str(e + 1) if fn_ == "KeyId" and variant % 3 else v) for (fn_, ft), v in zip(inner, fv)]
                    lit = "⟨" + ", ".join(fv) + "⟩"
                    elems_o.append("(%s : TinkVerif.GenGood.%s.%s)" % (lit, glue, fty[5:]))
                    elems_n.append("(%s : TinkVerif.Gen.%s.%s)" % (lit, glue, fty[5:]))
                vals_o.append("[" + ", ".join(elems_o) + "]")
                vals_n.append("[" + ", ".join(elems_n) + "]")
            else:
                v = pick(scalar_choices(fty), "%d/%s" % (variant, fname))
                vals_o.append(v); vals_n.append(v)
        items.append("((⟨%s⟩ : TinkVerif.GenGood.%s.%s), (⟨%s⟩ : TinkVerif.Gen.%s.%s), \"%s#%d\")" % (", ".join(vals_o), glue, ty, ", ".join(vals_n), glue, ty, ty, variant))
    return "def %s := [\n  %s]\n" % (defname, ",\n  ".join(items))

if __name__ == "__main__":
    main()
