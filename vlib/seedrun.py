#!/usr/bin/env python3
"""Run a property check against a seeded change without touching /repo or the live /verif build:

  vlib/seedrun.py <patch.diff> <property> [<property> ...] [--tier quick] [--keep]

Creates a scratch worktree of /repo under /tmp/mutwt-<pid>, applies the patch, mirrors /verif (without
.build) to /tmp/vmut-<pid>, runs `VERIF_REPO=<worktree> <mirror>/check <property>` and prints the
verdict lines. Everything is removed afterwards."""
import os, subprocess, sys, shutil

def main():
    args = [a for a in sys.argv[1:] if not a.startswith("--")]
    tier = "quick"
    if "--tier" in sys.argv:
        tier = sys.argv[sys.argv.index("--tier") + 1]
        args.remove(tier)
    patch, props = os.path.abspath(args[0]), args[1:]
    pid = os.getpid()
    wt, vm = "/tmp/mutwt-%d" % pid, "/tmp/vmut-%d" % pid
    rc = 1
    try:
        subprocess.run(["git", "-C", "/repo", "worktree", "add", "-q", "--detach", wt, "HEAD"], check=True)
        # carry over uncommitted state of /repo? no: seeded patches are against the committed tree
        r = subprocess.run(["git", "-C", wt, "apply", patch], stdout=subprocess.PIPE, stderr=subprocess.STDOUT, text=True)
        if r.returncode != 0:
            print("PATCH-DOES-NOT-APPLY:", r.stdout[-500:])
            return 2
        subprocess.run(["rsync", "-a", "--exclude", ".build", "--exclude", ".git", "/verif/", vm + "/"], check=True)
        env = dict(os.environ, VERIF_REPO=wt)
        rc = 0
        for p in props:
            r = subprocess.run([vm + "/check", p, "--tier", tier], env=env, stdout=subprocess.PIPE, stderr=subprocess.STDOUT, text=True)
            lines = [l for l in r.stdout.split("\n") if l.startswith(("VIOLATION", "OK ", "KNOWN-FINDING", "# "))]
            print("== %s rc=%d" % (p, r.returncode))
            print("\n".join(l[:400] for l in lines[:12]))
            # show the first replay file's head for the record
            for l in lines:
                if l.startswith("VIOLATION"):
                    rp = l.split("replay=")[1].split()[0]
                    try:
                        print("   replay head:", open(rp).read()[:600].replace("\n", "\n     "))
                    except OSError:
                        pass
                    break
            rc = max(rc, r.returncode)
    finally:
        subprocess.run(["git", "-C", "/repo", "worktree", "remove", "--force", wt], stdout=subprocess.DEVNULL, stderr=subprocess.DEVNULL)
        shutil.rmtree(wt, ignore_errors=True)
        if "--keep" not in sys.argv:
            shutil.rmtree(vm, ignore_errors=True)
    return rc

if __name__ == "__main__":
    sys.exit(main())
