//go:build verif

package main

import (
	"bytes"
	"errors"
	"io"

	"github.com/tink-crypto/tink-go/v2/internal/verifharness/hlib"
	"github.com/tink-crypto/tink-go/v2/tink"
)

var errIO = errors.New("verif: injected I/O error")

func fork(r *hlib.Rng, tag string) *hlib.Rng { return hlib.NewRng(r.U64(), tag) }

// sink records what is written and fails persistently from call index failFrom on (-1: never).
type sink struct {
	buf      bytes.Buffer
	calls    int
	failFrom int
	failed   bool
}

func (s *sink) Write(p []byte) (int, error) {
	c := s.calls
	s.calls++
	if s.failFrom >= 0 && c >= s.failFrom {
		s.failed = true
		return 0, errIO
	}
	s.buf.Write(p)
	return len(p), nil
}

// source is a non-seekable reader with a chosen chunking behaviour. With failAt >= 0 only
// data[:failAt] is delivered and then errIO is returned persistently; otherwise io.EOF.
type source struct {
	data     []byte
	pos      int
	mode     int // 0: 1 byte; 1: as asked; 2: random short incl. (0,nil); 3: segment sized; 4: segment±1
	rng      *hlib.Rng
	failAt   int
	seg      int
	withData bool // hand out the final bytes together with the end condition (n>0, err)
	zeros    int
}

func newSource(data []byte, rng *hlib.Rng, seg int) *source {
	return &source{data: data, mode: rng.Intn(5), rng: rng, failAt: -1, seg: seg, withData: rng.Chance(40)}
}

func (s *source) Read(p []byte) (int, error) {
	if len(p) == 0 {
		return 0, nil
	}
	limit := len(s.data)
	end := io.EOF
	if s.failAt >= 0 {
		end = errIO
		if s.failAt < limit {
			limit = s.failAt
		}
	}
	rem := limit - s.pos
	if rem <= 0 {
		return 0, end
	}
	n := len(p)
	switch s.mode {
	case 0:
		n = 1
	case 1:
	case 2:
		n = s.rng.Intn(len(p) + 1)
		if n == 0 {
			s.zeros++
			if s.zeros > 3 {
				n = 1
			}
		}
	case 3:
		n = s.seg
	case 4:
		n = s.seg + s.rng.Intn(3) - 1
	}
	if n > len(p) {
		n = len(p)
	}
	if n > rem {
		n = rem
	}
	if n < 0 {
		n = 0
	}
	copy(p, s.data[s.pos:s.pos+n])
	s.pos += n
	if s.pos == limit && n > 0 && s.withData {
		return n, end
	}
	return n, nil
}

// encryptTo writes pt through prim's encrypting writer into w with a generated partition of Write
// calls (incl. empty ones). The returned error is the first error of NewEncryptingWriter/Write/Close.
func encryptTo(o *hlib.Out, prim tink.StreamingAEAD, w io.Writer, ad, pt []byte, rng *hlib.Rng, first, ptSeg int) error {
	wr, err := prim.NewEncryptingWriter(w, ad)
	if err != nil {
		return err
	}
	style := rng.Intn(5)
	if style == 1 && len(pt) > 700 {
		style = 2
	}
	o.Count("write-style/" + []string{"single", "bytewise", "random", "aligned", "seg±1"}[style])
	rest := pt
	nw := 0
	for len(rest) > 0 || rng.Chance(15) {
		k := 0
		if len(rest) > 0 {
			switch style {
			case 0:
				k = len(rest)
			case 1:
				k = 1
			case 2:
				switch rng.Intn(5) {
				case 0:
					k = 0
				case 1:
					k = 1
				case 2:
					k = len(rest)
				default:
					k = rng.Intn(len(rest) + 1)
				}
			case 3:
				k = ptSeg
				if nw == 0 {
					k = first
				}
			case 4:
				k = ptSeg + rng.Intn(3) - 1
			}
			if k > len(rest) {
				k = len(rest)
			}
			if k < 0 {
				k = 0
			}
		}
		if k == 0 {
			o.Count("write/empty")
		}
		var chunk []byte
		if k > 0 || rng.Bool() {
			chunk = rest[:k]
		}
		n, err := wr.Write(chunk)
		nw++
		if err != nil {
			return err
		}
		if n != k {
			return errors.New("short write without error")
		}
		rest = rest[k:]
	}
	if err := wr.Close(); err != nil {
		return err
	}
	if rng.Chance(25) {
		if err := wr.Close(); err != nil {
			o.Violate("second Close returned %v", err)
		}
		if n, err := wr.Write([]byte{1}); err == nil || n != 0 {
			o.Violate("Write after Close succeeded (n=%d)", n)
		}
	}
	return nil
}

// drain reads r to its end with generated buffer sizes. It returns the bytes released before the
// first error and that error (io.EOF = clean end).
func drain(o *hlib.Out, r io.Reader, rng *hlib.Rng, ptSeg, total int) ([]byte, error) {
	style := rng.Intn(5)
	if style == 0 && total > 700 {
		style = 1
	}
	o.Count("read-style/" + []string{"1-byte", "mixed", "large", "segment", "small"}[style])
	var got []byte
	for it := 0; ; it++ {
		if it > 3*total+200 {
			o.Violate("reader makes no progress (%d reads, %d bytes)", it, len(got))
			return got, errors.New("no progress")
		}
		capn := 1
		switch style {
		case 1:
			switch rng.Intn(7) {
			case 0:
				capn = 0
			case 1:
				capn = 1
			case 2:
				capn = ptSeg
			case 3:
				capn = ptSeg + 1
			case 4:
				capn = 2*ptSeg + 3
			default:
				capn = 1 + rng.Intn(2*ptSeg)
			}
		case 2:
			capn = ptSeg + 17 + rng.Intn(3*ptSeg)
		case 3:
			capn = ptSeg
		case 4:
			capn = 1 + rng.Intn(7)
		}
		if capn == 0 {
			o.Count("read/zero-cap")
		}
		buf := make([]byte, capn)
		n, err := r.Read(buf)
		if n < 0 || n > capn {
			o.Violate("Read returned n=%d for a buffer of %d", n, capn)
			return got, errors.New("bad n")
		}
		got = append(got, buf[:n]...)
		if err != nil {
			if err == io.EOF {
				if n != 0 {
					o.Count("read/data+eof")
				}
				for k := 0; k < 2; k++ {
					n2, err2 := r.Read(make([]byte, 1+rng.Intn(8)))
					if n2 != 0 || err2 != io.EOF {
						o.Violate("Read after a clean EOF returned (%d, %v)", n2, err2)
					}
				}
			} else {
				// what follows an error is outside the property; recorded as a distribution only
				n2, err2 := r.Read(make([]byte, 8))
				switch {
				case err2 == io.EOF && n2 == 0:
					o.Count("post-error/eof")
				case err2 != nil:
					o.Count("post-error/error")
				default:
					o.Count("post-error/data")
				}
			}
			return got, err
		}
	}
}

func verdict(got []byte, err error) string {
	if err == io.EOF {
		return "ok " + hlib.Tok(got)
	}
	return "reject"
}
