//go:build verif

package main

// An independent Go implementation of the two documented Tink streaming wire formats, used as the oracle
// for streams that are too large for the Lean driver in the quick tier (tens of MiB). It is written from
// the format description (the comment at the head of lean/TinkVerif/Model/StreamKeys.lean), uses only the
// standard library (crypto/aes, crypto/cipher, crypto/hmac, the hash packages; HKDF is written out from
// RFC 5869) and none of tink-go's streamingaead / subtle / noncebased code. It processes whole streams by
// the format (split the body into |first|, seg, seg, …), it has no writer/reader state machine.
//
//	ciphertext  = header ‖ segment_0 ‖ … ‖ segment_k
//	header      = (1 + keySize + 7) as one byte ‖ salt (keySize bytes) ‖ noncePrefix (7 bytes)
//	key material = HKDF(hkdfHash, ikm = main key, salt, info = associated data)
//	nonce_i     = noncePrefix ‖ be32(i) ‖ (1 if segment i is the last one, else 0)
//	|segment_0| = segSize − firstSegmentOffset − headerLen, |segment_i| = segSize (the last one: ≤ that, ≥ tag)
//	AES-GCM-HKDF: key = HKDF[:keySize]; segment = AES-GCM(key, nonce_i (12 bytes), pt_i, ad = "")
//	AES-CTR-HMAC: HKDF output = AES key (keySize) ‖ HMAC key (32 bytes); nonce 16 bytes = the 12 above ‖ 00000000,
//	              used as the initial big-endian counter block; segment = c ‖ HMAC(tagHash, hmacKey, nonce16 ‖ c)[:tagSize]
//
// The reference itself is tied to the Lean model by `!T enc` / `!T dec` lines on small and medium streams
// (refTieSection) and, in the thorough tier, by `!T encsha` lines on > 16 MiB streams.

import (
	"crypto/aes"
	"crypto/cipher"
	"crypto/hmac"
	"crypto/sha1"
	"crypto/sha256"
	"crypto/sha512"
	"encoding/binary"
	"errors"
	"fmt"
	"hash"
)

type refFmt struct {
	typ     string // gcm | ctr
	ks      int
	hkdf    string
	tagAlg  string
	tagSize int
	seg     int
	off     int
	ikm     []byte
}

func refOf(c *cfg) *refFmt {
	return &refFmt{typ: c.typ, ks: c.ks, hkdf: c.hkdf, tagAlg: c.tagAlg, tagSize: c.tagSize, seg: c.seg, off: c.off, ikm: c.ikm}
}

func refHash(name string) func() hash.Hash {
	switch name {
	case "SHA1":
		return sha1.New
	case "SHA224":
		return sha256.New224
	case "SHA256":
		return sha256.New
	case "SHA384":
		return sha512.New384
	case "SHA512":
		return sha512.New
	}
	return nil
}

// refHKDF is RFC 5869 (extract, then expand).
func refHKDF(h func() hash.Hash, ikm, salt, info []byte, n int) []byte {
	ext := hmac.New(h, salt)
	ext.Write(ikm)
	prk := ext.Sum(nil)
	var t, out []byte
	for i := 1; len(out) < n; i++ {
		m := hmac.New(h, prk)
		m.Write(t)
		m.Write(info)
		m.Write([]byte{byte(i)})
		t = m.Sum(nil)
		out = append(out, t...)
	}
	return out[:n]
}

func (f *refFmt) hdrLen() int { return 1 + f.ks + 7 }

func (f *refFmt) valid() error {
	if f.ks != 16 && f.ks != 32 {
		return errors.New("ref: key size")
	}
	if len(f.ikm) < 16 || len(f.ikm) < f.ks {
		return errors.New("ref: main key too short")
	}
	if refHash(f.hkdf) == nil {
		return errors.New("ref: hkdf hash")
	}
	if f.typ == "ctr" {
		h := refHash(f.tagAlg)
		if h == nil || f.tagSize < 10 || f.tagSize > h().Size() {
			return errors.New("ref: tag")
		}
	} else if f.tagSize != 16 {
		return errors.New("ref: gcm tag size")
	}
	if f.off < 0 || f.seg <= f.off+f.hdrLen()+f.tagSize {
		return errors.New("ref: segment size too small")
	}
	return nil
}

// refSeg seals/opens one segment under the session key.
type refSeg struct {
	f      *refFmt
	gcm    cipher.AEAD
	blk    cipher.Block
	macKey []byte
}

func (f *refFmt) session(salt, ad []byte) (*refSeg, error) {
	if f.typ == "gcm" {
		key := refHKDF(refHash(f.hkdf), f.ikm, salt, ad, f.ks)
		b, err := aes.NewCipher(key)
		if err != nil {
			return nil, err
		}
		g, err := cipher.NewGCM(b)
		if err != nil {
			return nil, err
		}
		return &refSeg{f: f, gcm: g}, nil
	}
	km := refHKDF(refHash(f.hkdf), f.ikm, salt, ad, f.ks+32)
	b, err := aes.NewCipher(km[:f.ks])
	if err != nil {
		return nil, err
	}
	return &refSeg{f: f, blk: b, macKey: km[f.ks:]}, nil
}

func (s *refSeg) nonce(pre []byte, i int, last bool) []byte {
	n := make([]byte, 12, 16)
	copy(n, pre)
	binary.BigEndian.PutUint32(n[7:], uint32(i))
	if last {
		n[11] = 1
	}
	if s.f.typ == "ctr" {
		n = n[:16]
	}
	return n
}

func (s *refSeg) tag(nonce, c []byte) []byte {
	m := hmac.New(refHash(s.f.tagAlg), s.macKey)
	m.Write(nonce)
	m.Write(c)
	return m.Sum(nil)[:s.f.tagSize]
}

// seal appends the ciphertext segment of pt to dst.
func (s *refSeg) seal(dst, nonce, pt []byte) []byte {
	if s.gcm != nil {
		return s.gcm.Seal(dst, nonce, pt, nil)
	}
	n := len(dst)
	dst = append(dst, pt...)
	cipher.NewCTR(s.blk, nonce).XORKeyStream(dst[n:], dst[n:])
	return append(dst, s.tag(nonce, dst[n:])...)
}

// open appends the plaintext of segment ct to dst.
func (s *refSeg) open(dst, nonce, ct []byte) ([]byte, error) {
	if len(ct) < s.f.tagSize {
		return dst, errors.New("ref: segment shorter than a tag")
	}
	if s.gcm != nil {
		return s.gcm.Open(dst, nonce, ct, nil)
	}
	c, t := ct[:len(ct)-s.f.tagSize], ct[len(ct)-s.f.tagSize:]
	if !hmac.Equal(s.tag(nonce, c), t) {
		return dst, errors.New("ref: tag mismatch")
	}
	n := len(dst)
	dst = append(dst, c...)
	cipher.NewCTR(s.blk, nonce).XORKeyStream(dst[n:], dst[n:])
	return dst, nil
}

func (f *refFmt) ctLen(n int) int {
	first, pseg := f.seg-f.off-f.hdrLen()-f.tagSize, f.seg-f.tagSize
	segs := 1
	if n > first {
		segs = 1 + (n-first+pseg-1)/pseg
	}
	return f.hdrLen() + n + segs*f.tagSize
}

// encrypt: the stream the format prescribes for (ad, pt) with the two random header fields given.
// dst (may be nil) is reused for the ciphertext if it is large enough.
func (f *refFmt) encrypt(dst, ad, salt, pre, pt []byte) ([]byte, error) {
	if err := f.valid(); err != nil {
		return nil, err
	}
	if len(salt) != f.ks || len(pre) != 7 {
		return nil, errors.New("ref: salt/prefix length")
	}
	s, err := f.session(salt, ad)
	if err != nil {
		return nil, err
	}
	out := dst[:0]
	if cap(out) < f.ctLen(len(pt)) {
		out = make([]byte, 0, f.ctLen(len(pt)))
	}
	out = append(out, byte(f.hdrLen()))
	out = append(out, salt...)
	out = append(out, pre...)
	room := f.seg - f.off - f.hdrLen() - f.tagSize // plaintext bytes of segment 0
	rest := pt
	for i := 0; ; i++ {
		if i >= 1<<32-1 {
			return nil, errors.New("ref: too many segments")
		}
		last := len(rest) <= room
		k := room
		if last {
			k = len(rest)
		}
		out = s.seal(out, s.nonce(pre, i, last), rest[:k])
		rest = rest[k:]
		if last {
			return out, nil
		}
		room = f.seg - f.tagSize
	}
}

// decrypt: whole-stream decoding by the format. dst (may be nil) is reused for the plaintext.
func (f *refFmt) decrypt(dst, ad, ct []byte) ([]byte, error) {
	if err := f.valid(); err != nil {
		return nil, err
	}
	h := f.hdrLen()
	if len(ct) < h || int(ct[0]) != h {
		return nil, errors.New("ref: header")
	}
	salt, pre, body := ct[1:1+f.ks], ct[1+f.ks:h], ct[h:]
	s, err := f.session(salt, ad)
	if err != nil {
		return nil, err
	}
	out := dst[:0]
	if cap(out) < len(ct) {
		out = make([]byte, 0, len(ct))
	}
	size := f.seg - f.off - h // ciphertext bytes of segment 0
	for i := 0; ; i++ {
		if i >= 1<<32-1 {
			return nil, errors.New("ref: too many segments")
		}
		last := len(body) <= size
		k := size
		if last {
			k = len(body)
		}
		out, err = s.open(out, s.nonce(pre, i, last), body[:k])
		if err != nil {
			return nil, fmt.Errorf("segment %d (last=%v, %d bytes): %w", i, last, k, err)
		}
		body = body[k:]
		if last {
			return out, nil
		}
		size = f.seg
	}
}
