//go:build verif

package main

// Keyset-level streams with LARGE segments: the key-matching reader of the keyset factory tries every
// key on a replayable view of the source; a trial with a non-matching key whose header length equals the
// ciphertext's consumes header + one whole ciphertext segment (+1 byte) OF ITS OWN SEGMENT SIZE before
// it fails, and all of that has to be replayed for the next key. With the 4 KiB-and-smaller segments of
// keysetCase a trial never consumes more than a few KiB; here the keysets mix segment sizes 4 KiB,
// 64 KiB + 1, 1 MiB (the parameters of the *1MB templates) and 2 MiB, with equal and different header
// lengths, the right key at every position, and ciphertexts from 60 KiB to 2.5 MiB.
//
// The multi-MiB streams are NOT sent to the Lean driver (the reference AES costs 1–2 µs per byte). The
// oracle is on the Go side: the keyset's ciphertext must decode to the plaintext (a) under the right key's
// own single-key primitive and (b) through the keyset for every kind of source; one case of at most
// 128 KiB per configuration additionally goes to `T dec` (format-level decoder of the model).

import (
	"bytes"
	"errors"
	"fmt"
	"io"
	"strings"

	"github.com/tink-crypto/tink-go/v2/internal/verifharness/hlib"
	"github.com/tink-crypto/tink-go/v2/tink"
)

const (
	kib = 1 << 10
	mib = 1 << 20
)

// bigKey is one key of a big-segment keyset.
type bigKey struct {
	typ string // gcm | ctr
	ks  int    // 16 | 32: header length 24 | 40 for both key types
	seg int
}

func (k bigKey) String() string { return fmt.Sprintf("%s%d/seg=%d", k.typ, 8*k.ks, k.seg) }

// bigKeysets: every keyset has, for some position of the right key, an EARLIER key with the same header
// length and a larger segment size (the trial that consumes a lot), and keys with the other header length
// (refused on the first byte).
var bigKeysets = [][]bigKey{
	{{"gcm", 16, mib}, {"gcm", 16, 4 * kib}},                                                // AES128GCMHKDF1MB before AES128GCMHKDF4KB
	{{"gcm", 32, mib}, {"gcm", 32, mib}},                                                    // two AES256GCMHKDF1MB keys
	{{"gcm", 16, 64*kib + 1}, {"ctr", 16, 4 * kib}, {"gcm", 16, 2 * mib}, {"ctr", 16, mib}}, // one header length, both key types
	{{"ctr", 32, 2 * mib}, {"gcm", 32, 4 * kib}, {"ctr", 32, 64*kib + 1}},
	{{"gcm", 16, 2 * mib}, {"gcm", 32, 2 * mib}, {"ctr", 16, 64*kib + 1}, {"ctr", 32, 4 * kib}}, // both header lengths
	{{"ctr", 16, mib}, {"gcm", 32, 64*kib + 1}, {"gcm", 16, 4 * kib}},
	{{"gcm", 32, 2 * mib}, {"ctr", 32, mib}, {"gcm", 32, 4 * kib}, {"gcm", 32, 64*kib + 1}},
	{{"ctr", 16, 2 * mib}, {"ctr", 16, 2 * mib}},
}

// bigCtSizes: the ciphertext lengths aimed at (the plaintext length is chosen so that the ciphertext of the
// right key has this length, or the nearest smaller one the format can produce).
var bigCtSizes = []int{60 * kib, 64*kib - 32, 64 * kib, 64*kib + 32, 100 * kib, mib - 64, mib, mib + 64, mib + 65, mib + 64*kib, 2*mib + 512*kib}

func sizeName(n int) string {
	switch {
	case n == 60*kib:
		return "60KiB"
	case n < 64*kib:
		return "64KiB-32"
	case n == 64*kib:
		return "64KiB"
	case n == 64*kib+32:
		return "64KiB+32"
	case n == 100*kib:
		return "100KiB"
	case n < mib:
		return "1MiB-64"
	case n == mib:
		return "1MiB"
	case n == mib+64:
		return "1MiB+64"
	case n == mib+65:
		return "1MiB+65"
	case n == mib+64*kib:
		return "1MiB+64KiB"
	}
	return "2.5MiB"
}

func (k bigKey) cfg(rng *hlib.Rng) *cfg {
	c := &cfg{typ: k.typ, ks: k.ks, hkdf: "SHA256", tagSize: 16, seg: k.seg, ikm: rng.Bytes(k.ks)}
	if k.typ == "ctr" {
		c.tagAlg, c.tagSize = "SHA256", 32 // as in the AES*CTRHMACSHA256Segment* templates
		c.ikm = rng.Bytes(32)
	}
	return c
}

// ptLenFor returns the largest plaintext length whose ciphertext under c has at most n bytes.
func ptLenFor(c *cfg, n int) int {
	ctLen := func(l int) int { return c.hdr() + l + c.nseg(l)*c.tagSize }
	l := n - c.hdr() - c.tagSize
	if l < 0 {
		return 0
	}
	for l > 0 && ctLen(l) > n {
		l -= ctLen(l) - n
	}
	if l < 0 {
		l = 0
	}
	return l
}

// bigSource is a non-seekable source for large streams.
//
//	mode 0: returns everything that is asked for at once
//	mode 1: at most 4 KiB per Read
//	mode 2: as mode 0, the last bytes come together with io.EOF (n>0, io.EOF)
//	mode 3: as mode 1, the last bytes come together with io.EOF
type bigSource struct {
	data  []byte
	pos   int
	mode  int
	reads int
}

var bigSrcNames = []string{"all-at-once", "4KiB-reads", "all-at-once+data-with-EOF", "4KiB-reads+data-with-EOF"}

func (s *bigSource) Read(p []byte) (int, error) {
	s.reads++
	if len(p) == 0 {
		return 0, nil
	}
	rem := len(s.data) - s.pos
	if rem == 0 {
		return 0, io.EOF
	}
	n := len(p)
	if s.mode&1 == 1 && n > 4*kib {
		n = 4 * kib
	}
	if n > rem {
		n = rem
	}
	copy(p, s.data[s.pos:s.pos+n])
	s.pos += n
	if s.pos == len(s.data) && s.mode >= 2 {
		return n, io.EOF
	}
	return n, nil
}

var bigBufSizes = []int{64 * kib, 4 * kib, mib + 17, 1000}

// bigDecrypt reads the whole stream with buffers of bufSize bytes. It returns the bytes released before
// the first error and that error (io.EOF = clean end).
func bigDecrypt(o *hlib.Out, prim tink.StreamingAEAD, ad, ct []byte, mode, bufSize int) (got []byte, err error) {
	src := &bigSource{data: ct, mode: mode}
	var r io.Reader
	if p := hlib.Recover(func() { r, err = prim.NewDecryptingReader(src, ad) }); p != "" {
		o.Violate("NewDecryptingReader panicked: %s", p)
		return nil, errors.New("panic")
	}
	if err != nil {
		if err == io.EOF {
			err = fmt.Errorf("constructor: %w", io.ErrUnexpectedEOF)
		}
		return nil, err
	}
	buf := make([]byte, bufSize)
	if p := hlib.Recover(func() {
		for it := 0; ; it++ {
			if it > 4*len(ct)/bufSize+1000 {
				err = errors.New("no progress")
				return
			}
			var n int
			n, err = r.Read(buf)
			if n < 0 || n > len(buf) {
				err = fmt.Errorf("Read returned n=%d for a buffer of %d", n, len(buf))
				return
			}
			got = append(got, buf[:n]...)
			if err != nil {
				if err == io.EOF {
					if n2, err2 := r.Read(buf[:8]); n2 != 0 || err2 != io.EOF {
						o.Violate("Read after a clean EOF returned (%d, %v)", n2, err2)
					}
				}
				return
			}
		}
	}); p != "" {
		o.Violate("Read panicked: %s", p)
		return got, errors.New("panic")
	}
	return got, err
}

var bigViolations int

func firstDiff(a, b []byte) int {
	n := min(len(a), len(b))
	for i := 0; i < n; i++ {
		if a[i] != b[i] {
			return i
		}
	}
	return n
}

// bigKeysetSection runs the configurations; not in the request-collecting phase (no requests to the model here).
func bigKeysetSection(o *hlib.Out, rng *hlib.Rng) {
	sets := append([][]bigKey(nil), bigKeysets...)
	if hlib.Thorough() {
		// generated compositions on top of the fixed ones
		segs := []int{4 * kib, 64*kib + 1, mib, 2 * mib}
		for i := 0; i < 16; i++ {
			n := 2 + rng.Intn(3)
			ks := make([]bigKey, n)
			for j := range ks {
				ks[j] = bigKey{[]string{"gcm", "ctr"}[rng.Intn(2)], []int{16, 32}[rng.Intn(2)], segs[rng.Intn(len(segs))]}
				if j > 0 && rng.Chance(60) {
					ks[j].ks = ks[0].ks
				}
			}
			sets = append(sets, ks)
		}
	}
	for si, set := range sets {
		bigKeyset(o, fork(rng, "set"), si, set)
	}
}

func bigKeyset(o *hlib.Out, rng *hlib.Rng, si int, set []bigKey) {
	cfgs := make([]*cfg, len(set))
	names := make([]string, len(set))
	for i, k := range set {
		cfgs[i] = k.cfg(rng)
		names[i] = k.String()
	}
	desc := "[" + strings.Join(names, ", ") + "]"
	o.Count(fmt.Sprintf("big/keysets/%d-keys", len(set)))
	sentToModel := false
	for pos := range set {
		right := cfgs[pos]
		es := make([]kentry, len(set))
		for i := range es {
			es[i] = kentry{c: cfgs[i], primary: i == pos}
		}
		sa := factory(o, es, (si+pos)%2)
		if sa == nil {
			continue
		}
		single, err := right.prim("key")
		if err != nil {
			o.Violate("valid parameters refused (%s): %v", right.params(), err)
			continue
		}
		// what the keys in front of the right key do to the stream
		ahead := "none"
		for i := 0; i < pos; i++ {
			if cfgs[i].hdr() == right.hdr() {
				switch {
				case cfgs[i].seg > right.seg:
					ahead = "same-header-larger-segment"
				case ahead == "none":
					ahead = "same-header"
				}
			} else if ahead == "none" {
				ahead = "other-header"
			}
		}
		for zi, target := range bigCtSizes {
			o.Case()
			L := ptLenFor(right, target)
			pt := rng.Bytes(L)
			ad := adFor(rng, zi)
			hdrLine := fmt.Sprintf("# big keyset %d %s right key at position %d (%s) ciphertext %s ad=%s", si, desc, pos, right.params(), sizeName(target), hlib.Tok(ad))
			o.Emit(hdrLine, hdrLine, false)
			ct := goEncrypt(o, right, sa, ad, pt, fork(rng, "enc"))
			if ct == nil {
				continue
			}
			o.Count("big/ct/" + sizeName(target))
			o.Count("big/right/" + set[pos].String())
			o.Count(fmt.Sprintf("big/right-at/pos%d-of-%d", pos, len(set)))
			o.Count("big/ahead/" + ahead)
			if int(ct[0]) != right.hdr() {
				o.Violate("big keyset %s: ciphertext does not start with the primary key's header length", desc)
			}
			// (a) the right key on its own
			got, err := bigDecrypt(o, single, ad, ct, 0, 64*kib)
			o.Count("big/single-key")
			if err != io.EOF || !bytes.Equal(got, pt) {
				o.Violate("big keyset %s, key at position %d as primary: the keyset's ciphertext (%d bytes) does not decode under that key alone: err=%v, %d of %d bytes", desc, pos, len(ct), err, len(got), len(pt))
				continue
			}
			// (b) through the keyset, every kind of source
			var vGot []byte
			var vErr error
			bad := false
			var fails []string
			for mode := 0; mode < 4; mode++ {
				bufSize := bigBufSizes[(mode+zi+pos)%len(bigBufSizes)]
				got, err := bigDecrypt(o, sa, ad, ct, mode, bufSize)
				o.Count("big/source/" + bigSrcNames[mode])
				o.Count(fmt.Sprintf("big/readbuf/%d", bufSize))
				fail := err != io.EOF || !bytes.Equal(got, pt)
				if fail {
					fails = append(fails, fmt.Sprintf("source %s with read buffer %d: err=%v, %d bytes released, first difference at %d", bigSrcNames[mode], bufSize, err, len(got), firstDiff(got, pt)))
				}
				if mode == 0 || (fail && !bad) {
					vGot, vErr = got, err
				}
				bad = bad || fail
			}
			if bad {
				o.Count("big/FAILED")
				if bigViolations < 6 { // leave room for the other oracles (hlib keeps 20)
					bigViolations++
					o.Violate("big keyset %s, right key at position %d of %d (%s), ciphertext of %d bytes (|pt|=%d, ad=%s) made by the keyset with that key as primary; the right key alone decodes it, the keyset does not: %s",
						desc, pos, len(set), right.params(), len(ct), len(pt), hlib.Tok(ad), strings.Join(fails, "; "))
				}
			}
			// one case of at most 128 KiB per configuration for the format-level decoder of the model: the one with the
			// most keys in front of the right key
			if !sentToModel && pos == len(set)-1 && len(ct) <= 128*kib && target == 100*kib {
				sentToModel = true
				o.Count("big/model-dec")
				o.Emit(fmt.Sprintf("!T dec %s %s %s", right.params(), hlib.Tok(ad), hlib.Tok(ct)), verdict(vGot, vErr), true)
			}
		}
	}
}
