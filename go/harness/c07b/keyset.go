//go:build verif

package main

import (
	"bytes"
	"fmt"
	"io"

	"google.golang.org/protobuf/proto"
	"github.com/tink-crypto/tink-go/v2/insecurecleartextkeyset"
	"github.com/tink-crypto/tink-go/v2/internal/internalapi"
	"github.com/tink-crypto/tink-go/v2/internal/verifharness/hlib"
	"github.com/tink-crypto/tink-go/v2/keyset"
	tinkpb "github.com/tink-crypto/tink-go/v2/proto/tink_go_proto"
	"github.com/tink-crypto/tink-go/v2/streamingaead"
	"github.com/tink-crypto/tink-go/v2/tink"
)

type kentry struct {
	c        *cfg
	disabled bool
	primary  bool
}

// buildHandle assembles a keyset from key objects made by the key-level constructors; via selects
// how the handle reaches the factory: direct, through the binary serialization, or through a
// serialization whose output prefix types were rewritten to non-RAW (streaming keys never use a prefix).
func buildHandle(o *hlib.Out, es []kentry, via int) (*keyset.Handle, error) {
	km := keyset.NewManager()
	for _, e := range es {
		k, err := e.c.key()
		if err != nil {
			return nil, err
		}
		opts := []keyset.KeyOpts{}
		if e.disabled {
			opts = append(opts, keyset.WithStatus(keyset.Disabled))
		}
		if e.primary {
			opts = append(opts, keyset.AsPrimary())
		}
		if _, err := km.AddKeyWithOpts(k, internalapi.Token{}, opts...); err != nil {
			return nil, err
		}
	}
	h, err := km.Handle()
	if err != nil || via == 0 {
		return h, err
	}
	var ser []byte
	if via == 1 {
		buf := &bytes.Buffer{}
		if err := insecurecleartextkeyset.Write(h, keyset.NewBinaryWriter(buf)); err != nil {
			return nil, err
		}
		ser = buf.Bytes()
	} else {
		ks := insecurecleartextkeyset.KeysetMaterial(h)
		for i, k := range ks.Key {
			k.OutputPrefixType = []tinkpb.OutputPrefixType{tinkpb.OutputPrefixType_TINK, tinkpb.OutputPrefixType_CRUNCHY, tinkpb.OutputPrefixType_LEGACY}[i%3]
		}
		ser, err = proto.Marshal(ks)
		if err != nil {
			return nil, err
		}
	}
	h2, err := insecurecleartextkeyset.Read(keyset.NewBinaryReader(bytes.NewReader(ser)))
	if err != nil {
		if via == 2 {
			o.Count("note/nonraw-prefix-keyset-refused")
			return h, nil
		}
		return nil, err
	}
	if h2.Len() != len(es) {
		return nil, fmt.Errorf("keyset lost keys in serialization: %d of %d", h2.Len(), len(es))
	}
	return h2, nil
}

var viaNames = []string{"direct", "serialized", "nonraw-prefix"}

func factory(o *hlib.Out, es []kentry, via int) tink.StreamingAEAD {
	h, err := buildHandle(o, es, via)
	if err != nil {
		o.Violate("keyset of valid keys could not be built (via %s): %v", viaNames[via], err)
		return nil
	}
	sa, err := streamingaead.New(h)
	if err != nil {
		if via == 2 {
			// non-RAW output prefixes refused by the factory: fall back to the plain handle
			o.Count("note/nonraw-prefix-factory-refused")
			return factory(o, es, 0)
		}
		o.Violate("streamingaead.New failed on a keyset of valid keys: %v", err)
		return nil
	}
	return sa
}

var ksSegClasses = []string{"min", "small", "64", "mid", "mid", "256", "min+1", "64"}

// keysetCase: the keyset factory and its key-matching reader.
func keysetCase(o *hlib.Out, rng *hlib.Rng, ci int) {
	nkeys := 1 + ci%4
	mk := func(i int) *cfg {
		sc := ksSegClasses[rng.Intn(len(ksSegClasses))]
		if hlib.Thorough() && rng.Chance(3) {
			sc = "4096"
		}
		return pickCfg(fork(rng, "cfg"), rng.Intn(4)^(i&1), "key", sc)
	}
	enc := make([]*cfg, nkeys)
	for i := range enc {
		enc[i] = mk(i)
	}
	others := make([]*cfg, 4)
	for i := range others {
		others[i] = mk(i + 1)
	}
	primary := rng.Intn(nkeys)
	es := make([]kentry, nkeys)
	for i := range es {
		es[i] = kentry{c: enc[i], primary: i == primary, disabled: i != primary && rng.Chance(25)}
	}
	via := rng.Intn(3)
	sa := factory(o, es, via)
	if sa == nil {
		return
	}
	right := enc[primary]
	o.Count(fmt.Sprintf("keyset/enc-keys-%d/%s", nkeys, viaNames[via]))
	o.Count("keyset/primary/" + right.short())
	ad := adFor(rng, rng.Intn(3))
	ls := right.lengths(rng)
	L := ls[rng.Intn(len(ls))]
	if rng.Bool() {
		L = right.first() + right.ptSeg() + rng.Intn(2*right.ptSeg()+1)
	}
	pt := rng.Bytes(L)
	ct := goEncrypt(o, right, sa, ad, pt, fork(rng, "enc"))
	if ct == nil {
		return
	}
	if int(ct[0]) != right.hdr() {
		o.Violate("keyset-level ciphertext does not start with the primary key's header (first byte %d, want %d): output prefix?", ct[0], right.hdr())
	}
	o.Emit(fmt.Sprintf("!T dec %s %s %s", right.params(), hlib.Tok(ad), hlib.Tok(ct)), "ok "+hlib.Tok(pt), true)
	for _, e := range es {
		// no other key of the encrypting keyset may have been used
		if e.c != right {
			oprim, err := e.c.prim("key")
			if err == nil {
				if got, err := goDecrypt(o, e.c, oprim, ad, ct, fork(rng, "np"), -1); err == io.EOF {
					o.Violate("a non-primary key decodes the keyset's ciphertext (%d bytes)", len(got))
				}
			}
		}
	}

	// decrypting keysets
	pool := append([]*cfg(nil), others...)
	for _, c := range enc {
		if c != right {
			pool = append(pool, c)
		}
	}
	fill := func(m, pos int, rightDisabled bool) []kentry {
		ds := make([]kentry, 0, m)
		st := rng.Intn(len(pool))
		for i := 0; i < m; i++ {
			if i == pos {
				ds = append(ds, kentry{c: right, disabled: rightDisabled})
			} else {
				ds = append(ds, kentry{c: pool[(st+i)%len(pool)]})
			}
		}
		// primary: any enabled key
		for {
			p := rng.Intn(m)
			if !ds[p].disabled {
				ds[p].primary = true
				break
			}
		}
		return ds
	}
	m := 1 + (ci/4+rng.Intn(2))%4
	// right key at every position
	for pos := 0; pos < m; pos++ {
		ds := fill(m, pos, false)
		for i := range ds { // disabled bystanders do not matter
			if i != pos && !ds[i].primary && rng.Chance(20) {
				ds[i].disabled = true
			}
		}
		dsa := factory(o, ds, rng.Intn(3))
		if dsa == nil {
			continue
		}
		got, err := goDecrypt(o, right, dsa, ad, ct, fork(rng, "d"), -1)
		o.Count(fmt.Sprintf("keyset/match/pos%d-of-%d", pos, m))
		if err != io.EOF || !bytes.Equal(got, pt) {
			o.Violate("keyset with the right key at position %d of %d does not decode: err=%v, %d of %d bytes", pos, m, err, len(got), len(pt))
		}
		o.Emit(fmt.Sprintf("!T dec %s %s %s", right.params(), hlib.Tok(ad), hlib.Tok(ct)), verdict(got, err), true)
	}
	// right key disabled / absent: no plaintext may be released
	for _, sc := range []string{"disabled", "absent"} {
		var ds []kentry
		mm := m
		if sc == "disabled" {
			if mm < 2 {
				mm = 2
			}
			ds = fill(mm, rng.Intn(mm), true)
		} else {
			ds = fill(mm, -1, false)
		}
		dsa := factory(o, ds, rng.Intn(2))
		if dsa == nil {
			continue
		}
		got, err := goDecrypt(o, right, dsa, ad, ct, fork(rng, "d"), -1)
		o.Count("keyset/" + sc)
		if err == io.EOF || err == nil {
			o.Violate("keyset with the right key %s ended with a clean EOF (%d bytes)", sc, len(got))
		}
		if len(got) != 0 {
			o.Violate("keyset with the right key %s released %d bytes", sc, len(got))
		}
		for _, e := range ds {
			if !e.disabled && len(ct) <= 2000 {
				o.Emit(fmt.Sprintf("!T dec %s %s %s", e.c.params(), hlib.Tok(ad), hlib.Tok(ct)), verdict(got, err), true)
			}
		}
	}
	// a sibling key (same key material, other segment size) in front of the right key
	{
		sib := *right
		sib.seg = right.seg + rng.Pick(1, 7, -1)
		if sib.seg <= sib.hdr()+sib.tagSize {
			sib.seg = right.seg + 1
		}
		ds := []kentry{{c: &sib}, {c: right, primary: true}}
		if dsa := factory(o, ds, 0); dsa != nil {
			got, err := goDecrypt(o, right, dsa, ad, ct, fork(rng, "d"), -1)
			o.Count("keyset/sibling-first")
			if err != io.EOF || !bytes.Equal(got, pt) {
				o.Violate("keyset [sibling segment size %d, right key]: err=%v, %d of %d bytes", sib.seg, err, len(got), len(pt))
			}
			o.Emit(fmt.Sprintf("!T dec %s %s %s", right.params(), hlib.Tok(ad), hlib.Tok(ct)), verdict(got, err), true)
		}
	}
	// manipulations and source faults through the key-matching reader
	pos := rng.Intn(m)
	ds := fill(m, pos, false)
	dsa := factory(o, ds, 0)
	if dsa == nil {
		return
	}
	ms := manips(right, fork(rng, "manip"), ct, ad)
	var plain []mut
	for _, mu := range ms {
		if mu.cfg == nil {
			plain = append(plain, mu)
		}
	}
	for _, mu := range sample(rng, plain, 8) {
		if bytes.Equal(mu.ct, ct) && bytes.Equal(mu.ad, ad) {
			continue
		}
		got, err := goDecrypt(o, right, dsa, mu.ad, mu.ct, fork(rng, "m"), -1)
		o.Count("keyset/manip/" + manipClass(mu.kind))
		if err == io.EOF {
			o.Violate("keyset level, %s: manipulated stream ended with a clean EOF after %d bytes", mu.kind, len(got))
		}
		if !wholeSegments(right, pt, got) {
			o.Violate("keyset level, %s: %d released bytes are not whole authenticated segments of the plaintext", mu.kind, len(got))
		}
		o.Emit(fmt.Sprintf("!T dec %s %s %s", right.params(), hlib.Tok(mu.ad), hlib.Tok(mu.ct)), verdict(got, err), true)
	}
	b := right.bounds(len(ct))
	for _, at := range []int{0, rng.Intn(right.hdr()), right.hdr(), b[1] - 1, b[1], rng.Intn(len(ct) + 1), len(ct) - 1, len(ct)} {
		if at < 0 || at > len(ct) {
			continue
		}
		got, err := goDecrypt(o, right, dsa, ad, ct, fork(rng, "f"), at)
		o.Count("keyset/fault/read")
		if err == nil || err == io.EOF {
			o.Violate("keyset level: source failing at offset %d of %d ended with %v after %d bytes", at, len(ct), err, len(got))
		}
		if !wholeSegments(right, pt, got) || (at == len(ct) && len(got) == len(pt) && len(pt) > 0) {
			o.Violate("keyset level: source failing at offset %d of %d: %d bytes released", at, len(ct), len(got))
		}
	}
	writeFaults(o, right, sa, ad, pt, fork(rng, "wf"))
}

func manipClass(kind string) string {
	for _, p := range []string{"hdr", "salt", "prefix", "body", "tag", "trunc", "append", "ad"} {
		if len(kind) >= len(p) && kind[:len(p)] == p {
			return p
		}
	}
	return "segments"
}
