//go:build verif

package main

import (
	"github.com/tink-crypto/tink-go/v2/internal/verifharness/hlib"
)

// mut is one manipulated decryption input. cfg != nil: decode with that key instead of the writer's.
// sameFormatOK: the outcome is not fixed by the property (a reader with other parameters), the
// format-level decoder decides.
type mut struct {
	kind         string
	ct, ad       []byte
	cfg          *cfg
	sameFormatOK bool
}

func clone(b []byte) []byte { return append([]byte(nil), b...) }

func cat(parts ...[]byte) []byte {
	var out []byte
	for _, p := range parts {
		out = append(out, p...)
	}
	return out
}

// manips enumerates the manipulations of property C07 on an honest ciphertext.
func manips(c *cfg, rng *hlib.Rng, ct, ad []byte) []mut {
	var ms []mut
	add := func(kind string, d []byte) { ms = append(ms, mut{kind: kind, ct: d, ad: ad}) }
	flip := func(kind string, pos int) {
		if pos >= 0 && pos < len(ct) {
			d := clone(ct)
			d[pos] ^= 1 << uint(rng.Intn(8))
			add(kind, d)
		}
	}
	n := len(ct)
	h := c.hdr()
	b := c.bounds(n)
	k := len(b) - 1 // number of segments
	seg := func(i int) []byte { return ct[b[i]:b[i+1]] }

	// header fields
	flip("hdr-len-flip", 0)
	{
		d := clone(ct)
		d[0] = byte(64 - int(d[0])) // 24 <-> 40: the other key size's header length
		add("hdr-len-other", d)
		d = clone(ct)
		d[0]++
		add("hdr-len+1", d)
		d = clone(ct)
		d[0]--
		add("hdr-len-1", d)
	}
	flip("salt-flip", 1+rng.Intn(c.ks))
	flip("salt-flip", 1)
	flip("salt-flip", c.ks)
	flip("prefix-flip", 1+c.ks+rng.Intn(7))
	flip("prefix-flip", h-1)
	// segment body / tag
	for _, i := range []int{0, rng.Intn(k), k - 1} {
		if b[i+1]-b[i] > c.tagSize {
			flip("body-flip", b[i]+rng.Intn(b[i+1]-b[i]-c.tagSize))
		}
		if b[i+1]-b[i] >= c.tagSize {
			flip("tag-flip", b[i+1]-1-rng.Intn(c.tagSize))
			flip("tag-flip-lastbyte", b[i+1]-1)
			flip("tag-flip-firstbyte", b[i+1]-c.tagSize)
		}
	}
	// truncation
	for _, cut := range []int{0, 1, 1 + rng.Intn(h-1), h - 1} {
		add("trunc-in-header", clone(ct[:cut]))
	}
	add("trunc-header-only", clone(ct[:h]))
	for i := 1; i < k; i++ {
		if k <= 5 || rng.Chance(50) {
			add("trunc-at-boundary", clone(ct[:b[i]]))
		}
	}
	add("drop-last-segment", clone(ct[:b[k-1]]))
	{
		i := rng.Intn(k)
		if b[i+1]-b[i] > 1 {
			add("trunc-in-segment", clone(ct[:b[i]+1+rng.Intn(b[i+1]-b[i]-1)]))
		}
		add("trunc-in-last-tag", clone(ct[:n-1-rng.Intn(c.tagSize)]))
		add("trunc-after-boundary", clone(ct[:min(n, b[min(1, k)]+1)]))
	}
	add("drop-last-byte", clone(ct[:n-1]))
	// appending
	add("append-1", cat(ct, rng.Bytes(1)))
	add("append-bytes", cat(ct, rng.Bytes(2+rng.Intn(c.seg))))
	add("append-tag-sized", cat(ct, rng.Bytes(c.tagSize)))
	add("append-random-segment", cat(ct, rng.Bytes(c.seg)))
	add("append-valid-last-segment", cat(ct, seg(k-1)))
	add("append-valid-segment", cat(ct, seg(rng.Intn(k))))
	add("append-whole-stream", cat(ct, ct))
	add("append-body-again", cat(ct, ct[h:]))
	// segment-level
	if k >= 2 {
		i := rng.Intn(k - 1)
		add("swap-adjacent", cat(ct[:b[i]], seg(i+1), seg(i), ct[b[i+2]:]))
		if k >= 4 {
			add("swap-full-segments", cat(ct[:b[1]], seg(2), seg(1), ct[b[3]:]))
		}
		j := rng.Intn(k)
		add("duplicate-segment", cat(ct[:b[j+1]], seg(j), ct[b[j+1]:]))
		add("duplicate-first", cat(ct[:b[1]], seg(0), ct[b[1]:]))
		d := rng.Intn(k - 1)
		add("drop-segment", cat(ct[:b[d]], ct[b[d+1]:]))
		add("drop-first-segment", cat(ct[:b[0]], ct[b[1]:]))
		add("last-replaced-by-nonlast", cat(ct[:b[k-1]], seg(k-2)))
		add("last-replaced-by-first", cat(ct[:b[k-1]], seg(0)))
		e := rng.Intn(k - 1)
		add("nonlast-replaced-by-last", cat(ct[:b[e]], seg(k-1), ct[b[e+1]:]))
		add("last-moved-to-front", cat(ct[:b[0]], seg(k-1), ct[b[0]:b[k-1]]))
		add("only-last-segment", cat(ct[:b[0]], seg(k-1)))
	}
	if k >= 3 {
		add("drop-middle-segments", cat(ct[:b[1]], ct[b[k-1]:]))
	}
	add("empty", nil)
	add("random", rng.Bytes(n))
	// associated data
	adm := func(kind string, a []byte) { ms = append(ms, mut{kind: kind, ct: ct, ad: a}) }
	if len(ad) > 0 {
		a := clone(ad)
		a[rng.Intn(len(a))] ^= 1 << uint(rng.Intn(8))
		adm("ad-flip", a)
		adm("ad-truncated", clone(ad[:len(ad)-1]))
		adm("ad-dropped", nil)
	} else {
		adm("ad-added", []byte{0})
	}
	adm("ad-extended", cat(ad, []byte{0}))
	adm("ad-random", rng.Bytes(1+rng.Intn(20)))
	// other key, same parameters
	{
		oc := *c
		oc.ikm = clone(c.ikm)
		oc.ikm[rng.Intn(len(oc.ikm))] ^= 1 << uint(rng.Intn(8))
		ms = append(ms, mut{kind: "other-key-bitflip", ct: ct, ad: ad, cfg: &oc})
		oc2 := *c
		oc2.ikm = rng.Bytes(len(c.ikm))
		ms = append(ms, mut{kind: "other-key", ct: ct, ad: ad, cfg: &oc2})
	}
	// same key material, one parameter changed: decided by the format-level decoder
	for i := 0; i < 3; i++ {
		oc := *c
		kind := ""
		switch rng.Intn(6) {
		case 0:
			oc.hkdf = keyHashes[rng.Intn(3)]
			kind = "param-hkdf"
		case 1:
			oc.seg = c.seg + rng.Pick(1, -1, 16)
			if oc.seg <= oc.off+oc.hdr()+oc.tagSize {
				oc.seg = c.seg + 1
			}
			kind = "param-segsize"
		case 2:
			if len(c.ikm) == 32 {
				oc.ks = 48 - c.ks
				if oc.seg <= oc.off+oc.hdr()+oc.tagSize {
					oc.seg = oc.off + oc.hdr() + oc.tagSize + 1
				}
				kind = "param-keysize"
			}
		case 3:
			if c.typ == "ctr" {
				oc.tagAlg = keyHashes[rng.Intn(3)]
				if oc.tagSize > digest[oc.tagAlg] {
					oc.tagSize = digest[oc.tagAlg]
				}
				kind = "param-tagalg"
			}
		case 4:
			if c.typ == "ctr" {
				oc.tagSize = c.tagSize + rng.Pick(1, -1)
				if oc.tagSize < 10 || oc.tagSize > digest[oc.tagAlg] || oc.seg <= oc.off+oc.hdr()+oc.tagSize {
					oc.tagSize = c.tagSize
				}
				kind = "param-tagsize"
			}
		case 5:
			oc.off = c.off + 1
			if oc.seg <= oc.off+oc.hdr()+oc.tagSize {
				oc.off = c.off
			}
			kind = "param-offset"
		}
		if kind == "" || oc.params() == c.params() {
			continue
		}
		ms = append(ms, mut{kind: kind, ct: ct, ad: ad, cfg: &oc, sameFormatOK: true})
	}
	return ms
}
