//go:build verif

// Harness c07b: the real streaming-AEAD key types (AES-GCM-HKDF, AES-CTR-HMAC) through
// streamingaead/subtle, the key-level constructors and the keyset factory, against the independent
// implementation of the documented wire format in Lean (Model/StreamKeys.lean, Driver/Stream2.lean).
// Property C07. Two-phase: `T enc` requests are answered by the model before the main run.
package main

import (
	"bytes"
	"fmt"
	"io"
	"sort"
	"strings"

	"github.com/tink-crypto/tink-go/v2/internal/primitiveregistry"
	"github.com/tink-crypto/tink-go/v2/internal/verifharness/hlib"
	"github.com/tink-crypto/tink-go/v2/key"
	"github.com/tink-crypto/tink-go/v2/streamingaead"
	"github.com/tink-crypto/tink-go/v2/streamingaead/aesctrhmac"
	"github.com/tink-crypto/tink-go/v2/streamingaead/aesgcmhkdf"
	"github.com/tink-crypto/tink-go/v2/streamingaead/subtle"
	"github.com/tink-crypto/tink-go/v2/tink"
)

// cfg is one streaming key: the parameters of the documented format plus the main key.
type cfg struct {
	typ     string // gcm | ctr
	ks      int    // derived key size = salt size
	hkdf    string
	tagAlg  string // ctr only
	tagSize int    // 16 for gcm
	seg     int    // ciphertext segment size
	off     int    // firstSegmentOffset (subtle level only)
	ikm     []byte
}

func (c *cfg) hdr() int   { return 1 + c.ks + 7 }
func (c *cfg) ptSeg() int { return c.seg - c.tagSize }
func (c *cfg) first() int { return c.seg - c.off - c.hdr() - c.tagSize }
func (c *cfg) fc() int    { return c.seg - c.off - c.hdr() } // first ciphertext segment

func (c *cfg) params() string {
	if c.typ == "gcm" {
		return fmt.Sprintf("gcm %d %s %d %d %s", c.ks, c.hkdf, c.seg, c.off, hlib.Tok(c.ikm))
	}
	return fmt.Sprintf("ctr %d %s %s %d %d %d %s", c.ks, c.hkdf, c.tagAlg, c.tagSize, c.seg, c.off, hlib.Tok(c.ikm))
}

func (c *cfg) short() string { return fmt.Sprintf("%s%d", c.typ, c.ks*8) }

func (c *cfg) tagClass() string {
	switch c.tagSize {
	case 10:
		return "10"
	case digest[c.tagAlg]:
		return "full"
	}
	return "truncated"
}

// nseg is the number of segments the format prescribes for a plaintext of n bytes.
func (c *cfg) nseg(n int) int {
	if n <= c.first() {
		return 1
	}
	return 1 + (n-c.first()+c.ptSeg()-1)/c.ptSeg()
}

// bounds returns the segment boundaries of a ciphertext of n bytes: start of every segment, then n.
func (c *cfg) bounds(n int) []int {
	b := []int{c.hdr()}
	for p := c.hdr() + c.fc(); p < n; p += c.seg {
		b = append(b, p)
	}
	return append(b, n)
}

var digest = map[string]int{"SHA1": 20, "SHA224": 28, "SHA256": 32, "SHA384": 48, "SHA512": 64}
var gcmHash = map[string]aesgcmhkdf.HashType{"SHA1": aesgcmhkdf.SHA1, "SHA256": aesgcmhkdf.SHA256, "SHA512": aesgcmhkdf.SHA512}
var ctrHash = map[string]aesctrhmac.HashType{"SHA1": aesctrhmac.SHA1, "SHA256": aesctrhmac.SHA256, "SHA512": aesctrhmac.SHA512}
var keyHashes = []string{"SHA1", "SHA256", "SHA512"}
var allHashes = []string{"SHA1", "SHA224", "SHA256", "SHA384", "SHA512"}

func (c *cfg) subtlePrim() (tink.StreamingAEAD, error) {
	if c.typ == "gcm" {
		return subtle.NewAESGCMHKDF(c.ikm, c.hkdf, c.ks, c.seg, c.off)
	}
	return subtle.NewAESCTRHMAC(c.ikm, c.hkdf, c.ks, c.tagAlg, c.tagSize, c.seg, c.off)
}

// key builds the key object through the key-level constructors (off must be 0).
func (c *cfg) key() (key.Key, error) {
	if c.typ == "gcm" {
		ps, err := aesgcmhkdf.NewParameters(aesgcmhkdf.ParametersOpts{KeySizeInBytes: len(c.ikm), DerivedKeySizeInBytes: c.ks,
			HKDFHashType: gcmHash[c.hkdf], SegmentSizeInBytes: int32(c.seg)})
		if err != nil {
			return nil, err
		}
		return aesgcmhkdf.NewKey(ps, hlib.Secret(c.ikm))
	}
	ps, err := aesctrhmac.NewParameters(aesctrhmac.ParametersOpts{KeySizeInBytes: len(c.ikm), DerivedKeySizeInBytes: c.ks,
		HkdfHashType: ctrHash[c.hkdf], HmacHashType: ctrHash[c.tagAlg], HmacTagSizeInBytes: c.tagSize, SegmentSizeInBytes: int32(c.seg)})
	if err != nil {
		return nil, err
	}
	return aesctrhmac.NewKey(ps, hlib.Secret(c.ikm))
}

func (c *cfg) prim(level string) (tink.StreamingAEAD, error) {
	switch level {
	case "subtle":
		return c.subtlePrim()
	case "key":
		k, err := c.key()
		if err != nil {
			return nil, err
		}
		p, err := primitiveregistry.Primitive(k)
		if err != nil {
			return nil, err
		}
		sa, ok := p.(tink.StreamingAEAD)
		if !ok {
			return nil, fmt.Errorf("primitive is %T", p)
		}
		return sa, nil
	default: // single-key keyset through the factory
		k, err := c.key()
		if err != nil {
			return nil, err
		}
		h, err := hlib.HandleOf(k)
		if err != nil {
			return nil, err
		}
		return streamingaead.New(h)
	}
}

var segClasses = []string{"min", "min+1", "small", "small", "64", "64", "mid", "mid", "256", "256", "min", "4096"}

// pickCfg chooses a configuration; the case index stratifies key type, key size, level and segment class.
func pickCfg(rng *hlib.Rng, c int, level string, segClass string) *cfg {
	k := &cfg{typ: []string{"gcm", "ctr"}[c&1], ks: []int{16, 32}[(c>>1)&1], tagSize: 16}
	hs := allHashes
	if level != "subtle" {
		hs = keyHashes
	}
	k.hkdf = hs[rng.Intn(len(hs))]
	if k.typ == "ctr" {
		k.tagAlg = hs[rng.Intn(len(hs))]
		d := digest[k.tagAlg]
		switch rng.Intn(4) {
		case 0:
			k.tagSize = 10
		case 1:
			k.tagSize = d
		case 2:
			k.tagSize = 10 + rng.Intn(d-9)
		default:
			k.tagSize = rng.Pick(12, 16, 20)
		}
	}
	if level == "subtle" {
		k.off = rng.Pick(0, 0, 0, 1, 2, 5, 16, 1+rng.Intn(40))
		k.ikm = rng.Bytes(rng.Pick(k.ks, k.ks, 32, 33, 64))
	} else {
		l := 32
		if k.ks == 16 && rng.Bool() {
			l = 16
		}
		k.ikm = rng.Bytes(l)
	}
	min := k.off + k.hdr() + k.tagSize + 1
	switch segClass {
	case "min":
		k.seg = min
	case "min+1":
		k.seg = min + 1
	case "small":
		k.seg = min + 2 + rng.Intn(8)
	case "64":
		k.seg = 64
		if k.seg < min {
			k.seg = min + 10 + rng.Intn(6)
		}
	case "mid":
		k.seg = min + 10 + rng.Intn(120)
	case "256":
		k.seg = 256
		if k.seg < min+16 {
			k.seg = min + 100
		}
	default:
		k.seg = 4096
	}
	return k
}

// lengths returns the plaintext lengths around every boundary of the format.
func (c *cfg) lengths(rng *hlib.Rng) []int {
	f, s := c.first(), c.ptSeg()
	ls := []int{0, 1, f - 1, f, f + 1, f + s - 1, f + s, f + s + 1, f + 2*s - 1, f + 2*s, f + 2*s + 1, f + 3*s, f + 4*s, f + 4*s - 1,
		s, 2 * s, f + s + rng.Intn(4*s), f + rng.Intn(s+1), rng.Intn(f + 1)}
	sort.Ints(ls)
	var out []int
	for i, l := range ls {
		if l >= 0 && (i == 0 || l != ls[i-1]) {
			out = append(out, l)
		}
	}
	return out
}

func lenClass(c *cfg, n int) string {
	f, s := c.first(), c.ptSeg()
	switch {
	case n == 0:
		return "0"
	case n < f:
		return "<first"
	case n == f:
		return "=first"
	case (n-f)%s == 0:
		return fmt.Sprintf("first+%dseg", min((n-f)/s, 4))
	case (n-f)%s == 1:
		return "boundary+1"
	case (n-f)%s == s-1:
		return "boundary-1"
	}
	return "inside"
}

// goEncrypt runs the real writer into a clean sink.
func goEncrypt(o *hlib.Out, c *cfg, prim tink.StreamingAEAD, ad, pt []byte, rng *hlib.Rng) []byte {
	snk := &sink{failFrom: -1}
	if err := encryptTo(o, prim, snk, ad, pt, rng, c.first(), c.ptSeg()); err != nil {
		o.Violate("encryption failed (%s |pt|=%d): %v", c.params(), len(pt), err)
		return nil
	}
	ct := append([]byte(nil), snk.buf.Bytes()...)
	if want := c.hdr() + len(pt) + c.nseg(len(pt))*c.tagSize; len(ct) != want {
		o.Violate("ciphertext length %d, the format prescribes %d (%s |pt|=%d)", len(ct), want, c.params(), len(pt))
	}
	return ct
}

// goDecrypt runs the real reader over a non-seekable source.
func goDecrypt(o *hlib.Out, c *cfg, prim tink.StreamingAEAD, ad, ct []byte, rng *hlib.Rng, failAt int) ([]byte, error) {
	src := newSource(ct, fork(rng, "src"), c.seg)
	src.failAt = failAt
	var r io.Reader
	var err error
	if p := hlib.Recover(func() { r, err = prim.NewDecryptingReader(src, ad) }); p != "" {
		o.Violate("NewDecryptingReader panicked: %s", p)
		return nil, fmt.Errorf("panic")
	}
	if err != nil {
		if err == io.EOF {
			// an error of the constructor is an error, whatever its value; keep it distinguishable from a clean end
			err = fmt.Errorf("constructor: %w", io.ErrUnexpectedEOF)
		}
		return nil, err
	}
	var got []byte
	if p := hlib.Recover(func() { got, err = drain(o, r, fork(rng, "drain"), c.ptSeg(), len(ct)) }); p != "" {
		o.Violate("Read panicked: %s", p)
		return nil, fmt.Errorf("panic")
	}
	return got, err
}

// wholeSegments reports whether got is a prefix of pt consisting of whole segments of c.
func wholeSegments(c *cfg, pt, got []byte) bool {
	if !bytes.HasPrefix(pt, got) {
		return false
	}
	n := len(got)
	if n == 0 || n == len(pt) {
		return true
	}
	return n >= c.first() && (n-c.first())%c.ptSeg() == 0
}

func adFor(rng *hlib.Rng, class int) []byte {
	switch class % 3 {
	case 0:
		if rng.Bool() {
			return nil
		}
		return []byte{}
	case 1:
		return rng.Bytes(1 + rng.Intn(16))
	}
	if hlib.Thorough() && rng.Chance(5) {
		return rng.Bytes(1500 + rng.Intn(2500))
	}
	return rng.Bytes(100 + rng.Intn(900))
}

var adNames = []string{"empty", "short", "long"}

// newProbes compares the constructor guards of the subtle API with the model on valid and invalid parameters.
func newProbes(o *hlib.Out, rng *hlib.Rng, base *cfg) {
	for i := 0; i < 3; i++ {
		c := *base
		switch rng.Intn(6) {
		case 0:
			c.ks = rng.Pick(0, 15, 16, 17, 24, 32, 33)
		case 1:
			c.ikm = rng.Bytes(rng.Pick(0, 15, 16, 17, 24, 31, 32, 33))
		case 2:
			c.seg = c.off + c.hdr() + c.tagSize + rng.Intn(4) - 2
		case 3:
			c.tagSize = rng.Pick(0, 9, 10, 11, digest[orStr(c.tagAlg, "SHA256")], digest[orStr(c.tagAlg, "SHA256")]+1)
			if c.typ == "gcm" {
				c.tagSize = 16
			}
		case 4:
			c.off = rng.Pick(0, 1, c.seg-c.hdr()-c.tagSize-1, c.seg-c.hdr()-c.tagSize, c.seg)
			if c.off < 0 {
				c.off = 0
			}
		default:
			c.seg = rng.Pick(0, 1, c.hdr(), c.hdr()+c.tagSize, 1<<20)
		}
		var err error
		if p := hlib.Recover(func() { _, err = c.subtlePrim() }); p != "" {
			o.Violate("constructor panicked (%s): %s", c.params(), p)
			continue
		}
		res := "ok"
		if err != nil {
			res = "err"
		}
		o.Count("new/" + res)
		o.Emit("T new "+c.params(), res, true)
	}
}

func orStr(a, b string) string {
	if a == "" {
		return b
	}
	return a
}

func main() {
	o := hlib.Open("C07")
	defer o.Close()
	hlib.InstallTape(*hlib.FlagSeed) // salts, nonce prefixes and key ids become a function of the seed
	rng := hlib.NewRng(*hlib.FlagSeed, "c07b")
	levels := []string{"subtle", "key", "subtle", "keyset1"}
	n := hlib.N(480, 4800)
	for c := 0; c < n; c++ {
		o.Case()
		level := levels[(c>>2)%4]
		segClass := segClasses[(c>>4)%len(segClasses)]
		if c < 16 { // every key type × key size × level also sees one big-segment configuration early
			segClass = "256"
		}
		streamCase(o, fork(rng, "case"), c, level, segClass)
	}
	nk := hlib.N(240, 2400)
	for c := 0; c < nk; c++ {
		o.Case()
		keysetCase(o, fork(rng, "kcase"), c)
	}
	if !hlib.Pre() {
		// large segments at the keyset level: Go-side oracle, no requests to the model (nothing after this point asks)
		bigKeysetSection(o, fork(rng, "big"))
	}
	negativeOffsetProbe(o)
	if !hlib.Pre() {
		// huge segments (4 MiB … 32 MiB and more) against the independent Go reference of the format, both directions
		hugeSection(o)
	}
}

// streamCase: one key, all boundary plaintext lengths in both directions, manipulations and I/O faults.
func streamCase(o *hlib.Out, rng *hlib.Rng, ci int, level, segClass string) {
	c := pickCfg(rng, ci, level, segClass)
	prim, err := c.prim(level)
	if err != nil {
		o.Violate("valid parameters refused at level %s (%s): %v", level, c.params(), err)
		return
	}
	o.Count("cfg/" + level + "/" + c.short())
	o.Count("hkdf/" + c.hkdf)
	if c.typ == "ctr" {
		o.Count("tag/" + c.tagAlg + "/" + c.tagClass())
	}
	o.Count("seg/" + segClass)
	if level == "subtle" {
		o.Count(fmt.Sprintf("offset/%d", min(c.off, 3)))
		newProbes(o, fork(rng, "new"), c)
	}
	adClass := (ci >> 3) + rng.Intn(3)
	ad := adFor(rng, adClass)
	o.Count("ad/" + adNames[adClass%3])
	ls := c.lengths(rng)
	// big segments: a subset of the lengths (always with a multi-segment one)
	switch {
	case c.seg >= 4096:
		ls = []int{ls[rng.Intn(len(ls))], c.first() + c.ptSeg() + rng.Intn(3) - 1}
	case c.seg >= 200:
		keep := []int{c.first() + 2*c.ptSeg() + rng.Intn(3) - 1}
		for i := 0; i < 4; i++ {
			keep = append(keep, ls[rng.Intn(len(ls))])
		}
		ls = keep
	}
	type stream struct{ pt, ct []byte }
	var multi, single *stream
	for _, L := range ls {
		pt := rng.Bytes(L)
		o.Count("len/" + lenClass(c, L))
		// (a) the real writer; the independent implementation must decode it, and produce the same bytes
		ct := goEncrypt(o, c, prim, ad, pt, fork(rng, "enc"))
		if ct == nil {
			continue
		}
		o.Count("dir/go->model")
		o.Emit(fmt.Sprintf("!T dec %s %s %s", c.params(), hlib.Tok(ad), hlib.Tok(ct)), "ok "+hlib.Tok(pt), true)
		if len(ct) >= c.hdr() && (len(ct) <= 1500 || rng.Chance(25)) {
			salt, pre := ct[1:1+c.ks], ct[1+c.ks:c.hdr()]
			o.Emit(fmt.Sprintf("!T enc %s %s %s %s %s", c.params(), hlib.Tok(ad), hlib.Tok(salt), hlib.Tok(pre), hlib.Tok(pt)), "ok "+hlib.Tok(ct), true)
		}
		got, rerr := goDecrypt(o, c, prim, ad, ct, fork(rng, "rt"), -1)
		if rerr != io.EOF || !bytes.Equal(got, pt) {
			o.Violate("round trip failed (%s |pt|=%d): err=%v, %d bytes", c.params(), L, rerr, len(got))
		}
		// (b) the independent implementation encrypts with header fields of our choosing; the real reader decodes
		salt2, pre2 := rng.Bytes(c.ks), rng.Bytes(7)
		r2 := fork(rng, "b")
		ans := hlib.Ask(fmt.Sprintf("T enc %s %s %s %s %s", c.params(), hlib.Tok(ad), hlib.Tok(salt2), hlib.Tok(pre2), hlib.Tok(pt)))
		if !hlib.Pre() {
			if !strings.HasPrefix(ans, "ok ") {
				o.Violate("model could not encrypt (%s): %s", c.params(), ans)
			} else {
				mct := hlib.FromTok(ans[3:])
				got, rerr := goDecrypt(o, c, prim, ad, mct, r2, -1)
				if rerr != io.EOF || !bytes.Equal(got, pt) {
					o.Violate("the real reader does not decode the independent implementation's stream (%s |pt|=%d |ad|=%d): err=%v", c.params(), L, len(ad), rerr)
				}
				o.Count("dir/model->go")
				o.Emit(fmt.Sprintf("!T dec %s %s %s", c.params(), hlib.Tok(ad), hlib.Tok(mct)), verdict(got, rerr), true)
			}
		}
		if c.nseg(L) >= 3 && (multi == nil || rng.Chance(30)) {
			multi = &stream{pt, ct}
		}
		if c.nseg(L) == 1 && L > 0 && (single == nil || rng.Chance(30)) {
			single = &stream{pt, ct}
		}
		if multi == nil && c.nseg(L) == 2 {
			multi = &stream{pt, ct}
		}
	}
	// (c) manipulations
	for _, s := range []*stream{multi, single} {
		if s == nil {
			continue
		}
		ms := manips(c, fork(rng, "manip"), s.ct, ad)
		if c.seg >= 4096 {
			ms = sample(rng, ms, 4)
		} else if c.seg >= 200 {
			ms = sample(rng, ms, 14)
		}
		for _, m := range ms {
			runManip(o, c, level, prim, s.pt, s.ct, ad, m, fork(rng, "m"))
		}
	}
	// I/O faults
	if multi != nil {
		readFaults(o, c, prim, ad, multi.pt, multi.ct, fork(rng, "rf"))
		writeFaults(o, c, prim, ad, multi.pt, fork(rng, "wf"))
	}
}

func sample(rng *hlib.Rng, ms []mut, k int) []mut {
	if len(ms) <= k {
		return ms
	}
	var out []mut
	for i := 0; i < k; i++ {
		out = append(out, ms[rng.Intn(len(ms))])
	}
	return out
}

// runManip decodes a manipulated (ciphertext, ad, key) with the real reader, applies the property
// oracles and emits the verdict for comparison with the format-level decoder.
func runManip(o *hlib.Out, c *cfg, level string, prim tink.StreamingAEAD, pt, ct, ad []byte, m mut, rng *hlib.Rng) {
	dc := c
	dprim := prim
	if m.cfg != nil {
		dc = m.cfg
		var err error
		lv := level
		if dc.off != 0 || digestOnlySubtle(dc) {
			lv = "subtle"
		}
		dprim, err = dc.prim(lv)
		if err != nil {
			o.Violate("valid parameters refused (%s): %v", dc.params(), err)
			return
		}
	}
	if m.cfg == nil && bytes.Equal(m.ct, ct) && bytes.Equal(m.ad, ad) {
		return
	}
	o.Count("manip/" + m.kind)
	got, err := goDecrypt(o, dc, dprim, m.ad, m.ct, rng, -1)
	if m.sameFormatOK {
		// a reader with other parameters: the verdict is decided by the format-level decoder; whatever is
		// released must still be plaintext
		if !bytes.HasPrefix(pt, got) {
			o.Violate("%s: released bytes are not a prefix of the plaintext (%s)", m.kind, dc.params())
		}
	} else {
		if err == io.EOF {
			o.Violate("%s: manipulated stream ended with a clean EOF after %d bytes (%s)", m.kind, len(got), dc.params())
		}
		if !wholeSegments(c, pt, got) {
			o.Violate("%s: %d bytes released before the error are not whole authenticated segments of the plaintext (%s |pt|=%d)", m.kind, len(got), dc.params(), len(pt))
		}
		if len(got) > 0 {
			o.Count("manip-released/some")
		} else {
			o.Count("manip-released/none")
		}
	}
	tag := "!T"
	if m.sameFormatOK {
		tag = "T"
	}
	o.Emit(fmt.Sprintf("%s dec %s %s %s", tag, dc.params(), hlib.Tok(m.ad), hlib.Tok(m.ct)), verdict(got, err), true)
}

func digestOnlySubtle(c *cfg) bool {
	_, ok := gcmHash[c.hkdf]
	if !ok {
		return true
	}
	if c.typ == "ctr" {
		_, ok = gcmHash[c.tagAlg]
		return !ok
	}
	return false
}

// readFaults: the source fails persistently at a chosen offset; the error must surface, never a clean EOF.
func readFaults(o *hlib.Out, c *cfg, prim tink.StreamingAEAD, ad, pt, ct []byte, rng *hlib.Rng) {
	b := c.bounds(len(ct))
	offs := []int{0, 1, c.hdr() - 1, c.hdr(), c.hdr() + 1, len(ct) - 1, len(ct), rng.Intn(len(ct) + 1)}
	for _, p := range b[1:] {
		offs = append(offs, p-1, p, p+1)
	}
	if c.seg >= 200 {
		offs = []int{offs[rng.Intn(len(offs))], len(ct), b[1], rng.Intn(len(ct) + 1)}
	}
	for _, at := range offs {
		if at < 0 || at > len(ct) {
			continue
		}
		got, err := goDecrypt(o, c, prim, ad, ct, fork(rng, "f"), at)
		where := "inside"
		switch {
		case at < c.hdr():
			where = "header"
		case at == len(ct):
			where = "end"
		}
		o.Count("fault/read/" + where)
		if err == nil || err == io.EOF {
			o.Violate("source failing at offset %d of %d: Read ended with %v after %d bytes (%s)", at, len(ct), err, len(got), c.params())
		}
		if !wholeSegments(c, pt, got) {
			o.Violate("source failing at offset %d: %d released bytes are not whole segments of the plaintext (%s)", at, len(got), c.params())
		}
		if at == len(ct) && len(got) == len(pt) && len(pt) > 0 {
			// the whole plaintext may only be released once the end of the stream has been seen
			o.Violate("source failing at the end: the last segment was released before the end of stream was established (%s)", c.params())
		}
	}
}

// writeFaults: the sink fails persistently from a chosen call on.
func writeFaults(o *hlib.Out, c *cfg, prim tink.StreamingAEAD, ad, pt []byte, rng *hlib.Rng) {
	n := c.nseg(len(pt))
	for _, ff := range []int{0, 1, 2, n, rng.Intn(n + 1)} {
		snk := &sink{failFrom: ff}
		var err error
		if p := hlib.Recover(func() { err = encryptTo(o, prim, snk, ad, pt, fork(rng, "w"), c.first(), c.ptSeg()) }); p != "" {
			o.Violate("writer panicked on a failing sink: %s", p)
			continue
		}
		o.Count(fmt.Sprintf("fault/write/call%d", min(ff, 3)))
		if snk.failed && err == nil {
			o.Violate("sink failing from call %d (of %d): NewEncryptingWriter/Write/Close all succeeded (%s)", ff, snk.calls, c.params())
		}
		if !snk.failed && err != nil {
			o.Violate("writer failed on a healthy sink: %v", err)
		}
	}
}

// negativeOffsetProbe records (as a note, not a verdict) how the subtle constructors treat a negative
// firstSegmentOffset: AES-CTR-HMAC refuses it; AES-GCM-HKDF has no such guard.
func negativeOffsetProbe(o *hlib.Out) {
	ikm := make([]byte, 32)
	if _, err := subtle.NewAESCTRHMAC(ikm, "SHA256", 16, "SHA256", 16, 64, -1); err == nil {
		o.Count("note/ctr-negative-offset-accepted")
	} else {
		o.Count("note/ctr-negative-offset-refused")
	}
	a, err := subtle.NewAESGCMHKDF(ikm, "SHA256", 16, 64, -1)
	if err != nil {
		o.Count("note/gcm-negative-offset-refused")
		return
	}
	o.Count("note/gcm-negative-offset-accepted")
	a2, err := subtle.NewAESGCMHKDF(ikm, "SHA256", 16, 64, -30)
	if err == nil {
		p := hlib.Recover(func() {
			w, err := a2.NewEncryptingWriter(io.Discard, nil)
			if err == nil {
				w.Write(make([]byte, 100))
				w.Close()
			}
		})
		if p != "" {
			o.Count("note/gcm-offset(-30)-write-panics")
		}
	}
	_ = a
	// parameters admit main keys of any size >= the derived key size; the primitive exists only for 16/32
	for _, l := range []int{24, 33, 64} {
		c := &cfg{typ: "gcm", ks: 16, hkdf: "SHA256", tagSize: 16, seg: 64, ikm: make([]byte, l)}
		if _, err := c.key(); err == nil {
			if _, err := c.prim("key"); err != nil {
				o.Count("note/key-with-parameters-but-no-primitive")
			}
		}
	}
}
