//go:build verif

package main

// HUGE segments: keys whose ciphertext segment size is 4 MiB … 32 MiB (thorough: up to 64 MiB) and
// plaintexts just below / at / above one full first segment, above two segments, and "inside" a > 16 MiB
// first segment. Size-threshold behaviour (a clamp of the segment size in a constructor, a cap on the
// read-ahead of the key-matching reader, 24-bit arithmetic, …) is invisible below these sizes, and a clamp
// applied consistently to writer and reader is invisible to every self round trip: the oracle here is
//
//	(a) the own round trip through every kind of source, and
//	(b) INTEROPERABILITY with the independent implementation of the documented format in ref.go, in both
//	    directions: the library's ciphertext must be byte-identical to the reference encryption under the
//	    header's salt / nonce prefix and must decode under the reference; the reference's ciphertext (harness-
//	    chosen salt / prefix) must decode under the library through every kind of source,
//
// through the subtle constructors (with first-segment offsets), the key-level primitives and the keyset
// factory (single key; right key second behind a small-segment key, another huge key, or a key with the other
// header length; a small key behind a huge one). The reference is tied to the Lean model (refTieSection: small
// and medium streams `T enc` / `T dec` / `T encsha`); in the thorough tier > 16 MiB streams of both key types
// go to the Lean model as `!T encsha` (compact `@len:seed` plaintext, answer = length, header, SHA-256).
//
// Main phase only, own rng stream, appended after everything else: earlier op lines are unchanged.

import (
	"bytes"
	"crypto/sha256"
	"encoding/hex"
	"errors"
	"fmt"
	"io"
	"os"
	"strings"
	"time"

	"github.com/tink-crypto/tink-go/v2/internal/verifharness/hlib"
	"github.com/tink-crypto/tink-go/v2/tink"
)

// genMsgInto fills b with the bytes of the compact token `@<len>:<seedhex>` (Driver/Sym.lean `genBytes`):
// byte i = seed[i mod |seed|] + i + (i >> 8).
func genMsgInto(b, seed []byte) {
	m := len(seed)
	// the sequence has period lcm(|seed|, 65536): generate one period, then copy
	if period := max(m, 1) * 65536; len(b) > 2*period {
		genMsgInto(b[:period], seed)
		for n := period; n < len(b); n *= 2 {
			copy(b[n:], b[:n])
		}
		return
	}
	j := 0
	for i := range b {
		s := 0
		if m > 0 {
			s = int(seed[j])
			j++
			if j == m {
				j = 0
			}
		}
		b[i] = byte(s + i + (i >> 8))
	}
}

func genTok(n int, seed []byte) string { return fmt.Sprintf("@%d:%s", n, hlib.Tok(seed)) }

// hugeSpec is one key + API + plaintext-length classes.
type hugeSpec struct {
	typ     string
	ks      int
	hkdf    string
	tagAlg  string
	tagSize int
	seg     int
	off     int    // subtle only
	api     string // subtle | key | keyset1 | keyset2
	front   string // keyset2: the key in front of the right key: small | huge | other | (rightsmall: see below)
	lens    []string
	lean    bool // thorough: the stream also goes to the Lean model (`!T encsha`)
}

const (
	m4  = 4 * mib
	m8  = 8 * mib
	m16 = 16 * mib
	m32 = 32 * mib
)

// hugeQuick: the minimal set; every segment size of the base grid for both key types, both header lengths,
// every API, lengths crossing 4 MiB / 16 MiB inside and at the end of the first segment.
var hugeQuick = []hugeSpec{
	{typ: "gcm", ks: 16, hkdf: "SHA256", seg: m32, api: "subtle", lens: []string{"inside"}},
	{typ: "ctr", ks: 32, hkdf: "SHA256", tagAlg: "SHA256", tagSize: 32, seg: m8, api: "keyset1", lens: []string{"5MiB", "first+100"}},
	{typ: "ctr", ks: 32, hkdf: "SHA256", tagAlg: "SHA256", tagSize: 32, seg: m8, api: "keyset2", front: "small", lens: []string{"5MiB", "first+100"}},
	{typ: "gcm", ks: 32, hkdf: "SHA512", seg: m4 + 1, api: "keyset1", lens: []string{"first+1"}},
	{typ: "gcm", ks: 32, hkdf: "SHA512", seg: m4 + 1, api: "keyset2", front: "huge", lens: []string{"2seg+"}},
	{typ: "ctr", ks: 16, hkdf: "SHA1", tagAlg: "SHA1", tagSize: 10, seg: m16 + 1, off: 5, api: "subtle", lens: []string{"first+1"}},
	{typ: "gcm", ks: 32, hkdf: "SHA1", seg: m16, api: "keyset2", front: "huge", lens: []string{"first-1"}},
	{typ: "gcm", ks: 16, hkdf: "SHA384", seg: m4, off: 13, api: "subtle", lens: []string{"first"}},
	{typ: "ctr", ks: 16, hkdf: "SHA512", tagAlg: "SHA256", tagSize: 16, seg: m4 - 1, api: "keyset1", lens: []string{"2seg+"}},
	{typ: "gcm", ks: 16, hkdf: "SHA256", seg: m16 - 1, api: "subtle", lens: []string{"first+1"}},
	{typ: "gcm", ks: 32, hkdf: "SHA256", seg: m16 + 1, api: "key", lens: []string{"first+1"}},
	{typ: "ctr", ks: 32, hkdf: "SHA224", tagAlg: "SHA256", tagSize: 32, seg: m32, off: mib + 3, api: "subtle", lens: []string{"inside"}},
	{typ: "gcm", ks: 16, hkdf: "SHA512", seg: m32, api: "keyset1", lens: []string{"inside"}},
	{typ: "gcm", ks: 16, hkdf: "SHA256", seg: mib, api: "keyset2", front: "rightsmall", lens: []string{"9MiB"}},
	{typ: "ctr", ks: 32, hkdf: "SHA512", tagAlg: "SHA512", tagSize: 33, seg: m4, api: "key", lens: []string{"first+1"}},
	{typ: "ctr", ks: 16, hkdf: "SHA256", tagAlg: "SHA512", tagSize: 64, seg: m4 + 1, api: "keyset1", lens: []string{"first+1"}},
	{typ: "gcm", ks: 16, hkdf: "SHA1", seg: m4 - 1, api: "keyset2", front: "small", lens: []string{"first+1"}},
	{typ: "gcm", ks: 32, hkdf: "SHA224", seg: m8, off: 2*mib + 5, api: "subtle", lens: []string{"2seg+"}},
	{typ: "ctr", ks: 32, hkdf: "SHA1", tagAlg: "SHA256", tagSize: 32, seg: m16, api: "keyset1", lens: []string{"first"}},
	{typ: "ctr", ks: 16, hkdf: "SHA384", tagAlg: "SHA384", tagSize: 48, seg: m16 - 1, api: "subtle", lens: []string{"first-1"}},
	{typ: "ctr", ks: 16, hkdf: "SHA256", tagAlg: "SHA256", tagSize: 32, seg: m8, api: "keyset2", front: "other", lens: []string{"first+1"}},
}

var hugeThoroughSegs = []int{m4 - 1, m4, m4 + 1, m8, m16 - 1, m16, m16 + 1, m32, 64 * mib, 24 * mib,
	m16 - 16, m16 + 16, m16 + 24, m16 + 40, m16 + 56, m4 - 40, m4 + 16, m4 + 24, m4 + 40}

func hugeThoroughSpecs(rng *hlib.Rng) []hugeSpec {
	segs := append([]int(nil), hugeThoroughSegs...)
	for i := 0; i < 3; i++ {
		segs = append(segs, m4+rng.Intn(m32-m4))
	}
	allLens := []string{"first-1", "first", "first+1", "2seg+", "inside"}
	apis := []struct{ api, front string }{{"keyset1", ""}, {"keyset2", "small"}, {"keyset2", "huge"}, {"key", ""}, {"keyset2", "other"}}
	var out []hugeSpec
	n := 0
	for _, typ := range []string{"gcm", "ctr"} {
		for si, seg := range segs {
			for v := 0; v < 2; v++ {
				s := hugeSpec{typ: typ, seg: seg, ks: []int{16, 32}[(si+v+n)&1], tagSize: 16}
				hs := allHashes
				if v == 1 {
					hs = keyHashes
				}
				s.hkdf = hs[rng.Intn(len(hs))]
				if typ == "ctr" {
					s.tagAlg = hs[rng.Intn(len(hs))]
					d := digest[s.tagAlg]
					s.tagSize = []int{10, d, 10 + rng.Intn(d-9), 16, 32}[rng.Intn(5)]
					if s.tagSize > d {
						s.tagSize = d
					}
				}
				if v == 0 {
					s.api = "subtle"
					if (si+n)%2 == 1 {
						s.off = []int{1, 13, 4096, mib + 3, seg / 2, seg - 3*mib}[rng.Intn(6)]
					}
				} else {
					a := apis[(si+n)%len(apis)]
					s.api, s.front = a.api, a.front
				}
				s.lens = append([]string(nil), allLens...)
				if si >= 10 && si < len(hugeThoroughSegs) { // the ±16 … ±56 neighbours: no multi-segment stream
					s.lens = []string{"first-1", "first", "first+1", "inside"}
				}
				if seg <= m8 {
					s.lens = append(s.lens, "3seg+")
				}
				out = append(out, s)
			}
		}
		n++
	}
	// a small key behind huge ones; one stream of at least 17 MiB per key type under a > 16 MiB segment for the Lean model
	out = append(out,
		hugeSpec{typ: "gcm", ks: 16, hkdf: "SHA256", seg: m32, api: "subtle", lens: []string{"17MiB+"}, lean: true},
		hugeSpec{typ: "ctr", ks: 32, hkdf: "SHA512", tagAlg: "SHA256", tagSize: 24, seg: 20*mib + 24, off: 9, api: "subtle", lens: []string{"17MiB+"}, lean: true},
		hugeSpec{typ: "ctr", ks: 32, hkdf: "SHA256", tagAlg: "SHA256", tagSize: 32, seg: mib, api: "keyset2", front: "rightsmall", lens: []string{"9MiB", "5MiB"}},
		hugeSpec{typ: "gcm", ks: 32, hkdf: "SHA512", seg: 64*kib + 1, api: "keyset2", front: "rightsmall", lens: []string{"9MiB"}})
	return out
}

func (s *hugeSpec) cfg(rng *hlib.Rng) *cfg {
	c := &cfg{typ: s.typ, ks: s.ks, hkdf: s.hkdf, tagAlg: s.tagAlg, tagSize: s.tagSize, seg: s.seg, off: s.off}
	if c.typ == "gcm" {
		c.tagSize = 16
	}
	l := 32
	switch {
	case s.api == "subtle":
		l = rng.Pick(s.ks, 32, 33, 64)
	case s.ks == 16 && rng.Bool():
		l = 16
	}
	c.ikm = rng.Bytes(l)
	return c
}

// frontCfg is the key in front of the right key in a two-key keyset.
func (s *hugeSpec) frontCfg(rng *hlib.Rng, right *cfg) *cfg {
	f := &cfg{typ: right.typ, ks: right.ks, hkdf: "SHA256", tagAlg: "SHA256", tagSize: 16, ikm: rng.Bytes(32)}
	switch s.front {
	case "small": // same header length, 4 KiB segments, the other key type
		f.seg = 4 * kib
		f.typ = map[string]string{"gcm": "ctr", "ctr": "gcm"}[right.typ]
	case "huge": // same header length, another huge segment size (a failed trial consumes a whole segment of ITS size)
		f.seg = m8
		if right.seg == m8 {
			f.seg = m16
		}
		if hlib.Thorough() {
			f.seg = rng.Pick(m8+1, m16, m16+1, m32)
		}
	case "rightsmall": // the right key is the small one; the trial of the huge key in front consumes its segment size + 1
		f.seg = m8
		if hlib.Thorough() {
			f.seg = rng.Pick(m4+1, m8, m8+1)
		}
	default: // other header length
		f.ks = 48 - right.ks
		f.seg = m4 + 7
	}
	if f.typ == "ctr" {
		f.tagSize = 32
	}
	return f
}

// lenOf resolves a plaintext-length class for key c.
func lenOf(c *cfg, class string, rng *hlib.Rng) int {
	f, s := c.first(), c.ptSeg()
	switch class {
	case "first-1":
		return f - 1
	case "first":
		return f
	case "first+1":
		return f + 1
	case "first+100":
		return f + 100
	case "2seg+": // first, one full segment, a short third one
		return f + s + 100 + rng.Intn(5000)
	case "3seg+":
		return f + 2*s + 1 + rng.Intn(5000)
	case "inside": // ends inside the first segment, beyond 16 MiB (or 4 MiB) if the segment is that large
		for _, t := range []int{m16, m4} {
			if f > t+100000 {
				return t + 12345 + rng.Intn(50000)
			}
		}
		return f/2 + rng.Intn(f/2)
	case "17MiB+":
		return 17*mib + rng.Intn(100000)
	case "5MiB":
		return 5 * mib
	case "9MiB":
		return 9*mib + rng.Intn(1000)
	}
	panic("length class " + class)
}

// hugeSource: non-seekable; chunk 0 = whatever is asked for, else at most chunk bytes per Read; withEOF hands the
// last bytes out together with io.EOF.
type hugeSource struct {
	data    []byte
	pos     int
	chunk   int
	withEOF bool
}

func (s *hugeSource) Read(p []byte) (int, error) {
	if len(p) == 0 {
		return 0, nil
	}
	rem := len(s.data) - s.pos
	if rem == 0 {
		return 0, io.EOF
	}
	n := len(p)
	if s.chunk > 0 && n > s.chunk {
		n = s.chunk
	}
	if n > rem {
		n = rem
	}
	copy(p, s.data[s.pos:s.pos+n])
	s.pos += n
	if s.pos == len(s.data) && s.withEOF {
		return n, io.EOF
	}
	return n, nil
}

type srcKind struct {
	name    string
	chunk   int
	withEOF bool
}

var hugeSrcKinds = []srcKind{
	{"all-at-once", 0, false}, {"4KiB-reads", 4 * kib, false}, {"all-at-once+data-with-EOF", 0, true}, {"4KiB-reads+data-with-EOF", 4 * kib, true},
	{"64KiB+1-reads", 64*kib + 1, false}, {"64KiB+1-reads+data-with-EOF", 64*kib + 1, true},
}

var hugeReadBufs = []int{64 * kib, mib + 17, 4 * kib, 0} // 0: one buffer larger than the whole plaintext

type hugeSink struct{ buf []byte }

func (s *hugeSink) Write(p []byte) (int, error) {
	s.buf = append(s.buf, p...)
	return len(p), nil
}

// reusable buffers (the streams are tens of MiB)
var hugeBufs struct{ pt, ct, ref, rd, dec []byte }

func grow(b *[]byte, n int) []byte {
	if cap(*b) < n {
		*b = make([]byte, n)
	}
	return (*b)[:n]
}

// hugeEncrypt runs the real writer; style 0: one Write, 1: 1 MiB + 17-byte writes, 2: 64 KiB writes, 3: segment-aligned.
func hugeEncrypt(o *hlib.Out, c *cfg, prim tink.StreamingAEAD, ad, pt []byte, style int) (ct []byte, err error) {
	snk := &hugeSink{buf: grow(&hugeBufs.ct, refOf(c).ctLen(len(pt))+64)[:0]}
	if p := hlib.Recover(func() {
		var w io.WriteCloser
		w, err = prim.NewEncryptingWriter(snk, ad)
		if err != nil {
			return
		}
		rest := pt
		first := true
		for len(rest) > 0 {
			k := len(rest)
			switch style {
			case 1:
				k = mib + 17
			case 2:
				k = 64 * kib
			case 3:
				k = c.ptSeg()
				if first {
					k = c.first()
				}
			}
			first = false
			if k > len(rest) {
				k = len(rest)
			}
			var n int
			n, err = w.Write(rest[:k])
			if err != nil {
				return
			}
			if n != k {
				err = errors.New("short write without error")
				return
			}
			rest = rest[k:]
		}
		err = w.Close()
	}); p != "" {
		return nil, fmt.Errorf("writer panicked: %s", p)
	}
	if cap(snk.buf) > cap(hugeBufs.ct) {
		hugeBufs.ct = snk.buf[:0]
	}
	return snk.buf, err
}

var hugeWriteStyles = []string{"one-Write", "1MiB+17-writes", "64KiB-writes", "segment-aligned-writes"}

// hugeDecrypt runs the real reader over ct and compares what it releases with pt on the fly.
// It returns "" if exactly pt and then a clean EOF came out, else a description.
func hugeDecrypt(o *hlib.Out, prim tink.StreamingAEAD, ad, ct, pt []byte, k srcKind, bufSize int) string {
	if bufSize == 0 {
		bufSize = len(pt) + 1
	}
	src := &hugeSource{data: ct, chunk: k.chunk, withEOF: k.withEOF}
	var r io.Reader
	var err error
	if p := hlib.Recover(func() { r, err = prim.NewDecryptingReader(src, ad) }); p != "" {
		return "NewDecryptingReader panicked: " + p
	}
	if err != nil {
		return fmt.Sprintf("NewDecryptingReader: %v", err)
	}
	buf := grow(&hugeBufs.rd, bufSize)
	pos, diffAt := 0, -1
	res := ""
	if p := hlib.Recover(func() {
		for it := 0; ; it++ {
			if it > 4*len(ct)/bufSize+1000 {
				res = fmt.Sprintf("no progress after %d reads (%d bytes released)", it, pos)
				return
			}
			n, err := r.Read(buf)
			if n < 0 || n > len(buf) {
				res = fmt.Sprintf("Read returned n=%d for a buffer of %d", n, len(buf))
				return
			}
			if diffAt < 0 {
				if pos+n > len(pt) {
					diffAt = len(pt)
					if d := firstDiff(buf[:len(pt)-pos], pt[pos:]); d < len(pt)-pos {
						diffAt = pos + d
					}
				} else if !bytes.Equal(buf[:n], pt[pos:pos+n]) {
					diffAt = pos + firstDiff(buf[:n], pt[pos:pos+n])
				}
			}
			pos += n
			if err == nil {
				continue
			}
			if err == io.EOF {
				if n2, err2 := r.Read(buf[:8]); n2 != 0 || err2 != io.EOF {
					res = fmt.Sprintf("Read after a clean EOF returned (%d, %v)", n2, err2)
					return
				}
				switch {
				case diffAt >= 0:
					res = fmt.Sprintf("clean EOF after %d bytes, but they differ from the plaintext at offset %d", pos, diffAt)
				case pos != len(pt):
					res = fmt.Sprintf("clean EOF after %d of %d bytes", pos, len(pt))
				}
				return
			}
			res = fmt.Sprintf("error %q after %d of %d bytes", err.Error(), pos, len(pt))
			if diffAt >= 0 {
				res += fmt.Sprintf(" (released bytes differ from the plaintext at offset %d)", diffAt)
			}
			return
		}
	}); p != "" {
		return "Read panicked: " + p
	}
	return res
}

var hugeViolations int

func hugeSection(o *hlib.Out) {
	rng := hlib.NewRng(*hlib.FlagSeed, "c07b/huge")
	refTieSection(o, fork(rng, "tie"))
	specs := hugeQuick
	if hlib.Thorough() {
		specs = append(append([]hugeSpec(nil), hugeQuick...), hugeThoroughSpecs(fork(rng, "grid"))...)
	}
	leanDone := map[string]int{}
	t0 := time.Now()
	for i := range specs {
		t1 := time.Now()
		hugeKey(o, fork(rng, "key"), i, &specs[i], leanDone)
		if os.Getenv("C07B_TIMING") != "" {
			fmt.Fprintf(os.Stderr, "huge spec %d (%s seg=%d %s %v): %v, total %v\n", i, specs[i].typ, specs[i].seg, specs[i].api, specs[i].lens, time.Since(t1), time.Since(t0))
		}
	}
	hugeBufs.pt, hugeBufs.ct, hugeBufs.ref, hugeBufs.rd, hugeBufs.dec = nil, nil, nil, nil, nil
}

func segName(seg int) string {
	for _, b := range []struct {
		n    int
		name string
	}{{m4, "4MiB"}, {m8, "8MiB"}, {m16, "16MiB"}, {24 * mib, "24MiB"}, {m32, "32MiB"}, {64 * mib, "64MiB"}, {mib, "1MiB"}} {
		switch d := seg - b.n; {
		case d == 0:
			return b.name
		case d > 0 && d <= 64:
			return fmt.Sprintf("%s+%d", b.name, d)
		case d < 0 && d >= -64:
			return fmt.Sprintf("%s%d", b.name, d)
		}
	}
	switch {
	case seg < m4:
		return "<4MiB"
	case seg < m16:
		return "4..16MiB"
	}
	return "16..32MiB"
}

func hugeKey(o *hlib.Out, rng *hlib.Rng, si int, s *hugeSpec, leanDone map[string]int) {
	c := s.cfg(rng)
	ref := refOf(c)
	if err := ref.valid(); err != nil {
		panic(fmt.Sprintf("huge spec %d invalid: %v", si, err))
	}
	apiDesc := s.api
	var prim tink.StreamingAEAD
	var err error
	switch s.api {
	case "subtle", "key":
		prim, err = c.prim(s.api)
		if err != nil {
			o.Violate("huge: valid parameters refused at level %s (%s): %v", s.api, c.params(), err)
			return
		}
	case "keyset1":
		via := si % 3
		apiDesc = "single-key keyset (" + viaNames[via] + ")"
		prim = factory(o, []kentry{{c: c, primary: true}}, via)
	default:
		front := s.frontCfg(rng, c)
		via := si % 2
		apiDesc = fmt.Sprintf("keyset [%s %s seg=%d, RIGHT KEY (primary)] (%s)", front.short(), front.hkdf, front.seg, viaNames[via])
		prim = factory(o, []kentry{{c: front}, {c: c, primary: true}}, via)
	}
	if prim == nil {
		return
	}
	for li, class := range s.lens {
		o.Case()
		L := lenOf(c, class, rng)
		seed := rng.Bytes(7)
		ad := adFor(rng, si+li)
		if len(ad) > 40 {
			ad = ad[:40]
		}
		style := (si + li) % 4
		if !hlib.Thorough() && style == 2 {
			style = 1
		}
		desc := fmt.Sprintf("huge stream %d.%d: %s, API %s, plaintext %s (class %s: first segment holds %d, further ones %d), ad=%s, written with %s",
			si, li, c.params(), apiDesc, genTok(L, seed), class, c.first(), c.ptSeg(), hlib.Tok(ad), hugeWriteStyles[style])
		o.Emit("# "+desc, "# "+desc, false)
		o.Count("huge/streams")
		o.Count("huge/key/" + c.typ + "/seg=" + segName(c.seg))
		if s.front != "" {
			o.Count("huge/api/" + s.api + "/front=" + s.front)
		} else {
			o.Count("huge/api/" + s.api)
		}
		o.Count("huge/len/" + class)
		o.Count(fmt.Sprintf("huge/hdr/%d", c.hdr()))
		if c.off != 0 {
			o.Count("huge/offset/nonzero")
		} else {
			o.Count("huge/offset/0")
		}
		pt := grow(&hugeBufs.pt, L)
		genMsgInto(pt, seed)
		var fails []string

		// library-encrypt
		ct, err := hugeEncrypt(o, c, prim, ad, pt, style)
		if err != nil {
			fails = append(fails, fmt.Sprintf("library-encrypt failed: %v", err))
			ct = nil
		}
		if ct != nil {
			if want := ref.ctLen(L); len(ct) != want {
				fails = append(fails, fmt.Sprintf("library-encrypt: ciphertext has %d bytes, the format prescribes %d (%d segments)", len(ct), want, c.nseg(L)))
			}
			if len(ct) < c.hdr() || int(ct[0]) != c.hdr() {
				fails = append(fails, "library-encrypt: ciphertext does not start with the header length byte")
			} else {
				// library-encrypt vs reference-encrypt under the header's salt / prefix: byte-identical
				salt, pre := ct[1:1+c.ks], ct[1+c.ks:c.hdr()]
				rct, err := ref.encrypt(grow(&hugeBufs.ref, 0), ad, salt, pre, pt)
				if err != nil {
					panic(err)
				}
				hugeKeep(&hugeBufs.ref, rct)
				o.Count("huge/dir/library-encrypt=reference-encrypt")
				if !bytes.Equal(ct, rct) {
					d := firstDiff(ct, rct)
					fails = append(fails, fmt.Sprintf("library-encrypt -> compare: ciphertext (%d bytes) differs from the reference encryption under the same salt/prefix (%d bytes) at offset %d (segment %d of the format)",
						len(ct), len(rct), d, segIndex(c, d)))
				}
				// library-encrypt -> reference-decrypt
				o.Count("huge/dir/library-encrypt->reference-decrypt")
				got, err := ref.decrypt(grow(&hugeBufs.dec, 0), ad, ct)
				hugeKeep(&hugeBufs.dec, got)
				if err != nil {
					fails = append(fails, fmt.Sprintf("library-encrypt -> reference-decrypt: the independent implementation rejects the library's ciphertext: %v", err))
				} else if !bytes.Equal(got, pt) {
					fails = append(fails, fmt.Sprintf("library-encrypt -> reference-decrypt: plaintext differs at offset %d", firstDiff(got, pt)))
				}
				// thorough: the Lean model on the same input (> 16 MiB once per key type, some 4 MiB ones)
				if hlib.Thorough() && leanWanted(s, c, L, leanDone) {
					sum := sha256.Sum256(ct)
					o.Count("huge/lean-encsha")
					o.Emit(fmt.Sprintf("!T encsha %s %s %s %s %s", c.params(), hlib.Tok(ad), hlib.Tok(salt), hlib.Tok(pre), genTok(L, seed)),
						fmt.Sprintf("ok %d %s %s", len(ct), hlib.Tok(ct[:c.hdr()]), hex.EncodeToString(sum[:])), true)
				}
			}
			// own round trip through the sources
			for _, ki := range hugeKindsFor(si+li, 0, strings.HasPrefix(s.api, "keyset")) {
				k := hugeSrcKinds[ki]
				bs := hugeReadBufs[(si+li+ki)%len(hugeReadBufs)]
				o.Count("huge/source/" + k.name)
				o.Count("huge/dir/library-encrypt->library-decrypt")
				if r := hugeDecrypt(o, prim, ad, ct, pt, k, bs); r != "" {
					fails = append(fails, fmt.Sprintf("library-encrypt -> library-decrypt (source %s, read buffer %s): %s", k.name, bufName(bs), r))
				}
			}
		}
		// reference-encrypt -> library-decrypt
		salt2, pre2 := rng.Bytes(c.ks), rng.Bytes(7)
		rct, err := ref.encrypt(grow(&hugeBufs.ref, 0), ad, salt2, pre2, pt)
		if err != nil {
			panic(err)
		}
		hugeKeep(&hugeBufs.ref, rct)
		for _, ki := range hugeKindsFor(si+li, 1, strings.HasPrefix(s.api, "keyset")) {
			k := hugeSrcKinds[ki]
			bs := hugeReadBufs[(si+li+ki+1)%len(hugeReadBufs)]
			o.Count("huge/source/" + k.name)
			o.Count("huge/dir/reference-encrypt->library-decrypt")
			if r := hugeDecrypt(o, prim, ad, rct, pt, k, bs); r != "" {
				fails = append(fails, fmt.Sprintf("reference-encrypt (salt=%s prefix=%s) -> library-decrypt (source %s, read buffer %s): %s",
					hlib.Tok(salt2), hlib.Tok(pre2), k.name, bufName(bs), r))
			}
		}
		if len(fails) > 0 {
			o.Count("huge/FAILED")
			if hugeViolations < 8 {
				hugeViolations++
				if len(fails) > 6 {
					fails = append(fails[:6], fmt.Sprintf("… and %d more", len(fails)-6))
				}
				var labels []string
				for _, f := range fails {
					l := f
					if strings.HasPrefix(l, "reference-encrypt") {
						l = "reference-encrypt -> library-decrypt:"
					}
					if i := strings.IndexAny(l, ":("); i > 0 {
						l = strings.TrimSpace(l[:i])
					}
					if len(labels) == 0 || labels[len(labels)-1] != l {
						labels = append(labels, l)
					}
				}
				o.Violate("huge segments, %s seg=%d via %s, |pt|=%d: FAILED %s. Input: %s. Details: %s", c.typ, c.seg, s.api, L, strings.Join(labels, ", "), desc, strings.Join(fails, "; "))
			}
		}
	}
}

// hugeKeep remembers a grown buffer for reuse.
func hugeKeep(slot *[]byte, b []byte) {
	if cap(b) > cap(*slot) {
		*slot = b[:0]
	}
}

func bufName(n int) string {
	if n == 0 {
		return "|pt|+1"
	}
	return fmt.Sprint(n)
}

// segIndex: the segment of the format that ciphertext offset d lies in.
func segIndex(c *cfg, d int) int {
	if d < c.hdr()+c.fc() {
		return 0
	}
	return 1 + (d-c.hdr()-c.fc())/c.seg
}

// hugeKindsFor: which source kinds a stream is read through. Thorough: all six on the reference's ciphertext through
// a keyset, three rotating ones otherwise. Quick: two
// rotating kinds on the library's ciphertext; on the reference's the four basic kinds through a keyset (the
// key-matching reader replays the source), two rotating ones through a single primitive.
func hugeKindsFor(i, dir int, keyset bool) []int {
	if hlib.Thorough() {
		if keyset && dir == 1 {
			return []int{0, 1, 2, 3, 4, 5}
		}
		return []int{(i + dir) % 6, (i + dir + 2) % 6, (i + dir + 4 + i/6%2) % 6}
	}
	if dir == 1 {
		if keyset {
			return []int{0, 1, 2 + 2*(i%2), 3 + 2*((i/2)%2)}
		}
		return []int{i % 2, 2 + (i/2)%4}
	}
	return []int{(2 * i) % 6, (2*i + 3) % 6}
}

// leanWanted: thorough tier, which streams also go to the Lean model: the marked ones (at least 17 MiB under a
// segment size above 16 MiB, one per key type) and two streams per key type of 4..5 MiB.
func leanWanted(s *hugeSpec, c *cfg, L int, done map[string]int) bool {
	if s.lean {
		return true
	}
	if L >= 4*mib-100 && L <= 5*mib && done[c.typ+"/4"] < 2 {
		done[c.typ+"/4"]++
		return true
	}
	return false
}

// ---------- the reference implementation against the Lean model ----------

// refTieSection ties ref.go to Model/StreamKeys.lean: reference ciphertexts of small and medium streams over all
// parameter kinds are compared with the model's encryption (`T enc`, `T encsha`) and decoded by it (`T dec`).
// No library code is involved; a difference here is a mistake of the harness's reference.
func refTieSection(o *hlib.Out, rng *hlib.Rng) {
	type tie struct {
		typ          string
		ks           int
		hkdf, tagAlg string
		tagSize      int
		seg, off     int
		L            int
	}
	ties := []tie{
		{"gcm", 16, "SHA256", "", 16, 300, 0, 0}, {"gcm", 32, "SHA1", "", 16, 257, 5, 1000}, {"gcm", 16, "SHA512", "", 16, 4096, 0, 4096 - 24 - 16},
		{"gcm", 32, "SHA384", "", 16, 1000, 333, 5000}, {"gcm", 16, "SHA224", "", 16, 64*kib + 1, 0, 100000},
		{"ctr", 16, "SHA256", "SHA256", 32, 300, 0, 0}, {"ctr", 32, "SHA1", "SHA1", 10, 257, 5, 1000}, {"ctr", 16, "SHA512", "SHA512", 64, 4096, 0, 4096 - 24 - 64 + 1},
		{"ctr", 32, "SHA384", "SHA224", 17, 1000, 333, 5000}, {"ctr", 16, "SHA224", "SHA384", 48, 64*kib + 1, 7, 100000},
		{"gcm", 32, "SHA256", "", 16, 100, 0, 100 - 40 - 16}, {"ctr", 32, "SHA256", "SHA256", 16, 100, 3, 2*(100-16) + 100 - 3 - 40 - 16},
	}
	for i, t := range ties {
		o.Case()
		c := &cfg{typ: t.typ, ks: t.ks, hkdf: t.hkdf, tagAlg: t.tagAlg, tagSize: t.tagSize, seg: t.seg, off: t.off, ikm: rng.Bytes(rng.Pick(t.ks, 32, 47))}
		ref := refOf(c)
		seed := rng.Bytes(5)
		pt := make([]byte, t.L)
		genMsgInto(pt, seed)
		ad := adFor(rng, i)
		salt, pre := rng.Bytes(c.ks), rng.Bytes(7)
		ct, err := ref.encrypt(nil, ad, salt, pre, pt)
		if err != nil {
			panic(err)
		}
		back, err := ref.decrypt(nil, ad, ct)
		if err != nil || !bytes.Equal(back, pt) {
			panic(fmt.Sprintf("reference does not round-trip: %v", err))
		}
		desc := fmt.Sprintf("# reference implementation (ref.go) vs model: %s |pt|=%d", c.params(), t.L)
		o.Emit(desc, desc, false)
		o.Count("huge/ref-tie/" + c.typ)
		sum := sha256.Sum256(ct)
		if t.L <= 6000 {
			o.Emit(fmt.Sprintf("T enc %s %s %s %s %s", c.params(), hlib.Tok(ad), hlib.Tok(salt), hlib.Tok(pre), hlib.Tok(pt)), "ok "+hlib.Tok(ct), true)
		}
		o.Emit(fmt.Sprintf("T encsha %s %s %s %s %s", c.params(), hlib.Tok(ad), hlib.Tok(salt), hlib.Tok(pre), genTok(t.L, seed)),
			fmt.Sprintf("ok %d %s %s", len(ct), hlib.Tok(ct[:c.hdr()]), hex.EncodeToString(sum[:])), true)
		o.Emit(fmt.Sprintf("T dec %s %s %s", c.params(), hlib.Tok(ad), hlib.Tok(ct)), "ok "+hlib.Tok(pt), true)
		// the reference must reject what the model rejects: one flipped bit
		if len(ct) > c.hdr() {
			bad := append([]byte(nil), ct...)
			bad[c.hdr()+rng.Intn(len(ct)-c.hdr())] ^= 1 << uint(rng.Intn(8))
			if _, err := ref.decrypt(nil, ad, bad); err == nil {
				panic("reference accepts a manipulated stream")
			}
		}
	}
}
