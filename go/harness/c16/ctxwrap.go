//go:build verif

// Context-length boundary of slh_sign / slh_verify (FIPS 205 Algorithms 22 and 24: |ctx| > 255 is refused).
//
// A context of N > 255 bytes cannot be encoded: the length byte of M' = 0 | len(ctx) | ctx | M wraps, saturates or
// the context gets cut. Whatever an implementation that forgets the check builds, some OTHER (context, message)
// pair has exactly that encoding, so a genuine signature for that other pair would be accepted for (M, ctxN).
// Signatures that are invalid anyway do not expose this; the signatures presented here are therefore CRAFTED to be
// valid for each of the encodings a sloppy implementation could arrive at:
//
//	wrap        0 | byte(N)     | ctxN        | M     (length byte wraps; N = 256, 512: = empty context, message ctxN|M)
//	empty-ctx   0 | 0           | ctxN        | M     (signature made with the empty context over ctxN|M)
//	cut-255     0 | 255         | ctxN[:255]  | M     (context cut to the longest admissible one)
//	cut-mod     0 | byte(N)     | ctxN[:N%256]| M     (context cut to the wrapped length; N = 256, 512: context dropped)
//	sat-255     0 | 255         | ctxN        | M     (length byte saturates)
//
// Each crafted signature is shown to be valid for its encoding (G slhverify = 1 on both sides, and through the
// public Verify for the colliding admissible pair) and must be refused by Verify(M, sig, ctxN); the reference's
// word on (ctxN, M) is the `G slhfmt` line: "err". Sign and SignDeterministic must refuse the same contexts, and
// the longest admissible context (255 bytes) must round-trip.
package main

import (
	"bytes"
	"fmt"
	"runtime"
	"sync"

	"github.com/tink-crypto/tink-go/v2/internal/verifharness/hlib"
)

var wrapLens = []int{256, 257, 511, 512}

type craft struct {
	kind     string
	mp       []byte // the encoding the signature is valid for
	cctx     []byte // the admissible (context, message) pair with that encoding, if there is one
	cmsg     []byte
	hasPair  bool
	sig      []byte
	viaAPI   bool // made by SignDeterministic(cmsg, cctx) instead of the signInternal hook
	signErr  error
	internal error // verifyInternal(mp, sig)
}

type wrapCase struct {
	set      *pset
	key      *keyMat
	n        int
	ctx, msg []byte
	crafts   []*craft
}

// longCtxEncodings lists the encodings described above for (ctx, msg), |ctx| = N > 255.
func longCtxEncodings(ctx, msg []byte) []*craft {
	N := len(ctx)
	cat := func(parts ...[]byte) []byte { return bytes.Join(parts, nil) }
	var cs []*craft
	w := N % 256
	// wrap: 0 | byte(N) | ctx | msg  = fmtMsg(ctx[:w], ctx[w:] | msg)
	cs = append(cs, &craft{kind: "wrap", mp: cat([]byte{0, byte(N)}, ctx, msg), cctx: ctx[:w], cmsg: cat(ctx[w:], msg), hasPair: true})
	if w != 0 {
		cs = append(cs, &craft{kind: "empty-ctx", mp: cat([]byte{0, 0}, ctx, msg), cctx: []byte{}, cmsg: cat(ctx, msg), hasPair: true, viaAPI: true})
	}
	cs = append(cs, &craft{kind: "cut-255", mp: fmtMsg(ctx[:255], msg), cctx: ctx[:255], cmsg: msg, hasPair: true, viaAPI: true})
	cs = append(cs, &craft{kind: "cut-mod", mp: fmtMsg(ctx[:w], msg), cctx: ctx[:w], cmsg: msg, hasPair: true})
	// sat-255: 0 | 255 | ctx | msg = fmtMsg(ctx[:255], ctx[255:] | msg)
	cs = append(cs, &craft{kind: "sat-255", mp: cat([]byte{0, 255}, ctx, msg), cctx: ctx[:255], cmsg: cat(ctx[255:], msg), hasPair: true})
	return cs
}

func (c *craft) make(k *keyMat) {
	if c.viaAPI {
		c.sig, c.signErr = k.sk.SignDeterministic(c.cmsg, c.cctx)
	} else {
		c.sig = k.sk.VerifSignInternal(c.mp, k.pkB[:k.set.n]) // addrnd = PK.seed: the deterministic variant
	}
	if c.signErr == nil {
		c.internal = k.pk.VerifVerifyInternal(c.mp, c.sig)
	}
}

// verifyLongCtx reports whether Verify(msg, sig, ctx) refuses, as the `G slhfmt` answer.
func verifyLongCtx(o *hlib.Out, k *keyMat, what string, msg, sig, ctx []byte) string {
	var e error
	if p := hlib.Recover(func() { e = k.pk.Verify(msg, sig, ctx) }); p != "" {
		o.Violate("%s: Verify panics on a %d-byte context (%s): %s", k.set.name, len(ctx), what, p)
		return "err"
	}
	if e == nil {
		o.Violate("%s: Verify ACCEPTS a %d-byte context with %s (FIPS 205 Algorithm 24 refuses |ctx| > 255): pk=%s msg=%s ctx=%s sig=%s...",
			k.set.name, len(ctx), what, hlib.Tok(k.pkB), hlib.Tok(msg), hlib.Tok(ctx), hlib.Tok(sig[:min(len(sig), 32)]))
		return "ok accepted-a-long-context"
	}
	return "err"
}

func ctxWrap(o *hlib.Out, seed uint64, keys [][]*keyMat) {
	rng := hlib.NewRng(seed, "c16-ctxwrap") // own stream: the lines of the earlier sections do not move
	var cases []*wrapCase
	type b255 struct {
		set      *pset
		key      *keyMat
		ctx, msg []byte
		sig      []byte
		err      error
	}
	var bounds []*b255
	for si, s := range sets {
		k := keys[si][rng.Intn(len(keys[si]))]
		crafted := s.fast || hlib.Thorough()
		for _, n := range wrapLens {
			c := &wrapCase{set: s, key: k, n: n, ctx: rng.Bytes(n)}
			switch rng.Intn(4) {
			case 0:
				c.msg = []byte{}
			case 1:
				c.msg = rng.Bytes(1)
			default:
				c.msg = rng.Bytes(1 + rng.Intn(40))
			}
			if crafted {
				c.crafts = longCtxEncodings(c.ctx, c.msg)
			}
			cases = append(cases, c)
		}
		if crafted {
			bounds = append(bounds, &b255{set: s, key: k, ctx: rng.Bytes(255), msg: rng.Bytes(rng.Intn(40))})
		}
	}
	// all signatures here are randomness-free: make them in parallel
	var wg sync.WaitGroup
	sem := make(chan struct{}, runtime.NumCPU())
	spawn := func(f func()) {
		wg.Add(1)
		sem <- struct{}{}
		go func() { defer wg.Done(); f(); <-sem }()
	}
	for _, slow := range []bool{true, false} {
		for _, c := range cases {
			if c.set.fast == slow {
				continue
			}
			for _, cr := range c.crafts {
				spawn(func() { cr.make(c.key) })
			}
		}
		for _, b := range bounds {
			if b.set.fast != slow {
				spawn(func() { b.sig, b.err = b.key.sk.SignDeterministic(b.msg, b.ctx) })
			}
		}
	}
	wg.Wait()

	for _, c := range cases {
		s, k := c.set, c.key
		o.Case()
		fmtLine := fmt.Sprintf("!G slhfmt %s %s", hlib.Tok(c.ctx), hlib.Tok(c.msg))
		// signing side: every signing entry point refuses
		res := "err"
		if sig, e := k.sk.SignDeterministic(c.msg, c.ctx); e == nil {
			res = "ok accepted-a-long-context"
			o.Violate("%s: SignDeterministic signs with a %d-byte context (FIPS 205 Algorithm 22 refuses |ctx| > 255); the signature %s for the pair ctx=%s msg=%s",
				s.name, c.n, verdictFor(k, sig, c.ctx, c.msg), hlib.Tok(c.ctx[:c.n%256]), hlib.Tok(append(append([]byte{}, c.ctx[c.n%256:]...), c.msg...)))
		}
		o.Count(fmt.Sprintf("ctx-too-long/%d/SignDeterministic", c.n))
		o.Emit(fmtLine, res, true)
		res = "err"
		if sig, e := k.sk.Sign(c.msg, c.ctx); e == nil { // reads crypto/rand only if it wrongly goes on
			res = "ok accepted-a-long-context"
			o.Violate("%s: Sign signs with a %d-byte context (FIPS 205 Algorithm 22 refuses |ctx| > 255); the signature %s for the pair ctx=%s msg=%s",
				s.name, c.n, verdictFor(k, sig, c.ctx, c.msg), hlib.Tok(c.ctx[:c.n%256]), hlib.Tok(append(append([]byte{}, c.ctx[c.n%256:]...), c.msg...)))
		}
		o.Count(fmt.Sprintf("ctx-too-long/%d/Sign", c.n))
		o.Emit(fmtLine, res, true)
		// verification side, signatures that cannot be valid: all-zero and a genuine one for (ctx[:255], msg) cut short
		o.Emit(fmtLine, verifyLongCtx(o, k, "an all-zero signature", c.msg, make([]byte, s.sigLen()), c.ctx), true)
		o.Count(fmt.Sprintf("ctx-too-long/%d/Verify/zero-signature", c.n))
		// verification side, crafted signatures
		for _, cr := range c.crafts {
			what := "a signature crafted for the " + cr.kind + " encoding"
			if cr.signErr != nil {
				o.Violate("%s: cannot sign the admissible pair behind the %s encoding: %v", s.name, cr.kind, cr.signErr)
				continue
			}
			// the crafted signature is a genuine one for its encoding ...
			o.Emit(fmt.Sprintf("!G slhverify %s %s %s %s", s.name, hlib.Tok(k.pkB), hlib.Tok(cr.mp), hlib.Tok(cr.sig)), b01(cr.internal), true)
			if cr.internal != nil {
				o.Violate("%s: verifyInternal rejects the library's own signature (%s encoding of a %d-byte context)", s.name, cr.kind, c.n)
			}
			if cr.hasPair {
				if !bytes.Equal(fmtMsg(cr.cctx, cr.cmsg), cr.mp) {
					panic("harness: colliding pair does not have the crafted encoding")
				}
				if e := k.pk.Verify(cr.cmsg, cr.sig, cr.cctx); e != nil {
					o.Violate("%s: Verify rejects a genuine signature for a %d-byte context (%s pair of a %d-byte context): %v", s.name, len(cr.cctx), cr.kind, c.n, e)
				}
			}
			// ... and must not count for (msg, ctxN)
			o.Emit(fmtLine, verifyLongCtx(o, k, what, c.msg, cr.sig, c.ctx), true)
			o.Count(fmt.Sprintf("ctx-too-long/%d/Verify/crafted-%s", c.n, cr.kind))
			o.Count("ctx-too-long/crafted-per-set/" + s.short())
		}
	}

	// the longest admissible context
	for _, b := range bounds {
		s, k := b.set, b.key
		o.Case()
		if b.err != nil {
			o.Violate("%s: SignDeterministic refuses a 255-byte context: %v", s.name, b.err)
			continue
		}
		mp := fmtMsg(b.ctx, b.msg)
		o.Emit(fmt.Sprintf("!G slhfmt %s %s", hlib.Tok(b.ctx), hlib.Tok(b.msg)), "ok "+hlib.Tok(mp), true)
		e := k.pk.Verify(b.msg, b.sig, b.ctx)
		if e != nil {
			o.Violate("%s: Verify rejects a genuine signature made with a 255-byte context: %v", s.name, e)
		}
		o.Emit(fmt.Sprintf("!G slhverify %s %s %s %s", s.name, hlib.Tok(k.pkB), hlib.Tok(mp), hlib.Tok(b.sig)), b01(e), true)
		o.Count("ctx-255/SignDeterministic+Verify/" + s.short())
		if s.fast {
			hs, e2 := k.sk.Sign(b.msg, b.ctx) // main goroutine: one read of crypto/rand
			if e2 != nil {
				o.Violate("%s: Sign refuses a 255-byte context: %v", s.name, e2)
			} else {
				e3 := k.pk.Verify(b.msg, hs, b.ctx)
				if e3 != nil {
					o.Violate("%s: Verify rejects a genuine hedged signature made with a 255-byte context: %v", s.name, e3)
				}
				o.Emit(fmt.Sprintf("!G slhverify %s %s %s %s", s.name, hlib.Tok(k.pkB), hlib.Tok(mp), hlib.Tok(hs)), b01(e3), true)
				o.Count("ctx-255/Sign+Verify/" + s.short())
			}
		}
		// one byte more, same signature: the 255-byte signature must not count for any 256-byte extension, nor the
		// other way round for the context shortened to 254 bytes with the byte moved into the message
		ext := append(append([]byte{}, b.ctx...), byte(rng.Intn(256)))
		o.Emit(fmt.Sprintf("!G slhfmt %s %s", hlib.Tok(ext), hlib.Tok(b.msg)), verifyLongCtx(o, k, "the signature of its first 255 bytes", b.msg, b.sig, ext), true)
		m2 := append(append([]byte{}, b.ctx[254:]...), b.msg...)
		e4 := k.pk.Verify(m2, b.sig, b.ctx[:254])
		if e4 == nil {
			o.Violate("%s: a signature for (ctx255, msg) verifies for (ctx255[:254], ctx255[254:]|msg)", s.name)
		}
		o.Emit(fmt.Sprintf("!G slhverify %s %s %s %s", s.name, hlib.Tok(k.pkB), hlib.Tok(fmtMsg(b.ctx[:254], m2)), hlib.Tok(b.sig)), b01(e4), true)
		o.Count("ctx-255/neighbours/" + s.short())
	}
}

// verdictFor says whether a signature wrongly made with the over-long context ctx verifies for the admissible pair
// whose encoding a wrapping length byte collides with.
func verdictFor(k *keyMat, sig, ctx, msg []byte) string {
	w := len(ctx) % 256
	if k.pk.Verify(append(append([]byte{}, ctx[w:]...), msg...), sig, ctx[:w]) == nil {
		return "VERIFIES"
	}
	return "does not verify"
}
